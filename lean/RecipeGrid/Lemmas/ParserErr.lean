import RecipeGrid.Model.ParserErr
import RecipeGrid.Lemmas.Parser
/-! The instrumented parser of `Model/ParserErr.lean` is the parser of `Model/Parser.lean` plus a record of the furthest
    failure: forgetting the record (`Sim`) gives back the plain parser, rule by rule.  Hence
    `parseE_erase : (parseE src).erase = parse src`. -/
namespace RG
namespace ParserE
open Parser (P PState)

/-! ## the monad, applied -/

@[simp] theorem pure_apply {α} (a : α) (t : Array Char) (s : PState) :
    (pure a : PE α) t s = (some (a, s), none) := rfl

theorem bind_apply {α β} (m : PE α) (f : α → PE β) (t : Array Char) (s : PState) :
    (m >>= f) t s = match (m t s).1 with
      | none => (none, (m t s).2)
      | some (a, s') => ((f a t s').1, fmax (m t s).2 (f a t s').2) := rfl

theorem orElse_apply {α} (p q : PE α) (t : Array Char) (s : PState) :
    (p <|> q) t s = match (p t s).1 with
      | some r => (some r, (p t s).2)
      | none => ((q t s).1, fmax (p t s).2 (q t s).2) := rfl

theorem map_eq_bind {α β} (f : α → β) (m : PE α) : f <$> m = m >>= fun a => pure (f a) := rfl

theorem term_apply {α} (p : P α) (t : Array Char) (s : PState) :
    term p t s = match p t s with
      | some r => (some r, none)
      | none => (none, some s.pos) := rfl

@[simp] theorem fmax_none_left (b : Far) : fmax none b = b := by cases b <;> rfl
@[simp] theorem fmax_none_right (a : Far) : fmax a none = a := by cases a <;> rfl

/-! ## forgetting the furthest failure -/

/-- `pe` without its record of failures is `p` -/
def Sim {α} (pe : PE α) (p : P α) : Prop := ∀ t s, (pe t s).1 = p t s

theorem Sim.pure {α} (a : α) : Sim (pure a : PE α) (pure a) := fun _ _ => rfl

theorem Sim.term {α} (p : P α) : Sim (term p) p := by
  intro t s
  rw [term_apply]
  cases p t s <;> rfl

theorem Sim.lift {α} (p : P α) : Sim (lift p) p := fun _ _ => rfl

theorem Sim.fail {α} : Sim (fail : PE α) (Parser.fail : P α) := Sim.term _

theorem Sim.bind {α β} {m : PE α} {m' : P α} {f : α → PE β} {f' : α → P β} (hm : Sim m m')
    (hf : ∀ a, Sim (f a) (f' a)) : Sim (m >>= f) (m' >>= f') := by
  intro t s
  rw [bind_apply, Parser.bind_apply, ← hm t s]
  cases (m t s).1 with
  | none => rfl
  | some r => exact hf r.1 t r.2

theorem Sim.orElse {α} {p q : PE α} {p' q' : P α} (hp : Sim p p') (hq : Sim q q') : Sim (p <|> q) (p' <|> q') := by
  intro t s
  rw [orElse_apply, Parser.orElse_apply, ← hp t s]
  cases (p t s).1 with
  | none => exact hq t s
  | some r => rfl

theorem Sim.map {α β} (f : α → β) {p : PE α} {p' : P α} (hp : Sim p p') : Sim (f <$> p) (f <$> p') :=
  Sim.bind hp fun _ => Sim.pure _

theorem Sim.opt {α} {p : PE α} {p' : P α} (hp : Sim p p') : Sim (opt p) (Parser.opt p') :=
  Sim.orElse (Sim.map _ hp) (Sim.pure _)

theorem Sim.getPos : Sim getPos Parser.getPos := Sim.lift _
theorem Sim.remaining : Sim remaining Parser.remaining := Sim.lift _

theorem Sim.manyF {α} {p : PE α} {p' : P α} (hp : Sim p p') : ∀ fuel, Sim (manyF p fuel) (Parser.manyF p' fuel)
  | 0 => Sim.pure _
  | fuel + 1 => by
    unfold ParserE.manyF Parser.manyF
    exact Sim.orElse (Sim.bind hp fun _ => Sim.bind (Sim.manyF hp fuel) fun _ => Sim.pure _) (Sim.pure _)

theorem Sim.many {α} {p : PE α} {p' : P α} (hp : Sim p p') : Sim (many p) (Parser.many p') :=
  Sim.bind Sim.remaining fun fuel => Sim.manyF hp fuel

theorem Sim.withText {α} {p : PE α} {p' : P α} (hp : Sim p p') : Sim (withText p) (Parser.withText p') := by
  intro t s
  unfold ParserE.withText Parser.withText
  rw [← hp t s]
  cases (p t s).1 with
  | none => rfl
  | some r => rfl

theorem Sim.textOf {p : PE Unit} {p' : P Unit} (hp : Sim p p') : Sim (textOf p) (Parser.textOf p') :=
  Sim.bind (Sim.withText hp) fun _ => Sim.pure _

theorem Sim.skipManyOpt (p : Char → Bool) : Sim (skipManyOpt p) (Parser.skipMany p) := fun _ _ => rfl

/-! ## the rules -/

theorem Sim.lit (c : Char) : Sim (lit c) (Parser.lit c) := Sim.term _
theorem Sim.hsp : Sim hsp Parser.hsp := Sim.term _
theorem Sim.ohsp : Sim ohsp Parser.ohsp := Sim.skipManyOpt _
theorem Sim.osp : Sim osp Parser.osp := Sim.skipManyOpt _
theorem Sim.eof : Sim eof Parser.eof := Sim.term _
theorem Sim.digits : Sim digits Parser.digits := Sim.term _
theorem Sim.decimal : Sim decimal Parser.decimal := Sim.term _

/-- the last regex of `fraction`, with what follows it -/
theorem sim_denominator {β} (g : Str → β) :
    Sim (term denominator >>= fun denom => pure (g denom))
      (Parser.digits >>= fun denom => if Parser.natOfDigits denom = 0 then Parser.fail else pure (g denom)) := by
  intro t s
  rw [bind_apply, Parser.bind_apply, term_apply]
  unfold denominator
  rw [Parser.bind_apply]
  cases Parser.digits t s with
  | none => rfl
  | some r =>
    obtain ⟨ds, s1⟩ := r
    by_cases h : Parser.natOfDigits ds = 0
    · simp only [h, if_true, Parser.fail_apply]
    · simp only [h, if_false, Parser.pure_apply, pure_apply]

theorem Sim.fraction : Sim fraction Parser.fraction := by
  unfold ParserE.fraction Parser.fraction
  refine Sim.bind Sim.getPos fun start => ?_
  refine Sim.bind (Sim.opt (Sim.bind Sim.digits fun ds => Sim.bind Sim.hsp fun _ => Sim.pure _)) fun integer => ?_
  refine Sim.bind Sim.getPos fun numerStart => ?_
  refine Sim.bind Sim.digits fun numer => ?_
  refine Sim.bind Sim.ohsp fun _ => ?_
  refine Sim.bind (Sim.lit _) fun _ => ?_
  refine Sim.bind Sim.ohsp fun _ => ?_
  exact sim_denominator _

theorem Sim.number : Sim number Parser.number := Sim.orElse Sim.fraction Sim.decimal

theorem Sim.nakedString : Sim nakedString Parser.nakedString := Sim.term _

theorem Sim.escaped : Sim escaped Parser.escaped :=
  Sim.bind (Sim.lit _) fun _ => Sim.bind (Sim.term _) fun _ => Sim.pure _

theorem Sim.quotedString (q : Char) : Sim (quotedString q) (Parser.quotedString q) := by
  unfold ParserE.quotedString Parser.quotedString
  refine Sim.bind Sim.getPos fun off => ?_
  refine Sim.bind (Sim.lit _) fun _ => ?_
  refine Sim.bind (Sim.many (Sim.orElse Sim.escaped (Sim.term _))) fun body => ?_
  exact Sim.bind (Sim.lit _) fun _ => Sim.pure _

theorem Sim.bracketedItem : Sim bracketedItem Parser.bracketedItem := by
  unfold ParserE.bracketedItem Parser.bracketedItem
  refine Sim.orElse ?_ (Sim.orElse ?_ ?_)
  · refine Sim.bind Sim.number fun x => ?_
    obtain ⟨off, n⟩ := x
    exact Sim.pure _
  · exact Sim.bind Sim.getPos fun off => Sim.bind Sim.escaped fun c => Sim.pure _
  · exact Sim.bind Sim.getPos fun off => Sim.bind (Sim.term _) fun c => Sim.pure _

theorem Sim.bracketedString : Sim bracketedString Parser.bracketedString := by
  unfold ParserE.bracketedString Parser.bracketedString
  refine Sim.bind Sim.getPos fun off => ?_
  refine Sim.bind (Sim.lit _) fun _ => ?_
  refine Sim.bind (Sim.many Sim.bracketedItem) fun body => ?_
  exact Sim.bind (Sim.lit _) fun _ => Sim.pure _

theorem Sim.stringF (static : Bool) : ∀ fuel, Sim (stringF static fuel) (Parser.stringF static fuel)
  | 0 => Sim.fail
  | fuel + 1 => by
    unfold ParserE.stringF Parser.stringF
    refine Sim.bind ?_ fun first => ?_
    · refine Sim.orElse Sim.nakedString (Sim.orElse (Sim.quotedString _) (Sim.orElse (Sim.quotedString _) ?_))
      cases static
      · exact Sim.bracketedString
      · exact Sim.fail
    refine Sim.bind (Sim.opt ?_) fun rest => Sim.pure _
    refine Sim.bind Sim.getPos fun off => ?_
    refine Sim.bind (Sim.textOf Sim.ohsp) fun space => ?_
    exact Sim.bind (Sim.stringF static fuel) fun more => Sim.pure _

theorem Sim.string (static : Bool) : Sim (string static) (Parser.string static) :=
  Sim.bind Sim.remaining fun _ => Sim.stringF static _

theorem Sim.preposition : Sim preposition Parser.preposition := Sim.term _
theorem Sim.remainder : Sim remainder Parser.remainder := Sim.term _
theorem Sim.knownUnit : Sim knownUnit Parser.knownUnit := Sim.term _

theorem Sim.hspPreposition : Sim hspPreposition Parser.hspPreposition :=
  Sim.orElse (Sim.textOf (Sim.bind Sim.hsp fun _ => Sim.preposition)) (Sim.pure _)

theorem Sim.proportion : Sim proportion Parser.proportion := by
  unfold ParserE.proportion Parser.proportion
  refine Sim.orElse ?_ ?_
  · refine Sim.bind Sim.getPos fun off => ?_
    refine Sim.bind (Sim.textOf Sim.remainder) fun wording => ?_
    exact Sim.bind Sim.hspPreposition fun prep => Sim.pure _
  · refine Sim.bind Sim.number fun x => ?_
    obtain ⟨off, v⟩ := x
    refine Sim.orElse ?_ (Sim.orElse ?_ ?_)
    · exact Sim.bind (Sim.textOf (Sim.bind Sim.hsp fun _ => Sim.preposition)) fun prep => Sim.pure _
    · exact Sim.bind (Sim.textOf (Sim.bind Sim.ohsp fun _ => Sim.bind (Sim.lit _) fun _ =>
        Sim.bind Sim.hspPreposition fun _ => Sim.pure _)) fun prep => Sim.pure _
    · exact Sim.bind (Sim.textOf (Sim.bind Sim.ohsp fun _ => Sim.lit _)) fun prep => Sim.pure _

theorem Sim.explicitQuantity : Sim explicitQuantity Parser.explicitQuantity := by
  unfold ParserE.explicitQuantity Parser.explicitQuantity
  refine Sim.bind Sim.getPos fun off => ?_
  refine Sim.bind (Sim.lit _) fun _ => ?_
  refine Sim.bind Sim.ohsp fun _ => ?_
  refine Sim.bind Sim.number fun x => ?_
  obtain ⟨o, v⟩ := x
  refine Sim.bind (Sim.opt (Sim.bind (Sim.textOf Sim.ohsp) fun spacing =>
    Sim.bind (Sim.string true) fun u => Sim.pure _)) fun unit => ?_
  refine Sim.bind Sim.ohsp fun _ => ?_
  refine Sim.bind (Sim.lit _) fun _ => ?_
  exact Sim.bind Sim.hspPreposition fun prep => Sim.pure _

theorem Sim.implicitQuantity : Sim implicitQuantity Parser.implicitQuantity := by
  unfold ParserE.implicitQuantity Parser.implicitQuantity
  refine Sim.bind Sim.number fun x => ?_
  obtain ⟨off, v⟩ := x
  refine Sim.bind (Sim.opt ?_) fun unit => ?_
  · refine Sim.bind (Sim.textOf Sim.ohsp) fun spacing => ?_
    refine Sim.bind Sim.getPos fun unitOff => ?_
    refine Sim.bind (Sim.textOf Sim.knownUnit) fun name => ?_
    exact Sim.bind Sim.hspPreposition fun prep => Sim.pure _
  · cases unit with
    | none => exact Sim.pure _
    | some u => obtain ⟨spacing, u, prep⟩ := u; exact Sim.pure _

theorem Sim.reference : Sim reference Parser.reference := by
  unfold ParserE.reference Parser.reference
  refine Sim.bind (Sim.opt ?_) fun amount => ?_
  · refine Sim.bind (Sim.orElse Sim.proportion (Sim.orElse Sim.explicitQuantity Sim.implicitQuantity)) fun a => ?_
    exact Sim.bind Sim.ohsp fun _ => Sim.pure _
  · exact Sim.bind (Sim.string false) fun name => Sim.pure _

theorem Sim.step {e : PE AExpr} {e' : P AExpr} (he : Sim e e') : Sim (step e) (Parser.step e') := by
  unfold ParserE.step Parser.step
  refine Sim.bind (Sim.string false) fun name => ?_
  refine Sim.bind Sim.ohsp fun _ => ?_
  refine Sim.bind (Sim.lit _) fun _ => ?_
  refine Sim.bind Sim.osp fun _ => ?_
  refine Sim.bind he fun first => ?_
  refine Sim.bind (Sim.many (Sim.bind Sim.osp fun _ => Sim.bind (Sim.lit _) fun _ => Sim.bind Sim.osp fun _ => he))
    fun rest => ?_
  refine Sim.bind (Sim.opt (Sim.bind Sim.osp fun _ => Sim.lit _)) fun _ => ?_
  refine Sim.bind Sim.osp fun _ => ?_
  exact Sim.bind (Sim.lit _) fun _ => Sim.pure _

theorem Sim.ltrShorthand {e : PE AExpr} {e' : P AExpr} (he : Sim e e') :
    Sim (ltrShorthand e) (Parser.ltrShorthand e') := by
  unfold ParserE.ltrShorthand Parser.ltrShorthand
  refine Sim.bind he fun first => ?_
  refine Sim.bind (Sim.many (Sim.bind Sim.ohsp fun _ => Sim.bind (Sim.lit _) fun _ => Sim.bind Sim.ohsp fun _ =>
    Sim.string false)) fun actions => ?_
  exact Sim.pure _

theorem Sim.expr : ∀ fuel, Sim (expr fuel) (Parser.expr fuel)
  | 0 => Sim.fail
  | fuel + 1 => by
    unfold ParserE.expr Parser.expr
    refine Sim.orElse (Sim.step (Sim.expr fuel)) (Sim.orElse Sim.reference ?_)
    refine Sim.bind (Sim.lit _) fun _ => ?_
    refine Sim.bind Sim.osp fun _ => ?_
    refine Sim.bind (Sim.ltrShorthand (Sim.expr fuel)) fun e => ?_
    exact Sim.bind Sim.osp fun _ => Sim.bind (Sim.lit _) fun _ => Sim.pure _

theorem Sim.eol : Sim eol Parser.eol :=
  Sim.orElse (Sim.term _) (Sim.bind (Sim.lift _) fun _ => Sim.eof)

theorem Sim.outputList : Sim outputList Parser.outputList := by
  unfold ParserE.outputList Parser.outputList
  refine Sim.bind (Sim.string false) fun first => ?_
  refine Sim.bind (Sim.many (Sim.bind Sim.ohsp fun _ => Sim.bind (Sim.lit _) fun _ => Sim.bind Sim.ohsp fun _ =>
    Sim.string false)) fun rest => ?_
  exact Sim.pure _

theorem Sim.assign : Sim assign Parser.assign := Sim.term _

theorem Sim.stmt : Sim stmt Parser.stmt := by
  unfold ParserE.stmt Parser.stmt
  refine Sim.bind (Sim.opt ?_) fun target => ?_
  · refine Sim.bind Sim.outputList fun outputs => ?_
    refine Sim.bind Sim.ohsp fun _ => ?_
    refine Sim.bind Sim.assign fun named => ?_
    exact Sim.bind Sim.ohsp fun _ => Sim.pure _
  refine Sim.bind Sim.remaining fun fuel => ?_
  refine Sim.bind (Sim.ltrShorthand (Sim.expr _)) fun e => ?_
  exact Sim.bind Sim.eol fun _ => Sim.pure _

theorem Sim.recipe : Sim recipe Parser.recipe := by
  unfold ParserE.recipe Parser.recipe
  refine Sim.bind Sim.osp fun _ => ?_
  refine Sim.bind Sim.stmt fun first => ?_
  refine Sim.bind (Sim.many Sim.stmt) fun rest => ?_
  exact Sim.bind Sim.eof fun _ => Sim.pure _

end ParserE

/-- the instrumented parser accepts exactly the same texts, with exactly the same AST -/
theorem parseE_erase (src : Str) : (parseE src).erase = parse src := by
  unfold parseE parse
  rw [← ParserE.Sim.recipe src.toArray ⟨0, false⟩]
  cases h : (ParserE.recipe src.toArray ⟨0, false⟩) with
  | mk r far =>
    cases r with
    | none => rfl
    | some x => rfl

end RG
