import RecipeGrid.Model.Site
import RecipeGrid.Lemmas.Site
/-! Helper lemmas for `Props/C14b.lean` (reachability of every page from the home page). Nothing here is a
    specification: which links a category page carries, and the structural induction over one hierarchy,
    stated for an abstract "links to" relation. -/
namespace RG

-- ================================================================ reflexive-transitive closure
/-- reflexive-transitive closure of `R`, growing at the far end -/
inductive Star {α : Type} (R : α → α → Prop) (a : α) : α → Prop
  | refl : Star R a a
  | tail {b c : α} : Star R a b → R b c → Star R a c

theorem Star.single {α : Type} {R : α → α → Prop} {a b : α} (h : R a b) : Star R a b := Star.tail Star.refl h

theorem Star.trans {α : Type} {R : α → α → Prop} {a b c : α} (h1 : Star R a b) (h2 : Star R b c) : Star R a c := by
  induction h2 with
  | refl => exact h1
  | tail _ hbc ih => exact Star.tail ih hbc

theorem Star.head {α : Type} {R : α → α → Prop} {a b c : α} (h1 : R a b) (h2 : Star R b c) : Star R a c :=
  (Star.single h1).trans h2

-- ================================================================ the links of a category page
theorem catPage_path (sv : Option Nat) (chain : List (Str × Str)) (dirs : List Str) (title : Str)
    (subs : List (Str × Str × Str)) (recs : List (Str × Str × List Page × Str)) :
    (catPage sv chain dirs title subs recs).path = catPath sv dirs := rfl

/-- breadcrumbs: a category page links to every entry of its chain -/
theorem catPage_links_chain (sv : Option Nat) (chain : List (Str × Str)) (dirs : List Str) (title : Str)
    (subs : List (Str × Str × Str)) (recs : List (Str × Str × List Page × Str)) (c : Str × Str) (hc : c ∈ chain) :
    hrefRelative (catPath sv dirs) c.2 ∈ (catPage sv chain dirs title subs recs).links := by
  simp only [catPage, breadcrumbs, List.mem_append, List.mem_map]
  exact .inl (.inl (.inl ⟨c, hc, rfl⟩))

/-- sub-category list: a category page links to the category page of each sub-directory -/
theorem catPage_links_sub (sv : Option Nat) (chain : List (Str × Str)) (dirs : List Str) (title : Str)
    (subdirs : List Dir) (recs : List (Str × Str × List Page × Str)) (s : Dir) (hs : s ∈ subdirs) :
    hrefRelative (catPath sv dirs) (catPath sv (dirs ++ [s.name]))
      ∈ (catPage sv chain dirs title (subEntries sv dirs subdirs) recs).links := by
  simp only [catPage, List.mem_append, List.mem_map]
  refine .inl (.inr ⟨(s.title, catPath sv (dirs ++ [s.name]), s.name), ?_, rfl⟩)
  rw [mem_insertionSort]
  exact List.mem_map.mpr ⟨s, hs, rfl⟩

/-- recipe list: a category page links to the list target of each of its recipes -/
theorem catPage_links_rec (M : Nat) (sv : Option Nat) (chain chain' : List (Str × Str)) (dirs : List Str) (title : Str)
    (subs : List (Str × Str × Str)) (recipes : List RecipeFile) (r : RecipeFile) (hr : r ∈ recipes) :
    hrefRelative (catPath sv dirs) (recEntry M sv chain' dirs r).2.1
      ∈ (catPage sv chain dirs title subs (recipes.map (recEntry M sv chain' dirs))).links := by
  simp only [catPage, List.mem_append, List.mem_map]
  refine .inr ⟨recEntry M sv chain' dirs r, ?_, rfl⟩
  rw [mem_insertionSort]
  exact List.mem_map.mpr ⟨r, hr, rfl⟩

/-- the list target of a recipe, spelled out -/
def recTarget (sv : Option Nat) (dirs : List Str) (r : RecipeFile) : Str :=
  match r.servings, sv with
  | none, _ => recipePath none dirs r.file
  | some _, some n => recipePath (some n) dirs r.file
  | some native, none => recipePath (some native) dirs r.file

theorem recEntry_target_eq (M : Nat) (sv : Option Nat) (chain : List (Str × Str)) (dirs : List Str) (r : RecipeFile) :
    (recEntry M sv chain dirs r).2.1 = recTarget sv dirs r := by
  unfold recEntry recTarget
  cases r.servings <;> cases sv <;> rfl

/-- for a recipe that has a page in this hierarchy, the list target is that page -/
theorem recTarget_same (sv : Option Nat) (dirs : List Str) (r : RecipeFile) (h : r.servings.isSome = sv.isSome) :
    recTarget sv dirs r = recipePath sv dirs r.file := by
  unfold recTarget
  cases hr : r.servings <;> cases sv <;> simp_all

/-- the category page of `d` (the first page `categoryPages` emits) -/
def headPage (M : Nat) (sv : Option Nat) (chain : List (Str × Str)) (dirs : List Str) (isRoot : Bool) (d : Dir) : Page :=
  catPage sv (chainOf sv chain dirs isRoot d) (catDirs dirs isRoot d) (catTitle sv isRoot d)
    (subEntries sv (catDirs dirs isRoot d) d.subdirs)
    (d.recipes.map (recEntry M sv (chainOf sv chain dirs isRoot d) (catDirs dirs isRoot d)))

theorem headPage_mem (M : Nat) (sv : Option Nat) (chain : List (Str × Str)) (dirs : List Str) (isRoot : Bool) (d : Dir) :
    headPage M sv chain dirs isRoot d ∈ (categoryPages M sv chain dirs isRoot d).1 :=
  (mem_categoryPages ..).mpr (.inl rfl)

theorem headPage_path (M : Nat) (sv : Option Nat) (chain : List (Str × Str)) (dirs : List Str) (isRoot : Bool) (d : Dir) :
    (headPage M sv chain dirs isRoot d).path = catPath sv (catDirs dirs isRoot d) := rfl

-- ================================================================ counting slashes: children lie deeper
/-- number of `/` in a path -/
def slashes (s : Str) : Nat := s.count '/'

theorem slashes_append (a b : Str) : slashes (a ++ b) = slashes a + slashes b := List.count_append
theorem slashes_cons_slash (a : Str) : slashes ('/' :: a) = slashes a + 1 := by simp [slashes]
theorem slashes_of_not_mem (a : Str) (h : '/' ∉ a) : slashes a = 0 := List.count_eq_zero.mpr h

/-- an absolute path with slash-free segments has as many slashes as segments -/
theorem slashes_abs (segs : List Str) (hne : segs ≠ []) (h : ∀ s ∈ segs, '/' ∉ s) :
    slashes ('/' :: joinSlash segs) = segs.length := by
  induction segs with
  | nil => exact absurd rfl hne
  | cons a t ih =>
    cases t with
    | nil => rw [joinSlash_singleton, slashes_cons_slash, slashes_of_not_mem a (h a (by simp))]; rfl
    | cons b t =>
      have := ih (by simp) (fun s hs => h s (by simp [hs]))
      rw [joinSlash_cons_cons, slashes_cons_slash, slashes_append, slashes_of_not_mem a (h a (by simp)), this]
      simp

theorem catDir_snoc (sv : Option Nat) (dirs : List Str) (x : Str) : catDir sv (dirs ++ [x]) = catDir sv dirs ++ '/' :: x := by
  unfold catDir
  rw [← List.cons_append, joinSlash_append_singleton _ _ (by simp)]
  rfl

theorem slashes_catPath (sv : Option Nat) (dirs : List Str) : slashes (catPath sv dirs) = slashes (catDir sv dirs) + 1 := by
  unfold catPath
  rw [slashes_append]
  rfl

theorem slashes_catPath_le_sub (sv : Option Nat) (dirs : List Str) (x : Str) :
    slashes (catPath sv dirs) ≤ slashes (catPath sv (dirs ++ [x])) := by
  rw [slashes_catPath, slashes_catPath, catDir_snoc, slashes_append, slashes_cons_slash]
  omega

theorem slashes_catPath_le_recipe (sv : Option Nat) (dirs : List Str) (file : Str) :
    slashes (catPath sv dirs) ≤ slashes (recipePath sv dirs file) := by
  unfold recipePath
  rw [slashes_catPath, slashes_append, slashes_append, slashes_cons_slash]
  omega

-- ================================================================ one hierarchy is connected below its root page
/-- every page of a hierarchy is reached from the hierarchy's category page along sub-category and recipe list links,
    for any relation `R` that holds whenever a page in `S` carries `href.relative` to the path of another page in `S`
    that does not lie higher up -/
theorem hierarchy_star (M : Nat) (sv : Option Nat) (S : Page → Prop) (R : Page → Page → Prop)
    (hR : ∀ p q, S p → S q → slashes p.path ≤ slashes q.path → hrefRelative p.path q.path ∈ p.links → R p q) :
    ∀ (d : Dir) (chain : List (Str × Str)) (dirs : List Str) (isRoot : Bool),
      (∀ p ∈ (categoryPages M sv chain dirs isRoot d).1, S p) →
      ∀ p ∈ (categoryPages M sv chain dirs isRoot d).1, Star R (headPage M sv chain dirs isRoot d) p := by
  intro d
  induction d using Dir.ind with
  | h n rd recs subs ih =>
    intro chain dirs isRoot hS p hp
    have hSme := hS _ (headPage_mem M sv chain dirs isRoot (Dir.mk n rd recs subs))
    have hp0 := hp
    rw [mem_categoryPages] at hp
    rcases hp with rfl | ⟨s, hs, hp⟩ | ⟨r, hr, hp⟩
    · exact Star.refl
    · have hsubS : ∀ q ∈ (categoryPages M sv (chainOf sv chain dirs isRoot (Dir.mk n rd recs subs))
          (catDirs dirs isRoot (Dir.mk n rd recs subs)) false s).1, S q :=
        fun q hq => hS q ((mem_categoryPages ..).mpr (.inr (.inl ⟨s, hs, hq⟩)))
      refine Star.head ?_ (ih s hs _ _ _ hsubS p hp)
      apply hR _ _ hSme (hsubS _ (headPage_mem ..))
      · rw [headPage_path, headPage_path, catDirs_false]
        exact slashes_catPath_le_sub sv _ _
      rw [headPage_path, headPage_path, catDirs_false]
      exact catPage_links_sub sv _ _ _ _ _ s hs
    · apply Star.single
      have hsome := recipePageOf_some hp
      apply hR _ _ hSme (hS p hp0)
      · rw [hsome.2.1, headPage_path]
        exact slashes_catPath_le_recipe sv _ _
      rw [hsome.2.1, headPage_path, ← recTarget_same sv _ r hsome.1, ← recEntry_target_eq M sv
        (chainOf sv chain dirs isRoot (Dir.mk n rd recs subs))]
      exact catPage_links_rec M sv _ _ _ _ _ _ r hr

-- ================================================================ the category page of a given directory
/-- the category page of the directory reached by `rel`: it is a page of the hierarchy, its lists are those of that
    directory, and its breadcrumb chain contains the chain handed in and the category pages of all its ancestors -/
theorem catPage_at (M : Nat) (sv : Option Nat) {d d' : Dir} {rel : List Str} (h : SubDir d rel d') :
    ∀ (chain : List (Str × Str)) (dirs : List Str) (isRoot : Bool),
      ∃ chain' title,
        catPage sv chain' (catDirs dirs isRoot d ++ rel) title (subEntries sv (catDirs dirs isRoot d ++ rel) d'.subdirs)
            (d'.recipes.map (recEntry M sv chain' (catDirs dirs isRoot d ++ rel)))
          ∈ (categoryPages M sv chain dirs isRoot d).1
        ∧ (∀ c ∈ chain, c ∈ chain')
        ∧ (∀ pre, pre <+: rel → catPath sv (catDirs dirs isRoot d ++ pre) ∈ chain'.map (·.2)) := by
  induction h with
  | here d =>
    intro chain dirs isRoot
    refine ⟨chainOf sv chain dirs isRoot d, catTitle sv isRoot d, ?_, ?_, ?_⟩
    · rw [List.append_nil]
      exact headPage_mem M sv chain dirs isRoot d
    · intro c hc
      exact List.mem_append_left _ hc
    · intro pre hpre
      have : pre = [] := List.prefix_nil.mp hpre
      subst this
      rw [List.append_nil]
      simp [chainOf]
  | @sub d s d' rel hs _ ih =>
    intro chain dirs isRoot
    obtain ⟨chain', title, hmem, hch, hpre⟩ := ih (chainOf sv chain dirs isRoot d) (catDirs dirs isRoot d) false
    rw [catDirs_false, List.append_assoc] at hmem
    refine ⟨chain', title, (mem_categoryPages ..).mpr (.inr (.inl ⟨s, hs, hmem⟩)), ?_, ?_⟩
    · intro c hc
      exact hch c (List.mem_append_left _ hc)
    · intro pre hp
      cases pre with
      | nil =>
        rw [List.append_nil]
        have := hch (catTitle sv isRoot d, catPath sv (catDirs dirs isRoot d)) (by simp [chainOf])
        exact List.mem_map.mpr ⟨_, this, rfl⟩
      | cons x pre' =>
        obtain ⟨hx, hp'⟩ := List.cons_prefix_cons.mp hp
        subst hx
        have := hpre pre' hp'
        rw [catDirs_false, List.append_assoc] at this
        exact this

end RG
