import RecipeGrid.Model.MdContainers
import RecipeGrid.Lemmas.MdMain
/-! The container-aware scanner is a conservative extension of the container-free one: on a document of **D** the two
    taggers give the same tags (no line of **D** can open a container) and the same blocks. -/
namespace RG

/-- a line of the container-free tagger, seen as a top-level line of the container-aware one -/
def TLine.lift (t : TLine) : TLine2 := ⟨t.tag, t.text, 0, .none, true⟩

theorem TLine.lift_inner (t : TLine) : t.lift.inner = t := by
  cases t; simp [TLine.lift, TLine2.inner]

theorem plainLine_no_container (first : Bool) (l : Str) (h : plainLine first l = true) :
    quotePrefix? l = none ∧ startsListMarker (l.drop (leadSpaces l)) = false := by
  unfold plainLine at h
  simp only at h
  split at h
  · cases h
  · rename_i c r heq
    simp only [Bool.and_eq_true, bne_iff_ne, ne_eq, Bool.not_eq_true'] at h
    obtain ⟨⟨⟨⟨⟨hc, _⟩, hm⟩, _⟩, _⟩, _⟩ := h
    refine ⟨?_, hm⟩
    unfold quotePrefix?
    split
    · rfl
    · rw [heq]
      split
      · rename_i c' r' e; simp only [List.cons.injEq] at e; exact absurd e.1 hc
      · rename_i e; simp only [List.cons.injEq] at e; exact absurd e.1 hc
      · rfl

theorem stepNone_of_ok (st : ScanSt) (l : Str) (h : TLine.ok ⟨(step st l).1, l⟩ = true) :
    stepNone st l = plainT (step st l).1 l (step st l).2 true := by
  unfold stepNone
  split
  · rename_i first htag
    rw [htag] at h ⊢
    simp only [TLine.ok] at h
    obtain ⟨h1, h2⟩ := plainLine_no_container first l h
    simp only [h1, h2, Bool.false_eq_true, if_false]
  · rfl

theorem step2_none (st : ScanSt) (l : Str) : step2 ⟨.none, st⟩ l = stepNone st l := rfl

theorem tagLines2_of_ok (st : ScanSt) (ls : List Str) (h : ∀ t ∈ tagLines st ls, t.ok = true) :
    tagLines2 ⟨.none, st⟩ ls = (tagLines st ls).map TLine.lift := by
  induction ls generalizing st with
  | nil => rfl
  | cons l ls ih =>
    simp only [tagLines, tagLines2, List.map_cons, step2_none]
    have h1 := h ⟨(step st l).1, l⟩ (by simp [tagLines])
    rw [stepNone_of_ok st l h1]
    simp only [plainT, TLine.lift]
    rw [ih]
    intro t ht
    exact h t (by simp [tagLines, ht])

theorem takeWhile_map_lift (p : LineTag → Bool) (ts : List TLine) :
    (ts.map TLine.lift).takeWhile (fun x => p x.tag) = (ts.takeWhile (fun x => p x.tag)).map TLine.lift := by
  induction ts with
  | nil => rfl
  | cons t ts ih =>
    simp only [List.map_cons, List.takeWhile_cons]
    have : (TLine.lift t).tag = t.tag := rfl
    rw [this]
    split
    · rw [List.map_cons, ih]
    · rfl

theorem map_inner_lift (ts : List TLine) : (ts.map TLine.lift).map TLine2.inner = ts := by
  induction ts with
  | nil => rfl
  | cons t ts ih => simp only [List.map_cons, TLine.lift_inner, ih]

theorem assemble2_lift (pos line : Nat) (ts : List TLine) :
    assemble2 pos line (ts.map TLine.lift) = assemble pos line ts := by
  induction ts generalizing pos line with
  | nil => rfl
  | cons t ts ih =>
    simp only [List.map_cons, assemble2, assemble]
    have htag : (TLine.lift t).tag = t.tag := rfl
    have htext : (TLine.lift t).text = t.text := rfl
    rw [htag, htext, ih]
    congr 1
    cases ht : t.tag with
    | fenceOpen f => simp only [takeWhile_map_lift LineTag.isFenceBody, map_inner_lift]
    | codeStart =>
      simp only [takeWhile_map_lift LineTag.isCodeMore, TLine.lift_inner, map_inner_lift]
    | _ => rfl

theorem lift_ok (t : TLine) (h : t.ok = true) : t.lift.ok = true := by
  unfold TLine2.ok
  rw [TLine.lift_inner, h]
  have htag : (TLine.lift t).tag = t.tag := rfl
  have htext : (TLine.lift t).text = t.text := rfl
  have hctx : (TLine.lift t).ctx = .none := rfl
  have hreg : (TLine.lift t).reg = true := rfl
  rw [htag, htext, hctx, hreg]
  simp only [Bool.true_and, beq_self_eq_true, Bool.true_or]
  split
  · rename_i f hf
    simp only [TLine.ok, hf] at h
    exact h
  · rfl
  · rfl

theorem tagDoc2_of_inDoc (doc : Str) (hD : inDoc doc = true) : tagDoc2 doc = (tagDoc doc).map TLine.lift :=
  tagLines2_of_ok _ _ (inDoc_ok doc hD)

theorem scanBlocks2_of_inDoc (doc : Str) (hD : inDoc doc = true) : scanBlocks2 doc = scanBlocks doc := by
  rw [scanBlocks2, tagDoc2_of_inDoc doc hD, assemble2_lift]; rfl

theorem inDoc2_of_inDoc (doc : Str) (hD : inDoc doc = true) : inDoc2 doc = true := by
  have hall := inDoc_ok doc hD
  simp only [inDoc, Bool.and_eq_true] at hD
  simp only [inDoc2, Bool.and_eq_true, hD.1, true_and, tagDoc2_of_inDoc doc (by simp only [inDoc, Bool.and_eq_true]; exact hD),
    List.all_map, List.all_eq_true]
  intro t ht
  exact lift_ok t (hall t ht)

end RG
