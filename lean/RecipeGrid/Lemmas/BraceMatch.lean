import RecipeGrid.Lemmas.BraceRe
/-! `braceMatch` (the backtracking search of `pattern.match`) equals a search that only looks at
    backslashes and braces (`closeAt`). -/
namespace RG.Brace
open Re

/-- Where `\{(?P<source>…*)\}` closes, given the text after the opening brace: the text after the closing
    brace.  Only three characters matter.  A `}` closes.  A `{` cannot be consumed.  A backslash is first read
    as an escape of the next character (unless that is a line feed or the end of the text) and, if no closing
    brace can be reached that way, as an ordinary character.  Everything else is consumed. -/
def closeAt : Str → Option Str
  | [] => none
  | [ch] => if ch = '}' then some [] else none
  | ch :: e :: rest =>
    if ch = '}' then some (e :: rest)
    else if ch = '{' then none
    else if ch = '\\' ∧ e ≠ '\n' then
      match closeAt rest with
      | some r => some r
      | none => closeAt (e :: rest)
    else closeAt (e :: rest)

/-- characters that never matter to where the expression closes -/
def isPlain (ch : Char) : Bool := ch != '\\' && ch != '{' && ch != '}'

theorem closeAt_plain_cons (ch : Char) (s : Str) (h : isPlain ch = true) : closeAt (ch :: s) = closeAt s := by
  simp only [isPlain, Bool.and_eq_true, bne_iff_ne, ne_eq] at h
  obtain ⟨⟨h1, h2⟩, h3⟩ := h
  cases s with
  | nil => simp [closeAt, h3]
  | cons e rest => simp [closeAt, h1, h2, h3]

theorem closeAt_plain_append : ∀ (x s : Str), (∀ ch ∈ x, isPlain ch = true) → closeAt (x ++ s) = closeAt s
  | [], _, _ => rfl
  | ch :: x, s, h => by
    rw [List.cons_append, closeAt_plain_cons ch _ (h ch (List.mem_cons_self ..))]
    exact closeAt_plain_append x s (fun c hc => h c (List.mem_cons_of_mem _ hc))

theorem closeAt_close (s : Str) : closeAt ('}' :: s) = some s := by
  cases s <;> simp [closeAt]

theorem closeAt_open (s : Str) : closeAt ('{' :: s) = none := by
  cases s <;> simp [closeAt]

theorem closeAt_backslash_nil : closeAt ['\\'] = none := by simp [closeAt]

theorem closeAt_backslash_nl (s : Str) : closeAt ('\\' :: '\n' :: s) = closeAt ('\n' :: s) := by
  simp [closeAt]

theorem closeAt_backslash (e : Char) (s : Str) (he : e ≠ '\n') :
    closeAt ('\\' :: e :: s) = match closeAt s with | some r => some r | none => closeAt (e :: s) := by
  simp [closeAt, he]

/-- the closing brace is in the text: `s = source ++ '}' :: rest` -/
theorem closeAt_suffix : ∀ (n : Nat) (s r : Str), s.length ≤ n → closeAt s = some r →
    ∃ src, s = src ++ '}' :: r
  | 0, s, r, hn, h => by
    cases s with
    | nil => simp [closeAt] at h
    | cons _ _ => simp at hn
  | n + 1, s, r, hn, h => by
    cases s with
    | nil => simp [closeAt] at h
    | cons ch s =>
      cases s with
      | nil =>
        simp only [closeAt] at h
        split at h
        · rename_i hc; cases h; exact ⟨[], by simp [hc]⟩
        · cases h
      | cons e rest =>
        simp only [closeAt] at h
        have hlen : (e :: rest).length ≤ n := by simp at hn ⊢; omega
        have step : ∀ r, closeAt (e :: rest) = some r → ∃ src, ch :: e :: rest = src ++ '}' :: r := by
          intro r h
          obtain ⟨src, hs⟩ := closeAt_suffix n (e :: rest) r hlen h
          exact ⟨ch :: src, by rw [hs]; rfl⟩
        split at h
        · rename_i hc; cases h; exact ⟨[], by simp [hc]⟩
        · split at h
          · cases h
          · split at h
            · split at h
              · rename_i r' hr'
                cases h
                obtain ⟨src, hs⟩ := closeAt_suffix n rest r (by simp at hlen; omega) hr'
                exact ⟨ch :: e :: src, by rw [hs]; rfl⟩
              · exact step r h
            · exact step r h

/-! ## Facts about the patterns -/

theorem starOK_anyPartRe : StarOK anyPartRe := by
  simp [anyPartRe, fractionRe, fracIntRe, fracTailRe, denomRe, decimalRe, freeTextRe, StarOK, nullable, plus, opt, chr, digit, hspc]

theorem first_fractionRe (ch : Char) : first fractionRe ch = isDigit ch := by
  simp [fractionRe, fracIntRe, fracTailRe, denomRe, first, nullable, plus, opt, chr, digit, hspc]

theorem first_decimalRe (ch : Char) : first decimalRe ch = isDigit ch := by
  simp [decimalRe, first, nullable, plus, opt, chr, digit]

theorem nullable_fractionRe : nullable fractionRe = false := by
  simp [fractionRe, fracIntRe, fracTailRe, denomRe, nullable, plus, opt, chr, digit, hspc]

theorem nullable_decimalRe : nullable decimalRe = false := by
  simp [decimalRe, nullable, plus, opt, chr, digit]

theorem nullable_anyPartRe : nullable anyPartRe = false := by
  simp [anyPartRe, freeTextRe, nullable_fractionRe, nullable_decimalRe, nullable, chr]

theorem first_anyPartRe (ch : Char) : first anyPartRe ch = (isDigit ch || ch == '\\' || isFreeChar ch) := by
  simp [anyPartRe, freeTextRe, first, nullable, first_fractionRe, first_decimalRe, chr, Bool.or_assoc]

/-- on a character that is not a digit only the free-text alternatives are left -/
theorem run_anyPartRe_nondigit {α : Type} (ch : Char) (rest : Str) (c : Caps) (k : Cont α)
    (hd : isDigit ch = false) :
    run anyPartRe (ch :: rest) c k = run freeTextRe (ch :: rest) c k := by
  unfold anyPartRe
  rw [run_alt_of_left_none, run_alt_of_left_none]
  · exact run_eq_none_of_first _ _ _ _ nullable_decimalRe (by simp [first_decimalRe, hd])
  · exact run_eq_none_of_first _ _ _ _ nullable_fractionRe (by simp [first_fractionRe, hd])

theorem run_freeTextRe {α : Type} (ch : Char) (rest : Str) (c : Caps) (k : Cont α) :
    run freeTextRe (ch :: rest) c k =
      match (if ch = '\\' then
              (match rest with
               | e :: rest' => if isDot e then k rest' ((gEscaped, [e]) :: c) else none
               | [] => none)
             else none) with
      | some r => some r
      | none => if isFreeChar ch then k rest ((gChar, [ch]) :: c) else none := by
  cases rest with
  | nil => simp [freeTextRe, run, chr]
  | cons e rest' =>
    simp [freeTextRe, run, chr]
    rfl

/-- the words of a number pattern consist of plain characters -/
theorem alphabet_number_plain (ch : Char) (h : alphabet fractionRe ch = true ∨ alphabet decimalRe ch = true) :
    isPlain ch = true := by
  cases hp : isPlain ch with
  | true => rfl
  | false =>
    have : ch = '\\' ∨ ch = '{' ∨ ch = '}' := by
      simp only [isPlain, Bool.and_eq_false_iff, bne_eq_false_iff_eq] at hp
      rcases hp with (hp | hp) | hp
      · exact Or.inl hp
      · exact Or.inr (Or.inl hp)
      · exact Or.inr (Or.inr hp)
    rcases this with rfl | rfl | rfl <;> (revert h; decide)


/-- a continuation that accepts exactly at a closing brace, whatever the groups -/
structure ClosesWith {α : Type} (K : Cont α) (h : Str → α) : Prop where
  close : ∀ r c, K ('}' :: r) c = some (h r)
  other : ∀ s c, (∀ r, s ≠ '}' :: r) → K s c = none

theorem matches_decimalRe_digit (ch : Char) (h : isDigit ch = true) : Matches decimalRe [ch] := by
  refine ⟨[ch], [], rfl, ⟨[ch], [], rfl, ⟨ch, h, rfl⟩, ⟨[], rfl, by simp⟩⟩, Or.inr rfl⟩

theorem matches_anyPartRe_digit_plain (ch : Char) (x : Str) (hd : isDigit ch = true)
    (hx : Matches anyPartRe (ch :: x)) : ∀ c ∈ ch :: x, isPlain c = true := by
  intro c hc
  rcases hx with hx | hx | hx
  · exact alphabet_number_plain c (Or.inl (alphabet_of_matches _ _ hx c hc))
  · exact alphabet_number_plain c (Or.inr (alphabet_of_matches _ _ hx c hc))
  · have := first_of_matches _ _ _ hx
    have hne : ch ≠ '\\' := by intro h; subst h; revert hd; decide
    simp [freeTextRe, first, nullable, chr, isFreeChar, hd, hne] at this

/-- **the loop over the parts, followed by the closing brace, is the search `closeAt`** -/
theorem star_anyPart_eq {α : Type} (K : Cont α) (h : Str → α) (hK : ClosesWith K h) :
    ∀ (n : Nat) (s : Str) (fuel : Nat) (c : Caps), s.length ≤ n → s.length ≤ fuel →
      starK (run anyPartRe) fuel s c K = (closeAt s).map h := by
  intro n
  induction n with
  | zero =>
    intro s fuel c hn _
    have : s = [] := List.eq_nil_of_length_eq_zero (by omega)
    subst this
    have hnone : K [] c = none := hK.other [] c (by simp)
    cases fuel with
    | zero => simpa [starK, closeAt] using hnone
    | succ f =>
      simp only [starK, closeAt, Option.map_none]
      rw [run_eq_none_of_first _ _ _ _ nullable_anyPartRe (by simp)]
      exact hnone
  | succ n ih =>
    intro s fuel c hn hf
    cases s with
    | nil => exact ih [] fuel c (by simp) (by simp)
    | cons ch rest =>
      cases fuel with
      | zero => simp at hf
      | succ f =>
        simp only [List.length_cons] at hn hf
        have IH : ∀ (s' : Str) (c' : Caps), s'.length ≤ rest.length →
            starK (run anyPartRe) f s' c' K = (closeAt s').map h :=
          fun s' c' hl => ih s' f c' (by omega) (by omega)
        simp only [starK]
        by_cases hclose : ch = '}'
        · subst hclose
          rw [run_eq_none_of_first _ _ _ _ nullable_anyPartRe (by simp [first_anyPartRe]; decide)]
          simp [hK.close, closeAt_close]
        by_cases hopen : ch = '{'
        · subst hopen
          rw [run_eq_none_of_first _ _ _ _ nullable_anyPartRe (by simp [first_anyPartRe]; decide)]
          simp [closeAt_open]
          exact hK.other _ _ (by simp)
        have hother : K (ch :: rest) c = none := hK.other _ _ (by simp; intro h; exact absurd h hclose)
        cases hd : isDigit ch with
        | true =>
          have hplain : isPlain ch = true := matches_anyPartRe_digit_plain ch [] hd
            (Or.inr (Or.inl (matches_decimalRe_digit ch hd))) ch (List.mem_cons_self ..)
          cases hrun : run anyPartRe (ch :: rest) c (fun s' c' => starK (run anyPartRe) f s' c' K) with
          | some v =>
            obtain ⟨x, s', c', hs, hx, hk⟩ := run_sound _ _ _ _ _ hrun
            cases x with
            | nil =>
              have := nullable_of_matches_nil _ hx
              rw [nullable_anyPartRe] at this; cases this
            | cons d x =>
              simp only [List.cons_append, List.cons.injEq] at hs
              obtain ⟨rfl, hrest⟩ := hs
              have hpl := matches_anyPartRe_digit_plain ch x hd hx
              have hl : s'.length ≤ rest.length := by rw [hrest]; simp
              rw [IH s' c' hl] at hk
              have : closeAt (ch :: rest) = closeAt s' := by
                rw [hrest, ← List.cons_append]
                exact closeAt_plain_append _ _ hpl
              simp only [this]
              exact hk.symm
          | none =>
            simp only [hother]
            cases hc : closeAt (ch :: rest) with
            | none => rfl
            | some r =>
              exfalso
              rw [closeAt_plain_cons ch rest hplain] at hc
              have := run_complete (α := α) anyPartRe starOK_anyPartRe [ch]
                (Or.inr (Or.inl (matches_decimalRe_digit ch hd))) rest c
                (fun s' c' => starK (run anyPartRe) f s' c' K)
                (fun c' => by simp [IH rest c' (Nat.le_refl _), hc])
              simp only [List.cons_append, List.nil_append] at this
              rw [hrun] at this
              cases this
        | false =>
          rw [run_anyPartRe_nondigit _ _ _ _ hd, run_freeTextRe]
          by_cases hbs : ch = '\\'
          · subst hbs
            have hfree : isFreeChar '\\' = true := by decide
            simp only [if_true, hfree]
            cases rest with
            | nil =>
              simp only [IH [] _ (Nat.le_refl _), closeAt_backslash_nil]
              simp [closeAt, hother]
            | cons e rest' =>
              have h1 := IH rest' ((gEscaped, [e]) :: c) (by simp)
              have h2 := IH (e :: rest') ((gChar, ['\\']) :: c) (Nat.le_refl _)
              simp only [h1, h2, hother]
              by_cases he : e = '\n'
              · subst he
                have : isDot '\n' = false := by decide
                simp only [this]
                rw [closeAt_backslash_nl]
                cases closeAt ('\n' :: rest') <;> rfl
              · have : isDot e = true := by simp [isDot, he]
                simp only [this, if_true]
                rw [closeAt_backslash e rest' he]
                cases closeAt rest' <;> cases closeAt (e :: rest') <;> rfl
          · have hfree : isFreeChar ch = true := by simp [isFreeChar, hd, hclose, hopen]
            have hplain : isPlain ch = true := by simp [isPlain, hbs, hclose, hopen]
            simp only [hbs, if_false, hfree, if_true]
            rw [IH rest _ (Nat.le_refl _), closeAt_plain_cons ch rest hplain, hother]
            cases closeAt rest <;> rfl


end RG.Brace

namespace RG
open Re Brace

theorem braceMatch_nil : braceMatch [] = none := rfl

theorem braceMatch_not_open (ch : Char) (t : Str) (h : ch ≠ '{') : braceMatch (ch :: t) = none := by
  simp [braceMatch, patternRe, run, chr, h]

/-- **`pattern.match` is the search `closeAt`** -/
theorem braceMatch_eq_closeAt (t : Str) :
    braceMatch ('{' :: t) = (closeAt t).map (fun r => (t.take (t.length - (r.length + 1)), r)) := by
  have hK : ClosesWith (α := Str × Str)
      (fun s' c' => run (chr '}') s' ((gSource, t.take (t.length - s'.length)) :: c')
        (fun rest c => some ((c.get gSource).getD [], rest)))
      (fun r => (t.take (t.length - (r.length + 1)), r)) := by
    constructor
    · intro r c
      simp [run, chr, Caps.get]
    · intro s c hs
      cases s with
      | nil => rfl
      | cons ch rest =>
        have : ch ≠ '}' := by intro h; subst h; exact hs rest rfl
        simp [run, chr, this]
  have := star_anyPart_eq _ _ hK t.length t t.length [] (Nat.le_refl _) (Nat.le_refl _)
  rw [← this]
  simp [braceMatch, patternRe, run, chr]

end RG
