import RecipeGrid.Lemmas.NumberInv
/-! Inversion of the model of `number_parser.number` (`numberReader`): exactly which texts it reads as a number, and as
    which number; and exactly which texts make it raise `ZeroDivisionError`.  Used by `Props/C11c.lean`. -/
namespace RG
open NumberReader C06 Parser

/-! ## the fraction pattern, inverted -/

theorem matchFrac2_inv {s p q : Str} (h : matchFrac2 s = some (p, q)) :
    ∃ s1 s2, s = p ++ s1 ++ '/' :: s2 ++ q ∧ IsDigits p ∧ IsBlanks s1 ∧ IsBlanks s2 ∧ IsDigits q := by
  obtain ⟨e0, hp, -⟩ := split_run isDigit s
  obtain ⟨e1, hs1, -⟩ := split_run isHsp (s.dropWhile isDigit)
  simp only [matchFrac2] at h
  cases hr : (s.dropWhile isDigit).dropWhile isHsp with
  | nil => simp [hr] at h
  | cons c r =>
    by_cases hc : c = '/'
    · subst hc
      obtain ⟨e2, hs2, -⟩ := split_run isHsp r
      simp only [hr] at h
      by_cases hcond : (!(s.takeWhile isDigit).isEmpty && !(r.dropWhile isHsp).isEmpty && (r.dropWhile isHsp).all isDigit) = true
      · simp only [hcond, if_true, Option.some.injEq, Prod.mk.injEq] at h
        obtain ⟨rfl, rfl⟩ := h
        simp only [Bool.and_eq_true, Bool.not_eq_true', List.isEmpty_eq_false_iff, List.all_eq_true] at hcond
        refine ⟨(s.dropWhile isDigit).takeWhile isHsp, r.takeWhile isHsp, ?_, ⟨hcond.1.1, hp⟩, hs1, hs2, ⟨hcond.1.2, hcond.2⟩⟩
        have : s = s.takeWhile isDigit ++ ((s.dropWhile isDigit).takeWhile isHsp ++ '/' :: (r.takeWhile isHsp ++ r.dropWhile isHsp)) := by
          rw [← e2, ← hr, ← e1]; exact e0
        simpa using this
      · simp [hcond] at h
    · have : ∀ r', c :: r ≠ '/' :: r' := by intro r' he; cases he; exact hc rfl
      simp only [hr] at h
      cases h

theorem matchFrac3_inv {s w p q : Str} (h : matchFrac3 s = some (w, p, q)) :
    ∃ s0 s1 s2, s = w ++ s0 ++ p ++ s1 ++ '/' :: s2 ++ q ∧ IsDigits w ∧ s0 ≠ [] ∧ IsBlanks s0 ∧ IsDigits p ∧
      IsBlanks s1 ∧ IsBlanks s2 ∧ IsDigits q := by
  obtain ⟨e0, hw, -⟩ := split_run isDigit s
  obtain ⟨e1, hs0, -⟩ := split_run isHsp (s.dropWhile isDigit)
  simp only [matchFrac3] at h
  by_cases hcond : (!(s.takeWhile isDigit).isEmpty && !((s.dropWhile isDigit).takeWhile isHsp).isEmpty) = true
  · simp only [hcond, if_true] at h
    cases hm : matchFrac2 ((s.dropWhile isDigit).dropWhile isHsp) with
    | none => simp [hm] at h
    | some pq =>
      obtain ⟨p', q'⟩ := pq
      simp only [hm, Option.some.injEq, Prod.mk.injEq] at h
      obtain ⟨rfl, rfl, rfl⟩ := h
      obtain ⟨s1, s2, e2, hp, hs1, hs2, hq⟩ := matchFrac2_inv hm
      simp only [Bool.and_eq_true, Bool.not_eq_true', List.isEmpty_eq_false_iff] at hcond
      refine ⟨(s.dropWhile isDigit).takeWhile isHsp, s1, s2, ?_, ⟨hcond.1, hw⟩, hcond.2, hs0, hp, hs1, hs2, hq⟩
      have : s = s.takeWhile isDigit ++ ((s.dropWhile isDigit).takeWhile isHsp ++ (p' ++ s1 ++ '/' :: s2 ++ q')) := by
        rw [← e2, ← e1]; exact e0
      simpa using this
  · simp [hcond] at h

/-! ## `int()` / `float()`, inverted -/

theorem stripHsp_split (s : Str) : ∃ b1 b2, s = b1 ++ stripHsp s ++ b2 ∧ IsBlanks b1 ∧ IsBlanks b2 := by
  obtain ⟨e0, hb1, -⟩ := split_run isHsp s
  obtain ⟨e1, hb2, -⟩ := split_run isHsp (s.dropWhile isHsp).reverse
  refine ⟨s.takeWhile isHsp, ((s.dropWhile isHsp).reverse.takeWhile isHsp).reverse, ?_, hb1, ?_⟩
  · have h2 : s.dropWhile isHsp = ((s.dropWhile isHsp).reverse.dropWhile isHsp).reverse
        ++ ((s.dropWhile isHsp).reverse.takeWhile isHsp).reverse := by
      rw [← List.reverse_append, ← e1, List.reverse_reverse]
    rw [List.append_assoc, stripHsp, ← h2]; exact e0
  · intro c hc; exact hb2 c (List.mem_reverse.mp hc)

theorem readPlain_inv {s : Str} {v : Num} (h : readPlain s = .value v) :
    ∃ b1 b2, IsBlanks b1 ∧ IsBlanks b2 ∧
      ((∃ ds, s = b1 ++ ds ++ b2 ∧ IsDigits ds ∧ v = ⟨((digitsValue ds : Nat) : Rat), .int⟩) ∨
       (∃ whole fr, s = b1 ++ (whole ++ '.' :: fr) ++ b2 ∧ (∀ c ∈ whole, isDigit c = true) ∧ (∀ c ∈ fr, isDigit c = true) ∧
          (whole ≠ [] ∨ fr ≠ []) ∧
          v = ⟨toDouble (mkRat (digitsValue (whole ++ fr) : Nat) (10 ^ fr.length)), .flt⟩)) := by
  obtain ⟨b1, b2, e, hb1, hb2⟩ := stripHsp_split s
  refine ⟨b1, b2, hb1, hb2, ?_⟩
  simp only [readPlain] at h
  by_cases hint : (!(stripHsp s).isEmpty && (stripHsp s).all isDigit) = true
  · left
    simp only [hint, if_true, ReaderResult.value.injEq] at h
    simp only [Bool.and_eq_true, Bool.not_eq_true', List.isEmpty_eq_false_iff, List.all_eq_true] at hint
    exact ⟨stripHsp s, e, ⟨hint.1, hint.2⟩, h.symm⟩
  · right
    simp only [hint, Bool.false_eq_true, if_false] at h
    obtain ⟨e1, hw, -⟩ := split_run isDigit (stripHsp s)
    cases hr : (stripHsp s).dropWhile isDigit with
    | nil => simp [hr] at h
    | cons c fr =>
      by_cases hc : c = '.'
      · subst hc
        simp only [hr] at h
        by_cases hcond : (fr.all isDigit && !(((stripHsp s).takeWhile isDigit).isEmpty && fr.isEmpty)) = true
        · simp only [hcond, if_true, ReaderResult.value.injEq] at h
          rw [Bool.and_eq_true, Bool.not_eq_true'] at hcond
          refine ⟨(stripHsp s).takeWhile isDigit, fr, ?_, hw, List.all_eq_true.mp hcond.1, ?_, h.symm⟩
          · rw [hr] at e1; rw [← e1]; exact e
          · by_cases hwe : (stripHsp s).takeWhile isDigit = []
            · right; intro hfe
              have := hcond.2
              rw [hwe, hfe] at this
              simp at this
            · left; exact hwe
        · simp only [hcond, Bool.false_eq_true, if_false] at h
          cases h
      · have : ∀ r', c :: fr ≠ '.' :: r' := by intro r' he; cases he; exact hc rfl
        simp only [hr] at h
        cases h

/-! ## the reader, inverted -/

theorem fractionValue_value {w p q : Str} {v : Num} (h : fractionValue w p q = .value v) :
    digitsValue q ≠ 0 ∧ v = ⟨((digitsValue w : Nat) : Rat) + mkRat (digitsValue p : Nat) (digitsValue q), .frac⟩ := by
  simp only [fractionValue] at h
  by_cases hz : readNat q = 0
  · simp [hz] at h
  · simp only [hz, if_false, ReaderResult.value.injEq] at h
    exact ⟨hz, h.symm⟩

theorem fractionValue_zero {w p q : Str} (h : fractionValue w p q = .zeroDivision) : digitsValue q = 0 := by
  simp only [fractionValue] at h
  by_cases hz : readNat q = 0
  · exact hz
  · simp [hz] at h

theorem readPlain_ne_zeroDivision (s : Str) : readPlain s ≠ .zeroDivision := by
  simp only [readPlain]
  intro h
  split at h
  · cases h
  · split at h
    · split at h <;> cases h
    · cases h

/-- **exactly which texts `number_parser.number` reads as a number** (on the modelled language): the grammar's four
    spellings, and beyond them (i) a blank before the slash of a fraction without an integer part, (ii) blanks around an
    integer or a decimal, (iii) a decimal without a digit before the point. -/
theorem numberReader_value_inv {s : Str} {v : Num} (h : numberReader s = .value v) :
    (∃ l : NumLit, l.WF ∧ s = l.print ∧ v = l.value) ∨
    (∃ p s1 s2 q, s = p ++ s1 ++ '/' :: s2 ++ q ∧ IsDigits p ∧ s1 ≠ [] ∧ IsBlanks s1 ∧ IsBlanks s2 ∧ IsDigits q ∧
      digitsValue q ≠ 0 ∧ v = ⟨mkRat (digitsValue p : Nat) (digitsValue q), .frac⟩) ∨
    (∃ b1 ds b2, s = b1 ++ ds ++ b2 ∧ IsBlanks b1 ∧ IsBlanks b2 ∧ (b1 ≠ [] ∨ b2 ≠ []) ∧ IsDigits ds ∧
      v = ⟨((digitsValue ds : Nat) : Rat), .int⟩) ∨
    (∃ b1 whole fr b2, s = b1 ++ (whole ++ '.' :: fr) ++ b2 ∧ IsBlanks b1 ∧ IsBlanks b2 ∧
      (b1 ≠ [] ∨ b2 ≠ [] ∨ whole = []) ∧ (∀ c ∈ whole, isDigit c = true) ∧ (∀ c ∈ fr, isDigit c = true) ∧
      (whole ≠ [] ∨ fr ≠ []) ∧ v = ⟨toDouble (mkRat (digitsValue (whole ++ fr) : Nat) (10 ^ fr.length)), .flt⟩) := by
  simp only [numberReader] at h
  by_cases hL : (!inL s) = true
  · simp [hL] at h
  · simp only [hL, Bool.false_eq_true, if_false] at h
    cases h3 : matchFrac3 s with
    | some wpq =>
      obtain ⟨w, p, q⟩ := wpq
      simp only [h3] at h
      obtain ⟨s0, s1, s2, e, hw, hs0ne, hs0, hp, hs1, hs2, hq⟩ := matchFrac3_inv h3
      obtain ⟨hq0, hv⟩ := fractionValue_value h
      exact Or.inl ⟨.mixed w s0 p s1 s2 q, ⟨hw, hs0ne, hs0, hp, hs1, hs2, hq, hq0⟩, e, hv⟩
    | none =>
      simp only [h3] at h
      cases h2 : matchFrac2 s with
      | some pq =>
        obtain ⟨p, q⟩ := pq
        simp only [h2] at h
        obtain ⟨s1, s2, e, hp, hs1, hs2, hq⟩ := matchFrac2_inv h2
        obtain ⟨hq0, hv⟩ := fractionValue_value h
        have hv' : v = ⟨mkRat (digitsValue p : Nat) (digitsValue q), .frac⟩ := by
          rw [hv]; simp [digitsValue, Rat.zero_add]
        by_cases hs1e : s1 = []
        · subst hs1e
          exact Or.inl ⟨.frac p s2 q, ⟨hp, hs2, hq, hq0⟩, by simpa [NumLit.print] using e, hv'⟩
        · exact Or.inr (Or.inl ⟨p, s1, s2, q, e, hp, hs1e, hs1, hs2, hq, hq0, hv'⟩)
      | none =>
        simp only [h2] at h
        obtain ⟨b1, b2, hb1, hb2, ⟨ds, e, hds, hv⟩ | ⟨whole, fr, e, hw, hf, hne, hv⟩⟩ := readPlain_inv h
        · by_cases hb : b1 = [] ∧ b2 = []
          · obtain ⟨rfl, rfl⟩ := hb
            exact Or.inl ⟨.int ds, hds, by simpa [NumLit.print] using e, hv⟩
          · refine Or.inr (Or.inr (Or.inl ⟨b1, ds, b2, e, hb1, hb2, ?_, hds, hv⟩))
            by_cases h1 : b1 = []
            · right; intro h2'; exact hb ⟨h1, h2'⟩
            · left; exact h1
        · by_cases hb : b1 = [] ∧ b2 = [] ∧ whole ≠ []
          · obtain ⟨rfl, rfl, hwne⟩ := hb
            exact Or.inl ⟨.dec whole fr, ⟨⟨hwne, hw⟩, hf⟩, by simpa [NumLit.print] using e, hv⟩
          · refine Or.inr (Or.inr (Or.inr ⟨b1, whole, fr, b2, e, hb1, hb2, ?_, hw, hf, hne, hv⟩))
            by_cases h1 : b1 = []
            · by_cases h2' : b2 = []
              · right; right
                cases hwe : whole with
                | nil => rfl
                | cons x xs => exact absurd ⟨h1, h2', by rw [hwe]; simp⟩ hb
              · right; left; exact h2'
            · left; exact h1

/-- **exactly which texts make `number_parser.number` raise `ZeroDivisionError`** (on the modelled language): the
    fraction spellings - with any blanks around the slash - whose denominator is a run of zeros -/
theorem numberReader_zeroDivision_inv {s : Str} (h : numberReader s = .zeroDivision) :
    ∃ pre p s1 s2 q, s = pre ++ p ++ s1 ++ '/' :: s2 ++ q ∧
      (pre = [] ∨ ∃ w s0, pre = w ++ s0 ∧ IsDigits w ∧ s0 ≠ [] ∧ IsBlanks s0) ∧
      IsDigits p ∧ IsBlanks s1 ∧ IsBlanks s2 ∧ IsDigits q ∧ digitsValue q = 0 := by
  simp only [numberReader] at h
  by_cases hL : (!inL s) = true
  · simp [hL] at h
  · simp only [hL, Bool.false_eq_true, if_false] at h
    cases h3 : matchFrac3 s with
    | some wpq =>
      obtain ⟨w, p, q⟩ := wpq
      simp only [h3] at h
      obtain ⟨s0, s1, s2, e, hw, hs0ne, hs0, hp, hs1, hs2, hq⟩ := matchFrac3_inv h3
      exact ⟨w ++ s0, p, s1, s2, q, by simpa using e, Or.inr ⟨w, s0, rfl, hw, hs0ne, hs0⟩, hp, hs1, hs2, hq,
        fractionValue_zero h⟩
    | none =>
      simp only [h3] at h
      cases h2 : matchFrac2 s with
      | some pq =>
        obtain ⟨p, q⟩ := pq
        simp only [h2] at h
        obtain ⟨s1, s2, e, hp, hs1, hs2, hq⟩ := matchFrac2_inv h2
        exact ⟨[], p, s1, s2, q, by simpa using e, Or.inl rfl, hp, hs1, hs2, hq, fractionValue_zero h⟩
      | none =>
        simp only [h2] at h
        exact absurd h (readPlain_ne_zeroDivision s)

end RG
