import RecipeGrid.Model.BraceExpr
/-! The backtracking matcher of `Model/BraceExpr.lean` against the declarative reading of a regular expression:
    every answer comes from a split of the text into a word of the language and a rest on which the
    continuation gives that answer (`run_sound`); and if some such split exists on whose rest the continuation
    answers, the matcher answers (`run_complete`).  Plus the facts about greedy loops over one character class. -/
namespace RG.Re

/-- the language of a pattern -/
def Matches : Re → Str → Prop
  | eps, x => x = []
  | cls p, x => ∃ ch, p ch = true ∧ x = [ch]
  | seq a b, x => ∃ y z, x = y ++ z ∧ Matches a y ∧ Matches b z
  | alt a b, x => Matches a x ∨ Matches b x
  | star a, x => ∃ ys : List Str, x = ys.flatten ∧ ∀ y ∈ ys, Matches a y
  | grp _ a, x => Matches a x

/-- can the pattern match the empty word? -/
def nullable : Re → Bool
  | eps => true
  | cls _ => false
  | seq a b => nullable a && nullable b
  | alt a b => nullable a || nullable b
  | star _ => true
  | grp _ a => nullable a

/-- possible first characters of a non-empty word -/
def first : Re → Char → Bool
  | eps, _ => false
  | cls p, ch => p ch
  | seq a b, ch => first a ch || (nullable a && first b ch)
  | alt a b, ch => first a ch || first b ch
  | star a, ch => first a ch
  | grp _ a, ch => first a ch

/-- characters that can occur in a word -/
def alphabet : Re → Char → Bool
  | eps, _ => false
  | cls p, ch => p ch
  | seq a b, ch => alphabet a ch || alphabet b ch
  | alt a b, ch => alphabet a ch || alphabet b ch
  | star a, ch => alphabet a ch
  | grp _ a, ch => alphabet a ch

/-- no `*` over a pattern that matches the empty word (so that the fuel of a loop suffices) -/
def StarOK : Re → Prop
  | eps => True
  | cls _ => True
  | seq a b => StarOK a ∧ StarOK b
  | alt a b => StarOK a ∧ StarOK b
  | star a => nullable a = false ∧ StarOK a
  | grp _ a => StarOK a

theorem nullable_of_matches_nil : ∀ (r : Re), Matches r [] → nullable r = true
  | eps, _ => rfl
  | cls _, h => by obtain ⟨ch, _, h⟩ := h; cases h
  | seq a b, h => by
    obtain ⟨y, z, hx, ha, hb⟩ := h
    obtain ⟨rfl, rfl⟩ := List.append_eq_nil_iff.1 hx.symm
    simp [nullable, nullable_of_matches_nil a ha, nullable_of_matches_nil b hb]
  | alt a b, h => by
    rcases h with h | h
    · simp [nullable, nullable_of_matches_nil a h]
    · simp [nullable, nullable_of_matches_nil b h]
  | star _, _ => rfl
  | grp _ a, h => by simpa [nullable] using nullable_of_matches_nil a h

theorem first_of_matches : ∀ (r : Re) (ch : Char) (x : Str), Matches r (ch :: x) → first r ch = true
  | eps, _, _, h => by cases h
  | cls p, ch, x, h => by
    obtain ⟨c, hp, h⟩ := h
    cases h; simpa [first] using hp
  | seq a b, ch, x, h => by
    obtain ⟨y, z, hx, ha, hb⟩ := h
    cases y with
    | nil =>
      simp only [List.nil_append] at hx
      subst hx
      simp [first, nullable_of_matches_nil a ha, first_of_matches b ch x hb]
    | cons c y =>
      simp only [List.cons_append, List.cons.injEq] at hx
      obtain ⟨rfl, _⟩ := hx
      simp [first, first_of_matches a ch y ha]
  | alt a b, ch, x, h => by
    rcases h with h | h
    · simp [first, first_of_matches a ch x h]
    · simp [first, first_of_matches b ch x h]
  | star a, ch, x, h => by
    obtain ⟨ys, hx, hys⟩ := h
    induction ys with
    | nil => cases hx
    | cons y ys ih =>
      cases y with
      | nil => exact ih (by simpa using hx) (fun y hy => hys y (List.mem_cons_of_mem _ hy))
      | cons c y =>
        simp only [List.flatten_cons, List.cons_append, List.cons.injEq] at hx
        obtain ⟨rfl, _⟩ := hx
        simpa [first] using first_of_matches a ch y (hys _ (List.mem_cons_self ..))
  | grp _ a, ch, x, h => by simpa [first] using first_of_matches a ch x h

theorem alphabet_of_matches : ∀ (r : Re) (x : Str), Matches r x → ∀ ch ∈ x, alphabet r ch = true
  | eps, _, h => by cases h; simp
  | cls p, x, h => by
    obtain ⟨c, hp, h⟩ := h
    subst h; simpa [alphabet] using hp
  | seq a b, x, h => by
    obtain ⟨y, z, hx, ha, hb⟩ := h
    subst hx
    intro ch hch
    rcases List.mem_append.1 hch with h | h
    · simp [alphabet, alphabet_of_matches a y ha ch h]
    · simp [alphabet, alphabet_of_matches b z hb ch h]
  | alt a b, x, h => by
    intro ch hch
    rcases h with h | h
    · simp [alphabet, alphabet_of_matches a x h ch hch]
    · simp [alphabet, alphabet_of_matches b x h ch hch]
  | star a, x, h => by
    obtain ⟨ys, hx, hys⟩ := h
    subst hx
    intro ch hch
    obtain ⟨y, hy, hc⟩ := List.mem_flatten.1 hch
    simpa [alphabet] using alphabet_of_matches a y (hys y hy) ch hc
  | grp _ a, x, h => by
    intro ch hch
    simpa [alphabet] using alphabet_of_matches a x h ch hch

/-! ## Soundness -/

theorem starK_sound {α : Type} {a : Re} (ma : Str → Caps → Cont α → Option α)
    (hma : ∀ s c k v, ma s c k = some v → ∃ x s' c', s = x ++ s' ∧ Matches a x ∧ k s' c' = some v) :
    ∀ (fuel : Nat) (s : Str) (c : Caps) (k : Cont α) (v : α), starK ma fuel s c k = some v →
      ∃ x s' c', s = x ++ s' ∧ Matches (star a) x ∧ k s' c' = some v
  | 0, s, c, k, v, h => ⟨[], s, c, rfl, ⟨[], rfl, by simp⟩, h⟩
  | fuel + 1, s, c, k, v, h => by
    simp only [starK] at h
    split at h
    · rename_i r hr
      cases h
      obtain ⟨x, s', c', hs, hx, hk⟩ := hma _ _ _ _ hr
      obtain ⟨x2, s2, c2, hs2, ⟨ys, hys, hall⟩, hk2⟩ := starK_sound ma hma fuel s' c' k v hk
      refine ⟨x ++ x2, s2, c2, by rw [hs, hs2, List.append_assoc], ⟨x :: ys, by simp [hys], ?_⟩, hk2⟩
      intro y hy
      rcases List.mem_cons.1 hy with rfl | hy
      · exact hx
      · exact hall y hy
    · exact ⟨[], s, c, rfl, ⟨[], rfl, by simp⟩, h⟩

/-- every answer of the matcher is an answer of the continuation after a word of the language -/
theorem run_sound {α : Type} : ∀ (r : Re) (s : Str) (c : Caps) (k : Cont α) (v : α), run r s c k = some v →
    ∃ x s' c', s = x ++ s' ∧ Matches r x ∧ k s' c' = some v
  | eps, s, c, k, v, h => ⟨[], s, c, rfl, rfl, h⟩
  | cls p, s, c, k, v, h => by
    cases s with
    | nil => simp [run] at h
    | cons ch rest =>
      simp only [run] at h
      split at h
      · rename_i hp
        exact ⟨[ch], rest, c, rfl, ⟨ch, hp, rfl⟩, h⟩
      · cases h
  | seq a b, s, c, k, v, h => by
    simp only [run] at h
    obtain ⟨x, s', c', hs, hx, hk⟩ := run_sound a s c _ v h
    obtain ⟨y, s2, c2, hs2, hy, hk2⟩ := run_sound b s' c' k v hk
    exact ⟨x ++ y, s2, c2, by rw [hs, hs2, List.append_assoc], ⟨x, y, rfl, hx, hy⟩, hk2⟩
  | alt a b, s, c, k, v, h => by
    simp only [run] at h
    split at h
    · rename_i r hr
      cases h
      obtain ⟨x, s', c', hs, hx, hk⟩ := run_sound a s c k _ hr
      exact ⟨x, s', c', hs, Or.inl hx, hk⟩
    · obtain ⟨x, s', c', hs, hx, hk⟩ := run_sound b s c k v h
      exact ⟨x, s', c', hs, Or.inr hx, hk⟩
  | star a, s, c, k, v, h => by
    simp only [run] at h
    exact starK_sound (run a) (fun s c k v h => run_sound a s c k v h) _ s c k v h
  | grp id a, s, c, k, v, h => by
    simp only [run] at h
    obtain ⟨x, s', c', hs, hx, hk⟩ := run_sound a s c _ v h
    exact ⟨x, s', _, hs, hx, hk⟩

/-- if the continuation refuses the rest after every word of the language, the matcher gives up -/
theorem run_eq_none {α : Type} (r : Re) (s : Str) (c : Caps) (k : Cont α)
    (h : ∀ x s' c', s = x ++ s' → Matches r x → k s' c' = none) : run r s c k = none := by
  cases hr : run r s c k with
  | none => rfl
  | some v =>
    obtain ⟨x, s', c', hs, hx, hk⟩ := run_sound r s c k v hr
    rw [h x s' c' hs hx] at hk
    cases hk

/-- a pattern that is not nullable fails where its first character cannot stand -/
theorem run_eq_none_of_first {α : Type} (r : Re) (s : Str) (c : Caps) (k : Cont α)
    (hn : nullable r = false) (hf : ∀ ch, s.head? = some ch → first r ch = false) : run r s c k = none := by
  apply run_eq_none
  intro x s' c' hs hx
  cases x with
  | nil => rw [nullable_of_matches_nil r hx] at hn; cases hn
  | cons ch x =>
    have := first_of_matches r ch x hx
    rw [hf ch (by simp [hs])] at this
    cases this

/-! ## Completeness -/

theorem starK_complete {α : Type} {a : Re} (ma : Str → Caps → Cont α → Option α)
    (hma : ∀ x, Matches a x → ∀ s' c k, (∀ c', (k s' c').isSome) → (ma (x ++ s') c k).isSome)
    (hnn : ¬ Matches a []) (s' : Str) (k : Cont α) (hk : ∀ c', (k s' c').isSome) :
    ∀ (ys : List Str), (∀ y ∈ ys, Matches a y) → ∀ (fuel : Nat) (c : Caps), ys.flatten.length ≤ fuel →
      (starK ma fuel (ys.flatten ++ s') c k).isSome
  | [], _, fuel, c, _ => by
    cases fuel with
    | zero => simpa [starK] using hk c
    | succ f =>
      simp only [List.flatten_nil, List.nil_append, starK]
      split
      · rfl
      · exact hk c
  | y :: ys, hys, fuel, c, hf => by
    have hy := hys y (List.mem_cons_self ..)
    have hyne : y ≠ [] := fun h => hnn (h ▸ hy)
    have hylen : 0 < y.length := List.length_pos_iff.2 hyne
    simp only [List.flatten_cons, List.length_append] at hf
    cases fuel with
    | zero => omega
    | succ f =>
      simp only [List.flatten_cons, List.append_assoc, starK]
      have : (ma (y ++ (ys.flatten ++ s')) c (fun s'' c'' => starK ma f s'' c'' k)).isSome := by
        apply hma y hy
        intro c'
        exact starK_complete ma hma hnn s' k hk ys (fun y hy => hys y (List.mem_cons_of_mem _ hy)) f c' (by omega)
      split
      · rfl
      · rename_i hnone
        rw [hnone] at this
        cases this

/-- if the rest after some word of the language is accepted by the continuation (whatever the groups),
    the matcher finds an answer -/
theorem run_complete {α : Type} : ∀ (r : Re), StarOK r → ∀ (x : Str), Matches r x →
    ∀ (s' : Str) (c : Caps) (k : Cont α), (∀ c', (k s' c').isSome) → (run r (x ++ s') c k).isSome
  | eps, _, x, hx, s', c, k, hk => by cases hx; exact hk c
  | cls p, _, x, hx, s', c, k, hk => by
    obtain ⟨ch, hp, rfl⟩ := hx
    simp only [List.cons_append, List.nil_append, run, hp, if_true]
    exact hk c
  | seq a b, hw, x, hx, s', c, k, hk => by
    obtain ⟨y, z, rfl, hy, hz⟩ := hx
    simp only [run, List.append_assoc]
    apply run_complete a hw.1 y hy
    intro c'
    exact run_complete b hw.2 z hz s' c' k hk
  | alt a b, hw, x, hx, s', c, k, hk => by
    simp only [run]
    rcases hx with hx | hx
    · have := run_complete a hw.1 x hx s' c k hk
      split
      · rfl
      · rename_i hnone; rw [hnone] at this; cases this
    · split
      · rfl
      · exact run_complete b hw.2 x hx s' c k hk
  | star a, hw, x, hx, s', c, k, hk => by
    obtain ⟨ys, rfl, hys⟩ := hx
    simp only [run]
    apply starK_complete (run a) (fun x hx s' c k hk => run_complete a hw.2 x hx s' c k hk) _ s' k hk ys hys
    · simp
    · intro h
      have := nullable_of_matches_nil a h
      rw [hw.1] at this
      cases this
  | grp id a, hw, x, hx, s', c, k, hk => by
    simp only [run]
    apply run_complete a hw x hx
    intro c'
    exact hk _

/-! ## Ordered choice and greedy loops on the path that succeeds first -/

theorem run_alt_of_left {α : Type} {a b : Re} {s : Str} {c : Caps} {k : Cont α} {v : α}
    (h : run a s c k = some v) : run (alt a b) s c k = some v := by
  simp [run, h]

theorem run_alt_of_left_isSome {α : Type} {a b : Re} {s : Str} {c : Caps} {k : Cont α}
    (h : (run a s c k).isSome = true) : run (alt a b) s c k = run a s c k := by
  simp only [run]
  cases hr : run a s c k with
  | none => rw [hr] at h; cases h
  | some v => rfl

theorem run_alt_of_left_none {α : Type} {a b : Re} {s : Str} {c : Caps} {k : Cont α}
    (h : run a s c k = none) : run (alt a b) s c k = run b s c k := by
  simp [run, h]

theorem run_cls_cons {α : Type} (p : Char → Bool) (ch : Char) (rest : Str) (c : Caps) (k : Cont α) :
    run (cls p) (ch :: rest) c k = if p ch then k rest c else none := rfl

theorem run_cls_nil {α : Type} (p : Char → Bool) (c : Caps) (k : Cont α) : run (cls p) [] c k = none := rfl

/-- a greedy loop over one character class first tries the whole run of such characters -/
theorem starK_cls_greedy {α : Type} (p : Char → Bool) (k : Cont α) (c : Caps) (v : α) :
    ∀ (xs s' : Str) (fuel : Nat), (∀ x ∈ xs, p x = true) → (∀ ch, s'.head? = some ch → p ch = false) →
      xs.length ≤ fuel → k s' c = some v → starK (run (cls p)) fuel (xs ++ s') c k = some v
  | [], s', fuel, _, hs', _, hk => by
    cases fuel with
    | zero => simpa [starK] using hk
    | succ f =>
      simp only [List.nil_append, starK]
      cases s' with
      | nil => rw [run_cls_nil]; exact hk
      | cons ch rest => rw [run_cls_cons, hs' ch rfl]; exact hk
  | x :: xs, s', fuel, hxs, hs', hf, hk => by
    cases fuel with
    | zero => simp at hf
    | succ f =>
      simp only [List.cons_append, starK]
      rw [run_cls_cons, hxs x (List.mem_cons_self ..), if_pos rfl]
      rw [starK_cls_greedy p k c v xs s' f (fun y hy => hxs y (List.mem_cons_of_mem _ hy)) hs'
        (by simpa using hf) hk]

theorem run_star_cls_greedy {α : Type} (p : Char → Bool) (k : Cont α) (c : Caps) (v : α) (xs s' : Str)
    (hxs : ∀ x ∈ xs, p x = true) (hs' : ∀ ch, s'.head? = some ch → p ch = false) (hk : k s' c = some v) :
    run (star (cls p)) (xs ++ s') c k = some v := by
  simp only [run]
  exact starK_cls_greedy p k c v xs s' _ hxs hs' (by simp) hk

theorem run_plus_cls_greedy {α : Type} (p : Char → Bool) (k : Cont α) (c : Caps) (v : α) (xs s' : Str)
    (hne : xs ≠ []) (hxs : ∀ x ∈ xs, p x = true) (hs' : ∀ ch, s'.head? = some ch → p ch = false)
    (hk : k s' c = some v) : run (plus (cls p)) (xs ++ s') c k = some v := by
  cases xs with
  | nil => exact absurd rfl hne
  | cons x xs =>
    simp only [plus, List.cons_append]
    rw [show run (seq (cls p) (star (cls p))) (x :: (xs ++ s')) c k
          = run (star (cls p)) (xs ++ s') c k by simp [run, hxs x (List.mem_cons_self ..)]]
    exact run_star_cls_greedy p k c v xs s' (fun y hy => hxs y (List.mem_cons_of_mem _ hy)) hs' hk

end RG.Re
