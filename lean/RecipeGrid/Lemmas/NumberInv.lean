import RecipeGrid.Lemmas.NumberReader
/-! Inversion of the grammar's `number` rule (`Parser.number`): whatever it matches is one of the four permitted
    spellings `C06.NumLit`, and the value it returns is the value of that spelling.  (The converse of
    `C06.numberAt_of_wf`.)  Used by `Props/C11c.lean` (`readers_agree`). -/
namespace RG.Parser
open RG.C06

/-! ## what the primitive rules do on any text: the canonical split of the text that is left -/

theorem split_run (p : Char → Bool) (s : Str) :
    s = s.takeWhile p ++ s.dropWhile p ∧ (∀ x ∈ s.takeWhile p, p x = true) ∧ NextNot p (s.dropWhile p) := by
  refine ⟨List.takeWhile_append_dropWhile.symm, fun x hx => mem_takeWhile_imp hx, ?_⟩
  intro c hc
  have := List.head?_dropWhile_not p s
  rw [hc] at this
  simpa using this

theorem digits_at (t : Array Char) (i : Nat) (z : Bool) :
    digits t ⟨i, z⟩ =
      if (t.toList.drop i).takeWhile isDigit = [] then none
      else some ((t.toList.drop i).takeWhile isDigit, ⟨i + ((t.toList.drop i).takeWhile isDigit).length, z⟩) := by
  obtain ⟨h, hp, hn⟩ := split_run isDigit (t.toList.drop i)
  by_cases he : (t.toList.drop i).takeWhile isDigit = []
  · rw [if_pos he]
    apply digits_fail z rfl
    rw [he, List.nil_append] at h
    rw [h]; exact hn
  · rw [if_neg he]
    exact digits_run z h he hp hn

theorem ohsp_at (t : Array Char) (i : Nat) (z : Bool) :
    ohsp t ⟨i, z⟩ = some ((), ⟨i + ((t.toList.drop i).takeWhile isHsp).length, z⟩) := by
  obtain ⟨h, hp, hn⟩ := split_run isHsp (t.toList.drop i)
  exact ohsp_run z h hp hn

theorem hsp_at (t : Array Char) (i : Nat) (z : Bool) :
    hsp t ⟨i, z⟩ =
      if (t.toList.drop i).takeWhile isHsp = [] then none
      else some ((), ⟨i + ((t.toList.drop i).takeWhile isHsp).length, z⟩) := by
  obtain ⟨h, hp, hn⟩ := split_run isHsp (t.toList.drop i)
  by_cases he : (t.toList.drop i).takeWhile isHsp = []
  · rw [if_pos he]
    apply skipMany1_fail z rfl
    rw [he, List.nil_append] at h
    rw [h]; exact hn
  · rw [if_neg he]
    exact hsp_run z h he hp hn

theorem digitsOpt_at (t : Array Char) (i : Nat) (z : Bool) :
    textOf (skipMany isDigit) t ⟨i, z⟩ =
      some ((t.toList.drop i).takeWhile isDigit, ⟨i + ((t.toList.drop i).takeWhile isDigit).length, z⟩) := by
  obtain ⟨h, hp, hn⟩ := split_run isDigit (t.toList.drop i)
  exact textOf_of z h (skipMany_run z h hp hn)

theorem lit_at (c : Char) (t : Array Char) (i : Nat) (z : Bool) :
    lit c t ⟨i, z⟩ = if (t.toList.drop i).head? = some c then some ((), ⟨i + 1, z⟩) else none := by
  by_cases he : (t.toList.drop i).head? = some c
  · rw [if_pos he]
    cases hs : t.toList.drop i with
    | nil => rw [hs] at he; cases he
    | cons d r =>
      rw [hs] at he; simp only [List.head?_cons, Option.some.injEq] at he; subst he
      exact lit_of_head z hs
  · rw [if_neg he]
    exact lit_fail_of_head z rfl he

theorem drop_add_takeWhile (p : Char → Bool) (t : Array Char) (i : Nat) :
    t.toList.drop (i + ((t.toList.drop i).takeWhile p).length) = (t.toList.drop i).dropWhile p :=
  drop_add_of_drop (split_run p (t.toList.drop i)).1

theorem drop_succ_of_cons {t : Array Char} {i : Nat} {c : Char} {r : Str} (h : t.toList.drop i = c :: r) :
    t.toList.drop (i + 1) = r := by
  have := drop_add_of_drop (xs := [c]) (rest := r) (by simpa using h)
  simpa using this

/-! ## the common tail of `fraction`: `hsp? "/" hsp? denominator` and the value -/

/-- `fraction` from the point where the numerator has been read -/
def fracTail (integer : Option Str) (start numerStart : Nat) (numer : Str) : P (Nat × Num) := do
  ohsp; lit '/'; ohsp
  let denom ← digits
  let off := if integer.isSome then start else numerStart
  let d := natOfDigits denom
  if d = 0 then fail
  else
    let i : Nat := natOfDigits (integer.getD [])
    let n : Nat := natOfDigits numer
    pure (off, ⟨(i : Rat) + mkRat n d, .frac⟩)

theorem fraction_eq_fracTail : fraction = (do
    let start ← getPos
    let integer ← opt (do let ds ← digits; hsp; pure ds)
    let numerStart ← getPos
    let numer ← digits
    fracTail integer start numerStart numer) := rfl

/-- when the tail succeeds, the text left is `blanks "/" blanks digits …` with a non-zero denominator -/
theorem fracTail_inv {integer : Option Str} {start numerStart : Nat} {numer : Str} {t : Array Char} {j : Nat} {z : Bool}
    {r : Nat × Num} {s' : PState} (h : fracTail integer start numerStart numer t ⟨j, z⟩ = some (r, s')) :
    ∃ s1 s2 q rest, t.toList.drop j = s1 ++ '/' :: s2 ++ q ++ rest ∧ IsBlanks s1 ∧ IsBlanks s2 ∧ IsDigits q ∧
      digitsValue q ≠ 0 ∧ NextNot isDigit rest ∧
      r = (if integer.isSome then start else numerStart,
            ⟨((natOfDigits (integer.getD []) : Nat) : Rat) + mkRat (natOfDigits numer : Nat) (natOfDigits q), .frac⟩) ∧
      s' = ⟨j + (s1 ++ '/' :: s2 ++ q).length, z⟩ := by
  obtain ⟨e1, hb1, -⟩ := split_run isHsp (t.toList.drop j)
  simp only [fracTail, bind_apply, ohsp_at, lit_at, drop_add_takeWhile] at h
  cases hr : (t.toList.drop j).dropWhile isHsp with
  | nil => simp [hr] at h
  | cons c r5 =>
    by_cases hc : c = '/'
    · subst hc
      have hd5 : t.toList.drop (j + ((t.toList.drop j).takeWhile isHsp).length + 1) = r5 := by
        apply drop_succ_of_cons (c := '/')
        rw [drop_add_takeWhile]; exact hr
      obtain ⟨e2, hb2, -⟩ := split_run isHsp r5
      obtain ⟨e3, hq, hn3⟩ := split_run isDigit (r5.dropWhile isHsp)
      have hd6 : t.toList.drop (j + ((t.toList.drop j).takeWhile isHsp).length + 1 + (r5.takeWhile isHsp).length)
          = r5.dropWhile isHsp := by
        have := drop_add_takeWhile isHsp t (j + ((t.toList.drop j).takeWhile isHsp).length + 1)
        rw [hd5] at this; exact this
      simp only [hr, List.head?_cons, ↓reduceIte, ohsp_at, hd5, digits_at, hd6] at h
      by_cases hq0 : (r5.dropWhile isHsp).takeWhile isDigit = []
      · simp [hq0] at h
      · simp only [hq0, if_false] at h
        by_cases hz : natOfDigits ((r5.dropWhile isHsp).takeWhile isDigit) = 0
        · simp [hz] at h
        · simp only [hz, if_false, pure_apply, Option.some.injEq, Prod.mk.injEq] at h
          refine ⟨(t.toList.drop j).takeWhile isHsp, r5.takeWhile isHsp, (r5.dropWhile isHsp).takeWhile isDigit,
            (r5.dropWhile isHsp).dropWhile isDigit, ?_, hb1, hb2, ⟨hq0, hq⟩, hz, hn3, h.1.symm, ?_⟩
          · have : t.toList.drop j = (t.toList.drop j).takeWhile isHsp ++ '/' :: (r5.takeWhile isHsp ++
                ((r5.dropWhile isHsp).takeWhile isDigit ++ (r5.dropWhile isHsp).dropWhile isDigit)) := by
              rw [← e3, ← e2, ← hr]; exact e1
            simpa using this
          · rw [← h.2]
            simp only [List.length_append, List.length_cons]
            congr 1; omega
    · have : ¬ (some c = some '/') := by simpa using hc
      simp [hr, this] at h

/-! ## inversion of `fraction`, `decimal`, `number` -/

/-- whatever `fraction` matches is a proper or a mixed fraction spelling -/
theorem fraction_inv {t : Array Char} {i : Nat} {z : Bool} {r : Nat × Num} {s' : PState}
    (h : fraction t ⟨i, z⟩ = some (r, s')) :
    ∃ (l : NumLit) (rest : Str), l.WF ∧ (∀ ds, l ≠ .int ds) ∧ t.toList.drop i = l.print ++ rest ∧
      NextNot isDigit rest ∧ r = (i, l.value) ∧ s' = ⟨i + l.print.length, z⟩ := by
  obtain ⟨e0, hw, hn0⟩ := split_run isDigit (t.toList.drop i)
  rw [fraction_eq_fracTail] at h
  simp only [bind_apply, getPos_apply] at h
  by_cases hw0 : (t.toList.drop i).takeWhile isDigit = []
  · -- no digit at all
    have hd : digits t ⟨i, z⟩ = none := by rw [digits_at, if_pos hw0]
    have ho : opt (do let ds ← digits; hsp; pure ds) t ⟨i, z⟩ = some (none, ⟨i, z⟩) := by
      apply opt_of_none; simp [hd]
    simp [ho, hd] at h
  · have hd : digits t ⟨i, z⟩ = some ((t.toList.drop i).takeWhile isDigit,
        ⟨i + ((t.toList.drop i).takeWhile isDigit).length, z⟩) := by rw [digits_at, if_neg hw0]
    have hdr := drop_add_takeWhile isDigit t i
    obtain ⟨e1, hb, hn1⟩ := split_run isHsp ((t.toList.drop i).dropWhile isDigit)
    by_cases hb0 : ((t.toList.drop i).dropWhile isDigit).takeWhile isHsp = []
    · -- no blank after the first digit run: it is the numerator
      have hh : hsp t ⟨i + ((t.toList.drop i).takeWhile isDigit).length, z⟩ = none := by
        rw [hsp_at, hdr, if_pos hb0]
      have ho : opt (do let ds ← digits; hsp; pure ds) t ⟨i, z⟩ = some (none, ⟨i, z⟩) := by
        apply opt_of_none; simp [hd, hh]
      simp only [ho, hd] at h
      obtain ⟨s1, s2, q, rest, hdrop, hs1, hs2, hq, hq0, hrest, hr, hs'⟩ := fracTail_inv h
      -- s1 is empty: the text after the digits does not start with a blank
      rw [hdr] at hdrop
      have hs1nil : s1 = [] := by
        cases s1 with
        | nil => rfl
        | cons x xs =>
          have h1 : (((t.toList.drop i).dropWhile isDigit).takeWhile isHsp) ≠ [] := by
            rw [hdrop]; simp [hs1 x (by simp)]
          exact absurd hb0 h1
      subst hs1nil
      refine ⟨.frac ((t.toList.drop i).takeWhile isDigit) s2 q, rest, ⟨⟨hw0, hw⟩, hs2, hq, hq0⟩, (by intro ds hc; cases hc),
        ?_, hrest, ?_, ?_⟩
      · have := e0
        rw [hdrop] at this
        simpa [NumLit.print] using this
      · rw [hr]; simp [NumLit.value, natOfDigits, digitsValue, Rat.zero_add]
      · rw [hs']; simp only [NumLit.print, List.nil_append, List.length_append, List.length_cons, PState.mk.injEq, and_true]
        omega
    · -- a blank after the first digit run: the optional integer part is taken
      have hh : hsp t ⟨i + ((t.toList.drop i).takeWhile isDigit).length, z⟩ =
          some ((), ⟨i + ((t.toList.drop i).takeWhile isDigit).length
            + (((t.toList.drop i).dropWhile isDigit).takeWhile isHsp).length, z⟩) := by
        rw [hsp_at, hdr, if_neg hb0]
      have ho : opt (do let ds ← digits; hsp; pure ds) t ⟨i, z⟩ = some (some ((t.toList.drop i).takeWhile isDigit),
          ⟨i + ((t.toList.drop i).takeWhile isDigit).length
            + (((t.toList.drop i).dropWhile isDigit).takeWhile isHsp).length, z⟩) := by
        apply opt_of_some; simp [hd, hh]
      have hdr2 : t.toList.drop (i + ((t.toList.drop i).takeWhile isDigit).length
            + (((t.toList.drop i).dropWhile isDigit).takeWhile isHsp).length)
          = ((t.toList.drop i).dropWhile isDigit).dropWhile isHsp := by
        have := drop_add_takeWhile isHsp t (i + ((t.toList.drop i).takeWhile isDigit).length)
        rw [hdr] at this; exact this
      simp only [ho, digits_at, hdr2] at h
      obtain ⟨e2, hp, hn2⟩ := split_run isDigit (((t.toList.drop i).dropWhile isDigit).dropWhile isHsp)
      by_cases hp0 : (((t.toList.drop i).dropWhile isDigit).dropWhile isHsp).takeWhile isDigit = []
      · simp [hp0] at h
      · simp only [hp0, if_false] at h
        obtain ⟨s1, s2, q, rest, hdrop, hs1, hs2, hq, hq0, hrest, hr, hs'⟩ := fracTail_inv h
        have hdr3 := drop_add_takeWhile isDigit t (i + ((t.toList.drop i).takeWhile isDigit).length
            + (((t.toList.drop i).dropWhile isDigit).takeWhile isHsp).length)
        rw [hdr2] at hdr3
        rw [hdr3] at hdrop
        refine ⟨.mixed ((t.toList.drop i).takeWhile isDigit) (((t.toList.drop i).dropWhile isDigit).takeWhile isHsp)
          ((((t.toList.drop i).dropWhile isDigit).dropWhile isHsp).takeWhile isDigit) s1 s2 q, rest,
          ⟨⟨hw0, hw⟩, hb0, hb, ⟨hp0, hp⟩, hs1, hs2, hq, hq0⟩, (by intro ds hc; cases hc), ?_, hrest, ?_, ?_⟩
        · have : t.toList.drop i = (t.toList.drop i).takeWhile isDigit ++ (((t.toList.drop i).dropWhile isDigit).takeWhile isHsp ++
              ((((t.toList.drop i).dropWhile isDigit).dropWhile isHsp).takeWhile isDigit ++ (s1 ++ '/' :: s2 ++ q ++ rest))) := by
            rw [← hdrop, ← e2, ← e1]; exact e0
          simpa [NumLit.print] using this
        · rw [hr]; simp [NumLit.value, natOfDigits, digitsValue]
        · rw [hs']; simp only [NumLit.print, List.length_append, List.length_cons, PState.mk.injEq, and_true]
          omega

/-- whatever `decimal` matches is an integer spelling (then no "." follows) or a `whole "." frac` spelling -/
theorem decimal_inv {t : Array Char} {i : Nat} {z : Bool} {r : Nat × Num} {s' : PState}
    (h : decimal t ⟨i, z⟩ = some (r, s')) :
    ∃ (l : NumLit) (rest : Str), l.WF ∧ ((∃ ds, l = .int ds ∧ rest.head? ≠ some '.') ∨ ∃ w f, l = .dec w f) ∧
      t.toList.drop i = l.print ++ rest ∧ NextNot isDigit rest ∧ r = (i, l.value) ∧ s' = ⟨i + l.print.length, z⟩ := by
  obtain ⟨e0, hw, hn0⟩ := split_run isDigit (t.toList.drop i)
  simp only [decimal, bind_apply, getPos_apply, digits_at] at h
  by_cases hw0 : (t.toList.drop i).takeWhile isDigit = []
  · simp [hw0] at h
  · simp only [hw0, if_false] at h
    have hdr := drop_add_takeWhile isDigit t i
    cases hr : (t.toList.drop i).dropWhile isDigit with
    | nil =>
      have hl : lit '.' t ⟨i + ((t.toList.drop i).takeWhile isDigit).length, z⟩ = none := by
        rw [lit_at, hdr, hr]; simp
      have ho : opt (do lit '.'; textOf (skipMany isDigit)) t ⟨i + ((t.toList.drop i).takeWhile isDigit).length, z⟩
          = some (none, ⟨i + ((t.toList.drop i).takeWhile isDigit).length, z⟩) := by
        apply opt_of_none; simp [hl]
      simp only [ho, pure_apply, Option.some.injEq, Prod.mk.injEq] at h
      refine ⟨.int ((t.toList.drop i).takeWhile isDigit), [], ⟨hw0, hw⟩, Or.inl ⟨_, rfl, by simp⟩, ?_, nextNot_nil _, ?_, ?_⟩
      · rw [hr, List.append_nil] at e0; simpa [NumLit.print] using e0
      · rw [← h.1]; rfl
      · rw [← h.2]; rfl
    | cons c r1 =>
      by_cases hc : c = '.'
      · subst hc
        have hl : lit '.' t ⟨i + ((t.toList.drop i).takeWhile isDigit).length, z⟩
            = some ((), ⟨i + ((t.toList.drop i).takeWhile isDigit).length + 1, z⟩) := by
          rw [lit_at, hdr, hr]; simp
        have hd1 : t.toList.drop (i + ((t.toList.drop i).takeWhile isDigit).length + 1) = r1 :=
          drop_succ_of_cons (c := '.') (by rw [hdr]; exact hr)
        obtain ⟨e1, hf, hn1⟩ := split_run isDigit r1
        have ho : opt (do lit '.'; textOf (skipMany isDigit)) t ⟨i + ((t.toList.drop i).takeWhile isDigit).length, z⟩
            = some (some (r1.takeWhile isDigit),
                ⟨i + ((t.toList.drop i).takeWhile isDigit).length + 1 + (r1.takeWhile isDigit).length, z⟩) := by
          apply opt_of_some; simp [hl, digitsOpt_at, hd1]
        simp only [ho, pure_apply, Option.some.injEq, Prod.mk.injEq] at h
        refine ⟨.dec ((t.toList.drop i).takeWhile isDigit) (r1.takeWhile isDigit), r1.dropWhile isDigit,
          ⟨⟨hw0, hw⟩, hf⟩, Or.inr ⟨_, _, rfl⟩, ?_, hn1, ?_, ?_⟩
        · have : t.toList.drop i = (t.toList.drop i).takeWhile isDigit ++ '.' :: (r1.takeWhile isDigit ++ r1.dropWhile isDigit) := by
            rw [← e1, ← hr]; exact e0
          simpa [NumLit.print] using this
        · rw [← h.1]; rfl
        · rw [← h.2]; simp only [NumLit.print, List.length_append, List.length_cons, PState.mk.injEq, and_true]
          omega
      · have hl : lit '.' t ⟨i + ((t.toList.drop i).takeWhile isDigit).length, z⟩ = none := by
          rw [lit_at, hdr, hr]; simp [hc]
        have ho : opt (do lit '.'; textOf (skipMany isDigit)) t ⟨i + ((t.toList.drop i).takeWhile isDigit).length, z⟩
            = some (none, ⟨i + ((t.toList.drop i).takeWhile isDigit).length, z⟩) := by
          apply opt_of_none; simp [hl]
        simp only [ho, pure_apply, Option.some.injEq, Prod.mk.injEq] at h
        refine ⟨.int ((t.toList.drop i).takeWhile isDigit), c :: r1, ⟨hw0, hw⟩, Or.inl ⟨_, rfl, by simpa using hc⟩, ?_,
          hr ▸ hn0, ?_, ?_⟩
        · rw [hr] at e0; simpa [NumLit.print] using e0
        · rw [← h.1]; rfl
        · rw [← h.2]; rfl

/-- **whatever the grammar's `number` rule matches is one of its permitted spellings, and the value returned is
    the value of that spelling** (the converse of `C06.numberAt_of_wf`) -/
theorem number_inv {t : Array Char} {i : Nat} {z : Bool} {r : Nat × Num} {s' : PState}
    (h : number t ⟨i, z⟩ = some (r, s')) :
    ∃ (l : NumLit) (rest : Str), l.WF ∧ t.toList.drop i = l.print ++ rest ∧ NextNot isDigit rest ∧
      r = (i, l.value) ∧ s' = ⟨i + l.print.length, z⟩ := by
  cases hf : fraction t ⟨i, z⟩ with
  | some r' =>
    rw [number_of_fraction hf] at h
    cases h
    obtain ⟨l, rest, hwf, -, hd, hn, hr, hs⟩ := fraction_inv hf
    exact ⟨l, rest, hwf, hd, hn, hr, hs⟩
  | none =>
    rw [number_of_decimal hf] at h
    obtain ⟨l, rest, hwf, -, hd, hn, hr, hs⟩ := decimal_inv h
    exact ⟨l, rest, hwf, hd, hn, hr, hs⟩

end RG.Parser
