import RecipeGrid.Model.ReExt
import RecipeGrid.Lemmas.Peg
/-! Lemmas about the regular-expression engine of `Model/ReExt.lean`: sequences and branches as lists, a greedy `*` / `+`
    over a character class in closed form (`tryDown`: the positions of the run are offered to the continuation from the
    far end back), literal words, and the index facts about `spanEnd` / `trimBack` that tie the closed forms to the
    scanners of `Model/Parser.lean`. -/
namespace RG
namespace Rx
open Parser

variable {α : Type}

/-! ## sequences, branches -/

theorem run_seqs_cons (t : Array Char) (base : Nat) (a : Rx) (as : List Rx) (i : Nat) (k : K α) :
    run t base (seqs (a :: as)) i k = run t base a i (fun j => run t base (seqs as) j k) := by
  cases as with
  | nil => simp only [seqs, run]
  | cons b bs => simp only [seqs, run]

theorem run_seqs_nil (t : Array Char) (base : Nat) (i : Nat) (k : K α) : run t base (seqs []) i k = k i := by
  simp only [seqs, run]

theorem run_seqs_append (t : Array Char) (base : Nat) (xs ys : List Rx) (i : Nat) (k : K α) :
    run t base (seqs (xs ++ ys)) i k = run t base (seqs xs) i (fun j => run t base (seqs ys) j k) := by
  induction xs generalizing i k with
  | nil => simp only [List.nil_append, run_seqs_nil]
  | cons x xs ih =>
    simp only [List.cons_append, run_seqs_cons]
    congr 1
    funext j
    exact ih j k

/-- the first alternative that gives an answer -/
def firstSome : List (Option α) → Option α
  | [] => none
  | some a :: _ => some a
  | none :: rest => firstSome rest

theorem run_alts_cons (t : Array Char) (base : Nat) (a b : Rx) (bs : List Rx) (i : Nat) (k : K α) :
    run t base (alts (a :: b :: bs)) i k =
      match run t base a i k with
      | some r => some r
      | none => run t base (alts (b :: bs)) i k := by
  rw [show alts (a :: b :: bs) = alt a (alts (b :: bs)) from rfl, run]
  cases run t base a i k <;> rfl

theorem run_alts (t : Array Char) (base : Nat) (as : List Rx) (i : Nat) (k : K α) :
    run t base (alts as) i k = firstSome (as.map fun a => run t base a i k) := by
  induction as with
  | nil => simp [alts, run, step, clsTest, firstSome]; split <;> rfl
  | cons a as ih =>
    cases as with
    | nil =>
      simp only [alts, List.map]
      cases run t base a i k <;> rfl
    | cons b bs =>
      rw [run_alts_cons, ih]
      simp only [List.map]
      cases run t base a i k <;> rfl

/-! ## one character -/

theorem step_eq (t : Array Char) (p : Char → Bool) (i : Nat) (k : K α) :
    step t p i k = match t[i]? with
      | some ch => if p ch then k (i + 1) else none
      | none => none := rfl

theorem step_of_some {t : Array Char} {p : Char → Bool} {i : Nat} {c : Char} (k : K α) (h : t[i]? = some c) (hp : p c = true) :
    step t p i k = k (i + 1) := by simp [step, h, hp]

theorem step_of_not {t : Array Char} {p : Char → Bool} {i : Nat} (k : K α) (h : ∀ c, t[i]? = some c → p c = false) :
    step t p i k = none := by
  unfold step
  cases hc : t[i]? with
  | none => rfl
  | some c => simp [h c hc]

/-- `sat` is `step` -/
theorem sat_eq_step (p : Char → Bool) (t : Array Char) (i : Nat) (z : Bool) :
    (sat p t ⟨i, z⟩).map (fun r => ((), r.2)) = step t p i (fun j => some ((), (⟨j, z⟩ : PState))) := by
  simp only [sat, step]
  cases t[i]? with
  | none => rfl
  | some c => cases p c <;> simp

/-! ## greedy repetition of a class -/

/-- offer `lo + n`, `lo + n - 1`, …, `lo` to `k`; the first answer -/
def tryDown (k : K α) (lo : Nat) : Nat → Option α
  | 0 => k lo
  | n + 1 =>
    match k (lo + n + 1) with
    | some a => some a
    | none => tryDown k lo n

theorem tryDown_shift (k : K α) (lo : Nat) : ∀ n,
    tryDown k lo (n + 1) = match tryDown k (lo + 1) n with
      | some a => some a
      | none => k lo := by
  intro n
  induction n with
  | zero => simp only [tryDown, Nat.add_zero]
  | succ n ih =>
    rw [tryDown, ih]
    simp only [tryDown, show lo + 1 + n + 1 = lo + (n + 1) + 1 by omega]
    cases k (lo + (n + 1) + 1) <;> rfl

theorem tryDown_some (lo : Nat) : ∀ n, tryDown (α := Nat) some lo n = some (lo + n)
  | 0 => rfl
  | _ + 1 => rfl

theorem tryDown_first (k : K α) (lo : Nat) {a : α} : ∀ n, k (lo + n) = some a → tryDown k lo n = some a
  | 0, h => h
  | n + 1, h => by rw [tryDown, show lo + n + 1 = lo + (n + 1) by omega, h]

/-- only the far end can be accepted -/
theorem tryDown_last (k : K α) (lo : Nat) : ∀ n, (∀ m, lo ≤ m → m < lo + n → k m = none) → tryDown k lo n = k (lo + n)
  | 0, _ => rfl
  | n + 1, h => by
    rw [tryDown]
    cases hk : k (lo + n + 1) with
    | some a => rfl
    | none =>
      rw [tryDown_last k lo n (fun m h1 h2 => h m h1 (by omega))]
      rw [h (lo + n) (by omega) (by omega)]

theorem tryDown_none (k : K α) (lo : Nat) : ∀ n, (∀ m, lo ≤ m → m ≤ lo + n → k m = none) → tryDown k lo n = none
  | 0, h => h lo (Nat.le_refl _) (by omega)
  | n + 1, h => by
    rw [tryDown, h (lo + n + 1) (by omega) (by omega)]
    exact tryDown_none k lo n (fun m h1 h2 => h m h1 (by omega))

theorem tryDown_congr (k k' : K α) (lo : Nat) : ∀ n, (∀ m, lo ≤ m → m ≤ lo + n → k m = k' m) → tryDown k lo n = tryDown k' lo n
  | 0, h => h lo (Nat.le_refl _) (by omega)
  | n + 1, h => by
    rw [tryDown, tryDown, h (lo + n + 1) (by omega) (by omega),
      tryDown_congr k k' lo n (fun m h1 h2 => h m h1 (by omega))]

/-- the greedy loop over a class, in closed form: the run of the class is measured, its positions are offered to
    the continuation from the far end back -/
theorem starK_step (t : Array Char) (p : Char → Bool) (k : K α) : ∀ fuel i,
    starK (fun i k => step t p i k) fuel i k = tryDown k i (spanEnd.go p t fuel i - i) := by
  intro fuel
  induction fuel with
  | zero => intro i; simp [starK, spanEnd.go, tryDown]
  | succ f ih =>
    intro i
    rw [show starK (fun i k => step t p i k) (f + 1) i k
      = match step t p i (fun j => starK (fun i k => step t p i k) f j k) with
        | some a => some a
        | none => k i from rfl]
    cases hc : t[i]? with
    | none =>
      rw [step_of_not _ (fun c h => by rw [hc] at h; cases h)]
      simp [spanEnd.go, hc, tryDown]
    | some c =>
      cases hp : p c with
      | false =>
        rw [step_of_not _ (fun d h => by rw [hc] at h; cases h; exact hp)]
        simp [spanEnd.go, hc, hp, tryDown]
      | true =>
        rw [step_of_some _ hc hp, ih (i + 1)]
        have hgo : spanEnd.go p t (f + 1) i = spanEnd.go p t f (i + 1) := by simp [spanEnd.go, hc, hp]
        have hge := spanEnd_go_ge p t f (i + 1)
        obtain ⟨n, hn⟩ : ∃ n, spanEnd.go p t f (i + 1) - i = n + 1 := ⟨spanEnd.go p t f (i + 1) - i - 1, by omega⟩
        rw [hgo, hn, tryDown_shift, show spanEnd.go p t f (i + 1) - (i + 1) = n by omega]

theorem run_star_cls (t : Array Char) (base : Nat) (neg : Bool) (items : List ClsItem) (i : Nat) (k : K α) :
    run t base (star (cls neg items)) i k = tryDown k i (spanEnd (clsTest neg items) t i - i) := by
  simp only [run]
  exact starK_step t (clsTest neg items) k (t.size - i) i

theorem run_star_chr (t : Array Char) (base : Nat) (c : Char) (i : Nat) (k : K α) :
    run t base (star (chr c)) i k = tryDown k i (spanEnd (· == c) t i - i) := by
  simp only [run]
  exact starK_step t (· == c) k (t.size - i) i

theorem run_plus_cls (t : Array Char) (base : Nat) (neg : Bool) (items : List ClsItem) (i : Nat) (k : K α) :
    run t base (plus (cls neg items)) i k =
      step t (clsTest neg items) i (fun j => tryDown k j (spanEnd (clsTest neg items) t j - j)) := by
  simp only [run]
  congr 1
  funext j
  exact starK_step t (clsTest neg items) k (t.size - j) j

/-! ## index facts about `spanEnd` -/

theorem spanEnd_go_all (p : Char → Bool) (t : Array Char) : ∀ fuel j m, j ≤ m → m < spanEnd.go p t fuel j →
    ∃ c, t[m]? = some c ∧ p c = true := by
  intro fuel
  induction fuel with
  | zero => intro j m h1 h2; simp [spanEnd.go] at h2; omega
  | succ f ih =>
    intro j m h1 h2
    simp only [spanEnd.go] at h2
    cases hc : t[j]? with
    | none => simp [hc] at h2; omega
    | some c =>
      cases hp : p c with
      | false => simp [hc, hp] at h2; omega
      | true =>
        simp only [hc, hp, if_true] at h2
        rcases Nat.eq_or_lt_of_le h1 with rfl | hlt
        · exact ⟨c, hc, hp⟩
        · exact ih (j + 1) m hlt h2

theorem spanEnd_go_stop (p : Char → Bool) (t : Array Char) : ∀ fuel j, t.size - j ≤ fuel →
    ∀ c, t[spanEnd.go p t fuel j]? = some c → p c = false := by
  intro fuel
  induction fuel with
  | zero =>
    intro j hf c hc
    simp only [spanEnd.go] at hc
    have : j < t.size := by
      rcases Nat.lt_or_ge j t.size with h | h
      · exact h
      · simp [Array.getElem?_eq_none h] at hc
    omega
  | succ f ih =>
    intro j hf c hc
    simp only [spanEnd.go] at hc
    cases hj : t[j]? with
    | none => simp [hj] at hc
    | some d =>
      cases hp : p d with
      | false =>
        simp only [hj, hp] at hc
        simp at hc
        rw [hj] at hc
        cases hc
        exact hp
      | true =>
        simp only [hj, hp, if_true] at hc
        exact ih (j + 1) (by omega) c hc

theorem spanEnd_ge (p : Char → Bool) (t : Array Char) (i : Nat) : i ≤ spanEnd p t i := spanEnd_go_ge p t _ i

theorem spanEnd_all {p : Char → Bool} {t : Array Char} {i m : Nat} (h1 : i ≤ m) (h2 : m < spanEnd p t i) :
    ∃ c, t[m]? = some c ∧ p c = true := spanEnd_go_all p t _ i m h1 h2

theorem spanEnd_stop {p : Char → Bool} {t : Array Char} {i : Nat} {c : Char} (h : t[spanEnd p t i]? = some c) :
    p c = false := spanEnd_go_stop p t _ i (Nat.le_refl _) c h

/-- the end of the run is determined by its two properties -/
theorem spanEnd_unique {p : Char → Bool} {t : Array Char} {i e : Nat} (hie : i ≤ e)
    (hall : ∀ m, i ≤ m → m < e → ∃ c, t[m]? = some c ∧ p c = true)
    (hstop : ∀ c, t[e]? = some c → p c = false) : spanEnd p t i = e := by
  rcases Nat.lt_trichotomy (spanEnd p t i) e with h | h | h
  · obtain ⟨c, hc, hp⟩ := hall _ (spanEnd_ge p t i) h
    rw [spanEnd_stop hc] at hp; cases hp
  · exact h
  · obtain ⟨c, hc, hp⟩ := spanEnd_all hie h
    rw [hstop c hc] at hp; cases hp

theorem spanEnd_of_head {p : Char → Bool} {t : Array Char} {i : Nat} {c : Char} (hc : t[i]? = some c) (hp : p c = true) :
    spanEnd p t i = spanEnd p t (i + 1) := by
  apply spanEnd_unique (Nat.le_trans (Nat.le_succ i) (spanEnd_ge p t (i + 1)))
  · intro m h1 h2
    rcases Nat.eq_or_lt_of_le h1 with rfl | hlt
    · exact ⟨c, hc, hp⟩
    · exact spanEnd_all hlt h2
  · intro d hd; exact spanEnd_stop hd

theorem spanEnd_of_not {p : Char → Bool} {t : Array Char} {i : Nat} (h : ∀ c, t[i]? = some c → p c = false) :
    spanEnd p t i = i :=
  spanEnd_unique (Nat.le_refl _) (fun m h1 h2 => by omega) h

/-- a run of a smaller class followed, inside a bigger one: the bigger run goes on from any point of the smaller one -/
theorem spanEnd_from_inside {p : Char → Bool} {t : Array Char} {i j : Nat} (hij : i ≤ j)
    (hall : ∀ m, i ≤ m → m < j → ∃ c, t[m]? = some c ∧ p c = true) : spanEnd p t i = spanEnd p t j := by
  apply spanEnd_unique (Nat.le_trans hij (spanEnd_ge p t j))
  · intro m h1 h2
    rcases Nat.lt_or_ge m j with h | h
    · exact hall m h1 h
    · exact spanEnd_all h h2
  · intro d hd; exact spanEnd_stop hd

/-! ## `\b` -/

theorem boundaryAt_eq {t : Array Char} {base i : Nat} (h : base < i) : boundaryAt t base i = wordBoundaryAt t i := by
  unfold boundaryAt wordBoundaryAt
  have h1 : ¬ i ≤ base := by omega
  have h2 : i ≠ 0 := by omega
  simp only [h1, h2, if_false]

end Rx
end RG
