import RecipeGrid.Lemmas.BraceMatch
import RecipeGrid.Lemmas.Parser
/-! One step of `any_part_pattern.finditer` (`Brace.partAt`, a backtracking search) equals a deterministic
    lexer (`Brace.lexTok`) that works with maximal runs of digits and blanks. -/
namespace RG.Brace
open Re Parser

/-! ## The deterministic lexer (specification) -/

/-- a digit run with a non-zero digit: what `0*[1-9][0-9]*` needs -/
def hasNonZero (ds : Str) : Bool := ds.any isNonZeroDigit

/-- `numerator [ \t]* / [ \t]* denominator` at the start of `s`, all runs maximal:
    numerator, denominator, rest -/
def lexFracTail (s : Str) : Option (Str × Str × Str) :=
  if s.takeWhile isDigit = [] then none else
  match (s.dropWhile isDigit).dropWhile isHsp with
  | ch :: r =>
    if ch = '/' then
      if hasNonZero ((r.dropWhile isHsp).takeWhile isDigit) then
        some (s.takeWhile isDigit, (r.dropWhile isHsp).takeWhile isDigit, (r.dropWhile isHsp).dropWhile isDigit)
      else none
    else none
  | [] => none

/-- `integer [ \t]+` at the start of `s`, runs maximal: integer, rest -/
def lexFracInt (s : Str) : Option (Str × Str) :=
  if s.takeWhile isDigit = [] ∨ (s.dropWhile isDigit).takeWhile isHsp = [] then none
  else some (s.takeWhile isDigit, (s.dropWhile isDigit).dropWhile isHsp)

/-- a mixed fraction `integer numerator/denominator` at the start of `s` -/
def lexMixed (s : Str) : Option (Str × Str × Str × Str) :=
  match lexFracInt s with
  | some (i, r) =>
    match lexFracTail r with
    | some (n, d, r') => some (i, n, d, r')
    | none => none
  | none => none

/-- a decimal at the start of `s` (which starts with a digit) -/
def lexDecimal (s : Str) : Num × Str :=
  match s.dropWhile isDigit with
  | ch :: r =>
    if ch = '.' then (floatValue (s.takeWhile isDigit) (r.takeWhile isDigit), r.dropWhile isDigit)
    else (intValue (s.takeWhile isDigit), ch :: r)
  | [] => (intValue (s.takeWhile isDigit), [])

/-- the number at the start of `s` (which starts with a digit): a mixed fraction if there is one, else a
    fraction, else a decimal -/
def lexNumber (s : Str) : Num × Str :=
  match lexMixed s with
  | some (i, n, d, r) => (fracValue (some i) n d, r)
  | none =>
    match lexFracTail s with
    | some (n, d, r) => (fracValue none n d, r)
    | none => lexDecimal s

/-- one token: its value and the rest; `none`: nothing matches here (an unescaped brace, or the end) -/
def lexTok : Str → Option (Part × Str)
  | [] => none
  | ch :: rest =>
    if isDigit ch then some (.num (lexNumber (ch :: rest)).1, (lexNumber (ch :: rest)).2)
    else if ch = '\\' then
      match rest with
      | e :: rest' => if e = '\n' then some (.text ['\\'], rest) else some (.text [e], rest')
      | [] => some (.text ['\\'], [])
    else if ch = '{' ∨ ch = '}' then none
    else some (.text [ch], rest)

/-! ## Runs -/

theorem takeWhile_append_stop (p : Char → Bool) : ∀ (xs r : Str), (∀ x ∈ xs, p x = true) →
    (∀ ch, r.head? = some ch → p ch = false) → (xs ++ r).takeWhile p = xs ∧ (xs ++ r).dropWhile p = r
  | [], r, _, hr => by
    cases r with
    | nil => simp
    | cons ch r => simp [hr ch rfl]
  | x :: xs, r, hxs, hr => by
    have := takeWhile_append_stop p xs r (fun y hy => hxs y (List.mem_cons_of_mem _ hy)) hr
    simp [hxs x (List.mem_cons_self ..), this.1, this.2]

theorem takeWhile_append_all (p : Char → Bool) : ∀ (d s' : Str), (∀ ch ∈ d, p ch = true) →
    (d ++ s').takeWhile p = d ++ s'.takeWhile p
  | [], _, _ => rfl
  | c :: d, s', hd => by
    simp only [List.cons_append, List.takeWhile_cons, hd c (List.mem_cons_self ..), if_true]
    rw [takeWhile_append_all p d s' (fun ch hch => hd ch (List.mem_cons_of_mem _ hch))]

theorem head_dropWhile_not (p : Char → Bool) (s : Str) : ∀ ch, (s.dropWhile p).head? = some ch → p ch = false := by
  intro ch h
  have := List.head?_dropWhile_not p s
  rw [h] at this
  simpa using this

theorem take_length_sub (x r : Str) : (x ++ r).take ((x ++ r).length - r.length) = x := by
  simp

theorem isDigit_not_hsp {ch : Char} (h : isHsp ch = true) : isDigit ch = false := by
  cases hd : isDigit ch with
  | false => rfl
  | true => rw [isHsp_of_isDigit hd] at h; cases h

theorem isDigit_of_nonZero {ch : Char} (h : isNonZeroDigit ch = true) : isDigit ch = true := by
  simp only [isNonZeroDigit, isDigit, Bool.and_eq_true, decide_eq_true_eq] at *
  omega

theorem nonZero_of_digit_ne_zero {ch : Char} (h : isDigit ch = true) (h0 : ch ≠ '0') : isNonZeroDigit ch = true := by
  simp only [isNonZeroDigit, isDigit, Bool.and_eq_true, decide_eq_true_eq] at *
  have : ch.toNat ≠ 48 := by
    intro hc
    apply h0
    have := (Char.ofNat_toNat ch).symm
    rw [hc] at this
    exact this
  omega

/-- a digit run with a non-zero digit is zeros, a non-zero digit, digits -/
theorem hasNonZero_split (d : Str) (hd : ∀ ch ∈ d, isDigit ch = true) (h : hasNonZero d = true) :
    ∃ z nz e, d = z ++ nz :: e ∧ (∀ ch ∈ z, (ch == '0') = true) ∧ isNonZeroDigit nz = true ∧
      ∀ ch ∈ e, isDigit ch = true := by
  induction d with
  | nil => simp [hasNonZero] at h
  | cons c d ih =>
    by_cases hc : c = '0'
    · subst hc
      have h' : hasNonZero d = true := by
        simp only [hasNonZero, List.any_cons, Bool.or_eq_true] at h
        rcases h with h | h
        · exact absurd h (by decide)
        · exact h
      obtain ⟨z, nz, e, rfl, hz, hnz, he⟩ := ih (fun ch hch => hd ch (List.mem_cons_of_mem _ hch)) h'
      refine ⟨'0' :: z, nz, e, rfl, ?_, hnz, he⟩
      intro ch hch
      rcases List.mem_cons.1 hch with rfl | hch
      · rfl
      · exact hz ch hch
    · exact ⟨[], c, d, rfl, by simp, nonZero_of_digit_ne_zero (hd c (List.mem_cons_self ..)) hc,
        fun ch hch => hd ch (List.mem_cons_of_mem _ hch)⟩

/-! ## Words of the sub-patterns -/

theorem matches_star_cls (p : Char → Bool) (x : Str) (h : Matches (star (cls p)) x) : ∀ ch ∈ x, p ch = true := by
  intro ch hch
  simpa [alphabet] using alphabet_of_matches _ _ h ch hch

theorem matches_plus_cls (p : Char → Bool) (x : Str) (h : Matches (plus (cls p)) x) :
    x ≠ [] ∧ ∀ ch ∈ x, p ch = true := by
  constructor
  · intro hx
    subst hx
    have := nullable_of_matches_nil _ h
    simp [plus, nullable] at this
  · intro ch hch
    simpa [alphabet, plus] using alphabet_of_matches _ _ h ch hch

theorem matches_chr (c : Char) (x : Str) (h : Matches (chr c) x) : x = [c] := by
  obtain ⟨ch, hp, rfl⟩ := h
  simp only [beq_iff_eq] at hp
  rw [hp]

theorem matches_denomRe (x : Str) (h : Matches denomRe x) :
    (∀ ch ∈ x, isDigit ch = true) ∧ hasNonZero x = true := by
  obtain ⟨z, y, rfl, hz, nzs, e, rfl, ⟨nz, hnz, rfl⟩, he⟩ := h
  have hz := matches_star_cls _ _ hz
  have he := matches_star_cls _ _ he
  constructor
  · intro ch hch
    simp only [List.mem_append, List.mem_cons, List.not_mem_nil, or_false] at hch
    rcases hch with hch | rfl | hch
    · have := hz ch hch
      simp only [beq_iff_eq] at this
      subst this; decide
    · exact isDigit_of_nonZero hnz
    · exact he ch hch
  · simp [hasNonZero, hnz]

theorem matches_fracTailRe (x : Str) (h : Matches fracTailRe x) :
    ∃ n h2 h3 d, x = n ++ (h2 ++ '/' :: (h3 ++ d)) ∧ n ≠ [] ∧ (∀ ch ∈ n, isDigit ch = true) ∧
      (∀ ch ∈ h2, isHsp ch = true) ∧ (∀ ch ∈ h3, isHsp ch = true) ∧ (∀ ch ∈ d, isDigit ch = true) ∧
      hasNonZero d = true := by
  obtain ⟨n, y1, rfl, hn, h2, y2, rfl, hh2, sl, y3, rfl, hsl, h3, d, rfl, hh3, hd⟩ := h
  have hn := matches_plus_cls _ _ hn
  have hsl := matches_chr _ _ hsl
  subst hsl
  have hd := matches_denomRe _ hd
  exact ⟨n, h2, h3, d, by simp, hn.1, hn.2, matches_star_cls _ _ hh2, matches_star_cls _ _ hh3, hd.1, hd.2⟩

theorem matches_fracIntRe (x : Str) (h : Matches fracIntRe x) :
    ∃ i h1, x = i ++ h1 ∧ i ≠ [] ∧ (∀ ch ∈ i, isDigit ch = true) ∧ h1 ≠ [] ∧ (∀ ch ∈ h1, isHsp ch = true) := by
  obtain ⟨i, h1, rfl, hi, hh1⟩ := h
  have hi := matches_plus_cls _ _ hi
  have hh1 := matches_plus_cls _ _ hh1
  exact ⟨i, h1, rfl, hi.1, hi.2, hh1.1, hh1.2⟩


/-! ## The path that is tried first, when it succeeds -/

theorem run_seq {α : Type} (a b : Re) (s : Str) (c : Caps) (k : Cont α) :
    run (seq a b) s c k = run a s c (fun s' c' => run b s' c' k) := rfl

theorem run_grp {α : Type} (id : Nat) (a : Re) (s : Str) (c : Caps) (k : Cont α) :
    run (grp id a) s c k = run a s c (fun s' c' => k s' ((id, s.take (s.length - s'.length)) :: c')) := rfl

theorem run_chr_cons {α : Type} (ch : Char) (rest : Str) (c : Caps) (k : Cont α) :
    run (chr ch) (ch :: rest) c k = k rest c := by
  simp [chr, run]

theorem run_chr_ne {α : Type} (ch : Char) (s : Str) (c : Caps) (k : Cont α)
    (h : ∀ x, s.head? = some x → x ≠ ch) : run (chr ch) s c k = none := by
  cases s with
  | nil => rfl
  | cons x rest => simp [chr, run, h x rfl]

theorem head_append_of_ne {xs r : Str} {p : Char → Prop} (hne : xs ≠ []) (h : ∀ x ∈ xs, p x) :
    ∀ ch, (xs ++ r).head? = some ch → p ch := by
  intro ch hch
  cases xs with
  | nil => exact absurd rfl hne
  | cons x xs =>
    simp only [List.cons_append, List.head?_cons, Option.some.injEq] at hch
    subst hch
    exact h _ (List.mem_cons_self ..)

/-- what can follow a run of blanks or digits inside a fraction is no blank and no digit -/
theorem head_blanks_slash (h2 r : Str) (hh2 : ∀ ch ∈ h2, isHsp ch = true) :
    ∀ ch, (h2 ++ '/' :: r).head? = some ch → isDigit ch = false := by
  intro ch hch
  cases h2 with
  | nil =>
    simp only [List.nil_append, List.head?_cons, Option.some.injEq] at hch
    subst hch; decide
  | cons x xs =>
    simp only [List.cons_append, List.head?_cons, Option.some.injEq] at hch
    subst hch
    exact isDigit_not_hsp (hh2 _ (List.mem_cons_self ..))

theorem denom_run {α : Type} (z : Str) (nz : Char) (e r : Str) (c : Caps) (k : Cont α) (v : α)
    (hz : ∀ ch ∈ z, (ch == '0') = true) (hnz : isNonZeroDigit nz = true) (he : ∀ ch ∈ e, isDigit ch = true)
    (hr : ∀ ch, r.head? = some ch → isDigit ch = false) (hk : k r c = some v) :
    run denomRe ((z ++ nz :: e) ++ r) c k = some v := by
  unfold denomRe
  rw [run_seq, List.append_assoc, List.cons_append]
  refine run_star_cls_greedy _ _ c v z (nz :: (e ++ r)) hz ?_ ?_
  · intro ch hch
    simp only [List.head?_cons, Option.some.injEq] at hch
    subst hch
    cases h0 : (nz == '0') with
    | false => rfl
    | true =>
      simp only [beq_iff_eq] at h0
      subst h0
      exact absurd hnz (by decide)
  · show run (seq (cls isNonZeroDigit) (star digit)) (nz :: (e ++ r)) c k = some v
    rw [run_seq, run_cls_cons, hnz, if_pos rfl]
    exact run_star_cls_greedy isDigit k c v e r he hr hk

theorem fracTail_run {α : Type} (n h2 h3 d r : Str) (c : Caps) (k : Cont α) (v : α)
    (hne : n ≠ []) (hn : ∀ ch ∈ n, isDigit ch = true) (hh2 : ∀ ch ∈ h2, isHsp ch = true)
    (hh3 : ∀ ch ∈ h3, isHsp ch = true) (hd : ∀ ch ∈ d, isDigit ch = true) (hnz : hasNonZero d = true)
    (hr : ∀ ch, r.head? = some ch → isDigit ch = false)
    (hk : k r ((gDenominator, d) :: (gNumerator, n) :: c) = some v) :
    run fracTailRe (n ++ (h2 ++ '/' :: (h3 ++ (d ++ r)))) c k = some v := by
  obtain ⟨z, nz, e, rfl, hz, hnzd, he⟩ := hasNonZero_split d hd hnz
  unfold fracTailRe
  rw [run_seq, run_grp]
  refine run_plus_cls_greedy isDigit _ c v n _ hne hn (head_blanks_slash h2 _ hh2) ?_
  show run (seq (star hspc) _) (h2 ++ '/' :: (h3 ++ ((z ++ nz :: e) ++ r))) _ k = some v
  rw [take_length_sub, run_seq]
  refine run_star_cls_greedy isHsp _ _ v h2 _ hh2 (by intro ch hch; simp at hch; subst hch; decide) ?_
  show run (seq (chr '/') _) ('/' :: (h3 ++ ((z ++ nz :: e) ++ r))) _ k = some v
  rw [run_seq, run_chr_cons, run_seq]
  refine run_star_cls_greedy isHsp _ _ v h3 _ hh3 ?_ ?_
  · intro ch hch
    have : isDigit ch = true := by
      apply head_append_of_ne (p := fun x => isDigit x = true) (xs := z ++ nz :: e) (r := r) (by simp) hd ch hch
    exact isHsp_of_isDigit this
  · show run (grp gDenominator denomRe) ((z ++ nz :: e) ++ r) _ k = some v
    rw [run_grp]
    refine denom_run z nz e r _ _ v hz hnzd he hr ?_
    show k r ((gDenominator, _) :: (gNumerator, n) :: c) = some v
    rw [take_length_sub]
    exact hk

theorem fracInt_run {α : Type} (i h1 r : Str) (c : Caps) (k : Cont α) (v : α)
    (hne : i ≠ []) (hi : ∀ ch ∈ i, isDigit ch = true) (hne1 : h1 ≠ []) (hh1 : ∀ ch ∈ h1, isHsp ch = true)
    (hr : ∀ ch, r.head? = some ch → isHsp ch = false)
    (hk : k r ((gAnon1, i ++ h1) :: (gInteger, i) :: c) = some v) :
    run fracIntRe (i ++ (h1 ++ r)) c k = some v := by
  unfold fracIntRe
  rw [run_grp, run_seq, run_grp]
  refine run_plus_cls_greedy isDigit _ c v i _ hne hi ?_ ?_
  · intro ch hch
    exact isDigit_not_hsp (head_append_of_ne (p := fun x => isHsp x = true) hne1 hh1 ch hch)
  · show run (plus hspc) (h1 ++ r) _ _ = some v
    refine run_plus_cls_greedy isHsp _ _ v h1 r hne1 hh1 hr ?_
    show k r ((gAnon1, _) :: (gInteger, _) :: c) = some v
    rw [take_length_sub, ← List.append_assoc, take_length_sub]
    exact hk


/-! ## What the deterministic lexer found, as a decomposition of the text -/

theorem lexFracTail_some {s n d r : Str} (h : lexFracTail s = some (n, d, r)) :
    ∃ h2 h3, s = n ++ (h2 ++ '/' :: (h3 ++ (d ++ r))) ∧ n ≠ [] ∧ (∀ ch ∈ n, isDigit ch = true) ∧
      (∀ ch ∈ h2, isHsp ch = true) ∧ (∀ ch ∈ h3, isHsp ch = true) ∧ (∀ ch ∈ d, isDigit ch = true) ∧
      hasNonZero d = true ∧ (∀ ch, r.head? = some ch → isDigit ch = false) := by
  unfold lexFracTail at h
  split at h
  · cases h
  · rename_i hne
    split at h
    · rename_i ch r0 hr0
      split at h
      · rename_i hch
        subst hch
        split at h
        · rename_i hnz
          simp only [Option.some.injEq, Prod.mk.injEq] at h
          obtain ⟨rfl, rfl, rfl⟩ := h
          refine ⟨(s.dropWhile isDigit).takeWhile isHsp, r0.takeWhile isHsp, ?_, hne,
            fun ch hch => mem_takeWhile_imp hch, fun ch hch => mem_takeWhile_imp hch,
            fun ch hch => mem_takeWhile_imp hch, fun ch hch => mem_takeWhile_imp hch, hnz,
            head_dropWhile_not _ _⟩
          conv => lhs; rw [← List.takeWhile_append_dropWhile (p := isDigit) (l := s)]
          congr 1
          conv => lhs; rw [← List.takeWhile_append_dropWhile (p := isHsp) (l := s.dropWhile isDigit)]
          congr 1
          rw [hr0]
          congr 1
          conv => lhs; rw [← List.takeWhile_append_dropWhile (p := isHsp) (l := r0)]
          congr 1
          exact (List.takeWhile_append_dropWhile).symm
        · cases h
      · cases h
    · cases h

theorem lexFracInt_some {s i r : Str} (h : lexFracInt s = some (i, r)) :
    ∃ h1, h1 = (s.dropWhile isDigit).takeWhile isHsp ∧ s = i ++ (h1 ++ r) ∧ i ≠ [] ∧ (∀ ch ∈ i, isDigit ch = true) ∧
      h1 ≠ [] ∧ (∀ ch ∈ h1, isHsp ch = true) ∧ (∀ ch, r.head? = some ch → isHsp ch = false) := by
  unfold lexFracInt at h
  split at h
  · cases h
  · rename_i hne
    simp only [not_or] at hne
    simp only [Option.some.injEq, Prod.mk.injEq] at h
    obtain ⟨rfl, rfl⟩ := h
    refine ⟨(s.dropWhile isDigit).takeWhile isHsp, rfl, ?_, hne.1, fun ch hch => mem_takeWhile_imp hch, hne.2,
      fun ch hch => mem_takeWhile_imp hch, head_dropWhile_not _ _⟩
    rw [List.takeWhile_append_dropWhile, List.takeWhile_append_dropWhile]

/-- a word of the fraction tail at the start of the text is seen by the deterministic lexer -/
theorem lexFracTail_of_matches {s x s' : Str} (hs : s = x ++ s') (hx : Matches fracTailRe x) :
    (lexFracTail s).isSome = true := by
  obtain ⟨n, h2, h3, d, rfl, hne, hn, hh2, hh3, hd, hnz⟩ := matches_fracTailRe x hx
  have hdne : d ≠ [] := by intro h; subst h; simp [hasNonZero] at hnz
  have e1 : s = n ++ (h2 ++ '/' :: (h3 ++ (d ++ s'))) := by simp [hs]
  have t1 := takeWhile_append_stop isDigit n (h2 ++ '/' :: (h3 ++ (d ++ s'))) hn (head_blanks_slash h2 _ hh2)
  have t2 := takeWhile_append_stop isHsp h2 ('/' :: (h3 ++ (d ++ s'))) hh2
    (by intro ch hch; simp at hch; subst hch; decide)
  have t3 := takeWhile_append_stop isHsp h3 (d ++ s') hh3
    (by intro ch hch
        exact isHsp_of_isDigit (head_append_of_ne (p := fun x => isDigit x = true) hdne hd ch hch))
  have t4 : hasNonZero ((d ++ s').takeWhile isDigit) = true := by
    rw [takeWhile_append_all isDigit d s' hd]
    simp only [hasNonZero, List.any_append, Bool.or_eq_true] at hnz ⊢
    exact Or.inl hnz
  unfold lexFracTail
  rw [e1, t1.1, t1.2, t2.2]
  simp only [hne, if_false, if_true, t3.2, t4]
  rfl

theorem run_fracTailRe_none {α : Type} (s : Str) (c : Caps) (k : Cont α) (h : lexFracTail s = none) :
    run fracTailRe s c k = none := by
  apply run_eq_none
  intro x s' c' hs hx
  have := lexFracTail_of_matches hs hx
  rw [h] at this
  cases this

theorem run_fracTailRe_some {α : Type} {s n d r : Str} (c : Caps) (k : Cont α) (v : α)
    (h : lexFracTail s = some (n, d, r)) (hk : k r ((gDenominator, d) :: (gNumerator, n) :: c) = some v) :
    run fracTailRe s c k = some v := by
  obtain ⟨h2, h3, rfl, hne, hn, hh2, hh3, hd, hnz, hr⟩ := lexFracTail_some h
  exact fracTail_run n h2 h3 d r c k v hne hn hh2 hh3 hd hnz hr hk

theorem first_fracTailRe (ch : Char) : first fracTailRe ch = isDigit ch := by
  simp [fracTailRe, first, nullable, plus, digit]

/-- no mixed fraction for the deterministic lexer: the first alternative of the fraction pattern fails -/
theorem run_fracIntRe_none {α : Type} (s : Str) (c : Caps) (k : Cont α) (h : lexMixed s = none) :
    run fracIntRe s c (fun s' c' => run fracTailRe s' c' k) = none := by
  apply run_eq_none
  intro x s' c' hs hx
  cases hk : run fracTailRe s' c' k with
  | none => rfl
  | some v =>
    exfalso
    obtain ⟨y, s'', c'', hs', hy, _⟩ := run_sound _ _ _ _ _ hk
    have hsome := lexFracTail_of_matches hs' hy
    obtain ⟨i, h1, rfl, hine, hi, h1ne, hh1⟩ := matches_fracIntRe x hx
    have hdig : ∀ ch, s'.head? = some ch → isHsp ch = false := by
      intro ch hch
      cases y with
      | nil =>
        have := nullable_of_matches_nil _ hy
        simp [fracTailRe, nullable, plus, digit] at this
      | cons d y =>
        have hf := first_of_matches _ _ _ hy
        rw [first_fracTailRe] at hf
        rw [hs'] at hch
        simp only [List.cons_append, List.head?_cons, Option.some.injEq] at hch
        subst hch
        exact isHsp_of_isDigit hf
    have e1 : s = i ++ (h1 ++ s') := by simp [hs]
    have t1 := takeWhile_append_stop isDigit i (h1 ++ s') hi
      (fun ch hch => isDigit_not_hsp (head_append_of_ne (p := fun x => isHsp x = true) h1ne hh1 ch hch))
    have t2 := takeWhile_append_stop isHsp h1 s' hh1 hdig
    have : lexFracInt s = some (i, s') := by
      unfold lexFracInt
      rw [e1, t1.1, t1.2, t2.1, t2.2]
      simp [hine, h1ne]
    unfold lexMixed at h
    rw [this] at h
    simp only at h
    cases hl : lexFracTail s' with
    | none => rw [hl] at hsome; cases hsome
    | some t =>
      obtain ⟨n, d, r⟩ := t
      rw [hl] at h
      cases h

/-! ## The decimal pattern -/

theorem splitDot_digits (w : Str) (hw : ∀ ch ∈ w, isDigit ch = true) : splitDot w = (w, none) := by
  induction w with
  | nil => rfl
  | cons c w ih =>
    have hc : (c == '.') = false := by
      cases h : (c == '.') with
      | false => rfl
      | true =>
        simp only [beq_iff_eq] at h
        subst h
        exact absurd (hw _ (List.mem_cons_self ..)) (by decide)
    simp [splitDot, hc, ih (fun ch hch => hw ch (List.mem_cons_of_mem _ hch))]

theorem splitDot_digits_dot (w f : Str) (hw : ∀ ch ∈ w, isDigit ch = true) :
    splitDot (w ++ '.' :: f) = (w, some f) := by
  induction w with
  | nil => simp [splitDot]
  | cons c w ih =>
    have hc : (c == '.') = false := by
      cases h : (c == '.') with
      | false => rfl
      | true =>
        simp only [beq_iff_eq] at h
        subst h
        exact absurd (hw _ (List.mem_cons_self ..)) (by decide)
    simp [splitDot, hc, ih (fun ch hch => hw ch (List.mem_cons_of_mem _ hch))]

theorem decimal_run_int {α : Type} (w r : Str) (c : Caps) (k : Cont α) (v : α)
    (hne : w ≠ []) (hw : ∀ ch ∈ w, isDigit ch = true) (hr : ∀ ch, r.head? = some ch → isDigit ch = false)
    (hdot : ∀ ch, r.head? = some ch → ch ≠ '.') (hk : k r ((gDecimal, w) :: c) = some v) :
    run decimalRe (w ++ r) c k = some v := by
  unfold decimalRe
  rw [run_grp, run_seq]
  refine run_plus_cls_greedy isDigit _ c v w r hne hw hr ?_
  show run (opt _) r c _ = some v
  unfold Re.opt
  rw [run_alt_of_left_none]
  · show k r ((gDecimal, _) :: c) = some v
    rw [take_length_sub]
    exact hk
  · rw [run_grp, run_seq]
    exact run_chr_ne _ _ _ _ hdot

theorem decimal_run_float {α : Type} (w f r : Str) (c : Caps) (k : Cont α) (v : α)
    (hne : w ≠ []) (hw : ∀ ch ∈ w, isDigit ch = true) (hf : ∀ ch ∈ f, isDigit ch = true)
    (hr : ∀ ch, r.head? = some ch → isDigit ch = false)
    (hk : k r ((gDecimal, w ++ '.' :: f) :: (gAnon2, '.' :: f) :: c) = some v) :
    run decimalRe (w ++ '.' :: (f ++ r)) c k = some v := by
  unfold decimalRe
  rw [run_grp, run_seq]
  refine run_plus_cls_greedy isDigit _ c v w _ hne hw (by intro ch hch; simp at hch; subst hch; decide) ?_
  show run (opt _) ('.' :: (f ++ r)) c _ = some v
  unfold Re.opt
  apply run_alt_of_left
  rw [run_grp, run_seq, run_chr_cons]
  refine run_star_cls_greedy isDigit _ c v f r hf hr ?_
  show k r ((gDecimal, _) :: (gAnon2, _) :: c) = some v
  have e1 : (w ++ '.' :: (f ++ r)) = (w ++ '.' :: f) ++ r := by simp
  have e2 : ('.' :: (f ++ r)) = ('.' :: f) ++ r := by simp
  rw [e1, e2, take_length_sub, take_length_sub]
  exact hk


/-! ## One step of `finditer` -/

/-- the deterministic lexer with the groups of the match: rest of the text and groups, exactly as
    `any_part_pattern.match` leaves them -/
def lexCaps : Str → Option (Str × Caps)
  | [] => none
  | ch :: rest =>
    if isDigit ch then
      match lexMixed (ch :: rest) with
      | some (i, n, d, r) =>
        some (r, [(gDenominator, d), (gNumerator, n),
                  (gAnon1, i ++ ((ch :: rest).dropWhile isDigit).takeWhile isHsp), (gInteger, i)])
      | none =>
        match lexFracTail (ch :: rest) with
        | some (n, d, r) => some (r, [(gDenominator, d), (gNumerator, n)])
        | none =>
          match (ch :: rest).dropWhile isDigit with
          | x :: r =>
            if x = '.' then
              some (r.dropWhile isDigit,
                [(gDecimal, (ch :: rest).takeWhile isDigit ++ '.' :: r.takeWhile isDigit),
                 (gAnon2, '.' :: r.takeWhile isDigit)])
            else some (x :: r, [(gDecimal, (ch :: rest).takeWhile isDigit)])
          | [] => some ([], [(gDecimal, (ch :: rest).takeWhile isDigit)])
    else if ch = '\\' then
      match rest with
      | e :: rest' => if e = '\n' then some (rest, [(gChar, ['\\'])]) else some (rest', [(gEscaped, [e])])
      | [] => some ([], [(gChar, ['\\'])])
    else if ch = '{' ∨ ch = '}' then none
    else some (rest, [(gChar, [ch])])

/-- the continuation of `partAt` -/
def acc : Cont (Str × Caps) := fun rest c => some (rest, c)

theorem takeWhile_digit_ne_nil (ch : Char) (rest : Str) (h : isDigit ch = true) :
    (ch :: rest).takeWhile isDigit ≠ [] := by
  simp [h]

theorem run_fractionRe_acc (s : Str) :
    run fractionRe s [] acc =
      match lexMixed s with
      | some (i, n, d, r) =>
        some (r, [(gDenominator, d), (gNumerator, n), (gAnon1, i ++ (s.dropWhile isDigit).takeWhile isHsp), (gInteger, i)])
      | none =>
        match lexFracTail s with
        | some (n, d, r) => some (r, [(gDenominator, d), (gNumerator, n)])
        | none => none := by
  unfold fractionRe
  rw [run_seq]
  unfold Re.opt
  cases hm : lexMixed s with
  | some t =>
    obtain ⟨i, n, d, r⟩ := t
    simp only
    apply run_alt_of_left
    unfold lexMixed at hm
    cases hi : lexFracInt s with
    | none => rw [hi] at hm; cases hm
    | some t =>
      obtain ⟨i', rr⟩ := t
      rw [hi] at hm
      simp only at hm
      cases ht : lexFracTail rr with
      | none => rw [ht] at hm; cases hm
      | some t =>
        obtain ⟨n', d', r'⟩ := t
        rw [ht] at hm
        simp only [Option.some.injEq, Prod.mk.injEq] at hm
        obtain ⟨rfl, rfl, rfl, rfl⟩ := hm
        obtain ⟨h1, hh1eq, hs, hine, hi', h1ne, hh1, hrr⟩ := lexFracInt_some hi
        rw [← hh1eq]
        conv => lhs; rw [hs]
        refine fracInt_run i' h1 rr [] _ _ hine hi' h1ne hh1 hrr ?_
        show run fracTailRe rr _ acc = some _
        exact run_fracTailRe_some _ acc _ ht rfl
  | none =>
    simp only
    rw [run_alt_of_left_none (run_fracIntRe_none s [] acc hm)]
    show run fracTailRe s [] acc = _
    cases ht : lexFracTail s with
    | none => exact run_fracTailRe_none s [] acc ht
    | some t =>
      obtain ⟨n, d, r⟩ := t
      exact run_fracTailRe_some [] acc _ ht rfl

theorem run_decimalRe_acc (ch : Char) (rest : Str) (hd : isDigit ch = true) :
    run decimalRe (ch :: rest) [] acc =
      match (ch :: rest).dropWhile isDigit with
      | x :: r =>
        if x = '.' then
          some (r.dropWhile isDigit,
            [(gDecimal, (ch :: rest).takeWhile isDigit ++ '.' :: r.takeWhile isDigit),
             (gAnon2, '.' :: r.takeWhile isDigit)])
        else some (x :: r, [(gDecimal, (ch :: rest).takeWhile isDigit)])
      | [] => some ([], [(gDecimal, (ch :: rest).takeWhile isDigit)]) := by
  have hne := takeWhile_digit_ne_nil ch rest hd
  have hw : ∀ x ∈ (ch :: rest).takeWhile isDigit, isDigit x = true := fun x hx => mem_takeWhile_imp hx
  have hsplit := (List.takeWhile_append_dropWhile (p := isDigit) (l := ch :: rest)).symm
  have hhead := head_dropWhile_not isDigit (ch :: rest)
  generalize (ch :: rest).takeWhile isDigit = w at *
  generalize hr : (ch :: rest).dropWhile isDigit = r at *
  rw [hsplit]
  cases r with
  | nil => exact decimal_run_int w [] [] acc _ hne hw (by simp) (by simp) rfl
  | cons x r =>
    by_cases hx : x = '.'
    · subst hx
      simp only [if_true]
      conv => lhs; rw [← List.takeWhile_append_dropWhile (p := isDigit) (l := r)]
      exact decimal_run_float w (r.takeWhile isDigit) (r.dropWhile isDigit) [] acc _ hne hw
        (fun x hx => mem_takeWhile_imp hx) (head_dropWhile_not isDigit r) rfl
    · simp only [hx, if_false]
      exact decimal_run_int w (x :: r) [] acc _ hne hw hhead (by simpa using hx) rfl

/-- **one step of `finditer`, with its groups, is the deterministic lexer** -/
theorem partAt_eq_lexCaps (s : Str) : partAt s = lexCaps s := by
  show run anyPartRe s [] acc = lexCaps s
  cases s with
  | nil => exact run_eq_none_of_first _ _ _ _ nullable_anyPartRe (by simp)
  | cons ch rest =>
    cases hd : isDigit ch with
    | true =>
      simp only [lexCaps, hd, if_true]
      unfold anyPartRe
      have hf := run_fractionRe_acc (ch :: rest)
      cases hm : lexMixed (ch :: rest) with
      | some t =>
        obtain ⟨i, n, d, r⟩ := t
        rw [hm] at hf
        exact run_alt_of_left hf
      | none =>
        rw [hm] at hf
        simp only at hf ⊢
        cases ht : lexFracTail (ch :: rest) with
        | some t =>
          obtain ⟨n, d, r⟩ := t
          rw [ht] at hf
          exact run_alt_of_left hf
        | none =>
          rw [ht] at hf
          simp only at hf ⊢
          rw [run_alt_of_left_none hf]
          have hdres := run_decimalRe_acc ch rest hd
          have hsome : (run decimalRe (ch :: rest) [] acc).isSome = true := by
            rw [hdres]
            cases (ch :: rest).dropWhile isDigit with
            | nil => rfl
            | cons x r => simp only; split <;> rfl
          rw [run_alt_of_left_isSome hsome]
          exact hdres
    | false =>
      rw [run_anyPartRe_nondigit _ _ _ _ hd, run_freeTextRe]
      simp only [lexCaps, hd]
      by_cases hbs : ch = '\\'
      · subst hbs
        have hfree : isFreeChar '\\' = true := by decide
        simp only [if_true, hfree]
        cases rest with
        | nil => simp [acc]
        | cons e rest' =>
          by_cases he : e = '\n'
          · subst he
            have : isDot '\n' = false := by decide
            simp [this, acc]
          · have : isDot e = true := by simp [isDot, he]
            simp [this, he, acc]
      · simp only [hbs, if_false]
        by_cases hb : ch = '{' ∨ ch = '}'
        · have : isFreeChar ch = false := by
            rcases hb with rfl | rfl <;> decide
          simp [this, hb]
        · have : isFreeChar ch = true := by
            simp only [not_or] at hb
            simp [isFreeChar, hd, hb.1, hb.2]
          simp [this, hb, acc]

/-- the values that `__init__` builds from the groups are those of the deterministic lexer -/
theorem lexCaps_value (s : Str) : (lexCaps s).map (fun r => (partValue r.2, r.1)) = lexTok s := by
  cases s with
  | nil => rfl
  | cons ch rest =>
    cases hd : isDigit ch with
    | true =>
      have hw : ∀ x ∈ (ch :: rest).takeWhile isDigit, isDigit x = true := fun x hx => mem_takeWhile_imp hx
      simp only [lexCaps, lexTok, hd, if_true, lexNumber]
      cases lexMixed (ch :: rest) with
      | some t =>
        obtain ⟨i, n, d, r⟩ := t
        simp [partValue, Caps.get, gNumerator, gInteger, gDenominator, gAnon1]
      | none =>
        simp only
        cases lexFracTail (ch :: rest) with
        | some t =>
          obtain ⟨n, d, r⟩ := t
          simp [partValue, Caps.get, gNumerator, gInteger, gDenominator]
        | none =>
          simp only [lexDecimal]
          generalize (ch :: rest).takeWhile isDigit = w at *
          cases (ch :: rest).dropWhile isDigit with
          | nil => simp [partValue, Caps.get, gNumerator, gDecimal, splitDot_digits w hw]
          | cons x r =>
            by_cases hx : x = '.'
            · subst hx
              simp [partValue, Caps.get, gNumerator, gDecimal, gAnon2, splitDot_digits_dot w _ hw]
            · simp [hx, partValue, Caps.get, gNumerator, gDecimal, splitDot_digits w hw]
    | false =>
      simp only [lexCaps, lexTok, hd]
      by_cases hbs : ch = '\\'
      · subst hbs
        cases rest with
        | nil => simp [partValue, Caps.get, gNumerator, gDecimal, gEscaped, gChar]
        | cons e rest' =>
          by_cases he : e = '\n'
          · simp [he, partValue, Caps.get, gNumerator, gDecimal, gEscaped, gChar]
          · simp [he, partValue, Caps.get, gNumerator, gDecimal, gEscaped]
      · by_cases hb : ch = '{' ∨ ch = '}'
        · simp [hbs, hb]
        · simp [hbs, hb, partValue, Caps.get, gNumerator, gDecimal, gEscaped, gChar]

theorem partAt_eq_lexTok (s : Str) : (partAt s).map (fun r => (partValue r.2, r.1)) = lexTok s := by
  rw [partAt_eq_lexCaps, lexCaps_value]

end RG.Brace
