import RecipeGrid.Lemmas.BraceTotal
/-! Declarative facts about where a `{…}` expression closes, and a part-level criterion for `Printable`. -/
namespace RG.Brace
open Re Parser

/-! ## the greedy reading of escapes -/

/-- the reading without any search: a backslash always escapes the next character (unless that is a line
    feed or the end of the text) -/
def closeGreedy : Str → Option Str
  | [] => none
  | [ch] => if ch = '}' then some [] else none
  | ch :: e :: rest =>
    if ch = '}' then some (e :: rest)
    else if ch = '{' then none
    else if ch = '\\' ∧ e ≠ '\n' then closeGreedy rest
    else closeGreedy (e :: rest)

/-- where the greedy reading closes, the search closes too: the search is needed only when the greedy reading fails -/
theorem closeAt_of_greedy : ∀ (n : Nat) (s r : Str), s.length ≤ n → closeGreedy s = some r → closeAt s = some r
  | 0, s, r, hn, h => by
    have : s = [] := List.eq_nil_of_length_eq_zero (by omega)
    subst this
    cases h
  | n + 1, s, r, hn, h => by
    cases s with
    | nil => cases h
    | cons ch s =>
      cases s with
      | nil => simpa [closeGreedy, closeAt] using h
      | cons e rest =>
        simp only [List.length_cons] at hn
        by_cases hc : ch = '}'
        · subst hc
          simpa [closeGreedy, closeAt] using h
        by_cases ho : ch = '{'
        · subst ho
          simp [closeGreedy] at h
        by_cases hb : ch = '\\' ∧ e ≠ '\n'
        · obtain ⟨rfl, he⟩ := hb
          have h' : closeGreedy rest = some r := by simpa [closeGreedy, he] using h
          rw [closeAt_backslash e rest he, closeAt_of_greedy n rest r (by omega) h']
        · simp only [closeGreedy, hc, ho, hb, if_false] at h
          simp only [closeAt, hc, ho, hb, if_false]
          exact closeAt_of_greedy n (e :: rest) r (by simp; omega) h

/-- the greedy reading of a source is clean: it meets no brace where a part would have to start, and it does not
    end on a backslash (which would take the closing brace for an escaped character) -/
def greedyClean : Str → Bool
  | [] => true
  | [ch] => !(ch == '{' || ch == '}' || ch == '\\')
  | ch :: e :: rest =>
    if ch = '{' ∨ ch = '}' then false
    else if ch = '\\' ∧ e ≠ '\n' then greedyClean rest
    else greedyClean (e :: rest)

/-- a source that reads cleanly is found by the greedy reading -/
theorem closeGreedy_of_clean : ∀ (n : Nat) (src r : Str), src.length ≤ n → greedyClean src = true →
    closeGreedy (src ++ '}' :: r) = some r
  | 0, src, r, hn, _ => by
    have : src = [] := List.eq_nil_of_length_eq_zero (by omega)
    subst this
    cases r <;> simp [closeGreedy]
  | n + 1, src, r, hn, h => by
    cases src with
    | nil => cases r <;> simp [closeGreedy]
    | cons ch src' =>
      cases src' with
      | nil =>
        simp only [greedyClean, Bool.not_eq_true', Bool.or_eq_false_iff, beq_eq_false_iff_ne, ne_eq] at h
        obtain ⟨⟨h1, h2⟩, h3⟩ := h
        have hr : closeGreedy ('}' :: r) = some r := by cases r <;> simp [closeGreedy]
        simp only [List.cons_append, List.nil_append, closeGreedy, h1, h2, h3, if_false, false_and]
        exact hr
      | cons e rest =>
        simp only [List.length_cons] at hn
        simp only [greedyClean] at h
        by_cases hb : ch = '{' ∨ ch = '}'
        · simp [hb] at h
        · simp only [hb, if_false] at h
          simp only [not_or] at hb
          by_cases hesc : ch = '\\' ∧ e ≠ '\n'
          · obtain ⟨rfl, he⟩ := hesc
            have h' : greedyClean rest = true := by simpa [he] using h
            have ih := closeGreedy_of_clean n rest r (by omega) h'
            have : closeGreedy ('\\' :: e :: (rest ++ '}' :: r)) = closeGreedy (rest ++ '}' :: r) := by
              simp [closeGreedy, he]
            simpa using this.trans ih
          · simp only [hesc, if_false] at h
            have ih := closeGreedy_of_clean n (e :: rest) r (by simp; omega) h
            have : closeGreedy (ch :: e :: (rest ++ '}' :: r)) = closeGreedy (e :: (rest ++ '}' :: r)) := by
              simp only [closeGreedy, hb.1, hb.2, hesc, if_false]
            simpa using this.trans ih

/-! ## every brace inside the source stands after a backslash -/

/-- every brace stands directly after a backslash (`prev`: the character before the text is a backslash) -/
def bracesEscaped (prev : Bool) : Str → Bool
  | [] => true
  | ch :: s => (if ch = '{' ∨ ch = '}' then prev else true) && bracesEscaped (ch == '\\') s

theorem bracesEscaped_mono : ∀ (s : Str) (p : Bool), bracesEscaped p s = true → bracesEscaped true s = true
  | [], _, _ => rfl
  | ch :: s, p, h => by
    simp only [bracesEscaped, Bool.and_eq_true] at h ⊢
    refine ⟨?_, h.2⟩
    split <;> rfl

theorem closeAt_escaped : ∀ (n : Nat) (s r : Str), s.length ≤ n → closeAt s = some r →
    ∃ src, s = src ++ '}' :: r ∧ bracesEscaped false src = true
  | 0, s, r, hn, h => by
    have : s = [] := List.eq_nil_of_length_eq_zero (by omega)
    subst this
    simp [closeAt] at h
  | n + 1, s, r, hn, h => by
    cases s with
    | nil => simp [closeAt] at h
    | cons ch s =>
      simp only [List.length_cons] at hn
      by_cases hc : ch = '}'
      · subst hc
        rw [closeAt_close] at h
        cases h
        exact ⟨[], rfl, rfl⟩
      by_cases ho : ch = '{'
      · subst ho
        rw [closeAt_open] at h
        cases h
      have plainStep : ∀ r, closeAt s = some r → ch ≠ '\\' →
          ∃ src, ch :: s = src ++ '}' :: r ∧ bracesEscaped false src = true := by
        intro r h hb
        obtain ⟨src, hs, he⟩ := closeAt_escaped n s r (by omega) h
        refine ⟨ch :: src, by rw [hs]; rfl, ?_⟩
        have hq : (ch == '\\') = false := by simp [hb]
        simp [bracesEscaped, hc, ho, hq, he]
      have charStep : ∀ r, closeAt s = some r → ch = '\\' →
          ∃ src, ch :: s = src ++ '}' :: r ∧ bracesEscaped false src = true := by
        intro r h hb
        obtain ⟨src, hs, he⟩ := closeAt_escaped n s r (by omega) h
        refine ⟨ch :: src, by rw [hs]; rfl, ?_⟩
        subst hb
        simp only [bracesEscaped, Bool.and_eq_true]
        exact ⟨by decide, by simpa using bracesEscaped_mono src false he⟩
      by_cases hb : ch = '\\'
      · cases s with
        | nil => subst hb; simp [closeAt] at h
        | cons e rest =>
          by_cases he : e = '\n'
          · subst hb; subst he
            rw [closeAt_backslash_nl] at h
            exact charStep r h rfl
          · subst hb
            rw [closeAt_backslash e rest he] at h
            cases hr : closeAt rest with
            | some r' =>
              rw [hr] at h
              cases h
              obtain ⟨src, hs, hes⟩ := closeAt_escaped n rest r (by simp at hn; omega) hr
              refine ⟨'\\' :: e :: src, by rw [hs]; rfl, ?_⟩
              simp only [bracesEscaped, Bool.and_eq_true]
              refine ⟨by decide, ?_, ?_⟩
              · split <;> rfl
              · cases hq : (e == '\\') with
                | true => exact bracesEscaped_mono src false hes
                | false => exact hes
            | none =>
              rw [hr] at h
              exact charStep r h rfl
      · rw [closeAt_plain_cons ch s (by simp [isPlain, hb, ho, hc])] at h
        exact plainStep r h hb

/-- conversely: wherever a `}` stands after a stretch in which every brace is escaped, the search finds an end -/
theorem closeAt_isSome_of_escaped : ∀ (n : Nat) (src r : Str), src.length ≤ n → bracesEscaped false src = true →
    (closeAt (src ++ '}' :: r)).isSome = true
  | 0, src, r, hn, _ => by
    have : src = [] := List.eq_nil_of_length_eq_zero (by omega)
    subst this
    simp [closeAt_close]
  | n + 1, src, r, hn, h => by
    cases src with
    | nil => simp [closeAt_close]
    | cons c src' =>
      simp only [List.length_cons] at hn
      simp only [bracesEscaped, Bool.and_eq_true] at h
      obtain ⟨hc, hrest⟩ := h
      have hnb : ¬ (c = '{' ∨ c = '}') := by
        intro hb
        simp [hb] at hc
      simp only [not_or] at hnb
      by_cases hbs : c = '\\'
      · subst hbs
        have hrest' : bracesEscaped true src' = true := by simpa using hrest
        cases src' with
        | nil =>
          simp only [List.cons_append, List.nil_append]
          rw [closeAt_backslash '}' r (by decide)]
          cases closeAt r with
          | some _ => rfl
          | none => simp [closeAt_close]
        | cons e src'' =>
          simp only [List.cons_append]
          simp only [bracesEscaped, Bool.and_eq_true] at hrest'
          by_cases he : e = '\n'
          · subst he
            rw [closeAt_backslash_nl]
            have : bracesEscaped false ('\n' :: src'') = true := by
              simp only [bracesEscaped, Bool.and_eq_true]
              exact ⟨by decide, hrest'.2⟩
            exact closeAt_isSome_of_escaped n ('\n' :: src'') r (by simpa using hn) this
          · rw [closeAt_backslash e _ he]
            by_cases heb : e = '\\'
            · subst heb
              have h2 : bracesEscaped false ('\\' :: src'') = true := by
                simp only [bracesEscaped, Bool.and_eq_true]
                exact ⟨by decide, hrest'.2⟩
              have := closeAt_isSome_of_escaped n ('\\' :: src'') r (by simpa using hn) h2
              simp only [List.cons_append] at this
              cases closeAt (src'' ++ '}' :: r) with
              | some _ => rfl
              | none => exact this
            · have h2 : bracesEscaped false src'' = true := by
                have : (e == '\\') = false := by simp [heb]
                rw [this] at hrest'
                exact hrest'.2
              have := closeAt_isSome_of_escaped n src'' r (by simp at hn; omega) h2
              cases hq : closeAt (src'' ++ '}' :: r) with
              | some _ => rfl
              | none => rw [hq] at this; cases this
      · have hq : (c == '\\') = false := by simp [hbs]
        rw [hq] at hrest
        simp only [List.cons_append]
        rw [closeAt_plain_cons c _ (by simp [isPlain, hbs, hnb.1, hnb.2])]
        exact closeAt_isSome_of_escaped n src' r (by omega) hrest

/-! ## a part-level criterion for `Printable` -/

theorem printChar_head (c : Char) (tail : Str) :
    ∃ x s, printChar c ++ tail = x :: s ∧ isDigit x = false ∧ (x = c ∨ x = '\\') := by
  unfold printChar
  by_cases h : needsEscape c = true
  · exact ⟨'\\', c :: tail, by simp [h], by decide, Or.inr rfl⟩
  · simp only [Bool.not_eq_true] at h
    refine ⟨c, tail, by simp [h], ?_, Or.inl rfl⟩
    simp only [needsEscape, Bool.or_eq_false_iff] at h
    exact h.1.1.1

theorem printText_hsp_prefix : ∀ (t tail : Str),
    (printText t ++ tail).dropWhile isHsp =
      if t.dropWhile isHsp = [] then tail.dropWhile isHsp else printText (t.dropWhile isHsp) ++ tail
  | [], tail => by simp [printText]
  | c :: t, tail => by
    by_cases hc : isHsp c = true
    · have hne : needsEscape c = false := by
        simp only [isHsp, Bool.or_eq_true, beq_iff_eq] at hc
        rcases hc with rfl | rfl <;> decide
      have ih := printText_hsp_prefix t tail
      simp only [printText, List.flatMap_cons, printChar, hne, List.cons_append, List.nil_append,
        List.dropWhile_cons, hc, if_true, Bool.false_eq_true, if_false] at ih ⊢
      exact ih
    · simp only [Bool.not_eq_true] at hc
      obtain ⟨x, s, hs, _, hx⟩ := printChar_head c (printText t ++ tail)
      have hxh : isHsp x = false := by
        rcases hx with rfl | rfl
        · exact hc
        · decide
      simp only [printText, List.flatMap_cons, List.append_assoc] at hs ⊢
      rw [hs]
      simp only [List.dropWhile_cons, hxh, hc, Bool.false_eq_true, if_false]
      simp [← hs]

theorem intFollow_printText (t tail : Str) (h : textFollowsInt t = true) : IntFollow (printText t ++ tail) := by
  simp only [textFollowsInt, Bool.and_eq_true, bne_iff_ne, ne_eq] at h
  obtain ⟨hdot, hrest⟩ := h
  constructor
  · cases t with
    | nil => simp at hrest
    | cons c t =>
      obtain ⟨x, s, hs, _, hx⟩ := printChar_head c (printText t ++ tail)
      simp only [printText, List.flatMap_cons, List.append_assoc] at hs ⊢
      rw [hs]
      simp only [List.head?_cons]
      rcases hx with rfl | rfl
      · simpa using hdot
      · decide
  · intro ch hch
    rw [printText_hsp_prefix] at hch
    cases hd : t.dropWhile isHsp with
    | nil => rw [hd] at hrest; simp at hrest
    | cons c t' =>
      rw [hd] at hch hrest
      simp only [reduceCtorEq, if_false] at hch
      obtain ⟨x, s, hs, hxd, hx⟩ := printChar_head c (printText t' ++ tail)
      simp only [printText, List.flatMap_cons, List.append_assoc] at hs hch
      rw [hs] at hch
      simp only [List.head?_cons, Option.some.injEq] at hch
      subst hch
      refine ⟨hxd, ?_⟩
      rcases hx with rfl | rfl
      · simpa using hrest
      · decide

theorem head_printText_not_digit (t tail : Str) (ht : t ≠ []) :
    ∀ ch, (printText t ++ tail).head? = some ch → isDigit ch = false := by
  intro ch hch
  cases t with
  | nil => exact absurd rfl ht
  | cons c t =>
    obtain ⟨x, s, hs, hxd, _⟩ := printChar_head c (printText t ++ tail)
    simp only [printText, List.flatMap_cons, List.append_assoc] at hs hch
    rw [hs] at hch
    simp only [List.head?_cons, Option.some.injEq] at hch
    subst hch
    exact hxd

theorem intFollow_nil : IntFollow [] := by
  constructor <;> simp

/-- numbers that are expressible, in a normal string, separated as `sepOK` asks, can be written and read back -/
theorem printable_of_sepOK : ∀ (s : SVS), Svs.Normal s →
    (∀ p ∈ s, ∀ n, p = .num n → NumOK n) → sepOK s = true → Printable s
  | [], _, _, _ => trivial
  | .text t :: rest, hn, hok, hs => by
    simp only [Printable]
    exact printable_of_sepOK rest hn.2.2 (fun p hp => hok p (List.mem_cons_of_mem _ hp)) (by simpa [sepOK] using hs)
  | [.num n], _, hok, _ => by
    refine ⟨hok _ (List.mem_cons_self ..) n rfl, ?_, trivial⟩
    simp only [printBrace, List.flatMap_nil, NumFollow]
    cases n.kind
    · exact intFollow_nil
    · simp
    · simp
  | .num n :: .num m :: rest, _, _, hs => by simp [sepOK] at hs
  | .num n :: .text t :: rest, hn, hok, hs => by
    simp only [sepOK, Bool.and_eq_true, Bool.or_eq_true, bne_iff_ne, ne_eq] at hs
    have hnorm : Svs.Normal (.text t :: rest) := hn
    have hrest : Printable (.text t :: rest) := by
      simp only [Printable]
      exact printable_of_sepOK rest hnorm.2.2
        (fun p hp => hok p (List.mem_cons_of_mem _ (List.mem_cons_of_mem _ hp))) hs.2
    refine ⟨hok _ (List.mem_cons_self ..) n rfl, ?_, hrest⟩
    have hprint : printBrace (.text t :: rest) = printText t ++ printBrace rest := by
      simp [printBrace, printPart]
    rw [hprint]
    simp only [NumFollow]
    cases hk : n.kind with
    | int =>
      simp only
      rcases hs.1 with h | h
      · exact absurd hk h
      · exact intFollow_printText t _ h
    | frac => exact head_printText_not_digit t _ hnorm.1
    | flt => exact head_printText_not_digit t _ hnorm.1

end RG.Brace
