import RecipeGrid.Model.SiteSources
import RecipeGrid.Lemmas.Site
import RecipeGrid.Lemmas.Reach
import RecipeGrid.Lemmas.Fmt
import RecipeGrid.Model.Links
/-! Lemmas about the source → page table (`Model/SiteSources.lean`): Python dict semantics and the entries met
    while iterating over all pages. -/
namespace RG

-- ================================================================ dict
theorem mem_dictInsert (k : List Str) (v : Str × Bool) (l : List SrcEntry) (e : SrcEntry) (h : e ∈ dictInsert k v l) :
    e = (k, v) ∨ e ∈ l := by
  induction l with
  | nil => simp [dictInsert] at h; exact .inl h
  | cons x xs ih =>
    simp only [dictInsert] at h
    split at h
    · rename_i hk
      have hk : x.1 = k := by simpa using hk
      rcases List.mem_cons.mp h with h | h
      · left; rw [h, hk]
      · right; exact List.mem_cons_of_mem _ h
    · rcases List.mem_cons.mp h with h | h
      · right; rw [h]; exact List.mem_cons_self
      · rcases ih h with h | h
        · exact .inl h
        · exact .inr (List.mem_cons_of_mem _ h)

theorem keys_dictInsert (k : List Str) (v : Str × Bool) (l : List SrcEntry) :
    (dictInsert k v l).map (·.1) = if k ∈ l.map (·.1) then l.map (·.1) else l.map (·.1) ++ [k] := by
  induction l with
  | nil => simp [dictInsert]
  | cons x xs ih =>
    simp only [dictInsert]
    by_cases hk : x.1 = k
    · simp [hk]
    · have hk' : (x.1 == k) = false := by simpa using hk
      have hk2 : ¬ k = x.1 := fun h => hk h.symm
      rw [hk']
      simp only [Bool.false_eq_true, if_false, List.map_cons, ih, List.mem_cons, hk2, false_or]
      split <;> simp

theorem dictFold_sub (l acc : List SrcEntry) (e : SrcEntry)
    (h : e ∈ l.foldl (fun acc e => dictInsert e.1 e.2 acc) acc) : e ∈ acc ∨ e ∈ l := by
  induction l generalizing acc with
  | nil => exact .inl h
  | cons x xs ih =>
    rw [List.foldl_cons] at h
    rcases ih _ h with h | h
    · rcases mem_dictInsert _ _ _ _ h with h | h
      · right; rw [h]; exact List.mem_cons_self
      · exact .inl h
    · exact .inr (List.mem_cons_of_mem _ h)

/-- every item of the dict is one of the pairs it was built from -/
theorem mem_dictOfList_sub (l : List SrcEntry) (e : SrcEntry) (h : e ∈ dictOfList l) : e ∈ l := by
  rcases dictFold_sub l [] e h with h | h
  · cases h
  · exact h

theorem dictFold_keys (l acc : List SrcEntry) (hacc : (acc.map (·.1)).Nodup) :
    ((l.foldl (fun acc e => dictInsert e.1 e.2 acc) acc).map (·.1)).Nodup ∧
    ∀ k, k ∈ (l.foldl (fun acc e => dictInsert e.1 e.2 acc) acc).map (·.1) ↔ k ∈ acc.map (·.1) ∨ k ∈ l.map (·.1) := by
  induction l generalizing acc with
  | nil => simp [hacc]
  | cons x xs ih =>
    rw [List.foldl_cons]
    have hk := keys_dictInsert x.1 x.2 acc
    have hnd : ((dictInsert x.1 x.2 acc).map (·.1)).Nodup := by
      rw [hk]
      split
      · exact hacc
      · rename_i hx
        exact List.nodup_append.mpr ⟨hacc, by simp, by
          intro a ha b hb
          have : b = x.1 := by simpa using hb
          rw [this]; intro hab; rw [hab] at ha; exact hx ha⟩
    obtain ⟨h1, h2⟩ := ih _ hnd
    refine ⟨h1, ?_⟩
    intro k
    rw [h2 k, hk]
    split
    · rename_i hx
      simp only [List.map_cons, List.mem_cons]
      constructor
      · rintro (h | h)
        · exact .inl h
        · exact .inr (.inr h)
      · rintro (h | h | h)
        · exact .inl h
        · left; rw [h]; exact hx
        · exact .inr h
    · simp only [List.map_cons, List.mem_cons, List.mem_append, List.not_mem_nil, or_false]
      constructor
      · rintro ((h | h) | h)
        · exact .inl h
        · exact .inr (.inl h)
        · exact .inr (.inr h)
      · rintro (h | h | h)
        · exact .inl (.inl h)
        · exact .inl (.inr h)
        · exact .inr h

/-- a dict has every key once -/
theorem nodup_keys_dictOfList (l : List SrcEntry) : ((dictOfList l).map (·.1)).Nodup :=
  (dictFold_keys l [] (by simp)).1

/-- the keys of the dict are the keys of the pairs it was built from -/
theorem mem_keys_dictOfList (l : List SrcEntry) (k : List Str) : k ∈ (dictOfList l).map (·.1) ↔ k ∈ l.map (·.1) := by
  have := (dictFold_keys l [] (by simp)).2 k
  rw [List.map_nil] at this
  unfold dictOfList
  rw [this]; simp

/-- if every pair with key `k` carries the value `v` (and there is one), the dict maps `k` to `v` -/
theorem mem_dictOfList_of_functional (l : List SrcEntry) (k : List Str) (v : Str × Bool)
    (hk : k ∈ l.map (·.1)) (hv : ∀ e ∈ l, e.1 = k → e.2 = v) : (k, v) ∈ dictOfList l := by
  obtain ⟨e, he, hek⟩ := List.mem_map.mp ((mem_keys_dictOfList l k).mpr hk)
  have := hv e (mem_dictOfList_sub l e he) hek
  have he' : e = (k, v) := by rw [← hek, ← this]
  rw [← he']; exact he

theorem dictLookup_of_mem (l : List SrcEntry) (hnd : (l.map (·.1)).Nodup) (k : List Str) (v : Str × Bool) (h : (k, v) ∈ l) :
    dictLookup k l = some v := by
  induction l with
  | nil => cases h
  | cons x xs ih =>
    simp only [dictLookup]
    rw [List.map_cons, List.nodup_cons] at hnd
    rcases List.mem_cons.mp h with h | h
    · rw [← h]; simp
    · have hne : x.1 ≠ k := by
        intro hx
        exact hnd.1 (hx ▸ List.mem_map.mpr ⟨(k, v), h, rfl⟩)
      have : (x.1 == k) = false := by simpa using hne
      rw [this]
      exact ih hnd.2 h

theorem mem_of_dictLookup (l : List SrcEntry) (k : List Str) (v : Str × Bool) (h : dictLookup k l = some v) : (k, v) ∈ l := by
  induction l with
  | nil => cases h
  | cons x xs ih =>
    simp only [dictLookup] at h
    split at h
    · rename_i hx
      have hx : x.1 = k := by simpa using hx
      have : x.2 = v := by simpa using h
      rw [← hx, ← this]; exact List.mem_cons_self
    · exact List.mem_cons_of_mem _ (ih h)

-- ================================================================ the pairs met while iterating over all pages
theorem scaledSourcesList_eq (n : Nat) (dirs : List Str) (ds : List Dir) :
    scaledSourcesList n dirs ds = ds.map fun d => (d.title, d.name, scaledSources n (dirs ++ [d.name]) d) := by
  induction ds with
  | nil => simp [scaledSourcesList]
  | cons d ds ih => simp [scaledSourcesList, ih]

theorem unscaledSourcesList_eq (rn : List Str → Str) (dirs : List Str) (ds : List Dir) :
    unscaledSourcesList rn dirs ds = ds.map fun d => (d.title, d.name, unscaledSources rn (dirs ++ [d.name]) false d) := by
  induction ds with
  | nil => simp [unscaledSourcesList]
  | cons d ds ih => simp [unscaledSourcesList, ih]

theorem mem_scaledSources_here (n : Nat) (dirs : List Str) (d : Dir) (e : SrcEntry) :
    e ∈ scaledSources n dirs d ↔
      (∃ s ∈ d.subdirs, e ∈ scaledSources n (dirs ++ [s.name]) s) ∨ (∃ r ∈ d.recipes, recipeSource n dirs r = some e) := by
  cases d with
  | mk name readme recipes subdirs =>
    simp only [scaledSources, Dir.subdirs, Dir.recipes, List.mem_append, List.mem_flatMap, List.mem_filterMap,
      mem_insertionSort, scaledSourcesList_eq, List.mem_map]
    constructor
    · rintro (⟨t, ⟨s, hs, rfl⟩, he⟩ | h)
      · exact .inl ⟨s, hs, he⟩
      · exact .inr h
    · rintro (⟨s, hs, he⟩ | h)
      · exact .inl ⟨_, ⟨s, hs, rfl⟩, he⟩
      · exact .inr h

theorem mem_unscaledSources_here (rn : List Str → Str) (dirs : List Str) (isRoot : Bool) (d : Dir) (e : SrcEntry) :
    e ∈ unscaledSources rn dirs isRoot d ↔
      (isRoot = false ∧ d.readmeTitle.isSome = true ∧ e = (dirs ++ [rn dirs], (catPath none dirs, true))) ∨
      e = (dirs, (catPath none dirs, true)) ∨
      (∃ s ∈ d.subdirs, e ∈ unscaledSources rn (dirs ++ [s.name]) false s) := by
  cases d with
  | mk name readme recipes subdirs =>
    simp only [unscaledSources, Dir.subdirs, Dir.readmeTitle, List.mem_append, List.mem_cons, List.mem_flatMap,
      mem_insertionSort, unscaledSourcesList_eq, List.mem_map]
    constructor
    · rintro (h | h | ⟨t, ⟨s, hs, rfl⟩, he⟩)
      · left
        split at h
        · rename_i hc
          simp only [Bool.and_eq_true, Bool.not_eq_true'] at hc
          exact ⟨hc.1, hc.2, by simpa using h⟩
        · cases h
      · exact .inr (.inl h)
      · exact .inr (.inr ⟨s, hs, he⟩)
    · rintro (⟨h1, h2, h3⟩ | h | ⟨s, hs, he⟩)
      · left; simp [h1, h2, h3]
      · exact .inr (.inl h)
      · exact .inr (.inr ⟨_, ⟨s, hs, rfl⟩, he⟩)

/-- the pairs of one `serves<n>` hierarchy: one for every recipe file below the directory whose page at count `n` is
    the definitive one -/
theorem mem_scaledSources (n : Nat) (e : SrcEntry) : ∀ (d : Dir) (dirs : List Str),
    e ∈ scaledSources n dirs d ↔ ∃ rel d' r, SubDir d rel d' ∧ r ∈ d'.recipes ∧ recipeSource n (dirs ++ rel) r = some e := by
  intro d
  induction d using Dir.ind with
  | h name rd recs subs ih =>
    intro dirs
    rw [mem_scaledSources_here]
    constructor
    · rintro (⟨s, hs, he⟩ | ⟨r, hr, he⟩)
      · obtain ⟨rel, d', r, hsub, hr, he⟩ := (ih s hs _).mp he
        exact ⟨s.name :: rel, d', r, SubDir.sub hs hsub, hr, by simpa using he⟩
      · exact ⟨[], _, r, SubDir.here _, hr, by simpa using he⟩
    · rintro ⟨rel, d', r, hsub, hr, he⟩
      cases hsub with
      | here => exact .inr ⟨r, hr, by simpa using he⟩
      | sub hs hsub => exact .inl ⟨_, hs, (ih _ hs _).mpr ⟨_, d', r, hsub, hr, by simpa using he⟩⟩

/-- the pairs of the `categories` hierarchy: every directory below (and including) the start, and the readme of every
    such directory except a root's -/
theorem mem_unscaledSources (rn : List Str → Str) (e : SrcEntry) : ∀ (d : Dir) (dirs : List Str) (isRoot : Bool),
    e ∈ unscaledSources rn dirs isRoot d ↔ ∃ rel d', SubDir d rel d' ∧
      (e = (dirs ++ rel, (catPath none (dirs ++ rel), true)) ∨
       ((isRoot = false ∨ rel ≠ []) ∧ d'.readmeTitle.isSome = true ∧
          e = (dirs ++ rel ++ [rn (dirs ++ rel)], (catPath none (dirs ++ rel), true)))) := by
  intro d
  induction d using Dir.ind with
  | h name rd recs subs ih =>
    intro dirs isRoot
    rw [mem_unscaledSources_here]
    constructor
    · rintro (⟨h1, h2, h3⟩ | h | ⟨s, hs, he⟩)
      · exact ⟨[], _, SubDir.here _, .inr ⟨.inl h1, h2, by simpa using h3⟩⟩
      · exact ⟨[], _, SubDir.here _, .inl (by simpa using h)⟩
      · obtain ⟨rel, d', hsub, hcase⟩ := (ih s hs _ _).mp he
        refine ⟨s.name :: rel, d', SubDir.sub hs hsub, ?_⟩
        rcases hcase with h | ⟨_, h2, h3⟩
        · exact .inl (by simpa using h)
        · exact .inr ⟨.inr (by simp), h2, by simpa using h3⟩
    · rintro ⟨rel, d', hsub, hcase⟩
      cases hsub with
      | here =>
        rcases hcase with h | ⟨h1, h2, h3⟩
        · exact .inr (.inl (by simpa using h))
        · rcases h1 with h1 | h1
          · exact .inl ⟨h1, h2, by simpa using h3⟩
          · exact absurd rfl h1
      | sub hs hsub =>
        refine .inr (.inr ⟨_, hs, (ih _ hs _ _).mpr ⟨_, d', hsub, ?_⟩⟩)
        rcases hcase with h | ⟨_, h2, h3⟩
        · exact .inl (by simpa using h)
        · exact .inr ⟨.inl rfl, h2, by simpa using h3⟩

-- ================================================================ what `resolve_local_links` writes for an entry
/-- the website path `resolve_local_links` aims at, for a link in the page `frm` to a source whose table entry is
    `(w, sc)`: `w` with its first segment replaced by the first segment of `frm` if `frm` lies below `/serves…`, the
    target is scalable and `w` is not directly in the site root (the home page); `w` itself otherwise -/
def authoredTarget (frm w : Str) (sc : Bool) : Str :=
  if rewriteDecision.isPrefixOfList "/serves".toList frm && sc && (w.filter (· == '/')).length > 1 then
    joinSlash ((splitSlash frm).take 2 ++ (splitSlash w).drop 2)
  else w

/-- a local link (no scheme, no network location, non-empty path) whose resolved file is a key of the table becomes
    the relative link from the referring page to `authoredTarget` -/
theorem rewrite_page (path : Str) (hpath : path ≠ []) (canon rootParts : List Str) (isFile : Bool) (w : Str) (sc : Bool)
    (frm assets : Str) :
    rewriteDecision [] [] path canon rootParts isFile (some (w, sc)) frm assets = .page (hrefRelative frm (authoredTarget frm w sc)) := by
  have : path.isEmpty = false := by cases path with
    | nil => exact absurd rfl hpath
    | cons c cs => rfl
  simp [rewriteDecision, authoredTarget, this]

theorem isPrefixOfList_append (a b : Str) : rewriteDecision.isPrefixOfList a (a ++ b) = true := by
  induction a with
  | nil => simp [rewriteDecision.isPrefixOfList]
  | cons c cs ih => simp [rewriteDecision.isPrefixOfList, ih]

theorem joinSlash_cons_prefix (x : Str) (A : List Str) : ∃ t, joinSlash (x :: A) = x ++ t := by
  cases A with
  | nil => exact ⟨[], by rw [joinSlash_singleton, List.append_nil]⟩
  | cons b t => exact ⟨_, joinSlash_cons_cons x b t⟩

/-- a path below `/serves<n>` starts with `/serves` … -/
theorem serves_prefix (n : Nat) (A : List Str) :
    rewriteDecision.isPrefixOfList "/serves".toList ('/' :: joinSlash (scaleRoot (some n) :: A)) = true := by
  obtain ⟨t, ht⟩ := joinSlash_cons_prefix (scaleRoot (some n)) A
  have : '/' :: joinSlash (scaleRoot (some n) :: A) = "/serves".toList ++ (natDigits n ++ t) := by
    rw [ht]
    show '/' :: (("serves".toList ++ natDigits n) ++ t) = _
    rw [List.append_assoc]; rfl
  rw [this]
  exact isPrefixOfList_append _ _

/-- … a path below `/categories` does not … -/
theorem categories_no_prefix (A : List Str) :
    rewriteDecision.isPrefixOfList "/serves".toList ('/' :: joinSlash (scaleRoot none :: A)) = false := by
  obtain ⟨t, ht⟩ := joinSlash_cons_prefix (scaleRoot none) A
  rw [ht]
  show rewriteDecision.isPrefixOfList ['/', 's', 'e', 'r', 'v', 'e', 's'] ('/' :: 'c' :: ("ategories".toList ++ t)) = false
  simp [rewriteDecision.isPrefixOfList]

/-- … and neither does the home page -/
theorem home_no_prefix : rewriteDecision.isPrefixOfList "/serves".toList "/index.html".toList = false := by decide

theorem slash_count (w : Str) : (w.filter (· == '/')).length = slashes w := by
  unfold slashes
  rw [List.count_eq_length_filter]

/-- replacing the first segment: `"/".join(from.split("/")[:2] + to.split("/")[2:])` -/
theorem swap_root (x y : Str) (A B : List Str) (hx : '/' ∉ x) (hy : '/' ∉ y) (hA : ∀ a ∈ A, '/' ∉ a) (hB : ∀ b ∈ B, '/' ∉ b) :
    joinSlash ((splitSlash ('/' :: joinSlash (x :: A))).take 2 ++ (splitSlash ('/' :: joinSlash (y :: B))).drop 2)
      = '/' :: joinSlash (x :: B) := by
  rw [splitSlash_abs (x :: A) (by simp) (by
        intro s hs
        rcases List.mem_cons.mp hs with rfl | hs
        · exact hx
        · exact hA s hs),
      splitSlash_abs (y :: B) (by simp) (by
        intro s hs
        rcases List.mem_cons.mp hs with rfl | hs
        · exact hy
        · exact hB s hs)]
  show joinSlash ([] :: x :: B) = _
  rw [joinSlash_cons_of_ne_nil _ _ (by simp)]
  rfl

/-- the target computed for a referring page outside the `serves<n>` hierarchies is the entry's own path -/
theorem authoredTarget_home (w : Str) (sc : Bool) : authoredTarget "/index.html".toList w sc = w := by
  unfold authoredTarget
  rw [home_no_prefix]; rfl

theorem authoredTarget_categories (A : List Str) (w : Str) (sc : Bool) :
    authoredTarget ('/' :: joinSlash (scaleRoot none :: A)) w sc = w := by
  unfold authoredTarget
  rw [categories_no_prefix]; rfl

theorem authoredTarget_unscalable (frm w : Str) : authoredTarget frm w false = w := by
  unfold authoredTarget
  simp

/-- a link to the home page stays a link to the home page (one `/` only), also from below `/serves<n>/` -/
theorem authoredTarget_to_home (frm : Str) (sc : Bool) : authoredTarget frm "/index.html".toList sc = "/index.html".toList := by
  unfold authoredTarget
  have : (("/index.html".toList).filter (· == '/')).length = 1 := by decide
  rw [this]
  simp

/-- from below `/serves<n>/`, a scalable target below any scale root is replaced by its counterpart below `/serves<n>/` -/
theorem authoredTarget_serves (n : Nat) (sv : Option Nat) (A B : List Str) (hA : ∀ a ∈ A, '/' ∉ a) (hB : ∀ b ∈ B, '/' ∉ b)
    (hBne : B ≠ []) :
    authoredTarget ('/' :: joinSlash (scaleRoot (some n) :: A)) ('/' :: joinSlash (scaleRoot sv :: B)) true
      = '/' :: joinSlash (scaleRoot (some n) :: B) := by
  unfold authoredTarget
  have hsl : ∀ s ∈ scaleRoot sv :: B, '/' ∉ s := by
    intro s hs
    rcases List.mem_cons.mp hs with rfl | hs
    · exact (scaleRoot_ok sv).2.2.2
    · exact hB s hs
  have hcount : (('/' :: joinSlash (scaleRoot sv :: B)).filter (· == '/')).length > 1 := by
    rw [slash_count, slashes_abs _ (by simp) hsl]
    have : B.length ≠ 0 := by simpa using hBne
    simp only [List.length_cons]; omega
  rw [serves_prefix, swap_root _ _ A B (scaleRoot_ok (some n)).2.2.2 (scaleRoot_ok sv).2.2.2 hA hB]
  rw [if_pos]
  simp only [Bool.and_self, Bool.true_and, decide_eq_true_eq]
  exact hcount

-- ================================================================ scale roots
theorem append_slash_inj : ∀ (a b r t : Str), '/' ∉ a → '/' ∉ b → a ++ '/' :: r = b ++ '/' :: t → a = b := by
  intro a
  induction a with
  | nil =>
    intro b r t _ hb h
    cases b with
    | nil => rfl
    | cons y b =>
      have := (List.cons.inj h).1
      exact absurd (this ▸ List.mem_cons_self) hb
  | cons x a ih =>
    intro b r t ha hb h
    cases b with
    | nil =>
      have := (List.cons.inj h).1
      exact absurd (this ▸ List.mem_cons_self) ha
    | cons y b =>
      obtain ⟨h1, h2⟩ := List.cons.inj h
      rw [h1, ih b r t (fun hm => ha (List.mem_cons_of_mem _ hm)) (fun hm => hb (List.mem_cons_of_mem _ hm)) h2]

theorem scaleRoot_inj (sv sv' : Option Nat) (h : scaleRoot sv = scaleRoot sv') : sv = sv' := by
  cases sv with
  | none =>
    cases sv' with
    | none => rfl
    | some m =>
      have : "categories".toList = 's' :: ("erves".toList ++ natDigits m) := h
      exact absurd (List.cons.inj this).1 (by decide)
  | some n =>
    cases sv' with
    | none =>
      have : 's' :: ("erves".toList ++ natDigits n) = "categories".toList := h
      exact absurd (List.cons.inj this).1 (by decide)
    | some m =>
      have : "serves".toList ++ natDigits n = "serves".toList ++ natDigits m := h
      have := List.append_cancel_left this
      have hnm : n = m := by rw [← digitsVal_natDigits n, ← digitsVal_natDigits m, this]
      rw [hnm]


end RG
