import RecipeGrid.Lemmas.MdLines
/-! Lemmas about the block scanner model (`Model/MdBlocks.lean`): marko's lines, the line tagger, `assemble`,
    and the relation between the lines of a block's captured text and the lines of the document. -/
namespace RG

/-! ## `crToLf` -/

theorem crToLf_append (a b : Str) : crToLf (a ++ b) = crToLf a ++ crToLf b := by simp [crToLf]
theorem crToLf_drop (p : Nat) (a : Str) : crToLf (a.drop p) = (crToLf a).drop p := by simp [crToLf]
theorem crToLf_length (a : Str) : (crToLf a).length = a.length := by simp [crToLf]
theorem crToLf_nl : crToLf ['\n'] = ['\n'] := by decide
theorem crToLf_replicate_space (p : Nat) : crToLf (List.replicate p ' ') = List.replicate p ' ' := by
  simp [crToLf]
theorem crToLf_replicate_nl (p : Nat) : crToLf (List.replicate p '\n') = List.replicate p '\n' := by
  simp [crToLf]
theorem not_cr_mem_crToLf (a : Str) : '\r' ∉ crToLf a := by
  simp only [crToLf, List.mem_map, not_exists, not_and]
  intro c _
  split <;> simp_all
theorem crToLf_eq_nil (a : Str) : crToLf a = [] ↔ a = [] := by simp [crToLf]
theorem crToLf_of_no_break (a : Str) (h : ∀ c ∈ a, isLineBreak c = false) : crToLf a = a := by
  induction a with
  | nil => rfl
  | cons c a ih =>
    have hc : c ≠ '\r' := by
      intro e; have := h c (by simp); rw [e, isLineBreak_cr] at this; cases this
    simp only [crToLf, List.map_cons, hc, if_false]
    simp only [crToLf] at ih
    rw [ih (fun c' hc' => h c' (List.mem_cons_of_mem _ hc'))]

/-! ## line numbers: `offsetToLineCol` at the start of a line -/

theorem offsetToLineColAux_skip (A : List Str) (l : Str) (ls : List Str) (r n last : Nat) :
    offsetToLineColAux (A ++ l :: ls) (A.flatten.length + r) n last =
      offsetToLineColAux (l :: ls) r (n + A.length) 0 := by
  induction A generalizing n last with
  | nil => simp [offsetToLineColAux]
  | cons a A ih =>
    rw [List.cons_append, List.flatten_cons, List.length_append, offsetToLineColAux]
    rw [if_neg (by omega), show a.length + A.flatten.length + r - a.length = A.flatten.length + r by omega, ih]
    rw [List.length_cons, show n + 1 + A.length = n + (A.length + 1) by omega]

/-- in a text `P ++ Q` whose lines are those of `P` followed by those of `Q`, the offset `|P|` is on line `#P + 1` -/
theorem offsetToLineCol_line_start (P Q : Str) (hr : '\r' ∉ P ++ Q)
    (hk : klines (P ++ Q) = klines P ++ klines Q) (hQ : Q ≠ []) :
    (offsetToLineCol (P ++ Q) P.length).1 = (klines P).length + 1 := by
  have hne : P ++ Q ≠ [] := by simp [hQ]
  rw [offsetToLineCol_of_ne_nil _ _ hne, splitLinesKeep_eq_klines _ hr, hk]
  have hq : klines Q ≠ [] := by rwa [Ne, klines_eq_nil]
  cases hkq : klines Q with
  | nil => contradiction
  | cons l ls =>
    have hl : l ≠ [] := klines_ne_nil_mem Q l (by rw [hkq]; simp)
    have := offsetToLineColAux_skip (klines P) l ls 0 0 0
    rw [klines_flatten] at this
    rw [Nat.add_zero] at this
    rw [this]
    simp only [offsetToLineColAux]
    rw [if_pos (by cases l with
      | nil => contradiction
      | cons => simp)]
    simp

/-! ## marko's lines -/

def NlEnded (l : Str) : Prop := ∃ b, l = b ++ ['\n']

/-- a piece of the buffer as `next_line` returns it: not empty, a newline only at the very end -/
def MdLine (l : Str) : Prop := l ≠ [] ∧ ∀ a b, l = a ++ '\n' :: b → b = []

/-- every line but the last ends with a newline -/
def LinesOk : List Str → Prop
  | [] => True
  | l :: ls => MdLine l ∧ (ls ≠ [] → NlEnded l) ∧ LinesOk ls

theorem mdLines_flatten (s : Str) : (mdLines s).flatten = s := by
  induction s with
  | nil => rfl
  | cons c rest ih =>
    simp only [mdLines]
    split
    · rename_i h; subst h; simp [ih]
    · generalize mdLines rest = ms at ih
      cases ms with
      | nil => simp at ih ⊢; exact ih
      | cons l ls => simp at ih ⊢; exact ih

theorem mdLines_ok (s : Str) : LinesOk (mdLines s) := by
  induction s with
  | nil => trivial
  | cons c rest ih =>
    simp only [mdLines]
    split
    · refine ⟨⟨by simp, ?_⟩, fun _ => ⟨[], rfl⟩, ih⟩
      intro a b h
      cases a with
      | nil => simp at h; exact h
      | cons x a => simp at h
    · rename_i hc
      generalize mdLines rest = ms at ih
      cases ms with
      | nil =>
        refine ⟨⟨by simp, ?_⟩, fun h => absurd rfl h, trivial⟩
        intro a b h
        cases a with
        | nil => simp at h; exact absurd h.1 hc
        | cons x a => simp at h
      | cons l ls =>
        obtain ⟨⟨hl, hl'⟩, hnl, hok⟩ := ih
        refine ⟨⟨by simp, ?_⟩, ?_, hok⟩
        · intro a b h
          cases a with
          | nil => simp at h; exact absurd h.1 hc
          | cons x a =>
            simp only [List.cons_append, List.cons.injEq] at h
            exact hl' a b h.2
        · intro h
          obtain ⟨b, hb⟩ := hnl h
          exact ⟨c :: b, by rw [hb]; rfl⟩

theorem LinesOk.append_right {a b : List Str} (h : LinesOk (a ++ b)) : LinesOk b := by
  induction a with
  | nil => exact h
  | cons x a ih => exact ih h.2.2

theorem LinesOk.nlEnded_left {a b : List Str} (h : LinesOk (a ++ b)) (hb : b ≠ []) : ∀ l ∈ a, NlEnded l := by
  induction a with
  | nil => simp
  | cons x a ih =>
    intro l hl
    rcases List.mem_cons.1 hl with rfl | hl
    · exact h.2.1 (by simp [hb])
    · exact ih h.2.2 l hl

theorem LinesOk.mdLine {ls : List Str} (h : LinesOk ls) : ∀ l ∈ ls, MdLine l := by
  induction ls with
  | nil => simp
  | cons x a ih =>
    intro l hl
    rcases List.mem_cons.1 hl with rfl | hl
    · exact h.1
    · exact ih h.2.2 l hl

theorem LinesOk.append_left {a b : List Str} (h : LinesOk (a ++ b)) : LinesOk a := by
  induction a with
  | nil => trivial
  | cons x a ih =>
    refine ⟨h.1, ?_, ih h.2.2⟩
    intro ha
    exact h.2.1 (by simp [ha])

theorem tagLines_text (st : ScanSt) (ls : List Str) : (tagLines st ls).map (·.text) = ls := by
  induction ls generalizing st with
  | nil => rfl
  | cons l ls ih => simp [tagLines, ih]

theorem tagDoc_text (doc : Str) : (tagDoc doc).map (·.text) = mdLines (normaliseCrLf doc) := tagLines_text _ _

theorem tagDoc_flatten (doc : Str) : ((tagDoc doc).map (·.text)).flatten = normaliseCrLf doc := by
  rw [tagDoc_text, mdLines_flatten]

/-! ## what the tags guarantee -/

def TagSound (t : TLine) : Prop :=
  match t.tag with
  | .codeStart => 4 ≤ leadSpaces t.text ∧ isBlankLine t.text = false
  | .codeCont => 4 ≤ leadSpaces t.text
  | .fenceOpen f => fenceOpen? t.text = some f
  | _ => True

theorem stepOutside_sound (p : Bool) (l : Str) : TagSound ⟨(stepOutside p l).1, l⟩ := by
  unfold stepOutside
  split
  · trivial
  · rename_i hb
    split
    · rename_i h
      split
      · trivial
      · exact ⟨h, by simpa using hb⟩
    · split
      · rename_i f hf; exact hf
      · split <;> trivial

theorem step_sound (st : ScanSt) (l : Str) : TagSound ⟨(step st l).1, l⟩ := by
  cases st with
  | top => exact stepOutside_sound _ _
  | para => exact stepOutside_sound _ _
  | fence f =>
    simp only [step]
    split <;> trivial
  | code =>
    simp only [step]
    split
    · trivial
    · split
      · rename_i h; exact h
      · exact stepOutside_sound _ _

theorem tagLines_sound (st : ScanSt) (ls : List Str) : ∀ t ∈ tagLines st ls, TagSound t := by
  induction ls generalizing st with
  | nil => simp [tagLines]
  | cons l ls ih =>
    intro t ht
    simp only [tagLines, List.mem_cons] at ht
    rcases ht with rfl | ht
    · exact step_sound st l
    · exact ih _ t ht

theorem fenceOpen?_indent_le (l : Str) (f : FenceInfo) (h : fenceOpen? l = some f) : f.indent ≤ 3 := by
  unfold fenceOpen? at h
  simp only at h
  split at h
  · cases h
  · rename_i hk
    split at h
    · cases h
    · split at h
      · split at h
        · cases h
        · split at h
          · cases h
          · cases h; simp at hk ⊢; omega
      · cases h

/-! ## `assemble` -/

def lenSum (ts : List TLine) : Nat := (ts.map (·.text.length)).sum
def lineSum (ts : List TLine) : Nat := (ts.map (fun t => pyLineCount t.text)).sum

theorem lenSum_eq (ts : List TLine) : lenSum ts = ((ts.map (·.text)).flatten).length := by
  induction ts with
  | nil => rfl
  | cons t ts ih => simp [lenSum] at ih ⊢; omega

theorem mem_assemble {b : MdBlock} {pos line : Nat} {ts : List TLine} (h : b ∈ assemble pos line ts) :
    ∃ pre t rest, ts = pre ++ t :: rest ∧
      ((∃ f, t.tag = .fenceOpen f ∧
          b = ⟨.fenced f.lang, pos + lenSum pre, fencedSource f.indent (rest.takeWhile (·.tag.isFenceBody)),
                line + lineSum pre + pyLineCount t.text⟩) ∨
       (t.tag = .codeStart ∧
          b = ⟨.indented, pos + lenSum pre, codeSource (t :: rest.takeWhile (·.tag.isCodeMore)), line + lineSum pre⟩)) := by
  induction ts generalizing pos line with
  | nil => simp [assemble] at h
  | cons t rest ih =>
    simp only [assemble, List.mem_append] at h
    rcases h with h | h
    · refine ⟨[], t, rest, rfl, ?_⟩
      split at h
      · rename_i f hf
        simp only [List.mem_singleton] at h
        exact Or.inl ⟨f, hf, by simp [h, lenSum, lineSum]⟩
      · rename_i hc
        simp only [List.mem_singleton] at h
        exact Or.inr ⟨hc, by simp [h, lenSum, lineSum]⟩
      · simp at h
    · obtain ⟨pre, t', rest', hts, hb⟩ := ih h
      refine ⟨t :: pre, t', rest', by rw [hts]; rfl, ?_⟩
      rcases hb with ⟨f, hf, hb⟩ | ⟨hc, hb⟩
      · exact Or.inl ⟨f, hf, by rw [hb]; simp [lenSum, lineSum]; omega⟩
      · exact Or.inr ⟨hc, by rw [hb]; simp [lenSum, lineSum]; omega⟩

end RG
