import RecipeGrid.Lemmas.ReTermSlice
/-! The fuel of the greedy loop is not part of the semantics: for a body that cannot match the empty string (the only
    bodies the translator lets through, `Rx.wellFormed`) every iteration consumes a character, so the number of characters
    left is enough and any larger fuel gives the same answers. -/
namespace RG
namespace Rx

variable {α : Type}

theorem lt_size_of_getElem? {t : Array Char} {i : Nat} {c : Char} (h : t[i]? = some c) : i < t.size := by
  rcases Nat.lt_or_ge i t.size with h' | h'
  · exact h'
  · simp [Array.getElem?_eq_none h'] at h

theorem step_congr_le {t : Array Char} {p : Char → Bool} {i : Nat} {k k' : K α}
    (h : i + 1 ≤ t.size → k (i + 1) = k' (i + 1)) : step t p i k = step t p i k' := by
  simp only [step]
  cases hc : t[i]? with
  | none => rfl
  | some c => cases hp : p c <;> simp [hp, h (lt_size_of_getElem? hc)]

theorem starK_congr_ge {size : Nat} {ma : Nat → K α → Option α}
    (h : ∀ i k k', i ≤ size → (∀ j, i ≤ j → j ≤ size → k j = k' j) → ma i k = ma i k') :
    ∀ fuel i (k k' : K α), i ≤ size → (∀ j, i ≤ j → j ≤ size → k j = k' j) → starK ma fuel i k = starK ma fuel i k'
  | 0, i, k, k', hi, hk => hk i (Nat.le_refl _) hi
  | fuel + 1, i, k, k', hi, hk => by
    rw [starK, starK, hk i (Nat.le_refl _) hi,
      h i _ (fun j => starK ma fuel j k') hi fun j h1 h2 => starK_congr_ge h fuel j k k' h2 fun j' h3 h4 => hk j' (by omega) h4]

/-- the engine asks its continuation only about positions from the current one on (and within the text) -/
theorem run_congr_ge (t : Array Char) (base : Nat) : ∀ (r : Rx) (i : Nat) (k k' : K α), i ≤ t.size →
    (∀ j, i ≤ j → j ≤ t.size → k j = k' j) → run t base r i k = run t base r i k'
  | eps, i, k, k', hi, h => by simp only [run]; exact h i (Nat.le_refl _) hi
  | chr c, i, k, k', _, h => by simp only [run]; exact step_congr_le fun hle => h _ (by omega) hle
  | ichr c, i, k, k', _, h => by simp only [run]; exact step_congr_le fun hle => h _ (by omega) hle
  | any, i, k, k', _, h => by simp only [run]; exact step_congr_le fun hle => h _ (by omega) hle
  | cls neg items, i, k, k', _, h => by simp only [run]; exact step_congr_le fun hle => h _ (by omega) hle
  | seq x y, i, k, k', hi, h => by
    simp only [run]
    exact run_congr_ge t base x i _ _ hi fun j h1 h2 => run_congr_ge t base y j k k' h2 fun j' h3 h4 => h j' (by omega) h4
  | alt x y, i, k, k', hi, h => by
    simp only [run]
    rw [run_congr_ge t base x i k k' hi h, run_congr_ge t base y i k k' hi h]
  | star x, i, k, k', hi, h => by
    simp only [run]
    exact starK_congr_ge (fun i k k' hi h => run_congr_ge t base x i k k' hi h) _ i k k' hi h
  | plus x, i, k, k', hi, h => by
    simp only [run]
    exact run_congr_ge t base x i _ _ hi fun j h1 h2 =>
      starK_congr_ge (fun i k k' hi h => run_congr_ge t base x i k k' hi h) _ j k k' h2 fun j' h3 h4 => h j' (by omega) h4
  | opt x, i, k, k', hi, h => by
    simp only [run]
    rw [run_congr_ge t base x i k k' hi h, h i (Nat.le_refl _) hi]
  | grp _ x, i, k, k', hi, h => by simp only [run]; exact run_congr_ge t base x i k k' hi h
  | bound, i, k, k', hi, h => by simp only [run]; rw [h i (Nat.le_refl _) hi]

/-- an expression that cannot match the empty string asks its continuation only about LATER positions -/
theorem run_congr_gt (t : Array Char) (base : Nat) : ∀ (r : Rx), nullable r = false → ∀ (i : Nat) (k k' : K α), i ≤ t.size →
    (∀ j, i < j → j ≤ t.size → k j = k' j) → run t base r i k = run t base r i k'
  | eps, hn, _, _, _, _, _ => by simp [nullable] at hn
  | chr c, _, i, k, k', _, h => by simp only [run]; exact step_congr_le fun hle => h _ (by omega) hle
  | ichr c, _, i, k, k', _, h => by simp only [run]; exact step_congr_le fun hle => h _ (by omega) hle
  | any, _, i, k, k', _, h => by simp only [run]; exact step_congr_le fun hle => h _ (by omega) hle
  | cls neg items, _, i, k, k', _, h => by simp only [run]; exact step_congr_le fun hle => h _ (by omega) hle
  | seq x y, hn, i, k, k', hi, h => by
    simp only [run]
    cases hx : nullable x with
    | false =>
      exact run_congr_gt t base x hx i _ _ hi fun j h1 h2 =>
        run_congr_ge t base y j k k' h2 fun j' h3 h4 => h j' (by omega) h4
    | true =>
      have hy : nullable y = false := by simpa [nullable, hx] using hn
      exact run_congr_ge t base x i _ _ hi fun j h1 h2 =>
        run_congr_gt t base y hy j k k' h2 fun j' h3 h4 => h j' (by omega) h4
  | alt x y, hn, i, k, k', hi, h => by
    simp only [nullable, Bool.or_eq_false_iff] at hn
    simp only [run]
    rw [run_congr_gt t base x hn.1 i k k' hi h, run_congr_gt t base y hn.2 i k k' hi h]
  | star x, hn, _, _, _, _, _ => by simp [nullable] at hn
  | plus x, hn, i, k, k', hi, h => by
    simp only [nullable] at hn
    simp only [run]
    exact run_congr_gt t base x hn i _ _ hi fun j h1 h2 =>
      starK_congr_ge (fun i k k' hi h => run_congr_ge t base x i k k' hi h) _ j k k' h2 fun j' h3 h4 => h j' (by omega) h4
  | opt x, hn, _, _, _, _, _ => by simp [nullable] at hn
  | grp _ x, hn, i, k, k', hi, h => by
    simp only [nullable] at hn
    simp only [run]; exact run_congr_gt t base x hn i k k' hi h
  | bound, hn, _, _, _, _, _ => by simp [nullable] at hn

/-- at the end of the text an expression that cannot match the empty string fails -/
theorem run_none_at_end (t : Array Char) (base : Nat) (r : Rx) (hn : nullable r = false) (i : Nat) (k : K α)
    (hi : i = t.size) : run t base r i k = none := by
  rw [run_congr_gt t base r hn i k (fun _ => none) (by omega) (fun j h1 h2 => by omega)]
  cases h : run t base r i (fun _ => none) with
  | none => rfl
  | some a =>
    obtain ⟨j, _, _, h3⟩ := run_answer t base r i _ a (by omega) h
    cases h3

/-- one more unit of fuel changes nothing once the fuel covers the characters left -/
theorem starK_fuel_succ (t : Array Char) (base : Nat) (x : Rx) (hn : nullable x = false) (k : K α) : ∀ fuel i, i ≤ t.size →
    t.size - i ≤ fuel → starK (run t base x) (fuel + 1) i k = starK (run t base x) fuel i k
  | 0, i, hi, hf => by
    show (match run t base x i (fun j => starK (run t base x) 0 j k) with
      | some a => some a
      | none => k i) = k i
    rw [run_none_at_end t base x hn i _ (by omega)]
  | fuel + 1, i, hi, hf => by
    show (match run t base x i (fun j => starK (run t base x) (fuel + 1) j k) with
      | some a => some a
      | none => k i) = (match run t base x i (fun j => starK (run t base x) fuel j k) with
      | some a => some a
      | none => k i)
    rw [run_congr_gt t base x hn i _ (fun j => starK (run t base x) fuel j k) hi fun j h1 h2 =>
      starK_fuel_succ t base x hn k fuel j h2 (by omega)]

/-- **the fuel of `*` is not part of the semantics**: any fuel from the number of characters left on gives the same answer -/
theorem star_fuel_irrelevant (t : Array Char) (base : Nat) (x : Rx) (hn : nullable x = false) (k : K α) (i : Nat) (hi : i ≤ t.size) :
    ∀ extra, starK (run t base x) (t.size - i + extra) i k = run t base (star x) i k
  | 0 => by rw [run]; rfl
  | extra + 1 => by
    rw [show t.size - i + (extra + 1) = (t.size - i + extra) + 1 by omega,
      starK_fuel_succ t base x hn k _ i hi (by omega)]
    exact star_fuel_irrelevant t base x hn k i hi extra

end Rx
end RG
