import RecipeGrid.Lemmas.Html
/-! String-level helper lemmas about `Model/Html.lean` used by `Props/C10b.lean` and `Props/C04b.lean`:
    the shape of a tag written by `tagBody`, where newlines can occur, the shape of number text. -/
namespace RG

/-! ## list helpers -/

theorem sp_intercalate_eq_flatMap (xs : List Str) (h : xs ≠ []) :
    ' ' :: (S " ").intercalate xs = xs.flatMap (fun x => ' ' :: x) := by
  induction xs with
  | nil => exact absurd rfl h
  | cons a t ih =>
    cases t with
    | nil => simp
    | cons b t =>
      have := ih (by simp)
      rw [List.intercalate_cons_cons, List.flatMap_cons, ← this]
      simp [S]

theorem rstripStr_append_singleton (s : Str) (c : Char) (h : isStripSpace c = false) :
    rstripStr (s ++ [c]) = s ++ [c] := by
  simp [rstripStr, h]

theorem rstripStr_sp : rstripStr [' '] = [] := by decide

/-! ## the text of a tag -/

/-- the attributes as written: each preceded by one space -/
def attrsText (attrs : List (String × Str)) : Str := attrs.flatMap fun (n, v) => ' ' :: S n ++ '=' :: quoteattr v
def openTag (tag : String) (attrs : List (String × Str)) : Str := '<' :: S tag ++ attrsText attrs ++ ['>']
def closeTag (tag : String) : Str := '<' :: '/' :: S tag ++ ['>']

theorem quoteattr_ends (v : Str) : ∃ b q, quoteattr v = b ++ [q] ∧ (q = '"' ∨ q = '\'') := by
  obtain ⟨q, body, hq, he, -⟩ := quoteattr_wf v
  exact ⟨q :: body, q, by simpa using he, hq⟩

theorem attrs_written (attrs : List (String × Str)) :
    rstripStr (' ' :: (S " ").intercalate (attrs.map fun (n, v) => S n ++ '=' :: quoteattr v)) = attrsText attrs := by
  by_cases h : attrs = []
  · subst h; exact rstripStr_sp
  · have hne : (attrs.map fun (n, v) => S n ++ '=' :: quoteattr v) ≠ [] := by simpa using h
    rw [sp_intercalate_eq_flatMap _ hne, List.flatMap_map]
    have e : (attrs.flatMap fun a => ' ' :: (S a.1 ++ '=' :: quoteattr a.2)) = attrsText attrs := rfl
    rw [e]
    -- the last attribute ends in a quote
    obtain ⟨init, last, rfl⟩ : ∃ init last, attrs = init ++ [last] :=
      ⟨attrs.dropLast, attrs.getLast h, (List.dropLast_concat_getLast h).symm⟩
    obtain ⟨b, q, hb, hq⟩ := quoteattr_ends last.2
    have : attrsText (init ++ [last]) = (attrsText init ++ ' ' :: S last.1 ++ '=' :: b) ++ [q] := by
      simp [attrsText, hb]
    rw [this]
    apply rstripStr_append_singleton
    rcases hq with rfl | rfl <;> decide

theorem tagBody_eq (tag : String) (attrs : List (String × Str)) (body : Str) (h : '\n' ∉ body) :
    tagBody tag attrs body = openTag tag attrs ++ body ++ closeTag tag := by
  have hc : body.contains '\n' = false := by simpa using h
  unfold tagBody
  dsimp only
  rw [attrs_written]
  simp [h, openTag, closeTag, S]

/-- the body of a multi-line tag as written -/
def reindent (body : Str) : Str := '\n' :: rstripStr (indent2 body) ++ ['\n']

theorem tagBody_eq_nl (tag : String) (attrs : List (String × Str)) (body : Str) (h : '\n' ∈ body) :
    tagBody tag attrs body = openTag tag attrs ++ reindent body ++ closeTag tag := by
  have hc : body.contains '\n' = true := by simpa using h
  unfold tagBody
  dsimp only
  rw [attrs_written]
  simp [h, openTag, closeTag, reindent, S]

/-! ## where newlines can be -/

theorem nl_not_mem_escapeChar (c : Char) (h : c ≠ '\n') : '\n' ∉ escapeChar c := by
  by_cases h1 : c = '&'; · subst h1; decide
  by_cases h2 : c = '<'; · subst h2; decide
  by_cases h3 : c = '>'; · subst h3; decide
  by_cases h4 : c = '"'; · subst h4; decide
  by_cases h5 : c = '\''; · subst h5; decide
  rw [escapeChar_other h1 h2 h3 h4 h5]
  simpa using Ne.symm h

theorem nl_not_mem_htmlEscape {s : Str} (h : '\n' ∉ s) : '\n' ∉ htmlEscape s := by
  intro hm
  obtain ⟨c, hc, hm⟩ := List.mem_flatMap.1 hm
  exact nl_not_mem_escapeChar c (fun e => h (e ▸ hc)) hm

theorem nl_not_mem_quoteattrChar (c : Char) : '\n' ∉ quoteattrChar c := by
  by_cases h1 : c = '&'; · subst h1; decide
  by_cases h2 : c = '>'; · subst h2; decide
  by_cases h3 : c = '<'; · subst h3; decide
  by_cases h4 : c = '\n'; · subst h4; decide
  by_cases h5 : c = '\r'; · subst h5; decide
  by_cases h6 : c = '\t'; · subst h6; decide
  rw [quoteattrChar_other h1 h2 h3 h4 h5 h6]
  simpa using Ne.symm h4

theorem not_mem_wrap {c q : Char} {X : Str} (hq : c ≠ q) (hX : c ∉ X) : c ∉ q :: X ++ [q] := by
  simp [hq, hX]

theorem nl_not_mem_quoteattr (v : Str) : '\n' ∉ quoteattr v := by
  have h0 : '\n' ∉ v.flatMap quoteattrChar := by
    intro hm
    obtain ⟨c, _, hm⟩ := List.mem_flatMap.1 hm
    exact nl_not_mem_quoteattrChar c hm
  have h1 : '\n' ∉ (v.flatMap quoteattrChar).flatMap (fun c => if c == '"' then S "&quot;" else [c]) := by
    intro hm
    obtain ⟨c, hc, hm⟩ := List.mem_flatMap.1 hm
    by_cases hq : c = '"'
    · subst hq; revert hm; decide
    · simp only [beq_iff_eq, hq, if_false, List.mem_singleton] at hm
      exact h0 (hm ▸ hc)
  unfold quoteattr
  simp only []
  split
  · split
    · exact not_mem_wrap (by decide) h1
    · exact not_mem_wrap (by decide) h0
  · exact not_mem_wrap (by decide) h0

/-- a tag or attribute name as the tokenizer reads it: ASCII letters, digits, '-'; not empty -/
def IsName (n : String) : Prop := n.toList ≠ [] ∧ ∀ c ∈ n.toList, (c.isAlphanum || c == '-') = true

instance (n : String) : Decidable (IsName n) := by unfold IsName; infer_instance

theorem IsName.nl {n : String} (h : IsName n) : '\n' ∉ S n := by
  intro hm; have := h.2 _ hm; revert this; decide

theorem nl_not_mem_attrsText (attrs : List (String × Str)) (h : ∀ a ∈ attrs, IsName a.1) :
    '\n' ∉ attrsText attrs := by
  intro hm
  obtain ⟨⟨n, v⟩, ha, hm⟩ := List.mem_flatMap.1 hm
  have h1 := (h _ ha).nl
  have h2 := nl_not_mem_quoteattr v
  simp [h1, h2] at hm

theorem nl_not_mem_tagBody (tag : String) (attrs : List (String × Str)) (body : Str) (ht : IsName tag)
    (ha : ∀ a ∈ attrs, IsName a.1) (h : '\n' ∉ body) : '\n' ∉ tagBody tag attrs body := by
  rw [tagBody_eq _ _ _ h]
  have h1 := ht.nl
  have h2 := nl_not_mem_attrsText attrs ha
  simp only [openTag, closeTag, List.mem_append, List.mem_cons, not_or]
  simp [h1, h2, h]

/-! ## number text -/

/-- the characters of number text other than the fraction slash -/
def isNumChar (c : Char) : Bool := c.isDigit || c == '.' || c == '-' || c == ' '

theorem isNumChar_of_isDigit {c : Char} (h : c.isDigit = true) : isNumChar c = true := by simp [isNumChar, h]

theorem natDigits_numChars (n : Nat) : ∀ c ∈ natDigits n, isNumChar c = true :=
  fun c hc => isNumChar_of_isDigit (natDigits_isDigit n c hc)

theorem intStr_numChars (n : Int) : ∀ c ∈ intStr n, isNumChar c = true := by
  intro c hc
  unfold intStr at hc
  split at hc
  · rcases List.mem_cons.1 hc with rfl | hc
    · decide
    · exact natDigits_numChars _ c hc
  · exact natDigits_numChars _ c hc

theorem formatFloatSig_numChars (sig : Nat) (x : Rat) : ∀ c ∈ formatFloatSig sig x, isNumChar c = true := by
  have key : ∀ s : Str, (∀ c ∈ s, c.isDigit = true) →
      ∀ c ∈ (if s.isEmpty then intStr (roundHalfEven x) else natDigits x.floor.toNat ++ '.' :: s),
        isNumChar c = true := by
    intro s hs c hc
    split at hc
    · exact intStr_numChars _ c hc
    · rcases List.mem_append.1 hc with hc | hc
      · exact natDigits_numChars _ c hc
      · rcases List.mem_cons.1 hc with rfl | hc
        · decide
        · exact isNumChar_of_isDigit (hs c hc)
  intro c hc
  unfold formatFloatSig at hc
  dsimp only at hc
  refine key _ ?_ c hc
  intro c hc
  split at hc
  · simp at hc
  · split at hc
    · simp at hc
    · exact padLeftZeros_isDigit (natDigits_isDigit _) c (rstripZeros_sublist _ c hc)

/-- number text is digits, '.', '-', ' ' with at most one '/' -/
theorem formatNumber_shape (n : Num) :
    (∀ c ∈ formatNumber n, isNumChar c = true) ∨
    ∃ a b, formatNumber n = a ++ '/' :: b ∧ (∀ c ∈ a, isNumChar c = true) ∧ (∀ c ∈ b, isNumChar c = true) := by
  unfold formatNumber
  split
  · exact Or.inl (formatFloatSig_numChars _ _)
  · unfold formatFraction
    split
    · exact Or.inl (intStr_numChars _)
    · split
      · exact Or.inl (formatFloatSig_numChars _ _)
      · split
        · refine Or.inr ⟨natDigits (n.val.num.natAbs / n.val.den) ++ ' ' :: natDigits (n.val.num.natAbs % n.val.den),
            natDigits n.val.den, by simp, ?_, natDigits_numChars _⟩
          intro c hc
          rcases List.mem_append.1 hc with hc | hc
          · exact natDigits_numChars _ c hc
          · rcases List.mem_cons.1 hc with rfl | hc
            · decide
            · exact natDigits_numChars _ c hc
        · exact Or.inr ⟨intStr n.val.num, natDigits n.val.den, rfl, intStr_numChars _, natDigits_numChars _⟩

theorem slash_not_numChar {s : Str} (h : ∀ c ∈ s, isNumChar c = true) : '/' ∉ s :=
  fun hm => absurd (h _ hm) (by decide)

theorem renderNumberStr_plain (s : Str) (h : '/' ∉ s) : renderNumberStr s = s := by
  simp [renderNumberStr, List.splitOn_eq_singleton h]

theorem renderNumberStr_frac (a b : Str) (ha : '/' ∉ a) (hb : '/' ∉ b) :
    ∃ i n, i ++ n = a ∧
      renderNumberStr (a ++ '/' :: b) = i ++ S "<sup>" ++ n ++ S "</sup>&frasl;<sub>" ++ b ++ S "</sub>" := by
  have e : (a ++ '/' :: b).splitOn '/' = [a, b] := by
    rw [List.splitOn_append_cons_self_of_not_mem ha, List.splitOn_eq_singleton hb]
  have hj := List.intercalate_splitOn (xs := a) ' '
  simp only [renderNumberStr, e]
  generalize a.splitOn ' ' = l at hj
  match l, hj with
  | [i, n], hj =>
    refine ⟨i ++ [' '], n, by simpa using hj, ?_⟩
    simp [S]
  | [], _ => exact ⟨[], a, rfl, by simp [S]⟩
  | [_], _ => exact ⟨[], a, rfl, by simp [S]⟩
  | _ :: _ :: _ :: _, _ => exact ⟨[], a, rfl, by simp [S]⟩

theorem nl_not_numChars {s : Str} (h : ∀ c ∈ s, isNumChar c = true) : '\n' ∉ s :=
  fun hm => absurd (h _ hm) (by decide)

/-- the two forms of a rendered number: the plain text, or `i<sup>n</sup>&frasl;<sub>d</sub>` -/
theorem renderNumber_cases (n : Num) :
    (renderNumber n = formatNumber n ∧ ∀ c ∈ formatNumber n, isNumChar c = true) ∨
    ∃ i m d, formatNumber n = i ++ m ++ '/' :: d ∧ (∀ c ∈ i, isNumChar c = true) ∧ (∀ c ∈ m, isNumChar c = true) ∧
      (∀ c ∈ d, isNumChar c = true) ∧
      renderNumber n = i ++ S "<sup>" ++ m ++ S "</sup>&frasl;<sub>" ++ d ++ S "</sub>" := by
  rcases formatNumber_shape n with h | ⟨a, b, e, ha, hb⟩
  · exact Or.inl ⟨renderNumberStr_plain _ (slash_not_numChar h), h⟩
  · obtain ⟨i, m, him, hr⟩ := renderNumberStr_frac a b (slash_not_numChar ha) (slash_not_numChar hb)
    refine Or.inr ⟨i, m, b, by rw [him, e], ?_, ?_, hb, by rw [renderNumber, e, hr]⟩
    · intro c hc; exact ha c (by rw [← him]; exact List.mem_append_left _ hc)
    · intro c hc; exact ha c (by rw [← him]; exact List.mem_append_right _ hc)

theorem nl_not_mem_renderNumber (n : Num) : '\n' ∉ renderNumber n := by
  rcases renderNumber_cases n with ⟨e, h⟩ | ⟨i, m, d, -, hi, hm, hd, e⟩
  · rw [e]; exact nl_not_numChars h
  · rw [e]
    have h1 := nl_not_numChars hi
    have h2 := nl_not_numChars hm
    have h3 := nl_not_numChars hd
    simp [h1, h2, h3, S]

/-! ## where line breaks can be -/

/-- no character at which `str.splitlines` splits -/
def NoBreak (s : Str) : Prop := ∀ c ∈ s, isLineBreak c = false
instance (s : Str) : Decidable (NoBreak s) := by unfold NoBreak; infer_instance

theorem isLineBreak_of_ascii {c : Char} (h1 : 32 ≤ c.toNat) (h2 : c.toNat ≤ 126) : isLineBreak c = false := by
  simp [isLineBreak, inRanges, Gen.lineBreakRanges, Gen.lineBreakRanges_0]
  omega

theorem ascii_of_nameChar {c : Char} (h : (c.isAlphanum || c == '-') = true) : 32 ≤ c.toNat ∧ c.toNat ≤ 126 := by
  simp only [Char.isAlphanum, Char.isAlpha, Char.isUpper, Char.isLower, Char.isDigit, Bool.or_eq_true,
    Bool.and_eq_true, decide_eq_true_eq, beq_iff_eq, UInt32.le_iff_toNat_le, ge_iff_le] at h
  have e : c.toNat = c.val.toNat := rfl
  rcases h with ((h | h) | h) | h
  · rw [e]; have := h.1; have := h.2; simp at *; omega
  · rw [e]; have := h.1; have := h.2; simp at *; omega
  · rw [e]; have := h.1; have := h.2; simp at *; omega
  · subst h; decide

theorem ascii_of_numChar {c : Char} (h : isNumChar c = true) : 32 ≤ c.toNat ∧ c.toNat ≤ 126 := by
  simp only [isNumChar, Bool.or_eq_true, beq_iff_eq] at h
  rcases h with ((h | h) | h) | h
  · exact ascii_of_nameChar (by simp [Char.isAlphanum, h])
  · subst h; decide
  · subst h; decide
  · subst h; decide

theorem NoBreak.nl {s : Str} (h : NoBreak s) : '\n' ∉ s := fun hm => absurd (h _ hm) (by decide)
theorem NoBreak.nil : NoBreak [] := by simp [NoBreak]
theorem NoBreak.append {a b : Str} (ha : NoBreak a) (hb : NoBreak b) : NoBreak (a ++ b) := by
  intro c hc; rcases List.mem_append.1 hc with h | h
  · exact ha c h
  · exact hb c h
theorem NoBreak.cons {c : Char} {s : Str} (hc : isLineBreak c = false) (hs : NoBreak s) : NoBreak (c :: s) := by
  intro d hd; rcases List.mem_cons.1 hd with rfl | h
  · exact hc
  · exact hs d h
theorem NoBreak.of_append_left {a b : Str} (h : NoBreak (a ++ b)) : NoBreak a :=
  fun c hc => h c (List.mem_append_left _ hc)
theorem NoBreak.of_append_right {a b : Str} (h : NoBreak (a ++ b)) : NoBreak b :=
  fun c hc => h c (List.mem_append_right _ hc)

theorem noBreak_name {n : String} (h : IsName n) : NoBreak (S n) :=
  fun c hc => have := ascii_of_nameChar (h.2 c hc); isLineBreak_of_ascii this.1 this.2

theorem noBreak_numChars {s : Str} (h : ∀ c ∈ s, isNumChar c = true) : NoBreak s :=
  fun c hc => have := ascii_of_numChar (h c hc); isLineBreak_of_ascii this.1 this.2

theorem noBreak_escapeChar (c : Char) (h : isLineBreak c = false) : NoBreak (escapeChar c) := by
  by_cases h1 : c = '&'; · subst h1; decide
  by_cases h2 : c = '<'; · subst h2; decide
  by_cases h3 : c = '>'; · subst h3; decide
  by_cases h4 : c = '"'; · subst h4; decide
  by_cases h5 : c = '\''; · subst h5; decide
  rw [escapeChar_other h1 h2 h3 h4 h5]
  exact NoBreak.cons h NoBreak.nil

theorem noBreak_htmlEscape {s : Str} (h : NoBreak s) : NoBreak (htmlEscape s) := by
  intro d hd
  obtain ⟨c, hc, hd⟩ := List.mem_flatMap.1 hd
  exact noBreak_escapeChar c (h c hc) d hd

theorem noBreak_renderNumber (n : Num) : NoBreak (renderNumber n) := by
  rcases renderNumber_cases n with ⟨e, h⟩ | ⟨i, m, d, -, hi, hm, hd, e⟩
  · rw [e]; exact noBreak_numChars h
  · rw [e]
    exact ((((noBreak_numChars hi).append (by decide)).append (noBreak_numChars hm)).append (by decide)).append
      (noBreak_numChars hd) |>.append (by decide)

theorem noBreak_quoteattrChar (c : Char) (h : isLineBreak c = false) : NoBreak (quoteattrChar c) := by
  by_cases h1 : c = '&'; · subst h1; decide
  by_cases h2 : c = '>'; · subst h2; decide
  by_cases h3 : c = '<'; · subst h3; decide
  by_cases h4 : c = '\n'; · subst h4; decide
  by_cases h5 : c = '\r'; · subst h5; decide
  by_cases h6 : c = '\t'; · subst h6; decide
  rw [quoteattrChar_other h1 h2 h3 h4 h5 h6]
  exact NoBreak.cons h NoBreak.nil

theorem noBreak_quoteattr {v : Str} (h : NoBreak v) : NoBreak (quoteattr v) := by
  have h0 : NoBreak (v.flatMap quoteattrChar) := by
    intro d hd
    obtain ⟨c, hc, hd⟩ := List.mem_flatMap.1 hd
    exact noBreak_quoteattrChar c (h c hc) d hd
  have h1 : NoBreak ((v.flatMap quoteattrChar).flatMap (fun c => if c == '"' then S "&quot;" else [c])) := by
    intro d hd
    obtain ⟨c, hc, hd⟩ := List.mem_flatMap.1 hd
    by_cases hq : c = '"'
    · subst hq; exact (by decide : NoBreak (S "&quot;")) d hd
    · simp only [beq_iff_eq, hq, if_false, List.mem_singleton] at hd
      subst hd; exact h0 _ hc
  unfold quoteattr
  simp only []
  split
  · split
    · exact NoBreak.cons (by decide) (h1.append (by decide))
    · exact NoBreak.cons (by decide) (h0.append (by decide))
  · exact NoBreak.cons (by decide) (h0.append (by decide))

theorem noBreak_attrsText (attrs : List (String × Str)) (h : ∀ a ∈ attrs, IsName a.1 ∧ NoBreak a.2) :
    NoBreak (attrsText attrs) := by
  intro d hd
  obtain ⟨⟨n, v⟩, ha, hd⟩ := List.mem_flatMap.1 hd
  have := h _ ha
  exact (NoBreak.cons (by decide) ((noBreak_name this.1).append
    (NoBreak.cons (by decide) (noBreak_quoteattr this.2)))) d hd

theorem noBreak_openTag (tag : String) (attrs : List (String × Str)) (ht : IsName tag)
    (h : ∀ a ∈ attrs, IsName a.1 ∧ NoBreak a.2) : NoBreak (openTag tag attrs) :=
  NoBreak.cons (by decide) (((noBreak_name ht).append (noBreak_attrsText attrs h)).append (by decide))

theorem noBreak_closeTag (tag : String) (ht : IsName tag) : NoBreak (closeTag tag) :=
  NoBreak.cons (by decide) (NoBreak.cons (by decide) ((noBreak_name ht).append (by decide)))

theorem noBreak_tagBody (tag : String) (attrs : List (String × Str)) (body : Str) (ht : IsName tag)
    (h : ∀ a ∈ attrs, IsName a.1 ∧ NoBreak a.2) (hb : NoBreak body) : NoBreak (tagBody tag attrs body) := by
  rw [tagBody_eq _ _ _ hb.nl]
  exact ((noBreak_openTag tag attrs ht h).append hb).append (noBreak_closeTag tag ht)

theorem noBreak_renderSvs {s : SVS} (h : ∀ t, Part.text t ∈ s → NoBreak t) : NoBreak (renderSvs s) := by
  intro d hd
  obtain ⟨p, hp, hd⟩ := List.mem_flatMap.1 hd
  cases p with
  | text t => exact noBreak_htmlEscape (h t hp) d hd
  | num n =>
    exact noBreak_tagBody "span" [("class", S "rg-scaled-value")] _ (by decide)
      (by intro a ha; simp only [List.mem_singleton] at ha; subst ha; exact ⟨by decide, by decide⟩)
      (noBreak_renderNumber n) d hd

/-! ## re-indentation of a body made of one-line pieces -/

theorem splitLinesKeepAux_cons_other (cur : Str) (c : Char) (rest : Str) (hc : isLineBreak c = false) :
    splitLinesKeepAux cur (c :: rest) = splitLinesKeepAux (c :: cur) rest := by
  have hr : c ≠ '\r' := by rintro rfl; revert hc; decide
  rw [splitLinesKeepAux]
  · simp [hc]
  · intro rest' e _; exact hr e

theorem splitLinesKeepAux_nl (cur : Str) (rest : Str) :
    splitLinesKeepAux cur ('\n' :: rest) = ('\n' :: cur).reverse :: splitLinesKeepAux [] rest := by
  rw [splitLinesKeepAux]
  · simp [show isLineBreak '\n' = true by decide]
  · intro rest' e _; exact absurd e (by decide)

theorem splitLinesKeepAux_line (cur l rest : Str) (hl : NoBreak l) :
    splitLinesKeepAux cur (l ++ '\n' :: rest) = (cur.reverse ++ l ++ ['\n']) :: splitLinesKeepAux [] rest := by
  induction l generalizing cur with
  | nil => simp [splitLinesKeepAux_nl]
  | cons c l ih =>
    rw [List.cons_append, splitLinesKeepAux_cons_other _ _ _ (hl c (List.mem_cons_self ..)),
      ih _ (fun d hd => hl d (List.mem_cons_of_mem _ hd))]
    simp

theorem splitLinesKeepAux_last (cur l : Str) (hl : NoBreak l) (hne : cur ≠ [] ∨ l ≠ []) :
    splitLinesKeepAux cur l = [cur.reverse ++ l] := by
  induction l generalizing cur with
  | nil =>
    have : cur ≠ [] := by rcases hne with h | h; exact h; exact absurd rfl h
    simp [splitLinesKeepAux, this]
  | cons c l ih =>
    rw [splitLinesKeepAux_cons_other _ _ _ (hl c (List.mem_cons_self ..)),
      ih _ (fun d hd => hl d (List.mem_cons_of_mem _ hd)) (Or.inl (by simp))]
    simp

/-- a line that ends in a character that is not white space -/
def EndsSolid (l : Str) : Prop := ∃ b c, l = b ++ [c] ∧ isStripSpace c = false

theorem EndsSolid.ne_nil {l : Str} (h : EndsSolid l) : l ≠ [] := by
  obtain ⟨b, c, rfl, -⟩ := h; simp

theorem EndsSolid.not_all {l : Str} (h : EndsSolid l) (t : Str) : (l ++ t).all isStripSpace = false := by
  obtain ⟨b, c, rfl, hc⟩ := h
  simp [hc]

theorem EndsSolid.prepend {l : Str} (h : EndsSolid l) (p : Str) : EndsSolid (p ++ l) := by
  obtain ⟨b, c, rfl, hc⟩ := h
  exact ⟨p ++ b, c, by simp, hc⟩

theorem joinNl_cons_cons (a b : Str) (ls : List Str) : joinNl (a :: b :: ls) = a ++ '\n' :: joinNl (b :: ls) := by
  simp [joinNl, S]

theorem joinNl_singleton (a : Str) : joinNl [a] = a := by simp [joinNl]

theorem indent2_joinNl (lines : List Str) (hb : ∀ l ∈ lines, NoBreak l) (he : ∀ l ∈ lines, EndsSolid l) :
    indent2 (joinNl lines) = joinNl (lines.map fun l => ' ' :: ' ' :: l) := by
  unfold indent2 splitLinesKeep
  induction lines with
  | nil => simp [joinNl, splitLinesKeepAux]
  | cons a ls ih =>
    have ha := hb a (List.mem_cons_self ..)
    have hea := he a (List.mem_cons_self ..)
    cases ls with
    | nil =>
      rw [joinNl_singleton, splitLinesKeepAux_last _ _ ha (Or.inr hea.ne_nil)]
      have := hea.not_all []
      simp only [List.append_nil] at this
      simp only [List.flatMap_cons, List.flatMap_nil, this, List.reverse_nil, List.nil_append, List.map_cons,
        List.map_nil, joinNl_singleton, List.append_nil]
      simp
    | cons b ls =>
      rw [joinNl_cons_cons, splitLinesKeepAux_line _ _ _ ha, List.flatMap_cons, List.map_cons, List.map_cons,
        joinNl_cons_cons]
      have ih' := ih (fun l hl => hb l (List.mem_cons_of_mem _ hl)) (fun l hl => he l (List.mem_cons_of_mem _ hl))
      rw [List.map_cons] at ih'
      rw [ih']
      have := hea.not_all ['\n']
      simp only [List.reverse_nil, List.nil_append, this]
      simp

theorem joinNl_endsSolid (lines : List Str) (hne : lines ≠ []) (he : ∀ l ∈ lines, EndsSolid l) :
    EndsSolid (joinNl lines) := by
  induction lines with
  | nil => exact absurd rfl hne
  | cons a ls ih =>
    cases ls with
    | nil => rw [joinNl_singleton]; exact he a (List.mem_cons_self ..)
    | cons b ls =>
      rw [joinNl_cons_cons]
      have := ih (by simp) (fun l hl => he l (List.mem_cons_of_mem _ hl))
      exact (this.prepend (a ++ ['\n'])) |> fun h => by simpa using h

/-- the re-indented form of a body whose lines are known -/
theorem reindent_joinNl (lines : List Str) (hne : lines ≠ []) (hb : ∀ l ∈ lines, NoBreak l)
    (he : ∀ l ∈ lines, EndsSolid l) :
    reindent (joinNl lines) = '\n' :: joinNl (lines.map fun l => ' ' :: ' ' :: l) ++ ['\n'] := by
  rw [reindent, indent2_joinNl lines hb he]
  have : EndsSolid (joinNl (lines.map fun l => ' ' :: ' ' :: l)) := by
    apply joinNl_endsSolid _ (by simpa using hne)
    intro l hl
    obtain ⟨l', hl', rfl⟩ := List.mem_map.1 hl
    exact (he l' hl').prepend [' ', ' ']
  obtain ⟨b, c, e, hc⟩ := this
  rw [e, rstripStr_append_singleton _ _ hc]

theorem nl_mem_joinNl (a b : Str) (ls : List Str) : '\n' ∈ joinNl (a :: b :: ls) := by
  rw [joinNl_cons_cons]; simp

theorem noBreak_joinNl_singleton {a : Str} (h : NoBreak a) : '\n' ∉ joinNl [a] := by
  rw [joinNl_singleton]; exact h.nl

end RG
