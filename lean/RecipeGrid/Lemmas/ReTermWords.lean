import RecipeGrid.Lemmas.ReTermEasy
/-! The terminals with backtracking that matters: `naked_string` (greedy run, given back to the last edge character =
    `trimBack`), and the case-insensitive words with `\b`: `preposition`, `remainder`, `known_unit`. -/
namespace RG
namespace Rx
open Parser Peg

/-! ## `naked_string`: `[^…\s]([^…\n\r]*[^…\s])?` -/

theorem trimBack_le_lo (p : Char → Bool) (t : Array Char) (lo : Nat) : ∀ hi, hi ≤ lo → trimBack p t lo hi = lo
  | 0, _ => rfl
  | hi + 1, h => by rw [trimBack, if_pos h]

/-- offering the positions `lo + n`, …, `lo` to "an edge character here" from the far end back, and falling back to `lo`,
    is `trimBack` -/
theorem tryDown_trimBack (p : Char → Bool) (t : Array Char) (lo : Nat) : ∀ n,
    orE (tryDown (fun m => step t p m some) lo n) (some lo) = some (trimBack p t lo (lo + n + 1)) := by
  intro n
  induction n with
  | zero =>
    rw [tryDown, trimBack, if_neg (by omega)]
    cases hc : t[lo]? with
    | none =>
      rw [step_of_not _ (fun c h => by rw [hc] at h; cases h)]
      simp [trimBack_le_lo]
    | some c =>
      cases hp : p c with
      | false =>
        rw [step_of_not _ (fun d h => by rw [hc] at h; cases h; exact hp)]
        simp [hp, trimBack_le_lo]
      | true => rw [step_of_some _ hc hp]; simp [hp]
  | succ n ih =>
    rw [tryDown, show lo + (n + 1) + 1 = (lo + n + 1) + 1 by omega, trimBack, if_neg (by omega)]
    cases hc : t[lo + n + 1]? with
    | none =>
      rw [step_of_not _ (fun c h => by rw [hc] at h; cases h)]
      exact ih
    | some c =>
      cases hp : p c with
      | false =>
        rw [step_of_not _ (fun d h => by rw [hc] at h; cases h; exact hp)]
        simpa [hp] using ih
      | true => rw [step_of_some _ hc hp]; simp [hp]

theorem ends_nakedString {t : Array Char} : Ends nakedString t (fun i => (some i).bind fun i =>
    ((step t isNakedEdge i some).bind fun j => some (trimBack isNakedEdge t j (spanEnd isNakedInner t j))).bind some) := by
  rw [nakedString_eq]
  refine Ends.bind ends_getPos fun _ => Ends.bind (Ends.withText (Ends.bind (ends_sat _) fun _ => ?_)) fun _ => ends_pure _
  intro i z; rfl

theorem scanIs_nakedString :
    ScanIs (void nakedString)
      (seqs [cls true [.chr '"', .chr '\'', .chr ',', .chr ':', .chr '=', .chr '/', .chr '(', .chr ')', .chr '{', .chr '}', .space],
        opt (grp 1 (seqs [star (cls true [.chr '"', .chr '\'', .chr ',', .chr ':', .chr '=', .chr '/', .chr '(', .chr ')',
            .chr '{', .chr '}', .chr '\n', .chr '\r']),
          cls true [.chr '"', .chr '\'', .chr ',', .chr ':', .chr '=', .chr '/', .chr '(', .chr ')', .chr '{', .chr '}', .space]]))]) := by
  refine ScanIs.of_ends (fun t => Ends.void ends_nakedString) fun t i => ?_
  rw [matchEnd, run_seqs_cons, run_cls, cls_edge]
  simp only [Option.bind_some, step_bind, Option.bind_fun_some]
  congr 1; funext j
  rw [run_seqs_cons, run_opt, run_grp, run_seqs_cons, run_star_cls, cls_inner]
  simp only [run_seqs_cons, run_seqs_nil, run_cls, cls_edge]
  have hge := spanEnd_ge isNakedInner t j
  -- the character that stops the run of inner characters is not an edge character
  have hstop : step t isNakedEdge (spanEnd isNakedInner t j) some = none := step_of_not _ fun c hc => by
    have := spanEnd_stop hc
    cases he : isNakedEdge c with
    | false => rfl
    | true => rw [isNakedInner_of_isNakedEdge he] at this; cases this
  generalize spanEnd isNakedInner t j = hi at hge hstop
  obtain ⟨n, rfl⟩ : ∃ n, hi = j + n := ⟨hi - j, by omega⟩
  rw [show j + n - j = n by omega]
  cases n with
  | zero =>
    rw [tryDown]
    rw [Nat.add_zero] at hstop
    rw [Nat.add_zero, trimBack_le_lo _ _ _ _ (Nat.le_refl _)]
    exact (by rw [hstop]; rfl : orE (step t isNakedEdge j some) (some j) = some j).symm
  | succ n =>
    have := tryDown_trimBack isNakedEdge t j n
    rw [tryDown]
    rw [show j + (n + 1) = j + n + 1 by omega] at hstop ⊢
    rw [hstop]
    exact this.symm

/-! ## literal words under `(?i)` -/

/-- the end of the word `w` (pattern letters, matched by `ciMatches`) from `i` -/
def wordEnd (t : Array Char) : Str → Nat → Option Nat
  | [], i => some i
  | l :: ls, i => step t (ciMatches · l) i (fun j => wordEnd t ls j)

theorem ends_ciWord {t : Array Char} : ∀ w : Str, Ends (ciWord w) t (wordEnd t w)
  | [] => ends_pure ()
  | l :: ls => by
    refine Ends.congr (Ends.bind (ends_sat _) fun _ => ends_ciWord ls) fun i => ?_
    rw [step_bind]; rfl

theorem run_word {α} (t : Array Char) (base : Nat) (rest : List Rx) (k : K α) : ∀ (w : Str) (i : Nat),
    run t base (seqs (w.map ichr ++ rest)) i k = (wordEnd t w i).bind (fun j => run t base (seqs rest) j k)
  | [], i => rfl
  | l :: ls, i => by
    rw [List.map_cons, List.cons_append, run_seqs_cons, run_ichr, wordEnd, step_bind]
    congr 1; funext j
    exact run_word t base rest k ls j

theorem run_word_only {α} (t : Array Char) (base : Nat) (k : K α) (w : Str) (i : Nat) :
    run t base (seqs (w.map ichr)) i k = (wordEnd t w i).bind k := by
  have := run_word t base [] k w i
  rw [List.append_nil] at this
  rw [this]; rfl

theorem wordEnd_eq {t : Array Char} : ∀ {w : Str} {i j : Nat}, wordEnd t w i = some j → j = i + w.length
  | [], i, j, h => by simp only [wordEnd, Option.some.injEq] at h; simp [h]
  | l :: ls, i, j, h => by
    simp only [wordEnd, step] at h
    cases hc : t[i]? with
    | none => rw [hc] at h; cases h
    | some c =>
      rw [hc] at h
      cases hp : ciMatches c l with
      | false => simp [hp] at h
      | true =>
        simp only [hp, if_true] at h
        have := wordEnd_eq h
        simp only [List.length_cons]; omega

theorem wordEnd_bind_congr {α} {t : Array Char} {w : Str} {i : Nat} {f g : Nat → Option α}
    (h : ∀ j, j = i + w.length → f j = g j) : (wordEnd t w i).bind f = (wordEnd t w i).bind g := by
  cases hw : wordEnd t w i with
  | none => rfl
  | some j => exact h j (wordEnd_eq hw)

/-- a word that begins with a lower-case letter does not begin at a white-space character -/
theorem wordEnd_none_of_space {t : Array Char} {l : Char} {ls : Str} {m : Nat} {c : Char} (hl : isLowerAscii l = true)
    (hc : t[m]? = some c) (hs : isReSpace c = true) : wordEnd t (l :: ls) m = none := by
  rw [wordEnd]
  refine step_of_not _ fun d hd => ?_
  rw [hc] at hd; cases hd
  cases hm : ciMatches c l with
  | false => rfl
  | true =>
    have := isReWord_of_ciMatches hl hm
    rw [isReWord_false_of_isReSpace hs] at this; cases this

/-- a run of white space followed by a word: only the whole run can be followed by the word -/
theorem tryDown_word {α} {t : Array Char} {p : Char → Bool} (hp : ∀ c, p c = true → isReSpace c = true) {l : Char} {ls : Str}
    (hl : isLowerAscii l = true) (k : Nat → Option α) (j : Nat) :
    tryDown (fun m => (wordEnd t (l :: ls) m).bind k) j (spanEnd p t j - j) = (wordEnd t (l :: ls) (spanEnd p t j)).bind k := by
  have hge := spanEnd_ge p t j
  rw [tryDown_last]
  · rw [show j + (spanEnd p t j - j) = spanEnd p t j by omega]
  · intro m h1 h2
    obtain ⟨c, hc, hpc⟩ := spanEnd_all h1 (by omega : m < spanEnd p t j)
    rw [wordEnd_none_of_space hl hc (hp c hpc)]; rfl

end Rx
end RG
