import RecipeGrid.Lemmas.MdRel
/-! What `FencedCode.parse` / `CodeBlock.parse` remove from a line, for the lines of a document of **D**. -/
namespace RG

theorem isReSpace_space : isReSpace ' ' = true := by decide
theorem isReSpace_nl : isReSpace '\n' = true := by decide

theorem drop_leadSpaces_head (l : Str) (c : Char) (r : Str) (h : l.drop (leadSpaces l) = c :: r) : c ≠ ' ' := by
  induction l with
  | nil => simp at h
  | cons x l ih =>
    simp only [leadSpaces, List.takeWhile_cons] at h ih
    split at h
    · simp only [List.length_cons, List.drop_succ_cons] at h
      exact ih h
    · rename_i hx
      simp only [List.length_nil, List.drop_zero, List.cons.injEq] at h
      rw [← h.1]
      simpa using hx

theorem dropWhile_space_replicate (k : Nat) (rest : Str) :
    (List.replicate k ' ' ++ rest).dropWhile isReSpace = rest.dropWhile isReSpace := by
  induction k with
  | zero => simp
  | succ k ih => simp [List.replicate_succ, isReSpace_space, ih]

def fenceBodyOk (n : Nat) (l : Str) : Bool :=
  decide (n ≤ leadSpaces l) ||
    (match l.drop (leadSpaces l) with
     | [] => true
     | c :: _ => c == '\n' || !isReSpace c)

theorem mdLine_drop_nl {l : Str} (hl : MdLine l) (k : Nat) (tail : Str) (h : l.drop k = '\n' :: tail) : tail = [] := by
  apply hl.2 (l.take k) tail
  rw [← h, List.take_append_drop]

theorem stripFence_dropped (n : Nat) (l : Str) (hl : MdLine l) (hok : fenceBodyOk n l = true) :
    Dropped n (stripFence n l) l := by
  unfold stripFence
  simp only
  split
  · rename_i h
    exact ⟨n, Nat.le_refl _, h, rfl⟩
  · rename_i h
    have hk : leadSpaces l ≤ n := by omega
    refine ⟨leadSpaces l, hk, Nat.le_refl _, ?_⟩
    have hsplit := leadSpaces_split l (leadSpaces l) (Nat.le_refl _)
    simp only [fenceBodyOk, Bool.or_eq_true, decide_eq_true_eq] at hok
    rcases hok with hok | hok
    · omega
    · split
      · rename_i tail heq
        rw [heq, mdLine_drop_nl hl _ _ heq]
      · rename_i hne
        cases hrest : l.drop (leadSpaces l) with
        | nil =>
          conv => lhs; rw [hsplit, hrest]
          rw [dropWhile_space_replicate]; rfl
        | cons c r =>
          rw [hrest] at hok
          simp only [Bool.or_eq_true, beq_iff_eq, Bool.not_eq_true'] at hok
          rcases hok with hc | hc
          · subst hc
            exact absurd hrest (hne r)
          · conv => lhs; rw [hsplit, hrest]
            rw [dropWhile_space_replicate, List.dropWhile_cons, hc]
            rfl

/-! ## indented blocks -/

def dropCode (t : TLine) : Str := t.text.drop (if 4 ≤ leadSpaces t.text then 4 else leadSpaces t.text)

theorem dropCode_dropped (t : TLine) : Dropped 4 (dropCode t) t.text := by
  unfold dropCode
  split
  · rename_i h; exact ⟨4, Nat.le_refl _, h, rfl⟩
  · exact ⟨leadSpaces t.text, by omega, Nat.le_refl _, rfl⟩

def CodeLine (t : TLine) : Prop := t.tag = .codeStart ∨ t.tag = .codeCont ∨ t.tag = .codeBlank

theorem stripCode_eq (t : TLine) (hc : CodeLine t) (hs : TagSound t) (hok : t.ok = true) (hl : MdLine t.text) :
    (NlEnded t.text → stripCode t = dropCode t) ∧
      ∃ e, (e = [] ∨ e = ['\n']) ∧ stripCode t = dropCode t ++ e := by
  obtain ⟨tag, l⟩ := t
  simp only [CodeLine] at hc
  rcases hc with hc | hc | hc
  · subst hc
    have h4 : 4 ≤ leadSpaces l := hs.1
    simp only [stripCode, dropCode, h4, if_true]
    refine ⟨fun _ => ?_, [], Or.inl rfl, ?_⟩ <;> simp
  · subst hc
    have h4 : 4 ≤ leadSpaces l := hs
    simp only [stripCode, dropCode, h4, if_true]
    refine ⟨fun _ => ?_, [], Or.inl rfl, ?_⟩ <;> simp
  · subst hc
    simp only [stripCode, dropCode, stripCodeBlank]
    simp only [TLine.ok, Bool.or_eq_true, decide_eq_true_eq] at hok
    by_cases h4 : 4 ≤ leadSpaces l
    · simp only [h4, if_true]
      by_cases he : l.drop 4 = []
      · simp only [he, List.isEmpty_nil, if_true, List.nil_append]
        refine ⟨?_, ['\n'], Or.inr rfl, rfl⟩
        intro hnl
        exact absurd he (nlEnded_drop l 4 hnl h4).ne_nil
      · have : (l.drop 4).isEmpty = false := by simpa using he
        simp only [this]
        exact ⟨fun _ => rfl, [], Or.inl rfl, by simp⟩
    · simp only [h4, if_false, List.isEmpty_nil, if_true]
      rcases hok with hok | hok
      · omega
      · cases hrest : l.drop (leadSpaces l) with
        | nil =>
          refine ⟨?_, ['\n'], Or.inr rfl, by simp⟩
          intro hnl
          exact absurd hrest (nlEnded_drop l _ hnl (Nat.le_refl _)).ne_nil
        | cons c r =>
          rw [hrest] at hok
          have hc : c = '\n' := by simpa using hok
          subst hc
          rw [mdLine_drop_nl hl _ _ hrest]
          exact ⟨fun _ => rfl, [], Or.inl rfl, by simp⟩

theorem codeSource_flatten (lines : List TLine) (hok : LinesOk (lines.map (·.text)))
    (h : ∀ t ∈ lines, CodeLine t ∧ TagSound t ∧ t.ok = true) :
    ∃ e, (e = [] ∨ e = ['\n']) ∧ (lines.map stripCode).flatten = (lines.map dropCode).flatten ++ e := by
  induction lines with
  | nil => exact ⟨[], Or.inl rfl, rfl⟩
  | cons t ts ih =>
    obtain ⟨hc, hs, ho⟩ := h t (by simp)
    have hl : MdLine t.text := hok.1
    obtain ⟨h1, e, he, h2⟩ := stripCode_eq t hc hs ho hl
    by_cases hts : ts = []
    · subst hts
      exact ⟨e, he, by simp [h2]⟩
    · have hnl : NlEnded t.text := hok.2.1 (by simpa using hts)
      obtain ⟨e', he', h3⟩ := ih hok.2.2 (fun x hx => h x (List.mem_cons_of_mem _ hx))
      exact ⟨e', he', by simp only [List.map_cons, List.flatten_cons, h1 hnl, h3, List.append_assoc]⟩

theorem forall2_dropCode (lines : List TLine) :
    Forall2 (Dropped 4) (lines.map dropCode) (lines.map (·.text)) := by
  induction lines with
  | nil => exact .nil
  | cons t ts ih => exact .cons (dropCode_dropped t) ih

theorem Dropped.mono {n m : Nat} {s l : Str} (h : Dropped n s l) (hnm : n ≤ m) : Dropped m s l := by
  obtain ⟨p, h1, h2, h3⟩ := h
  exact ⟨p, by omega, h2, h3⟩

/-! ## the lines inside a fence carry the indentation of their opening fence -/

theorem step_fenceOpen (st : ScanSt) (l : Str) (f : FenceInfo) (h : (step st l).1 = .fenceOpen f) :
    (step st l).2 = .fence f := by
  have key : ∀ p, (stepOutside p l).1 = .fenceOpen f → (stepOutside p l).2 = .fence f := by
    intro p
    unfold stepOutside
    split
    · intro h; cases h
    · split
      · split <;> (intro h; cases h)
      · split
        · intro h; simp only [LineTag.fenceOpen.injEq] at h; rw [h]
        · split <;> (intro h; cases h)
  cases st with
  | top => exact key _ h
  | para => exact key _ h
  | fence g =>
    simp only [step] at h
    split at h <;> cases h
  | code =>
    simp only [step] at h ⊢
    split
    · rename_i hb; simp only [hb, if_true] at h; cases h
    · rename_i hb
      simp only [hb] at h
      split
      · rename_i h4; simp only [h4, if_true] at h; cases h
      · rename_i h4; simp only [h4, if_false] at h; exact key _ h

theorem tagLines_fence_body (f : FenceInfo) (ls : List Str) :
    ∀ x ∈ (tagLines (.fence f) ls).takeWhile (·.tag.isFenceBody), x.tag = .fenceBody f.indent := by
  induction ls with
  | nil => simp [tagLines]
  | cons l ls ih =>
    simp only [tagLines, step]
    by_cases hc : isFenceClose f l = true
    · simp [hc, LineTag.isFenceBody]
    · have hc' : isFenceClose f l = false := by simpa using hc
      simp only [hc', Bool.false_eq_true, if_false, List.takeWhile_cons, LineTag.isFenceBody, if_true]
      intro x hx
      rcases List.mem_cons.1 hx with rfl | hx
      · rfl
      · exact ih x hx

theorem tagLines_body_indent (st : ScanSt) (ls : List Str) (pre : List TLine) (t : TLine) (rest : List TLine)
    (f : FenceInfo) (h : tagLines st ls = pre ++ t :: rest) (ht : t.tag = .fenceOpen f) :
    ∀ x ∈ rest.takeWhile (·.tag.isFenceBody), x.tag = .fenceBody f.indent := by
  induction ls generalizing st pre with
  | nil => simp [tagLines] at h
  | cons l ls ih =>
    simp only [tagLines] at h
    cases pre with
    | nil =>
      simp only [List.nil_append, List.cons.injEq] at h
      obtain ⟨h1, h2⟩ := h
      rw [← h1] at ht
      simp only at ht
      rw [step_fenceOpen st l f ht] at h2
      rw [← h2]
      exact tagLines_fence_body f ls
    | cons p pre =>
      simp only [List.cons_append, List.cons.injEq] at h
      exact ih _ pre h.2

end RG
