import RecipeGrid.Lemmas.MdContainers
/-! The lines inside a fence carry the indentation of their opening fence, also across container prefixes; the blocks
    `assemble2` produces. -/
namespace RG

/-- a top-level line is tagged as by the container-free tagger, or opens a container -/
theorem stepNone_cases (st : ScanSt) (l : Str) :
    (∃ reg, stepNone st l = plainT (step st l).1 l (step st l).2 reg) ∨
      (∃ ctx p reg, ctx ≠ .none ∧ stepNone st l = enter l ctx p reg) := by
  unfold stepNone
  cases htag : (step st l).1 with
  | para first =>
    simp only
    repeat' split
    all_goals first
      | exact Or.inl ⟨_, rfl⟩
      | exact Or.inr ⟨_, _, _, by simp, rfl⟩
  | _ => exact Or.inl ⟨_, rfl⟩

theorem stepNone_fenceOpen (st : ScanSt) (l : Str) (f : FenceInfo) (h : (stepNone st l).1.tag = .fenceOpen f) :
    (stepNone st l).2.st = .fence f := by
  rcases stepNone_cases st l with ⟨reg, he⟩ | ⟨ctx, p, reg, _, he⟩
  · rw [he] at h ⊢
    exact step_fenceOpen st l f h
  · rw [he] at h ⊢
    exact step_fenceOpen .top _ f h

theorem stepIn_fenceOpen (ctx : Ctx) (st : ScanSt) (l : Str) (f : FenceInfo) (h : (stepIn ctx st l).1.tag = .fenceOpen f) :
    (stepIn ctx st l).2.st = .fence f := by
  unfold stepIn at h ⊢
  split
  · rename_i p hp
    simp only [hp] at h
    exact step_fenceOpen st _ f h
  · rename_i hp
    simp only [hp] at h
    split
    · rename_i hc
      simp only [hc, if_true] at h
      cases h
    · rename_i hc
      simp only [hc] at h
      exact stepNone_fenceOpen _ _ f h

theorem step2_fenceOpen (s : St2) (l : Str) (f : FenceInfo) (h : (step2 s l).1.tag = .fenceOpen f) :
    (step2 s l).2.st = .fence f := by
  unfold step2 at h ⊢
  split
  · rename_i hc; simp only [hc, if_true] at h; exact stepNone_fenceOpen _ _ f h
  · rename_i hc; simp only [hc, if_false] at h; exact stepIn_fenceOpen _ _ _ f h

theorem step2_in_fence (c : Ctx) (f : FenceInfo) (l : Str) :
    ((step2 ⟨c, .fence f⟩ l).1.tag = .fenceBody f.indent ∧ (step2 ⟨c, .fence f⟩ l).2.st = .fence f) ∨
      (step2 ⟨c, .fence f⟩ l).1.tag.isFenceBody = false := by
  have key : ∀ x : Str, ((step (.fence f) x).1 = .fenceBody f.indent ∧ (step (.fence f) x).2 = .fence f) ∨
      (step (.fence f) x).1.isFenceBody = false := by
    intro x
    simp only [step]
    split
    · exact Or.inr rfl
    · exact Or.inl ⟨rfl, rfl⟩
  unfold step2
  split
  · rcases stepNone_cases (.fence f) l with ⟨reg, he⟩ | ⟨ctx, p, reg, _, he⟩
    · rw [he]; exact key l
    · rw [he]; exact Or.inr (step_top_not_body _)
  · unfold stepIn
    split
    · exact key _
    · simp only [ScanSt.inPara, Bool.false_and, Bool.false_eq_true, if_false]
      exact Or.inr (stepNone_top_not_body l)

theorem tagLines2_fence_body (c : Ctx) (f : FenceInfo) (ls : List Str) :
    ∀ x ∈ (tagLines2 ⟨c, .fence f⟩ ls).takeWhile (·.tag.isFenceBody), x.tag = .fenceBody f.indent := by
  induction ls generalizing c with
  | nil => simp [tagLines2]
  | cons l ls ih =>
    simp only [tagLines2]
    rcases step2_in_fence c f l with ⟨h1, h2⟩ | h
    · have hst : (step2 ⟨c, .fence f⟩ l).2 = ⟨(step2 ⟨c, .fence f⟩ l).2.ctx, .fence f⟩ := by
        cases hs : (step2 ⟨c, .fence f⟩ l).2 with
        | mk c' st' => rw [hs] at h2; simp only at h2; rw [h2]
      rw [hst]
      simp only [List.takeWhile_cons, h1, LineTag.isFenceBody, if_true]
      intro x hx
      rcases List.mem_cons.1 hx with rfl | hx
      · exact h1
      · exact ih _ x hx
    · simp [h]

theorem tagLines2_body_indent (s : St2) (ls : List Str) (pre : List TLine2) (t : TLine2) (rest : List TLine2)
    (f : FenceInfo) (h : tagLines2 s ls = pre ++ t :: rest) (ht : t.tag = .fenceOpen f) :
    ∀ x ∈ rest.takeWhile (·.tag.isFenceBody), x.tag = .fenceBody f.indent := by
  induction ls generalizing s pre with
  | nil => simp [tagLines2] at h
  | cons l ls ih =>
    simp only [tagLines2] at h
    cases pre with
    | nil =>
      simp only [List.nil_append, List.cons.injEq] at h
      obtain ⟨h1, h2⟩ := h
      rw [← h1] at ht
      have hst : (step2 s l).2 = ⟨(step2 s l).2.ctx, .fence f⟩ := by
        have h3 := step2_fenceOpen s l f ht
        cases hs : (step2 s l).2 with
        | mk c' st' => rw [hs] at h3; simp only at h3; rw [h3]
      rw [hst] at h2
      rw [← h2]
      exact tagLines2_fence_body _ f ls
    | cons p pre =>
      simp only [List.cons_append, List.cons.injEq] at h
      exact ih _ pre h.2

/-! ## `assemble2` -/

def lenSum2 (ts : List TLine2) : Nat := (ts.map (·.text.length)).sum
def lineSum2 (ts : List TLine2) : Nat := (ts.map (fun t => pyLineCount t.text)).sum

theorem lenSum2_eq (ts : List TLine2) : lenSum2 ts = ((ts.map (·.text)).flatten).length := by
  induction ts with
  | nil => rfl
  | cons t ts ih => simp [lenSum2] at ih ⊢; omega

theorem lineSum2_eq (ts : List TLine2) : lineSum2 ts = ((ts.map (·.text)).map pyLineCount).sum := by
  simp [lineSum2, List.map_map, Function.comp_def]

theorem mem_assemble2 {b : MdBlock} {pos line : Nat} {ts : List TLine2} (h : b ∈ assemble2 pos line ts) :
    ∃ pre t rest, ts = pre ++ t :: rest ∧
      ((∃ f, t.tag = .fenceOpen f ∧
          b = ⟨.fenced f.lang, pos + lenSum2 pre,
                fencedSource f.indent ((rest.takeWhile (·.tag.isFenceBody)).map TLine2.inner),
                line + lineSum2 pre + pyLineCount t.text⟩) ∨
       (t.tag = .codeStart ∧
          b = ⟨.indented, pos + lenSum2 pre, codeSource ((t :: rest.takeWhile (·.tag.isCodeMore)).map TLine2.inner),
                line + lineSum2 pre⟩)) := by
  induction ts generalizing pos line with
  | nil => simp [assemble2] at h
  | cons t rest ih =>
    simp only [assemble2, List.mem_append] at h
    rcases h with h | h
    · refine ⟨[], t, rest, rfl, ?_⟩
      split at h
      · rename_i f hf
        simp only [List.mem_singleton] at h
        exact Or.inl ⟨f, hf, by simp [h, lenSum2, lineSum2]⟩
      · rename_i hc
        simp only [List.mem_singleton] at h
        exact Or.inr ⟨hc, by simp [h, lenSum2, lineSum2]⟩
      · simp at h
    · obtain ⟨pre, t', rest', hts, hb⟩ := ih h
      refine ⟨t :: pre, t', rest', by rw [hts]; rfl, ?_⟩
      rcases hb with ⟨f, hf, hb⟩ | ⟨hc, hb⟩
      · exact Or.inl ⟨f, hf, by rw [hb]; simp [lenSum2, lineSum2]; omega⟩
      · exact Or.inr ⟨hc, by rw [hb]; simp [lenSum2, lineSum2]; omega⟩

end RG
