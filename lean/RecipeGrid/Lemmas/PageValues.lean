import RecipeGrid.Model.PageValues
import RecipeGrid.Props.C13
import RecipeGrid.Props.C03
/-! Helper lemmas for `Props/C03e.lean` / `Props/C15d.lean`: the template of a document, `renderDoc` as one chain of
    replacements, and what scaling does to the numbers a table shows. Nothing here is a specification. -/
namespace RG
open RG.C13

-- ================================================================ bridge to the token lists of C13
def PTok.toTok : PTok → Tok
  | .lit s => .lit s
  | .hole i => .hole i
def toToks (t : List PTok) : List Tok := t.map PTok.toTok

theorem flattenT_toToks (f : Nat → Str) : ∀ t : List PTok, flattenT f (toToks t) = pflatten f t
  | [] => rfl
  | .lit s :: t => by simp [toToks, PTok.toTok, flattenT, pflatten, ← flattenT_toToks f t]
  | .hole i :: t => by simp [toToks, PTok.toTok, flattenT, pflatten, ← flattenT_toToks f t]

theorem holeOffsets_toToks (i : Nat) (f : Nat → Str) : ∀ t : List PTok, holeOffsets i f (toToks t) = holeOffsetsB i f t
  | [] => rfl
  | .lit s :: t => by simp [toToks, PTok.toTok, holeOffsets, holeOffsetsB, ← holeOffsets_toToks i f t]
  | .hole j :: t => by simp [toToks, PTok.toTok, holeOffsets, holeOffsetsB, ← holeOffsets_toToks i f t]

theorem occurrences_cons (p : Str) (c : Char) (rest : Str) :
    occurrences p (c :: rest) = (if isPrefixOfStr p (c :: rest) then [0] else []) ++ (occurrences p rest).map (· + 1) := by
  unfold occurrences
  rw [List.length_cons, List.range_succ_eq_map, List.filter_cons, List.filter_map]
  simp only [List.drop_zero, Function.comp_def, List.drop_succ_cons]
  split <;> simp

theorem occFast_eq (p : Str) : ∀ (s : Str) (k : Nat), occFast p k s = (occurrences p s).map (· + k)
  | [], k => by
    simp only [occFast, occurrences, List.length_nil, Nat.zero_add, List.range_one, List.filter_cons, List.drop_nil, List.filter_nil]
    split <;> simp
  | c :: rest, k => by
    rw [occFast, occFast_eq p rest (k + 1), occurrences_cons]
    split <;> simp [List.map_map, Function.comp_def, Nat.add_comm, Nat.add_left_comm]

/-- the one-pass search of the executable side condition finds exactly the occurrences of C13 -/
theorem occurrencesB_eq (p s : Str) : occurrencesB p s = occurrences p s := by
  simp [occurrencesB, occFast_eq]
theorem filledB_eq (ph : Nat → Str) (vals : List Str) (n : Nat) : filledB ph vals n = filledUpTo ph vals n := rfl

theorem chainOK_of_chainOKb {ph : Nat → Str} {vals : List Str} {t : List PTok} (h : chainOKb ph vals t = true) :
    ChainOK ph vals (toToks t) := by
  intro n hn
  simp only [chainOKb, List.all_eq_true, List.mem_range, Bool.and_eq_true, Bool.not_eq_true', beq_iff_eq] at h
  obtain ⟨h1, h2⟩ := h n hn
  refine ⟨by intro h0; simp [h0] at h1, ?_⟩
  unfold OnlyAtHoles
  rw [flattenT_toToks, holeOffsets_toToks, ← filledB_eq, ← occurrencesB_eq]
  exact h2

theorem holesBelow_iff_holesOf (n : Nat) : ∀ t : List PTok, HolesBelow n (toToks t) ↔ ∀ i ∈ holesOf t, i < n
  | [] => by simp [HolesBelow, toToks, holesOf]
  | .lit s :: t => by
    have ih := holesBelow_iff_holesOf n t
    simp only [HolesBelow, toToks, List.map_cons, List.mem_cons, forall_eq_or_imp, PTok.toTok, holesOf, true_and] at ih ⊢
    exact ih
  | .hole i :: t => by
    have ih := holesBelow_iff_holesOf n t
    simp only [HolesBelow, toToks, List.map_cons, List.mem_cons, forall_eq_or_imp, PTok.toTok, holesOf] at ih ⊢
    rw [ih]

theorem holesBelow_of_holesBelowB {n : Nat} {t : List PTok} (h : holesBelowB n t = true) : HolesBelow n (toToks t) := by
  rw [holesBelow_iff_holesOf]
  simpa [holesBelowB] using h

-- ================================================================ the canonical template
theorem matchPh_spec : ∀ (phs : List Str) (i0 : Nat) (s : Str) (i len : Nat), matchPh phs i0 s = some (i, len) →
    ∃ p, phs[i - i0]? = some p ∧ i0 ≤ i ∧ len = p.length ∧ isPrefixOfStr p s = true
  | [], _, _, _, _, h => by simp [matchPh] at h
  | p :: ps, i0, s, i, len, h => by
    simp only [matchPh] at h
    split at h
    · rename_i hc
      simp only [Bool.and_eq_true] at hc
      cases h
      exact ⟨p, by simp, Nat.le_refl _, rfl, hc.2⟩
    · obtain ⟨q, h1, h2, h3, h4⟩ := matchPh_spec ps (i0 + 1) s i len h
      refine ⟨q, ?_, by omega, h3, h4⟩
      have : i - i0 = (i - (i0 + 1)) + 1 := by omega
      rw [this]
      simpa using h1

theorem tokeniseAux_flatten (phs : List Str) : ∀ (fuel : Nat) (acc s : Str),
    pflatten (fun i => phs.getD i []) (tokeniseAux phs fuel acc s) = acc.reverse ++ s
  | 0, acc, s => by simp [tokeniseAux, pflatten]
  | fuel + 1, acc, [] => by simp [tokeniseAux, pflatten]
  | fuel + 1, acc, c :: rest => by
    simp only [tokeniseAux]
    split
    · rename_i i len hm
      obtain ⟨p, h1, _, h3, h4⟩ := matchPh_spec phs 0 (c :: rest) i len hm
      obtain ⟨tl, htl⟩ := (isPrefixOfStr_iff p (c :: rest)).1 h4
      simp only [pflatten, tokeniseAux_flatten phs fuel [] _]
      have hp : phs.getD i [] = p := by
        simp only [Nat.sub_zero] at h1
        simp [List.getD, h1]
      rw [hp, htl, h3]
      simp
    · rw [tokeniseAux_flatten phs fuel (c :: acc) rest]
      simp

/-- every text is the flattening of its canonical template -/
theorem tokenise_flatten (phs : List Str) (s : Str) : pflatten (fun i => phs.getD i []) (tokenise phs s) = s :=
  tokeniseAux_flatten phs _ [] s

theorem tokeniseAux_holes (phs : List Str) : ∀ (fuel : Nat) (acc s : Str), ∀ i ∈ holesOf (tokeniseAux phs fuel acc s), i < phs.length
  | 0, acc, s => by simp [tokeniseAux, holesOf]
  | fuel + 1, acc, [] => by simp [tokeniseAux, holesOf]
  | fuel + 1, acc, c :: rest => by
    simp only [tokeniseAux]
    split
    · rename_i i len hm
      obtain ⟨p, h1, _, _, _⟩ := matchPh_spec phs 0 (c :: rest) i len hm
      have hi : i < phs.length := by
        simp only [Nat.sub_zero] at h1
        exact (List.getElem?_eq_some_iff.1 h1).1
      intro j hj
      simp only [holesOf, List.mem_cons] at hj
      rcases hj with rfl | hj
      · exact hi
      · exact tokeniseAux_holes phs fuel [] _ j hj
    · exact tokeniseAux_holes phs fuel (c :: acc) rest

theorem tokenise_holes (phs : List Str) (s : Str) : ∀ i ∈ holesOf (tokenise phs s), i < phs.length :=
  tokeniseAux_holes phs _ [] s

-- ================================================================ `renderDoc` is one chain of replacements
theorem renderRecipesAux_eq_foldl (k : Num) : ∀ (rs : List (Str × Bool × Block)) (i : Nat) (html : Str),
    renderRecipesAux k i rs html = (recipePairs k i rs).foldl (fun h pv => replaceAll pv.1 pv.2 h) html
  | [], _, _ => rfl
  | (ph, isNew, trees) :: rest, i, html => by
    simp only [renderRecipesAux, recipePairs, List.foldl_cons, blockHtml]
    exact renderRecipesAux_eq_foldl k rest _ _

theorem renderDoc_eq_foldl (d : MdDoc) (k : Num) :
    renderDoc d k = (docPairs d k).foldl (fun h pv => replaceAll pv.1 pv.2 h) d.html := by
  have h1 : ∀ h0 : Str, d.svs.foldl (fun h (x : Str × SVS) => replaceAll x.1 (renderSvs (Svs.scale k x.2)) h) h0 =
      (d.svs.map (fun phs => (phs.1, renderSvs (Svs.scale k phs.2)))).foldl (fun h pv => replaceAll pv.1 pv.2 h) h0 := by
    intro h0; rw [List.foldl_map]
  unfold docPairs
  rw [List.foldl_append, List.foldl_append, ← h1, ← renderRecipesAux_eq_foldl]
  unfold renderDoc headerPairs
  cases h1 : d.hasTitle <;> cases h2 : d.prePost
  · rfl
  · rfl
  · rfl
  · rename_i pp; obtain ⟨pre, post⟩ := pp; rfl

theorem recipePairs_fst (k : Num) : ∀ (rs : List (Str × Bool × Block)) (i : Nat), (recipePairs k i rs).map (·.1) = rs.map (·.1)
  | [], _ => rfl
  | (ph, isNew, trees) :: rest, i => by simp [recipePairs, recipePairs_fst k rest]

theorem docPairs_fst (d : MdDoc) (k : Num) : (docPairs d k).map (·.1) = docPhs d := by
  unfold docPairs docPhs headerPairs
  simp only [List.map_append, List.map_map, recipePairs_fst]
  congr 1
  split <;> simp_all

theorem docVals_length (d : MdDoc) (k : Num) : (docVals d k).length = (docPhs d).length := by
  rw [← docPairs_fst d k]; simp [docVals]

theorem renderDoc_eq_chain (d : MdDoc) (k : Num) : renderDoc d k = chainReplace (docPh d) (docVals d k) d.html := by
  rw [renderDoc_eq_foldl, foldl_replaceAll_eq_chainReplace, docPairs_fst]
  rfl

-- ================================================================ the values of the holes
theorem recipePairs_length (k : Num) : ∀ (rs : List (Str × Bool × Block)) (i : Nat), (recipePairs k i rs).length = rs.length
  | [], _ => rfl
  | (ph, isNew, trees) :: rest, i => by simp [recipePairs, recipePairs_length k rest]

theorem recipePairs_getElem? (k : Num) : ∀ (rs : List (Str × Bool × Block)) (i j : Nat) (ph : Str) (isNew : Bool) (trees : Block),
    rs[j]? = some (ph, isNew, trees) →
    (recipePairs k i rs)[j]? = some (ph, blockHtml k ((recipeIdx i rs).getD j 0) trees)
  | [], _, _, _, _, _, h => by simp at h
  | (ph', isNew', trees') :: rest, i, 0, ph, isNew, trees, h => by
    simp only [List.getElem?_cons_zero, Option.some.injEq, Prod.mk.injEq] at h
    obtain ⟨rfl, rfl, rfl⟩ := h
    simp [recipePairs, recipeIdx]
  | (ph', isNew', trees') :: rest, i, j + 1, ph, isNew, trees, h => by
    simp only [List.getElem?_cons_succ] at h
    have := recipePairs_getElem? k rest (if isNew' then i + 1 else i) j ph isNew trees h
    simp [recipePairs, recipeIdx, this]

theorem docVal_svs (d : MdDoc) (k : Num) (i : Nat) (ph : Str) (s : SVS) (h : d.svs[i]? = some (ph, s)) :
    docVal d k i = renderSvs (Svs.scale k s) := by
  have hi : i < d.svs.length := (List.getElem?_eq_some_iff.1 h).1
  unfold docVal docVals docPairs
  simp only [List.map_append, List.map_map, List.getD_eq_getElem?_getD, List.append_assoc]
  rw [List.getElem?_append_left (by simpa using hi)]
  simp [h]

theorem docVal_block (d : MdDoc) (k : Num) (j : Nat) (ph : Str) (isNew : Bool) (trees : Block)
    (h : d.recipes[j]? = some (ph, isNew, trees)) :
    docVal d k (d.svs.length + j) = blockHtml k ((recipeIdx 0 d.recipes).getD j 0) trees := by
  have hj : j < d.recipes.length := (List.getElem?_eq_some_iff.1 h).1
  unfold docVal docVals docPairs
  simp only [List.map_append, List.map_map, List.getD_eq_getElem?_getD, List.append_assoc]
  rw [List.getElem?_append_right (by simp), List.getElem?_append_left (by simpa [recipePairs_length] using hj)]
  simp [recipePairs_getElem? k d.recipes 0 j ph isNew trees h]

theorem docVal_header (d : MdDoc) (k : Num) (pre post : Str) (h1 : d.hasTitle = true) (h2 : d.prePost = some (pre, post)) :
    docVal d k (d.svs.length + d.recipes.length) = "<header>".toList ∧
    docVal d k (d.svs.length + d.recipes.length + 1) = postTitleText d k ++ "</header>".toList := by
  unfold docVal docVals docPairs headerPairs
  simp only [List.map_append, List.map_map, List.getD_eq_getElem?_getD, h1, h2]
  constructor
  · rw [List.getElem?_append_right (by simp [recipePairs_length])]
    simp [recipePairs_length]
  · rw [List.getElem?_append_right (by simp [recipePairs_length])]
    have : d.svs.length + d.recipes.length + 1 - (d.svs.length + d.recipes.length) = 1 := by omega
    simp [recipePairs_length, this]

-- ================================================================ the text of a rendered value
section
open Svs
def svsPiece (p : Part) : Str := match p with
    | .text t => htmlEscape t
    | .num n => tagBody "span" [("class", S "rg-scaled-value")] (renderNumber n)

theorem renderSvs_eq (s : SVS) : renderSvs s = s.flatMap svsPiece := by
  rfl

theorem flatMap_svsPiece_merge : ∀ ps : List Part, (merge ps).flatMap svsPiece = ps.flatMap svsPiece
  | [] => rfl
  | .num n :: rest => by simp [merge, flatMap_svsPiece_merge rest]
  | .text a :: rest => by
    have ih := flatMap_svsPiece_merge rest
    simp only [merge]
    split
    · rename_i b rest' hm
      rw [hm] at ih
      simp only [List.flatMap_cons] at ih ⊢
      rw [← ih]
      simp [svsPiece, htmlEscape]
    · simp [ih]

theorem flatMap_svsPiece_filter : ∀ l : List Part, (l.filter keep).flatMap svsPiece = l.flatMap svsPiece
  | [] => rfl
  | .num n :: rest => by
    have : keep (.num n) = true := rfl
    simp [this, flatMap_svsPiece_filter rest]
  | .text [] :: rest => by
    have : keep (.text []) = false := rfl
    simp [this, flatMap_svsPiece_filter rest, svsPiece, htmlEscape]
  | .text (c :: cs) :: rest => by
    have : keep (.text (c :: cs)) = true := rfl
    simp [this, flatMap_svsPiece_filter rest]

theorem renderSvs_normalise (ps : List Part) : renderSvs (normalise ps) = ps.flatMap svsPiece := by
  rw [renderSvs_eq, normalise_eq, flatMap_svsPiece_filter, flatMap_svsPiece_merge]
end

-- ================================================================ scaling and the table
theorem Svs.nums_eq (s : SVS) : Svs.nums s = C03.svsNums s := rfl

theorem Svs.scale_nil (k : Num) : Svs.scale k [] = [] := rfl

theorem Svs.shown_scale (k : Num) (s : SVS) : Svs.shown (Svs.scale k s) = (Svs.shown s).map (scaleShown k) := by
  simp [Svs.shown, Svs.nums_eq, C03.svsNums_scale, scaleShown, Function.comp_def]

theorem flatMap_congr' {α β} {f g : α → List β} : ∀ {l : List α}, (∀ x ∈ l, f x = g x) → l.flatMap f = l.flatMap g
  | [], _ => rfl
  | x :: l, h => by
    simp only [List.flatMap_cons]
    rw [h x (by simp), flatMap_congr' (fun y hy => h y (List.mem_cons_of_mem _ hy))]

mutual
theorem layoutAt_scale (k : Num) : ∀ (t : Tree) (p : List Nat) (root : Bool), layoutAt p root (Tree.scale k t) = layoutAt p root t
  | .ingredient d q, p, root => by simp [Tree.scale, layoutAt]
  | .reference s n a, p, root => by simp [Tree.scale, layoutAt]
  | .step d i, p, root => by simp [Tree.scale, layoutAt, layoutInputs_scale k i]
  | .sub b ns sh, p, root => by simp [Tree.scale, layoutAt, layoutAt_scale k b]
theorem layoutInputs_scale (k : Num) : ∀ (ts : List Tree) (p : List Nat) (i : Nat),
    layoutInputs p i (Tree.scaleList k ts) = layoutInputs p i ts
  | [], _, _ => by simp [Tree.scaleList, layoutInputs]
  | t :: ts, p, i => by simp [Tree.scaleList, layoutInputs, layoutAt_scale k t, layoutInputs_scale k ts]
end

theorem layout_scale (k : Num) (t : Tree) : layout (Tree.scale k t) = layout t := layoutAt_scale k t [] true

theorem Tree.at?_scale (k : Num) : ∀ (p : List Nat) (t : Tree), (Tree.scale k t).at? p = (t.at? p).map (Tree.scale k)
  | [], t => by simp [Tree.at?]
  | i :: rest, .ingredient d q => by simp [Tree.scale, Tree.at?]
  | i :: rest, .reference s n a => by simp [Tree.scale, Tree.at?]
  | i :: rest, .step d inputs => by
    simp only [Tree.scale, Tree.at?, Tree.scaleList_eq_map, List.getElem?_map]
    cases h : inputs[i]? with
    | none => simp
    | some c => simpa using Tree.at?_scale k rest c
  | 0 :: rest, .sub b ns sh => by simpa [Tree.scale, Tree.at?] using Tree.at?_scale k rest b
  | (i + 1) :: rest, .sub b ns sh => by simp [Tree.scale, Tree.at?]

theorem subNames_scale (k : Num) (t : Tree) : subNames (Tree.scale k t) = (subNames t).map (Svs.scale k) := by
  cases t <;> simp [Tree.scale, subNames]

theorem Quantity.shown_scale (k : Num) (q : Quantity) : (q.scale k).shown = q.shown.map (scaleShown k) := by
  simp [Quantity.shown, Quantity.scale, scaleShown]

theorem Amount.shown_scale (k : Num) (a : Amount) : (a.scale k).shown = a.shown.map (scaleShown k) := by
  cases a <;> simp [Amount.shown, Amount.scale, Quantity.shown_scale]

theorem cellShown_scale (k : Num) (t : Tree) : cellShown (Tree.scale k t) = (cellShown t).map (scaleShown k) := by
  cases t with
  | ingredient d q =>
    cases q <;> simp [Tree.scale, cellShown, Svs.shown_scale, Quantity.shown_scale]
  | reference s n a =>
    simp only [Tree.scale, cellShown, subNames_scale, List.getElem?_map, List.map_append, Amount.shown_scale]
    cases h : (subNames s)[n]? with
    | none => simp [Svs.shown, Svs.nums]
    | some nm => simp [Svs.shown_scale]
  | step d i => simp [Tree.scale, cellShown, Svs.shown_scale]
  | sub b ns sh =>
    simp [Tree.scale, cellShown, List.flatMap_map, List.map_flatMap, Svs.shown_scale]

/-- the scaled values of the table of the scaled tree are those of the tree's table, each multiplied; same cells, same order -/
theorem tableShown_scale (k : Num) (t : Tree) : tableShown (Tree.scale k t) = (tableShown t).map (scaleShown k) := by
  unfold tableShown
  rw [layout_scale, List.map_flatMap]
  apply flatMap_congr'
  intro row _
  rw [List.map_flatMap]
  apply flatMap_congr'
  intro c _
  rw [Tree.at?_scale, ← cellShown_scale]
  cases (t.at? c.path) <;> rfl

theorem blockShown_scale (k : Num) (trees : List Tree) :
    (Tree.scaleList k trees).flatMap tableShown = (trees.flatMap tableShown).map (scaleShown k) := by
  rw [Tree.scaleList_eq_map, List.flatMap_map, List.map_flatMap]
  apply flatMap_congr'
  intro t _
  exact tableShown_scale k t

theorem holeShown_eq (d : MdDoc) (k : Num) (i : Nat) : holeShown d k i = (holeWritten d i).map (scaleShown k) := by
  unfold holeShown holeWritten
  split
  · exact Svs.shown_scale k _
  · split
    · exact blockShown_scale k _
    · rfl

end RG
