import RecipeGrid.Lemmas.MdCons
import RecipeGrid.Lemmas.MdPrefix
/-! Invariants of the container-aware line tagger (`Model/MdContainers.lean`). -/
namespace RG

/-! ## texts -/

theorem stepNone_text (st : ScanSt) (l : Str) : (stepNone st l).1.text = l := by
  unfold stepNone plainT enter
  repeat' split
  all_goals rfl

theorem stepIn_text (ctx : Ctx) (st : ScanSt) (l : Str) : (stepIn ctx st l).1.text = l := by
  unfold stepIn
  split
  · rfl
  · split
    · rfl
    · exact stepNone_text _ _

theorem step2_text (s : St2) (l : Str) : (step2 s l).1.text = l := by
  unfold step2
  split
  · exact stepNone_text _ _
  · exact stepIn_text _ _ _

theorem tagLines2_text (s : St2) (ls : List Str) : (tagLines2 s ls).map (·.text) = ls := by
  induction ls generalizing s with
  | nil => rfl
  | cons l ls ih => simp [tagLines2, ih, step2_text]

theorem tagDoc2_text (doc : Str) : (tagDoc2 doc).map (·.text) = mdLines (normaliseCrLf doc) := tagLines2_text _ _

/-! ## a container never starts inside a fence -/

theorem stepOutside_not_body (p : Bool) (l : Str) : (stepOutside p l).1.isFenceBody = false := by
  unfold stepOutside
  repeat' split
  all_goals rfl

theorem step_top_not_body (l : Str) : (step .top l).1.isFenceBody = false := stepOutside_not_body false l

theorem stepNone_top_not_body (l : Str) : (stepNone .top l).1.tag.isFenceBody = false := by
  have h0 := step_top_not_body l
  unfold stepNone
  cases htag : (step .top l).1 with
  | para first =>
    simp only
    unfold plainT enter
    repeat' split
    all_goals first | rfl | exact step_top_not_body _
  | fenceBody n => rw [htag] at h0; cases h0
  | _ => rfl

/-! ## what the tags guarantee -/

theorem isCPrefix_nil : isCPrefix [] = true := by decide

theorem isCPrefix_spaces (p : Nat) : isCPrefix (List.replicate p ' ') = true := by
  simp [isCPrefix]

theorem takeWhile_space_replicate (i : Nat) (c : Char) (r : Str) (hc : c ≠ ' ') :
    (List.replicate i ' ' ++ c :: r).takeWhile (· == ' ') = List.replicate i ' ' := by
  induction i with
  | zero => simp [hc]
  | succ i ih => simp [List.replicate_succ, ih]

theorem dropWhile_space_replicate' (i : Nat) (c : Char) (r : Str) (hc : c ≠ ' ') :
    (List.replicate i ' ' ++ c :: r).dropWhile (· == ' ') = c :: r := by
  induction i with
  | zero => simp [hc]
  | succ i ih => simp [List.replicate_succ, ih]

theorem isCPrefix_quote (i : Nat) (hi : i ≤ 3) :
    isCPrefix (List.replicate i ' ' ++ ['>']) = true ∧ isCPrefix (List.replicate i ' ' ++ ['>', ' ']) = true := by
  constructor
  · simp only [isCPrefix, takeWhile_space_replicate i '>' [] (by decide), dropWhile_space_replicate' i '>' [] (by decide),
      List.length_replicate]
    simp [hi]
  · simp only [isCPrefix, takeWhile_space_replicate i '>' [' '] (by decide), dropWhile_space_replicate' i '>' [' '] (by decide),
      List.length_replicate]
    simp [hi]

theorem take_replicate_append (i n : Nat) (r : Str) :
    (List.replicate i ' ' ++ r).take (i + n) = List.replicate i ' ' ++ r.take n := by
  induction i with
  | zero => simp
  | succ i ih => rw [List.replicate_succ, List.cons_append, show i + 1 + n = (i + n) + 1 by omega, List.take_succ_cons, ih]; rfl

theorem quotePrefix_cprefix (l : Str) (p : Nat) (h : quotePrefix? l = some p) (hr : quoteReg l = true) :
    isCPrefix (l.take p) = true := by
  unfold quotePrefix? at h
  unfold quoteReg at hr
  have hsplit := leadSpaces_split l (leadSpaces l) (Nat.le_refl _)
  generalize leadSpaces l = i at h hr hsplit
  split at h
  · cases h
  · rename_i h3
    split at h
    · rename_i c r heq
      rw [heq] at hsplit hr
      simp only [Option.some.injEq] at h
      simp only [Bool.or_eq_true, Bool.not_eq_true', beq_iff_eq] at hr
      by_cases hq : isQuoteWs c = true
      · have hc : c = ' ' := by
          rcases hr with hr | hr
          · rw [hr] at hq; cases hq
          · exact hr
        subst hc
        simp only [hq, if_true] at h
        rw [← h, hsplit, take_replicate_append]
        exact (isCPrefix_quote _ (by omega)).2
      · simp only [hq, Bool.false_eq_true, if_false] at h
        rw [← h, hsplit, take_replicate_append]
        exact (isCPrefix_quote _ (by omega)).1
    · rename_i heq
      rw [heq] at hsplit
      simp only [Option.some.injEq] at h
      rw [← h, hsplit, take_replicate_append]
      exact (isCPrefix_quote _ (by omega)).1
    · cases h

theorem itemPrefix_cprefix (k : Nat) (l : Str) (p : Nat) (h : itemPrefix? k l = some p) :
    isCPrefix (l.take p) = true := by
  have key : p ≤ leadSpaces l := by
    unfold itemPrefix? at h
    split at h
    · simp only [Option.some.injEq] at h; omega
    · split at h
      · simp only [Option.some.injEq] at h; omega
      · cases h
  have hsplit := leadSpaces_split l p key
  have : l.take p = List.replicate p ' ' := by
    conv => lhs; rw [hsplit]
    rw [List.take_left' (by simp)]
  rw [this]
  exact isCPrefix_spaces p

def TagSound2 (t : TLine2) : Prop :=
  TagSound t.inner ∧ (t.ctx = .none → t.pfx = 0) ∧
    (t.reg = true → (t.tag.isFenceBody || t.tag.isCode) = true → isCPrefix (t.text.take t.pfx) = true) ∧
    (t.reg = true → t.ctx ≠ .none → t.text.drop t.pfx ≠ [])

theorem plainT_sound (st : ScanSt) (l : Str) (st' : ScanSt) (reg : Bool) :
    TagSound2 (plainT (step st l).1 l st' reg).1 := by
  refine ⟨?_, fun _ => rfl, fun _ _ => ?_, fun _ h => absurd rfl h⟩
  · simp only [plainT, TLine2.inner, List.drop_zero]
    exact step_sound st l
  · simp only [plainT, List.take_zero]
    exact isCPrefix_nil

theorem enter_quote_sound (l : Str) (p : Nat) (hp : quotePrefix? l = some p) :
    TagSound2 (enter l .quote p (quoteReg l)).1 := by
  refine ⟨?_, (fun h => by cases h), fun hreg _ => ?_, fun hreg _ => ?_⟩
  · simp only [enter, TLine2.inner]
    exact step_sound .top (l.drop p)
  · simp only [enter, Bool.and_eq_true] at hreg
    exact quotePrefix_cprefix l p hp hreg.1
  · simp only [enter, Bool.and_eq_true, Bool.not_eq_true', List.isEmpty_eq_false_iff] at hreg ⊢
    exact hreg.2

theorem enter_item_sound (l : Str) (k p : Nat) (reg : Bool) :
    TagSound2 (enter l (.item k) p (reg && !(step .top (l.drop p)).1.isCode)).1 := by
  refine ⟨?_, (fun h => by cases h), fun hreg hb => ?_, fun hreg _ => ?_⟩
  · simp only [enter, TLine2.inner]
    exact step_sound .top (l.drop p)
  · simp only [enter, Bool.and_eq_true, Bool.not_eq_true'] at hreg hb
    rw [step_top_not_body, hreg.1.2] at hb
    cases hb
  · simp only [enter, Bool.and_eq_true, Bool.not_eq_true', List.isEmpty_eq_false_iff] at hreg ⊢
    exact hreg.2

theorem stepNone_sound (st : ScanSt) (l : Str) : TagSound2 (stepNone st l).1 := by
  unfold stepNone
  cases htag : (step st l).1 with
  | para first =>
    simp only
    rw [← htag]
    split
    · rename_i p hp; exact enter_quote_sound l p hp
    · repeat' split
      all_goals first | exact plainT_sound _ _ _ _ | exact enter_item_sound _ _ _ _
  | _ =>
    simp only
    rw [← htag]
    exact plainT_sound _ _ _ _

theorem lazyReg_ne_nil (l : Str) (h : lazyReg l = true) : l ≠ [] := by
  rintro rfl
  revert h
  decide

theorem stepIn_sound (ctx : Ctx) (hc : ctx ≠ .none) (st : ScanSt) (l : Str) : TagSound2 (stepIn ctx st l).1 := by
  unfold stepIn
  split
  · rename_i p hp
    refine ⟨?_, fun h => absurd h hc, fun hreg _ => ?_, fun hreg _ => ?_⟩
    · simp only [TLine2.inner]
      exact step_sound st (l.drop p)
    · simp only [Bool.and_eq_true] at hreg
      cases ctx with
      | none => exact absurd rfl hc
      | quote => exact quotePrefix_cprefix l p hp hreg.1
      | item k => exact itemPrefix_cprefix k l p hp
    · simp only [Bool.and_eq_true, Bool.not_eq_true', List.isEmpty_eq_false_iff] at hreg ⊢
      exact hreg.2
  · split
    · refine ⟨trivial, fun h => absurd h hc, (fun _ hb => by cases hb), fun hreg _ => ?_⟩
      simp only [List.drop_zero]
      exact lazyReg_ne_nil l hreg
    · exact stepNone_sound _ _

theorem step2_sound (s : St2) (l : Str) : TagSound2 (step2 s l).1 := by
  unfold step2
  split
  · exact stepNone_sound _ _
  · rename_i h; exact stepIn_sound _ h _ _

theorem tagLines2_sound (s : St2) (ls : List Str) : ∀ t ∈ tagLines2 s ls, TagSound2 t := by
  induction ls generalizing s with
  | nil => simp [tagLines2]
  | cons l ls ih =>
    intro t ht
    simp only [tagLines2, List.mem_cons] at ht
    rcases ht with rfl | ht
    · exact step2_sound s l
    · exact ih _ t ht

end RG
