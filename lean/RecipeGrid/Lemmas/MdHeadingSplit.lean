import RecipeGrid.Lemmas.MdHeading
import RecipeGrid.Props.C18b
/-! Vocabulary and helper lemmas of `Props/C18c.lean`: blanks inside a line (`Blank`, `BlankRun`, `OneLine`), quiet lines in front of a
    heading (`QuietDocLine`), and the link between the first-heading model (`Model/MdHeading.lean`) and the serving-split
    characterisation of `Props/C18b.lean` (`headingInfo_of_decoded`). -/
namespace RG
open RG.C18

/-- white space that can stand inside a line -/
def Blank (c : Char) : Prop := isReSpace c = true ∧ c ≠ '\n' ∧ c ≠ '\r'
/-- a non-empty run of blanks -/
def BlankRun (s : Str) : Prop := s ≠ [] ∧ ∀ c ∈ s, Blank c
/-- no line terminator -/
def OneLine (s : Str) : Prop := ∀ c ∈ s, c ≠ '\n' ∧ c ≠ '\r'

instance (c : Char) : Decidable (Blank c) := inferInstanceAs (Decidable (_ ∧ _))
instance (s : Str) : Decidable (BlankRun s) := inferInstanceAs (Decidable (_ ∧ _))
instance (s : Str) : Decidable (OneLine s) := inferInstanceAs (Decidable (∀ c ∈ s, _))

theorem BlankRun.spaceRun {s : Str} (h : BlankRun s) : SpaceRun s := ⟨h.1, fun c hc => (h.2 c hc).1⟩
theorem BlankRun.oneLine {s : Str} (h : BlankRun s) : OneLine s := fun c hc => (h.2 c hc).2
theorem BlankRun.inert {s : Str} (h : BlankRun s) : ∀ c ∈ s, Inert c :=
  fun c hc => isReSpace_inert (h.2 c hc).1 (h.2 c hc).2.1

theorem OneLine.append {a b : Str} (ha : OneLine a) (hb : OneLine b) : OneLine (a ++ b) := by
  intro c hc
  rcases List.mem_append.mp hc with h | h
  · exact ha c h
  · exact hb c h

theorem digits_oneLine {ds : Str} (h : ∀ c ∈ ds, isDigit c = true) : OneLine ds := by
  intro c hc
  have := h c hc
  constructor <;> (intro e; subst e; simp [isDigit] at this)

theorem OneLine.no_nl {s : Str} (h : OneLine s) : '\n' ∉ s := fun hm => (h _ hm).1 rfl
theorem OneLine.no_cr {s : Str} (h : OneLine s) : '\r' ∉ s := fun hm => (h _ hm).2 rfl

/-- the characters of a phrase text on one line are inert -/
theorem phraseText_inert {p : List String} (hp : WfPhrase p) {s : Str} (h : PhraseText p s) (hl : OneLine s) :
    ∀ c ∈ s, Inert c := by
  intro c hc
  rcases (PhraseText_chars hp h).2 c hc with h1 | h1
  · exact letterLike_inert h1
  · exact isReSpace_inert h1 (hl c hc).1

/-- a split whose title part is an escaped text `mkEscape D` is the left-most one when `D` does not end in white space
    nor — for a phrase that "to" extends — in the word "to" -/
theorem leftmost_of_decoded {D s1 phText s2 ds : Str} {p : List String}
    (hsplit : ServingSplit (mkEscape D ++ s1 ++ phText ++ s2 ++ ds ++ []) (mkEscape D) s1 phText s2 ds [])
    (hp : p ∈ Gen.servingPhrases) (hph : PhraseText p phText)
    (hDlast : ∀ c, D.getLast? = some c → isReSpace c = false)
    (hDto : "to" :: p ∈ Gen.servingPhrases → ¬ ∃ D₀ w z, D = D₀ ++ [w] ++ z ∧ isReSpace w = true ∧ CiWord "to".toList z) :
    Leftmost (mkEscape D ++ s1 ++ phText ++ s2 ++ ds ++ []) (mkEscape D) := by
  rw [leftmost_iff_explicit_to hsplit hp hph]
  refine ⟨mkEscape_getLast_not_space D hDlast, ?_⟩
  rintro ⟨hto, pre₀, ws₀, z, he, hws, hz⟩
  apply hDto hto
  -- `z` is two letters, `ws₀` ends in a white-space character
  match z, hz with
  | [t, o], hz =>
    have ht : letterLike t.toNat = true := ciMatches_letterLike (by decide) hz.1
    have ho : letterLike o.toNat = true := ciMatches_letterLike (by decide) hz.2.1
    rcases List.eq_nil_or_concat ws₀ with rfl | ⟨W, w, rfl⟩
    · exact absurd rfl hws.1
    · rw [List.concat_eq_append] at he hws
      have hw : isReSpace w = true := hws.2 w (by simp)
      have e1 : mkEscape D = (pre₀ ++ W ++ [w] ++ [t]) ++ [o] := by rw [he]; simp
      obtain ⟨D1, rfl, e2⟩ := mkEscape_snoc_inv D _ o e1 (fun e => by subst e; simp [letterLike] at ho)
      obtain ⟨D2, rfl, e3⟩ := mkEscape_snoc_inv D1 _ t e2 (fun e => by subst e; simp [letterLike] at ht)
      obtain ⟨D3, rfl, _⟩ := mkEscape_snoc_inv D2 _ w e3 (fun e => by subst e; simp [isReSpace, inTable, Gen.reSpaceRanges, Gen.reSpaceRanges_0] at hw)
      exact ⟨D3, w, [t, o], by simp, hw, hz⟩

/-- the inert suffix of a documented form: blanks, the phrase, blanks, the digits -/
theorem documented_suffix_inert {s1 phText s2 : Str} {ph : List String} (N : Nat) (hp : ph ∈ Gen.servingPhrases)
    (hpt : PhraseText ph phText) (hphline : OneLine phText) (hs1 : BlankRun s1) (hs2 : BlankRun s2) :
    ∀ c ∈ s1 ++ phText ++ s2 ++ natDigits N, Inert c := by
  intro c hc
  simp only [List.mem_append] at hc
  rcases hc with ((h | h) | h) | h
  · exact hs1.inert c h
  · exact phraseText_inert (servingPhrases_wf ph hp).2 hpt hphline c h
  · exact hs2.inert c h
  · exact isDigit_inert (natDigits_isDigit' N c h)

/-- `render_heading` on the text marko renders for a decoded heading text `D` followed by a documented serving suffix -/
theorem headingInfo_of_decoded (D s1 phText s2 : Str) (ph : List String) (N : Nat)
    (hDhead : ∀ c, D.head? = some c → isReSpace c = false)
    (hDlast : ∀ c, D.getLast? = some c → isReSpace c = false)
    (hDto : "to" :: ph ∈ Gen.servingPhrases → ¬ ∃ D₀ w z, D = D₀ ++ [w] ++ z ∧ isReSpace w = true ∧ CiWord "to".toList z)
    (hp : ph ∈ Gen.servingPhrases) (hpt : PhraseText ph phText) (hphline : OneLine phText)
    (hs1 : BlankRun s1) (hs2 : BlankRun s2) :
    headingInfo true 1 (mkEscape (D ++ (s1 ++ phText ++ s2 ++ natDigits N))) [] =
      .scalable D N (mkEscape D ++ s1) (phText ++ s2) := by
  have hdig := natDigits_isDigit' N
  have hdne := natDigits_ne_nil N
  have hsuf := documented_suffix_inert N hp hpt hphline hs1 hs2
  have hesc : mkEscape (D ++ (s1 ++ phText ++ s2 ++ natDigits N)) = mkEscape D ++ s1 ++ phText ++ s2 ++ natDigits N ++ [] := by
    rw [mkEscape_append, mkEscape_of_none _ (fun c hc => (hsuf c hc).not_escaped)]; simp
  have hsplit : ServingSplit (mkEscape D ++ s1 ++ phText ++ s2 ++ natDigits N ++ []) (mkEscape D) s1 phText s2 (natDigits N) [] :=
    ⟨rfl, hs1.spaceRun, ⟨ph, hp, hpt⟩, hs2.spaceRun, hdne, hdig, by intro c hc; cases hc⟩
  have hleft := leftmost_of_decoded hsplit hp hpt hDlast hDto
  have hsearch := (searchServings_eq_some_iff _ _ _ _ _).mpr ⟨phText, s2, [], rfl, hsplit, hleft⟩
  have hplain : Plain (mkEscape D ++ s1 ++ phText ++ s2 ++ natDigits N ++ []) [] := by
    refine ⟨?_, by intro q hq; cases hq⟩
    rw [← hesc]; exact lt_not_mem_mkEscape _
  rw [hesc, headingInfo_plain hplain, hsearch]
  simp only [natOfDigitChars_natDigits]
  rw [hsplit.strip_pre, stripStr_of_ends (mkEscape_head_not_space D hDhead) (mkEscape_getLast_not_space D hDlast),
    unescapeEntities_mkEscape]

deriving instance DecidableEq for TitleInfo

/-- a text of raw characters without `&` decodes to itself -/
theorem decodeInline_raw (T : Str) (h : ∀ c ∈ T, RawChar c ∧ c ≠ '&') : decodeInline T = some T := by
  have h1 := scanInline_raw [] T (fun c hc => (h c hc).1)
  have h2 : htmlUnescape T = T := htmlUnescape_of_no_amp T (fun hm => (h _ hm).2 rfl)
  simp [decodeInline, h1, h2]

theorem inlineClass_plain_no_lt {t r : Str} (h : inlineClass t = .plain r) : '<' ∉ r := by
  simp only [inlineClass] at h
  split at h
  · simp only [InlClass.plain.injEq] at h; rw [← h]; exact lt_not_mem_mkEscape _
  · cases h
  · split at h <;> cases h

theorem firstHeading_plain_no_lt {doc : Str} {level : Nat} {r : Str} (h : firstHeading doc = some (level, .plain r)) : '<' ∉ r := by
  simp only [firstHeading, firstHeadingX] at h
  split at h
  · rename_i l' t' hx
    split at hx
    · cases hx
    · cases hx
    · rename_i lv t hraw
      split at hx
      · rename_i r' hi
        simp only [FirstHeading.heading.injEq] at hx
        simp only [Option.some.injEq, Prod.mk.injEq] at h
        obtain ⟨_, rfl⟩ := hx
        obtain ⟨_, e⟩ := h
        cases e
        exact inlineClass_plain_no_lt hi
      · simp only [FirstHeading.heading.injEq] at hx
        simp only [Option.some.injEq, Prod.mk.injEq] at h
        obtain ⟨_, rfl⟩ := hx
        cases h.2
      · cases hx
  · cases h

/-- a line of the document in front of the heading: on one line, and quiet (blank, plain paragraph text, or indented by
    four or more spaces) -/
def QuietDocLine (l : Str) : Prop := ('\n' ∉ l ∧ '\r' ∉ l) ∧ QuietLine (l ++ ['\n'])
instance (l : Str) : Decidable (QuietDocLine l) := inferInstanceAs (Decidable (_ ∧ _))

theorem hashes_oneLine (j : Nat) : OneLine (hashes j) := by
  intro c hc
  simp only [hashes, List.mem_replicate] at hc
  rw [hc.2]; decide


end RG
