import RecipeGrid.Lemmas.Peg
import RecipeGrid.Lemmas.PegMono
/-! Rule by rule: the generic recogniser on a rule of the generated grammar (`Gen/Grammar.lean`) ends where the hand-written
    parser for that rule (`Model/Parser.lean`) ends.  `body_<rule>` pins the right-nested form of each generated rule
    (checked by `decide` against the generated data: an edit of `grammar.peg` breaks it). -/
namespace RG
namespace Peg
open Parser

theorem body_recipe : Gen.grammarRules.lookup "recipe" = some
    (.cat (.maybe (.rule "sp")) (.cat (.plus (.rule "stmt")) (.rule "eof"))) := by decide

theorem body_stmt : Gen.grammarRules.lookup "stmt" = some
    (.cat (.maybe (.cat (.rule "output_list") (.cat (.maybe (.rule "hsp")) (.cat (.term ":?=") (.maybe (.rule "hsp")))))) (.cat (.rule "ltr_shorthand") (.rule "eol"))) := by decide

theorem body_output_list : Gen.grammarRules.lookup "output_list" = some
    (.cat (.rule "output") (.star (.cat (.maybe (.rule "hsp")) (.cat (.term ",") (.cat (.maybe (.rule "hsp")) (.rule "output")))))) := by decide

theorem body_output : Gen.grammarRules.lookup "output" = some
    (.rule "string") := by decide

theorem body_expr : Gen.grammarRules.lookup "expr" = some
    (.alt (.rule "step") (.alt (.rule "reference") (.cat (.term "\\(") (.cat (.maybe (.rule "sp")) (.cat (.rule "ltr_shorthand") (.cat (.maybe (.rule "sp")) (.term "\\)"))))))) := by decide

theorem body_ltr_shorthand : Gen.grammarRules.lookup "ltr_shorthand" = some
    (.cat (.rule "expr") (.star (.cat (.maybe (.rule "hsp")) (.cat (.term ",") (.cat (.maybe (.rule "hsp")) (.rule "action")))))) := by decide

theorem body_step : Gen.grammarRules.lookup "step" = some
    (.cat (.rule "action") (.cat (.maybe (.rule "hsp")) (.cat (.term "\\(") (.cat (.maybe (.rule "sp")) (.cat (.rule "expr") (.cat (.star (.cat (.maybe (.rule "sp")) (.cat (.term ",") (.cat (.maybe (.rule "sp")) (.rule "expr"))))) (.cat (.maybe (.cat (.maybe (.rule "sp")) (.term ","))) (.cat (.maybe (.rule "sp")) (.term "\\)"))))))))) := by decide

theorem body_action : Gen.grammarRules.lookup "action" = some
    (.rule "string") := by decide

theorem body_reference : Gen.grammarRules.lookup "reference" = some
    (.cat (.maybe (.cat (.alt (.rule "proportion") (.alt (.rule "explicit_quantity") (.rule "implicit_quantity"))) (.maybe (.rule "hsp")))) (.rule "ingredient")) := by decide

theorem body_ingredient : Gen.grammarRules.lookup "ingredient" = some
    (.rule "string") := by decide

theorem body_implicit_quantity : Gen.grammarRules.lookup "implicit_quantity" = some
    (.cat (.rule "number") (.maybe (.cat (.maybe (.rule "hsp")) (.cat (.rule "known_unit") (.maybe (.cat (.rule "hsp") (.rule "preposition"))))))) := by decide

theorem body_explicit_quantity : Gen.grammarRules.lookup "explicit_quantity" = some
    (.cat (.term "\\{") (.cat (.maybe (.rule "hsp")) (.cat (.rule "number") (.cat (.maybe (.cat (.maybe (.rule "hsp")) (.rule "freeform_unit"))) (.cat (.maybe (.rule "hsp")) (.cat (.term "\\}") (.maybe (.cat (.rule "hsp") (.rule "preposition"))))))))) := by decide

theorem body_proportion : Gen.grammarRules.lookup "proportion" = some
    (.alt (.cat (.rule "remainder") (.maybe (.cat (.rule "hsp") (.rule "preposition")))) (.cat (.rule "number") (.alt (.cat (.rule "hsp") (.rule "preposition")) (.alt (.cat (.maybe (.rule "hsp")) (.cat (.term "%") (.maybe (.cat (.rule "hsp") (.rule "preposition"))))) (.cat (.maybe (.rule "hsp")) (.term "\\*")))))) := by decide

theorem body_remainder : Gen.grammarRules.lookup "remainder" = some
    (.term "(?i)(remaining|remainder|rest|left[ \t]*over)\\b") := by decide

theorem body_preposition : Gen.grammarRules.lookup "preposition" = some
    (.term "(?i)of([ \t]+the)?\\b") := by decide

theorem body_known_unit : Gen.grammarRules.lookup "known_unit" = some
    (.term "(?i)(@KNOWN_UNITS@)\\b") := by decide

theorem body_freeform_unit : Gen.grammarRules.lookup "freeform_unit" = some
    (.rule "static_string") := by decide

theorem body_string : Gen.grammarRules.lookup "string" = some
    (.cat (.alt (.rule "naked_string") (.alt (.rule "s_quoted_string") (.alt (.rule "d_quoted_string") (.rule "bracketed_string")))) (.maybe (.cat (.maybe (.rule "hsp")) (.rule "string")))) := by decide

theorem body_static_string : Gen.grammarRules.lookup "static_string" = some
    (.cat (.alt (.rule "naked_string") (.alt (.rule "s_quoted_string") (.rule "d_quoted_string"))) (.maybe (.cat (.maybe (.rule "hsp")) (.rule "static_string")))) := by decide

theorem body_naked_string : Gen.grammarRules.lookup "naked_string" = some
    (.term "[^\"',:=/(){}\\s]([^\"',:=/(){}\n\r]*[^\"',:=/(){}\\s])?") := by decide

theorem body_d_quoted_string : Gen.grammarRules.lookup "d_quoted_string" = some
    (.cat (.term "\"") (.cat (.star (.alt (.cat (.term "\\\\") (.term ".")) (.term "[^\"\n\r]"))) (.term "\""))) := by decide

theorem body_s_quoted_string : Gen.grammarRules.lookup "s_quoted_string" = some
    (.cat (.term "'") (.cat (.star (.alt (.cat (.term "\\\\") (.term ".")) (.term "[^'\n\r]"))) (.term "'"))) := by decide

theorem body_bracketed_string : Gen.grammarRules.lookup "bracketed_string" = some
    (.cat (.term "\\{") (.cat (.star (.alt (.rule "interpolated_number") (.alt (.cat (.term "\\\\") (.term ".")) (.term "[^0-9{}\n\r]")))) (.term "\\}"))) := by decide

theorem body_interpolated_number : Gen.grammarRules.lookup "interpolated_number" = some
    (.rule "number") := by decide

theorem body_number : Gen.grammarRules.lookup "number" = some
    (.alt (.rule "fraction") (.rule "decimal")) := by decide

theorem body_fraction : Gen.grammarRules.lookup "fraction" = some
    (.cat (.maybe (.cat (.term "[0-9]+") (.rule "hsp"))) (.cat (.term "[0-9]+") (.cat (.maybe (.rule "hsp")) (.cat (.term "/") (.cat (.maybe (.rule "hsp")) (.term "0*[1-9][0-9]*")))))) := by decide

theorem body_decimal : Gen.grammarRules.lookup "decimal" = some
    (.term "[0-9]+(\\.[0-9]*)?") := by decide

theorem body_sp : Gen.grammarRules.lookup "sp" = some
    (.term "\\s+") := by decide

theorem body_hsp : Gen.grammarRules.lookup "hsp" = some
    (.term "[ \t]+") := by decide

theorem body_eol : Gen.grammarRules.lookup "eol" = some
    (.alt (.term "[ \t]*[\r\n]\\s*") (.cat (.term "[ \t]*") (.rule "eof"))) := by decide

theorem body_eof : Gen.grammarRules.lookup "eof" = some
    (.notp (.term ".")) := by decide

/-- the generated grammar, run with `f` levels of rule calls -/
abbrev run (t : Array Char) (f : Nat) : String → Nat → PegRes := pegRun Gen.grammarRules T t f

theorem run_succ {t : Array Char} {f : Nat} {name : String} {body : PExpr} (i : Nat)
    (h : Gen.grammarRules.lookup name = some body) : run t (f + 1) name i = pegExpr (run t f) T t body i := by
  show pegRun Gen.grammarRules T t (f + 1) name i = _
  simp only [pegRun, h]

/-- with `f` levels of rule calls, the rule `name` ends where `p` ends, from every position -/
def RuleOk {α} (t : Array Char) (f : Nat) (name : String) (p : P α) : Prop :=
  ∀ s : PState, run t f name s.pos = proj (p t s)

theorem RuleOk.of_body {α} {t : Array Char} {f : Nat} {name : String} {body : PExpr} {p : P α}
    (hb : Gen.grammarRules.lookup name = some body) (h : ∀ s, Ok (run t f) t body p s) : RuleOk t (f + 1) name p := by
  intro s
  rw [run_succ _ hb]
  exact h s

theorem exists_succ {n f : Nat} (h : n + 1 ≤ f) : ∃ g, f = g + 1 ∧ n ≤ g := ⟨f - 1, by omega, by omega⟩

section
variable {call : String → Nat → PegRes} {t : Array Char} {s : PState}

theorem proj_void {α} (p : P α) (t : Array Char) (s : PState) : proj (void p t s) = proj (p t s) := by
  unfold void
  rw [bind_apply]
  cases p t s with
  | none => rfl
  | some r => rfl

/-- a regex whose scanner is the hand-written parser itself -/
theorem Ok.termVoid {α} {re : String} {p : P α} (hT : T re = some (Peg.void p)) (hu : Unif p) :
    Ok call t (.term re) p s :=
  Ok.term hT (unif_void hu) (proj_void p t s).symm

theorem Ok.termSelf {re : String} {p : P Unit} (hT : T re = some p) (hu : Unif p) : Ok call t (.term re) p s :=
  Ok.term hT hu rfl

theorem Ok.lit {re : String} {c : Char} (hT : T re = some (Parser.lit c)) : Ok call t (.term re) (Parser.lit c) s :=
  Ok.term hT (unif_lit c) rfl

/-! ## white space -/

theorem skipMany_spec (p : Char → Bool) {t : Array Char} {i : Nat} {s : Str} (z : Bool) (h : t.toList.drop i = s) :
    skipMany p t ⟨i, z⟩ = some ((), ⟨i + (s.takeWhile p).length, z⟩) := by
  have h' : t.toList.drop i = s.takeWhile p ++ s.dropWhile p := by
    rw [List.takeWhile_append_dropWhile]; exact h
  exact skipMany_run z h' (fun x hx => mem_takeWhile_imp hx) (by
    intro c hc
    have := List.head?_dropWhile_not p s
    rw [hc] at this
    simpa using this)

/-- `[p]*` is `([p]+)?` -/
theorem proj_skipMany (p : Char → Bool) (t : Array Char) (s : PState) :
    proj (skipMany p t s) = match proj (skipMany1 p t s) with
      | .fail => .ok s.pos
      | r => r := by
  obtain ⟨i, z⟩ := s
  rw [skipMany_spec p z rfl, skipMany1_spec p z rfl]
  cases hh : (t.toList.drop i).head?.any p with
  | true => simp
  | false =>
    have : (t.toList.drop i).takeWhile p = [] := by
      cases hd : t.toList.drop i with
      | nil => rfl
      | cons c r => rw [hd] at hh; simp at hh; simp [hh]
    simp [this]

theorem Ok.ohsp (h : ∀ s : PState, call "hsp" s.pos = proj (hsp t s)) : Ok call t (.maybe (.rule "hsp")) Parser.ohsp s := by
  unfold Ok
  simp only [pegExpr]
  rw [h s]
  exact (proj_skipMany isHsp t s).symm

theorem Ok.osp (h : ∀ s : PState, call "sp" s.pos = proj (sp t s)) : Ok call t (.maybe (.rule "sp")) Parser.osp s := by
  unfold Ok
  simp only [pegExpr]
  rw [h s]
  exact (proj_skipMany isReSpace t s).symm

end

theorem rule_hsp (t : Array Char) {f : Nat} (hf : 1 ≤ f) : RuleOk t f "hsp" hsp := by
  obtain ⟨f, rfl, _⟩ := exists_succ hf
  exact RuleOk.of_body body_hsp fun s => Ok.termSelf rfl (unif_skipMany1 _)

theorem rule_sp (t : Array Char) {f : Nat} (hf : 1 ≤ f) : RuleOk t f "sp" sp := by
  obtain ⟨f, rfl, _⟩ := exists_succ hf
  exact RuleOk.of_body body_sp fun s => Ok.termSelf rfl (unif_skipMany1 _)

theorem rule_eof (t : Array Char) {f : Nat} (hf : 1 ≤ f) : RuleOk t f "eof" eof := by
  obtain ⟨f, rfl, _⟩ := exists_succ hf
  refine RuleOk.of_body body_eof fun s => ?_
  have h : Ok (run t f) t (.term ".") anyChar s := Ok.termVoid rfl (unif_sat _)
  unfold Ok at *
  simp only [pegExpr] at *
  rw [h]
  unfold anyChar sat eof
  rcases Nat.lt_or_ge s.pos t.size with hlt | hge
  · rw [Array.getElem?_eq_getElem hlt, if_neg (by omega)]; rfl
  · rw [Array.getElem?_eq_none hge, if_pos hge]; rfl


/-! ## numbers -/

theorem rule_decimal (t : Array Char) {f : Nat} (hf : 1 ≤ f) : RuleOk t f "decimal" decimal := by
  obtain ⟨f, rfl, _⟩ := exists_succ hf
  exact RuleOk.of_body body_decimal fun s => Ok.termVoid rfl unif_decimal

theorem ok_digits {call : String → Nat → PegRes} {t : Array Char} {s : PState} :
    Ok call t (.term "[0-9]+") digits s := Ok.termVoid rfl unif_digits

/-- the last regex of `fraction`: the hand-written parser scans the digits and checks for zero afterwards -/
theorem ok_denominator {β} {call : String → Nat → PegRes} {t : Array Char} {s : PState} (g : Str → β) :
    Ok call t (.term "0*[1-9][0-9]*")
      (digits >>= fun denom => if natOfDigits denom = 0 then fail else pure (g denom)) s := by
  refine Ok.term (scan := denominator) rfl unif_denominator ?_
  unfold denominator
  rw [bind_apply, bind_apply]
  cases digits t s with
  | none => rfl
  | some r =>
    obtain ⟨ds, s1⟩ := r
    by_cases h : natOfDigits ds = 0 <;> simp [h]

theorem rule_fraction (t : Array Char) {f : Nat} (hf : 2 ≤ f) : RuleOk t f "fraction" fraction := by
  obtain ⟨f, rfl, hf'⟩ := exists_succ hf
  have hh := rule_hsp t hf'
  refine RuleOk.of_body body_fraction fun s => ?_
  unfold fraction
  refine Ok.getPos_bind ?_
  refine Ok.bind (Ok.opt (Ok.bind ok_digits fun ds s1 _ => Ok.bind_pure (Ok.rule (hh s1)))) fun integer s1 _ => ?_
  refine Ok.getPos_bind ?_
  refine Ok.bind ok_digits fun numer s2 _ => ?_
  refine Ok.bind (Ok.ohsp hh) fun _ s3 _ => ?_
  refine Ok.bind (Ok.lit rfl) fun _ s4 _ => ?_
  refine Ok.bind (Ok.ohsp hh) fun _ s5 _ => ?_
  exact ok_denominator _

theorem rule_number (t : Array Char) {f : Nat} (hf : 3 ≤ f) : RuleOk t f "number" number := by
  obtain ⟨f, rfl, hf'⟩ := exists_succ hf
  refine RuleOk.of_body body_number fun s => ?_
  exact Ok.orElse (Ok.rule (rule_fraction t hf' s)) (Ok.rule (rule_decimal t (by omega) s))

theorem rule_interpolated_number (t : Array Char) {f : Nat} (hf : 4 ≤ f) : RuleOk t f "interpolated_number" number := by
  obtain ⟨f, rfl, hf'⟩ := exists_succ hf
  exact RuleOk.of_body body_interpolated_number fun s => Ok.rule (rule_number t hf' s)


/-! ## which parsers need a character -/

theorem needs_digits : NeedsChar digits := needs_bind (needs_withText (needs_bind (needs_sat _)))

theorem needs_decimal : NeedsChar decimal := needs_getPos_bind fun _ => needs_bind needs_digits

theorem needs_fraction : NeedsChar fraction := by
  unfold fraction
  refine needs_getPos_bind fun _ => needs_bind_right (mono_opt ?_) fun _ => needs_getPos_bind fun _ => needs_bind needs_digits
  exact mono_bind adv_digits.mono fun _ => mono_bind (adv_skipMany1 _).mono fun _ => mono_pure _

theorem needs_number : NeedsChar number := needs_orElse needs_fraction needs_decimal

theorem needs_escaped : NeedsChar escaped := needs_bind (needs_lit _)

theorem needs_bracketedItem : NeedsChar bracketedItem := by
  unfold bracketedItem
  exact needs_orElse (needs_bind needs_number)
    (needs_orElse (needs_getPos_bind fun _ => needs_bind needs_escaped) (needs_getPos_bind fun _ => needs_bind (needs_sat _)))

/-! ## strings -/

section
variable {call : String → Nat → PegRes} {t : Array Char} {s : PState}

theorem ok_escaped : Ok call t (.cat (.term "\\\\") (.term ".")) escaped s :=
  Ok.bind (Ok.lit rfl) fun _ _ _ => Ok.bind_pure (Ok.termVoid (p := anyChar) rfl (unif_sat _))

end

theorem rule_naked_string (t : Array Char) {f : Nat} (hf : 1 ≤ f) : RuleOk t f "naked_string" nakedString := by
  obtain ⟨f, rfl, _⟩ := exists_succ hf
  exact RuleOk.of_body body_naked_string fun s => Ok.termVoid rfl unif_nakedString

theorem rule_d_quoted_string (t : Array Char) {f : Nat} (hf : 1 ≤ f) :
    RuleOk t f "d_quoted_string" (quotedString '"') := by
  obtain ⟨f, rfl, _⟩ := exists_succ hf
  refine RuleOk.of_body body_d_quoted_string fun s => ?_
  unfold quotedString
  refine Ok.getPos_bind (Ok.bind (Ok.lit rfl) fun _ s1 _ => ?_)
  refine Ok.bind (Ok.many (adv_orElse adv_escaped (adv_sat _)) (needs_orElse needs_escaped (needs_sat _))
    fun s' _ => Ok.orElse ok_escaped (Ok.termVoid rfl (unif_sat _))) fun body s2 _ => ?_
  exact Ok.bind_pure (Ok.lit rfl)

theorem rule_s_quoted_string (t : Array Char) {f : Nat} (hf : 1 ≤ f) :
    RuleOk t f "s_quoted_string" (quotedString '\'') := by
  obtain ⟨f, rfl, _⟩ := exists_succ hf
  refine RuleOk.of_body body_s_quoted_string fun s => ?_
  unfold quotedString
  refine Ok.getPos_bind (Ok.bind (Ok.lit rfl) fun _ s1 _ => ?_)
  refine Ok.bind (Ok.many (adv_orElse adv_escaped (adv_sat _)) (needs_orElse needs_escaped (needs_sat _))
    fun s' _ => Ok.orElse ok_escaped (Ok.termVoid rfl (unif_sat _))) fun body s2 _ => ?_
  exact Ok.bind_pure (Ok.lit rfl)

theorem rule_bracketed_string (t : Array Char) {f : Nat} (hf : 5 ≤ f) :
    RuleOk t f "bracketed_string" bracketedString := by
  obtain ⟨f, rfl, hf'⟩ := exists_succ hf
  have hn := rule_interpolated_number t hf'
  refine RuleOk.of_body body_bracketed_string fun s => ?_
  unfold bracketedString
  refine Ok.getPos_bind (Ok.bind (Ok.lit rfl) fun _ s1 _ => ?_)
  refine Ok.bind (Ok.many adv_bracketedItem needs_bracketedItem fun s' _ => ?_) fun body s2 _ => Ok.bind_pure (Ok.lit rfl)
  unfold bracketedItem
  refine Ok.orElse ?_ (Ok.orElse ?_ ?_)
  · exact Ok.bind_silent (Ok.rule (hn s')) fun a s'' => ⟨_, rfl⟩
  · exact Ok.getPos_bind (Ok.bind_pure ok_escaped)
  · exact Ok.getPos_bind (Ok.bind_pure (Ok.termVoid rfl (unif_sat _)))


theorem Ok.orFail {α} {call : String → Nat → PegRes} {t : Array Char} {s : PState} {e : PExpr} {p : P α}
    (h : Ok call t e p s) : Ok call t e (p <|> fail) s := by
  refine Ok.of_eq h ?_
  rw [orElse_apply]
  cases p t s with
  | none => rfl
  | some r => rfl

/-- `string`: the recursion of `stringF` is the recursion of the rule; one level of rule calls per atom -/
theorem stringF_false_ok (t : Array Char) : ∀ (k f : Nat) (s : PState), t.size - s.pos < k → t.size - s.pos + 6 ≤ f →
    run t f "string" s.pos = proj (stringF false k t s)
  | 0, _, _, hk, _ => by omega
  | k + 1, f, s, hk, hf => by
    obtain ⟨g, rfl, hg⟩ := exists_succ hf
    rw [run_succ _ body_string, stringF_succ]
    show Ok (run t g) t _ _ s
    have hh := rule_hsp t (f := g) (by omega)
    refine Ok.bind ?_ fun first s1 h1 => Ok.bind_pure (Ok.opt ?_)
    · unfold atom
      exact Ok.orElse (Ok.rule (rule_naked_string t (by omega) s))
        (Ok.orElse (Ok.rule (rule_s_quoted_string t (by omega) s))
          (Ok.orElse (Ok.rule (rule_d_quoted_string t (by omega) s)) (Ok.rule (rule_bracketed_string t (by omega) s))))
    · unfold stringMore
      refine Ok.getPos_bind (Ok.bind (Ok.textOf (Ok.ohsp hh)) fun space s2 h2 => Ok.bind_pure (Ok.rule ?_))
      have a1 := adv_atom false _ _ _ _ h1
      have a2 := needs_atom false _ _ _ h1
      have a3 := mono_textOf (mono_skipMany isHsp) _ _ _ _ h2
      exact stringF_false_ok t k g s2 (by omega) (by omega)

theorem stringF_true_ok (t : Array Char) : ∀ (k f : Nat) (s : PState), t.size - s.pos < k → t.size - s.pos + 6 ≤ f →
    run t f "static_string" s.pos = proj (stringF true k t s)
  | 0, _, _, hk, _ => by omega
  | k + 1, f, s, hk, hf => by
    obtain ⟨g, rfl, hg⟩ := exists_succ hf
    rw [run_succ _ body_static_string, stringF_succ]
    show Ok (run t g) t _ _ s
    have hh := rule_hsp t (f := g) (by omega)
    refine Ok.bind ?_ fun first s1 h1 => Ok.bind_pure (Ok.opt ?_)
    · unfold atom
      exact Ok.orElse (Ok.rule (rule_naked_string t (by omega) s))
        (Ok.orElse (Ok.rule (rule_s_quoted_string t (by omega) s))
          (Ok.orFail (Ok.rule (rule_d_quoted_string t (by omega) s))))
    · unfold stringMore
      refine Ok.getPos_bind (Ok.bind (Ok.textOf (Ok.ohsp hh)) fun space s2 h2 => Ok.bind_pure (Ok.rule ?_))
      have a1 := adv_atom true _ _ _ _ h1
      have a2 := needs_atom true _ _ _ h1
      have a3 := mono_textOf (mono_skipMany isHsp) _ _ _ _ h2
      exact stringF_true_ok t k g s2 (by omega) (by omega)

/-- the rule `string` with enough levels for the characters left -/
theorem run_string (t : Array Char) {f : Nat} (s : PState) (hf : t.size - s.pos + 6 ≤ f) :
    run t f "string" s.pos = proj (string false t s) := by
  unfold string
  rw [bind_apply, remaining_apply]
  exact stringF_false_ok t _ f s (by omega) hf

theorem run_static_string (t : Array Char) {f : Nat} (s : PState) (hf : t.size - s.pos + 6 ≤ f) :
    run t f "static_string" s.pos = proj (string true t s) := by
  unfold string
  rw [bind_apply, remaining_apply]
  exact stringF_true_ok t _ f s (by omega) hf

/-- `output`, `action`, `ingredient`: other names for `string` -/
theorem run_output (t : Array Char) {f : Nat} (s : PState) (hf : t.size - s.pos + 7 ≤ f) :
    run t f "output" s.pos = proj (string false t s) := by
  obtain ⟨g, rfl, hg⟩ := exists_succ hf
  rw [run_succ _ body_output]
  exact run_string t s hg

theorem run_action (t : Array Char) {f : Nat} (s : PState) (hf : t.size - s.pos + 7 ≤ f) :
    run t f "action" s.pos = proj (string false t s) := by
  obtain ⟨g, rfl, hg⟩ := exists_succ hf
  rw [run_succ _ body_action]
  exact run_string t s hg

theorem run_ingredient (t : Array Char) {f : Nat} (s : PState) (hf : t.size - s.pos + 7 ≤ f) :
    run t f "ingredient" s.pos = proj (string false t s) := by
  obtain ⟨g, rfl, hg⟩ := exists_succ hf
  rw [run_succ _ body_ingredient]
  exact run_string t s hg

theorem run_freeform_unit (t : Array Char) {f : Nat} (s : PState) (hf : t.size - s.pos + 7 ≤ f) :
    run t f "freeform_unit" s.pos = proj (string true t s) := by
  obtain ⟨g, rfl, hg⟩ := exists_succ hf
  rw [run_succ _ body_freeform_unit]
  exact run_static_string t s hg


/-! ## amounts -/

theorem rule_remainder (t : Array Char) {f : Nat} (hf : 1 ≤ f) : RuleOk t f "remainder" remainder := by
  obtain ⟨f, rfl, _⟩ := exists_succ hf
  exact RuleOk.of_body body_remainder fun s => Ok.termSelf rfl unif_remainder

theorem rule_preposition (t : Array Char) {f : Nat} (hf : 1 ≤ f) : RuleOk t f "preposition" preposition := by
  obtain ⟨f, rfl, _⟩ := exists_succ hf
  exact RuleOk.of_body body_preposition fun s => Ok.termSelf rfl unif_preposition

theorem rule_known_unit (t : Array Char) {f : Nat} (hf : 1 ≤ f) : RuleOk t f "known_unit" knownUnit := by
  obtain ⟨f, rfl, _⟩ := exists_succ hf
  exact RuleOk.of_body body_known_unit fun s => Ok.termSelf rfl unif_knownUnit

section
variable {call : String → Nat → PegRes} {t : Array Char} {s : PState}

theorem ok_hsp_preposition (hh : ∀ s : PState, call "hsp" s.pos = proj (hsp t s))
    (hp : ∀ s : PState, call "preposition" s.pos = proj (preposition t s)) :
    Ok call t (.cat (.rule "hsp") (.rule "preposition")) (hsp >>= fun _ => preposition) s :=
  Ok.bind (Ok.rule (hh s)) fun _ s1 _ => Ok.rule (hp s1)

/-- `(hsp preposition)?` -/
theorem ok_hspPreposition (hh : ∀ s : PState, call "hsp" s.pos = proj (hsp t s))
    (hp : ∀ s : PState, call "preposition" s.pos = proj (preposition t s)) :
    Ok call t (.maybe (.cat (.rule "hsp") (.rule "preposition"))) hspPreposition s :=
  Ok.orPure (Ok.textOf (ok_hsp_preposition hh hp))

end

theorem rule_proportion (t : Array Char) {f : Nat} (hf : 4 ≤ f) : RuleOk t f "proportion" proportion := by
  obtain ⟨f, rfl, hf'⟩ := exists_succ hf
  have hh := rule_hsp t (f := f) (by omega)
  have hp := rule_preposition t (f := f) (by omega)
  refine RuleOk.of_body body_proportion fun s => ?_
  unfold proportion
  refine Ok.orElse ?_ ?_
  · refine Ok.getPos_bind (Ok.bind (Ok.textOf (Ok.rule (rule_remainder t (by omega) s))) fun _ s1 _ => ?_)
    exact Ok.bind_pure (ok_hspPreposition hh hp)
  · refine Ok.bind (Ok.rule (rule_number t hf' s)) fun a s1 _ => ?_
    obtain ⟨off, v⟩ := a
    refine Ok.orElse ?_ (Ok.orElse ?_ ?_)
    · exact Ok.bind_pure (Ok.textOf (ok_hsp_preposition hh hp))
    · refine Ok.bind_pure (Ok.textOf ?_)
      exact Ok.bind (Ok.ohsp hh) fun _ s2 _ => Ok.bind (Ok.lit rfl) fun _ s3 _ => Ok.bind_pure (ok_hspPreposition hh hp)
    · refine Ok.bind_pure (Ok.textOf ?_)
      exact Ok.bind (Ok.ohsp hh) fun _ s2 _ => Ok.lit rfl

theorem rule_implicit_quantity (t : Array Char) {f : Nat} (hf : 4 ≤ f) :
    RuleOk t f "implicit_quantity" implicitQuantity := by
  obtain ⟨f, rfl, hf'⟩ := exists_succ hf
  have hh := rule_hsp t (f := f) (by omega)
  have hp := rule_preposition t (f := f) (by omega)
  refine RuleOk.of_body body_implicit_quantity fun s => ?_
  unfold implicitQuantity
  refine Ok.bind (Ok.rule (rule_number t hf' s)) fun a s1 _ => ?_
  obtain ⟨off, v⟩ := a
  refine Ok.bind_silent (Ok.opt ?_) fun unit s' => ?_
  · refine Ok.bind (Ok.textOf (Ok.ohsp hh)) fun spacing s2 _ => Ok.getPos_bind ?_
    refine Ok.bind (Ok.textOf (Ok.rule (rule_known_unit t (by omega) s2))) fun name s3 _ => ?_
    exact Ok.bind_pure (ok_hspPreposition hh hp)
  · cases unit with
    | none => exact ⟨_, rfl⟩
    | some u => obtain ⟨spacing, u, prep⟩ := u; exact ⟨_, rfl⟩

theorem run_explicit_quantity (t : Array Char) {f : Nat} (s : PState) (hf : t.size - s.pos + 8 ≤ f) :
    run t f "explicit_quantity" s.pos = proj (explicitQuantity t s) := by
  obtain ⟨f, rfl, hf'⟩ := exists_succ hf
  have hh := rule_hsp t (f := f) (by omega)
  have hp := rule_preposition t (f := f) (by omega)
  rw [run_succ _ body_explicit_quantity]
  show Ok (run t f) t _ _ s
  unfold explicitQuantity
  refine Ok.getPos_bind (Ok.bind (Ok.lit rfl) fun _ s1 h1 => Ok.bind (Ok.ohsp hh) fun _ s2 h2 => ?_)
  have a1 := (adv_lit _).mono _ _ _ _ h1
  have a2 := mono_skipMany isHsp _ _ _ _ h2
  refine Ok.bind (Ok.rule (rule_number t (by omega) s2)) fun a s3 h3 => ?_
  obtain ⟨off, v⟩ := a
  have a3 := adv_number.mono _ _ _ _ h3
  refine Ok.bind (Ok.opt ?_) fun unit s4 _ => ?_
  · refine Ok.bind (Ok.textOf (Ok.ohsp hh)) fun spacing s5 h5 => Ok.bind_pure (Ok.rule ?_)
    have a5 := mono_textOf (mono_skipMany isHsp) _ _ _ _ h5
    exact run_freeform_unit t s5 (by omega)
  · refine Ok.bind (Ok.ohsp hh) fun _ s6 _ => Ok.bind (Ok.lit rfl) fun _ s7 _ => ?_
    exact Ok.bind_pure (ok_hspPreposition hh hp)


/-! ## references -/

theorem run_reference (t : Array Char) {f : Nat} (s : PState) (hf : t.size - s.pos + 9 ≤ f) :
    run t f "reference" s.pos = proj (reference t s) := by
  obtain ⟨f, rfl, hf'⟩ := exists_succ hf
  have hh := rule_hsp t (f := f) (by omega)
  rw [run_succ _ body_reference, reference_eq]
  show Ok (run t f) t _ _ s
  refine Ok.bind (Ok.opt (Ok.bind ?_ fun a s1 _ => Ok.bind_pure (Ok.ohsp hh))) fun amount s2 h2 => Ok.bind_pure (Ok.rule ?_)
  · unfold amount
    exact Ok.orElse (Ok.rule (rule_proportion t (by omega) s))
      (Ok.orElse (Ok.rule (run_explicit_quantity t s (by omega))) (Ok.rule (rule_implicit_quantity t (by omega) s)))
  · have a2 := mono_optAmount _ _ _ _ h2
    exact run_ingredient t s2 (by omega)

/-! ## expressions: `expr`, `step`, `ltr_shorthand` call each other; the hand-written `expr` takes fuel -/

/-- `step`, given that the rule `expr` (one level down) agrees with the sub-parser `e` to the right of the start -/
theorem step_ok (t : Array Char) {g : Nat} {e : P AExpr} (he : Mono e) (s : PState) (hg : t.size - s.pos + 8 ≤ g)
    (hexpr : ∀ s' : PState, s.pos < s'.pos → s.pos < t.size → run t g "expr" s'.pos = proj (e t s')) :
    run t (g + 1) "step" s.pos = proj (step e t s) := by
  have hh := rule_hsp t (f := g) (by omega)
  have hs := rule_sp t (f := g) (by omega)
  rw [run_succ _ body_step, step_eq']
  show Ok (run t g) t _ _ s
  refine Ok.bind (Ok.rule (run_action t s (by omega))) fun name s1 h1 => ?_
  have a0 := needs_string false _ _ _ h1
  have a1 := adv_string false _ _ _ _ h1
  refine Ok.bind (Ok.ohsp hh) fun _ s2 h2 => Ok.bind (Ok.lit rfl) fun _ s3 h3 => Ok.bind (Ok.osp hs) fun _ s4 h4 => ?_
  have a2 := mono_ohsp _ _ _ _ h2
  have a3 := adv_lit _ _ _ _ _ h3
  have a4 := mono_osp _ _ _ _ h4
  refine Ok.bind (Ok.rule (hexpr s4 (by omega) a0)) fun first s5 h5 => ?_
  have a5 := he _ _ _ _ h5
  refine Ok.bind (Ok.many (adv_commaExpr he) (needs_commaExpr e) fun s' hs' => ?_) fun rest s6 _ => ?_
  · unfold commaExpr
    refine Ok.bind (Ok.osp hs) fun _ s7 h7 => Ok.bind (Ok.lit rfl) fun _ s8 h8 => Ok.bind (Ok.osp hs) fun _ s9 h9 => ?_
    have a7 := mono_osp _ _ _ _ h7
    have a8 := adv_lit _ _ _ _ _ h8
    have a9 := mono_osp _ _ _ _ h9
    exact Ok.rule (hexpr s9 (by omega) a0)
  · refine Ok.bind (Ok.opt (Ok.bind (Ok.osp hs) fun _ _ _ => Ok.lit rfl)) fun _ s7 _ => ?_
    exact Ok.bind (Ok.osp hs) fun _ s8 _ => Ok.bind_pure (Ok.lit rfl)

/-- `(hsp? "," hsp? name)*` for a rule `name` that is `string` -/
theorem ok_commaStrings {call : String → Nat → PegRes} {t : Array Char} {s : PState} {name : String}
    (hh : ∀ s : PState, call "hsp" s.pos = proj (hsp t s))
    (hn : ∀ s' : PState, s.pos ≤ s'.pos → call name s'.pos = proj (string false t s')) :
    Ok call t (.star (.cat (.maybe (.rule "hsp")) (.cat (.term ",") (.cat (.maybe (.rule "hsp")) (.rule name)))))
      (many commaString) s := by
  refine Ok.many adv_commaString needs_commaString fun s' hs' => ?_
  unfold commaString
  refine Ok.bind (Ok.ohsp hh) fun _ s1 h1 => Ok.bind (Ok.lit rfl) fun _ s2 h2 => Ok.bind (Ok.ohsp hh) fun _ s3 h3 => ?_
  have a1 := mono_ohsp _ _ _ _ h1
  have a2 := adv_lit _ _ _ _ _ h2
  have a3 := mono_ohsp _ _ _ _ h3
  exact Ok.rule (hn s3 (by omega))

/-- `ltr_shorthand`, given that the rule `expr` (one level down) agrees with the sub-parser `e` from the start on -/
theorem ltr_ok (t : Array Char) {g : Nat} {e : P AExpr} (he : Mono e) (s : PState) (hg : t.size - s.pos + 7 ≤ g)
    (hexpr : run t g "expr" s.pos = proj (e t s)) :
    run t (g + 1) "ltr_shorthand" s.pos = proj (ltrShorthand e t s) := by
  have hh := rule_hsp t (f := g) (by omega)
  rw [run_succ _ body_ltr_shorthand, ltrShorthand_eq]
  show Ok (run t g) t _ _ s
  refine Ok.bind (Ok.rule hexpr) fun first s1 h1 => Ok.bind_pure ?_
  have a1 := he _ _ _ _ h1
  exact ok_commaStrings hh fun s' hs' => run_action t s' (by omega)

theorem expr_ok (t : Array Char) : ∀ (k f : Nat) (s : PState), t.size - s.pos < k → 2 * (t.size - s.pos) + 16 ≤ f →
    run t f "expr" s.pos = proj (expr k t s)
  | 0, _, _, hk, _ => by omega
  | k + 1, f, s, hk, hf => by
    obtain ⟨g, rfl, hg⟩ := exists_succ hf
    obtain ⟨g', rfl, hg'⟩ := exists_succ (n := 2 * (t.size - s.pos) + 14) (f := g) (by omega)
    have hs := rule_sp t (f := g' + 1) (by omega)
    have hmono := (adv_expr k).mono
    rw [run_succ _ body_expr, expr_succ]
    show Ok (run t (g' + 1)) t _ _ s
    refine Ok.orElse (Ok.rule ?_) (Ok.orElse (Ok.rule (run_reference t s (by omega))) ?_)
    · exact step_ok t hmono s (by omega) fun s' h1 h2 => expr_ok t k g' s' (by omega) (by omega)
    · refine Ok.bind (Ok.lit rfl) fun _ s1 h1 => Ok.bind (Ok.osp hs) fun _ s2 h2 => ?_
      have a0 := needs_lit _ _ _ _ h1
      have a1 := adv_lit _ _ _ _ _ h1
      have a2 := mono_osp _ _ _ _ h2
      refine Ok.bind (Ok.rule (ltr_ok t hmono s2 (by omega) (expr_ok t k g' s2 (by omega) (by omega)))) fun e s3 _ => ?_
      exact Ok.bind (Ok.osp hs) fun _ s4 _ => Ok.bind_pure (Ok.lit rfl)

/-! ## statements -/

theorem rule_eol (t : Array Char) {f : Nat} (hf : 2 ≤ f) : RuleOk t f "eol" eol := by
  obtain ⟨f, rfl, hf'⟩ := exists_succ hf
  refine RuleOk.of_body body_eol fun s => ?_
  unfold eol
  refine Ok.orElse (Ok.term (scan := eolBreak) rfl unif_eolBreak rfl) ?_
  exact Ok.bind (Ok.termSelf rfl (unif_skipMany _)) fun _ s1 _ => Ok.rule (rule_eof t hf' s1)

theorem run_output_list (t : Array Char) {f : Nat} (s : PState) (hf : t.size - s.pos + 8 ≤ f) :
    run t f "output_list" s.pos = proj (outputList t s) := by
  obtain ⟨f, rfl, hf'⟩ := exists_succ hf
  have hh := rule_hsp t (f := f) (by omega)
  rw [run_succ _ body_output_list, outputList_eq]
  show Ok (run t f) t _ _ s
  refine Ok.bind (Ok.rule (run_output t s (by omega))) fun first s1 h1 => Ok.bind_pure ?_
  have a1 := mono_string false _ _ _ _ h1
  exact ok_commaStrings hh fun s' hs' => run_output t s' (by omega)

theorem run_stmt (t : Array Char) {f : Nat} (s : PState) (hf : 2 * (t.size - s.pos) + 18 ≤ f) :
    run t f "stmt" s.pos = proj (stmt t s) := by
  obtain ⟨g, rfl, hg⟩ := exists_succ hf
  obtain ⟨g', rfl, hg'⟩ := exists_succ (n := 2 * (t.size - s.pos) + 16) (f := g) (by omega)
  have hh := rule_hsp t (f := g' + 1) (by omega)
  rw [run_succ _ body_stmt, stmt_eq]
  show Ok (run t (g' + 1)) t _ _ s
  refine Ok.bind (Ok.opt ?_) fun target s1 h1 => Ok.remaining_bind ?_
  · unfold targetP
    refine Ok.bind (Ok.rule (run_output_list t s (by omega))) fun outputs s2 _ => Ok.bind (Ok.ohsp hh) fun _ s3 _ => ?_
    exact Ok.bind (Ok.termVoid rfl unif_assign) fun named s4 _ => Ok.bind_pure (Ok.ohsp hh)
  · have a1 := mono_opt mono_targetP _ _ _ _ h1
    refine Ok.bind (Ok.rule (ltr_ok t (adv_expr _).mono s1 (by omega) (expr_ok t _ g' s1 (by omega) (by omega))))
      fun e s2 _ => ?_
    exact Ok.bind_pure (Ok.rule (rule_eol t (by omega) s2))

theorem run_recipe (t : Array Char) {f : Nat} (s : PState) (hf : 2 * (t.size - s.pos) + 19 ≤ f) :
    run t f "recipe" s.pos = proj (recipe t s) := by
  obtain ⟨f, rfl, hf'⟩ := exists_succ hf
  have hs := rule_sp t (f := f) (by omega)
  rw [run_succ _ body_recipe, recipe_eq]
  show Ok (run t f) t _ _ s
  refine Ok.bind (Ok.osp hs) fun _ s1 h1 => ?_
  have a1 := mono_osp _ _ _ _ h1
  refine Ok.plus_bind adv_stmt needs_stmt (fun s' hs' => Ok.rule (run_stmt t s' (by omega))) fun a as s' _ => ?_
  exact Ok.bind_pure (Ok.rule (rule_eof t (by omega) s'))

end Peg
end RG
