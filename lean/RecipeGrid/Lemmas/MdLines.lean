import RecipeGrid.Model.MdBlocks
import RecipeGrid.Lemmas.Text
/-! `str.splitlines` on text without carriage returns (`klines` with, `plines` without the terminators), by plain
    structural recursion, and their behaviour under concatenation, leading spaces and a trailing newline. -/
namespace RG

/-- put `pre` in front of the first line -/
def attachPre (pre : Str) : List Str → List Str
  | [] => if pre.isEmpty then [] else [pre]
  | x :: xs => (pre ++ x) :: xs

/-- `str.splitlines(keepends=True)` for a text without `"\r"` -/
def klines : Str → List Str
  | [] => []
  | c :: rest => if isLineBreak c then [c] :: klines rest else attachPre [c] (klines rest)

/-- `str.splitlines()` for a text without `"\r"` -/
def plines : Str → List Str
  | [] => []
  | c :: rest => if isLineBreak c then [] :: plines rest else attachPre [c] (plines rest)

theorem attachPre_nil (xs : List Str) : attachPre [] xs = xs := by
  cases xs <;> simp [attachPre]

theorem attachPre_attachPre (a b : Str) (xs : List Str) : attachPre a (attachPre b xs) = attachPre (a ++ b) xs := by
  cases xs with
  | nil =>
    by_cases hb : b = []
    · subst hb; simp [attachPre]
    · simp [attachPre, hb]
  | cons x xs => simp [attachPre]

theorem attachPre_append (a : Str) (xs ys : List Str) (h : xs ≠ []) : attachPre a (xs ++ ys) = attachPre a xs ++ ys := by
  cases xs with
  | nil => contradiction
  | cons x xs => simp [attachPre]

theorem attachPre_ne_nil (a : Str) (xs : List Str) (h : a ≠ []) : attachPre a xs ≠ [] := by
  cases xs <;> simp [attachPre, h]

theorem attachPre_length (a : Str) (xs : List Str) (h : xs ≠ []) : (attachPre a xs).length = xs.length := by
  cases xs with
  | nil => contradiction
  | cons x xs => simp [attachPre]

/-- pointwise relation of two lists (core has no `List.Forall₂`) -/
inductive Forall2 {α β : Type} (R : α → β → Prop) : List α → List β → Prop
  | nil : Forall2 R [] []
  | cons {a b as bs} : R a b → Forall2 R as bs → Forall2 R (a :: as) (b :: bs)

theorem Forall2.length_eq {α β : Type} {R : α → β → Prop} {as : List α} {bs : List β} (h : Forall2 R as bs) :
    as.length = bs.length := by
  induction h with
  | nil => rfl
  | cons _ _ ih => simp [ih]

theorem Forall2.append {α β : Type} {R : α → β → Prop} {as cs : List α} {bs ds : List β}
    (h : Forall2 R as bs) (h' : Forall2 R cs ds) : Forall2 R (as ++ cs) (bs ++ ds) := by
  induction h with
  | nil => exact h'
  | cons hab _ ih => exact .cons hab ih

theorem Forall2.get {α β : Type} {R : α → β → Prop} {as : List α} {bs : List β} (h : Forall2 R as bs)
    (j : Nat) (a : α) (ha : as[j]? = some a) : ∃ b, bs[j]? = some b ∧ R a b := by
  induction h generalizing j with
  | nil => simp at ha
  | cons hab _ ih =>
    cases j with
    | zero => simp at ha; subst ha; exact ⟨_, by simp, hab⟩
    | succ j => simp at ha; simpa using ih j ha

/-! ## relation to the model's `splitLinesKeep` / `splitLines` -/

theorem splitLinesKeepAux_cons_noCR (cur : Str) (c : Char) (rest : Str) (hc : c ≠ '\r') :
    splitLinesKeepAux cur (c :: rest) =
      if isLineBreak c then (c :: cur).reverse :: splitLinesKeepAux [] rest else splitLinesKeepAux (c :: cur) rest := by
  rw [splitLinesKeepAux.eq_3 _ _ _ (by intro r h _; exact hc h)]

theorem splitLinesKeepAux_eq_klines (cur s : Str) (h : '\r' ∉ s) :
    splitLinesKeepAux cur s = attachPre cur.reverse (klines s) := by
  induction s generalizing cur with
  | nil =>
    simp only [splitLinesKeepAux, klines, attachPre]
    cases cur <;> simp
  | cons c rest ih =>
    have hc : c ≠ '\r' := by intro e; subst e; simp at h
    have hr : '\r' ∉ rest := by intro e; exact h (List.mem_cons_of_mem _ e)
    rw [splitLinesKeepAux_cons_noCR _ _ _ hc, klines]
    split
    · rw [ih [] hr, List.reverse_nil, attachPre_nil]; simp [attachPre]
    · rw [ih _ hr, attachPre_attachPre]; simp

theorem splitLinesKeep_eq_klines (s : Str) (h : '\r' ∉ s) : splitLinesKeep s = klines s := by
  rw [splitLinesKeep, splitLinesKeepAux_eq_klines [] s h]; simp [attachPre_nil]

theorem lineShape_cons (c : Char) (x y : Str) (hc : isLineBreak c = false) (h : LineShape x y) :
    LineShape (c :: x) (c :: y) := by
  obtain ⟨hb, h⟩ := h
  refine ⟨?_, ?_⟩
  · intro c' hc'
    rcases List.mem_cons.1 hc' with rfl | hc'
    · exact hc
    · exact hb _ hc'
  · rcases h with h | h | ⟨t, ht, h⟩
    · exact Or.inl (by rw [h])
    · exact Or.inr (Or.inl (by rw [h]; simp))
    · exact Or.inr (Or.inr ⟨t, ht, by rw [h]; simp⟩)

theorem klines_plines_shape (s : Str) : Forall2 LineShape (klines s) (plines s) := by
  induction s with
  | nil => exact .nil
  | cons c rest ih =>
    simp only [klines, plines]
    split
    · rename_i hc
      exact .cons ⟨by simp, Or.inr (Or.inr ⟨c, hc, by simp⟩)⟩ ih
    · rename_i hc
      have hc' : isLineBreak c = false := by simpa using hc
      generalize klines rest = ks at ih
      generalize plines rest = ps at ih
      cases ih with
      | nil => simp only [attachPre]; exact .cons ⟨by simpa using hc', Or.inl rfl⟩ .nil
      | cons hxy ht =>
        simp only [attachPre]
        exact .cons (lineShape_cons c _ _ hc' hxy) ht

theorem map_dropTerminator_klines (s : Str) : (klines s).map dropTerminator = plines s := by
  have h := klines_plines_shape s
  generalize klines s = ks at h
  generalize plines s = ps at h
  induction h with
  | nil => rfl
  | cons hxy _ ih => simp only [List.map_cons, ih, dropTerminator_of_shape _ _ hxy]

theorem splitLines_eq_plines (s : Str) (h : '\r' ∉ s) : splitLines s = plines s := by
  rw [splitLines, splitLinesKeep_eq_klines s h, map_dropTerminator_klines]

theorem klines_length (s : Str) : (klines s).length = (plines s).length := by
  rw [← map_dropTerminator_klines]; simp

theorem klines_flatten (s : Str) : (klines s).flatten = s := by
  induction s with
  | nil => rfl
  | cons c rest ih =>
    simp only [klines]
    split
    · simp [ih]
    · generalize klines rest = ks at ih
      cases ks with
      | nil => simp [attachPre] at ih ⊢; exact ih
      | cons x xs => simp [attachPre] at ih ⊢; exact ih

theorem klines_ne_nil_mem (s : Str) : ∀ l ∈ klines s, l ≠ [] := by
  induction s with
  | nil => simp [klines]
  | cons c rest ih =>
    simp only [klines]
    split
    · intro l hl
      rcases List.mem_cons.1 hl with rfl | hl
      · simp
      · exact ih l hl
    · generalize klines rest = ks at ih
      cases ks with
      | nil => simp [attachPre]
      | cons x xs =>
        intro l hl
        simp only [attachPre, List.mem_cons] at hl
        rcases hl with rfl | hl
        · simp
        · exact ih l (List.mem_cons_of_mem _ hl)

theorem klines_eq_nil (s : Str) : klines s = [] ↔ s = [] := by
  constructor
  · intro h; have := klines_flatten s; rw [h] at this; simpa using this.symm
  · intro h; subst h; rfl

theorem plines_eq_nil (s : Str) : plines s = [] ↔ s = [] := by
  rw [← klines_eq_nil, ← List.length_eq_zero_iff, ← List.length_eq_zero_iff, klines_length]

/-! ## concatenation after a line break -/

theorem klines_append_break (a : Str) (c : Char) (b : Str) (hc : isLineBreak c = true) :
    klines (a ++ c :: b) = klines (a ++ [c]) ++ klines b := by
  induction a with
  | nil => simp [klines, hc]
  | cons x a ih =>
    simp only [List.cons_append, klines]
    split
    · simp [ih]
    · rw [ih, attachPre_append]
      rw [Ne, klines_eq_nil]; simp

theorem plines_append_break (a : Str) (c : Char) (b : Str) (hc : isLineBreak c = true) :
    plines (a ++ c :: b) = plines (a ++ [c]) ++ plines b := by
  induction a with
  | nil => simp [plines, hc]
  | cons x a ih =>
    simp only [List.cons_append, plines]
    split
    · simp [ih]
    · rw [ih, attachPre_append]
      rw [Ne, plines_eq_nil]; simp

/-! ## leading spaces -/

theorem plines_spaces (p : Nat) (m : Str) :
    plines (List.replicate p ' ' ++ m) = attachPre (List.replicate p ' ') (plines m) := by
  induction p with
  | zero => simp [attachPre_nil]
  | succ p ih =>
    simp only [List.replicate_succ, List.cons_append, plines, isLineBreak_space, ih, attachPre_attachPre]
    simp

/-! ## a newline added at the end -/

/-- the text is empty or ends with a line-break character -/
def endsBreak (s : Str) : Bool :=
  match s.getLast? with
  | none => true
  | some c => isLineBreak c

theorem endsBreak_cons (c : Char) (s : Str) (h : s ≠ []) : endsBreak (c :: s) = endsBreak s := by
  cases s with
  | nil => contradiction
  | cons d s => simp [endsBreak, List.getLast?_cons_cons]

theorem plines_snoc_nl (x : Str) :
    plines (x ++ ['\n']) = plines x ++ (if endsBreak x then [[]] else []) := by
  induction x with
  | nil => simp [plines, endsBreak, isLineBreak_lf]
  | cons c x ih =>
    simp only [List.cons_append, plines]
    split
    · rename_i hc
      rw [ih]
      by_cases hx : x = []
      · subst hx; simp [endsBreak, hc, plines]
      · rw [endsBreak_cons _ _ hx]; simp
    · rename_i hc
      rw [ih]
      by_cases hx : x = []
      · subst hx; simp [endsBreak, hc, plines, attachPre]
      · rw [endsBreak_cons _ _ hx, attachPre_append]
        rwa [Ne, plines_eq_nil]

end RG
