import RecipeGrid.Lemmas.Fold
import RecipeGrid.Props.C07
import RecipeGrid.Props.C08b
/-! Helper lemmas for `Props/C07b.lean` (documented outcomes of `compile`) and `Props/C01b.lean` (the inlining pass
    refines the by-name folding).  Nothing here is a specification. -/
namespace RG
open C01

-- ================================================================ Part A: where errors come from

/-- parsing fails only with a syntax error, in a block of the input -/
theorem parseAll_error_syntax : ∀ (srcs : List Str) (i : Nat) (e : CompileResult), parseAll i srcs = .error e →
    ∃ b, e = .syntaxError b ∧ i ≤ b ∧ b < i + srcs.length
  | [], i, e, h => by rw [parseAll_nil] at h; cases h
  | s :: ss, i, e, h => by
    rw [parseAll_cons] at h
    cases hp : parse s with
    | syntaxError => rw [hp] at h; cases h; exact ⟨i, rfl, Nat.le_refl _, by simp⟩
    | zeroDivision => exact absurd hp (C07.parse_never_zeroDivision s)
    | ok stmts =>
      rw [hp] at h
      simp only [] at h
      cases hr : parseAll (i + 1) ss with
      | error e' =>
        rw [hr] at h
        cases h
        obtain ⟨b, hb, h1, h2⟩ := parseAll_error_syntax ss (i + 1) _ hr
        exact ⟨b, hb, by omega, by simp only [List.length_cons]; omega⟩
      | ok rest => rw [hr] at h; cases h

/-- a successful `parseAll` parses every block -/
theorem parseAll_ok : ∀ (srcs : List Str) (i : Nat) (asts : List (List AStmt)), parseAll i srcs = .ok asts →
    asts.length = srcs.length ∧ ∀ (k : Nat) (s : Str), srcs[k]? = some s → ∃ a, asts[k]? = some a ∧ parse s = .ok a
  | [], i, asts, h => by rw [parseAll_nil] at h; cases h; simp
  | s :: ss, i, asts, h => by
    rw [parseAll_cons] at h
    cases hp : parse s with
    | syntaxError => rw [hp] at h; cases h
    | zeroDivision => rw [hp] at h; cases h
    | ok stmts =>
      rw [hp] at h
      simp only [] at h
      cases hr : parseAll (i + 1) ss with
      | error e' => rw [hr] at h; cases h
      | ok rest =>
        rw [hr] at h
        cases h
        obtain ⟨hl, hk⟩ := parseAll_ok ss (i + 1) rest hr
        refine ⟨by simp [hl], ?_⟩
        intro k s' hs'
        cases k with
        | zero => simp at hs'; subst hs'; exact ⟨stmts, by simp, hp⟩
        | succ k => simp at hs'; simpa using hk k s' hs'

-- ---------------------------------------------------------------- where the reported offsets come from
mutual
/-- the offsets of the proportions written in an expression -/
def AExpr.propOffsets : AExpr → List Nat
  | .step _ inputs => AExpr.propOffsetsList inputs
  | .ref _ (some (.prop off _ _ _ _)) => [off]
  | .ref _ _ => []
def AExpr.propOffsetsList : List AExpr → List Nat
  | [] => []
  | e :: es => e.propOffsets ++ AExpr.propOffsetsList es
end

/-- the offsets a statement can be rejected at: its proportions and its written output names -/
def AStmt.errOffsets (s : AStmt) : List Nat := s.expr.propOffsets ++ (s.outputs.getD []).map AString.offset

mutual
theorem compileExpr_error (block : Nat) : ∀ (e : AExpr) (st : CState) (err : StmtErr),
    compileExpr block st e = .error err → ∃ off ∈ e.propOffsets, err = .proportion off
  | .step name inputs, st, err, h => by
    rw [compileExpr] at h
    cases hs : compileExprs block st inputs with
    | error e' =>
      rw [hs] at h
      cases h
      simpa [AExpr.propOffsets] using compileExprs_error block inputs st _ hs
    | ok p => rw [hs] at h; cases h
  | .ref name amount, st, err, h => by
    simp only [compileExpr] at h
    split at h
    · cases h
    · split at h
      · cases h; exact ⟨_, by simp [AExpr.propOffsets], rfl⟩
      · cases h
      · cases h
theorem compileExprs_error (block : Nat) : ∀ (es : List AExpr) (st : CState) (err : StmtErr),
    compileExprs block st es = .error err → ∃ off ∈ AExpr.propOffsetsList es, err = .proportion off
  | [], st, err, h => by rw [compileExprs] at h; cases h
  | e :: es, st, err, h => by
    rw [compileExprs] at h
    cases h1 : compileExpr block st e with
    | error e' =>
      rw [h1] at h; cases h
      obtain ⟨off, ho, he⟩ := compileExpr_error block e st _ h1
      exact ⟨off, by simp [AExpr.propOffsetsList, ho], he⟩
    | ok p =>
      obtain ⟨t, st1⟩ := p
      rw [h1] at h
      simp only [Except.ok_bind] at h
      cases h2 : compileExprs block st1 es with
      | error e' =>
        rw [h2] at h; cases h
        obtain ⟨off, ho, he⟩ := compileExprs_error block es st1 _ h2
        exact ⟨off, by simp [AExpr.propOffsetsList, ho], he⟩
      | ok q => rw [h2] at h; cases h
end

theorem registerOutputs_error (block : Nat) (sub : Tree) (unwrap : Bool) (asts : Option (List AString)) :
    ∀ (names : List SVS) (st : CState) (i : Nat) (err : StmtErr),
    registerOutputs block sub unwrap asts st i names = .error err →
    (∃ a ∈ asts.getD [], err = .redefined a.offset) ∨ ∃ why, err = .internal why
  | [], st, i, err, h => by simp [registerOutputs] at h
  | n :: ns, st, i, err, h => by
    simp only [registerOutputs] at h
    split at h
    · split at h
      · split at h
        · rename_i l a ha
          cases h
          exact Or.inl ⟨a, by simpa using List.mem_of_getElem? ha, rfl⟩
        · cases h; exact Or.inr ⟨_, rfl⟩
      · cases h; exact Or.inr ⟨_, rfl⟩
    · exact registerOutputs_error block sub unwrap asts ns _ _ err h

theorem compileStmt_error (block : Nat) (st : CState) (s : AStmt) (err : StmtErr)
    (h : compileStmt block st s = .error err) :
    (∃ off ∈ s.errOffsets, err = .proportion off ∨ err = .redefined off) ∨ ∃ why, err = .internal why := by
  rw [compileStmt_eq] at h
  cases he : compileExpr block st s.expr with
  | error e' =>
    rw [he] at h; cases h
    obtain ⟨off, ho, hp⟩ := compileExpr_error block _ st _ he
    exact Or.inl ⟨off, by simp [AStmt.errOffsets, ho], Or.inl hp⟩
  | ok p =>
    obtain ⟨tree, st1⟩ := p
    rw [he] at h
    simp only [Except.ok_bind, nameStmt] at h
    have key : ∀ (sub : Tree) (names : List SVS) (f : CState → Except StmtErr (Tree × CState)),
        (∀ x, ∃ y, f x = .ok y) →
        (registerOutputs block sub (!s.named) s.outputs st1 0 names >>= f) = .error err →
        (∃ off ∈ s.errOffsets, err = .proportion off ∨ err = .redefined off) ∨ ∃ why, err = .internal why := by
      intro sub names f hf hr
      cases hreg : registerOutputs block sub (!s.named) s.outputs st1 0 names with
      | error e' =>
        rw [hreg] at hr; cases hr
        rcases registerOutputs_error block sub _ _ names st1 0 _ hreg with ⟨a, ha, hx⟩ | hx
        · refine Or.inl ⟨a.offset, ?_, Or.inr hx⟩
          simp only [AStmt.errOffsets, List.mem_append, List.mem_map]
          exact Or.inr ⟨a, ha, rfl⟩
        · exact Or.inr hx
      | ok x =>
        rw [hreg] at hr
        obtain ⟨y, hy⟩ := hf x
        simp only [Except.ok_bind, hy] at hr
        cases hr
    split at h
    · exact key _ _ _ (fun x => ⟨_, rfl⟩) h
    · split at h
      · exact key _ _ _ (fun x => ⟨_, rfl⟩) h
      · cases h

theorem compileStmts_error (block : Nat) : ∀ (ss : List AStmt) (st : CState) (err : StmtErr),
    compileStmts block st ss = .error err →
    (∃ s ∈ ss, ∃ off ∈ s.errOffsets, err = .proportion off ∨ err = .redefined off) ∨ ∃ why, err = .internal why
  | [], st, err, h => by rw [compileStmts] at h; cases h
  | s :: ss, st, err, h => by
    rw [compileStmts] at h
    cases h1 : compileStmt block st s with
    | error e' =>
      rw [h1] at h; cases h
      rcases compileStmt_error block st s _ h1 with ⟨off, ho, hx⟩ | hx
      · exact Or.inl ⟨s, by simp, off, ho, hx⟩
      · exact Or.inr hx
    | ok p =>
      obtain ⟨t, st1⟩ := p
      rw [h1] at h
      simp only [Except.ok_bind] at h
      cases h2 : compileStmts block st1 ss with
      | error e' =>
        rw [h2] at h; cases h
        rcases compileStmts_error block ss st1 _ h2 with ⟨s', hs', hx⟩ | hx
        · exact Or.inl ⟨s', by simp [hs'], hx⟩
        · exact Or.inr hx
      | ok q => rw [h2] at h; cases h

/-- an error of elaboration is located in a statement of the reported block -/
theorem compileBlocks_error : ∀ (bs : List (List AStmt)) (i : Nat) (st : CState) (e : CompileResult),
    compileBlocks i st bs = .error e →
    (∃ b off, (e = .proportion b off ∨ e = .redefined b off) ∧ i ≤ b ∧
        ∃ ss, bs[b - i]? = some ss ∧ ∃ s ∈ ss, off ∈ s.errOffsets) ∨ ∃ why, e = .internal why
  | [], i, st, e, h => by rw [compileBlocks] at h; cases h
  | b :: bs, i, st, e, h => by
    rw [compileBlocks_cons] at h
    cases h1 : compileStmts i st b with
    | error e' =>
      rw [h1] at h
      simp only at h
      cases h
      rcases compileStmts_error i b st _ h1 with ⟨s, hs, off, ho, hx⟩ | ⟨why, hx⟩
      · refine Or.inl ⟨i, off, ?_, Nat.le_refl _, b, by simp, s, hs, ho⟩
        rcases hx with hx | hx <;> rw [hx] <;> simp [liftErr]
      · exact Or.inr ⟨why, by rw [hx]; rfl⟩
    | ok p =>
      obtain ⟨trees, st1⟩ := p
      rw [h1] at h
      simp only at h
      cases h2 : compileBlocks (i + 1) st1 bs with
      | error e' =>
        rw [h2] at h
        simp only at h
        cases h
        rcases compileBlocks_error bs (i + 1) st1 _ h2 with ⟨b', off, hx, hle, ss, hss, hs⟩ | hx
        · refine Or.inl ⟨b', off, hx, by omega, ss, ?_, hs⟩
          have : b' - i = (b' - (i + 1)) + 1 := by omega
          rw [this]; simpa using hss
        · exact Or.inr hx
      | ok q => rw [h2] at h; cases h

-- ================================================================ Part B: the `unwrap` flags of the table
mutual
theorem compileExpr_unwrap (block : Nat) : ∀ (e : AExpr) (st : CState) (t : Tree) (st' : CState),
    compileExpr block st e = .ok (t, st') → st'.outputs.map (·.unwrap) = st.outputs.map (·.unwrap)
  | .step name inputs, st, t, st', h => by
    rw [compileExpr] at h
    cases hs : compileExprs block st inputs with
    | error e' => rw [hs] at h; cases h
    | ok p =>
      obtain ⟨ts, st1⟩ := p
      rw [hs] at h
      cases h
      exact compileExprs_unwrap block inputs st ts _ hs
  | .ref name amount, st, t, st', h => by
    simp only [compileExpr] at h
    split at h
    · cases h
      simp only [List.map_map]
      apply List.map_congr_left
      intro o _
      simp only [Function.comp_def]
      split <;> rfl
    · split at h
      · cases h
      · cases h; rfl
      · cases h; rfl
theorem compileExprs_unwrap (block : Nat) : ∀ (es : List AExpr) (st : CState) (ts : List Tree) (st' : CState),
    compileExprs block st es = .ok (ts, st') → st'.outputs.map (·.unwrap) = st.outputs.map (·.unwrap)
  | [], st, ts, st', h => by rw [compileExprs] at h; cases h; rfl
  | e :: es, st, ts, st', h => by
    rw [compileExprs] at h
    cases h1 : compileExpr block st e with
    | error e' => rw [h1] at h; cases h
    | ok p =>
      obtain ⟨t, st1⟩ := p
      rw [h1] at h
      simp only [Except.ok_bind] at h
      cases h2 : compileExprs block st1 es with
      | error e' => rw [h2] at h; cases h
      | ok q =>
        obtain ⟨ts2, st2⟩ := q
        rw [h2] at h
        cases h
        rw [compileExprs_unwrap block es st1 ts2 _ h2, compileExpr_unwrap block e st t st1 h1]
end

theorem registerOutputs_unwrap (block : Nat) (sub : Tree) (unwrap : Bool) (asts : Option (List AString)) :
    ∀ (names : List SVS) (st : CState) (i : Nat) (st' : CState),
    registerOutputs block sub unwrap asts st i names = .ok st' →
    st'.outputs.map (·.unwrap) = st.outputs.map (·.unwrap) ++ List.replicate names.length unwrap
  | [], st, i, st', h => by simp [registerOutputs] at h; subst h; simp
  | n :: ns, st, i, st', h => by
    simp only [registerOutputs] at h
    split at h
    · split at h
      · split at h <;> cases h
      · cases h
    · rw [registerOutputs_unwrap block sub unwrap asts ns _ _ st' h]
      simp [List.replicate_succ]

theorem compileStmt_unwrap (block : Nat) (st : CState) (s : AStmt) (t : Tree) (st' : CState)
    (h : compileStmt block st s = .ok (t, st')) :
    ∃ m, st'.outputs.map (·.unwrap) = st.outputs.map (·.unwrap) ++ List.replicate m (!s.named) := by
  rw [compileStmt_eq] at h
  cases he : compileExpr block st s.expr with
  | error e' => rw [he] at h; cases h
  | ok p =>
    obtain ⟨tree, st1⟩ := p
    rw [he] at h
    have h1 := compileExpr_unwrap block _ st tree st1 he
    simp only [Except.ok_bind, nameStmt] at h
    have key : ∀ (sub : Tree) (names : List SVS) (f : CState → Except StmtErr (Tree × CState)),
        (∀ x y, f x = .ok y → y.2 = x) →
        (registerOutputs block sub (!s.named) s.outputs st1 0 names >>= f) = .ok (t, st') →
        ∃ m, st'.outputs.map (·.unwrap) = st.outputs.map (·.unwrap) ++ List.replicate m (!s.named) := by
      intro sub names f hf hr
      cases hreg : registerOutputs block sub (!s.named) s.outputs st1 0 names with
      | error e' => rw [hreg] at hr; cases hr
      | ok x =>
        rw [hreg] at hr
        simp only [Except.ok_bind] at hr
        have := hf x _ hr
        simp only at this
        subst this
        exact ⟨names.length, by rw [registerOutputs_unwrap block sub _ _ names st1 0 _ hreg, h1]⟩
    split at h
    · exact key _ _ _ (fun x y hy => by cases hy; rfl) h
    · split at h
      · exact key _ _ _ (fun x y hy => by cases hy; rfl) h
      · cases h; exact ⟨0, by simp [h1]⟩

/-- the `unwrap` flag of every table entry is the negated `:=` flag (`nm`) of the defining statement -/
def UnwrapIs (nm : List Bool) (st : CState) (done : List NStmt) : Prop :=
  st.outputs.map (·.unwrap) = (definedNames done).map (fun d => !(nm[d.2.1]?.getD false))

theorem stmt_unwrap {block : Nat} {st : CState} {done : List NStmt} {nm : List Bool} (hI : Inv st done)
    (hU : UnwrapIs nm st done) (hl : nm.length = done.length) (s : AStmt) (n : NStmt)
    (hs : Spec.stmt done block s = .ok n) (t : Tree) (st' : CState) (hc : compileStmt block st s = .ok (t, st')) :
    Inv st' (done ++ [n]) ∧ UnwrapIs (nm ++ [s.named]) st' (done ++ [n]) := by
  have hsim := stmt_sim (block := block) hI s
  rw [hs] at hsim
  obtain ⟨a, ha, _, hI', _⟩ := hsim
  rw [hc] at ha
  cases ha
  refine ⟨hI', ?_⟩
  obtain ⟨m, hm⟩ := compileStmt_unwrap block st s t st' hc
  have hlen1 : st.outputs.length = (definedNames done).length := by simpa using congrArg List.length hI.table
  have hlen2 : st'.outputs.length = (definedNames (done ++ [n])).length := by
    simpa using congrArg List.length hI'.table
  have hm' : m = n.names.length := by
    have := congrArg List.length hm
    simp only [List.length_map, List.length_append, List.length_replicate] at this
    rw [hlen1, hlen2, definedNames_snoc, List.length_append] at this
    have hsd : ∀ (names : List SVS) (i : Nat), (stmtDefs done.length i names).length = names.length := by
      intro names
      induction names with
      | nil => intro i; rfl
      | cons x xs ih => intro i; simp [stmtDefs, ih]
    rw [hsd] at this
    omega
  subst hm'
  unfold UnwrapIs at *
  rw [hm, hU, definedNames_snoc, List.map_append]
  congr 1
  · apply List.map_congr_left
    intro d hd
    have := definedNames_sid_lt hd
    rw [List.getElem?_append_left (by omega)]
  · have : ∀ (names : List SVS) (i : Nat), (stmtDefs done.length i names).map
        (fun d => !((nm ++ [s.named])[d.2.1]?.getD false)) = List.replicate names.length (!s.named) := by
      intro names
      induction names with
      | nil => intro i; rfl
      | cons x xs ih =>
        intro i
        simp only [stmtDefs, List.map_cons, ih, List.length_cons, List.replicate_succ]
        rw [List.getElem?_append_right (by omega)]
        simp [hl]
    rw [this]

theorem stmts_unwrap {block : Nat} : ∀ (ss : List AStmt) (st : CState) (done : List NStmt) (nm : List Bool),
    Inv st done → UnwrapIs nm st done → nm.length = done.length →
    ∀ done', Spec.stmts block done ss = .ok done' → ∀ ts st', compileStmts block st ss = .ok (ts, st') →
    Inv st' done' ∧ UnwrapIs (nm ++ ss.map (·.named)) st' done' ∧ (nm ++ ss.map (·.named)).length = done'.length
  | [], st, done, nm, hI, hU, hl, done', hs, ts, st', hc => by
    rw [Spec.stmts] at hs; cases hs
    rw [compileStmts] at hc; cases hc
    simpa using ⟨hI, hU, hl⟩
  | s :: ss, st, done, nm, hI, hU, hl, done', hs, ts, st', hc => by
    rw [Spec.stmts] at hs
    rw [compileStmts] at hc
    cases h1 : Spec.stmt done block s with
    | error e => rw [h1] at hs; cases hs
    | ok n =>
      rw [h1] at hs
      cases h2 : compileStmt block st s with
      | error e => rw [h2] at hc; cases hc
      | ok p =>
        obtain ⟨t, st1⟩ := p
        rw [h2] at hc
        simp only [Except.ok_bind] at hc hs
        cases h3 : compileStmts block st1 ss with
        | error e => rw [h3] at hc; cases hc
        | ok q =>
          obtain ⟨ts2, st2⟩ := q
          rw [h3] at hc
          cases hc
          obtain ⟨hI1, hU1⟩ := stmt_unwrap hI hU hl s n h1 t st1 h2
          have := stmts_unwrap ss st1 (done ++ [n]) (nm ++ [s.named]) hI1 hU1 (by simp [hl]) done' hs ts2 _ h3
          simpa [List.append_assoc] using this

theorem blocks_unwrap : ∀ (bs : List (List AStmt)) (i : Nat) (st : CState) (done : List NStmt) (nm : List Bool),
    Inv st done → UnwrapIs nm st done → nm.length = done.length →
    ∀ done', Spec.blocksFrom i done bs = .ok done' → ∀ out st', compileBlocks i st bs = .ok (out, st') →
    UnwrapIs (nm ++ (numbered i bs).map (·.2.named)) st' done'
  | [], i, st, done, nm, hI, hU, hl, done', hs, out, st', hc => by
    rw [Spec.blocksFrom] at hs; cases hs
    rw [compileBlocks] at hc; cases hc
    simpa [numbered] using hU
  | b :: bs, i, st, done, nm, hI, hU, hl, done', hs, out, st', hc => by
    rw [Spec.blocksFrom] at hs
    rw [compileBlocks_cons] at hc
    cases h1 : Spec.stmts i done b with
    | error e => rw [h1] at hs; cases hs
    | ok done1 =>
      rw [h1] at hs
      cases h2 : compileStmts i st b with
      | error e => rw [h2] at hc; cases hc
      | ok p =>
        obtain ⟨ts, st1⟩ := p
        rw [h2] at hc
        simp only [Except.ok_bind] at hs
        simp only at hc
        cases h3 : compileBlocks (i + 1) st1 bs with
        | error e => rw [h3] at hc; cases hc
        | ok q =>
          obtain ⟨rest, st2⟩ := q
          rw [h3] at hc
          cases hc
          obtain ⟨hI1, hU1, hl1⟩ := stmts_unwrap b st done nm hI hU hl done1 h1 ts st1 h2
          have := blocks_unwrap bs (i + 1) st1 done1 _ hI1 hU1 hl1 done' hs rest _ h3
          simpa [numbered, List.append_assoc, List.map_map, Function.comp_def] using this

/-- the `unwrap` flags the table ends with -/
theorem elab_unwrap (asts : List (List AStmt)) (bs : List Block) (st : CState)
    (h : compileBlocks 0 {} asts = .ok (bs, st)) (ns : List NStmt) (hs : Spec.blocks asts = .ok ns) :
    UnwrapIs ((numbered 0 asts).map (·.2.named)) st ns := by
  have := blocks_unwrap asts 0 {} [] [] Inv.init rfl rfl ns hs bs st h
  simpa using this

-- ================================================================ Part B: generic facts about the inlining loop
/-- `list.remove` on the roots selected by `q` from a list of tagged roots removes the root tagged `hit` -/
theorem removeFirst_filter {α : Type} (x : Tree) (q : α × Tree → Bool) (hit : α → Bool) :
    ∀ L : List (α × Tree),
    (∀ p ∈ L, hit p.1 = true → p.2 = x) →
    (∀ p ∈ L, q p = true → hit p.1 = false → Tree.beq p.2 x = false) →
    (∃ p ∈ L, q p = true ∧ hit p.1 = true) →
    L.Pairwise (fun p p' => ¬(hit p.1 = true ∧ hit p'.1 = true)) →
    removeFirst x ((L.filter q).map (·.2)) = some ((L.filter (fun p => q p && !hit p.1)).map (·.2))
  | [], _, _, he, _ => by obtain ⟨p, hp, _⟩ := he; cases hp
  | p :: L, h1, h2, he, hpw => by
    rw [List.pairwise_cons] at hpw
    have ih := removeFirst_filter x q hit L (fun p' hp' => h1 p' (by simp [hp'])) (fun p' hp' => h2 p' (by simp [hp']))
    cases hq : q p with
    | false =>
      simp only [List.filter_cons, hq, Bool.false_and, Bool.false_eq_true, if_false]
      apply ih _ hpw.2
      obtain ⟨p', hp', hq', hh'⟩ := he
      simp only [List.mem_cons] at hp'
      rcases hp' with rfl | hp'
      · rw [hq] at hq'; cases hq'
      · exact ⟨p', hp', hq', hh'⟩
    | true =>
      cases hh : hit p.1 with
      | true =>
        have hx : p.2 = x := h1 p (by simp) hh
        have hrest : L.filter (fun p => q p && !hit p.1) = L.filter q := by
          apply List.filter_congr
          intro p' hp'
          have : hit p'.1 = false := by
            cases hh' : hit p'.1 with
            | false => rfl
            | true => exact absurd ⟨hh, hh'⟩ (hpw.1 p' hp')
          simp [this]
        simp only [List.filter_cons, hq, hh, if_true, List.map_cons, removeFirst, hx, Tree.beq_refl, Bool.not_true,
          Bool.and_false, Bool.false_eq_true, if_false, hrest]
      | false =>
        have hb : Tree.beq p.2 x = false := h2 p (by simp) hq hh
        have he' : ∃ p' ∈ L, q p' = true ∧ hit p'.1 = true := by
          obtain ⟨p', hp', hq', hh'⟩ := he
          simp only [List.mem_cons] at hp'
          rcases hp' with rfl | hp'
          · rw [hh] at hh'; cases hh'
          · exact ⟨p', hp', hq', hh'⟩
        simp only [List.filter_cons, hq, hh, if_true, List.map_cons, removeFirst, hb, Bool.false_eq_true, if_false,
          Bool.not_false, Bool.and_true, ih he' hpw.2, Option.map_some]

/-- the amount is all of a sub recipe whose inferred quantity is `iq` -/
def amountIsWhole (iq : Option Quantity) : Amount → Bool
  | .proportion none _ _ _ => true
  | .proportion (some v) _ _ _ => v.val == 1
  | .quantity q =>
    match iq with
    | some iq => q.hasEqualValueTo iq
    | none => false

/-- there is exactly one reference, from the defining block and taking everything -/
def singleRefOk (defBlock : Nat) (iq : Option Quantity) : List (Amount × Nat) → Bool
  | [p] => p.2 == defBlock && amountIsWhole iq p.1
  | _ => false

/-- `can_be_inlined` in terms of the references `L` (amount, block) recorded for the entry, in any order -/
theorem canBeInlined_eq (o : NamedOutput) (L : List (Amount × Nat))
    (hr : o.refs.Perm (L.map fun p => (Tree.reference o.sub o.idx p.1, p.2))) :
    o.canBeInlined = (o.sub.numOutputs == 1 && singleRefOk o.defBlock (inferQuantity o.sub) L) := by
  unfold NamedOutput.canBeInlined
  congr 1
  rcases L with _ | ⟨p, _ | ⟨p', L⟩⟩
  · have : o.refs = [] := by simpa using hr
    rw [this]
    rfl
  · have : o.refs = [(Tree.reference o.sub o.idx p.1, p.2)] := by simpa using hr
    rw [this]
    show (p.2 == o.defBlock && _) = (p.2 == o.defBlock && amountIsWhole (inferQuantity o.sub) p.1)
    congr 1
  · have hl := hr.length_eq
    simp only [List.length_map, List.length_cons] at hl
    rcases hrefs : o.refs with _ | ⟨a, _ | ⟨b, rest⟩⟩
    · rw [hrefs] at hl; simp at hl
    · rw [hrefs] at hl; simp at hl
    · show _ = false
      split
      · rename_i heq; simp at heq
      · rfl

theorem foldAll_succ (n i : Nat) (blocks : List Block) (outs : List NamedOutput) :
    foldAll (n + 1) i blocks outs = (foldStep i blocks outs >>= fun p => foldAll n (i + 1) p.1 p.2) := by
  rw [foldAll]

theorem foldAll_add : ∀ (m1 m2 i : Nat) (blocks : List Block) (outs : List NamedOutput),
    foldAll (m1 + m2) i blocks outs = (foldAll m1 i blocks outs >>= fun p => foldAll m2 (i + m1) p.1 p.2)
  | 0, m2, i, blocks, outs => by simp [foldAll, Except.ok_bind]
  | m1 + 1, m2, i, blocks, outs => by
    have : m1 + 1 + m2 = (m1 + m2) + 1 := by omega
    rw [this, foldAll_succ, foldAll_succ]
    cases h : foldStep i blocks outs with
    | error e => rfl
    | ok p =>
      simp only [Except.ok_bind]
      rw [foldAll_add m1 m2 (i + 1) p.1 p.2]
      have : i + 1 + m1 = i + (m1 + 1) := by omega
      rw [this]

/-- iterations over entries that cannot be inlined change nothing -/
theorem foldAll_skip : ∀ (m i : Nat) (blocks : List Block) (outs : List NamedOutput),
    (∀ j o, i ≤ j → j < i + m → outs[j]? = some o → o.canBeInlined = false) →
    foldAll m i blocks outs = .ok (blocks, outs)
  | 0, i, blocks, outs, _ => rfl
  | m + 1, i, blocks, outs, h => by
    rw [foldAll_succ, foldStep_skip i blocks outs (fun o ho => h i o (Nat.le_refl _) (by omega) ho)]
    simp only [Except.ok_bind]
    exact foldAll_skip m (i + 1) blocks outs (fun j o h1 h2 ho => h j o (by omega) (by omega) ho)

-- ---------------------------------------------------------------- generic permutation facts
theorem flatMap_filter_perm {α β : Type} (p : α → Bool) (G : α → List β) (L : List α) :
    (L.flatMap G).Perm ((L.filter p).flatMap G ++ (L.filter (fun a => !p a)).flatMap G) := by
  rw [← List.flatMap_append]
  exact List.Perm.flatMap_right G (List.filter_append_perm p L).symm

theorem flatMap_eq_self_of_singleton {α : Type} (ψ : α → List α) : ∀ (M : List α), (∀ r ∈ M, ψ r = [r]) → M.flatMap ψ = M
  | [], _ => rfl
  | r :: M, h => by
    rw [List.flatMap_cons, h r (by simp), flatMap_eq_self_of_singleton ψ M (fun r' hr' => h r' (by simp [hr']))]
    rfl

/-- expanding the elements selected by `t` (the others stay) -/
theorem flatMap_expand_perm {α : Type} (t : α → Bool) (ψ : α → List α) (M : List α)
    (h : ∀ r, t r = false → ψ r = [r]) :
    (M.flatMap ψ).Perm (M.filter (fun r => !t r) ++ (M.filter t).flatMap ψ) := by
  refine (flatMap_filter_perm t ψ M).trans ?_
  refine List.perm_append_comm.trans ?_
  rw [flatMap_eq_self_of_singleton ψ (M.filter fun r => !t r)]
  intro r hr
  have := (List.mem_filter.mp hr).2
  exact h r (by simpa using this)

end RG
