import RecipeGrid.Lemmas.Fold
import RecipeGrid.Props.C07
import RecipeGrid.Props.C08b
/-! Helper lemmas for `Props/C07b.lean` (documented outcomes of `compile`: where errors come from, and the bound
    `Parser.Bd` showing that the parser never records a position beyond the end of the text) and for
    `Props/C01b.lean` (the inlining pass refines the by-name folding: the `unwrap` flags of the table, `list.remove`
    on selected roots, `can_be_inlined` in terms of the recorded references, splitting and skipping iterations of
    `foldAll`, permutation facts).  Nothing here is a specification. -/
namespace RG
open C01

-- ================================================================ Part A: where errors come from

/-- parsing fails only with a syntax error, in a block of the input -/
theorem parseAll_error_syntax : ∀ (srcs : List Str) (i : Nat) (e : CompileResult), parseAll i srcs = .error e →
    ∃ b, e = .syntaxError b ∧ i ≤ b ∧ b < i + srcs.length
  | [], i, e, h => by rw [parseAll_nil] at h; cases h
  | s :: ss, i, e, h => by
    rw [parseAll_cons] at h
    cases hp : parse s with
    | syntaxError => rw [hp] at h; cases h; exact ⟨i, rfl, Nat.le_refl _, by simp⟩
    | zeroDivision => exact absurd hp (C07.parse_never_zeroDivision s)
    | ok stmts =>
      rw [hp] at h
      simp only [] at h
      cases hr : parseAll (i + 1) ss with
      | error e' =>
        rw [hr] at h
        cases h
        obtain ⟨b, hb, h1, h2⟩ := parseAll_error_syntax ss (i + 1) _ hr
        exact ⟨b, hb, by omega, by simp only [List.length_cons]; omega⟩
      | ok rest => rw [hr] at h; cases h

/-- a successful `parseAll` parses every block -/
theorem parseAll_ok : ∀ (srcs : List Str) (i : Nat) (asts : List (List AStmt)), parseAll i srcs = .ok asts →
    asts.length = srcs.length ∧ ∀ (k : Nat) (s : Str), srcs[k]? = some s → ∃ a, asts[k]? = some a ∧ parse s = .ok a
  | [], i, asts, h => by rw [parseAll_nil] at h; cases h; simp
  | s :: ss, i, asts, h => by
    rw [parseAll_cons] at h
    cases hp : parse s with
    | syntaxError => rw [hp] at h; cases h
    | zeroDivision => rw [hp] at h; cases h
    | ok stmts =>
      rw [hp] at h
      simp only [] at h
      cases hr : parseAll (i + 1) ss with
      | error e' => rw [hr] at h; cases h
      | ok rest =>
        rw [hr] at h
        cases h
        obtain ⟨hl, hk⟩ := parseAll_ok ss (i + 1) rest hr
        refine ⟨by simp [hl], ?_⟩
        intro k s' hs'
        cases k with
        | zero => simp at hs'; subst hs'; exact ⟨stmts, by simp, hp⟩
        | succ k => simp at hs'; simpa using hk k s' hs'

-- ---------------------------------------------------------------- where the reported offsets come from
mutual
/-- the offsets of the proportions written in an expression -/
def AExpr.propOffsets : AExpr → List Nat
  | .step _ inputs => AExpr.propOffsetsList inputs
  | .ref _ (some (.prop off _ _ _ _)) => [off]
  | .ref _ _ => []
def AExpr.propOffsetsList : List AExpr → List Nat
  | [] => []
  | e :: es => e.propOffsets ++ AExpr.propOffsetsList es
end

/-- the offsets a statement can be rejected at: its proportions and its written output names -/
def AStmt.errOffsets (s : AStmt) : List Nat := s.expr.propOffsets ++ (s.outputs.getD []).map AString.offset

mutual
theorem compileExpr_error (block : Nat) : ∀ (e : AExpr) (st : CState) (err : StmtErr),
    compileExpr block st e = .error err → ∃ off ∈ e.propOffsets, err = .proportion off
  | .step name inputs, st, err, h => by
    rw [compileExpr] at h
    cases hs : compileExprs block st inputs with
    | error e' =>
      rw [hs] at h
      cases h
      simpa [AExpr.propOffsets] using compileExprs_error block inputs st _ hs
    | ok p => rw [hs] at h; cases h
  | .ref name amount, st, err, h => by
    simp only [compileExpr] at h
    split at h
    · cases h
    · split at h
      · cases h; exact ⟨_, by simp [AExpr.propOffsets], rfl⟩
      · cases h
      · cases h
theorem compileExprs_error (block : Nat) : ∀ (es : List AExpr) (st : CState) (err : StmtErr),
    compileExprs block st es = .error err → ∃ off ∈ AExpr.propOffsetsList es, err = .proportion off
  | [], st, err, h => by rw [compileExprs] at h; cases h
  | e :: es, st, err, h => by
    rw [compileExprs] at h
    cases h1 : compileExpr block st e with
    | error e' =>
      rw [h1] at h; cases h
      obtain ⟨off, ho, he⟩ := compileExpr_error block e st _ h1
      exact ⟨off, by simp [AExpr.propOffsetsList, ho], he⟩
    | ok p =>
      obtain ⟨t, st1⟩ := p
      rw [h1] at h
      simp only [Except.ok_bind] at h
      cases h2 : compileExprs block st1 es with
      | error e' =>
        rw [h2] at h; cases h
        obtain ⟨off, ho, he⟩ := compileExprs_error block es st1 _ h2
        exact ⟨off, by simp [AExpr.propOffsetsList, ho], he⟩
      | ok q => rw [h2] at h; cases h
end

theorem registerOutputs_error (block : Nat) (sub : Tree) (unwrap : Bool) (asts : Option (List AString)) :
    ∀ (names : List SVS) (st : CState) (i : Nat) (err : StmtErr),
    registerOutputs block sub unwrap asts st i names = .error err →
    (∃ a ∈ asts.getD [], err = .redefined a.offset) ∨ ∃ why, err = .internal why
  | [], st, i, err, h => by simp [registerOutputs] at h
  | n :: ns, st, i, err, h => by
    simp only [registerOutputs] at h
    split at h
    · split at h
      · split at h
        · rename_i l a ha
          cases h
          exact Or.inl ⟨a, by simpa using List.mem_of_getElem? ha, rfl⟩
        · cases h; exact Or.inr ⟨_, rfl⟩
      · cases h; exact Or.inr ⟨_, rfl⟩
    · exact registerOutputs_error block sub unwrap asts ns _ _ err h

theorem compileStmt_error (block : Nat) (st : CState) (s : AStmt) (err : StmtErr)
    (h : compileStmt block st s = .error err) :
    (∃ off ∈ s.errOffsets, err = .proportion off ∨ err = .redefined off) ∨ ∃ why, err = .internal why := by
  rw [compileStmt_eq] at h
  cases he : compileExpr block st s.expr with
  | error e' =>
    rw [he] at h; cases h
    obtain ⟨off, ho, hp⟩ := compileExpr_error block _ st _ he
    exact Or.inl ⟨off, by simp [AStmt.errOffsets, ho], Or.inl hp⟩
  | ok p =>
    obtain ⟨tree, st1⟩ := p
    rw [he] at h
    simp only [Except.ok_bind, nameStmt] at h
    have key : ∀ (sub : Tree) (names : List SVS) (f : CState → Except StmtErr (Tree × CState)),
        (∀ x, ∃ y, f x = .ok y) →
        (registerOutputs block sub (!s.named) s.outputs st1 0 names >>= f) = .error err →
        (∃ off ∈ s.errOffsets, err = .proportion off ∨ err = .redefined off) ∨ ∃ why, err = .internal why := by
      intro sub names f hf hr
      cases hreg : registerOutputs block sub (!s.named) s.outputs st1 0 names with
      | error e' =>
        rw [hreg] at hr; cases hr
        rcases registerOutputs_error block sub _ _ names st1 0 _ hreg with ⟨a, ha, hx⟩ | hx
        · refine Or.inl ⟨a.offset, ?_, Or.inr hx⟩
          simp only [AStmt.errOffsets, List.mem_append, List.mem_map]
          exact Or.inr ⟨a, ha, rfl⟩
        · exact Or.inr hx
      | ok x =>
        rw [hreg] at hr
        obtain ⟨y, hy⟩ := hf x
        simp only [Except.ok_bind, hy] at hr
        cases hr
    split at h
    · exact key _ _ _ (fun x => ⟨_, rfl⟩) h
    · split at h
      · exact key _ _ _ (fun x => ⟨_, rfl⟩) h
      · cases h

theorem compileStmts_error (block : Nat) : ∀ (ss : List AStmt) (st : CState) (err : StmtErr),
    compileStmts block st ss = .error err →
    (∃ s ∈ ss, ∃ off ∈ s.errOffsets, err = .proportion off ∨ err = .redefined off) ∨ ∃ why, err = .internal why
  | [], st, err, h => by rw [compileStmts] at h; cases h
  | s :: ss, st, err, h => by
    rw [compileStmts] at h
    cases h1 : compileStmt block st s with
    | error e' =>
      rw [h1] at h; cases h
      rcases compileStmt_error block st s _ h1 with ⟨off, ho, hx⟩ | hx
      · exact Or.inl ⟨s, by simp, off, ho, hx⟩
      · exact Or.inr hx
    | ok p =>
      obtain ⟨t, st1⟩ := p
      rw [h1] at h
      simp only [Except.ok_bind] at h
      cases h2 : compileStmts block st1 ss with
      | error e' =>
        rw [h2] at h; cases h
        rcases compileStmts_error block ss st1 _ h2 with ⟨s', hs', hx⟩ | hx
        · exact Or.inl ⟨s', by simp [hs'], hx⟩
        · exact Or.inr hx
      | ok q => rw [h2] at h; cases h

/-- an error of elaboration is located in a statement of the reported block -/
theorem compileBlocks_error : ∀ (bs : List (List AStmt)) (i : Nat) (st : CState) (e : CompileResult),
    compileBlocks i st bs = .error e →
    (∃ b off, (e = .proportion b off ∨ e = .redefined b off) ∧ i ≤ b ∧
        ∃ ss, bs[b - i]? = some ss ∧ ∃ s ∈ ss, off ∈ s.errOffsets) ∨ ∃ why, e = .internal why
  | [], i, st, e, h => by rw [compileBlocks] at h; cases h
  | b :: bs, i, st, e, h => by
    rw [compileBlocks_cons] at h
    cases h1 : compileStmts i st b with
    | error e' =>
      rw [h1] at h
      simp only at h
      cases h
      rcases compileStmts_error i b st _ h1 with ⟨s, hs, off, ho, hx⟩ | ⟨why, hx⟩
      · refine Or.inl ⟨i, off, ?_, Nat.le_refl _, b, by simp, s, hs, ho⟩
        rcases hx with hx | hx <;> rw [hx] <;> simp [liftErr]
      · exact Or.inr ⟨why, by rw [hx]; rfl⟩
    | ok p =>
      obtain ⟨trees, st1⟩ := p
      rw [h1] at h
      simp only at h
      cases h2 : compileBlocks (i + 1) st1 bs with
      | error e' =>
        rw [h2] at h
        simp only at h
        cases h
        rcases compileBlocks_error bs (i + 1) st1 _ h2 with ⟨b', off, hx, hle, ss, hss, hs⟩ | hx
        · refine Or.inl ⟨b', off, hx, by omega, ss, ?_, hs⟩
          have : b' - i = (b' - (i + 1)) + 1 := by omega
          rw [this]; simpa using hss
        · exact Or.inr hx
      | ok q => rw [h2] at h; cases h

-- ================================================================ Part A: every offset of the AST lies in the source
end RG

namespace RG.Parser.PosBound

/-- `p`, started inside the text, stays inside the text and returns a value satisfying `Q` -/
def Bd {α : Type} (t : Array Char) (p : P α) (Q : α → Prop) : Prop :=
  ∀ s a s', s.pos ≤ t.size → p t s = some (a, s') → s'.pos ≤ t.size ∧ Q a

variable {t : Array Char}

theorem Bd.pure {α : Type} {a : α} {Q : α → Prop} (h : Q a) : Bd t (pure a) Q := by
  intro s a' s' hs he
  cases he
  exact ⟨hs, h⟩

theorem Bd.bind {α β : Type} {p : P α} {f : α → P β} {Q1 : α → Prop} {Q2 : β → Prop} (h1 : Bd t p Q1)
    (h2 : ∀ a, Q1 a → Bd t (f a) Q2) : Bd t (p >>= f) Q2 := by
  intro s b s' hs he
  have he' : (match p t s with | none => none | some (a, s1) => f a t s1) = some (b, s') := he
  cases hp : p t s with
  | none => rw [hp] at he'; cases he'
  | some r =>
    obtain ⟨a, s1⟩ := r
    rw [hp] at he'
    obtain ⟨hs1, hq⟩ := h1 s a s1 hs hp
    exact h2 a hq s1 b s' hs1 he'

theorem Bd.orElse {α : Type} {p q : P α} {Q : α → Prop} (h1 : Bd t p Q) (h2 : Bd t q Q) : Bd t (p <|> q) Q := by
  intro s a s' hs he
  have he' : (match p t s with | some r => some r | none => q t s) = some (a, s') := he
  cases hp : p t s with
  | none => rw [hp] at he'; exact h2 s a s' hs he'
  | some r => rw [hp] at he'; cases he'; exact h1 s a s' hs hp

theorem Bd.mono {α : Type} {p : P α} {Q Q' : α → Prop} (h : Bd t p Q) (hq : ∀ a, Q a → Q' a) : Bd t p Q' :=
  fun s a s' hs he => ⟨(h s a s' hs he).1, hq a (h s a s' hs he).2⟩

theorem Bd.map {α β : Type} {p : P α} {f : α → β} {Q : β → Prop} (h : Bd t p (fun a => Q (f a))) : Bd t (f <$> p) Q :=
  Bd.bind h (fun _ ha => Bd.pure ha)

theorem Bd.fail {α : Type} {Q : α → Prop} : Bd t (fail : P α) Q := by
  intro s a s' _ he; cases he


abbrev T {α : Type} : α → Prop := fun _ => True

theorem sat_bd (p : Char → Bool) : Bd t (sat p) T := by
  intro s a s' hs he
  unfold sat at he
  cases hc : t[s.pos]? with
  | none => rw [hc] at he; cases he
  | some c =>
    have hlt : s.pos < t.size := by
      apply Classical.byContradiction
      intro h
      rw [Array.getElem?_eq_none (by omega)] at hc
      cases hc
    rw [hc] at he
    simp only at he
    split at he
    · cases he
      exact ⟨hlt, trivial⟩
    · cases he

theorem anyChar_bd : Bd t anyChar T := sat_bd _
theorem lit_bd (c : Char) : Bd t (lit c) T := Bd.bind (sat_bd _) fun _ _ => Bd.pure trivial

theorem spanEnd_go_le (p : Char → Bool) : ∀ (fuel j : Nat), j ≤ t.size → spanEnd.go p t fuel j ≤ t.size
  | 0, j, h => h
  | fuel + 1, j, h => by
    unfold spanEnd.go
    cases hc : t[j]? with
    | none => exact h
    | some c =>
      simp only
      split
      · apply spanEnd_go_le p fuel (j + 1)
        apply Classical.byContradiction
        intro h
        rw [Array.getElem?_eq_none (by omega)] at hc
        cases hc
      · exact h

theorem skipMany_bd (p : Char → Bool) : Bd t (skipMany p) T := by
  intro s a s' hs he
  unfold skipMany at he
  cases he
  exact ⟨spanEnd_go_le p _ _ hs, trivial⟩

theorem skipMany1_bd (p : Char → Bool) : Bd t (skipMany1 p) T :=
  Bd.bind (sat_bd p) fun _ _ => skipMany_bd p

theorem hsp_bd : Bd t hsp T := skipMany1_bd _
theorem ohsp_bd : Bd t ohsp T := skipMany_bd _
theorem sp_bd : Bd t sp T := skipMany1_bd _
theorem osp_bd : Bd t osp T := skipMany_bd _

theorem eof_bd : Bd t eof T := by
  intro s a s' hs he
  unfold eof at he
  split at he
  · cases he; exact ⟨hs, trivial⟩
  · cases he

theorem wordBoundary_bd : Bd t wordBoundary T := by
  intro s a s' hs he
  unfold wordBoundary at he
  split at he
  · cases he; exact ⟨hs, trivial⟩
  · cases he

theorem ciWord_bd : ∀ w : Str, Bd t (ciWord w) T
  | [] => Bd.pure trivial
  | _ :: ls => Bd.bind (sat_bd _) fun _ _ => ciWord_bd ls

theorem getPos_bd : Bd t getPos (· ≤ t.size) := by
  intro s a s' hs he
  cases he
  exact ⟨hs, hs⟩

theorem remaining_bd : Bd t remaining T := by
  intro s a s' hs he
  cases he
  exact ⟨hs, trivial⟩

theorem manyF_bd {α : Type} {p : P α} {Q : α → Prop} (h : Bd t p Q) : ∀ fuel, Bd t (manyF p fuel) (fun l => ∀ a ∈ l, Q a)
  | 0 => Bd.pure (by simp)
  | fuel + 1 => by
    unfold manyF
    refine Bd.orElse ?_ (Bd.pure (by simp))
    refine Bd.bind h fun a ha => ?_
    refine Bd.bind (manyF_bd h fuel) fun rest hrest => ?_
    exact Bd.pure (by
      intro x hx
      simp only [List.mem_cons] at hx
      rcases hx with rfl | hx
      · exact ha
      · exact hrest x hx)

theorem many_bd {α : Type} {p : P α} {Q : α → Prop} (h : Bd t p Q) : Bd t (many p) (fun l => ∀ a ∈ l, Q a) :=
  Bd.bind remaining_bd fun fuel _ => manyF_bd h fuel

theorem withText_bd {α : Type} {p : P α} {Q : α → Prop} (h : Bd t p Q) : Bd t (withText p) (fun x => Q x.1) := by
  intro s a s' hs he
  unfold withText at he
  cases hp : p t s with
  | none => rw [hp] at he; cases he
  | some r =>
    obtain ⟨a1, s1⟩ := r
    rw [hp] at he
    have := h s a1 s1 hs hp
    cases he
    exact this

theorem textOf_bd {p : P Unit} (h : Bd t p T) : Bd t (textOf p) T :=
  Bd.bind (withText_bd h) fun _ _ => Bd.pure trivial

theorem opt_bd {α : Type} {p : P α} {Q : α → Prop} (h : Bd t p Q) : Bd t (opt p) (fun o => ∀ a, o = some a → Q a) := by
  unfold opt
  refine Bd.orElse (Bd.map (h.mono ?_)) (Bd.pure (by simp))
  intro a ha b hb
  cases hb
  exact ha

theorem digits_bd : Bd t digits T := textOf_bd (skipMany1_bd _)

theorem decimal_bd : Bd t decimal (fun x => x.1 ≤ t.size) := by
  unfold decimal
  refine Bd.bind getPos_bd fun off hoff => ?_
  refine Bd.bind digits_bd fun whole _ => ?_
  refine Bd.bind (opt_bd (Q := T) ?_) fun frac _ => ?_
  · exact Bd.bind (lit_bd _) fun _ _ => textOf_bd (skipMany_bd _)
  · cases frac <;> exact Bd.pure hoff

theorem fraction_bd : Bd t fraction (fun x => x.1 ≤ t.size) := by
  unfold fraction
  refine Bd.bind getPos_bd fun start hstart => ?_
  refine Bd.bind (opt_bd (Q := T) ?_) fun integer _ => ?_
  · exact Bd.bind digits_bd fun _ _ => Bd.bind hsp_bd fun _ _ => Bd.pure trivial
  refine Bd.bind getPos_bd fun numerStart hns => ?_
  refine Bd.bind digits_bd fun numer _ => ?_
  refine Bd.bind ohsp_bd fun _ _ => ?_
  refine Bd.bind (lit_bd _) fun _ _ => ?_
  refine Bd.bind ohsp_bd fun _ _ => ?_
  refine Bd.bind digits_bd fun denom _ => ?_
  simp only
  split
  · exact Bd.fail
  · refine Bd.pure ?_
    simp only
    split <;> assumption

theorem number_bd : Bd t number (fun x => x.1 ≤ t.size) := Bd.orElse fraction_bd decimal_bd

def subOff : SubStr → Nat
  | .sub o _ => o
  | .num o _ => o

/-- all offsets of a string lie in the text -/
def AOk (t : Array Char) (a : AString) : Prop := ∀ x ∈ a, subOff x ≤ t.size

theorem AOk.offset {a : AString} (h : AOk t a) : AString.offset a ≤ t.size := by
  match a, h with
  | [], _ => exact Nat.zero_le _
  | .sub o x :: _, h => exact h (.sub o x) (List.mem_cons_self)
  | .num o x :: _, h => exact h (.num o x) (List.mem_cons_self)

theorem AOk.append {a b : AString} (ha : AOk t a) (hb : AOk t b) : AOk t (a ++ b) := by
  intro x hx
  rw [List.mem_append] at hx
  rcases hx with hx | hx
  · exact ha x hx
  · exact hb x hx

theorem trimBack_le (p : Char → Bool) (lo : Nat) : ∀ k, trimBack p t lo k ≤ max lo k
  | 0 => by simp [trimBack]
  | k + 1 => by
    unfold trimBack
    split
    · omega
    · have := trimBack_le p lo k
      split
      · split
        · omega
        · omega
      · omega

theorem nakedString_bd : Bd t nakedString (AOk t) := by
  unfold nakedString
  refine Bd.bind getPos_bd fun off hoff => ?_
  refine Bd.bind (withText_bd (Q := T) ?_) fun x _ => ?_
  · refine Bd.bind (sat_bd _) fun _ _ => ?_
    intro s a s' hs he
    cases he
    refine ⟨?_, trivial⟩
    have h1 := trimBack_le (t := t) isNakedEdge s.pos (spanEnd isNakedInner t s.pos)
    have h2 : spanEnd isNakedInner t s.pos ≤ t.size := spanEnd_go_le _ _ _ hs
    simp only
    omega
  · obtain ⟨_, text⟩ := x
    refine Bd.pure ?_
    intro y hy
    simp only [List.mem_singleton] at hy
    subst hy
    exact hoff

theorem escaped_bd : Bd t escaped T :=
  Bd.bind (lit_bd _) fun _ _ => Bd.bind anyChar_bd fun _ _ => Bd.pure trivial

theorem quotedString_bd (q : Char) : Bd t (quotedString q) (AOk t) := by
  unfold quotedString
  refine Bd.bind getPos_bd fun off hoff => ?_
  refine Bd.bind (lit_bd _) fun _ _ => ?_
  refine Bd.bind (many_bd (Q := T) (Bd.orElse escaped_bd (sat_bd _))) fun body _ => ?_
  refine Bd.bind (lit_bd _) fun _ _ => ?_
  refine Bd.pure ?_
  intro y hy
  simp only [List.mem_singleton] at hy
  subst hy
  exact hoff

def itemOff : BracketedItem → Nat
  | .num o _ => o
  | .chr o _ => o

theorem bracketedItem_bd : Bd t bracketedItem (fun i => itemOff i ≤ t.size) := by
  unfold bracketedItem
  refine Bd.orElse ?_ (Bd.orElse ?_ ?_)
  · refine Bd.bind number_bd fun x hx => ?_
    obtain ⟨off, n⟩ := x
    exact Bd.pure hx
  · refine Bd.bind getPos_bd fun off hoff => ?_
    exact Bd.bind escaped_bd fun c _ => Bd.pure hoff
  · refine Bd.bind getPos_bd fun off hoff => ?_
    exact Bd.bind (sat_bd _) fun c _ => Bd.pure hoff

def AccOk (t : Array Char) (a : BracketedAcc) : Prop :=
  AOk t a.out ∧ ∀ o, a.segmentOff = some o → o ≤ t.size

theorem AccOk.push {a : BracketedAcc} (h : AccOk t a) {i : BracketedItem} (hi : itemOff i ≤ t.size) : AccOk t (a.push i) := by
  obtain ⟨h1, h2⟩ := h
  cases i with
  | num off n =>
    simp only [BracketedAcc.push]
    refine ⟨?_, by simp⟩
    apply AOk.append
    · split
      · exact h1
      · apply AOk.append h1
        intro y hy
        simp only [List.mem_singleton] at hy
        subst hy
        cases hs : a.segmentOff with
        | none => exact Nat.zero_le _
        | some o => exact h2 o hs
    · intro y hy
      simp only [List.mem_singleton] at hy
      subst hy
      exact hi
  | chr off c =>
    simp only [BracketedAcc.push]
    refine ⟨h1, ?_⟩
    intro o ho
    simp only [Option.some.injEq] at ho
    subst ho
    cases hs : a.segmentOff with
    | none => exact hi
    | some o => exact h2 o hs

theorem AccOk.foldl : ∀ (body : List BracketedItem) (a : BracketedAcc), AccOk t a → (∀ i ∈ body, itemOff i ≤ t.size) →
    AccOk t (body.foldl BracketedAcc.push a)
  | [], a, h, _ => h
  | i :: body, a, h, hb => AccOk.foldl body _ (h.push (hb i (by simp))) (fun j hj => hb j (by simp [hj]))

theorem AccOk.finish {a : BracketedAcc} (h : AccOk t a) : AOk t a.finish := by
  obtain ⟨h1, h2⟩ := h
  unfold BracketedAcc.finish
  cases hs : a.segmentOff with
  | none => exact h1
  | some o =>
    apply AOk.append h1
    intro y hy
    simp only [List.mem_singleton] at hy
    subst hy
    exact h2 o hs

theorem bracketedString_bd : Bd t bracketedString (AOk t) := by
  unfold bracketedString
  refine Bd.bind getPos_bd fun off hoff => ?_
  refine Bd.bind (lit_bd _) fun _ _ => ?_
  refine Bd.bind (many_bd bracketedItem_bd) fun body hbody => ?_
  refine Bd.bind (lit_bd _) fun _ _ => ?_
  refine Bd.pure (AccOk.finish (AccOk.foldl body _ ⟨?_, ?_⟩ hbody))
  · intro y hy; cases hy
  · intro o ho
    simp only [Option.some.injEq] at ho
    subst ho; exact hoff

theorem stringF_bd (static : Bool) : ∀ fuel, Bd t (stringF static fuel) (AOk t)
  | 0 => Bd.fail
  | fuel + 1 => by
    unfold stringF
    refine Bd.bind (Q1 := AOk t) ?_ fun first hfirst => ?_
    · refine Bd.orElse nakedString_bd (Bd.orElse (quotedString_bd _) (Bd.orElse (quotedString_bd _) ?_))
      cases static
      · exact bracketedString_bd
      · exact Bd.fail
    refine Bd.bind (opt_bd (Q := AOk t) ?_) fun rest hrest => ?_
    · refine Bd.bind getPos_bd fun off hoff => ?_
      refine Bd.bind (textOf_bd ohsp_bd) fun space _ => ?_
      refine Bd.bind (stringF_bd static fuel) fun more hmore => ?_
      refine Bd.pure ?_
      split
      · exact hmore
      · intro y hy
        simp only [List.mem_cons] at hy
        rcases hy with rfl | hy
        · exact hoff
        · exact hmore y hy
    · refine Bd.pure (AOk.append hfirst ?_)
      cases rest with
      | none => intro y hy; cases hy
      | some r => exact hrest r rfl

theorem string_bd (static : Bool) : Bd t (string static) (AOk t) :=
  Bd.bind remaining_bd fun _ _ => stringF_bd static _

theorem preposition_bd : Bd t preposition T := by
  unfold preposition
  refine Bd.bind (ciWord_bd _) fun _ _ => ?_
  refine Bd.orElse ?_ wordBoundary_bd
  exact Bd.bind hsp_bd fun _ _ => Bd.bind (ciWord_bd _) fun _ _ => wordBoundary_bd

theorem hspPreposition_bd : Bd t hspPreposition T :=
  Bd.orElse (textOf_bd (Bd.bind hsp_bd fun _ _ => preposition_bd)) (Bd.pure trivial)

theorem remainder_bd : Bd t remainder T := by
  unfold remainder
  refine Bd.orElse ?_ (Bd.orElse ?_ (Bd.orElse ?_ ?_))
  · exact Bd.bind (ciWord_bd _) fun _ _ => wordBoundary_bd
  · exact Bd.bind (ciWord_bd _) fun _ _ => wordBoundary_bd
  · exact Bd.bind (ciWord_bd _) fun _ _ => wordBoundary_bd
  · exact Bd.bind (ciWord_bd _) fun _ _ => Bd.bind ohsp_bd fun _ _ => Bd.bind (ciWord_bd _) fun _ _ => wordBoundary_bd

theorem unitPattern_bd : ∀ ws : List Str, Bd t (unitPattern ws) T
  | [] => wordBoundary_bd
  | [w] => Bd.bind (ciWord_bd _) fun _ _ => wordBoundary_bd
  | w :: w' :: ws => by
    unfold unitPattern
    exact Bd.bind (ciWord_bd _) fun _ _ => Bd.bind sp_bd fun _ _ => unitPattern_bd (w' :: ws)

theorem firstOf_bd : ∀ ps : List (P Unit), (∀ p ∈ ps, Bd t p T) → Bd t (firstOf ps) T
  | [], _ => Bd.fail
  | p :: ps, h => Bd.orElse (h p (by simp)) (firstOf_bd ps fun q hq => h q (by simp [hq]))

theorem knownUnit_bd : Bd t knownUnit T := by
  apply firstOf_bd
  intro p hp
  simp only [List.mem_map] at hp
  obtain ⟨ws, _, rfl⟩ := hp
  exact unitPattern_bd ws

theorem proportion_bd : Bd t proportion (fun a => AAmount.offset a ≤ t.size) := by
  unfold proportion
  refine Bd.orElse ?_ ?_
  · refine Bd.bind getPos_bd fun off hoff => ?_
    refine Bd.bind (textOf_bd remainder_bd) fun wording _ => ?_
    exact Bd.bind hspPreposition_bd fun prep _ => Bd.pure hoff
  · refine Bd.bind number_bd fun x hx => ?_
    obtain ⟨off, v⟩ := x
    refine Bd.orElse ?_ (Bd.orElse ?_ ?_)
    · exact Bd.bind (textOf_bd (Bd.bind hsp_bd fun _ _ => preposition_bd)) fun prep _ => Bd.pure hx
    · refine Bd.bind (textOf_bd ?_) fun prep _ => Bd.pure hx
      exact Bd.bind ohsp_bd fun _ _ => Bd.bind (lit_bd _) fun _ _ => Bd.bind hspPreposition_bd fun _ _ => Bd.pure trivial
    · refine Bd.bind (textOf_bd ?_) fun prep _ => Bd.pure hx
      exact Bd.bind ohsp_bd fun _ _ => lit_bd _

theorem explicitQuantity_bd : Bd t explicitQuantity (fun a => AAmount.offset a ≤ t.size) := by
  unfold explicitQuantity
  refine Bd.bind getPos_bd fun off hoff => ?_
  refine Bd.bind (lit_bd _) fun _ _ => ?_
  refine Bd.bind ohsp_bd fun _ _ => ?_
  refine Bd.bind number_bd fun x _ => ?_
  obtain ⟨_, v⟩ := x
  refine Bd.bind (opt_bd (Q := T) ?_) fun unit _ => ?_
  · exact Bd.bind (textOf_bd ohsp_bd) fun _ _ => Bd.bind (string_bd _) fun _ _ => Bd.pure trivial
  refine Bd.bind ohsp_bd fun _ _ => ?_
  refine Bd.bind (lit_bd _) fun _ _ => ?_
  exact Bd.bind hspPreposition_bd fun prep _ => Bd.pure hoff

theorem implicitQuantity_bd : Bd t implicitQuantity (fun a => AAmount.offset a ≤ t.size) := by
  unfold implicitQuantity
  refine Bd.bind number_bd fun x hx => ?_
  obtain ⟨off, v⟩ := x
  refine Bd.bind (opt_bd (Q := T) ?_) fun unit _ => ?_
  · refine Bd.bind (textOf_bd ohsp_bd) fun _ _ => ?_
    refine Bd.bind getPos_bd fun _ _ => ?_
    refine Bd.bind (textOf_bd knownUnit_bd) fun _ _ => ?_
    exact Bd.bind hspPreposition_bd fun _ _ => Bd.pure trivial
  · cases unit with
    | none => exact Bd.pure hx
    | some u =>
      obtain ⟨spacing, u', prep⟩ := u
      exact Bd.pure hx

/-- the proportions of an expression are written in the text -/
def EOk (t : Array Char) (e : AExpr) : Prop := ∀ off ∈ e.propOffsets, off ≤ t.size

theorem reference_bd : Bd t reference (EOk t) := by
  unfold reference
  refine Bd.bind (opt_bd (Q := fun a => AAmount.offset a ≤ t.size) ?_) fun amount hamount => ?_
  · refine Bd.bind (Bd.orElse proportion_bd (Bd.orElse explicitQuantity_bd implicitQuantity_bd)) fun a ha => ?_
    exact Bd.bind ohsp_bd fun _ _ => Bd.pure ha
  refine Bd.bind (string_bd _) fun name _ => Bd.pure ?_
  intro off hoff
  cases amount with
  | none => simp [AExpr.propOffsets] at hoff
  | some a =>
    have := hamount a rfl
    cases a with
    | qty => simp [AExpr.propOffsets] at hoff
    | prop o v pc w p =>
      simp only [AExpr.propOffsets, List.mem_singleton] at hoff
      subst hoff
      exact this

theorem EOk.list {es : List AExpr} (h : ∀ e ∈ es, EOk t e) : ∀ off ∈ AExpr.propOffsetsList es, off ≤ t.size := by
  induction es with
  | nil => intro off hoff; simp [AExpr.propOffsetsList] at hoff
  | cons e es ih =>
    intro off hoff
    simp only [AExpr.propOffsetsList, List.mem_append] at hoff
    rcases hoff with hoff | hoff
    · exact h e (by simp) off hoff
    · exact ih (fun e' he' => h e' (by simp [he'])) off hoff

theorem step_bd {e : P AExpr} (h : Bd t e (EOk t)) : Bd t (step e) (EOk t) := by
  unfold step
  refine Bd.bind (string_bd _) fun name _ => ?_
  refine Bd.bind ohsp_bd fun _ _ => ?_
  refine Bd.bind (lit_bd _) fun _ _ => ?_
  refine Bd.bind osp_bd fun _ _ => ?_
  refine Bd.bind h fun first hfirst => ?_
  refine Bd.bind (many_bd (Q := EOk t) ?_) fun rest hrest => ?_
  · exact Bd.bind osp_bd fun _ _ => Bd.bind (lit_bd _) fun _ _ => Bd.bind osp_bd fun _ _ => h
  refine Bd.bind (opt_bd (Q := T) ?_) fun _ _ => ?_
  · exact Bd.bind osp_bd fun _ _ => lit_bd _
  refine Bd.bind osp_bd fun _ _ => ?_
  refine Bd.bind (lit_bd _) fun _ _ => Bd.pure ?_
  intro off hoff
  simp only [AExpr.propOffsets] at hoff
  refine EOk.list (es := first :: rest) ?_ off hoff
  intro e' he'
  simp only [List.mem_cons] at he'
  rcases he' with rfl | he'
  · exact hfirst
  · exact hrest e' he'

theorem ltrShorthand_bd {e : P AExpr} (h : Bd t e (EOk t)) : Bd t (ltrShorthand e) (EOk t) := by
  unfold ltrShorthand
  refine Bd.bind h fun first hfirst => ?_
  refine Bd.bind (many_bd (Q := T) ?_) fun actions hact => Bd.pure ?_
  · exact Bd.bind ohsp_bd fun _ _ => Bd.bind (lit_bd _) fun _ _ => Bd.bind ohsp_bd fun _ _ =>
      (string_bd _).mono fun _ _ => trivial
  clear h hact
  induction actions generalizing first with
  | nil => exact hfirst
  | cons a as ih =>
    apply ih
    intro off hoff
    simp only [AExpr.propOffsets, AExpr.propOffsetsList, List.append_nil] at hoff
    exact hfirst off hoff

theorem expr_bd : ∀ fuel, Bd t (expr fuel) (EOk t)
  | 0 => Bd.fail
  | fuel + 1 => by
    unfold expr
    refine Bd.orElse (step_bd (expr_bd fuel)) (Bd.orElse reference_bd ?_)
    refine Bd.bind (lit_bd _) fun _ _ => ?_
    refine Bd.bind osp_bd fun _ _ => ?_
    refine Bd.bind (ltrShorthand_bd (expr_bd fuel)) fun e he => ?_
    refine Bd.bind osp_bd fun _ _ => ?_
    exact Bd.bind (lit_bd _) fun _ _ => Bd.pure he

theorem eol_bd : Bd t eol T := by
  unfold eol
  refine Bd.orElse ?_ ?_
  · exact Bd.bind ohsp_bd fun _ _ => Bd.bind (sat_bd _) fun _ _ => osp_bd
  · exact Bd.bind ohsp_bd fun _ _ => eof_bd

theorem outputList_bd : Bd t outputList (fun l => ∀ a ∈ l, AOk t a) := by
  unfold outputList
  refine Bd.bind (string_bd _) fun first hfirst => ?_
  refine Bd.bind (many_bd (Q := AOk t) ?_) fun rest hrest => Bd.pure ?_
  · exact Bd.bind ohsp_bd fun _ _ => Bd.bind (lit_bd _) fun _ _ => Bd.bind ohsp_bd fun _ _ => string_bd _
  intro a ha
  simp only [List.mem_cons] at ha
  rcases ha with rfl | ha
  · exact hfirst
  · exact hrest a ha

theorem assign_bd : Bd t assign T := by
  unfold assign
  refine Bd.orElse ?_ ?_
  · exact Bd.bind (lit_bd _) fun _ _ => Bd.bind (lit_bd _) fun _ _ => Bd.pure trivial
  · exact Bd.bind (lit_bd _) fun _ _ => Bd.pure trivial

/-- every offset a statement can be rejected at lies in the text -/
def StOk (t : Array Char) (st : AStmt) : Prop := ∀ off ∈ st.errOffsets, off ≤ t.size

theorem stmt_bd : Bd t stmt (StOk t) := by
  unfold stmt
  refine Bd.bind (opt_bd (Q := fun x : List AString × Bool => ∀ a ∈ x.1, AOk t a) ?_) fun target htarget => ?_
  · refine Bd.bind outputList_bd fun outputs houtputs => ?_
    refine Bd.bind ohsp_bd fun _ _ => ?_
    refine Bd.bind assign_bd fun named _ => ?_
    exact Bd.bind ohsp_bd fun _ _ => Bd.pure houtputs
  refine Bd.bind remaining_bd fun fuel _ => ?_
  refine Bd.bind (ltrShorthand_bd (expr_bd _)) fun e he => ?_
  refine Bd.bind eol_bd fun _ _ => Bd.pure ?_
  intro off hoff
  simp only [AStmt.errOffsets, List.mem_append, List.mem_map] at hoff
  rcases hoff with hoff | ⟨a, ha, rfl⟩
  · exact he off hoff
  · cases target with
    | none => simp at ha
    | some x =>
      simp only [Option.map_some, Option.getD_some] at ha
      exact (htarget x rfl a ha).offset

theorem recipe_bd : Bd t recipe (fun l => ∀ st ∈ l, StOk t st) := by
  unfold recipe
  refine Bd.bind osp_bd fun _ _ => ?_
  refine Bd.bind stmt_bd fun first hfirst => ?_
  refine Bd.bind (many_bd stmt_bd) fun rest hrest => ?_
  refine Bd.bind eof_bd fun _ _ => Bd.pure ?_
  intro st hst
  simp only [List.mem_cons] at hst
  rcases hst with rfl | hst
  · exact hfirst
  · exact hrest st hst

end RG.Parser.PosBound

namespace RG
/-- **every position reported for a statement of a parsed text lies in the text** -/
theorem parse_offsets_in_source (s : Str) (stmts : List AStmt) (h : parse s = .ok stmts) :
    ∀ st ∈ stmts, ∀ off ∈ st.errOffsets, off ≤ s.length := by
  unfold parse at h
  cases hr : Parser.recipe s.toArray ⟨0, false⟩ with
  | none => rw [hr] at h; cases h
  | some r =>
    obtain ⟨l, s'⟩ := r
    rw [hr] at h
    have := (Parser.PosBound.recipe_bd (t := s.toArray) ⟨0, false⟩ l s' (Nat.zero_le _) hr).2
    cases h
    simpa [Parser.PosBound.StOk] using this
end RG

namespace RG
open C01

-- ================================================================ Part B: the `unwrap` flags of the table
mutual
theorem compileExpr_unwrap (block : Nat) : ∀ (e : AExpr) (st : CState) (t : Tree) (st' : CState),
    compileExpr block st e = .ok (t, st') → st'.outputs.map (·.unwrap) = st.outputs.map (·.unwrap)
  | .step name inputs, st, t, st', h => by
    rw [compileExpr] at h
    cases hs : compileExprs block st inputs with
    | error e' => rw [hs] at h; cases h
    | ok p =>
      obtain ⟨ts, st1⟩ := p
      rw [hs] at h
      cases h
      exact compileExprs_unwrap block inputs st ts _ hs
  | .ref name amount, st, t, st', h => by
    simp only [compileExpr] at h
    split at h
    · cases h
      simp only [List.map_map]
      apply List.map_congr_left
      intro o _
      simp only [Function.comp_def]
      split <;> rfl
    · split at h
      · cases h
      · cases h; rfl
      · cases h; rfl
theorem compileExprs_unwrap (block : Nat) : ∀ (es : List AExpr) (st : CState) (ts : List Tree) (st' : CState),
    compileExprs block st es = .ok (ts, st') → st'.outputs.map (·.unwrap) = st.outputs.map (·.unwrap)
  | [], st, ts, st', h => by rw [compileExprs] at h; cases h; rfl
  | e :: es, st, ts, st', h => by
    rw [compileExprs] at h
    cases h1 : compileExpr block st e with
    | error e' => rw [h1] at h; cases h
    | ok p =>
      obtain ⟨t, st1⟩ := p
      rw [h1] at h
      simp only [Except.ok_bind] at h
      cases h2 : compileExprs block st1 es with
      | error e' => rw [h2] at h; cases h
      | ok q =>
        obtain ⟨ts2, st2⟩ := q
        rw [h2] at h
        cases h
        rw [compileExprs_unwrap block es st1 ts2 _ h2, compileExpr_unwrap block e st t st1 h1]
end

theorem registerOutputs_unwrap (block : Nat) (sub : Tree) (unwrap : Bool) (asts : Option (List AString)) :
    ∀ (names : List SVS) (st : CState) (i : Nat) (st' : CState),
    registerOutputs block sub unwrap asts st i names = .ok st' →
    st'.outputs.map (·.unwrap) = st.outputs.map (·.unwrap) ++ List.replicate names.length unwrap
  | [], st, i, st', h => by simp [registerOutputs] at h; subst h; simp
  | n :: ns, st, i, st', h => by
    simp only [registerOutputs] at h
    split at h
    · split at h
      · split at h <;> cases h
      · cases h
    · rw [registerOutputs_unwrap block sub unwrap asts ns _ _ st' h]
      simp [List.replicate_succ]

theorem compileStmt_unwrap (block : Nat) (st : CState) (s : AStmt) (t : Tree) (st' : CState)
    (h : compileStmt block st s = .ok (t, st')) :
    ∃ m, st'.outputs.map (·.unwrap) = st.outputs.map (·.unwrap) ++ List.replicate m (!s.named) := by
  rw [compileStmt_eq] at h
  cases he : compileExpr block st s.expr with
  | error e' => rw [he] at h; cases h
  | ok p =>
    obtain ⟨tree, st1⟩ := p
    rw [he] at h
    have h1 := compileExpr_unwrap block _ st tree st1 he
    simp only [Except.ok_bind, nameStmt] at h
    have key : ∀ (sub : Tree) (names : List SVS) (f : CState → Except StmtErr (Tree × CState)),
        (∀ x y, f x = .ok y → y.2 = x) →
        (registerOutputs block sub (!s.named) s.outputs st1 0 names >>= f) = .ok (t, st') →
        ∃ m, st'.outputs.map (·.unwrap) = st.outputs.map (·.unwrap) ++ List.replicate m (!s.named) := by
      intro sub names f hf hr
      cases hreg : registerOutputs block sub (!s.named) s.outputs st1 0 names with
      | error e' => rw [hreg] at hr; cases hr
      | ok x =>
        rw [hreg] at hr
        simp only [Except.ok_bind] at hr
        have := hf x _ hr
        simp only at this
        subst this
        exact ⟨names.length, by rw [registerOutputs_unwrap block sub _ _ names st1 0 _ hreg, h1]⟩
    split at h
    · exact key _ _ _ (fun x y hy => by cases hy; rfl) h
    · split at h
      · exact key _ _ _ (fun x y hy => by cases hy; rfl) h
      · cases h; exact ⟨0, by simp [h1]⟩

/-- the `unwrap` flag of every table entry is the negated `:=` flag (`nm`) of the defining statement -/
def UnwrapIs (nm : List Bool) (st : CState) (done : List NStmt) : Prop :=
  st.outputs.map (·.unwrap) = (definedNames done).map (fun d => !(nm[d.2.1]?.getD false))

theorem stmt_unwrap {block : Nat} {st : CState} {done : List NStmt} {nm : List Bool} (hI : Inv st done)
    (hU : UnwrapIs nm st done) (hl : nm.length = done.length) (s : AStmt) (n : NStmt)
    (hs : Spec.stmt done block s = .ok n) (t : Tree) (st' : CState) (hc : compileStmt block st s = .ok (t, st')) :
    Inv st' (done ++ [n]) ∧ UnwrapIs (nm ++ [s.named]) st' (done ++ [n]) := by
  have hsim := stmt_sim (block := block) hI s
  rw [hs] at hsim
  obtain ⟨a, ha, _, hI', _⟩ := hsim
  rw [hc] at ha
  cases ha
  refine ⟨hI', ?_⟩
  obtain ⟨m, hm⟩ := compileStmt_unwrap block st s t st' hc
  have hlen1 : st.outputs.length = (definedNames done).length := by simpa using congrArg List.length hI.table
  have hlen2 : st'.outputs.length = (definedNames (done ++ [n])).length := by
    simpa using congrArg List.length hI'.table
  have hm' : m = n.names.length := by
    have := congrArg List.length hm
    simp only [List.length_map, List.length_append, List.length_replicate] at this
    rw [hlen1, hlen2, definedNames_snoc, List.length_append] at this
    have hsd : ∀ (names : List SVS) (i : Nat), (stmtDefs done.length i names).length = names.length := by
      intro names
      induction names with
      | nil => intro i; rfl
      | cons x xs ih => intro i; simp [stmtDefs, ih]
    rw [hsd] at this
    omega
  subst hm'
  unfold UnwrapIs at *
  rw [hm, hU, definedNames_snoc, List.map_append]
  congr 1
  · apply List.map_congr_left
    intro d hd
    have := definedNames_sid_lt hd
    rw [List.getElem?_append_left (by omega)]
  · have : ∀ (names : List SVS) (i : Nat), (stmtDefs done.length i names).map
        (fun d => !((nm ++ [s.named])[d.2.1]?.getD false)) = List.replicate names.length (!s.named) := by
      intro names
      induction names with
      | nil => intro i; rfl
      | cons x xs ih =>
        intro i
        simp only [stmtDefs, List.map_cons, ih, List.length_cons, List.replicate_succ]
        rw [List.getElem?_append_right (by omega)]
        simp [hl]
    rw [this]

theorem stmts_unwrap {block : Nat} : ∀ (ss : List AStmt) (st : CState) (done : List NStmt) (nm : List Bool),
    Inv st done → UnwrapIs nm st done → nm.length = done.length →
    ∀ done', Spec.stmts block done ss = .ok done' → ∀ ts st', compileStmts block st ss = .ok (ts, st') →
    Inv st' done' ∧ UnwrapIs (nm ++ ss.map (·.named)) st' done' ∧ (nm ++ ss.map (·.named)).length = done'.length
  | [], st, done, nm, hI, hU, hl, done', hs, ts, st', hc => by
    rw [Spec.stmts] at hs; cases hs
    rw [compileStmts] at hc; cases hc
    simpa using ⟨hI, hU, hl⟩
  | s :: ss, st, done, nm, hI, hU, hl, done', hs, ts, st', hc => by
    rw [Spec.stmts] at hs
    rw [compileStmts] at hc
    cases h1 : Spec.stmt done block s with
    | error e => rw [h1] at hs; cases hs
    | ok n =>
      rw [h1] at hs
      cases h2 : compileStmt block st s with
      | error e => rw [h2] at hc; cases hc
      | ok p =>
        obtain ⟨t, st1⟩ := p
        rw [h2] at hc
        simp only [Except.ok_bind] at hc hs
        cases h3 : compileStmts block st1 ss with
        | error e => rw [h3] at hc; cases hc
        | ok q =>
          obtain ⟨ts2, st2⟩ := q
          rw [h3] at hc
          cases hc
          obtain ⟨hI1, hU1⟩ := stmt_unwrap hI hU hl s n h1 t st1 h2
          have := stmts_unwrap ss st1 (done ++ [n]) (nm ++ [s.named]) hI1 hU1 (by simp [hl]) done' hs ts2 _ h3
          simpa [List.append_assoc] using this

theorem blocks_unwrap : ∀ (bs : List (List AStmt)) (i : Nat) (st : CState) (done : List NStmt) (nm : List Bool),
    Inv st done → UnwrapIs nm st done → nm.length = done.length →
    ∀ done', Spec.blocksFrom i done bs = .ok done' → ∀ out st', compileBlocks i st bs = .ok (out, st') →
    UnwrapIs (nm ++ (numbered i bs).map (·.2.named)) st' done'
  | [], i, st, done, nm, hI, hU, hl, done', hs, out, st', hc => by
    rw [Spec.blocksFrom] at hs; cases hs
    rw [compileBlocks] at hc; cases hc
    simpa [numbered] using hU
  | b :: bs, i, st, done, nm, hI, hU, hl, done', hs, out, st', hc => by
    rw [Spec.blocksFrom] at hs
    rw [compileBlocks_cons] at hc
    cases h1 : Spec.stmts i done b with
    | error e => rw [h1] at hs; cases hs
    | ok done1 =>
      rw [h1] at hs
      cases h2 : compileStmts i st b with
      | error e => rw [h2] at hc; cases hc
      | ok p =>
        obtain ⟨ts, st1⟩ := p
        rw [h2] at hc
        simp only [Except.ok_bind] at hs
        simp only at hc
        cases h3 : compileBlocks (i + 1) st1 bs with
        | error e => rw [h3] at hc; cases hc
        | ok q =>
          obtain ⟨rest, st2⟩ := q
          rw [h3] at hc
          cases hc
          obtain ⟨hI1, hU1, hl1⟩ := stmts_unwrap b st done nm hI hU hl done1 h1 ts st1 h2
          have := blocks_unwrap bs (i + 1) st1 done1 _ hI1 hU1 hl1 done' hs rest _ h3
          simpa [numbered, List.append_assoc, List.map_map, Function.comp_def] using this

/-- the `unwrap` flags the table ends with -/
theorem elab_unwrap (asts : List (List AStmt)) (bs : List Block) (st : CState)
    (h : compileBlocks 0 {} asts = .ok (bs, st)) (ns : List NStmt) (hs : Spec.blocks asts = .ok ns) :
    UnwrapIs ((numbered 0 asts).map (·.2.named)) st ns := by
  have := blocks_unwrap asts 0 {} [] [] Inv.init rfl rfl ns hs bs st h
  simpa using this

-- ================================================================ Part B: generic facts about the inlining loop
/-- `list.remove` on the roots selected by `q` from a list of tagged roots removes the root tagged `hit` -/
theorem removeFirst_filter {α : Type} (x : Tree) (q : α × Tree → Bool) (hit : α → Bool) :
    ∀ L : List (α × Tree),
    (∀ p ∈ L, hit p.1 = true → p.2 = x) →
    (∀ p ∈ L, q p = true → hit p.1 = false → Tree.beq p.2 x = false) →
    (∃ p ∈ L, q p = true ∧ hit p.1 = true) →
    L.Pairwise (fun p p' => ¬(hit p.1 = true ∧ hit p'.1 = true)) →
    removeFirst x ((L.filter q).map (·.2)) = some ((L.filter (fun p => q p && !hit p.1)).map (·.2))
  | [], _, _, he, _ => by obtain ⟨p, hp, _⟩ := he; cases hp
  | p :: L, h1, h2, he, hpw => by
    rw [List.pairwise_cons] at hpw
    have ih := removeFirst_filter x q hit L (fun p' hp' => h1 p' (by simp [hp'])) (fun p' hp' => h2 p' (by simp [hp']))
    cases hq : q p with
    | false =>
      simp only [List.filter_cons, hq, Bool.false_and, Bool.false_eq_true, if_false]
      apply ih _ hpw.2
      obtain ⟨p', hp', hq', hh'⟩ := he
      simp only [List.mem_cons] at hp'
      rcases hp' with rfl | hp'
      · rw [hq] at hq'; cases hq'
      · exact ⟨p', hp', hq', hh'⟩
    | true =>
      cases hh : hit p.1 with
      | true =>
        have hx : p.2 = x := h1 p (by simp) hh
        have hrest : L.filter (fun p => q p && !hit p.1) = L.filter q := by
          apply List.filter_congr
          intro p' hp'
          have : hit p'.1 = false := by
            cases hh' : hit p'.1 with
            | false => rfl
            | true => exact absurd ⟨hh, hh'⟩ (hpw.1 p' hp')
          simp [this]
        simp only [List.filter_cons, hq, hh, if_true, List.map_cons, removeFirst, hx, Tree.beq_refl, Bool.not_true,
          Bool.and_false, Bool.false_eq_true, if_false, hrest]
      | false =>
        have hb : Tree.beq p.2 x = false := h2 p (by simp) hq hh
        have he' : ∃ p' ∈ L, q p' = true ∧ hit p'.1 = true := by
          obtain ⟨p', hp', hq', hh'⟩ := he
          simp only [List.mem_cons] at hp'
          rcases hp' with rfl | hp'
          · rw [hh] at hh'; cases hh'
          · exact ⟨p', hp', hq', hh'⟩
        simp only [List.filter_cons, hq, hh, if_true, List.map_cons, removeFirst, hb, Bool.false_eq_true, if_false,
          Bool.not_false, Bool.and_true, ih he' hpw.2, Option.map_some]

/-- the amount is all of a sub recipe whose inferred quantity is `iq` -/
def amountIsWhole (iq : Option Quantity) : Amount → Bool
  | .proportion none _ _ _ => true
  | .proportion (some v) _ _ _ => v.val == 1
  | .quantity q =>
    match iq with
    | some iq => q.hasEqualValueTo iq
    | none => false

/-- there is exactly one reference, from the defining block and taking everything -/
def singleRefOk (defBlock : Nat) (iq : Option Quantity) : List (Amount × Nat) → Bool
  | [p] => p.2 == defBlock && amountIsWhole iq p.1
  | _ => false

/-- `can_be_inlined` in terms of the references `L` (amount, block) recorded for the entry, in any order -/
theorem canBeInlined_eq (o : NamedOutput) (L : List (Amount × Nat))
    (hr : o.refs.Perm (L.map fun p => (Tree.reference o.sub o.idx p.1, p.2))) :
    o.canBeInlined = (o.sub.numOutputs == 1 && singleRefOk o.defBlock (inferQuantity o.sub) L) := by
  unfold NamedOutput.canBeInlined
  congr 1
  rcases L with _ | ⟨p, _ | ⟨p', L⟩⟩
  · have : o.refs = [] := by simpa using hr
    rw [this]
    rfl
  · have : o.refs = [(Tree.reference o.sub o.idx p.1, p.2)] := by simpa using hr
    rw [this]
    show (p.2 == o.defBlock && _) = (p.2 == o.defBlock && amountIsWhole (inferQuantity o.sub) p.1)
    congr 1
  · have hl := hr.length_eq
    simp only [List.length_map, List.length_cons] at hl
    rcases hrefs : o.refs with _ | ⟨a, _ | ⟨b, rest⟩⟩
    · rw [hrefs] at hl; simp at hl
    · rw [hrefs] at hl; simp at hl
    · show _ = false
      split
      · rename_i heq; simp at heq
      · rfl

theorem foldAll_succ (n i : Nat) (blocks : List Block) (outs : List NamedOutput) :
    foldAll (n + 1) i blocks outs = (foldStep i blocks outs >>= fun p => foldAll n (i + 1) p.1 p.2) := by
  rw [foldAll]

theorem foldAll_add : ∀ (m1 m2 i : Nat) (blocks : List Block) (outs : List NamedOutput),
    foldAll (m1 + m2) i blocks outs = (foldAll m1 i blocks outs >>= fun p => foldAll m2 (i + m1) p.1 p.2)
  | 0, m2, i, blocks, outs => by simp [foldAll, Except.ok_bind]
  | m1 + 1, m2, i, blocks, outs => by
    have : m1 + 1 + m2 = (m1 + m2) + 1 := by omega
    rw [this, foldAll_succ, foldAll_succ]
    cases h : foldStep i blocks outs with
    | error e => rfl
    | ok p =>
      simp only [Except.ok_bind]
      rw [foldAll_add m1 m2 (i + 1) p.1 p.2]
      have : i + 1 + m1 = i + (m1 + 1) := by omega
      rw [this]

/-- iterations over entries that cannot be inlined change nothing -/
theorem foldAll_skip : ∀ (m i : Nat) (blocks : List Block) (outs : List NamedOutput),
    (∀ j o, i ≤ j → j < i + m → outs[j]? = some o → o.canBeInlined = false) →
    foldAll m i blocks outs = .ok (blocks, outs)
  | 0, i, blocks, outs, _ => rfl
  | m + 1, i, blocks, outs, h => by
    rw [foldAll_succ, foldStep_skip i blocks outs (fun o ho => h i o (Nat.le_refl _) (by omega) ho)]
    simp only [Except.ok_bind]
    exact foldAll_skip m (i + 1) blocks outs (fun j o h1 h2 ho => h j o (by omega) (by omega) ho)

-- ---------------------------------------------------------------- generic permutation facts
theorem flatMap_filter_perm {α β : Type} (p : α → Bool) (G : α → List β) (L : List α) :
    (L.flatMap G).Perm ((L.filter p).flatMap G ++ (L.filter (fun a => !p a)).flatMap G) := by
  rw [← List.flatMap_append]
  exact List.Perm.flatMap_right G (List.filter_append_perm p L).symm

theorem flatMap_eq_self_of_singleton {α : Type} (ψ : α → List α) : ∀ (M : List α), (∀ r ∈ M, ψ r = [r]) → M.flatMap ψ = M
  | [], _ => rfl
  | r :: M, h => by
    rw [List.flatMap_cons, h r (by simp), flatMap_eq_self_of_singleton ψ M (fun r' hr' => h r' (by simp [hr']))]
    rfl

/-- expanding the elements selected by `t` (the others stay) -/
theorem flatMap_expand_perm {α : Type} (t : α → Bool) (ψ : α → List α) (M : List α)
    (h : ∀ r, t r = false → ψ r = [r]) :
    (M.flatMap ψ).Perm (M.filter (fun r => !t r) ++ (M.filter t).flatMap ψ) := by
  refine (flatMap_filter_perm t ψ M).trans ?_
  refine List.perm_append_comm.trans ?_
  rw [flatMap_eq_self_of_singleton ψ (M.filter fun r => !t r)]
  intro r hr
  have := (List.mem_filter.mp hr).2
  exact h r (by simpa using this)

end RG
