import RecipeGrid.Model.Fmt
/-! Helper lemmas about `Model/Fmt.lean` and `Model/Num.lean` used by `Props/C11.lean`. -/
namespace RG

/-! ## digit strings -/

/-- value of a digit string (fold over the digits, most significant first) -/
def digitsVal (s : Str) : Nat := s.foldl (fun a c => 10 * a + (c.toNat - 48)) 0

theorem digitsVal_eq (s : Str) : digitsVal s = Nat.ofDigitChars 10 s 0 := rfl

theorem digitsVal_natDigits (n : Nat) : digitsVal (natDigits n) = n := by
  simp [digitsVal_eq, natDigits]

theorem digitsVal_append_zeros (s : Str) (k : Nat) :
    digitsVal (s ++ List.replicate k '0') = 10 ^ k * digitsVal s := by
  simp [digitsVal_eq, Nat.ofDigitChars_append]

theorem digitsVal_zeros_append (s : Str) (k : Nat) :
    digitsVal (List.replicate k '0' ++ s) = digitsVal s := by
  simp [digitsVal_eq, Nat.ofDigitChars_append]

theorem natDigits_ne_nil (n : Nat) : natDigits n ≠ [] := by
  simp [natDigits]

theorem natDigits_isDigit (n : Nat) : ∀ c ∈ natDigits n, c.isDigit = true := by
  intro c hc
  exact Nat.isDigit_of_mem_toDigits (by decide) (by decide) hc

theorem natDigits_all_isDigit (n : Nat) : (natDigits n).all Char.isDigit = true := by
  rw [List.all_eq_true]; exact natDigits_isDigit n

theorem natDigits_length_le {n k : Nat} (hk : 0 < k) (h : n < 10 ^ k) : (natDigits n).length ≤ k :=
  (Nat.length_toDigits_le_iff (by decide) hk).mpr h

theorem dot_not_mem_of_isDigit {s : Str} (h : ∀ c ∈ s, c.isDigit = true) : ∀ c ∈ s, (c != '.') = true := by
  intro c hc
  have := h c hc
  simp only [bne_iff_ne, ne_eq]
  rintro rfl
  simp [Char.isDigit] at this

/-! ## `rstripZeros`, `padLeftZeros` -/

theorem rstripZeros_append_zeros (s : Str) :
    ∃ k, s = rstripZeros s ++ List.replicate k '0' := by
  refine ⟨(s.reverse.takeWhile (· == '0')).length, ?_⟩
  have h1 : s.reverse = s.reverse.takeWhile (· == '0') ++ s.reverse.dropWhile (· == '0') :=
    List.takeWhile_append_dropWhile.symm
  have h2 : s.reverse.takeWhile (· == '0') = List.replicate (s.reverse.takeWhile (· == '0')).length '0' := by
    rw [List.eq_replicate_iff]
    refine ⟨rfl, fun b hb => ?_⟩
    have h := List.all_takeWhile (p := (· == '0')) (l := s.reverse)
    rw [List.all_eq_true] at h
    simpa using h b hb
  have h3 : s = (s.reverse.dropWhile (· == '0')).reverse ++ (s.reverse.takeWhile (· == '0')).reverse := by
    rw [← List.reverse_append, ← h1, List.reverse_reverse]
  have h4 : (s.reverse.takeWhile (· == '0')).reverse = List.replicate (s.reverse.takeWhile (· == '0')).length '0' := by
    rw [h2]; simp
  rw [h4] at h3
  exact h3

theorem rstripZeros_getLast? (s : Str) : (rstripZeros s).getLast? ≠ some '0' := by
  simp only [rstripZeros, List.getLast?_reverse]
  have := List.head?_dropWhile_not (· == '0') s.reverse
  intro h
  rw [h] at this
  simp at this

theorem rstripZeros_sublist (s : Str) : ∀ c ∈ rstripZeros s, c ∈ s := by
  intro c hc
  simp only [rstripZeros, List.mem_reverse] at hc
  have := (List.dropWhile_sublist (· == '0') (l := s.reverse)).mem hc
  simpa using this

theorem rstripZeros_length_le (s : Str) : (rstripZeros s).length ≤ s.length := by
  obtain ⟨k, hk⟩ := rstripZeros_append_zeros s
  have := congrArg List.length hk
  simp at this; omega

theorem padLeftZeros_length {w : Nat} {s : Str} (h : s.length ≤ w) : (padLeftZeros w s).length = w := by
  simp [padLeftZeros]; omega

theorem padLeftZeros_isDigit {w : Nat} {s : Str} (h : ∀ c ∈ s, c.isDigit = true) :
    ∀ c ∈ padLeftZeros w s, c.isDigit = true := by
  intro c hc
  simp only [padLeftZeros, List.mem_append, List.mem_replicate] at hc
  rcases hc with ⟨_, rfl⟩ | hc
  · decide
  · exact h c hc

theorem digitsVal_padLeftZeros (w : Nat) (s : Str) : digitsVal (padLeftZeros w s) = digitsVal s := by
  simp [padLeftZeros, digitsVal_zeros_append]

/-! ## `roundHalfEven` -/

theorem roundHalfEven_bounds (q : Rat) :
    2 * (((roundHalfEven q : Int) : Rat) - q) ≤ 1 ∧ 2 * (q - ((roundHalfEven q : Int) : Rat)) ≤ 1 := by
  have h1 := Rat.floor_le q
  have h2 := Rat.lt_floor_add_one q
  have h3 : ((q.floor + 1 : Int) : Rat) = (q.floor : Rat) + 1 := by simp [Rat.intCast_add]
  simp only [roundHalfEven]
  split
  · constructor <;> grind
  · split
    · constructor <;> grind
    · constructor <;> grind

/-- adding an *even* integer commutes with rounding half-to-even -/
theorem roundHalfEven_add_even (q : Rat) (n : Int) (hn : n % 2 = 0) :
    roundHalfEven (q + (n : Rat)) = roundHalfEven q + n := by
  have h3 : q + (n : Rat) - ((q.floor + n : Int) : Rat) = q - (q.floor : Rat) := by
    rw [Rat.intCast_add]; grind
  have h4 : (q.floor + n) % 2 = q.floor % 2 := by omega
  simp only [roundHalfEven, Rat.floor_add_intCast, h3, h4]
  split
  · omega
  · split <;> omega

theorem roundHalfEven_nonneg {q : Rat} (hq : 0 ≤ q) : 0 ≤ roundHalfEven q := by
  have h0 : 0 ≤ q.floor := Rat.le_floor_iff.mpr (by simpa using hq)
  simp only [roundHalfEven]
  split
  · omega
  · split <;> omega

/-- rounding `q < n` never exceeds the integer `n` -/
theorem roundHalfEven_le_of_lt {q : Rat} {n : Int} (hq : q < (n : Rat)) : roundHalfEven q ≤ n := by
  have h0 : q.floor < n := Rat.floor_lt_iff.mpr hq
  simp only [roundHalfEven]
  split
  · omega
  · split <;> omega

theorem roundHalfEven_of_lt_half {q : Rat} (h : 2 * (q - (q.floor : Rat)) < 1) : roundHalfEven q = q.floor := by
  simp only [roundHalfEven]
  split
  · grind
  · split
    · grind
    · rfl

theorem roundHalfEven_of_gt_half {q : Rat} (h : 1 < 2 * (q - (q.floor : Rat))) : roundHalfEven q = q.floor + 1 := by
  simp only [roundHalfEven]
  split
  · rfl
  · grind

theorem floor_toNat_cast {x : Rat} (hx : 0 ≤ x) : ((x.floor.toNat : Nat) : Rat) = (x.floor : Rat) := by
  have h0 : 0 ≤ x.floor := Rat.le_floor_iff.mpr (by simpa using hx)
  rw [← Rat.intCast_natCast, Int.toNat_of_nonneg h0]

/-! ## the fractional part -/

theorem frac_bounds {x : Rat} (hx : 0 ≤ x) :
    0 ≤ x - (x.floor.toNat : Rat) ∧ x - (x.floor.toNat : Rat) < 1 := by
  have h1 := Rat.floor_le x
  have h2 := Rat.lt_floor_add_one x
  rw [Rat.intCast_add] at h2
  rw [floor_toNat_cast hx]
  constructor <;> grind

theorem pow10_cast_pos (d : Nat) : (0 : Rat) < ((10 ^ d : Nat) : Rat) :=
  Rat.natCast_pos.mpr (Nat.pow_pos (by decide))

theorem pow10_cast_ge {d : Nat} (hd : 0 < d) : (10 : Rat) ≤ ((10 ^ d : Nat) : Rat) := by
  have : 10 ^ 1 ≤ 10 ^ d := Nat.pow_le_pow_right (by decide) hd
  have := Rat.natCast_le_natCast.mpr this
  simpa using this

theorem even_mul_pow10 (i : Nat) {d : Nat} (hd : 0 < d) : ((i * 10 ^ d : Nat) : Int) % 2 = 0 := by
  obtain ⟨d', rfl⟩ : ∃ d', d = d' + 1 := ⟨d - 1, by omega⟩
  have : i * 10 ^ (d' + 1) = 2 * (i * 10 ^ d' * 5) := by rw [Nat.pow_succ]; grind
  rw [this]; omega

/-- for at least one decimal, rounding `x·10^d` splits into the integer part and the rounded fractional part -/
theorem roundHalfEven_split (x : Rat) {d : Nat} (hd : 0 < d) :
    roundHalfEven (x * ((10 ^ d : Nat) : Rat)) =
      roundHalfEven ((x - (x.floor.toNat : Rat)) * ((10 ^ d : Nat) : Rat)) + ((x.floor.toNat * 10 ^ d : Nat) : Int) := by
  rw [← roundHalfEven_add_even _ _ (even_mul_pow10 _ hd)]
  congr 1
  rw [Rat.intCast_natCast, Rat.natCast_mul]
  grind

theorem round_frac_nonneg {x : Rat} (hx : 0 ≤ x) (d : Nat) :
    0 ≤ roundHalfEven ((x - (x.floor.toNat : Rat)) * ((10 ^ d : Nat) : Rat)) :=
  roundHalfEven_nonneg (Rat.mul_nonneg (frac_bounds hx).1 (Rat.le_of_lt (pow10_cast_pos d)))

theorem round_frac_le {x : Rat} (hx : 0 ≤ x) (d : Nat) :
    roundHalfEven ((x - (x.floor.toNat : Rat)) * ((10 ^ d : Nat) : Rat)) ≤ ((10 ^ d : Nat) : Int) := by
  apply roundHalfEven_le_of_lt
  have := Rat.mul_lt_mul_of_pos_right (frac_bounds hx).2 (pow10_cast_pos d)
  rw [Rat.intCast_natCast]
  simpa using this

/-- carry: the fractional part rounds up to a whole unit, so `x` itself rounds up -/
theorem roundHalfEven_of_carry {x : Rat} (hx : 0 ≤ x) {d : Nat} (hd : 0 < d)
    (h : roundHalfEven ((x - (x.floor.toNat : Rat)) * ((10 ^ d : Nat) : Rat)) = ((10 ^ d : Nat) : Int)) :
    roundHalfEven x = (x.floor.toNat : Int) + 1 := by
  have hb := (roundHalfEven_bounds ((x - (x.floor.toNat : Rat)) * ((10 ^ d : Nat) : Rat))).1
  rw [h, Rat.intCast_natCast] at hb
  have hP := pow10_cast_ge hd
  have h0 : 0 ≤ x.floor := Rat.le_floor_iff.mpr (by simpa using hx)
  rw [Int.toNat_of_nonneg h0]
  apply roundHalfEven_of_gt_half
  rw [floor_toNat_cast hx] at hb
  apply Rat.not_le.mp
  intro hle
  have := Rat.mul_le_mul_of_nonneg_right hle (Rat.le_of_lt (pow10_cast_pos d))
  grind

/-- the fractional part rounds to zero, so `x` itself rounds down -/
theorem roundHalfEven_of_zero {x : Rat} (hx : 0 ≤ x) {d : Nat} (hd : 0 < d)
    (h : roundHalfEven ((x - (x.floor.toNat : Rat)) * ((10 ^ d : Nat) : Rat)) = 0) :
    roundHalfEven x = (x.floor.toNat : Int) := by
  have hb := (roundHalfEven_bounds ((x - (x.floor.toNat : Rat)) * ((10 ^ d : Nat) : Rat))).2
  rw [h] at hb
  have hP := pow10_cast_ge hd
  have h0 : 0 ≤ x.floor := Rat.le_floor_iff.mpr (by simpa using hx)
  rw [Int.toNat_of_nonneg h0]
  apply roundHalfEven_of_lt_half
  rw [floor_toNat_cast hx] at hb
  apply Rat.not_le.mp
  intro hle
  have := Rat.mul_le_mul_of_nonneg_right hle (Rat.le_of_lt (pow10_cast_pos d))
  grind

theorem intStr_of_nonneg {n : Int} (h : 0 ≤ n) : intStr n = natDigits n.toNat := by
  have : ¬ n < 0 := by omega
  have h2 : n.natAbs = n.toNat := by omega
  simp [intStr, this, h2]

theorem intStr_natCast (n : Nat) : intStr (n : Int) = natDigits n := by
  rw [intStr_of_nonneg (by omega)]; simp

/-- The four ways `formatFloatSig` produces its text, with the rounded value each one denotes. -/
theorem formatFloatSig_cases (sig : Nat) (x : Rat) (hx : 0 ≤ x) :
    (∃ n : Nat, formatFloatSig sig x = natDigits n ∧
        roundHalfEven (x * ((10 ^ fracDigits sig x : Nat) : Rat)) = ((n * 10 ^ fracDigits sig x : Nat) : Int)) ∨
    (∃ (s : Str) (k : Nat), formatFloatSig sig x = natDigits x.floor.toNat ++ '.' :: s ∧ s ≠ [] ∧
        (∀ c ∈ s, c.isDigit = true) ∧ s.getLast? ≠ some '0' ∧ s.length + k = fracDigits sig x ∧
        roundHalfEven (x * ((10 ^ fracDigits sig x : Nat) : Rat)) =
          ((x.floor.toNat * 10 ^ fracDigits sig x + 10 ^ k * digitsVal s : Nat) : Int)) := by
  simp only [formatFloatSig]
  generalize fracDigits sig x = d
  by_cases hd : d = 0
  · subst hd
    left
    refine ⟨(roundHalfEven x).toNat, ?_, ?_⟩
    · simp [intStr_of_nonneg (roundHalfEven_nonneg hx)]
    · have := roundHalfEven_nonneg hx
      simp [Rat.mul_one]; omega
  · have hd' : 0 < d := Nat.pos_of_ne_zero hd
    have hR0 := round_frac_nonneg hx d
    have hR1 := round_frac_le hx d
    have hsplit := roundHalfEven_split x hd'
    generalize hR : roundHalfEven ((x - (x.floor.toNat : Rat)) * ((10 ^ d : Nat) : Rat)) = R at *
    have hdb : (d == 0) = false := by simp [hd]
    simp only [hdb, Bool.false_eq_true, if_false]
    by_cases hc : R.toNat ≥ 10 ^ d
    · -- carry
      left
      have hRP : R = ((10 ^ d : Nat) : Int) := by omega
      have := roundHalfEven_of_carry hx hd' (hR.trans hRP)
      refine ⟨x.floor.toNat + 1, ?_, ?_⟩
      · simp only [hc, if_true, List.isEmpty_nil]
        rw [this, ← intStr_natCast]; rfl
      · rw [hsplit, hRP]; push_cast; grind
    · simp only [hc, if_false]
      have hlt : R.toNat < 10 ^ d := by omega
      have hlen := natDigits_length_le hd' hlt
      obtain ⟨k, hk⟩ := rstripZeros_append_zeros (padLeftZeros d (natDigits R.toNat))
      have hval : R.toNat = 10 ^ k * digitsVal (rstripZeros (padLeftZeros d (natDigits R.toNat))) := by
        rw [← digitsVal_append_zeros, ← hk, digitsVal_padLeftZeros, digitsVal_natDigits]
      have hklen : (rstripZeros (padLeftZeros d (natDigits R.toNat))).length + k = d := by
        have := congrArg List.length hk
        rw [padLeftZeros_length hlen] at this
        simpa using this.symm
      have hdig : ∀ c ∈ rstripZeros (padLeftZeros d (natDigits R.toNat)), c.isDigit = true :=
        fun c hc => padLeftZeros_isDigit (natDigits_isDigit _) c (rstripZeros_sublist _ c hc)
      have hlast := rstripZeros_getLast? (padLeftZeros d (natDigits R.toNat))
      generalize rstripZeros (padLeftZeros d (natDigits R.toNat)) = s at *
      by_cases hs : s = []
      · -- the fraction rounds to nothing
        left
        subst hs
        have hRz : R = 0 := by simp [digitsVal] at hval; omega
        have := roundHalfEven_of_zero hx hd' (hR.trans hRz)
        refine ⟨x.floor.toNat, ?_, ?_⟩
        · simp only [List.isEmpty_nil, if_true]
          rw [this, intStr_natCast]
        · rw [hsplit, hRz]; simp
      · right
        refine ⟨s, k, ?_, hs, hdig, hlast, hklen, ?_⟩
        · have : s.isEmpty = false := by simpa using hs
          simp [this]
        · have hRR : R = ((10 ^ k * digitsVal s : Nat) : Int) := by omega
          rw [hsplit, hRR, Int.add_comm]; rfl

theorem natCast_div_add_mod (n : Nat) {d : Nat} (hd : 0 < d) :
    ((n / d : Nat) : Rat) + ((n % d : Nat) : Rat) / (d : Rat) = (n : Rat) / (d : Rat) := by
  have hdm : (n : Rat) = ((n / d : Nat) : Rat) * (d : Rat) + ((n % d : Nat) : Rat) := by
    rw [← Rat.natCast_mul, ← Rat.natCast_add, Nat.div_add_mod']
  have hdpos : (0 : Rat) < (d : Rat) := Rat.natCast_pos.mpr hd
  rw [hdm]
  generalize ((n / d : Nat) : Rat) = A
  generalize ((n % d : Nat) : Rat) = B
  generalize (d : Rat) = D at hdpos
  grind

/-! ## splitting decimal text at the point -/

theorem takeWhile_digits_dot {a : Str} (ha : ∀ c ∈ a, c.isDigit = true) (b : Str) :
    (a ++ '.' :: b).takeWhile (· != '.') = a := by
  rw [List.takeWhile_append_of_pos (dot_not_mem_of_isDigit ha)]
  simp

theorem dropWhile_digits_dot {a : Str} (ha : ∀ c ∈ a, c.isDigit = true) (b : Str) :
    (a ++ '.' :: b).dropWhile (· != '.') = '.' :: b := by
  rw [List.dropWhile_append_of_pos (dot_not_mem_of_isDigit ha)]
  simp

theorem takeWhile_digits {a : Str} (ha : ∀ c ∈ a, c.isDigit = true) :
    a.takeWhile (· != '.') = a := by
  have := List.takeWhile_append_of_pos (l₂ := []) (dot_not_mem_of_isDigit ha)
  simpa using this

theorem dropWhile_digits {a : Str} (ha : ∀ c ∈ a, c.isDigit = true) :
    a.dropWhile (· != '.') = [] := by
  have := List.dropWhile_append_of_pos (l₂ := []) (dot_not_mem_of_isDigit ha)
  simpa using this

end RG
