import RecipeGrid.Lemmas.Parser
import RecipeGrid.Lemmas.FoldSpec
/-! Position independence of the parser (`Model/Parser.lean`): running a rule on `pre ++ s` from position
    `i + pre.length` gives the result of running it on `s` from `i`, with every position and every recorded
    source offset moved by `pre.length` — provided no character of `pre` is a word character (the only rule that
    looks back, `\b`, then sees "not a word character" before the start of `s`, exactly as it does before the start
    of the text).  Used by `Props/C19b.lean` and `Props/C13b.lean`. -/
namespace RG

/-! ## moving the offsets recorded in an AST -/

def SubStr.shift (k : Nat) : SubStr → SubStr
  | .sub off s => .sub (off + k) s
  | .num off n => .num (off + k) n

def shiftString (k : Nat) (s : AString) : AString := s.map (SubStr.shift k)

def shiftAmount (k : Nat) : AAmount → AAmount
  | .qty off v u sp p => .qty (off + k) v (u.map (shiftString k)) sp p
  | .prop off v pct w p => .prop (off + k) v pct w p

mutual
def shiftExpr (k : Nat) : AExpr → AExpr
  | .step name inputs => .step (shiftString k name) (shiftExprs k inputs)
  | .ref name amount => .ref (shiftString k name) (amount.map (shiftAmount k))
def shiftExprs (k : Nat) : List AExpr → List AExpr
  | [] => []
  | e :: es => shiftExpr k e :: shiftExprs k es
end

theorem shiftExprs_eq_map (k : Nat) : ∀ es : List AExpr, shiftExprs k es = es.map (shiftExpr k)
  | [] => rfl
  | e :: es => by rw [shiftExprs, shiftExprs_eq_map k es]; rfl

def shiftStmt (k : Nat) (s : AStmt) : AStmt :=
  { expr := shiftExpr k s.expr, outputs := s.outputs.map (List.map (shiftString k)), named := s.named }

namespace Parser

/-! ## the relation between a run on the padded text and a run on the text -/

/-- the state `st`, seen from the padded text -/
def shSt (k : Nat) (st : PState) : PState := ⟨st.pos + k, st.zero⟩

@[simp] theorem shSt_pos (k : Nat) (st : PState) : (shSt k st).pos = st.pos + k := rfl
@[simp] theorem shSt_zero (k : Nat) (st : PState) : (shSt k st).zero = st.zero := rfl

/-- no character of the padding is a word character (regex `\w`) -/
def NonWord (pre : Str) : Prop := ∀ c ∈ pre, isReWord c = false

/-- `p'` on `pre ++ s` from the shifted state does what `p` does on `s`, with the value mapped by `g` and the
    final position shifted -/
def Sh {α α' : Type} (pre : Str) (g : α → α') (p' : P α') (p : P α) : Prop :=
  NonWord pre → ∀ (s : Str) (st : PState),
    p' (pre ++ s).toArray (shSt pre.length st) =
      (p s.toArray st).map (fun r => (g r.1, shSt pre.length r.2))

variable {pre : Str}

theorem Sh.pure {α α' : Type} {g : α → α'} {a : α} {b : α'} (h : b = g a) :
    Sh pre g (pure b) (pure a) := by
  intro _ s st; subst h; rfl

theorem Sh.fail {α α' : Type} {g : α → α'} : Sh pre g (fail : P α') (fail : P α) := by
  intro _ s st; rfl

theorem Sh.bind {α α' β β' : Type} {f : α → α'} {g : β → β'} {m' : P α'} {m : P α}
    {h' : α' → P β'} {h : α → P β} (hm : Sh pre f m' m) (hh : ∀ a, Sh pre g (h' (f a)) (h a)) :
    Sh pre g (m' >>= h') (m >>= h) := by
  intro hw s st
  rw [bind_apply, bind_apply, hm hw s st]
  cases m s.toArray st with
  | none => rfl
  | some r => obtain ⟨a, s1⟩ := r; exact hh a hw s s1

theorem Sh.orElse {α α' : Type} {g : α → α'} {p' q' : P α'} {p q : P α}
    (hp : Sh pre g p' p) (hq : Sh pre g q' q) : Sh pre g (p' <|> q') (p <|> q) := by
  intro hw s st
  rw [orElse_apply, orElse_apply, hp hw s st]
  cases p s.toArray st with
  | none => exact hq hw s st
  | some r => rfl

theorem Sh.map {α α' β β' : Type} {f : α → α'} {g : β → β'} {u' : α' → β'} {u : α → β} {p' : P α'} {p : P α}
    (hp : Sh pre f p' p) (hu : ∀ a, u' (f a) = g (u a)) : Sh pre g (u' <$> p') (u <$> p) := by
  intro hw s st
  rw [map_apply, map_apply, hp hw s st]
  cases p s.toArray st with
  | none => rfl
  | some r => obtain ⟨a, s1⟩ := r; simp [hu]

theorem Sh.opt {α α' : Type} {g : α → α'} {p' : P α'} {p : P α} (hp : Sh pre g p' p) :
    Sh pre (Option.map g) (opt p') (opt p) :=
  Sh.orElse (Sh.map hp fun _ => rfl) (Sh.pure rfl)

theorem Sh.getPos : Sh pre (· + pre.length) getPos getPos := by
  intro _ s st; rfl

theorem Sh.remaining : Sh pre id remaining remaining := by
  intro _ s st
  simp only [remaining_apply, Option.map_some, shSt_pos, List.size_toArray, List.length_append, id]
  congr 2
  omega

theorem Sh.manyF {α α' : Type} {g : α → α'} {p' : P α'} {p : P α} (hp : Sh pre g p' p) :
    ∀ fuel, Sh pre (List.map g) (manyF p' fuel) (manyF p fuel)
  | 0 => Sh.pure rfl
  | fuel + 1 => by
    unfold Parser.manyF
    exact Sh.orElse (Sh.bind hp fun a => Sh.bind (Sh.manyF hp fuel) fun rest => Sh.pure rfl) (Sh.pure rfl)

theorem Sh.many {α α' : Type} {g : α → α'} {p' : P α'} {p : P α} (hp : Sh pre g p' p) :
    Sh pre (List.map g) (many p') (many p) :=
  Sh.bind Sh.remaining fun fuel => Sh.manyF hp fuel


/-! ## characters -/

theorem getElem?_pad (pre s : Str) (i : Nat) : (pre ++ s).toArray[i + pre.length]? = s.toArray[i]? := by
  simp [List.getElem?_append_right]

theorem size_pad (pre s : Str) : (pre ++ s).toArray.size = s.toArray.size + pre.length := by
  simp; omega

theorem Sh.sat (p : Char → Bool) : Sh pre id (sat p) (sat p) := by
  intro _ s st
  simp only [Parser.sat, shSt_pos, getElem?_pad]
  cases s.toArray[st.pos]? with
  | none => rfl
  | some c =>
    by_cases h : p c = true
    · simp only [h, if_true, Option.map_some, id]
      simp only [shSt, Nat.add_right_comm]
    · simp only [h]; rfl

theorem Sh.anyChar : Sh pre id anyChar anyChar := Sh.sat _

theorem Sh.lit (c : Char) : Sh pre id (lit c) (lit c) :=
  Sh.bind (Sh.sat _) fun _ => Sh.pure rfl

theorem spanEnd_go_pad (p : Char → Bool) (pre s : Str) : ∀ fuel j,
    spanEnd.go p (pre ++ s).toArray fuel (j + pre.length) = spanEnd.go p s.toArray fuel j + pre.length
  | 0, j => rfl
  | fuel + 1, j => by
    simp only [spanEnd.go, getElem?_pad]
    cases s.toArray[j]? with
    | none => rfl
    | some c =>
      by_cases h : p c = true
      · simp only [h, if_true]
        rw [Nat.add_right_comm, spanEnd_go_pad p pre s fuel (j + 1)]
      · simp only [h]; rfl

theorem spanEnd_pad (p : Char → Bool) (pre s : Str) (i : Nat) :
    spanEnd p (pre ++ s).toArray (i + pre.length) = spanEnd p s.toArray i + pre.length := by
  unfold spanEnd
  rw [size_pad, show s.toArray.size + pre.length - (i + pre.length) = s.toArray.size - i by omega,
    spanEnd_go_pad]

theorem Sh.skipMany (p : Char → Bool) : Sh pre id (skipMany p) (skipMany p) := by
  intro _ s st
  simp only [Parser.skipMany, shSt_pos, spanEnd_pad, Option.map_some, id]
  rfl

theorem Sh.skipMany1 (p : Char → Bool) : Sh pre id (skipMany1 p) (skipMany1 p) :=
  Sh.bind (Sh.sat _) fun _ => Sh.skipMany p

theorem Sh.hsp : Sh pre id hsp hsp := Sh.skipMany1 _
theorem Sh.ohsp : Sh pre id ohsp ohsp := Sh.skipMany _
theorem Sh.sp : Sh pre id sp sp := Sh.skipMany1 _
theorem Sh.osp : Sh pre id osp osp := Sh.skipMany _

theorem Sh.eof : Sh pre id eof eof := by
  intro _ s st
  simp only [Parser.eof, size_pad, shSt_pos]
  by_cases h : s.toArray.size ≤ st.pos
  · rw [if_pos h, if_pos (by omega)]; rfl
  · rw [if_neg h, if_neg (by omega)]; rfl

/-- the one rule that looks back: before the start of `s` it sees the last character of the padding, which is
    not a word character — like "before the start of the text" -/
theorem wordBoundaryAt_pad (hw : NonWord pre) (s : Str) (i : Nat) :
    wordBoundaryAt (pre ++ s).toArray (i + pre.length) = wordBoundaryAt s.toArray i := by
  unfold wordBoundaryAt
  simp only [getElem?_pad]
  congr 1
  by_cases hi : i = 0
  · subst hi
    simp only [Nat.zero_add, if_true]
    by_cases hp : pre.length = 0
    · rw [if_pos hp]
    · rw [if_neg hp]
      have hlt : pre.length - 1 < pre.length := by omega
      have : (pre ++ s).toArray[pre.length - 1]? = some pre[pre.length - 1] := by
        simp [List.getElem?_append_left hlt]
      rw [this]
      simp only [Option.map_some, Option.getD_some]
      exact hw _ (List.getElem_mem hlt)
  · rw [if_neg hi, if_neg (by omega), show i + pre.length - 1 = (i - 1) + pre.length by omega, getElem?_pad]

theorem Sh.wordBoundary : Sh pre id wordBoundary wordBoundary := by
  intro hw s st
  simp only [Parser.wordBoundary, shSt_pos, wordBoundaryAt_pad hw]
  cases wordBoundaryAt s.toArray st.pos <;> rfl

theorem Sh.ciWord : ∀ w : Str, Sh pre id (ciWord w) (ciWord w)
  | [] => Sh.pure rfl
  | l :: ls => by
    unfold Parser.ciWord
    exact Sh.bind (Sh.sat _) fun _ => Sh.ciWord ls

/-! ## matched text -/

theorem extract_pad (pre s : Str) (i j : Nat) :
    (pre ++ s).toArray.extract (i + pre.length) (j + pre.length) = s.toArray.extract i j := by
  apply Array.ext'
  simp only [Array.toList_extract, List.extract_eq_take_drop, List.drop_append, List.take_append,
    List.length_drop]
  rw [List.drop_eq_nil_of_le (by omega), show j + pre.length - (i + pre.length) = j - i by omega,
    show i + pre.length - pre.length = i by omega]
  simp

theorem Sh.withText {α α' : Type} {g : α → α'} {p' : P α'} {p : P α} (hp : Sh pre g p' p) :
    Sh pre (fun x => (g x.1, x.2)) (withText p') (withText p) := by
  intro hw s st
  simp only [Parser.withText, hp hw s st]
  cases p s.toArray st with
  | none => rfl
  | some r => simp only [Option.map_some, shSt_pos, extract_pad]

theorem Sh.textOf {p' p : P Unit} (hp : Sh pre id p' p) : Sh pre id (textOf p') (textOf p) :=
  Sh.bind (Sh.withText hp) fun _ => Sh.pure rfl

/-! ## numbers -/

theorem Sh.digits : Sh pre id digits digits := Sh.textOf (Sh.skipMany1 _)

/-- what the padding does to a number with its offset -/
def shNum (k : Nat) (x : Nat × Num) : Nat × Num := (x.1 + k, x.2)

theorem Sh.decimal : Sh pre (shNum pre.length) decimal decimal := by
  unfold Parser.decimal
  refine Sh.bind Sh.getPos fun off => ?_
  refine Sh.bind Sh.digits fun whole => ?_
  refine Sh.bind (Sh.opt (g := id) (Sh.bind (Sh.lit _) fun _ => Sh.textOf (Sh.skipMany _))) fun frac => ?_
  cases frac with
  | none => exact Sh.pure rfl
  | some frac => exact Sh.pure rfl

theorem Sh.fraction : Sh pre (shNum pre.length) fraction fraction := by
  unfold Parser.fraction
  refine Sh.bind Sh.getPos fun start => ?_
  refine Sh.bind (Sh.opt (g := id) (Sh.bind Sh.digits fun ds => Sh.bind Sh.hsp fun _ => Sh.pure rfl)) fun integer => ?_
  refine Sh.bind Sh.getPos fun numerStart => ?_
  refine Sh.bind Sh.digits fun numer => ?_
  refine Sh.bind Sh.ohsp fun _ => ?_
  refine Sh.bind (Sh.lit _) fun _ => ?_
  refine Sh.bind Sh.ohsp fun _ => ?_
  refine Sh.bind Sh.digits fun denom => ?_
  simp only [id, Option.map_id_fun]
  split
  · exact Sh.fail
  · refine Sh.pure ?_
    cases integer <;> rfl

theorem Sh.number : Sh pre (shNum pre.length) number number := Sh.orElse Sh.fraction Sh.decimal

/-! ## strings -/

theorem Sh.of_eq {α α' : Type} {g g' : α → α'} {p' : P α'} {p : P α} (h : Sh pre g p' p) (e : g = g') :
    Sh pre g' p' p := e ▸ h

theorem Sh.many_id {α : Type} {p' p : P α} (hp : Sh pre id p' p) : Sh pre id (Parser.many p') (Parser.many p) :=
  (Sh.many hp).of_eq (by funext l; simp)

theorem trimBack_of_le (p : Char → Bool) (t : Array Char) (lo : Nat) : ∀ hi, hi ≤ lo → trimBack p t lo hi = lo
  | 0, _ => rfl
  | hi + 1, h => by rw [trimBack, if_pos h]

theorem trimBack_pad (p : Char → Bool) (pre s : Str) (lo : Nat) : ∀ hi,
    trimBack p (pre ++ s).toArray (lo + pre.length) (hi + pre.length) = trimBack p s.toArray lo hi + pre.length
  | 0 => by rw [trimBack_of_le _ _ _ _ (by omega)]; rfl
  | hi + 1 => by
    rw [show hi + 1 + pre.length = (hi + pre.length) + 1 by omega, trimBack, trimBack, getElem?_pad]
    by_cases h : hi + 1 ≤ lo
    · rw [if_pos h, if_pos (by omega)]
    · rw [if_neg h, if_neg (by omega)]
      cases s.toArray[hi]? with
      | none => exact trimBack_pad p pre s lo hi
      | some c =>
        by_cases hc : p c = true
        · simp only [hc, if_true]; omega
        · simp only [hc]; exact trimBack_pad p pre s lo hi

theorem Sh.nakedTail : Sh pre id nakedTail nakedTail := by
  intro _ s st
  simp only [Parser.nakedTail, shSt_pos, spanEnd_pad, trimBack_pad, Option.map_some, id]
  rfl

theorem Sh.nakedString : Sh pre (shiftString pre.length) nakedString nakedString := by
  rw [nakedString_eq]
  refine Sh.bind Sh.getPos fun off => ?_
  refine Sh.bind (Sh.withText (g := id) (Sh.bind (Sh.sat _) fun _ => Sh.nakedTail)) fun x => ?_
  obtain ⟨u, text⟩ := x
  exact Sh.pure rfl

theorem Sh.escaped : Sh pre id escaped escaped :=
  Sh.bind (Sh.lit _) fun _ => Sh.bind Sh.anyChar fun _ => Sh.pure rfl

theorem Sh.quotedString (q : Char) : Sh pre (shiftString pre.length) (quotedString q) (quotedString q) := by
  unfold Parser.quotedString
  refine Sh.bind Sh.getPos fun off => ?_
  refine Sh.bind (Sh.lit _) fun _ => ?_
  refine Sh.bind (Sh.many_id (Sh.orElse Sh.escaped (Sh.sat _))) fun body => ?_
  refine Sh.bind (Sh.lit _) fun _ => ?_
  exact Sh.pure rfl

def shItem (k : Nat) : BracketedItem → BracketedItem
  | .num off n => .num (off + k) n
  | .chr off c => .chr (off + k) c

theorem Sh.bracketedItem : Sh pre (shItem pre.length) bracketedItem bracketedItem := by
  unfold Parser.bracketedItem
  refine Sh.orElse ?_ (Sh.orElse ?_ ?_)
  · refine Sh.bind Sh.number fun x => ?_
    obtain ⟨off, n⟩ := x
    exact Sh.pure rfl
  · exact Sh.bind Sh.getPos fun off => Sh.bind Sh.escaped fun c => Sh.pure rfl
  · exact Sh.bind Sh.getPos fun off => Sh.bind (Sh.sat _) fun c => Sh.pure rfl

def shAcc (k : Nat) (a : BracketedAcc) : BracketedAcc :=
  ⟨shiftString k a.out, a.segment, a.segmentOff.map (· + k)⟩

/-- a pending segment has a recorded start -/
def AccInv (a : BracketedAcc) : Prop := a.segment ≠ [] → a.segmentOff.isSome = true

theorem push_shift (k : Nat) (a : BracketedAcc) (ha : AccInv a) (i : BracketedItem) :
    (shAcc k a).push (shItem k i) = shAcc k (a.push i) ∧ AccInv (a.push i) := by
  obtain ⟨out, seg, so⟩ := a
  cases i with
  | num off n =>
    refine ⟨?_, fun h => absurd rfl h⟩
    cases seg with
    | nil => simp [BracketedAcc.push, shAcc, shItem, shiftString, SubStr.shift]
    | cons c cs =>
      have := ha (by simp)
      cases so with
      | none => cases this
      | some o => simp [BracketedAcc.push, shAcc, shItem, shiftString, SubStr.shift]
  | chr off c =>
    refine ⟨?_, fun _ => rfl⟩
    cases so <;> simp [BracketedAcc.push, shAcc, shItem]

theorem foldl_push_shift (k : Nat) : ∀ (body : List BracketedItem) (a : BracketedAcc), AccInv a →
    (body.map (shItem k)).foldl BracketedAcc.push (shAcc k a) = shAcc k (body.foldl BracketedAcc.push a)
  | [], _, _ => rfl
  | i :: body, a, ha => by
    rw [List.map_cons, List.foldl_cons, List.foldl_cons, (push_shift k a ha i).1]
    exact foldl_push_shift k body _ (push_shift k a ha i).2

theorem finish_shift (k : Nat) (a : BracketedAcc) : (shAcc k a).finish = shiftString k a.finish := by
  obtain ⟨out, seg, so⟩ := a
  cases so <;> simp [BracketedAcc.finish, shAcc, shiftString, SubStr.shift]

theorem Sh.bracketedString : Sh pre (shiftString pre.length) bracketedString bracketedString := by
  unfold Parser.bracketedString
  refine Sh.bind Sh.getPos fun off => ?_
  refine Sh.bind (Sh.lit _) fun _ => ?_
  refine Sh.bind (Sh.many Sh.bracketedItem) fun body => ?_
  refine Sh.bind (Sh.lit _) fun _ => ?_
  refine Sh.pure ?_
  rw [← finish_shift, ← foldl_push_shift _ _ _ (fun h => absurd rfl h)]
  rfl

theorem Sh.stringF (static : Bool) : ∀ fuel,
    Sh pre (shiftString pre.length) (stringF static fuel) (stringF static fuel)
  | 0 => Sh.fail
  | fuel + 1 => by
    unfold Parser.stringF
    refine Sh.bind (f := shiftString pre.length) ?_ fun first => ?_
    · refine Sh.orElse Sh.nakedString (Sh.orElse (Sh.quotedString _) (Sh.orElse (Sh.quotedString _) ?_))
      cases static
      · exact Sh.bracketedString
      · exact Sh.fail
    refine Sh.bind (Sh.opt (g := shiftString pre.length) ?_) fun rest => ?_
    · refine Sh.bind Sh.getPos fun off => ?_
      refine Sh.bind (Sh.textOf Sh.ohsp) fun space => ?_
      refine Sh.bind (Sh.stringF static fuel) fun more => ?_
      refine Sh.pure ?_
      simp only [id]
      split <;> rfl
    · refine Sh.pure ?_
      cases rest <;> simp [shiftString]

theorem Sh.string (static : Bool) : Sh pre (shiftString pre.length) (string static) (string static) :=
  Sh.bind Sh.remaining fun _ => Sh.stringF static _

/-! ## amounts -/

theorem Sh.preposition : Sh pre id preposition preposition := by
  unfold Parser.preposition
  refine Sh.bind (Sh.ciWord _) fun _ => ?_
  exact Sh.orElse (Sh.bind Sh.hsp fun _ => Sh.bind (Sh.ciWord _) fun _ => Sh.wordBoundary) Sh.wordBoundary

theorem Sh.hspPreposition : Sh pre id hspPreposition hspPreposition :=
  Sh.orElse (Sh.textOf (Sh.bind Sh.hsp fun _ => Sh.preposition)) (Sh.pure rfl)

theorem Sh.remainder : Sh pre id remainder remainder := by
  unfold Parser.remainder
  refine Sh.orElse ?_ (Sh.orElse ?_ (Sh.orElse ?_ ?_))
  · exact Sh.bind (Sh.ciWord _) fun _ => Sh.wordBoundary
  · exact Sh.bind (Sh.ciWord _) fun _ => Sh.wordBoundary
  · exact Sh.bind (Sh.ciWord _) fun _ => Sh.wordBoundary
  · exact Sh.bind (Sh.ciWord _) fun _ => Sh.bind Sh.ohsp fun _ => Sh.bind (Sh.ciWord _) fun _ => Sh.wordBoundary

theorem Sh.unitPattern : ∀ ws : List Str, Sh pre id (unitPattern ws) (unitPattern ws)
  | [] => Sh.wordBoundary
  | [w] => by
    unfold Parser.unitPattern
    exact Sh.bind (Sh.ciWord _) fun _ => Sh.wordBoundary
  | w :: w2 :: ws => by
    unfold Parser.unitPattern
    exact Sh.bind (Sh.ciWord _) fun _ => Sh.bind Sh.sp fun _ => Sh.unitPattern (w2 :: ws)

theorem Sh.firstOf : ∀ ps : List (P Unit), (∀ p ∈ ps, Sh pre id p p) → Sh pre id (firstOf ps) (firstOf ps)
  | [], _ => Sh.fail
  | p :: ps, h => by
    unfold Parser.firstOf
    exact Sh.orElse (h p (List.mem_cons_self ..)) (Sh.firstOf ps fun q hq => h q (List.mem_cons_of_mem _ hq))

theorem Sh.knownUnit : Sh pre id knownUnit knownUnit := by
  unfold Parser.knownUnit
  refine Sh.firstOf _ fun p hp => ?_
  obtain ⟨ws, _, rfl⟩ := List.mem_map.mp hp
  exact Sh.unitPattern ws

theorem Sh.proportion : Sh pre (shiftAmount pre.length) proportion proportion := by
  unfold Parser.proportion
  refine Sh.orElse ?_ ?_
  · refine Sh.bind Sh.getPos fun off => ?_
    refine Sh.bind (Sh.textOf Sh.remainder) fun wording => ?_
    exact Sh.bind Sh.hspPreposition fun prep => Sh.pure rfl
  · refine Sh.bind Sh.number fun x => ?_
    obtain ⟨off, v⟩ := x
    refine Sh.orElse ?_ (Sh.orElse ?_ ?_)
    · exact Sh.bind (Sh.textOf (Sh.bind Sh.hsp fun _ => Sh.preposition)) fun prep => Sh.pure rfl
    · refine Sh.bind (Sh.textOf (Sh.bind Sh.ohsp fun _ => Sh.bind (Sh.lit _) fun _ =>
        Sh.bind Sh.hspPreposition fun _ => Sh.pure rfl)) fun prep => Sh.pure rfl
    · exact Sh.bind (Sh.textOf (Sh.bind Sh.ohsp fun _ => Sh.lit _)) fun prep => Sh.pure rfl

theorem Sh.explicitQuantity : Sh pre (shiftAmount pre.length) explicitQuantity explicitQuantity := by
  unfold Parser.explicitQuantity
  refine Sh.bind Sh.getPos fun off => ?_
  refine Sh.bind (Sh.lit _) fun _ => ?_
  refine Sh.bind Sh.ohsp fun _ => ?_
  refine Sh.bind Sh.number fun x => ?_
  obtain ⟨o, v⟩ := x
  refine Sh.bind (Sh.opt (g := fun x : Str × AString => (x.1, shiftString pre.length x.2))
    (Sh.bind (Sh.textOf Sh.ohsp) fun spacing => Sh.bind (Sh.string true) fun u => Sh.pure rfl)) fun unit => ?_
  refine Sh.bind Sh.ohsp fun _ => ?_
  refine Sh.bind (Sh.lit _) fun _ => ?_
  refine Sh.bind Sh.hspPreposition fun prep => ?_
  refine Sh.pure ?_
  cases unit <;> rfl

theorem Sh.implicitQuantity : Sh pre (shiftAmount pre.length) implicitQuantity implicitQuantity := by
  unfold Parser.implicitQuantity
  refine Sh.bind Sh.number fun x => ?_
  obtain ⟨off, v⟩ := x
  refine Sh.bind (Sh.opt (g := fun x : Str × AString × Str => (x.1, shiftString pre.length x.2.1, x.2.2))
    ?_) fun unit => ?_
  · refine Sh.bind (Sh.textOf Sh.ohsp) fun spacing => ?_
    refine Sh.bind Sh.getPos fun unitOff => ?_
    refine Sh.bind (Sh.textOf Sh.knownUnit) fun name => ?_
    exact Sh.bind Sh.hspPreposition fun prep => Sh.pure rfl
  · cases unit with
    | none => exact Sh.pure rfl
    | some u => obtain ⟨spacing, u, prep⟩ := u; exact Sh.pure rfl

/-! ## expressions -/

theorem Sh.reference : Sh pre (shiftExpr pre.length) reference reference := by
  unfold Parser.reference
  refine Sh.bind (Sh.opt (g := shiftAmount pre.length) ?_) fun amount => ?_
  · refine Sh.bind (Sh.orElse Sh.proportion (Sh.orElse Sh.explicitQuantity Sh.implicitQuantity)) fun a => ?_
    exact Sh.bind Sh.ohsp fun _ => Sh.pure rfl
  · exact Sh.bind (Sh.string false) fun name => Sh.pure (by rw [shiftExpr])

theorem Sh.step {e : P AExpr} (he : Sh pre (shiftExpr pre.length) e e) :
    Sh pre (shiftExpr pre.length) (step e) (step e) := by
  unfold Parser.step
  refine Sh.bind (Sh.string false) fun name => ?_
  refine Sh.bind Sh.ohsp fun _ => ?_
  refine Sh.bind (Sh.lit _) fun _ => ?_
  refine Sh.bind Sh.osp fun _ => ?_
  refine Sh.bind he fun first => ?_
  refine Sh.bind (Sh.many (Sh.bind Sh.osp fun _ => Sh.bind (Sh.lit _) fun _ => Sh.bind Sh.osp fun _ => he)) fun rest => ?_
  refine Sh.bind (Sh.opt (g := id) (Sh.bind Sh.osp fun _ => Sh.lit _)) fun _ => ?_
  refine Sh.bind Sh.osp fun _ => ?_
  refine Sh.bind (Sh.lit _) fun _ => ?_
  exact Sh.pure (by rw [shiftExpr, shiftExprs_eq_map]; rfl)

theorem foldl_step_shift (k : Nat) : ∀ (actions : List AString) (first : AExpr),
    (actions.map (shiftString k)).foldl (fun e action => AExpr.step action [e]) (shiftExpr k first) =
      shiftExpr k (actions.foldl (fun e action => AExpr.step action [e]) first)
  | [], _ => rfl
  | a :: actions, first => by
    rw [List.map_cons, List.foldl_cons, List.foldl_cons, ← foldl_step_shift k actions]
    rfl

theorem Sh.ltrShorthand {e : P AExpr} (he : Sh pre (shiftExpr pre.length) e e) :
    Sh pre (shiftExpr pre.length) (ltrShorthand e) (ltrShorthand e) := by
  unfold Parser.ltrShorthand
  refine Sh.bind he fun first => ?_
  refine Sh.bind (Sh.many (Sh.bind Sh.ohsp fun _ => Sh.bind (Sh.lit _) fun _ => Sh.bind Sh.ohsp fun _ =>
    Sh.string false)) fun actions => ?_
  exact Sh.pure (foldl_step_shift _ _ _)

theorem Sh.expr : ∀ fuel, Sh pre (shiftExpr pre.length) (expr fuel) (expr fuel)
  | 0 => Sh.fail
  | fuel + 1 => by
    unfold Parser.expr
    refine Sh.orElse (Sh.step (Sh.expr fuel)) (Sh.orElse Sh.reference ?_)
    refine Sh.bind (Sh.lit _) fun _ => ?_
    refine Sh.bind Sh.osp fun _ => ?_
    refine Sh.bind (Sh.ltrShorthand (Sh.expr fuel)) fun e => ?_
    exact Sh.bind Sh.osp fun _ => Sh.bind (Sh.lit _) fun _ => Sh.pure rfl

/-! ## statements -/

theorem Sh.eol : Sh pre id eol eol :=
  Sh.orElse (Sh.bind Sh.ohsp fun _ => Sh.bind (Sh.sat _) fun _ => Sh.osp) (Sh.bind Sh.ohsp fun _ => Sh.eof)

theorem Sh.outputList : Sh pre (List.map (shiftString pre.length)) outputList outputList := by
  unfold Parser.outputList
  refine Sh.bind (Sh.string false) fun first => ?_
  refine Sh.bind (Sh.many (Sh.bind Sh.ohsp fun _ => Sh.bind (Sh.lit _) fun _ => Sh.bind Sh.ohsp fun _ =>
    Sh.string false)) fun rest => ?_
  exact Sh.pure rfl

theorem Sh.assign : Sh pre id assign assign :=
  Sh.orElse (Sh.bind (Sh.lit _) fun _ => Sh.bind (Sh.lit _) fun _ => Sh.pure rfl)
    (Sh.bind (Sh.lit _) fun _ => Sh.pure rfl)

theorem Sh.stmt : Sh pre (shiftStmt pre.length) stmt stmt := by
  unfold Parser.stmt
  refine Sh.bind (Sh.opt (g := fun x : List AString × Bool => (x.1.map (shiftString pre.length), x.2)) ?_)
    fun target => ?_
  · refine Sh.bind Sh.outputList fun outputs => ?_
    refine Sh.bind Sh.ohsp fun _ => ?_
    refine Sh.bind Sh.assign fun named => ?_
    exact Sh.bind Sh.ohsp fun _ => Sh.pure rfl
  refine Sh.bind Sh.remaining fun fuel => ?_
  refine Sh.bind (Sh.ltrShorthand (Sh.expr _)) fun e => ?_
  refine Sh.bind Sh.eol fun _ => Sh.pure ?_
  cases target <;> rfl

/-- `recipe` after its leading `sp?` -/
def recipeBody : P (List AStmt) := do
  let first ← stmt
  let rest ← many stmt
  eof
  pure (first :: rest)

theorem recipe_eq_osp_body : recipe = (do osp; recipeBody) := rfl

theorem Sh.recipeBody : Sh pre (List.map (shiftStmt pre.length)) recipeBody recipeBody := by
  unfold Parser.recipeBody
  refine Sh.bind Sh.stmt fun first => ?_
  refine Sh.bind (Sh.many Sh.stmt) fun rest => ?_
  exact Sh.bind Sh.eof fun _ => Sh.pure rfl

/-- **shift invariance of the whole grammar** (for a padding without word characters) -/
theorem Sh.recipe : Sh pre (List.map (shiftStmt pre.length)) recipe recipe :=
  Sh.bind Sh.osp fun _ => Sh.recipeBody

/-! ## the leading `sp?` swallows a padding of white space -/

theorem spanEnd_eq_takeWhile (p : Char → Bool) (t : Array Char) (i : Nat) :
    spanEnd p t i = i + ((t.toList.drop i).takeWhile p).length := by
  refine spanEnd_run (rest := (t.toList.drop i).dropWhile p) List.takeWhile_append_dropWhile.symm
    (fun x hx => mem_takeWhile_imp hx) fun c hc => ?_
  have := List.head?_dropWhile_not p (t.toList.drop i)
  rw [hc] at this
  simpa using this

theorem spanEnd_zero_pad (p : Char → Bool) (pre s : Str) (hp : ∀ c ∈ pre, p c = true) :
    spanEnd p (pre ++ s).toArray 0 = spanEnd p s.toArray 0 + pre.length := by
  rw [spanEnd_eq_takeWhile, spanEnd_eq_takeWhile]
  simp only [List.drop_zero, Nat.zero_add]
  rw [List.takeWhile_append_of_pos hp, List.length_append, Nat.add_comm]

theorem nonWord_of_space {pre : Str} (hsp : ∀ c ∈ pre, isReSpace c = true) : NonWord pre :=
  fun c hc => isReWord_false_of_isReSpace (hsp c hc)

/-- `recipe` on a text padded with white space, from the start -/
theorem recipe_pad (pre s : Str) (hsp : ∀ c ∈ pre, isReSpace c = true) :
    recipe (pre ++ s).toArray ⟨0, false⟩ =
      (recipe s.toArray ⟨0, false⟩).map (fun r => (r.1.map (shiftStmt pre.length), shSt pre.length r.2)) := by
  rw [recipe_eq_osp_body, bind_apply, bind_apply]
  have h1 : osp (pre ++ s).toArray ⟨0, false⟩ = some ((), shSt pre.length ⟨spanEnd isReSpace s.toArray 0, false⟩) := by
    simp only [osp, Parser.skipMany, spanEnd_zero_pad _ _ _ hsp]; rfl
  have h2 : osp s.toArray ⟨0, false⟩ = some ((), ⟨spanEnd isReSpace s.toArray 0, false⟩) := rfl
  rw [h1, h2]
  exact Sh.recipeBody (nonWord_of_space hsp) s _

end Parser

/-- the result of parsing, with the offsets moved -/
def shiftParse (k : Nat) : ParseResult → ParseResult
  | .ok stmts => .ok (stmts.map (shiftStmt k))
  | r => r

/-- parsing a text padded with white space gives the same result with all offsets moved by the length of the padding -/
theorem parse_pad_space (pre s : Str) (hsp : ∀ c ∈ pre, isReSpace c = true) :
    parse (pre ++ s) = shiftParse pre.length (parse s) := by
  unfold parse
  rw [Parser.recipe_pad pre s hsp]
  cases Parser.recipe s.toArray ⟨0, false⟩ with
  | none => rfl
  | some r => rfl

/-- **shift invariance of `parse`**: `k` newlines in front of the text move every offset by `k` and change nothing else -/
theorem parse_pad (k : Nat) (s : Str) :
    parse (List.replicate k '\n' ++ s) =
      (match parse s with
       | .ok stmts => .ok (stmts.map (shiftStmt k))
       | r => r) := by
  have h := parse_pad_space (List.replicate k '\n') s (by
    intro c hc; rw [List.eq_of_mem_replicate hc]; decide)
  rw [List.length_replicate] at h
  rw [h]
  cases parse s <;> rfl

/-! ## every string in a parsed AST has at least one part

    (`AString.offset` of an empty string would be `0` whatever the padding) -/

namespace Parser

/-- whenever `p` succeeds, its value satisfies `Q` -/
def Post {α : Type} (p : P α) (Q : α → Prop) : Prop := ∀ t s a s', p t s = some (a, s') → Q a

theorem Post.pure {α : Type} {a : α} {Q : α → Prop} (h : Q a) : Post (pure a) Q := by
  intro t s a' s' e; cases e; exact h

theorem Post.fail {α : Type} {Q : α → Prop} : Post (fail : P α) Q := by
  intro t s a s' e; cases e

theorem Post.bind {α β : Type} {m : P α} {f : α → P β} {Q1 : α → Prop} {Q2 : β → Prop} (h1 : Post m Q1)
    (h2 : ∀ a, Q1 a → Post (f a) Q2) : Post (m >>= f) Q2 := by
  intro t s b s' e
  obtain ⟨a, s1, hm, hf⟩ := bind_some e
  exact h2 a (h1 t s a s1 hm) t s1 b s' hf

theorem Post.bind' {α β : Type} {m : P α} {f : α → P β} {Q2 : β → Prop}
    (h2 : ∀ a, Post (f a) Q2) : Post (m >>= f) Q2 :=
  Post.bind (Q1 := fun _ => True) (fun _ _ _ _ _ => trivial) fun a _ => h2 a

theorem Post.orElse {α : Type} {p q : P α} {Q : α → Prop} (hp : Post p Q) (hq : Post q Q) : Post (p <|> q) Q := by
  intro t s a s' e
  rw [orElse_apply] at e
  cases h : p t s with
  | none => rw [h] at e; exact hq t s a s' e
  | some r => rw [h] at e; cases e; exact hp t s a s' h

theorem Post.opt {α : Type} {p : P α} {Q : α → Prop} (hp : Post p Q) :
    Post (opt p) (fun o => ∀ a, o = some a → Q a) := by
  refine Post.orElse ?_ (Post.pure fun a h => by cases h)
  intro t s o s' e
  rw [map_apply] at e
  cases h : p t s with
  | none => rw [h] at e; cases e
  | some r =>
    obtain ⟨a, s1⟩ := r
    rw [h] at e; cases e
    intro a' ha'; cases ha'; exact hp t s a _ h

theorem Post.manyF {α : Type} {p : P α} {Q : α → Prop} (hp : Post p Q) :
    ∀ fuel, Post (manyF p fuel) (fun l => ∀ a ∈ l, Q a)
  | 0 => Post.pure fun a h => by cases h
  | fuel + 1 => by
    unfold Parser.manyF
    refine Post.orElse ?_ (Post.pure fun a h => by cases h)
    refine Post.bind hp fun a ha => Post.bind (Post.manyF hp fuel) fun rest hrest => Post.pure ?_
    intro x hx
    rcases List.mem_cons.mp hx with rfl | hx
    · exact ha
    · exact hrest x hx

theorem Post.many {α : Type} {p : P α} {Q : α → Prop} (hp : Post p Q) :
    Post (many p) (fun l => ∀ a ∈ l, Q a) :=
  Post.bind' fun fuel => Post.manyF hp fuel

def NE (a : AString) : Prop := a ≠ []

theorem nakedString_ne : Post nakedString NE :=
  Post.bind' fun off => Post.bind' fun x => Post.pure (by simp [NE])

theorem quotedString_ne (q : Char) : Post (quotedString q) NE :=
  Post.bind' fun off => Post.bind' fun _ => Post.bind' fun body => Post.bind' fun _ => Post.pure (by simp [NE])

/-- the accumulator of `bracketed_string` has produced something or has a segment open -/
def AccNE (a : BracketedAcc) : Prop := a.out ≠ [] ∨ a.segmentOff.isSome = true

theorem AccNE.push {a : BracketedAcc} (i : BracketedItem) : AccNE (a.push i) := by
  cases i with
  | num off n => left; simp [BracketedAcc.push]
  | chr off c => right; rfl

theorem AccNE.foldl : ∀ (body : List BracketedItem) (a : BracketedAcc), AccNE a →
    AccNE (body.foldl BracketedAcc.push a)
  | [], _, h => h
  | i :: body, _, _ => AccNE.foldl body _ (AccNE.push i)

theorem AccNE.finish {a : BracketedAcc} (h : AccNE a) : NE a.finish := by
  obtain ⟨out, seg, so⟩ := a
  cases so with
  | some o => simp [BracketedAcc.finish, NE]
  | none =>
    rcases h with h | h
    · simpa [BracketedAcc.finish, NE] using h
    · cases h

theorem bracketedString_ne : Post bracketedString NE :=
  Post.bind' fun _ => Post.bind' fun _ => Post.bind' fun body => Post.bind' fun _ =>
    Post.pure (AccNE.finish (AccNE.foldl body _ (Or.inr rfl)))

theorem stringF_ne (static : Bool) : ∀ fuel, Post (stringF static fuel) NE
  | 0 => Post.fail
  | fuel + 1 => by
    unfold Parser.stringF
    refine Post.bind (Q1 := NE) ?_ fun first hfirst => Post.bind' fun rest => Post.pure ?_
    · refine Post.orElse nakedString_ne (Post.orElse (quotedString_ne _) (Post.orElse (quotedString_ne _) ?_))
      cases static
      · exact bracketedString_ne
      · exact Post.fail
    · intro h
      exact hfirst (List.append_eq_nil_iff.mp h).1

theorem string_ne (static : Bool) : Post (string static) NE :=
  Post.bind' fun _ => stringF_ne static _

theorem outputList_ne : Post outputList (fun l => ∀ a ∈ l, NE a) := by
  unfold Parser.outputList
  refine Post.bind (string_ne false) fun first hfirst => ?_
  refine Post.bind (Post.many (Post.bind' fun _ => Post.bind' fun _ => Post.bind' fun _ => string_ne false))
    fun rest hrest => Post.pure ?_
  intro x hx
  rcases List.mem_cons.mp hx with rfl | hx
  · exact hfirst
  · exact hrest x hx

end Parser

/-- the written output names of a statement are non-empty strings -/
def AStmt.OutputsNE (s : AStmt) : Prop := ∀ l, s.outputs = some l → ∀ a ∈ l, a ≠ []

namespace Parser

theorem stmt_ne : Post stmt AStmt.OutputsNE := by
  unfold Parser.stmt
  refine Post.bind (Post.opt (Q := fun x : List AString × Bool => ∀ a ∈ x.1, NE a) ?_) fun target htarget => ?_
  · refine Post.bind outputList_ne fun outputs houtputs => ?_
    exact Post.bind' fun _ => Post.bind' fun _ => Post.bind' fun _ => Post.pure houtputs
  refine Post.bind' fun fuel => Post.bind' fun e => Post.bind' fun _ => Post.pure ?_
  intro l hl a ha
  cases target with
  | none => cases hl
  | some x =>
    simp only [Option.map_some, Option.some.injEq] at hl
    subst hl
    exact htarget x rfl a ha

theorem recipe_ne : Post recipe (fun l => ∀ st ∈ l, AStmt.OutputsNE st) := by
  unfold Parser.recipe
  refine Post.bind' fun _ => Post.bind stmt_ne fun first hfirst => Post.bind (Post.many stmt_ne) fun rest hrest =>
    Post.bind' fun _ => Post.pure ?_
  intro x hx
  rcases List.mem_cons.mp hx with rfl | hx
  · exact hfirst
  · exact hrest x hx

end Parser

theorem parse_outputs_ne (s : Str) (stmts : List AStmt) (h : parse s = .ok stmts) :
    ∀ st ∈ stmts, st.OutputsNE := by
  unfold parse at h
  cases hr : Parser.recipe s.toArray ⟨0, false⟩ with
  | none => rw [hr] at h; cases h
  | some r =>
    obtain ⟨l, s'⟩ := r
    rw [hr] at h
    cases h
    exact Parser.recipe_ne _ _ _ _ hr

/-! ## elaboration commutes with moving the offsets

    Offsets reach the result of `compileBlocks` only through the two located errors. -/

def shiftErr (k : Nat) : StmtErr → StmtErr
  | .redefined off => .redefined (off + k)
  | .proportion off => .proportion (off + k)
  | .internal why => .internal why

/-- the outcome of a step of elaboration, with the offset of a located error moved -/
def shiftExc (k : Nat) {α : Type} : Except StmtErr α → Except StmtErr α
  | .ok a => .ok a
  | .error e => .error (shiftErr k e)

theorem compileString_shift (k : Nat) (s : AString) : compileString (shiftString k s) = compileString s := by
  unfold compileString shiftString
  rw [List.map_map]
  congr 1
  apply List.map_congr_left
  intro p _
  cases p <;> rfl

theorem map_compileString_shift (k : Nat) (l : List AString) :
    (l.map (shiftString k)).map compileString = l.map compileString := by
  rw [List.map_map]
  exact List.map_congr_left fun a _ => compileString_shift k a

theorem compileQuantity_shift (k : Nat) (v : Num) (u : Option AString) (sp p : Str) :
    compileQuantity v (u.map (shiftString k)) sp p = compileQuantity v u sp p := by
  cases u with
  | none => rfl
  | some u => simp [compileQuantity, compileString_shift]

theorem compileAmount_shift (k : Nat) (a : Option AAmount) :
    compileAmount (a.map (shiftAmount k)) = compileAmount a := by
  cases a with
  | none => rfl
  | some a =>
    cases a with
    | qty off v u sp p => simp [shiftAmount, compileAmount, compileQuantity_shift]
    | prop off v pct w p => rfl

mutual
theorem compileExpr_shift (block k : Nat) : ∀ (e : AExpr) (st : CState),
    compileExpr block st (shiftExpr k e) = shiftExc k (compileExpr block st e)
  | .step name inputs, st => by
    rw [shiftExpr, compileExpr, compileExpr, compileExprs_shift block k inputs st, compileString_shift]
    cases compileExprs block st inputs with
    | error e => rfl
    | ok p => rfl
  | .ref name amount, st => by
    rw [shiftExpr]
    simp only [compileExpr, compileString_shift, compileAmount_shift]
    split
    · rfl
    · cases amount with
      | none => rfl
      | some a =>
        cases a with
        | qty off v u sp p => simp [shiftAmount, shiftExc, compileQuantity_shift]
        | prop off v pct w p => rfl
theorem compileExprs_shift (block k : Nat) : ∀ (es : List AExpr) (st : CState),
    compileExprs block st (shiftExprs k es) = shiftExc k (compileExprs block st es)
  | [], st => rfl
  | e :: es, st => by
    rw [shiftExprs, compileExprs, compileExprs, compileExpr_shift block k e st]
    cases compileExpr block st e with
    | error e' => rfl
    | ok p =>
      obtain ⟨t, st1⟩ := p
      simp only [shiftExc, Except.ok_bind]
      rw [compileExprs_shift block k es st1]
      cases compileExprs block st1 es with
      | error e' => rfl
      | ok q => rfl
end

theorem offset_shift (k : Nat) (a : AString) (h : a ≠ []) : AString.offset (shiftString k a) = AString.offset a + k := by
  cases a with
  | nil => exact absurd rfl h
  | cons x xs => cases x <;> rfl

theorem registerOutputs_shift (block : Nat) (sub : Tree) (unwrap : Bool) (k : Nat) (asts : Option (List AString))
    (hne : ∀ l, asts = some l → ∀ a ∈ l, a ≠ []) : ∀ (names : List SVS) (st : CState) (i : Nat),
    registerOutputs block sub unwrap (asts.map (List.map (shiftString k))) st i names =
      shiftExc k (registerOutputs block sub unwrap asts st i names)
  | [], st, i => rfl
  | n :: ns, st, i => by
    simp only [registerOutputs]
    split
    · cases asts with
      | none => rfl
      | some l =>
        simp only [Option.map_some, List.getElem?_map]
        cases hl : l[i]? with
        | none => rfl
        | some a =>
          simp only [Option.map_some, shiftExc, shiftErr]
          rw [offset_shift k a (hne l rfl a (List.mem_of_getElem? hl))]
    · exact registerOutputs_shift block sub unwrap k asts hne ns _ _

theorem nameStmt_shift (block k : Nat) (s : AStmt) (hs : s.OutputsNE) (tree : Tree) (st1 : CState) :
    nameStmt block (shiftStmt k s) tree st1 = shiftExc k (nameStmt block s tree st1) := by
  obtain ⟨e, outputs, named⟩ := s
  have key : ∀ (sub : Tree) (names : List SVS),
      (registerOutputs block sub (!named) (outputs.map (List.map (shiftString k))) st1 0 names >>= fun st2 =>
        (.ok (sub, st2) : Except StmtErr (Tree × CState))) =
      shiftExc k (registerOutputs block sub (!named) outputs st1 0 names >>= fun st2 => .ok (sub, st2)) := by
    intro sub names
    rw [registerOutputs_shift block sub (!named) k outputs hs names st1 0]
    cases registerOutputs block sub (!named) outputs st1 0 names <;> rfl
  cases outputs with
  | none =>
    simp only [nameStmt, shiftStmt, Option.map_none]
    cases inferOutputName tree with
    | none => rfl
    | some n => exact key _ _
  | some l =>
    cases l with
    | nil =>
      simp only [nameStmt, shiftStmt, Option.map_some, List.map_nil]
      cases inferOutputName tree with
      | none => rfl
      | some n => exact key _ _
    | cons o os =>
      simp only [nameStmt, shiftStmt, Option.map_some, List.map_cons]
      have := key (.sub tree ((o :: os).map compileString) true) ((o :: os).map compileString)
      simp only [Option.map_some, List.map_cons] at this
      rw [← this, compileString_shift, map_compileString_shift]

theorem compileStmt_shift (block k : Nat) (st : CState) (s : AStmt) (hs : s.OutputsNE) :
    compileStmt block st (shiftStmt k s) = shiftExc k (compileStmt block st s) := by
  rw [compileStmt_eq, compileStmt_eq]
  show (compileExpr block st (shiftExpr k s.expr) >>= _) = _
  rw [compileExpr_shift]
  cases compileExpr block st s.expr with
  | error e => rfl
  | ok p => exact nameStmt_shift block k s hs p.1 p.2

theorem compileStmts_shift (block k : Nat) : ∀ (ss : List AStmt) (st : CState), (∀ s ∈ ss, s.OutputsNE) →
    compileStmts block st (ss.map (shiftStmt k)) = shiftExc k (compileStmts block st ss)
  | [], st, _ => rfl
  | s :: ss, st, h => by
    rw [List.map_cons, compileStmts, compileStmts, compileStmt_shift block k st s (h s (List.mem_cons_self ..))]
    cases compileStmt block st s with
    | error e => rfl
    | ok p =>
      obtain ⟨t, st1⟩ := p
      simp only [shiftExc, Except.ok_bind]
      rw [compileStmts_shift block k ss st1 fun x hx => h x (List.mem_cons_of_mem _ hx)]
      cases compileStmts block st1 ss with
      | error e => rfl
      | ok q => rfl

/-- the result of `compile` for padded sources, from the result for the block texts: block `b` was padded with
    `ks[b]` characters, so the offsets of its located errors are `ks[b]` larger -/
def shiftResult (ks : List Nat) : CompileResult → CompileResult
  | .redefined b off => .redefined b (off + ks.getD b 0)
  | .proportion b off => .proportion b (off + ks.getD b 0)
  | r => r

/-- the ASTs of the padded sources -/
def shiftBlocks (ks : List Nat) (bs : List (List AStmt)) : List (List AStmt) :=
  List.zipWith (fun k b => b.map (shiftStmt k)) ks bs

theorem liftErr_shift (ks : List Nat) (i : Nat) (e : StmtErr) :
    liftErr i (shiftErr (ks.getD i 0) e) = shiftResult ks (liftErr i e) := by
  cases e <;> rfl

theorem compileBlocks_shift (ks : List Nat) : ∀ (bs : List (List AStmt)) (i : Nat) (st : CState),
    (∀ b ∈ bs, ∀ s ∈ b, AStmt.OutputsNE s) → i + bs.length ≤ ks.length →
    compileBlocks i st (shiftBlocks (ks.drop i) bs) =
      (match compileBlocks i st bs with
       | .ok r => .ok r
       | .error e => .error (shiftResult ks e))
  | [], i, st, _, _ => by simp [shiftBlocks, compileBlocks]
  | b :: bs, i, st, hne, hlen => by
    have hi : i < ks.length := by simp only [List.length_cons] at hlen; omega
    have hd : ks.drop i = ks.getD i 0 :: ks.drop (i + 1) := by
      rw [List.drop_eq_getElem_cons hi]
      simp [List.getD, hi]
    rw [hd, shiftBlocks, List.zipWith_cons_cons, compileBlocks_cons, compileBlocks_cons,
      compileStmts_shift i _ b st (hne b (List.mem_cons_self ..))]
    cases compileStmts i st b with
    | error e => simp only [shiftExc, liftErr_shift]
    | ok p =>
      obtain ⟨trees, st1⟩ := p
      simp only [shiftExc]
      have ih := compileBlocks_shift ks bs (i + 1) st1 (fun x hx => hne x (List.mem_cons_of_mem _ hx))
        (by simp only [List.length_cons] at hlen; omega)
      rw [shiftBlocks] at ih
      rw [ih]
      cases compileBlocks (i + 1) st1 bs with
      | error e => rfl
      | ok q => rfl

end RG
