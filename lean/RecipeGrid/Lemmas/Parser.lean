import RecipeGrid.Model.Parser
import RecipeGrid.Lemmas.Fmt
/-! Helper lemmas about `Model/Parser.lean` used by `Props/C06.lean` (print/parse round trips).

    Conventions: a text is an `Array Char` `t`; "the text from offset `i` on is `xs ++ rest`" is
    written `t.toList.drop i = xs ++ rest`.  A rule `p` *recovers* `xs` when
    `p t ⟨i, z⟩ = some (a, ⟨i + xs.length, z⟩)`. -/
namespace RG

/-- (named so that it cannot clash with the instance derived in `Lemmas/Compiler.lean`) -/
instance instDecidableEqNumForParser : DecidableEq Num := fun a b =>
  match a, b with
  | ⟨v1, k1⟩, ⟨v2, k2⟩ =>
    if h : v1 = v2 ∧ k1 = k2 then isTrue (by rw [h.1, h.2])
    else isFalse (by intro e; cases e; exact h ⟨rfl, rfl⟩)
deriving instance DecidableEq for SubStr
deriving instance DecidableEq for AAmount
deriving instance DecidableEq for Parser.PState

namespace Parser

/-! ## the monad, applied -/

@[simp] theorem pure_apply {α} (a : α) (t : Array Char) (s : PState) :
    (pure a : P α) t s = some (a, s) := rfl

@[simp] theorem bind_apply {α β} (m : P α) (f : α → P β) (t : Array Char) (s : PState) :
    (m >>= f) t s = match m t s with
      | none => none
      | some (a, s') => f a t s' := rfl

@[simp] theorem map_apply {α β} (f : α → β) (m : P α) (t : Array Char) (s : PState) :
    (f <$> m) t s = match m t s with
      | none => none
      | some (a, s') => some (f a, s') := by
  show (m >>= fun a => pure (f a)) t s = _
  rw [bind_apply]; cases m t s <;> rfl

@[simp] theorem fail_apply {α} (t : Array Char) (s : PState) : (fail : P α) t s = none := rfl

@[simp] theorem orElse_apply {α} (p q : P α) (t : Array Char) (s : PState) :
    (p <|> q) t s = match p t s with
      | some r => some r
      | none => q t s := rfl

theorem orElse_of_some {α} {p q : P α} {t : Array Char} {s : PState} {r} (h : p t s = some r) :
    (p <|> q) t s = some r := by simp [h]

theorem orElse_of_none {α} {p q : P α} {t : Array Char} {s : PState} (h : p t s = none) :
    (p <|> q) t s = q t s := by simp [h]

theorem opt_of_some {α} {p : P α} {t : Array Char} {s s' : PState} {a} (h : p t s = some (a, s')) :
    opt p t s = some (some a, s') := by simp [opt, h]

theorem opt_of_none {α} {p : P α} {t : Array Char} {s : PState} (h : p t s = none) :
    opt p t s = some (none, s) := by simp [opt, h]

@[simp] theorem getPos_apply (t : Array Char) (s : PState) : getPos t s = some (s.pos, s) := rfl
@[simp] theorem remaining_apply (t : Array Char) (s : PState) :
    remaining t s = some (t.size - s.pos, s) := rfl

/-! ## the text at an offset -/

theorem getElem?_of_drop {t : Array Char} {i : Nat} {s : Str} (h : t.toList.drop i = s) (k : Nat) :
    t[i + k]? = s[k]? := by
  rw [← h, List.getElem?_drop, Array.getElem?_toList]

theorem getElem?_of_drop0 {t : Array Char} {i : Nat} {s : Str} (h : t.toList.drop i = s) :
    t[i]? = s.head? := by
  have := getElem?_of_drop h 0
  simpa [List.head?_eq_getElem?] using this

theorem drop_add_of_drop {t : Array Char} {i : Nat} {xs rest : Str} (h : t.toList.drop i = xs ++ rest) :
    t.toList.drop (i + xs.length) = rest := by
  rw [← List.drop_drop, h]; simp

theorem size_of_drop {t : Array Char} {i : Nat} {s : Str} (h : t.toList.drop i = s) :
    t.size - i = s.length := by
  rw [← h]; simp

theorem extract_of_drop {t : Array Char} {i : Nat} {xs rest : Str} (h : t.toList.drop i = xs ++ rest) :
    (t.extract i (i + xs.length)).toList = xs := by
  rw [Array.toList_extract, List.extract_eq_take_drop, h]; simp

/-- the shape used by the final statements -/
theorem drop_toArray (pre s : Str) : (pre ++ s).toArray.toList.drop pre.length = s := by simp

/-! ## characters -/

theorem sat_of_head {p : Char → Bool} {t : Array Char} {i : Nat} {c : Char} {rest : Str} (z : Bool)
    (h : t.toList.drop i = c :: rest) (hc : p c = true) :
    sat p t ⟨i, z⟩ = some (c, ⟨i + 1, z⟩) := by
  have := getElem?_of_drop0 h
  simp only [List.head?_cons] at this
  simp [sat, this, hc]

theorem sat_fail_of_head {p : Char → Bool} {t : Array Char} {i : Nat} {s : Str} (z : Bool)
    (h : t.toList.drop i = s) (hc : ∀ c, s.head? = some c → p c = false) :
    sat p t ⟨i, z⟩ = none := by
  have := getElem?_of_drop0 h
  simp only [sat, this]
  cases hs : s.head? with
  | none => rfl
  | some c => simp [hc c hs]

theorem lit_of_head {c : Char} {t : Array Char} {i : Nat} {rest : Str} (z : Bool)
    (h : t.toList.drop i = c :: rest) :
    lit c t ⟨i, z⟩ = some ((), ⟨i + 1, z⟩) := by
  simp [lit, sat_of_head (p := (· == c)) z h]

theorem lit_fail_of_head {c : Char} {t : Array Char} {i : Nat} {s : Str} (z : Bool)
    (h : t.toList.drop i = s) (hc : s.head? ≠ some c) :
    lit c t ⟨i, z⟩ = none := by
  have : sat (· == c) t ⟨i, z⟩ = none := by
    apply sat_fail_of_head z h
    intro d hd
    cases hdc : d == c with
    | false => rfl
    | true => simp only [beq_iff_eq] at hdc; subst hdc; exact absurd hd hc
  simp [lit, this]

/-! ## runs of a character class -/

theorem spanEnd_go_run (p : Char → Bool) (t : Array Char) (rest : Str)
    (hrest : ∀ c, rest.head? = some c → p c = false) :
    ∀ (xs : Str) (fuel j : Nat), t.toList.drop j = xs ++ rest → xs.length ≤ fuel →
      (∀ x ∈ xs, p x = true) → spanEnd.go p t fuel j = j + xs.length := by
  intro xs
  induction xs with
  | nil =>
    intro fuel j h _ _
    cases fuel with
    | zero => simp [spanEnd.go]
    | succ f =>
      have h0 := getElem?_of_drop0 h
      simp only [List.nil_append] at h0
      simp only [spanEnd.go, h0]
      cases hr : rest.head? with
      | none => simp
      | some c => simp [hrest c hr]
  | cons x xs ih =>
    intro fuel j h hf hp
    cases fuel with
    | zero => simp at hf
    | succ f =>
      have h0 := getElem?_of_drop0 h
      simp only [List.cons_append, List.head?_cons] at h0
      have hx : p x = true := hp x (by simp)
      have h1 : t.toList.drop (j + 1) = xs ++ rest := by
        have := drop_add_of_drop (xs := [x]) (rest := xs ++ rest) (by simpa using h)
        simpa using this
      have := ih f (j + 1) h1 (by simpa using hf) (fun y hy => hp y (by simp [hy]))
      simp only [spanEnd.go, h0, hx, if_true, this, List.length_cons]
      omega

theorem spanEnd_run {p : Char → Bool} {t : Array Char} {i : Nat} {xs rest : Str}
    (h : t.toList.drop i = xs ++ rest) (hp : ∀ x ∈ xs, p x = true)
    (hrest : ∀ c, rest.head? = some c → p c = false) :
    spanEnd p t i = i + xs.length := by
  unfold spanEnd
  apply spanEnd_go_run p t rest hrest xs _ _ h _ hp
  have := size_of_drop h
  simp at this; omega

theorem skipMany_run {p : Char → Bool} {t : Array Char} {i : Nat} {xs rest : Str} (z : Bool)
    (h : t.toList.drop i = xs ++ rest) (hp : ∀ x ∈ xs, p x = true)
    (hrest : ∀ c, rest.head? = some c → p c = false) :
    skipMany p t ⟨i, z⟩ = some ((), ⟨i + xs.length, z⟩) := by
  simp [skipMany, spanEnd_run h hp hrest]

theorem skipMany1_run {p : Char → Bool} {t : Array Char} {i : Nat} {xs rest : Str} (z : Bool)
    (h : t.toList.drop i = xs ++ rest) (hne : xs ≠ []) (hp : ∀ x ∈ xs, p x = true)
    (hrest : ∀ c, rest.head? = some c → p c = false) :
    skipMany1 p t ⟨i, z⟩ = some ((), ⟨i + xs.length, z⟩) := by
  cases xs with
  | nil => exact absurd rfl hne
  | cons x xs =>
    have h1 : t.toList.drop (i + 1) = xs ++ rest := by
      have := drop_add_of_drop (xs := [x]) (rest := xs ++ rest) (by simpa using h)
      simpa using this
    have hs := sat_of_head (p := p) z (by simpa using h) (hp x (by simp))
    have hm := skipMany_run z h1 (fun y hy => hp y (by simp [hy])) hrest
    simp only [skipMany1, bind_apply, hs, hm, List.length_cons]
    simp; omega

theorem skipMany1_fail {p : Char → Bool} {t : Array Char} {i : Nat} {s : Str} (z : Bool)
    (h : t.toList.drop i = s) (hc : ∀ c, s.head? = some c → p c = false) :
    skipMany1 p t ⟨i, z⟩ = none := by
  simp [skipMany1, sat_fail_of_head z h hc]

/-! ## matched text -/

theorem withText_of {α} {p : P α} {t : Array Char} {i : Nat} {xs rest : Str} {a : α} (z : Bool)
    (h : t.toList.drop i = xs ++ rest) (hp : p t ⟨i, z⟩ = some (a, ⟨i + xs.length, z⟩)) :
    withText p t ⟨i, z⟩ = some ((a, xs), ⟨i + xs.length, z⟩) := by
  have := extract_of_drop h
  simp only [withText, hp, this]

theorem textOf_of {p : P Unit} {t : Array Char} {i : Nat} {xs rest : Str} (z : Bool)
    (h : t.toList.drop i = xs ++ rest) (hp : p t ⟨i, z⟩ = some ((), ⟨i + xs.length, z⟩)) :
    textOf p t ⟨i, z⟩ = some (xs, ⟨i + xs.length, z⟩) := by
  simp [textOf, withText_of z h hp]

theorem textOf_fail {p : P Unit} {t : Array Char} {s : PState} (hp : p t s = none) :
    textOf p t s = none := by
  simp [textOf, withText, hp]

/-! ## layer 1: `hsp`, `ohsp`, `sp`, `osp`, `digits` -/

theorem hsp_run {t : Array Char} {i : Nat} {xs rest : Str} (z : Bool)
    (h : t.toList.drop i = xs ++ rest) (hne : xs ≠ []) (hp : ∀ x ∈ xs, isHsp x = true)
    (hrest : ∀ c, rest.head? = some c → isHsp c = false) :
    hsp t ⟨i, z⟩ = some ((), ⟨i + xs.length, z⟩) := skipMany1_run z h hne hp hrest

theorem ohsp_run {t : Array Char} {i : Nat} {xs rest : Str} (z : Bool)
    (h : t.toList.drop i = xs ++ rest) (hp : ∀ x ∈ xs, isHsp x = true)
    (hrest : ∀ c, rest.head? = some c → isHsp c = false) :
    ohsp t ⟨i, z⟩ = some ((), ⟨i + xs.length, z⟩) := skipMany_run z h hp hrest

theorem sp_run {t : Array Char} {i : Nat} {xs rest : Str} (z : Bool)
    (h : t.toList.drop i = xs ++ rest) (hne : xs ≠ []) (hp : ∀ x ∈ xs, isReSpace x = true)
    (hrest : ∀ c, rest.head? = some c → isReSpace c = false) :
    sp t ⟨i, z⟩ = some ((), ⟨i + xs.length, z⟩) := skipMany1_run z h hne hp hrest

theorem osp_run {t : Array Char} {i : Nat} {xs rest : Str} (z : Bool)
    (h : t.toList.drop i = xs ++ rest) (hp : ∀ x ∈ xs, isReSpace x = true)
    (hrest : ∀ c, rest.head? = some c → isReSpace c = false) :
    osp t ⟨i, z⟩ = some ((), ⟨i + xs.length, z⟩) := skipMany_run z h hp hrest

theorem digits_run {t : Array Char} {i : Nat} {ds rest : Str} (z : Bool)
    (h : t.toList.drop i = ds ++ rest) (hne : ds ≠ []) (hp : ∀ x ∈ ds, isDigit x = true)
    (hrest : ∀ c, rest.head? = some c → isDigit c = false) :
    digits t ⟨i, z⟩ = some (ds, ⟨i + ds.length, z⟩) :=
  textOf_of z h (skipMany1_run z h hne hp hrest)

theorem digits_fail {t : Array Char} {i : Nat} {s : Str} (z : Bool)
    (h : t.toList.drop i = s) (hc : ∀ c, s.head? = some c → isDigit c = false) :
    digits t ⟨i, z⟩ = none := textOf_fail (skipMany1_fail z h hc)

/-! ## layer 2: numbers -/

theorem natOfDigits_eq (ds : Str) : natOfDigits ds = digitsVal ds := rfl

theorem natOfDigits_natDigits (n : Nat) : natOfDigits (natDigits n) = n := digitsVal_natDigits n

theorem foldl_digits_init (b : Str) : ∀ init : Nat,
    b.foldl (fun n d => 10 * n + (d.toNat - 48)) init
      = init * 10 ^ b.length + b.foldl (fun n d => 10 * n + (d.toNat - 48)) 0 := by
  induction b with
  | nil => intro init; simp
  | cons c b ih =>
    intro init
    simp only [List.foldl_cons, List.length_cons]
    rw [ih (10 * init + (c.toNat - 48)), ih (10 * 0 + (c.toNat - 48)), Nat.pow_succ]
    grind

theorem digitsVal_append (a b : Str) : digitsVal (a ++ b) = digitsVal a * 10 ^ b.length + digitsVal b := by
  simp only [digitsVal, List.foldl_append]
  exact foldl_digits_init b _

theorem mem_takeWhile_imp {p : Char → Bool} {l : Str} {x : Char} (hx : x ∈ l.takeWhile p) : p x = true := by
  have h := List.all_takeWhile (p := p) (l := l)
  rw [List.all_eq_true] at h
  exact h x hx

theorem isDigit_of_charIsDigit {c : Char} (h : c.isDigit = true) : isDigit c = true := by
  simp only [Char.isDigit, Bool.and_eq_true, decide_eq_true_eq] at h
  simp only [isDigit, Bool.and_eq_true, decide_eq_true_eq, Char.toNat]
  have h1 : '0'.val ≤ c.val := h.1
  have h2 := h.2
  rw [UInt32.le_iff_toNat_le] at h1 h2
  exact ⟨h1, h2⟩

theorem natDigits_all_digit (n : Nat) : ∀ c ∈ natDigits n, isDigit c = true :=
  fun c hc => isDigit_of_charIsDigit (natDigits_isDigit n c hc)

theorem decimal_int {t : Array Char} {i : Nat} {ds rest : Str} (z : Bool)
    (h : t.toList.drop i = ds ++ rest) (hne : ds ≠ []) (hp : ∀ x ∈ ds, isDigit x = true)
    (hrest : ∀ c, rest.head? = some c → isDigit c = false) (hdot : rest.head? ≠ some '.') :
    decimal t ⟨i, z⟩ = some ((i, ⟨((natOfDigits ds : Nat) : Rat), .int⟩), ⟨i + ds.length, z⟩) := by
  have hd := digits_run z h hne hp hrest
  have hl := lit_fail_of_head (c := '.') z (drop_add_of_drop h) hdot
  have ho : opt (do lit '.'; textOf (skipMany isDigit)) t ⟨i + ds.length, z⟩ = some (none, ⟨i + ds.length, z⟩) := by
    apply opt_of_none; simp [hl]
  simp only [decimal, bind_apply, getPos_apply, hd, ho]
  rfl

theorem decimal_flt {t : Array Char} {i : Nat} {whole frac rest : Str} (z : Bool)
    (h : t.toList.drop i = whole ++ '.' :: frac ++ rest) (hne : whole ≠ [])
    (hw : ∀ x ∈ whole, isDigit x = true) (hf : ∀ x ∈ frac, isDigit x = true)
    (hrest : ∀ c, rest.head? = some c → isDigit c = false) :
    decimal t ⟨i, z⟩ =
      some ((i, ⟨toDouble (mkRat (natOfDigits (whole ++ frac) : Nat) (10 ^ frac.length)), .flt⟩),
            ⟨i + (whole ++ '.' :: frac).length, z⟩) := by
  have h' : t.toList.drop i = whole ++ ('.' :: frac ++ rest) := by simpa using h
  have hd := digits_run z h' hne hw (by simp [isDigit])
  have h1 := drop_add_of_drop h'
  have hl := lit_of_head z (by simpa using h1)
  have h2 : t.toList.drop (i + whole.length + 1) = frac ++ rest := by
    have := drop_add_of_drop (xs := ['.']) (rest := frac ++ rest) (by simpa using h1)
    simpa using this
  have hs := textOf_of z h2 (skipMany_run z h2 hf hrest)
  have ho : opt (do lit '.'; textOf (skipMany isDigit)) t ⟨i + whole.length, z⟩
      = some (some frac, ⟨i + whole.length + 1 + frac.length, z⟩) := by
    apply opt_of_some; simp [hl, hs]
  simp only [decimal, bind_apply, getPos_apply, hd, ho]
  have e : i + whole.length + 1 + frac.length = i + (whole ++ '.' :: frac).length := by
    simp only [List.length_append, List.length_cons]; omega
  rw [e]; rfl

theorem isHsp_of_isDigit {c : Char} (h : isDigit c = true) : isHsp c = false := by
  cases hc : isHsp c with
  | false => rfl
  | true =>
    simp only [isHsp, Bool.or_eq_true, beq_iff_eq] at hc
    rcases hc with rfl | rfl <;> simp [isDigit] at h

theorem isDigit_of_isHsp {c : Char} (h : isHsp c = true) : isDigit c = false := by
  cases hc : isDigit c with
  | false => rfl
  | true => rw [isHsp_of_isDigit hc] at h; cases h

/-- follow condition "the next character is not in class `p`" when the next text starts with a
    non-empty `q`-run and `q` excludes `p` -/
theorem follow_of_run {p q : Char → Bool} (hq : ∀ c, q c = true → p c = false) {xs rest : Str}
    (hne : xs ≠ []) (hx : ∀ x ∈ xs, q x = true) :
    ∀ c, (xs ++ rest).head? = some c → p c = false := by
  cases xs with
  | nil => exact absurd rfl hne
  | cons x xs =>
    intro c hc
    simp only [List.cons_append, List.head?_cons, Option.some.injEq] at hc
    subst hc
    exact hq _ (hx _ (by simp))

/-- the two-part fraction `p/q`: no blank before the slash (a blank there would commit the
    optional integer part), blanks allowed after it -/
theorem fraction_two {t : Array Char} {i : Nat} {p s2 q rest : Str} (z : Bool)
    (h : t.toList.drop i = p ++ '/' :: s2 ++ q ++ rest)
    (hpne : p ≠ []) (hp : ∀ x ∈ p, isDigit x = true)
    (hs2 : ∀ x ∈ s2, isHsp x = true)
    (hqne : q ≠ []) (hq : ∀ x ∈ q, isDigit x = true) (hq0 : natOfDigits q ≠ 0)
    (hrest : ∀ c, rest.head? = some c → isDigit c = false) :
    fraction t ⟨i, z⟩ =
      some ((i, ⟨mkRat (natOfDigits p) (natOfDigits q), .frac⟩), ⟨i + (p ++ '/' :: s2 ++ q).length, z⟩) := by
  have h0 : t.toList.drop i = p ++ ('/' :: s2 ++ q ++ rest) := by simpa using h
  have hd := digits_run z h0 hpne hp (by simp [isDigit])
  have h1 := drop_add_of_drop h0
  have hh := skipMany1_fail (p := isHsp) z h1 (by simp [isHsp])
  have ho : opt (do let ds ← digits; hsp; pure ds) t ⟨i, z⟩ = some (none, ⟨i, z⟩) := by
    apply opt_of_none; simp [hd, hsp, hh]
  have ho1 := ohsp_run (xs := []) z (by simpa using h1) (by simp) (by simp [isHsp])
  have hl := lit_of_head z (by simpa using h1)
  have h2 : t.toList.drop (i + p.length + 1) = s2 ++ (q ++ rest) := by
    have := drop_add_of_drop (xs := ['/']) (rest := s2 ++ q ++ rest) (by simpa using h1)
    simpa using this
  have ho2 := ohsp_run z h2 hs2 (follow_of_run (fun c => isHsp_of_isDigit) hqne hq)
  have h3 := drop_add_of_drop h2
  have hdq := digits_run z h3 hqne hq hrest
  simp only [List.length_nil, Nat.add_zero] at ho1
  simp only [fraction, bind_apply, getPos_apply, ho, hd, ho1, hl, ho2, hdq, Option.isSome_none,
    Bool.false_eq_true, if_false, hq0, Option.getD_none]
  have e : i + p.length + 1 + s2.length + q.length = i + (p ++ '/' :: s2 ++ q).length := by
    simp only [List.length_append, List.length_cons]; omega
  rw [e]
  simp [natOfDigits, Rat.zero_add]

/-- the three-part fraction `w p/q` -/
theorem fraction_three {t : Array Char} {i : Nat} {w s0 p s1 s2 q rest : Str} (z : Bool)
    (h : t.toList.drop i = w ++ s0 ++ p ++ s1 ++ '/' :: s2 ++ q ++ rest)
    (hwne : w ≠ []) (hw : ∀ x ∈ w, isDigit x = true)
    (hs0ne : s0 ≠ []) (hs0 : ∀ x ∈ s0, isHsp x = true)
    (hpne : p ≠ []) (hp : ∀ x ∈ p, isDigit x = true)
    (hs1 : ∀ x ∈ s1, isHsp x = true) (hs2 : ∀ x ∈ s2, isHsp x = true)
    (hqne : q ≠ []) (hq : ∀ x ∈ q, isDigit x = true) (hq0 : natOfDigits q ≠ 0)
    (hrest : ∀ c, rest.head? = some c → isDigit c = false) :
    fraction t ⟨i, z⟩ =
      some ((i, ⟨((natOfDigits w : Nat) : Rat) + mkRat (natOfDigits p) (natOfDigits q), .frac⟩),
            ⟨i + (w ++ s0 ++ p ++ s1 ++ '/' :: s2 ++ q).length, z⟩) := by
  have h0 : t.toList.drop i = w ++ (s0 ++ (p ++ (s1 ++ ('/' :: (s2 ++ (q ++ rest)))))) := by simpa using h
  have hdw := digits_run z h0 hwne hw (follow_of_run (fun c => isDigit_of_isHsp) hs0ne hs0)
  have h1 := drop_add_of_drop h0
  have hh := hsp_run z h1 hs0ne hs0 (follow_of_run (fun c => isHsp_of_isDigit) hpne hp)
  have ho : opt (do let ds ← digits; hsp; pure ds) t ⟨i, z⟩
      = some (some w, ⟨i + w.length + s0.length, z⟩) := by
    apply opt_of_some; simp [hdw, hh]
  have h2 := drop_add_of_drop h1
  have hdp := digits_run (rest := s1 ++ ('/' :: (s2 ++ (q ++ rest)))) z h2 hpne hp (by
    cases s1 with
    | nil => simp [isDigit]
    | cons x xs => intro c hc; simp at hc; subst hc; exact isDigit_of_isHsp (hs1 _ (by simp)))
  have h3 := drop_add_of_drop h2
  have ho1 := ohsp_run z h3 hs1 (by simp [isHsp])
  have h4 := drop_add_of_drop h3
  have hl := lit_of_head z h4
  have h5 : t.toList.drop (i + w.length + s0.length + p.length + s1.length + 1) = s2 ++ (q ++ rest) := by
    have := drop_add_of_drop (xs := ['/']) (rest := s2 ++ (q ++ rest)) (by simpa using h4)
    simpa using this
  have ho2 := ohsp_run z h5 hs2 (follow_of_run (fun c => isHsp_of_isDigit) hqne hq)
  have h6 := drop_add_of_drop h5
  have hdq := digits_run z h6 hqne hq hrest
  simp only [fraction, bind_apply, getPos_apply, ho, hdp, ho1, hl, ho2, hdq, Option.isSome_some,
    if_true, if_false, hq0, Option.getD_some]
  have e : i + w.length + s0.length + p.length + s1.length + 1 + s2.length + q.length
      = i + (w ++ s0 ++ p ++ s1 ++ '/' :: s2 ++ q).length := by
    simp only [List.length_append, List.length_cons]; omega
  rw [e]
  rfl

/-- `fraction` does not match a digit run that is followed by a "." -/
theorem fraction_fail_dot {t : Array Char} {i : Nat} {ds rest : Str} (z : Bool)
    (h : t.toList.drop i = ds ++ '.' :: rest) (hne : ds ≠ []) (hp : ∀ x ∈ ds, isDigit x = true) :
    fraction t ⟨i, z⟩ = none := by
  have hd := digits_run z h hne hp (by simp [isDigit])
  have h1 := drop_add_of_drop h
  have hh := skipMany1_fail (p := isHsp) z h1 (by simp [isHsp])
  have ho : opt (do let ds ← digits; hsp; pure ds) t ⟨i, z⟩ = some (none, ⟨i, z⟩) := by
    apply opt_of_none; simp [hd, hsp, hh]
  have ho1 := ohsp_run (xs := []) z (by simpa using h1) (by simp) (by simp [isHsp])
  have hl := lit_fail_of_head (c := '/') z h1 (by simp)
  simp only [List.length_nil, Nat.add_zero] at ho1
  simp only [fraction, bind_apply, getPos_apply, ho, hd, ho1, hl]

/-- `fraction` does not match a digit run followed by blanks `b` and then something that is
    neither a blank, a digit nor the slash -/
theorem fraction_fail_int {t : Array Char} {i : Nat} {ds b r : Str} (z : Bool)
    (h : t.toList.drop i = ds ++ b ++ r) (hne : ds ≠ []) (hp : ∀ x ∈ ds, isDigit x = true)
    (hb : ∀ x ∈ b, isHsp x = true)
    (hr : ∀ c, r.head? = some c → isHsp c = false ∧ isDigit c = false ∧ c ≠ '/') :
    fraction t ⟨i, z⟩ = none := by
  have h0 : t.toList.drop i = ds ++ (b ++ r) := by simpa using h
  cases b with
  | nil =>
    simp only [List.nil_append] at h0
    have hd := digits_run z h0 hne hp (fun c hc => (hr c hc).2.1)
    have h1 := drop_add_of_drop h0
    have hh := skipMany1_fail (p := isHsp) z h1 (fun c hc => (hr c hc).1)
    have ho : opt (do let ds ← digits; hsp; pure ds) t ⟨i, z⟩ = some (none, ⟨i, z⟩) := by
      apply opt_of_none; simp [hd, hsp, hh]
    have ho1 := ohsp_run (xs := []) z (by simpa using h1) (by simp) (fun c hc => (hr c hc).1)
    have hl := lit_fail_of_head (c := '/') z h1 (fun hc => (hr _ hc).2.2 rfl)
    simp only [List.length_nil, Nat.add_zero] at ho1
    simp only [fraction, bind_apply, getPos_apply, ho, hd, ho1, hl]
  | cons x xs =>
    have hd := digits_run z h0 hne hp (follow_of_run (fun c => isDigit_of_isHsp) (by simp) hb)
    have h1 := drop_add_of_drop h0
    have hh := hsp_run z h1 (by simp) hb (fun c hc => (hr c hc).1)
    have ho : opt (do let ds ← digits; hsp; pure ds) t ⟨i, z⟩
        = some (some ds, ⟨i + ds.length + (x :: xs).length, z⟩) := by
      apply opt_of_some; simp [hd, hh]
    have h2 := drop_add_of_drop h1
    have hd2 := digits_fail z h2 (fun c hc => (hr c hc).2.1)
    simp only [fraction, bind_apply, getPos_apply, ho, hd2]

theorem number_of_fraction {t : Array Char} {s : PState} {r} (h : fraction t s = some r) :
    number t s = some r := orElse_of_some h

theorem number_of_decimal {t : Array Char} {s : PState} (h : fraction t s = none) :
    number t s = decimal t s := orElse_of_none h

theorem number_fail_of_head {t : Array Char} {i : Nat} {s : Str} (z : Bool)
    (h : t.toList.drop i = s) (hc : ∀ c, s.head? = some c → isDigit c = false) :
    number t ⟨i, z⟩ = none := by
  have hd := digits_fail z h hc
  have ho : opt (do let ds ← digits; hsp; pure ds) t ⟨i, z⟩ = some (none, ⟨i, z⟩) := by
    apply opt_of_none; simp [hd]
  have hf : fraction t ⟨i, z⟩ = none := by
    simp only [fraction, bind_apply, getPos_apply, ho, hd]
  rw [number_of_decimal hf]
  simp only [decimal, bind_apply, getPos_apply, hd]

/-- "`txt` is a spelling of the number `v` when followed by `rest`": wherever the text
    continues with `txt ++ rest`, the rule `number` consumes exactly `txt` and yields `v`
    (at the offset where it started), leaving the flag alone -/
def NumberAt (txt rest : Str) (v : Num) : Prop :=
  ∀ (t : Array Char) (i : Nat) (z : Bool), t.toList.drop i = txt ++ rest →
    number t ⟨i, z⟩ = some ((i, v), ⟨i + txt.length, z⟩)

theorem NumberAt.head_isDigit {txt rest : Str} {v : Num} (h : NumberAt txt rest v) :
    ∃ c, (txt ++ rest).head? = some c ∧ isDigit c = true := by
  have h1 := h (txt ++ rest).toArray 0 false (by simp)
  cases hh : (txt ++ rest).head? with
  | none =>
    rw [number_fail_of_head false (t := (txt ++ rest).toArray) (i := 0) (s := txt ++ rest) (by simp)
      (by simp [hh])] at h1
    cases h1
  | some c =>
    refine ⟨c, rfl, ?_⟩
    cases hd : isDigit c with
    | true => rfl
    | false =>
      rw [number_fail_of_head false (t := (txt ++ rest).toArray) (i := 0) (s := txt ++ rest) (by simp)
        (by intro d hd'; rw [hh] at hd'; cases hd'; exact hd)] at h1
      cases h1

/-! ## layer 4: case-insensitive words, word boundaries, units -/

/-- ASCII lower-case letter -/
def isLowerAscii (c : Char) : Bool := 97 ≤ c.toNat && c.toNat ≤ 122

/-- the code points of the 26 ASCII lower-case letters -/
def lowerCodes : List Nat := List.range' 97 26

theorem mem_lowerCodes {c : Char} (h : isLowerAscii c = true) : c.toNat ∈ lowerCodes := by
  simp only [isLowerAscii, Bool.and_eq_true, decide_eq_true_eq] at h
  simp only [lowerCodes, List.mem_range'_1]; omega

theorem lower_bounds {c : Char} (h : isLowerAscii c = true) : 97 ≤ c.toNat ∧ c.toNat ≤ 122 := by
  simpa [isLowerAscii] using h

theorem toNat_injective {a b : Char} (h : a.toNat = b.toNat) : a = b := by
  rw [← Char.ofNat_toNat a, ← Char.ofNat_toNat b, h]

/-- `c` is the lower-case letter `l` or its upper case -/
def CaseVar (l c : Char) : Prop := c = l ∨ c = l.toUpper

/-! table facts (re-checked by the kernel whenever the tables are regenerated) -/

theorem toUpper_table : lowerCodes.all (fun n => (Char.ofNat n).toUpper.toNat == n - 32) = true := by
  decide +kernel
theorem ci_pos_table : lowerCodes.all (fun n => Gen.ciPartners.contains (n - 32, n)) = true := by
  decide +kernel
theorem ci_neg_table : Gen.ciPartners.all (fun p =>
    !(97 ≤ p.2 && p.2 ≤ 122) ||
      ((!(97 ≤ p.1 && p.1 ≤ 122) || p.1 == p.2) && (!(65 ≤ p.1 && p.1 ≤ 90) || p.1 + 32 == p.2))) = true := by
  decide +kernel
theorem letter_class_table : lowerCodes.all (fun n =>
    inTable Gen.reWordRanges n && inTable Gen.reWordRanges (n - 32)
    && !inTable Gen.reSpaceRanges n && !inTable Gen.reSpaceRanges (n - 32)) = true := by
  decide +kernel
theorem ciPartners_word_table : Gen.ciPartners.all (fun p => inTable Gen.reWordRanges p.1) = true := by
  decide +kernel
theorem space_not_word_table : Gen.reSpaceRanges.all (fun r =>
    (List.range' r.1 (r.2 + 1 - r.1)).all fun n => !inTable Gen.reWordRanges n) = true := by
  decide +kernel

theorem toNat_toUpper {l : Char} (h : isLowerAscii l = true) : l.toUpper.toNat = l.toNat - 32 := by
  have := toUpper_table
  rw [List.all_eq_true] at this
  simpa [Char.ofNat_toNat] using this l.toNat (mem_lowerCodes h)

theorem caseVar_toNat {l c : Char} (hl : isLowerAscii l = true) (hc : CaseVar l c) :
    c.toNat = l.toNat ∨ c.toNat = l.toNat - 32 := by
  rcases hc with rfl | rfl
  · exact Or.inl rfl
  · exact Or.inr (toNat_toUpper hl)

theorem caseVar_class {l c : Char} (hl : isLowerAscii l = true) (hc : CaseVar l c) :
    isReWord c = true ∧ isReSpace c = false := by
  have := letter_class_table
  rw [List.all_eq_true] at this
  have := this l.toNat (mem_lowerCodes hl)
  simp only [Bool.and_eq_true, Bool.not_eq_true'] at this
  rcases caseVar_toNat hl hc with h | h <;> simp only [isReWord, isReSpace, h] <;> simp [this]

theorem ciMatches_of_caseVar {l c : Char} (hl : isLowerAscii l = true) (hc : CaseVar l c) :
    ciMatches c l = true := by
  rcases hc with rfl | rfl
  · simp [ciMatches]
  · have := ci_pos_table
    rw [List.all_eq_true] at this
    have := this l.toNat (mem_lowerCodes hl)
    simp only [ciMatches, toNat_toUpper hl, this, Bool.or_true]

theorem ciMatches_cases {c l : Char} (h : ciMatches c l = true) :
    c = l ∨ (c.toNat, l.toNat) ∈ Gen.ciPartners := by
  simp only [ciMatches, Bool.or_eq_true, beq_iff_eq, List.contains_iff_mem] at h
  exact h

theorem eq_of_ciMatches_caseVar {l l' c : Char} (hl : isLowerAscii l = true) (hl' : isLowerAscii l' = true)
    (hc : CaseVar l' c) (hm : ciMatches c l = true) : l = l' := by
  have b := lower_bounds hl
  have b' := lower_bounds hl'
  apply toNat_injective
  rcases ciMatches_cases hm with rfl | hmem
  · rcases caseVar_toNat hl' hc with h | h <;> omega
  · have := ci_neg_table
    rw [List.all_eq_true] at this
    have := this _ hmem
    simp only [Bool.or_eq_true, Bool.not_eq_true', Bool.and_eq_true, Bool.and_eq_false_iff,
      decide_eq_false_iff_not, beq_iff_eq] at this
    rcases caseVar_toNat hl' hc with h | h <;> omega

theorem isReWord_of_ciMatches {l c : Char} (hl : isLowerAscii l = true) (hm : ciMatches c l = true) :
    isReWord c = true := by
  rcases ciMatches_cases hm with rfl | hmem
  · exact (caseVar_class hl (Or.inl rfl)).1
  · have := ciPartners_word_table
    rw [List.all_eq_true] at this
    exact this _ hmem

theorem isReWord_false_of_isReSpace {c : Char} (h : isReSpace c = true) : isReWord c = false := by
  simp only [isReSpace, inTable, List.any_eq_true, Bool.and_eq_true, decide_eq_true_eq] at h
  obtain ⟨r, hr, h1, h2⟩ := h
  have := space_not_word_table
  rw [List.all_eq_true] at this
  have := this r hr
  rw [List.all_eq_true] at this
  have := this c.toNat (by simp only [List.mem_range'_1]; omega)
  simpa [isReWord] using this

/-! ### words under `(?i)` -/

/-- `W` is a letter-case variant of the lower-case word `w` -/
inductive CaseVariant : Str → Str → Prop
  | nil : CaseVariant [] []
  | cons {l c : Char} {w W : Str} : CaseVar l c → CaseVariant w W → CaseVariant (l :: w) (c :: W)

theorem CaseVariant.length_eq {w W : Str} (h : CaseVariant w W) : W.length = w.length := by
  induction h with
  | nil => rfl
  | cons _ _ ih => simp [ih]

theorem CaseVariant.refl (w : Str) : CaseVariant w w := by
  induction w with
  | nil => exact .nil
  | cons l w ih => exact .cons (Or.inl rfl) ih

/-- all characters of a word are ASCII lower-case letters -/
def IsLowerWord (w : Str) : Prop := ∀ c ∈ w, isLowerAscii c = true

theorem CaseVariant.all_word {w W : Str} (h : CaseVariant w W) (hw : IsLowerWord w) :
    ∀ c ∈ W, isReWord c = true ∧ isReSpace c = false := by
  induction h with
  | nil => simp
  | cons hc _ ih =>
    intro d hd
    simp only [List.mem_cons] at hd
    rcases hd with rfl | hd
    · exact caseVar_class (hw _ (by simp)) hc
    · exact ih (fun x hx => hw x (by simp [hx])) d hd

theorem drop_succ_of_drop_cons {t : Array Char} {i : Nat} {c : Char} {s : Str}
    (h : t.toList.drop i = c :: s) : t.toList.drop (i + 1) = s := by
  have := drop_add_of_drop (xs := [c]) (rest := s) (by simpa using h)
  simpa using this

/-- a literal word matches each of its letter-case variants -/
theorem ciWord_variant {w W : Str} (hv : CaseVariant w W) (hw : IsLowerWord w) :
    ∀ {t : Array Char} {i : Nat} {rest : Str} (z : Bool), t.toList.drop i = W ++ rest →
      ciWord w t ⟨i, z⟩ = some ((), ⟨i + W.length, z⟩) := by
  induction hv with
  | nil => intro t i rest z _; simp [ciWord]
  | @cons l c w W hc _ ih =>
    intro t i rest z h
    have hs := sat_of_head (p := (ciMatches · l)) z (by simpa using h)
      (ciMatches_of_caseVar (hw l (by simp)) hc)
    have h1 : t.toList.drop (i + 1) = W ++ rest := drop_succ_of_drop_cons (by simpa using h)
    have := ih (fun x hx => hw x (by simp [hx])) z h1
    simp only [ciWord, bind_apply, hs, this, List.length_cons]
    congr 3; omega

theorem sat_inv {p : Char → Bool} {t : Array Char} {s s' : PState} {c : Char}
    (h : sat p t s = some (c, s')) : t[s.pos]? = some c ∧ p c = true ∧ s' = { s with pos := s.pos + 1 } := by
  simp only [sat] at h
  cases hg : t[s.pos]? with
  | none => simp [hg] at h
  | some d =>
    simp only [hg] at h
    cases hp : p d with
    | false => simp [hp] at h
    | true =>
      simp only [hp, if_true, Option.some.injEq, Prod.mk.injEq] at h
      obtain ⟨rfl, rfl⟩ := h
      exact ⟨rfl, hp, rfl⟩

/-- if a literal word `v` matches where a variant of `w` stands (followed by a non-word
    character or nothing), then `v` is a prefix of `w` -/
theorem ciWord_inv_variant {v : Str} (hvl : IsLowerWord v) :
    ∀ {w W : Str}, CaseVariant w W → IsLowerWord w →
    ∀ {t : Array Char} {i : Nat} {rest : Str} {z : Bool} {u : Unit} {s' : PState},
      t.toList.drop i = W ++ rest → (∀ c, rest.head? = some c → isReWord c = false) →
      ciWord v t ⟨i, z⟩ = some (u, s') → s' = ⟨i + v.length, z⟩ ∧ ∃ w', w = v ++ w' := by
  induction v with
  | nil =>
    intro w W _ _ t i rest z u s' _ _ h
    simp only [ciWord, pure_apply, Option.some.injEq, Prod.mk.injEq] at h
    exact ⟨by simp [← h.2], w, rfl⟩
  | cons l v ih =>
    intro w W hv hw t i rest z u s' ht hrest h
    simp only [ciWord, bind_apply] at h
    cases hs : sat (fun x => ciMatches x l) t ⟨i, z⟩ with
    | none => simp [hs] at h
    | some r =>
      obtain ⟨c, s1⟩ := r
      obtain ⟨hg, hm, rfl⟩ := sat_inv hs
      simp only [hs] at h
      have hl := hvl l (by simp)
      cases hv with
      | nil =>
        have h0 := getElem?_of_drop0 ht
        simp only [List.nil_append] at h0
        have : rest.head? = some c := by rw [← h0]; exact hg
        have := hrest c this
        rw [isReWord_of_ciMatches hl hm] at this
        cases this
      | @cons l' c' w W hc hv' =>
        have h0 := getElem?_of_drop0 ht
        simp only [List.cons_append, List.head?_cons] at h0
        have hcc : c' = c := by
          have : some c' = some c := by rw [← h0]; exact hg
          exact Option.some.inj this
        subst hcc
        have hll := eq_of_ciMatches_caseVar hl (hw l' (by simp)) hc hm
        subst hll
        have h1 : t.toList.drop (i + 1) = W ++ rest := drop_succ_of_drop_cons (by simpa using ht)
        obtain ⟨hs', w', hw'⟩ := ih (fun x hx => hvl x (by simp [hx])) hv' (fun x hx => hw x (by simp [hx])) h1 hrest h
        refine ⟨?_, w', by simp [hw']⟩
        rw [hs']; simp only [List.length_cons]; congr 1; omega

/-! ### word boundaries -/

theorem wordBoundary_of {t : Array Char} {j : Nat} {a : Char} (z : Bool)
    (hprev : t[j]? = some a) (ha : isReWord a = true)
    (hnext : ∀ c, t[j + 1]? = some c → isReWord c = false) :
    wordBoundary t ⟨j + 1, z⟩ = some ((), ⟨j + 1, z⟩) := by
  have : wordBoundaryAt t (j + 1) = true := by
    simp only [wordBoundaryAt, Nat.add_one_ne_zero, if_false, Nat.add_sub_cancel, hprev, Option.map_some, Option.getD_some, ha]
    cases hn : t[j + 1]? with
    | none => simp
    | some c => simp [hnext c hn]
  simp [wordBoundary, this]

theorem wordBoundary_fail_of {t : Array Char} {j : Nat} {a b : Char} (z : Bool)
    (hprev : t[j]? = some a) (ha : isReWord a = true)
    (hnext : t[j + 1]? = some b) (hb : isReWord b = true) :
    wordBoundary t ⟨j + 1, z⟩ = none := by
  have : wordBoundaryAt t (j + 1) = false := by
    simp [wordBoundaryAt, hprev, hnext, ha, hb]
  simp [wordBoundary, this]

theorem wordBoundary_inv {t : Array Char} {s s' : PState} {u : Unit}
    (h : wordBoundary t s = some (u, s')) : s' = s ∧ wordBoundaryAt t s.pos = true := by
  simp only [wordBoundary] at h
  cases hb : wordBoundaryAt t s.pos with
  | false => simp [hb] at h
  | true => simp only [hb, if_true, Option.some.injEq, Prod.mk.injEq] at h; exact ⟨h.2.symm, rfl⟩

/-- `\\b` after a non-empty word-character run `W` that is followed by a non-word character or nothing -/
theorem wordBoundary_after {t : Array Char} {i : Nat} {W rest : Str} (z : Bool)
    (h : t.toList.drop i = W ++ rest) (hne : W ≠ []) (hW : ∀ c ∈ W, isReWord c = true)
    (hrest : ∀ c, rest.head? = some c → isReWord c = false) :
    wordBoundary t ⟨i + W.length, z⟩ = some ((), ⟨i + W.length, z⟩) := by
  obtain ⟨n, hn⟩ : ∃ n, W.length = n + 1 := ⟨W.length - 1, by
    have : 0 < W.length := List.length_pos_iff.mpr hne
    omega⟩
  have hlast : t[i + n]? = (W ++ rest)[n]? := getElem?_of_drop h n
  have hlt : n < W.length := by omega
  rw [List.getElem?_append_left hlt, List.getElem?_eq_getElem hlt] at hlast
  have hnext : t[i + n + 1]? = rest.head? := by
    have := getElem?_of_drop0 (drop_add_of_drop h)
    rw [hn] at this
    simpa [Nat.add_assoc] using this
  have := wordBoundary_of (t := t) (j := i + n) z hlast (hW _ (List.getElem_mem hlt))
    (fun c hc => hrest c (by rw [← hnext]; exact hc))
  rw [hn]; simpa [Nat.add_assoc] using this

/-! ### unit names -/

/-- the text of a unit name: letter-case variants of its words, joined by non-empty runs of `\\s` -/
inductive UnitText : List Str → Str → Prop
  | one {w W : Str} : CaseVariant w W → UnitText [w] W
  | cons {w W S : Str} {ws : List Str} {T : Str} : CaseVariant w W → S ≠ [] →
      (∀ c ∈ S, isReSpace c = true) → ws ≠ [] → UnitText ws T → UnitText (w :: ws) (W ++ S ++ T)

/-- the words of a unit name: non-empty, ASCII lower-case letters only -/
def IsUnitWords (ws : List Str) : Prop := ∀ w ∈ ws, w ≠ [] ∧ IsLowerWord w

theorem CaseVariant.ne_nil {w W : Str} (h : CaseVariant w W) (hne : w ≠ []) : W ≠ [] := by
  cases h with
  | nil => exact absurd rfl hne
  | cons _ _ => simp

theorem UnitText.head_letter {ws : List Str} {T : Str} (h : UnitText ws T) (hws : IsUnitWords ws) :
    ∃ c T', T = c :: T' ∧ isReWord c = true ∧ isReSpace c = false := by
  have key : ∀ {w W : Str} (X : Str), CaseVariant w W → w ≠ [] → IsLowerWord w →
      ∃ c T', W ++ X = c :: T' ∧ isReWord c = true ∧ isReSpace c = false := by
    intro w W X hv hne hl
    cases hv with
    | nil => exact absurd rfl hne
    | @cons l c w W hc hv' =>
      exact ⟨c, W ++ X, by simp, caseVar_class (hl l (by simp)) hc⟩
  cases h with
  | one hv =>
    have := key [] hv (hws _ (by simp)).1 (hws _ (by simp)).2
    simpa using this
  | @cons w W S ws T hv _ _ _ _ =>
    have := key (S ++ T) hv (hws _ (by simp)).1 (hws _ (by simp)).2
    simpa [List.append_assoc] using this

theorem unitPattern_cons2 (w w2 : Str) (ws : List Str) :
    unitPattern (w :: w2 :: ws) = (do ciWord w; sp; unitPattern (w2 :: ws)) := rfl

/-- an alternative of the unit pattern matches each spelling of its name that ends at a word boundary -/
theorem unitPattern_text {ws : List Str} {T : Str} (hT : UnitText ws T) (hws : IsUnitWords ws) :
    ∀ {t : Array Char} {i : Nat} {rest : Str} (z : Bool), t.toList.drop i = T ++ rest →
      (∀ c, rest.head? = some c → isReWord c = false) →
      unitPattern ws t ⟨i, z⟩ = some ((), ⟨i + T.length, z⟩) := by
  induction hT with
  | @one w W hv =>
    intro t i rest z h hrest
    have hw := hws w (by simp)
    have h1 := ciWord_variant hv hw.2 z h
    have h2 := wordBoundary_after z h (hv.ne_nil hw.1) (fun c hc => (hv.all_word hw.2 c hc).1) hrest
    simp only [unitPattern, bind_apply, h1, h2]
  | @cons w W S ws T hv hSne hS hwsne hT' ih =>
    intro t i rest z h hrest
    have hw := hws w (by simp)
    have hws' : IsUnitWords ws := fun x hx => hws x (by simp [hx])
    have h0 : t.toList.drop i = W ++ (S ++ (T ++ rest)) := by simpa [List.append_assoc] using h
    have h1 := ciWord_variant hv hw.2 z h0
    have h2 := drop_add_of_drop h0
    obtain ⟨c, T', hTc, _, hcs⟩ := hT'.head_letter hws'
    have h3 := sp_run z h2 hSne hS (by rw [hTc]; intro d hd; simp at hd; subst hd; exact hcs)
    have h4 := drop_add_of_drop h2
    have h5 := ih hws' z h4 hrest
    cases ws with
    | nil => exact absurd rfl hwsne
    | cons w2 ws2 =>
      simp only [unitPattern_cons2, bind_apply, h1, h3, h5, List.length_append]
      congr 3; omega

theorem CaseVariant.split_append {v w' : Str} : ∀ {W : Str}, CaseVariant (v ++ w') W →
    ∃ V W', W = V ++ W' ∧ CaseVariant v V ∧ CaseVariant w' W' := by
  induction v with
  | nil => intro W h; exact ⟨[], W, rfl, .nil, h⟩
  | cons l v ih =>
    intro W h
    cases h with
    | @cons _ c _ W0 hc h' =>
      obtain ⟨V, W', rfl, hv, hw'⟩ := ih h'
      exact ⟨c :: V, W', rfl, .cons hc hv, hw'⟩

/-- no `\\b` between two word characters -/
theorem wordBoundary_fail_after {t : Array Char} {i : Nat} {V Y : Str} {c : Char} (z : Bool)
    (h : t.toList.drop i = V ++ c :: Y) (hne : V ≠ []) (hV : ∀ x ∈ V, isReWord x = true)
    (hc : isReWord c = true) :
    wordBoundary t ⟨i + V.length, z⟩ = none := by
  obtain ⟨n, hn⟩ : ∃ n, V.length = n + 1 := ⟨V.length - 1, by
    have : 0 < V.length := List.length_pos_iff.mpr hne
    omega⟩
  have hlast : t[i + n]? = (V ++ c :: Y)[n]? := getElem?_of_drop h n
  have hlt : n < V.length := by omega
  rw [List.getElem?_append_left hlt, List.getElem?_eq_getElem hlt] at hlast
  have hnext : t[i + n + 1]? = some c := by
    have := getElem?_of_drop0 (drop_add_of_drop h)
    rw [hn] at this
    simpa [Nat.add_assoc] using this
  have := wordBoundary_fail_of (t := t) (j := i + n) z hlast (hV _ (List.getElem_mem hlt)) hnext hc
  rw [hn]; simpa [Nat.add_assoc] using this

/-- first step of an alternative run against a spelling: the literal word `v` matched where a
    variant of `w` stands; if a `\\b` or a `\\s` follows the match, then `v = w` -/
theorem ciWord_step {v w W X : Str} (hvl : IsLowerWord v) (hvne : v ≠ []) (hv : CaseVariant w W)
    (hw : IsLowerWord w) {t : Array Char} {i : Nat} {z : Bool} {u : Unit} {s1 : PState}
    (ht : t.toList.drop i = W ++ X) (hX : ∀ c, X.head? = some c → isReWord c = false)
    (h : ciWord v t ⟨i, z⟩ = some (u, s1)) :
    s1 = ⟨i + v.length, z⟩ ∧
      ((wordBoundary t s1 ≠ none ∨ sp t s1 ≠ none) → v = w ∧ s1 = ⟨i + W.length, z⟩) := by
  obtain ⟨hs1, w', hw'⟩ := ciWord_inv_variant hvl hv hw ht hX h
  refine ⟨hs1, fun hor => ?_⟩
  subst hw'
  obtain ⟨V, W', rfl, hvV, hwW'⟩ := hv.split_append
  have hVlen := hvV.length_eq
  cases hwW' with
  | nil =>
    refine ⟨by simp, ?_⟩
    rw [hs1]; simp [hVlen]
  | @cons l c w'' W'' hc hrest' =>
    exfalso
    have hlc : isLowerAscii l = true := hw l (by simp)
    have hcc := caseVar_class hlc hc
    have ht' : t.toList.drop i = V ++ c :: (W'' ++ X) := by simpa [List.append_assoc] using ht
    have hVne : V ≠ [] := hvV.ne_nil hvne
    have hVw : ∀ x ∈ V, isReWord x = true := fun x hx => (hvV.all_word hvl x hx).1
    have hb := wordBoundary_fail_after z ht' hVne hVw hcc.1
    have hsp : sp t ⟨i + V.length, z⟩ = none :=
      skipMany1_fail z (drop_add_of_drop ht') (by intro d hd; simp at hd; subst hd; exact hcc.2)
    rw [hs1, ← hVlen] at hor
    rcases hor with h1 | h1
    · exact h1 hb
    · exact h1 hsp

theorem isSome_ne_none {α} {o : Option α} {a : α} (h : o = some a) : o ≠ none := by
  rw [h]; simp

/-- an alternative `vs` run against a spelling of the name `ws`: if it matches at all, it either
    consumes exactly that spelling, or the word lists `vs` and `ws` are different and one is a
    prefix of the other -/
theorem unitPattern_inv : ∀ {vs : List Str}, IsUnitWords vs → vs ≠ [] →
    ∀ {ws : List Str} {T : Str}, UnitText ws T → IsUnitWords ws →
    ∀ {t : Array Char} {i : Nat} {rest : Str} {z : Bool} {u : Unit} {s' : PState},
      t.toList.drop i = T ++ rest → (∀ c, rest.head? = some c → isReWord c = false) →
      unitPattern vs t ⟨i, z⟩ = some (u, s') →
      s' = ⟨i + T.length, z⟩ ∨ (vs ≠ ws ∧ (vs <+: ws ∨ ws <+: vs)) := by
  intro vs
  induction vs with
  | nil => intro _ h; exact absurd rfl h
  | cons v vs ih =>
    intro hvs _ ws T hT hws t i rest z u s' ht hrest h
    have hv := hvs v (by simp)
    cases vs with
    | nil =>
      -- the last word of the alternative, then `\\b`
      simp only [unitPattern, bind_apply] at h
      cases hc : ciWord v t ⟨i, z⟩ with
      | none => simp [hc] at h
      | some r =>
        obtain ⟨u1, s1⟩ := r
        simp only [hc] at h
        obtain ⟨hs', _⟩ := wordBoundary_inv h
        cases hT with
        | @one w W hvW =>
          have hw := hws w (by simp)
          obtain ⟨_, hstep⟩ := ciWord_step hv.2 hv.1 hvW hw.2 ht hrest hc
          obtain ⟨_, hs1⟩ := hstep (Or.inl (isSome_ne_none h))
          exact Or.inl (by rw [hs', hs1])
        | @cons w W S ws2 T2 hvW hSne hS hws2ne hT2 =>
          have hw := hws w (by simp)
          have ht' : t.toList.drop i = W ++ (S ++ T2 ++ rest) := by simpa [List.append_assoc] using ht
          have hX : ∀ c, (S ++ T2 ++ rest).head? = some c → isReWord c = false := by
            rw [List.append_assoc]
            exact follow_of_run (fun c => isReWord_false_of_isReSpace) hSne hS
          obtain ⟨_, hstep⟩ := ciWord_step hv.2 hv.1 hvW hw.2 ht' hX hc
          obtain ⟨hvw, _⟩ := hstep (Or.inl (isSome_ne_none h))
          subst hvw
          refine Or.inr ⟨?_, Or.inl ?_⟩
          · intro heq
            simp only [List.cons.injEq, true_and] at heq
            exact hws2ne heq.symm
          · exact List.cons_prefix_cons.mpr ⟨rfl, List.nil_prefix⟩
    | cons v2 vs2 =>
      simp only [unitPattern_cons2, bind_apply] at h
      cases hc : ciWord v t ⟨i, z⟩ with
      | none => simp [hc] at h
      | some r =>
        obtain ⟨u1, s1⟩ := r
        simp only [hc] at h
        cases hsp : sp t s1 with
        | none => simp [hsp] at h
        | some r2 =>
          obtain ⟨u2, s2⟩ := r2
          simp only [hsp] at h
          cases hT with
          | @one w W hvW =>
            have hw := hws w (by simp)
            obtain ⟨_, hstep⟩ := ciWord_step hv.2 hv.1 hvW hw.2 ht hrest hc
            obtain ⟨hvw, _⟩ := hstep (Or.inr (isSome_ne_none hsp))
            subst hvw
            refine Or.inr ⟨by simp, Or.inr ?_⟩
            exact List.cons_prefix_cons.mpr ⟨rfl, List.nil_prefix⟩
          | @cons w W S ws2 T2 hvW hSne hS hws2ne hT2 =>
            have hw := hws w (by simp)
            have hws2 : IsUnitWords ws2 := fun x hx => hws x (by simp [hx])
            have ht' : t.toList.drop i = W ++ (S ++ T2 ++ rest) := by simpa [List.append_assoc] using ht
            have hX : ∀ c, (S ++ T2 ++ rest).head? = some c → isReWord c = false := by
              rw [List.append_assoc]
              exact follow_of_run (fun c => isReWord_false_of_isReSpace) hSne hS
            obtain ⟨_, hstep⟩ := ciWord_step hv.2 hv.1 hvW hw.2 ht' hX hc
            obtain ⟨hvw, hs1⟩ := hstep (Or.inr (isSome_ne_none hsp))
            subst hvw
            subst hs1
            have h2 : t.toList.drop (i + W.length) = S ++ (T2 ++ rest) := by
              have := drop_add_of_drop ht'
              simpa [List.append_assoc] using this
            obtain ⟨c, T', hTc, _, hcs⟩ := hT2.head_letter hws2
            have hsp' := sp_run z h2 hSne hS (by rw [hTc]; intro d hd; simp at hd; subst hd; exact hcs)
            rw [hsp'] at hsp
            simp only [Option.some.injEq, Prod.mk.injEq] at hsp
            obtain ⟨_, hs2⟩ := hsp
            subst hs2
            have h3 := drop_add_of_drop h2
            have hvs2 : IsUnitWords (v2 :: vs2) := fun x hx => hvs x (by simp only [List.mem_cons] at hx ⊢; exact Or.inr hx)
            rcases ih hvs2 (by simp) hT2 hws2 h3 hrest h with hend | ⟨hne, hpre⟩
            · left
              rw [hend]; simp only [List.length_append]; congr 1; omega
            · right
              refine ⟨?_, ?_⟩
              · intro heq
                simp only [List.cons.injEq, true_and] at heq
                exact hne heq
              · rcases hpre with hp | hp
                · exact Or.inl (List.cons_prefix_cons.mpr ⟨rfl, hp⟩)
                · exact Or.inr (List.cons_prefix_cons.mpr ⟨rfl, hp⟩)

/-! ### the ordered choice of `known_unit` -/

theorem firstOf_of {pre post : List (P Unit)} {p : P Unit} {t : Array Char} {s : PState} {r : Unit × PState}
    (hp : p t s = some r) (hpre : ∀ a ∈ pre, a t s = none ∨ a t s = some r) :
    firstOf (pre ++ p :: post) t s = some r := by
  induction pre with
  | nil => simp [firstOf, hp]
  | cons a pre ih =>
    have iht := ih (fun x hx => hpre x (by simp [hx]))
    rcases hpre a (by simp) with h | h
    · simp only [List.cons_append, firstOf, orElse_apply, h]; exact iht
    · simp only [List.cons_append, firstOf, orElse_apply, h]

/-- two different word lists, one of which is a prefix of the other -/
def wordsConflict (a b : List Str) : Bool := a != b && (a.isPrefixOf b || b.isPrefixOf a)

/-- no alternative's word list is a proper prefix of another's.  (Within a word the regex `\\b`
    already rejects a shorter alternative, e.g. `g` on "grams"; across words it does not: an
    alternative `tea` listed before `tea spoon` would win on "tea spoon".) -/
def prefixFree : List (List Str) → Bool
  | [] => true
  | a :: rest => rest.all (fun b => !wordsConflict a b) && prefixFree rest

/-- the words of an alternative are non-empty and consist of ASCII lower-case letters -/
def unitWordsOk (ws : List Str) : Bool := !ws.isEmpty && ws.all fun w => !w.isEmpty && w.all isLowerAscii

theorem unitWordsOk_iff {ws : List Str} (h : unitWordsOk ws = true) : ws ≠ [] ∧ IsUnitWords ws := by
  simp only [unitWordsOk, Bool.and_eq_true, Bool.not_eq_true', List.isEmpty_eq_false_iff, List.all_eq_true] at h
  refine ⟨h.1, fun w hw => ⟨(h.2 w hw).1, fun c hc => (h.2 w hw).2 c hc⟩⟩

theorem prefixFree_before {pre post : List (List Str)} {wk : List Str}
    (h : prefixFree (pre ++ wk :: post) = true) : ∀ a ∈ pre, wordsConflict a wk = false := by
  induction pre with
  | nil => simp
  | cons a pre ih =>
    simp only [List.cons_append, prefixFree, Bool.and_eq_true, List.all_eq_true, Bool.not_eq_true'] at h
    intro x hx
    simp only [List.mem_cons] at hx
    rcases hx with rfl | hx
    · exact h.1 wk (by simp)
    · exact ih h.2 x hx

theorem not_conflict {a b : List Str} (h : wordsConflict a b = false) :
    ¬ (a ≠ b ∧ (a <+: b ∨ b <+: a)) := by
  intro ⟨hne, hp⟩
  simp only [wordsConflict, Bool.and_eq_false_iff, bne_eq_false_iff_eq, Bool.or_eq_false_iff] at h
  rcases h with h | h
  · exact hne h
  · rcases hp with hp | hp
    · have := List.isPrefixOf_iff_prefix.mpr hp; rw [h.1] at this; cases this
    · have := List.isPrefixOf_iff_prefix.mpr hp; rw [h.2] at this; cases this

/-- **the longest matching name wins**: for any table of alternatives whose words are lower-case
    letters and in which no word list is a proper prefix of another, the ordered choice consumes
    exactly the spelling of any of its alternatives -/
theorem firstOf_unitText {tbl : List (List Str)} (hok : tbl.all unitWordsOk = true)
    (hfree : prefixFree tbl = true) {ws : List Str} (hmem : ws ∈ tbl) {T : Str} (hT : UnitText ws T)
    {t : Array Char} {i : Nat} {rest : Str} (z : Bool) (ht : t.toList.drop i = T ++ rest)
    (hrest : ∀ c, rest.head? = some c → isReWord c = false) :
    firstOf (tbl.map unitPattern) t ⟨i, z⟩ = some ((), ⟨i + T.length, z⟩) := by
  rw [List.all_eq_true] at hok
  obtain ⟨pre, post, rfl⟩ := List.append_of_mem hmem
  have hws := (unitWordsOk_iff (hok ws hmem)).2
  have hp := unitPattern_text hT hws z ht hrest
  rw [List.map_append, List.map_cons]
  apply firstOf_of hp
  intro a ha
  obtain ⟨vs, hvs, rfl⟩ := List.mem_map.mp ha
  have hvok := unitWordsOk_iff (hok vs (by simp [hvs]))
  cases hr : unitPattern vs t ⟨i, z⟩ with
  | none => exact Or.inl rfl
  | some r =>
    obtain ⟨u, s'⟩ := r
    right
    rcases unitPattern_inv hvok.2 hvok.1 hT hws ht hrest hr with hend | hconf
    · rw [hend]
    · exact absurd hconf (not_conflict (prefixFree_before hfree vs hvs))

theorem unitPatterns_words_table : unitPatterns.all unitWordsOk = true := by decide +kernel
theorem unitPatterns_prefixFree_table : prefixFree unitPatterns = true := by decide +kernel

theorem knownUnit_text {ws : List Str} (hmem : ws ∈ unitPatterns) {T : Str} (hT : UnitText ws T)
    {t : Array Char} {i : Nat} {rest : Str} (z : Bool) (ht : t.toList.drop i = T ++ rest)
    (hrest : ∀ c, rest.head? = some c → isReWord c = false) :
    knownUnit t ⟨i, z⟩ = some ((), ⟨i + T.length, z⟩) :=
  firstOf_unitText unitPatterns_words_table unitPatterns_prefixFree_table hmem hT z ht hrest

/-! # Print/parse round trips for the string rules of `Model/Parser.lean`:
    `many` (generic), `quotedString`, `nakedString`, `bracketedString`, `string`/`stringF`.

    Conventions as in `Lemmas/Parser.lean`. -/

/-! ## small text facts -/

theorem lt_size_of_drop_cons {t : Array Char} {i : Nat} {c : Char} {rest : Str}
    (h : t.toList.drop i = c :: rest) : i < t.size := by
  have := size_of_drop h
  simp only [List.length_cons] at this
  omega

theorem le_size_of_drop_append {t : Array Char} {i : Nat} {xs rest : Str}
    (h : t.toList.drop i = xs ++ rest) (hne : xs ≠ []) : i + xs.length ≤ t.size := by
  have := size_of_drop h
  have : 0 < xs.length := List.length_pos_iff.mpr hne
  simp only [List.length_append] at *
  omega

/-! ## 0. `many` -/

/-- `Chain p t z i as j`: starting at offset `i`, successive runs of `p` yield the values `as`
    and end at offset `j`; every run consumes at least one character and leaves the flag alone -/
inductive Chain {α} (p : P α) (t : Array Char) (z : Bool) : Nat → List α → Nat → Prop
  | nil (i : Nat) : Chain p t z i [] i
  | cons {i k j : Nat} {a : α} {as : List α} :
      p t ⟨i, z⟩ = some (a, ⟨k, z⟩) → i < k → Chain p t z k as j → Chain p t z i (a :: as) j

theorem Chain.le {α} {p : P α} {t : Array Char} {z : Bool} {i j : Nat} {as : List α}
    (h : Chain p t z i as j) : i ≤ j := by
  induction h with
  | nil i => exact Nat.le_refl _
  | cons _ hlt _ ih => omega

theorem Chain.append {α} {p : P α} {t : Array Char} {z : Bool} {i j k : Nat} {as bs : List α}
    (h1 : Chain p t z i as j) (h2 : Chain p t z j bs k) : Chain p t z i (as ++ bs) k := by
  induction h1 with
  | nil i => simpa using h2
  | cons hp hlt _ ih => exact Chain.cons hp hlt (ih h2)

theorem Chain.single {α} {p : P α} {t : Array Char} {z : Bool} {i k : Nat} {a : α}
    (hp : p t ⟨i, z⟩ = some (a, ⟨k, z⟩)) (hlt : i < k) : Chain p t z i [a] k :=
  Chain.cons hp hlt (Chain.nil k)

theorem manyF_of_chain {α} {p : P α} {t : Array Char} {z : Bool} {i j : Nat} {as : List α}
    (h : Chain p t z i as j) (hend : p t ⟨j, z⟩ = none) :
    ∀ fuel, j - i ≤ fuel → manyF p fuel t ⟨i, z⟩ = some (as, ⟨j, z⟩) := by
  induction h with
  | nil i =>
    intro fuel _
    cases fuel with
    | zero => rfl
    | succ f => simp only [manyF, orElse_apply, bind_apply, hend, pure_apply]
  | @cons i k j a as hp hlt hc ih =>
    intro fuel hf
    have := hc.le
    cases fuel with
    | zero => omega
    | succ f =>
      have := ih hend f (by omega)
      simp only [manyF, orElse_apply, bind_apply, hp, this, pure_apply]

/-- `p*` recovers a chain of `p` runs that is followed by something `p` fails on -/
theorem many_of_chain {α} {p : P α} {t : Array Char} {z : Bool} {i j : Nat} {as : List α}
    (h : Chain p t z i as j) (hj : j ≤ t.size) (hend : p t ⟨j, z⟩ = none) :
    many p t ⟨i, z⟩ = some (as, ⟨j, z⟩) := by
  simp only [many, bind_apply, remaining_apply]
  exact manyF_of_chain h hend _ (by omega)

/-! ## progress: which parsers never move backwards (`Mono`) / always consume something (`Adv`) -/

/-- `p` never moves backwards -/
def Mono {α} (p : P α) : Prop := ∀ t s a s', p t s = some (a, s') → s.pos ≤ s'.pos
/-- `p` consumes at least one character when it succeeds -/
def Adv {α} (p : P α) : Prop := ∀ t s a s', p t s = some (a, s') → s.pos < s'.pos

theorem Adv.mono {α} {p : P α} (h : Adv p) : Mono p := fun t s a s' e => Nat.le_of_lt (h t s a s' e)

theorem mono_pure {α} (a : α) : Mono (pure a : P α) := by
  intro t s b s' e; simp only [pure_apply, Option.some.injEq, Prod.mk.injEq] at e; rw [e.2]; exact Nat.le_refl _

theorem adv_fail {α} : Adv (fail : P α) := by intro t s a s' e; cases e

theorem mono_getPos : Mono getPos := by
  intro t s b s' e; simp only [getPos_apply, Option.some.injEq, Prod.mk.injEq] at e; rw [e.2]; exact Nat.le_refl _

theorem bind_some {α β} {m : P α} {f : α → P β} {t s b s'} (e : (m >>= f) t s = some (b, s')) :
    ∃ a s1, m t s = some (a, s1) ∧ f a t s1 = some (b, s') := by
  rw [bind_apply] at e
  cases hm : m t s with
  | none => rw [hm] at e; cases e
  | some r => obtain ⟨a, s1⟩ := r; rw [hm] at e; exact ⟨a, s1, rfl, e⟩

theorem mono_bind {α β} {m : P α} {f : α → P β} (hm : Mono m) (hf : ∀ a, Mono (f a)) : Mono (m >>= f) := by
  intro t s b s' e
  obtain ⟨a, s1, e1, e2⟩ := bind_some e
  exact Nat.le_trans (hm _ _ _ _ e1) (hf a _ _ _ _ e2)

theorem adv_bind_left {α β} {m : P α} {f : α → P β} (hm : Adv m) (hf : ∀ a, Mono (f a)) : Adv (m >>= f) := by
  intro t s b s' e
  obtain ⟨a, s1, e1, e2⟩ := bind_some e
  exact Nat.lt_of_lt_of_le (hm _ _ _ _ e1) (hf a _ _ _ _ e2)

theorem adv_bind_right {α β} {m : P α} {f : α → P β} (hm : Mono m) (hf : ∀ a, Adv (f a)) : Adv (m >>= f) := by
  intro t s b s' e
  obtain ⟨a, s1, e1, e2⟩ := bind_some e
  exact Nat.lt_of_le_of_lt (hm _ _ _ _ e1) (hf a _ _ _ _ e2)

theorem mono_orElse {α} {p q : P α} (hp : Mono p) (hq : Mono q) : Mono (p <|> q) := by
  intro t s a s' e
  rw [orElse_apply] at e
  cases h : p t s with
  | none => rw [h] at e; exact hq _ _ _ _ e
  | some r => rw [h] at e; simp only [Option.some.injEq] at e; subst e; exact hp _ _ _ _ h

theorem adv_orElse {α} {p q : P α} (hp : Adv p) (hq : Adv q) : Adv (p <|> q) := by
  intro t s a s' e
  rw [orElse_apply] at e
  cases h : p t s with
  | none => rw [h] at e; exact hq _ _ _ _ e
  | some r => rw [h] at e; simp only [Option.some.injEq] at e; subst e; exact hp _ _ _ _ h

theorem mono_map {α β} {f : α → β} {p : P α} (hp : Mono p) : Mono (f <$> p) := by
  intro t s b s' e
  rw [map_apply] at e
  cases h : p t s with
  | none => rw [h] at e; cases e
  | some r =>
    obtain ⟨a, s1⟩ := r
    rw [h] at e; simp only [Option.some.injEq, Prod.mk.injEq] at e
    rw [← e.2]; exact hp _ _ _ _ h

theorem mono_opt {α} {p : P α} (hp : Mono p) : Mono (opt p) :=
  mono_orElse (mono_map hp) (mono_pure none)

theorem adv_sat (p : Char → Bool) : Adv (sat p) := by
  intro t s a s' e
  simp only [sat] at e
  split at e
  · split at e
    · simp only [Option.some.injEq, Prod.mk.injEq] at e; rw [← e.2]; exact Nat.lt_succ_self _
    · cases e
  · cases e

theorem adv_lit (c : Char) : Adv (lit c) := adv_bind_left (adv_sat _) (fun _ => mono_pure _)

theorem spanEnd_go_ge (p : Char → Bool) (t : Array Char) : ∀ fuel j, j ≤ spanEnd.go p t fuel j := by
  intro fuel
  induction fuel with
  | zero => intro j; exact Nat.le_refl _
  | succ f ih =>
    intro j
    simp only [spanEnd.go]
    split
    · split
      · exact Nat.le_trans (Nat.le_succ j) (ih (j + 1))
      · exact Nat.le_refl _
    · exact Nat.le_refl _

theorem mono_skipMany (p : Char → Bool) : Mono (skipMany p) := by
  intro t s a s' e
  simp only [skipMany, Option.some.injEq, Prod.mk.injEq] at e
  rw [← e.2]
  exact spanEnd_go_ge p t _ _

theorem adv_skipMany1 (p : Char → Bool) : Adv (skipMany1 p) :=
  adv_bind_left (adv_sat p) (fun _ => mono_skipMany p)

theorem withText_some {α} {p : P α} {t s r s'} (e : withText p t s = some (r, s')) :
    ∃ a, p t s = some (a, s') := by
  simp only [withText] at e
  cases h : p t s with
  | none => rw [h] at e; cases e
  | some r' =>
    obtain ⟨a, s1⟩ := r'
    rw [h] at e; simp only [Option.some.injEq, Prod.mk.injEq] at e
    exact ⟨a, by rw [e.2]⟩

theorem mono_withText {α} {p : P α} (hp : Mono p) : Mono (withText p) := by
  intro t s r s' e; obtain ⟨a, h⟩ := withText_some e; exact hp _ _ _ _ h

theorem adv_withText {α} {p : P α} (hp : Adv p) : Adv (withText p) := by
  intro t s r s' e; obtain ⟨a, h⟩ := withText_some e; exact hp _ _ _ _ h

theorem mono_textOf {p : P Unit} (hp : Mono p) : Mono (textOf p) :=
  mono_bind (mono_withText hp) (fun _ => mono_pure _)

theorem adv_textOf {p : P Unit} (hp : Adv p) : Adv (textOf p) :=
  adv_bind_left (adv_withText hp) (fun _ => mono_pure _)

theorem adv_digits : Adv digits := adv_textOf (adv_skipMany1 _)

theorem adv_decimal : Adv decimal := by
  unfold decimal
  refine adv_bind_right mono_getPos fun off => adv_bind_left adv_digits fun whole => ?_
  refine mono_bind (mono_opt ?_) fun frac => ?_
  · exact mono_bind (adv_lit _).mono fun _ => mono_textOf (mono_skipMany _)
  · cases frac <;> exact mono_pure _

theorem adv_fraction : Adv fraction := by
  unfold fraction
  refine adv_bind_right mono_getPos fun start => ?_
  refine adv_bind_right (mono_opt ?_) fun integer => ?_
  · exact mono_bind adv_digits.mono fun _ => mono_bind (adv_skipMany1 _).mono fun _ => mono_pure _
  refine adv_bind_right mono_getPos fun numerStart => adv_bind_left adv_digits fun numer => ?_
  refine mono_bind (mono_skipMany _) fun _ => mono_bind (adv_lit _).mono fun _ => ?_
  refine mono_bind (mono_skipMany _) fun _ => mono_bind adv_digits.mono fun denom => ?_
  simp only
  split
  · exact adv_fail.mono
  · exact mono_pure _

theorem adv_number : Adv number := adv_orElse adv_fraction adv_decimal

theorem NumberAt.ne_nil {txt rest : Str} {v : Num} (h : NumberAt txt rest v) : txt ≠ [] := by
  intro e
  subst e
  have h1 := h rest.toArray 0 false (by simp)
  have := adv_number _ _ _ _ h1
  simp at this

/-! ## 1. quoted strings -/

theorem escaped_of_head {t : Array Char} {i : Nat} {l : Char} {rest : Str} (z : Bool)
    (h : t.toList.drop i = '\\' :: l :: rest) :
    escaped t ⟨i, z⟩ = some (unescape l, ⟨i + 2, z⟩) := by
  have h1 := lit_of_head z h
  have h2 := sat_of_head (p := fun _ => true) z (drop_succ_of_drop_cons h) rfl
  simp only [escaped, anyChar, bind_apply, h1, h2]
  rfl

theorem escaped_fail_of_head {t : Array Char} {i : Nat} {s : Str} (z : Bool)
    (h : t.toList.drop i = s) (hc : s.head? ≠ some '\\') :
    escaped t ⟨i, z⟩ = none := by
  simp only [escaped, bind_apply, lit_fail_of_head z h hc]

/-- the item parser of `quotedString q` -/
def quotedItem (q : Char) : P Char := escaped <|> sat fun c => c != q && !isNewline c

/-- a (printed text, value) pair that the body of a `q`-quoted string accepts as one item -/
def QuotedItemOk (q : Char) (it : Str × Char) : Prop :=
  (∃ c, it = ([c], c) ∧ c ≠ q ∧ c ≠ '\\' ∧ isNewline c = false) ∨ (∃ l, it = (['\\', l], unescape l))

theorem quotedItem_of_ok {q : Char} {it : Str × Char} (hit : QuotedItemOk q it)
    {t : Array Char} {i : Nat} {rest : Str} (z : Bool) (h : t.toList.drop i = it.1 ++ rest) :
    quotedItem q t ⟨i, z⟩ = some (it.2, ⟨i + it.1.length, z⟩) := by
  rcases hit with ⟨c, rfl, hq, hb, hn⟩ | ⟨l, rfl⟩
  · have h' : t.toList.drop i = c :: rest := by simpa using h
    have h1 := escaped_fail_of_head z h' (by simpa using hb)
    have h2 := sat_of_head (p := fun c => c != q && !isNewline c) z h' (by simp [hq, hn])
    simp only [quotedItem, orElse_apply, h1, h2]
    rfl
  · have h' : t.toList.drop i = '\\' :: l :: rest := by simpa using h
    simp only [quotedItem, orElse_apply, escaped_of_head z h']
    rfl

theorem QuotedItemOk.length_pos {q : Char} {it : Str × Char} (hit : QuotedItemOk q it) :
    0 < it.1.length := by
  rcases hit with ⟨c, rfl, _⟩ | ⟨l, rfl⟩ <;> simp

theorem quotedItem_chain {q : Char} {t : Array Char} (z : Bool) {rest : Str} :
    ∀ (items : List (Str × Char)) (i : Nat), (∀ it ∈ items, QuotedItemOk q it) →
      t.toList.drop i = items.flatMap (·.1) ++ rest →
      Chain (quotedItem q) t z i (items.map (·.2)) (i + (items.flatMap (·.1)).length) := by
  intro items
  induction items with
  | nil => intro i _ _; exact Chain.nil i
  | cons it items ih =>
    intro i hok h
    have hit := hok it (by simp)
    have h' : t.toList.drop i = it.1 ++ (items.flatMap (·.1) ++ rest) := by simpa using h
    have h1 := quotedItem_of_ok hit z h'
    have h2 := drop_add_of_drop h'
    have hc := ih (i + it.1.length) (fun x hx => hok x (by simp [hx])) h2
    have hp := hit.length_pos
    have e : i + ((it :: items).flatMap (·.1)).length
        = i + it.1.length + (items.flatMap (·.1)).length := by
      simp only [List.flatMap_cons, List.length_append]; omega
    rw [e]
    exact Chain.cons h1 (by omega) hc

theorem quotedItem_fail_quote {q : Char} (hq : q ≠ '\\') {t : Array Char} {i : Nat} {rest : Str}
    (z : Bool) (h : t.toList.drop i = q :: rest) : quotedItem q t ⟨i, z⟩ = none := by
  have h1 := escaped_fail_of_head z h (by simpa using hq)
  have h2 := sat_fail_of_head (p := fun c => c != q && !isNewline c) z h (by simp)
  simp only [quotedItem, orElse_apply, h1, h2]

/-- a `q`-quoted string whose body is a sequence of admissible items is recovered item by item -/
theorem quotedString_items {q : Char} (hq : q ≠ '\\') {t : Array Char} {i : Nat}
    {items : List (Str × Char)} {rest : Str} (z : Bool)
    (h : t.toList.drop i = q :: items.flatMap (·.1) ++ q :: rest)
    (hok : ∀ it ∈ items, QuotedItemOk q it) :
    quotedString q t ⟨i, z⟩ =
      some ([.sub i (items.map (·.2))], ⟨i + (q :: items.flatMap (·.1) ++ [q]).length, z⟩) := by
  have h0 : t.toList.drop i = q :: (items.flatMap (·.1) ++ q :: rest) := by simpa using h
  have h1 := lit_of_head z h0
  have h2 := drop_succ_of_drop_cons h0
  have hc := quotedItem_chain z items (i + 1) hok h2
  have h3 := drop_add_of_drop h2
  have hm := many_of_chain hc (Nat.le_of_lt (lt_size_of_drop_cons h3)) (quotedItem_fail_quote hq z h3)
  have h4 := lit_of_head z h3
  have hm' : many (escaped <|> sat fun c => c != q && !isNewline c) t ⟨i + 1, z⟩ = _ := hm
  simp only [quotedString, bind_apply, getPos_apply, h1, hm', h4]
  have e : i + 1 + (items.flatMap (·.1)).length + 1 = i + (q :: items.flatMap (·.1) ++ [q]).length := by
    simp only [List.length_append, List.length_cons, List.length_nil]; omega
  rw [e]; rfl

/-! ### the canonical printer -/

/-- the escape letter of a character that `ESCAPE_CHARS` can produce -/
def escLetter? (c : Char) : Option Char :=
  (Gen.escapeChars.find? (·.2 == c.toNat)).map (fun p => Char.ofNat p.1)

def quoteItem (c : Char) : Str × Char :=
  match escLetter? c with
  | some l => (['\\', l], c)
  | none => ([c], c)

def quoteBody (s : Str) : Str := s.flatMap (fun c => (quoteItem c).1)

theorem escapeChars_lookup :
    ∀ p ∈ Gen.escapeChars, Gen.escapeChars.lookup (Char.ofNat p.1).toNat = some p.2 := by decide

theorem unescape_of_escLetter {c l : Char} (h : escLetter? c = some l) : unescape l = c := by
  simp only [escLetter?, Option.map_eq_some_iff] at h
  obtain ⟨p, hp, rfl⟩ := h
  have hmem := List.mem_of_find?_eq_some hp
  have hval := List.find?_some hp
  simp only [beq_iff_eq] at hval
  simp only [unescape, escapeChars_lookup p hmem, hval, Char.ofNat_toNat]

theorem escLetter_none_ne {c : Char} (h : escLetter? c = none) :
    c ≠ '\\' ∧ c ≠ '\'' ∧ c ≠ '"' ∧ isNewline c = false := by
  simp only [escLetter?, Option.map_eq_none_iff, List.find?_eq_none] at h
  have h1 : c.toNat ≠ 92 := fun e => by have := h (92, 92) (by decide); simp [e] at this
  have h2 : c.toNat ≠ 39 := fun e => by have := h (39, 39) (by decide); simp [e] at this
  have h3 : c.toNat ≠ 34 := fun e => by have := h (34, 34) (by decide); simp [e] at this
  have h4 : c.toNat ≠ 10 := fun e => by have := h (110, 10) (by decide); simp [e] at this
  have h5 : c.toNat ≠ 13 := fun e => by have := h (114, 13) (by decide); simp [e] at this
  refine ⟨?_, ?_, ?_, ?_⟩
  · rintro rfl; exact h1 rfl
  · rintro rfl; exact h2 rfl
  · rintro rfl; exact h3 rfl
  · cases hn : isNewline c with
    | false => rfl
    | true =>
      simp only [isNewline, Bool.or_eq_true, beq_iff_eq] at hn
      rcases hn with rfl | rfl
      · exact absurd rfl h4
      · exact absurd rfl h5

theorem quoteItem_snd (c : Char) : (quoteItem c).2 = c := by
  unfold quoteItem; split <;> rfl

theorem quoteItem_ok {q : Char} (hq : q = '\'' ∨ q = '"') (c : Char) : QuotedItemOk q (quoteItem c) := by
  unfold quoteItem
  split
  · next l hl => exact Or.inr ⟨l, by rw [unescape_of_escLetter hl]⟩
  · next hn =>
    obtain ⟨h1, h2, h3, h4⟩ := escLetter_none_ne hn
    refine Or.inl ⟨c, rfl, ?_, h1, h4⟩
    rcases hq with rfl | rfl
    · exact h2
    · exact h3

theorem quoteItems_fst (s : Str) : (s.map quoteItem).flatMap (·.1) = quoteBody s := by
  simp [quoteBody, List.flatMap_map]

theorem quoteItems_snd (s : Str) : (s.map quoteItem).map (·.2) = s := by
  induction s with
  | nil => rfl
  | cons c s ih => simp only [List.map_cons, quoteItem_snd, ih]

/-- every string, written with the canonical escapes between single or double quotes, is recovered -/
theorem quotedString_quote {q : Char} (hq : q = '\'' ∨ q = '"') {t : Array Char} {i : Nat}
    {s rest : Str} (z : Bool) (h : t.toList.drop i = q :: quoteBody s ++ q :: rest) :
    quotedString q t ⟨i, z⟩ = some ([.sub i s], ⟨i + (q :: quoteBody s ++ [q]).length, z⟩) := by
  have hq' : q ≠ '\\' := by rcases hq with rfl | rfl <;> decide
  have := quotedString_items (items := s.map quoteItem) hq' z (by rw [quoteItems_fst]; exact h)
    (by intro it hit; simp only [List.mem_map] at hit; obtain ⟨c, _, rfl⟩ := hit; exact quoteItem_ok hq c)
  rw [quoteItems_fst, quoteItems_snd] at this
  exact this

/-! ## 2. naked strings -/

theorem isSpecial_cases {c : Char} (h : isSpecial c = true) :
    c = '"' ∨ c = '\'' ∨ c = ',' ∨ c = ':' ∨ c = '=' ∨ c = '/' ∨ c = '(' ∨ c = ')' ∨ c = '{' ∨ c = '}' := by
  simpa [isSpecial] using h

theorem isSpecial_of_isReSpace {c : Char} (h : isReSpace c = true) : isSpecial c = false := by
  cases hs : isSpecial c with
  | false => rfl
  | true =>
    rcases isSpecial_cases hs with rfl | rfl | rfl | rfl | rfl | rfl | rfl | rfl | rfl | rfl <;>
      exact absurd h (by decide)

theorem isNakedEdge_of_isReSpace {c : Char} (h : isReSpace c = true) : isNakedEdge c = false := by
  simp [isNakedEdge, h]

theorem isNakedInner_of_blank {c : Char} (h : isReSpace c = true) (hn : isNewline c = false) :
    isNakedInner c = true := by
  simp [isNakedInner, isSpecial_of_isReSpace h, hn]

theorem isReSpace_of_isNewline {c : Char} (h : isNewline c = true) : isReSpace c = true := by
  simp only [isNewline, Bool.or_eq_true, beq_iff_eq] at h
  rcases h with rfl | rfl <;> decide

theorem isReSpace_of_isHsp {c : Char} (h : isHsp c = true) : isReSpace c = true := by
  simp only [isHsp, Bool.or_eq_true, beq_iff_eq] at h
  rcases h with rfl | rfl <;> decide

theorem isNewline_of_isHsp {c : Char} (h : isHsp c = true) : isNewline c = false := by
  simp only [isHsp, Bool.or_eq_true, beq_iff_eq] at h
  rcases h with rfl | rfl <;> decide

theorem isNakedInner_of_isNakedEdge {c : Char} (h : isNakedEdge c = true) : isNakedInner c = true := by
  simp only [isNakedEdge, Bool.and_eq_true, Bool.not_eq_true'] at h
  cases hn : isNewline c with
  | false => simp [isNakedInner, h.1, hn]
  | true => rw [isReSpace_of_isNewline hn] at h; exact absurd h.2 (by decide)

/-- index form: the `m` characters from `lo + n` on fail `p`, and the one before them (if `n ≠ 0`)
    satisfies `p` -/
theorem trimBack_index (p : Char → Bool) (t : Array Char) (lo n : Nat)
    (hlast : n = 0 ∨ ∃ c, t[lo + n - 1]? = some c ∧ p c = true) :
    ∀ m, (∀ k, k < m → ∀ c, t[lo + n + k]? = some c → p c = false) →
      trimBack p t lo (lo + n + m) = lo + n := by
  intro m
  induction m with
  | zero =>
    intro _
    rcases hlast with rfl | ⟨c, hc, hp⟩
    · cases lo with
      | zero => rfl
      | succ l => simp [trimBack]
    · cases n with
      | zero =>
        cases lo with
        | zero => rfl
        | succ l => simp [trimBack]
      | succ n' =>
        have e : lo + (n' + 1) + 0 = (lo + n') + 1 := by omega
        have e' : lo + (n' + 1) - 1 = lo + n' := by omega
        rw [e'] at hc
        rw [e]
        simp only [trimBack, hc, hp, if_true]
        rw [if_neg (by omega)]
        omega
  | succ m ih =>
    intro hf
    have e : lo + n + (m + 1) = (lo + n + m) + 1 := by omega
    rw [e]
    have ih' := ih (fun k hk => hf k (by omega))
    unfold trimBack
    rw [if_neg (by omega)]
    cases hc : t[lo + n + m]? with
    | none => simpa using ih'
    | some c =>
      have := hf m (by omega) c hc
      simp only [this]
      simpa using ih'

theorem trimBack_run {p : Char → Bool} {t : Array Char} {lo : Nat} {xs ws rest : Str}
    (h : t.toList.drop lo = xs ++ ws ++ rest)
    (hlast : ∀ c, xs.getLast? = some c → p c = true) (hws : ∀ c ∈ ws, p c = false) :
    trimBack p t lo (lo + xs.length + ws.length) = lo + xs.length := by
  apply trimBack_index
  · cases hx : xs.getLast? with
    | none => left; simpa using hx
    | some c =>
      right
      refine ⟨c, ?_, hlast c hx⟩
      have hpos : 0 < xs.length := by
        cases xs with
        | nil => simp at hx
        | cons _ _ => simp
      have := getElem?_of_drop h (xs.length - 1)
      have e : lo + xs.length - 1 = lo + (xs.length - 1) := by omega
      rw [e, this, List.append_assoc, List.getElem?_append_left (by omega),
        ← List.getLast?_eq_getElem?, hx]
  · intro k hk c hc
    have := getElem?_of_drop h (xs.length + k)
    rw [← Nat.add_assoc] at this
    rw [this, List.append_assoc, List.getElem?_append_right (by omega),
      List.getElem?_append_left (by omega)] at hc
    have e : xs.length + k - xs.length = k := by omega
    rw [e] at hc
    exact hws c (List.mem_of_getElem? hc)

/-- the second half of the naked string regex, as a parser (the model writes it as a raw function) -/
def nakedTail : P Unit := fun t s =>
  some ((), { s with pos := trimBack isNakedEdge t s.pos (spanEnd isNakedInner t s.pos) })

theorem nakedString_eq : nakedString = (do
    let off ← getPos
    let (_, text) ← withText (do let _ ← sat isNakedEdge; nakedTail)
    pure [.sub off text]) := rfl

/-- a naked string `txt`, followed by blanks `ws` that the regex gives back and then by
    something that cannot continue the run, is recovered -/
theorem nakedString_run {t : Array Char} {i : Nat} {txt ws rest : Str} (z : Bool)
    (h : t.toList.drop i = txt ++ ws ++ rest) (hne : txt ≠ [])
    (hinner : ∀ c ∈ txt, isNakedInner c = true)
    (hfirst : ∀ c, txt.head? = some c → isNakedEdge c = true)
    (hlast : ∀ c, txt.getLast? = some c → isNakedEdge c = true)
    (hws : ∀ c ∈ ws, isReSpace c = true ∧ isNewline c = false)
    (hrest : ∀ c, rest.head? = some c → isNakedInner c = false) :
    nakedString t ⟨i, z⟩ = some ([.sub i txt], ⟨i + txt.length, z⟩) := by
  cases txt with
  | nil => exact absurd rfl hne
  | cons c txt' =>
    have h0 : t.toList.drop i = c :: (txt' ++ ws ++ rest) := by simpa using h
    have h1 := sat_of_head (p := isNakedEdge) z h0 (hfirst c rfl)
    have h2 := drop_succ_of_drop_cons h0
    have h2' : t.toList.drop (i + 1) = (txt' ++ ws) ++ rest := h2
    have hs := spanEnd_run (p := isNakedInner) h2' (by
      intro x hx
      rcases List.mem_append.mp hx with hx | hx
      · exact hinner x (by simp [hx])
      · exact isNakedInner_of_blank (hws x hx).1 (hws x hx).2) hrest
    have ht := trimBack_run (p := isNakedEdge) h2 (by
      intro d hd
      cases txt' with
      | nil => simp at hd
      | cons e txt'' => exact hlast d (by rw [List.getLast?_cons_cons]; exact hd))
      (fun d hd => isNakedEdge_of_isReSpace (hws d hd).1)
    have hw : withText (do let _ ← sat isNakedEdge; nakedTail) t ⟨i, z⟩
        = some (((), c :: txt'), ⟨i + (c :: txt').length, z⟩) := by
      apply withText_of z (rest := ws ++ rest) (by simpa using h)
      simp only [bind_apply, h1, nakedTail, hs, List.length_append, ← Nat.add_assoc, ht, List.length_cons]
      have e : i + 1 + txt'.length = i + txt'.length + 1 := by omega
      rw [e]
    simp only [nakedString_eq, bind_apply, getPos_apply, hw]
    rfl

theorem nakedString_fail_of_head {t : Array Char} {i : Nat} {s : Str} (z : Bool)
    (h : t.toList.drop i = s) (hc : ∀ c, s.head? = some c → isNakedEdge c = false) :
    nakedString t ⟨i, z⟩ = none := by
  simp only [nakedString_eq, bind_apply, getPos_apply, withText, sat_fail_of_head z h hc]

/-! ## 3. bracketed strings -/

/-- one piece of the body of a bracketed string: the printed text of one character (raw or
    escaped) with its value, or the printed text of an interpolated number with its value -/
inductive BPiece where
  | chr (txt : Str) (c : Char)
  | num (txt : Str) (v : Num)

def BPiece.txt : BPiece → Str
  | .chr txt _ => txt
  | .num txt _ => txt

/-- the printed body -/
def printPieces (ps : List BPiece) : Str := ps.flatMap (·.txt)

@[simp] theorem printPieces_nil : printPieces [] = [] := rfl
@[simp] theorem printPieces_cons (p : BPiece) (ps : List BPiece) :
    printPieces (p :: ps) = p.txt ++ printPieces ps := rfl

/-- a raw character other than a digit, a brace, the backslash and a newline; or any escape -/
def BracketCharOk (txt : Str) (c : Char) : Prop :=
  (txt = [c] ∧ isDigit c = false ∧ c ≠ '{' ∧ c ≠ '}' ∧ c ≠ '\\' ∧ isNewline c = false)
  ∨ (∃ l, txt = ['\\', l] ∧ c = unescape l)

/-- admissible bodies, given what follows the closing brace: character pieces are raw or escaped
    characters, number pieces are spellings that `number` reads back as their value in
    front of the remaining pieces -/
def PiecesOk (rest : Str) : List BPiece → Prop
  | [] => True
  | .chr txt c :: ps => BracketCharOk txt c ∧ PiecesOk rest ps
  | .num txt v :: ps => NumberAt txt (printPieces ps ++ '}' :: rest) v ∧ PiecesOk rest ps

/-- the items `bracketedItem*` produces on the printed body that starts at offset `off` -/
def toItems (off : Nat) : List BPiece → List BracketedItem
  | [] => []
  | .chr txt c :: ps => .chr off c :: toItems (off + txt.length) ps
  | .num txt v :: ps => .num off v :: toItems (off + txt.length) ps

theorem bracketedItem_chr {txt : Str} {c : Char} (hok : BracketCharOk txt c)
    {t : Array Char} {i : Nat} {rest : Str} (z : Bool) (h : t.toList.drop i = txt ++ rest) :
    bracketedItem t ⟨i, z⟩ = some (.chr i c, ⟨i + txt.length, z⟩) := by
  rcases hok with ⟨rfl, hd, ho, hc, hb, hn⟩ | ⟨l, rfl, rfl⟩
  · have h' : t.toList.drop i = c :: rest := by simpa using h
    have h0 := number_fail_of_head z h' (by simpa using hd)
    have h1 := escaped_fail_of_head z h' (by simpa using hb)
    have h2 := sat_of_head (p := fun c => !isDigit c && c != '{' && c != '}' && !isNewline c) z h'
      (by simp [hd, ho, hc, hn])
    simp only [bracketedItem, orElse_apply, bind_apply, getPos_apply, h0, h1, h2]
    rfl
  · have h' : t.toList.drop i = '\\' :: l :: rest := by simpa using h
    have h0 := number_fail_of_head z h' (by simp [isDigit])
    simp only [bracketedItem, orElse_apply, bind_apply, getPos_apply, h0, escaped_of_head z h']
    rfl

theorem BracketCharOk.length_pos {txt : Str} {c : Char} (hok : BracketCharOk txt c) : 0 < txt.length := by
  rcases hok with ⟨rfl, _⟩ | ⟨l, rfl, _⟩ <;> simp

theorem bracketedItem_num {txt rest : Str} {v : Num} (hn : NumberAt txt rest v)
    {t : Array Char} {i : Nat} (z : Bool) (h : t.toList.drop i = txt ++ rest) :
    bracketedItem t ⟨i, z⟩ = some (.num i v, ⟨i + txt.length, z⟩) := by
  simp only [bracketedItem, orElse_apply, bind_apply, hn t i z h]
  rfl

theorem bracketedItem_fail_close {t : Array Char} {i : Nat} {rest : Str} (z : Bool)
    (h : t.toList.drop i = '}' :: rest) : bracketedItem t ⟨i, z⟩ = none := by
  have h0 := number_fail_of_head z h (by simp [isDigit])
  have h1 := escaped_fail_of_head z h (by simp)
  have h2 := sat_fail_of_head (p := fun c => !isDigit c && c != '{' && c != '}' && !isNewline c) z h
    (by simp)
  simp only [bracketedItem, orElse_apply, bind_apply, getPos_apply, h0, h1, h2]

theorem bracketedItem_chain {t : Array Char} (z : Bool) {rest : Str} :
    ∀ (ps : List BPiece) (i : Nat), PiecesOk rest ps →
      t.toList.drop i = printPieces ps ++ '}' :: rest →
      Chain bracketedItem t z i (toItems i ps) (i + (printPieces ps).length) := by
  intro ps
  induction ps with
  | nil => intro i _ _; exact Chain.nil i
  | cons p ps ih =>
    intro i hok h
    have h' : t.toList.drop i = p.txt ++ (printPieces ps ++ '}' :: rest) := by simpa using h
    have h2 := drop_add_of_drop h'
    have e : i + (printPieces (p :: ps)).length = i + p.txt.length + (printPieces ps).length := by
      simp only [printPieces_cons, List.length_append]; omega
    rw [e]
    cases p with
    | chr txt c =>
      have h1 := bracketedItem_chr hok.1 z h'
      have hp := hok.1.length_pos
      exact Chain.cons h1 (by omega) (ih _ hok.2 h2)
    | num txt v =>
      have h1 := bracketedItem_num hok.1 z h'
      have hp : 0 < txt.length := List.length_pos_iff.mpr hok.1.ne_nil
      exact Chain.cons h1 (by omega) (ih _ hok.2 h2)

/-- the bracketed string with an admissible body: the result is the transformer's fold over the items -/
theorem bracketedString_fold {t : Array Char} {i : Nat} {ps : List BPiece} {rest : Str} (z : Bool)
    (h : t.toList.drop i = '{' :: printPieces ps ++ '}' :: rest) (hok : PiecesOk rest ps) :
    bracketedString t ⟨i, z⟩ =
      some (((toItems (i + 1) ps).foldl BracketedAcc.push ⟨[], [], some i⟩).finish,
            ⟨i + ('{' :: printPieces ps ++ ['}']).length, z⟩) := by
  have h0 : t.toList.drop i = '{' :: (printPieces ps ++ '}' :: rest) := by simpa using h
  have h1 := lit_of_head z h0
  have h2 := drop_succ_of_drop_cons h0
  have hc := bracketedItem_chain z ps (i + 1) hok h2
  have h3 := drop_add_of_drop h2
  have hm := many_of_chain hc (Nat.le_of_lt (lt_size_of_drop_cons h3)) (bracketedItem_fail_close z h3)
  have h4 := lit_of_head z h3
  simp only [bracketedString, bind_apply, getPos_apply, h1, hm, h4]
  have e : i + 1 + (printPieces ps).length + 1 = i + ('{' :: printPieces ps ++ ['}']).length := by
    simp only [List.length_append, List.length_cons, List.length_nil]; omega
  rw [e]; rfl

/-! ### the expected `AString`, independent of the parser

    `specGo off cur ps`: the sub-strings for the pieces `ps` whose printed text starts at offset
    `off`, where `cur` is the pending run of characters (its offset and its characters so far). -/

/-- what a pending run contributes when a number follows it: nothing if it is (still) empty -/
def flushRun : Option (Nat × Str) → AString
  | some (o, s) => if s.isEmpty then [] else [.sub o s]
  | none => []

/-- what a pending run contributes at the closing brace -/
def closeRun : Option (Nat × Str) → AString
  | some (o, s) => [.sub o s]
  | none => []

/-- a pending run extended by the character `c` printed at offset `off` -/
def extendRun (off : Nat) (c : Char) : Option (Nat × Str) → Nat × Str
  | some (o, s) => (o, s ++ [c])
  | none => (off, [c])

def specGo (off : Nat) (cur : Option (Nat × Str)) : List BPiece → AString
  | [] => closeRun cur
  | .chr txt c :: ps => specGo (off + txt.length) (some (extendRun off c cur)) ps
  | .num txt v :: ps => flushRun cur ++ .num off v :: specGo (off + txt.length) none ps

/-- the value of `{…}` at offset `i`: maximal runs of characters become one `.sub` each, carrying
    the offset of the first character of the run — except that a run at the very beginning carries
    the offset of the `{`; numbers become `.num` at the offset of their first digit; `{}` is one
    empty `.sub` -/
def bracketSpec (i : Nat) (ps : List BPiece) : AString := specGo (i + 1) (some (i, [])) ps

theorem fold_eq_specGo : ∀ (ps : List BPiece) (off : Nat) (out : List SubStr),
    (∀ (seg : Str) (o : Nat),
      ((toItems off ps).foldl BracketedAcc.push ⟨out, seg, some o⟩).finish
        = out ++ specGo off (some (o, seg)) ps)
    ∧ ((toItems off ps).foldl BracketedAcc.push ⟨out, [], none⟩).finish = out ++ specGo off none ps := by
  intro ps
  induction ps with
  | nil =>
    intro off out
    exact ⟨fun seg o => rfl, by simp [toItems, BracketedAcc.finish, specGo, closeRun]⟩
  | cons p ps ih =>
    intro off out
    cases p with
    | chr txt c =>
      refine ⟨fun seg o => ?_, ?_⟩
      · simp only [toItems, List.foldl_cons, BracketedAcc.push, Option.getD_some, specGo, extendRun]
        exact (ih _ _).1 _ _
      · simp only [toItems, List.foldl_cons, BracketedAcc.push, Option.getD_none, specGo, extendRun,
          List.nil_append]
        exact (ih _ _).1 _ _
    | num txt v =>
      refine ⟨fun seg o => ?_, ?_⟩
      · simp only [toItems, List.foldl_cons, BracketedAcc.push, Option.getD_some, specGo, flushRun]
        rw [(ih _ _).2]
        cases seg <;> simp
      · simp only [toItems, List.foldl_cons, BracketedAcc.push, specGo, flushRun, List.isEmpty_nil,
          if_true]
        rw [(ih _ _).2]
        simp

/-- a bracketed string with an admissible body is recovered as the expected `AString` -/
theorem bracketedString_pieces {t : Array Char} {i : Nat} {ps : List BPiece} {rest : Str} (z : Bool)
    (h : t.toList.drop i = '{' :: printPieces ps ++ '}' :: rest) (hok : PiecesOk rest ps) :
    bracketedString t ⟨i, z⟩ =
      some (bracketSpec i ps, ⟨i + ('{' :: printPieces ps ++ ['}']).length, z⟩) := by
  rw [bracketedString_fold z h hok, (fold_eq_specGo ps (i + 1) []).1 [] i]
  rfl

theorem bracketedString_fail_of_head {t : Array Char} {i : Nat} {s : Str} (z : Bool)
    (h : t.toList.drop i = s) (hc : s.head? ≠ some '{') : bracketedString t ⟨i, z⟩ = none := by
  simp only [bracketedString, bind_apply, getPos_apply, lit_fail_of_head z h hc]

theorem quotedString_fail_of_head {q : Char} {t : Array Char} {i : Nat} {s : Str} (z : Bool)
    (h : t.toList.drop i = s) (hc : s.head? ≠ some q) : quotedString q t ⟨i, z⟩ = none := by
  simp only [quotedString, bind_apply, getPos_apply, lit_fail_of_head z h hc]

/-! ### bodies made of characters only, and a canonical escaper -/

theorem specGo_chars (items : List (Str × Char)) : ∀ (off o : Nat) (seg : Str),
    specGo off (some (o, seg)) (items.map fun it => .chr it.1 it.2) = [.sub o (seg ++ items.map (·.2))] := by
  induction items with
  | nil => intro off o seg; simp [specGo, closeRun]
  | cons it items ih =>
    intro off o seg
    simp only [List.map_cons, specGo, extendRun, ih, List.append_assoc, List.singleton_append]

theorem printPieces_chars (items : List (Str × Char)) :
    printPieces (items.map fun it => .chr it.1 it.2) = items.flatMap (·.1) := by
  induction items with
  | nil => rfl
  | cons it items ih => simp only [List.map_cons, printPieces_cons, ih, BPiece.txt, List.flatMap_cons]

theorem piecesOk_chars {rest : Str} (items : List (Str × Char))
    (hok : ∀ it ∈ items, BracketCharOk it.1 it.2) :
    PiecesOk rest (items.map fun it => .chr it.1 it.2) := by
  induction items with
  | nil => trivial
  | cons it items ih =>
    exact ⟨hok it (by simp), ih (fun x hx => hok x (by simp [hx]))⟩

/-- a bracketed string without numbers is one `.sub` at the offset of the `{` -/
theorem bracketedString_chars {t : Array Char} {i : Nat} {items : List (Str × Char)} {rest : Str}
    (z : Bool) (h : t.toList.drop i = '{' :: items.flatMap (·.1) ++ '}' :: rest)
    (hok : ∀ it ∈ items, BracketCharOk it.1 it.2) :
    bracketedString t ⟨i, z⟩ =
      some ([.sub i (items.map (·.2))], ⟨i + ('{' :: items.flatMap (·.1) ++ ['}']).length, z⟩) := by
  have := bracketedString_pieces (ps := items.map fun it => .chr it.1 it.2) z
    (by rw [printPieces_chars]; exact h) (piecesOk_chars items hok)
  rw [printPieces_chars] at this
  rw [this, bracketSpec, specGo_chars]
  rfl

theorem escapeChars_keys_not_digit : ∀ p ∈ Gen.escapeChars, ¬ (48 ≤ p.1 ∧ p.1 ≤ 57) := by decide

theorem unescape_of_not_key {c : Char} (h : ∀ p ∈ Gen.escapeChars, p.1 ≠ c.toNat) : unescape c = c := by
  have : Gen.escapeChars.lookup c.toNat = none := by
    rw [List.lookup_eq_none_iff]
    intro p hp
    simp only [bne_iff_ne, ne_eq]
    exact fun e => h p hp e.symm
  simp only [unescape, this]

theorem unescape_digit {c : Char} (h : isDigit c = true) : unescape c = c := by
  apply unescape_of_not_key
  intro p hp e
  simp only [isDigit, Bool.and_eq_true, decide_eq_true_eq] at h
  exact escapeChars_keys_not_digit p hp (by omega)

theorem unescape_lbrace : unescape '{' = '{' := by decide
theorem unescape_rbrace : unescape '}' = '}' := by decide

/-- the canonical spelling of one character inside braces: the characters `ESCAPE_CHARS` produces
    get their letter; braces and digits get a backslash; everything else is raw -/
def bracketItem (c : Char) : Str × Char :=
  match escLetter? c with
  | some l => (['\\', l], c)
  | none => if c = '{' ∨ c = '}' ∨ isDigit c = true then (['\\', c], c) else ([c], c)

def bracketBody (s : Str) : Str := s.flatMap (fun c => (bracketItem c).1)

theorem bracketItem_snd (c : Char) : (bracketItem c).2 = c := by
  unfold bracketItem; split
  · rfl
  · split <;> rfl

theorem bracketItem_ok (c : Char) : BracketCharOk (bracketItem c).1 (bracketItem c).2 := by
  unfold bracketItem
  split
  · next l hl => exact Or.inr ⟨l, rfl, (unescape_of_escLetter hl).symm⟩
  · next hn =>
    obtain ⟨h1, _, _, h4⟩ := escLetter_none_ne hn
    split
    · next hc =>
      refine Or.inr ⟨c, rfl, ?_⟩
      rcases hc with rfl | rfl | hd
      · exact unescape_lbrace.symm
      · exact unescape_rbrace.symm
      · exact (unescape_digit hd).symm
    · next hc =>
      simp only [not_or, Bool.not_eq_true] at hc
      exact Or.inl ⟨rfl, hc.2.2, hc.1, hc.2.1, h1, h4⟩

theorem bracketItems_fst (s : Str) : (s.map bracketItem).flatMap (·.1) = bracketBody s := by
  simp [bracketBody, List.flatMap_map]

theorem bracketItems_snd (s : Str) : (s.map bracketItem).map (·.2) = s := by
  induction s with
  | nil => rfl
  | cons c s ih => simp only [List.map_cons, bracketItem_snd, ih]

/-- every string (digits included: they are written `\0` … `\9`), written with the canonical
    escapes between braces, is recovered -/
theorem bracketedString_quote {t : Array Char} {i : Nat} {s rest : Str} (z : Bool)
    (h : t.toList.drop i = '{' :: bracketBody s ++ '}' :: rest) :
    bracketedString t ⟨i, z⟩ = some ([.sub i s], ⟨i + ('{' :: bracketBody s ++ ['}']).length, z⟩) := by
  have := bracketedString_chars (items := s.map bracketItem) z (by rw [bracketItems_fst]; exact h)
    (by intro it hit; simp only [List.mem_map] at hit; obtain ⟨c, _, rfl⟩ := hit; exact bracketItem_ok c)
  rw [bracketItems_fst, bracketItems_snd] at this
  exact this

/-- on digit-free text the canonical spelling escapes only what `ESCAPE_CHARS` produces and the braces -/
theorem bracketItem_of_not_digit {c : Char} (hd : isDigit c = false) :
    bracketItem c = match escLetter? c with
      | some l => (['\\', l], c)
      | none => if c = '{' ∨ c = '}' then (['\\', c], c) else ([c], c) := by
  unfold bracketItem
  simp [hd]

/-! ## 4. `string` / `stringF` -/

/-- the ordered choice of atoms of `string` (`static`: without the bracketed string) -/
def atom (static : Bool) : P AString :=
  nakedString <|> quotedString '\'' <|> quotedString '"' <|> (if static then fail else bracketedString)

/-- the optional continuation `hsp? string` of `string`, with `fuel` for the recursive call -/
def stringMore (static : Bool) (fuel : Nat) : P AString := do
  let off ← getPos
  let space ← textOf ohsp
  let more ← stringF static fuel
  pure (if space.isEmpty then more else .sub off space :: more)

theorem stringF_succ (static : Bool) (fuel : Nat) : stringF static (fuel + 1) = (do
    let first ← atom static
    let rest ← opt (stringMore static fuel)
    pure (first ++ rest.getD [])) := rfl


/-! ### the atoms consume at least one character, and need one -/

theorem mono_remaining : Mono remaining := by
  intro t s b s' e; simp only [remaining_apply, Option.some.injEq, Prod.mk.injEq] at e; rw [e.2]; exact Nat.le_refl _

theorem mono_manyF {α} {p : P α} (hp : Mono p) : ∀ fuel, Mono (manyF p fuel) := by
  intro fuel
  induction fuel with
  | zero => exact mono_pure _
  | succ f ih =>
    exact mono_orElse (mono_bind hp fun _ => mono_bind ih fun _ => mono_pure _) (mono_pure _)

theorem mono_many {α} {p : P α} (hp : Mono p) : Mono (many p) :=
  mono_bind mono_remaining fun n => mono_manyF hp n

theorem trimBack_ge (p : Char → Bool) (t : Array Char) (lo : Nat) : ∀ k, lo ≤ trimBack p t lo k := by
  intro k
  induction k with
  | zero => exact Nat.le_refl _
  | succ k ih =>
    unfold trimBack
    split
    · exact Nat.le_refl _
    · split
      · split
        · omega
        · exact ih
      · exact ih

theorem mono_nakedTail : Mono nakedTail := by
  intro t s a s' e
  simp only [nakedTail, Option.some.injEq, Prod.mk.injEq] at e
  rw [← e.2]
  exact trimBack_ge _ _ _ _

theorem adv_nakedString : Adv nakedString := by
  rw [nakedString_eq]
  refine adv_bind_right mono_getPos fun off => adv_bind_left (adv_withText ?_) fun r => ?_
  · exact adv_bind_left (adv_sat _) fun _ => mono_nakedTail
  · obtain ⟨_, text⟩ := r; exact mono_pure _

theorem adv_escaped : Adv escaped :=
  adv_bind_left (adv_lit _) fun _ => mono_bind (adv_sat _).mono fun _ => mono_pure _

theorem adv_quotedString (q : Char) : Adv (quotedString q) := by
  unfold quotedString
  refine adv_bind_right mono_getPos fun off => adv_bind_left (adv_lit q) fun _ => ?_
  refine mono_bind (mono_many (adv_orElse adv_escaped (adv_sat _)).mono) fun body => ?_
  exact mono_bind (adv_lit q).mono fun _ => mono_pure _

theorem adv_bracketedItem : Adv bracketedItem := by
  unfold bracketedItem
  refine adv_orElse ?_ (adv_orElse ?_ ?_)
  · exact adv_bind_left adv_number fun r => by obtain ⟨off, n⟩ := r; exact mono_pure _
  · exact adv_bind_right mono_getPos fun off => adv_bind_left adv_escaped fun _ => mono_pure _
  · exact adv_bind_right mono_getPos fun off => adv_bind_left (adv_sat _) fun _ => mono_pure _

theorem adv_bracketedString : Adv bracketedString := by
  unfold bracketedString
  refine adv_bind_right mono_getPos fun off => adv_bind_left (adv_lit _) fun _ => ?_
  refine mono_bind (mono_many adv_bracketedItem.mono) fun body => ?_
  exact mono_bind (adv_lit _).mono fun _ => mono_pure _

theorem adv_atom (static : Bool) : Adv (atom static) := by
  unfold atom
  refine adv_orElse adv_nakedString (adv_orElse (adv_quotedString _) (adv_orElse (adv_quotedString _) ?_))
  cases static
  · exact adv_bracketedString
  · exact adv_fail

/-- `p` succeeds only where there is a character left -/
def NeedsChar {α} (p : P α) : Prop := ∀ t s r, p t s = some r → s.pos < t.size

theorem needs_sat (p : Char → Bool) : NeedsChar (sat p) := by
  intro t s r e
  simp only [sat] at e
  split at e
  · next c hc =>
    rcases Nat.lt_or_ge s.pos t.size with h | h
    · exact h
    · rw [Array.getElem?_eq_none h] at hc; cases hc
  · cases e

theorem needs_fail {α} : NeedsChar (fail : P α) := by intro t s r e; cases e

theorem needs_bind {α β} {m : P α} {f : α → P β} (hm : NeedsChar m) : NeedsChar (m >>= f) := by
  intro t s r e
  obtain ⟨b, s'⟩ := r
  obtain ⟨a, s1, e1, _⟩ := bind_some e
  exact hm _ _ _ e1

theorem needs_getPos_bind {β} {f : Nat → P β} (hf : ∀ a, NeedsChar (f a)) : NeedsChar (getPos >>= f) := by
  intro t s r e
  rw [bind_apply, getPos_apply] at e
  exact hf _ _ _ _ e

theorem needs_orElse {α} {p q : P α} (hp : NeedsChar p) (hq : NeedsChar q) : NeedsChar (p <|> q) := by
  intro t s r e
  rw [orElse_apply] at e
  cases h : p t s with
  | none => rw [h] at e; exact hq _ _ _ e
  | some r' => exact hp _ _ _ h

theorem needs_withText {α} {p : P α} (hp : NeedsChar p) : NeedsChar (withText p) := by
  intro t s r e
  obtain ⟨b, s'⟩ := r
  obtain ⟨a, h⟩ := withText_some e
  exact hp _ _ _ h

theorem needs_lit (c : Char) : NeedsChar (lit c) := needs_bind (needs_sat _)

theorem needs_atom (static : Bool) : NeedsChar (atom static) := by
  unfold atom
  refine needs_orElse ?_ (needs_orElse ?_ (needs_orElse ?_ ?_))
  · rw [nakedString_eq]
    exact needs_getPos_bind fun _ => needs_bind (needs_withText (needs_bind (needs_sat _)))
  · exact needs_getPos_bind fun _ => needs_bind (needs_lit _)
  · exact needs_getPos_bind fun _ => needs_bind (needs_lit _)
  · cases static
    · exact needs_getPos_bind fun _ => needs_bind (needs_lit _)
    · exact needs_fail

/-- no atom of `string` can start with `c`: `c` is a space or a special character other than a
    quote and (unless `static`) the opening brace -/
def NoAtomStart (static : Bool) (c : Char) : Prop :=
  isNakedEdge c = false ∧ c ≠ '\'' ∧ c ≠ '"' ∧ (static = false → c ≠ '{')

theorem atom_fail_of_head {static : Bool} {t : Array Char} {i : Nat} {s : Str} (z : Bool)
    (h : t.toList.drop i = s) (hc : ∀ c, s.head? = some c → NoAtomStart static c) :
    atom static t ⟨i, z⟩ = none := by
  have h1 := nakedString_fail_of_head z h (fun c hs => (hc c hs).1)
  have h2 := quotedString_fail_of_head (q := '\'') z h (fun hs => (hc _ hs).2.1 rfl)
  have h3 := quotedString_fail_of_head (q := '"') z h (fun hs => (hc _ hs).2.2.1 rfl)
  cases static with
  | true => simp only [atom, orElse_apply, h1, h2, h3, if_true, fail_apply]
  | false =>
    have h4 := bracketedString_fail_of_head z h (fun hs => (hc _ hs).2.2.2 rfl rfl)
    simp only [atom, orElse_apply, h1, h2, h3, h4, Bool.false_eq_true, if_false]

theorem stringF_fail_of_head {static : Bool} {t : Array Char} {i : Nat} {s : Str} (z : Bool)
    (h : t.toList.drop i = s) (hc : ∀ c, s.head? = some c → NoAtomStart static c) (fuel : Nat) :
    stringF static fuel t ⟨i, z⟩ = none := by
  cases fuel with
  | zero => rfl
  | succ f => simp only [stringF_succ, bind_apply, atom_fail_of_head z h hc]

/-- the text `s` ends a `string`: after its leading blanks comes the end of the input or a
    character that is no blank and starts no atom -/
def StringEnd (static : Bool) (s : Str) : Prop :=
  ∃ bl r, s = bl ++ r ∧ (∀ c ∈ bl, isHsp c = true) ∧
    ∀ c, r.head? = some c → isHsp c = false ∧ NoAtomStart static c

theorem stringMore_fail {static : Bool} {t : Array Char} {j : Nat} {s : Str} (z : Bool)
    (h : t.toList.drop j = s) (hend : StringEnd static s) (fuel : Nat) :
    stringMore static fuel t ⟨j, z⟩ = none := by
  obtain ⟨bl, r, rfl, hbl, hr⟩ := hend
  have h1 := textOf_of z h (ohsp_run z h hbl (fun c hc => (hr c hc).1))
  have h2 := stringF_fail_of_head z (drop_add_of_drop h) (fun c hc => (hr c hc).2) fuel
  simp only [stringMore, bind_apply, getPos_apply, h1, h2]

theorem stringMore_of {static : Bool} {t : Array Char} {j k : Nat} {bl r : Str} {more : AString}
    (z : Bool) (h : t.toList.drop j = bl ++ r) (hbl : ∀ c ∈ bl, isHsp c = true)
    (hr : ∀ c, r.head? = some c → isHsp c = false) {fuel : Nat}
    (hm : stringF static fuel t ⟨j + bl.length, z⟩ = some (more, ⟨k, z⟩)) :
    stringMore static fuel t ⟨j, z⟩
      = some (if bl.isEmpty then more else .sub j bl :: more, ⟨k, z⟩) := by
  have h1 := textOf_of z h (ohsp_run z h hbl hr)
  simp only [stringMore, bind_apply, getPos_apply, h1, hm]
  rfl

/-- `Atoms static t z i a k`: from offset `i` to offset `k` the text is a sequence of atoms,
    separated by optional blanks and followed by something that ends the `string`, whose value is `a` -/
inductive Atoms (static : Bool) (t : Array Char) (z : Bool) : Nat → AString → Nat → Prop
  | last {i j : Nat} {a : AString} {s : Str} :
      atom static t ⟨i, z⟩ = some (a, ⟨j, z⟩) →
      t.toList.drop j = s → StringEnd static s → Atoms static t z i a j
  | cons {i j k : Nat} {a more : AString} {bl r : Str} :
      atom static t ⟨i, z⟩ = some (a, ⟨j, z⟩) →
      t.toList.drop j = bl ++ r → (∀ c ∈ bl, isHsp c = true) →
      (∀ c, r.head? = some c → isHsp c = false) →
      Atoms static t z (j + bl.length) more k →
      Atoms static t z i (a ++ if bl.isEmpty then more else .sub j bl :: more) k

theorem Atoms.bounds {static : Bool} {t : Array Char} {z : Bool} {i k : Nat} {a : AString}
    (h : Atoms static t z i a k) : i < k ∧ i < t.size := by
  induction h with
  | last ha _ _ => exact ⟨adv_atom _ _ _ _ _ ha, needs_atom _ _ _ _ ha⟩
  | cons ha _ _ _ _ ih =>
    have := adv_atom _ _ _ _ _ ha
    have := needs_atom _ _ _ _ ha
    simp only at *
    omega

theorem stringF_of_atoms {static : Bool} {t : Array Char} {z : Bool} {i k : Nat} {a : AString}
    (h : Atoms static t z i a k) :
    ∀ fuel, t.size - i < fuel → stringF static fuel t ⟨i, z⟩ = some (a, ⟨k, z⟩) := by
  induction h with
  | last ha hs hend =>
    intro fuel hf
    cases fuel with
    | zero => omega
    | succ f =>
      have ho := opt_of_none (stringMore_fail z hs hend f)
      simp only [stringF_succ, bind_apply, ha, ho, Option.getD_none, List.append_nil]
      rfl
  | @cons i j k a more bl r ha hs hbl hr hrest ih =>
    intro fuel hf
    have := hrest.bounds
    have := adv_atom _ _ _ _ _ ha
    simp only at this
    cases fuel with
    | zero => omega
    | succ f =>
      have hm := ih f (by omega)
      have ho := opt_of_some (stringMore_of z hs hbl hr hm)
      simp only [stringF_succ, bind_apply, ha, ho, Option.getD_some]
      rfl

/-- `string` recovers a sequence of atoms -/
theorem string_of_atoms {static : Bool} {t : Array Char} {z : Bool} {i k : Nat} {a : AString}
    (h : Atoms static t z i a k) : string static t ⟨i, z⟩ = some (a, ⟨k, z⟩) := by
  simp only [string, bind_apply, remaining_apply]
  exact stringF_of_atoms h _ (by omega)

/-- 4a: a single atom followed by something that ends the `string` -/
theorem string_of_atom {static : Bool} {t : Array Char} {z : Bool} {i j : Nat} {a : AString} {s : Str}
    (ha : atom static t ⟨i, z⟩ = some (a, ⟨j, z⟩))
    (hs : t.toList.drop j = s) (hend : StringEnd static s) :
    string static t ⟨i, z⟩ = some (a, ⟨j, z⟩) :=
  string_of_atoms (Atoms.last ha hs hend)

/-! ### which texts end a `string` -/

theorem noAtomStart_of_isReSpace {static : Bool} {c : Char} (h : isReSpace c = true) :
    NoAtomStart static c := by
  refine ⟨isNakedEdge_of_isReSpace h, ?_, ?_, fun _ => ?_⟩ <;>
    (rintro rfl; exact absurd h (by decide))

/-- `c` stops a naked string and starts no atom: a newline, one of `,:=/()}`, or (for a static
    string) `{` -/
def StopChar (static : Bool) (c : Char) : Prop :=
  isNakedInner c = false ∧ c ≠ '\'' ∧ c ≠ '"' ∧ (static = false → c ≠ '{')

theorem isNakedEdge_of_not_inner {c : Char} (h : isNakedInner c = false) : isNakedEdge c = false := by
  cases he : isNakedEdge c with
  | false => rfl
  | true => rw [isNakedInner_of_isNakedEdge he] at h; cases h

theorem isHsp_of_not_inner {c : Char} (h : isNakedInner c = false) : isHsp c = false := by
  cases hh : isHsp c with
  | false => rfl
  | true => rw [isNakedInner_of_blank (isReSpace_of_isHsp hh) (isNewline_of_isHsp hh)] at h; cases h

theorem StopChar.noAtomStart {static : Bool} {c : Char} (h : StopChar static c) : NoAtomStart static c :=
  ⟨isNakedEdge_of_not_inner h.1, h.2⟩

theorem stopChar_of_mem {static : Bool} {c : Char} (h : c ∈ [',', ':', '=', '/', '(', ')', '}']) :
    StopChar static c := by
  simp only [List.mem_cons, List.not_mem_nil, or_false] at h
  rcases h with rfl | rfl | rfl | rfl | rfl | rfl | rfl <;>
    exact ⟨by decide, by decide, by decide, fun _ => by decide⟩

theorem stopChar_of_isNewline {static : Bool} {c : Char} (h : isNewline c = true) : StopChar static c := by
  simp only [isNewline, Bool.or_eq_true, beq_iff_eq] at h
  rcases h with rfl | rfl <;> exact ⟨by decide, by decide, by decide, fun _ => by decide⟩

theorem stopChar_lbrace_static : StopChar true '{' := ⟨by decide, by decide, by decide, fun h => by cases h⟩

/-- the end of the input ends a `string` -/
theorem stringEnd_nil (static : Bool) : StringEnd static [] :=
  ⟨[], [], rfl, by simp, by simp⟩

/-- white space `ws` (of any kind), then the end of the input or a character that is no blank and
    starts no atom -/
theorem stringEnd_of_spaces {static : Bool} {rest : Str}
    (hrest : ∀ c, rest.head? = some c → isHsp c = false ∧ NoAtomStart static c) :
    ∀ ws : Str, (∀ c ∈ ws, isReSpace c = true) → StringEnd static (ws ++ rest) := by
  intro ws
  induction ws with
  | nil => intro _; exact ⟨[], rest, rfl, by simp, hrest⟩
  | cons c ws ih =>
    intro hws
    cases hh : isHsp c with
    | true =>
      obtain ⟨bl, r, e, hbl, hr⟩ := ih (fun x hx => hws x (by simp [hx]))
      refine ⟨c :: bl, r, by simp [e], ?_, hr⟩
      intro x hx
      rcases List.mem_cons.mp hx with rfl | hx
      · exact hh
      · exact hbl x hx
    | false =>
      refine ⟨[], c :: ws ++ rest, rfl, by simp, ?_⟩
      intro d hd
      simp only [List.cons_append, List.head?_cons, Option.some.injEq] at hd
      subst hd
      exact ⟨hh, noAtomStart_of_isReSpace (hws _ (by simp))⟩

/-- white space, then the end of the input or a stop character -/
theorem stringEnd_of_stop {static : Bool} {ws rest : Str} (hws : ∀ c ∈ ws, isReSpace c = true)
    (hrest : ∀ c, rest.head? = some c → StopChar static c) : StringEnd static (ws ++ rest) :=
  stringEnd_of_spaces (fun c hc => ⟨isHsp_of_not_inner (hrest c hc).1, (hrest c hc).noAtomStart⟩) ws hws

/-! ### the atoms -/

theorem atom_naked {static : Bool} {t : Array Char} {i : Nat} {txt ws rest : Str} (z : Bool)
    (h : t.toList.drop i = txt ++ ws ++ rest) (hne : txt ≠ [])
    (hinner : ∀ c ∈ txt, isNakedInner c = true)
    (hfirst : ∀ c, txt.head? = some c → isNakedEdge c = true)
    (hlast : ∀ c, txt.getLast? = some c → isNakedEdge c = true)
    (hws : ∀ c ∈ ws, isReSpace c = true ∧ isNewline c = false)
    (hrest : ∀ c, rest.head? = some c → isNakedInner c = false) :
    atom static t ⟨i, z⟩ = some ([.sub i txt], ⟨i + txt.length, z⟩) := by
  simp only [atom, orElse_apply, nakedString_run z h hne hinner hfirst hlast hws hrest]

theorem isNakedEdge_squote : isNakedEdge '\'' = false := by decide
theorem isNakedEdge_dquote : isNakedEdge '"' = false := by decide
theorem isNakedEdge_lbrace : isNakedEdge '{' = false := by decide

/-- a single-quoted string as an atom -/
theorem atom_squoted {static : Bool} {t : Array Char} {i : Nat} {rest' : Str} {a : AString} {j : Nat}
    (z : Bool) (h : t.toList.drop i = '\'' :: rest')
    (hq : quotedString '\'' t ⟨i, z⟩ = some (a, ⟨j, z⟩)) :
    atom static t ⟨i, z⟩ = some (a, ⟨j, z⟩) := by
  have h1 := nakedString_fail_of_head z h (by simp [isNakedEdge_squote])
  simp only [atom, orElse_apply, h1, hq]

/-- a double-quoted string as an atom -/
theorem atom_dquoted {static : Bool} {t : Array Char} {i : Nat} {rest' : Str} {a : AString} {j : Nat}
    (z : Bool) (h : t.toList.drop i = '"' :: rest')
    (hq : quotedString '"' t ⟨i, z⟩ = some (a, ⟨j, z⟩)) :
    atom static t ⟨i, z⟩ = some (a, ⟨j, z⟩) := by
  have h1 := nakedString_fail_of_head z h (by simp [isNakedEdge_dquote])
  have h2 := quotedString_fail_of_head (q := '\'') z h (by simp)
  simp only [atom, orElse_apply, h1, h2, hq]

/-- a bracketed string as an atom (of a non-static `string`) -/
theorem atom_bracketed {t : Array Char} {i : Nat} {rest' : Str} {a : AString} {j : Nat}
    (z : Bool) (h : t.toList.drop i = '{' :: rest')
    (hb : bracketedString t ⟨i, z⟩ = some (a, ⟨j, z⟩)) :
    atom false t ⟨i, z⟩ = some (a, ⟨j, z⟩) := by
  have h1 := nakedString_fail_of_head z h (by simp [isNakedEdge_lbrace])
  have h2 := quotedString_fail_of_head (q := '\'') z h (by simp)
  have h3 := quotedString_fail_of_head (q := '"') z h (by simp)
  simp only [atom, orElse_apply, h1, h2, h3, hb, Bool.false_eq_true, if_false]

/-- a bracketed string is no atom of a static `string` -/
theorem atom_static_fail_lbrace {t : Array Char} {i : Nat} {rest' : Str} (z : Bool)
    (h : t.toList.drop i = '{' :: rest') : atom true t ⟨i, z⟩ = none :=
  atom_fail_of_head z h (by
    intro c hc
    simp only [List.head?_cons, Option.some.injEq] at hc
    subst hc
    exact ⟨isNakedEdge_lbrace, by decide, by decide, fun h => by cases h⟩)

/-! ### `string` on a single atom -/

/-- `string` on a naked text: blanks `ws` (not newlines) and then a stop character or the end -/
theorem string_naked {static : Bool} {t : Array Char} {i : Nat} {txt ws rest : Str} (z : Bool)
    (h : t.toList.drop i = txt ++ ws ++ rest) (hne : txt ≠ [])
    (hinner : ∀ c ∈ txt, isNakedInner c = true)
    (hfirst : ∀ c, txt.head? = some c → isNakedEdge c = true)
    (hlast : ∀ c, txt.getLast? = some c → isNakedEdge c = true)
    (hws : ∀ c ∈ ws, isReSpace c = true ∧ isNewline c = false)
    (hrest : ∀ c, rest.head? = some c → StopChar static c) :
    string static t ⟨i, z⟩ = some ([.sub i txt], ⟨i + txt.length, z⟩) := by
  have h' : t.toList.drop i = txt ++ (ws ++ rest) := by simpa using h
  exact string_of_atom
    (atom_naked z h hne hinner hfirst hlast hws (fun c hc => (hrest c hc).1))
    (drop_add_of_drop h')
    (stringEnd_of_stop (fun c hc => (hws c hc).1) hrest)

/-- `string` on a quoted text with admissible items -/
theorem string_quoted_items {static : Bool} {q : Char} (hq : q = '\'' ∨ q = '"') {t : Array Char}
    {i : Nat} {items : List (Str × Char)} {rest : Str} (z : Bool)
    (h : t.toList.drop i = q :: items.flatMap (·.1) ++ q :: rest)
    (hok : ∀ it ∈ items, QuotedItemOk q it) (hend : StringEnd static rest) :
    string static t ⟨i, z⟩ =
      some ([.sub i (items.map (·.2))], ⟨i + (q :: items.flatMap (·.1) ++ [q]).length, z⟩) := by
  have hq' : q ≠ '\\' := by rcases hq with rfl | rfl <;> decide
  have hs := quotedString_items hq' z h hok
  have h0 : t.toList.drop i = q :: (items.flatMap (·.1) ++ q :: rest) := by simpa using h
  have h' : t.toList.drop i = (q :: items.flatMap (·.1) ++ [q]) ++ rest := by simpa using h
  have ha : atom static t ⟨i, z⟩ = some ([.sub i (items.map (·.2))],
      ⟨i + (q :: items.flatMap (·.1) ++ [q]).length, z⟩) := by
    rcases hq with rfl | rfl
    · exact atom_squoted z h0 hs
    · exact atom_dquoted z h0 hs
  exact string_of_atom ha (drop_add_of_drop h') hend

/-- `string` on any text written with the canonical escapes between quotes -/
theorem string_quote {static : Bool} {q : Char} (hq : q = '\'' ∨ q = '"') {t : Array Char}
    {i : Nat} {s rest : Str} (z : Bool) (h : t.toList.drop i = q :: quoteBody s ++ q :: rest)
    (hend : StringEnd static rest) :
    string static t ⟨i, z⟩ = some ([.sub i s], ⟨i + (q :: quoteBody s ++ [q]).length, z⟩) := by
  have := string_quoted_items (static := static) (items := s.map quoteItem) hq z
    (by rw [quoteItems_fst]; exact h)
    (by intro it hit; simp only [List.mem_map] at hit; obtain ⟨c, _, rfl⟩ := hit; exact quoteItem_ok hq c)
    hend
  rw [quoteItems_fst, quoteItems_snd] at this
  exact this

/-- `string` (non-static) on a bracketed text with an admissible body -/
theorem string_bracketed {t : Array Char} {i : Nat} {ps : List BPiece} {rest : Str} (z : Bool)
    (h : t.toList.drop i = '{' :: printPieces ps ++ '}' :: rest) (hok : PiecesOk rest ps)
    (hend : StringEnd false rest) :
    string false t ⟨i, z⟩ =
      some (bracketSpec i ps, ⟨i + ('{' :: printPieces ps ++ ['}']).length, z⟩) := by
  have hs := bracketedString_pieces z h hok
  have h0 : t.toList.drop i = '{' :: (printPieces ps ++ '}' :: rest) := by simpa using h
  have h' : t.toList.drop i = ('{' :: printPieces ps ++ ['}']) ++ rest := by simpa using h
  exact string_of_atom (atom_bracketed z h0 hs) (drop_add_of_drop h') hend

/-- `string` (non-static) on any text written with the canonical escapes between braces -/
theorem string_bracket_quote {t : Array Char} {i : Nat} {s rest : Str} (z : Bool)
    (h : t.toList.drop i = '{' :: bracketBody s ++ '}' :: rest) (hend : StringEnd false rest) :
    string false t ⟨i, z⟩ = some ([.sub i s], ⟨i + ('{' :: bracketBody s ++ ['}']).length, z⟩) := by
  have hs := bracketedString_quote z h
  have h0 : t.toList.drop i = '{' :: (bracketBody s ++ '}' :: rest) := by simpa using h
  have h' : t.toList.drop i = ('{' :: bracketBody s ++ ['}']) ++ rest := by simpa using h
  exact string_of_atom (atom_bracketed z h0 hs) (drop_add_of_drop h') hend

theorem isHsp_of_isNakedEdge {c : Char} (h : isNakedEdge c = true) : isHsp c = false := by
  cases hh : isHsp c with
  | false => rfl
  | true => rw [isNakedEdge_of_isReSpace (isReSpace_of_isHsp hh)] at h; cases h

/-- the first character of any atom is no blank (for the side condition of `Atoms.cons`) -/
theorem isHsp_of_atom_start {c : Char} (h : isNakedEdge c = true ∨ c = '\'' ∨ c = '"' ∨ c = '{') :
    isHsp c = false := by
  rcases h with h | rfl | rfl | rfl
  · exact isHsp_of_isNakedEdge h
  all_goals decide

/-! ## non-vacuity -/

/-- a digit run followed by something that is no blank, digit, slash or dot spells an integer
    (used below to exhibit an admissible body with a number piece) -/
theorem numberAt_digits {ds rest : Str} (hne : ds ≠ []) (hd : ∀ x ∈ ds, isDigit x = true)
    (hr : ∀ c, rest.head? = some c → isHsp c = false ∧ isDigit c = false ∧ c ≠ '/' ∧ c ≠ '.') :
    NumberAt ds rest ⟨((natOfDigits ds : Nat) : Rat), .int⟩ := by
  intro t i z h
  have hf := fraction_fail_int (b := []) z (by simpa using h) hne hd (by simp)
    (fun c hc => ⟨(hr c hc).1, (hr c hc).2.1, (hr c hc).2.2.1⟩)
  rw [number_of_decimal hf]
  exact decimal_int z h hne hd (fun c hc => (hr c hc).2.1) (fun hc => (hr _ hc).2.2.2 rfl)

-- the model, run on concrete inputs
example : quotedString '\'' "'it\\'s'".toList.toArray ⟨0, false⟩
    = some ([.sub 0 "it's".toList], ⟨7, false⟩) := by decide +kernel
example : quotedString '"' "\"a\\nb\\q\" x".toList.toArray ⟨0, false⟩
    = some ([.sub 0 ['a', '\n', 'b', 'q']], ⟨8, false⟩) := by decide +kernel
example : nakedString "ab c \t, d".toList.toArray ⟨0, false⟩
    = some ([.sub 0 "ab c".toList], ⟨4, false⟩) := by decide +kernel
example : bracketedString "{a\\{b}".toList.toArray ⟨0, false⟩
    = some ([.sub 0 "a{b".toList], ⟨6, false⟩) := by decide +kernel
example : bracketedString "{}".toList.toArray ⟨0, false⟩ = some ([.sub 0 []], ⟨2, false⟩) := by
  decide +kernel
example : string false "x 'y'{z} ,".toList.toArray ⟨0, false⟩
    = some ([.sub 0 ['x'], .sub 1 [' '], .sub 2 ['y'], .sub 5 ['z']], ⟨8, false⟩) := by decide +kernel
example : string true "x{z}".toList.toArray ⟨0, false⟩ = some ([.sub 0 ['x']], ⟨1, false⟩) := by
  decide +kernel

-- the printers
example : quoteBody "it's\n".toList = "it\\'s\\n".toList := by decide +kernel
example : bracketBody "a{1}\n".toList = "a\\{\\1\\}\\n".toList := by decide +kernel

-- the expected value of a bracketed string
example (v w : Num) :
    bracketSpec 10 [.chr ['a'] 'a', .chr ['\\', 'n'] '\n', .num ['1', '2'] v, .chr ['b'] 'b',
      .chr ['c'] 'c', .num ['3'] w]
    = [.sub 10 ['a', '\n'], .num 14 v, .sub 16 ['b', 'c'], .num 18 w] := rfl
example (v : Num) : bracketSpec 10 [.num ['1', '2'] v, .chr ['b'] 'b'] = [.num 11 v, .sub 13 ['b']] := rfl
example (v w : Num) : bracketSpec 10 [.num ['1'] v, .num ['2'] w] = [.num 11 v, .num 12 w] := rfl
example : bracketSpec 10 [] = [.sub 10 []] := rfl

-- the theorems, instantiated (their hypotheses are satisfiable)
example : string false "'it\\'s' ,".toList.toArray ⟨0, false⟩
    = some ([.sub 0 "it's".toList], ⟨0 + 7, false⟩) :=
  string_quote (s := "it's".toList) (rest := " ,".toList) (Or.inl rfl) false (by decide +kernel)
    (stringEnd_of_stop (ws := [' ']) (rest := [',']) (by decide)
      (by intro c hc; cases hc; exact stopChar_of_mem (by decide)))

example : string true "ab c \t".toList.toArray ⟨0, false⟩ = some ([.sub 0 "ab c".toList], ⟨0 + 4, false⟩) :=
  string_naked (txt := "ab c".toList) (ws := " \t".toList) (rest := []) false (by decide +kernel)
    (by decide) (by decide) (by decide) (by decide) (by decide) (by simp)

example : bracketedString "{a12b}".toList.toArray ⟨0, false⟩
    = some ([.sub 0 ['a'], .num 2 ⟨((12 : Nat) : Rat), .int⟩, .sub 4 ['b']], ⟨0 + 6, false⟩) :=
  bracketedString_pieces (rest := [])
    (ps := [.chr ['a'] 'a', .num ['1', '2'] ⟨((natOfDigits ['1', '2'] : Nat) : Rat), .int⟩, .chr ['b'] 'b'])
    false (by decide +kernel)
    ⟨Or.inl (by decide), numberAt_digits (by decide) (by decide) (by decide), Or.inl (by decide), trivial⟩

example : string false "{x\\}\\1}".toList.toArray ⟨0, false⟩ = some ([.sub 0 "x}1".toList], ⟨0 + 7, false⟩) :=
  string_bracket_quote (s := "x}1".toList) (rest := []) false (by decide +kernel) (stringEnd_nil _)

/-- 4b: two atoms separated by a blank, through `Atoms` -/
example : string false "x 'y'".toList.toArray ⟨0, false⟩
    = some ([.sub 0 ['x'], .sub 1 [' '], .sub 2 ['y']], ⟨5, false⟩) :=
  string_of_atoms
    (Atoms.cons (bl := [' ']) (r := "'y'".toList)
      (atom_naked (txt := ['x']) (ws := [' ']) (rest := "'y'".toList) false (by decide +kernel)
        (by decide) (by decide) (by decide) (by decide) (by decide) (by decide))
      (by decide +kernel) (by decide) (by decide)
      (Atoms.last (s := [])
        (atom_squoted (rest' := "y'".toList) false (by decide +kernel)
          (quotedString_quote (s := ['y']) (rest := []) (Or.inl rfl) false (by decide +kernel)))
        (by decide +kernel) (stringEnd_nil _)))

/-! # Amounts: prepositions, remainders, proportions, quantities, and the ordered choice in `reference`. -/

/-! ## list-level reading of the `(?i)` literals -/

/-- `s` starts with the literal word `w` under `(?i)` -/
def ciPrefix : Str → Str → Bool
  | [], _ => true
  | _ :: _, [] => false
  | l :: w, c :: s => ciMatches c l && ciPrefix w s

theorem ciWord_spec (w : Str) : ∀ {t : Array Char} {i : Nat} {s : Str} (z : Bool), t.toList.drop i = s →
    ciWord w t ⟨i, z⟩ = if ciPrefix w s then some ((), ⟨i + w.length, z⟩) else none := by
  induction w with
  | nil => intro t i s z _; simp [ciWord, ciPrefix]
  | cons l w ih =>
    intro t i s z h
    cases s with
    | nil =>
      have := sat_fail_of_head (p := (ciMatches · l)) z h (by simp)
      simp [ciWord, ciPrefix, this]
    | cons c s =>
      cases hm : ciMatches c l with
      | false =>
        have := sat_fail_of_head (p := (ciMatches · l)) z h (by simp [hm])
        simp [ciWord, ciPrefix, this, hm]
      | true =>
        have h1 := sat_of_head (p := (ciMatches · l)) z h hm
        have h2 := ih z (drop_succ_of_drop_cons h)
        simp only [ciWord, bind_apply, h1, h2, ciPrefix, hm, Bool.true_and, List.length_cons]
        split
        · congr 3; omega
        · rfl

/-- a variant of `w` starts with `w` -/
theorem ciPrefix_variant {w W : Str} (hv : CaseVariant w W) (hw : IsLowerWord w) (rest : Str) :
    ciPrefix w (W ++ rest) = true := by
  induction hv with
  | nil => simp [ciPrefix]
  | @cons l c w W hc _ ih =>
    simp only [List.cons_append, ciPrefix, ciMatches_of_caseVar (hw l (by simp)) hc, Bool.true_and]
    exact ih (fun x hx => hw x (by simp [hx]))

/-- the characters matched by a literal word of lower-case letters are word characters -/
theorem ciPrefix_word {w : Str} (hw : IsLowerWord w) : ∀ {s : Str}, ciPrefix w s = true →
    ∀ k, k < w.length → ∃ c, s[k]? = some c ∧ isReWord c = true := by
  induction w with
  | nil => intro s _ k hk; simp at hk
  | cons l w ih =>
    intro s h k hk
    cases s with
    | nil => simp [ciPrefix] at h
    | cons c s =>
      simp only [ciPrefix, Bool.and_eq_true] at h
      cases k with
      | zero => exact ⟨c, rfl, isReWord_of_ciMatches (hw l (by simp)) h.1⟩
      | succ k =>
        have := ih (fun x hx => hw x (by simp [hx])) h.2 k (by simpa using hk)
        simpa using this

/-- regex `w\b` at the start of `s`, for a non-empty word `w` of letters -/
def ciWordAt (w s : Str) : Bool := ciPrefix w s && !((s.drop w.length).head?.any isReWord)

/-- `\\b` right after a matched literal word -/
theorem wordBoundary_after_ci {w : Str} (hne : w ≠ []) (hw : IsLowerWord w) {t : Array Char} {i : Nat}
    {s : Str} (z : Bool) (h : t.toList.drop i = s) (hp : ciPrefix w s = true) :
    wordBoundary t ⟨i + w.length, z⟩ =
      if (s.drop w.length).head?.any isReWord then none else some ((), ⟨i + w.length, z⟩) := by
  obtain ⟨n, hn⟩ : ∃ n, w.length = n + 1 := ⟨w.length - 1, by
    have : 0 < w.length := List.length_pos_iff.mpr hne
    omega⟩
  obtain ⟨c, hc, hcw⟩ := ciPrefix_word hw hp n (by omega)
  have hprev : t[i + n]? = some c := by rw [getElem?_of_drop h n]; exact hc
  have hnext : t[i + n + 1]? = (s.drop w.length).head? := by
    rw [Nat.add_assoc, getElem?_of_drop h (n + 1), hn, List.head?_drop]
  rw [hn, ← Nat.add_assoc]
  cases hh : (s.drop (n + 1)).head? with
  | none =>
    rw [hn] at hnext
    have := wordBoundary_of (t := t) (j := i + n) z hprev hcw (by rw [hnext, hh]; simp)
    simp [this]
  | some d =>
    rw [hn, hh] at hnext
    cases hd : isReWord d with
    | false =>
      have := wordBoundary_of (t := t) (j := i + n) z hprev hcw
        (by rw [hnext]; intro x hx; cases hx; exact hd)
      simp [this, hd]
    | true =>
      have := wordBoundary_fail_of (t := t) (j := i + n) z hprev hcw hnext hd
      simp [this, hd]

theorem ciWordB_spec {w : Str} (hne : w ≠ []) (hw : IsLowerWord w) {t : Array Char} {i : Nat} {s : Str}
    (z : Bool) (h : t.toList.drop i = s) :
    (do ciWord w; wordBoundary) t ⟨i, z⟩ = if ciWordAt w s then some ((), ⟨i + w.length, z⟩) else none := by
  simp only [bind_apply, ciWord_spec w z h, ciWordAt]
  by_cases hp : ciPrefix w s = true
  case neg => simp [hp]
  case pos =>
    simp only [hp, if_true, Bool.true_and, wordBoundary_after_ci hne hw z h hp]
    cases (s.drop w.length).head?.any isReWord <;> simp

/-- a run of a character class, as a function of the text -/
theorem skipMany1_spec (p : Char → Bool) {t : Array Char} {i : Nat} {s : Str} (z : Bool)
    (h : t.toList.drop i = s) :
    skipMany1 p t ⟨i, z⟩ =
      if s.head?.any p then some ((), ⟨i + (s.takeWhile p).length, z⟩) else none := by
  cases hh : s.head?.any p with
  | false =>
    have := skipMany1_fail (p := p) z h (by
      intro c hc; rw [hc] at hh; simpa using hh)
    simp [this]
  | true =>
    have hsplit : s = s.takeWhile p ++ s.dropWhile p := List.takeWhile_append_dropWhile.symm
    have hne : s.takeWhile p ≠ [] := by
      cases s with
      | nil => simp at hh
      | cons c s => simp at hh; simp [hh]
    have := skipMany1_run (p := p) z (xs := s.takeWhile p) (rest := s.dropWhile p)
      (by rw [← hsplit]; exact h) hne (fun x hx => mem_takeWhile_imp hx) (by
        intro c hc
        have := List.head?_dropWhile_not p s
        rw [hc] at this
        simpa using this)
    simp [this]

theorem hsp_spec {t : Array Char} {i : Nat} {s : Str} (z : Bool) (h : t.toList.drop i = s) :
    hsp t ⟨i, z⟩ = if s.head?.any isHsp then some ((), ⟨i + (s.takeWhile isHsp).length, z⟩) else none :=
  skipMany1_spec isHsp z h

theorem drop_takeWhile {t : Array Char} {i : Nat} {s : Str} (p : Char → Bool) (h : t.toList.drop i = s) :
    t.toList.drop (i + (s.takeWhile p).length) = s.dropWhile p := by
  apply drop_add_of_drop (xs := s.takeWhile p)
  rw [List.takeWhile_append_dropWhile]; exact h

/-- regex `[ \\t]+w\\b` at the start of `s` -/
def hspWordAt (w s : Str) : Bool := s.head?.any isHsp && ciWordAt w (s.dropWhile isHsp)

theorem hspWordB_spec {w : Str} (hne : w ≠ []) (hw : IsLowerWord w) {t : Array Char} {i : Nat} {s : Str}
    (z : Bool) (h : t.toList.drop i = s) :
    (do hsp; ciWord w; wordBoundary) t ⟨i, z⟩ =
      if hspWordAt w s then some ((), ⟨i + (s.takeWhile isHsp).length + w.length, z⟩) else none := by
  have e : (do hsp; ciWord w; wordBoundary : P Unit) = (hsp >>= fun _ => (do ciWord w; wordBoundary)) := rfl
  rw [e, bind_apply, hsp_spec z h, hspWordAt]
  cases hh : s.head?.any isHsp with
  | false => simp
  | true =>
    simp only [if_true, Bool.true_and]
    exact ciWordB_spec hne hw z (drop_takeWhile isHsp h)

theorem isReWord_of_isHsp {c : Char} (h : isHsp c = true) : isReWord c = false :=
  isReWord_false_of_isReSpace (isReSpace_of_isHsp h)

theorem isHsp_of_isReWord {c : Char} (h : isReWord c = true) : isHsp c = false := by
  cases hh : isHsp c with
  | false => rfl
  | true => rw [isReWord_of_isHsp hh] at h; cases h

/-! ## `preposition` -/

theorem of_toList : "of".toList = ['o', 'f'] := rfl
theorem the_toList : "the".toList = ['t', 'h', 'e'] := rfl

theorem lower_of : IsLowerWord ['o', 'f'] := by unfold IsLowerWord; decide
theorem lower_the : IsLowerWord ['t', 'h', 'e'] := by unfold IsLowerWord; decide

theorem preposition_eq : preposition = (ciWord ['o', 'f'] >>= fun _ =>
    ((do hsp; ciWord ['t', 'h', 'e']; wordBoundary) <|> wordBoundary)) := rfl

/-- "of the" -/
theorem preposition_of_the {OF bl THE rest : Str} (hof : CaseVariant ['o', 'f'] OF)
    (hblne : bl ≠ []) (hbl : ∀ c ∈ bl, isHsp c = true) (hthe : CaseVariant ['t', 'h', 'e'] THE)
    (hrest : ∀ c, rest.head? = some c → isReWord c = false)
    {t : Array Char} {i : Nat} (z : Bool) (h : t.toList.drop i = OF ++ bl ++ THE ++ rest) :
    preposition t ⟨i, z⟩ = some ((), ⟨i + (OF ++ bl ++ THE).length, z⟩) := by
  have h0 : t.toList.drop i = OF ++ (bl ++ (THE ++ rest)) := by simpa [List.append_assoc] using h
  have h1 := ciWord_variant hof lower_of z h0
  have h2 := drop_add_of_drop h0
  have hTne : THE ≠ [] := hthe.ne_nil (by simp)
  have hTcls := hthe.all_word lower_the
  have h3 := hsp_run z h2 hblne hbl (follow_of_run (q := fun c => isReWord c) (fun c hc => isHsp_of_isReWord hc) hTne
    (fun c hc => (hTcls c hc).1))
  have h4 := drop_add_of_drop h2
  have h5 := ciWord_variant hthe lower_the z h4
  have h6 := wordBoundary_after z h4 hTne (fun c hc => (hTcls c hc).1) hrest
  simp only [preposition_eq, bind_apply, orElse_apply, h1, h3, h5, h6, List.length_append]
  congr 3; omega

/-- "of", not followed by "the" -/
theorem preposition_of {OF rest : Str} (hof : CaseVariant ['o', 'f'] OF)
    (hrest : ∀ c, rest.head? = some c → isReWord c = false)
    (hthe : hspWordAt ['t', 'h', 'e'] rest = false)
    {t : Array Char} {i : Nat} (z : Bool) (h : t.toList.drop i = OF ++ rest) :
    preposition t ⟨i, z⟩ = some ((), ⟨i + OF.length, z⟩) := by
  have h1 := ciWord_variant hof lower_of z h
  have h2 := drop_add_of_drop h
  have h3 := hspWordB_spec (w := ['t', 'h', 'e']) (by simp) lower_the z h2
  rw [hthe] at h3
  simp only [bind_apply, Bool.false_eq_true, if_false] at h3
  have h4 := wordBoundary_after z h (hof.ne_nil (by simp)) (fun c hc => ((hof.all_word lower_of) c hc).1) hrest
  simp only [preposition_eq, bind_apply, orElse_apply, h1, h3, h4]

/-- no preposition where the text does not continue with `[ \\t]+of\\b` -/
theorem hsp_preposition_fail {s : Str} (hs : hspWordAt ['o', 'f'] s = false)
    {t : Array Char} {i : Nat} (z : Bool) (h : t.toList.drop i = s) :
    (do hsp; preposition) t ⟨i, z⟩ = none := by
  rw [bind_apply, hsp_spec z h]
  cases hh : s.head?.any isHsp with
  | false => simp
  | true =>
    simp only [if_true]
    have h1 := drop_takeWhile isHsp h
    simp only [hspWordAt, hh, Bool.true_and, ciWordAt] at hs
    rw [preposition_eq, bind_apply, ciWord_spec _ z h1]
    by_cases hp : ciPrefix ['o', 'f'] (s.dropWhile isHsp) = true
    case neg => simp [hp]
    case pos =>
      have hl2 : (['o', 'f'] : Str).length = 2 := rfl
      simp only [hp, Bool.true_and, Bool.not_eq_false', hl2] at hs
      simp only [hp, if_true, orElse_apply, hl2]
      have hwb := wordBoundary_after_ci (w := ['o', 'f']) (by simp) lower_of z h1 hp
      simp only [hl2, hs, if_true] at hwb
      have h2 := drop_add_of_drop (xs := (s.dropWhile isHsp).take 2) (rest := (s.dropWhile isHsp).drop 2)
        (by rw [List.take_append_drop]; exact h1)
      have hlen : ((s.dropWhile isHsp).take 2).length = 2 := by
        have := ciPrefix_word lower_of hp 1 (by simp)
        obtain ⟨c, hc, _⟩ := this
        have : 1 < (s.dropWhile isHsp).length := by
          rcases Nat.lt_or_ge 1 (s.dropWhile isHsp).length with h | h
          · exact h
          · rw [List.getElem?_eq_none h] at hc; cases hc
        simp only [List.length_take]; omega
      rw [hlen] at h2
      have hhsp : hsp t ⟨i + (s.takeWhile isHsp).length + 2, z⟩ = none := by
        rw [hsp_spec z h2]
        cases hd : ((s.dropWhile isHsp).drop 2).head? with
        | none => simp
        | some d =>
          rw [hd] at hs
          simp only [Option.any_some] at hs
          simp [isHsp_of_isReWord hs]
      simp only [bind_apply, hhsp, hwb]

/-- "`txt` is the text that `(hsp preposition)?` takes when followed by `rest`" -/
def PrepAt (txt rest : Str) : Prop :=
  ∀ (t : Array Char) (i : Nat) (z : Bool), t.toList.drop i = txt ++ rest →
    hspPreposition t ⟨i, z⟩ = some (txt, ⟨i + txt.length, z⟩)

theorem prepAt_nil {rest : Str} (h : hspWordAt ['o', 'f'] rest = false) : PrepAt [] rest := by
  intro t i z ht
  have := hsp_preposition_fail h z (by simpa using ht)
  simp only [hspPreposition, orElse_apply, textOf_fail this]
  rfl

theorem follow_caseVariant {w W : Str} (hv : CaseVariant w W) (hne : w ≠ []) (hw : IsLowerWord w) (rest : Str) :
    ∀ c, (W ++ rest).head? = some c → isHsp c = false :=
  follow_of_run (q := fun c => isReWord c) (fun _ hc => isHsp_of_isReWord hc) (hv.ne_nil hne)
    (fun c hc => (hv.all_word hw c hc).1)

theorem prepAt_of {bl OF rest : Str} (hblne : bl ≠ []) (hbl : ∀ c ∈ bl, isHsp c = true)
    (hof : CaseVariant ['o', 'f'] OF) (hrest : ∀ c, rest.head? = some c → isReWord c = false)
    (hthe : hspWordAt ['t', 'h', 'e'] rest = false) : PrepAt (bl ++ OF) rest := by
  intro t i z ht
  have h0 : t.toList.drop i = bl ++ (OF ++ rest) := by simpa [List.append_assoc] using ht
  have h1 := hsp_run z h0 hblne hbl (follow_caseVariant hof (by simp) lower_of rest)
  have h2 := preposition_of hof hrest hthe z (drop_add_of_drop h0)
  have h3 : (do hsp; preposition) t ⟨i, z⟩ = some ((), ⟨i + (bl ++ OF).length, z⟩) := by
    simp only [bind_apply, h1, h2, List.length_append]; congr 3; omega
  simp only [hspPreposition, orElse_apply, textOf_of z ht h3]

theorem prepAt_of_the {bl OF bl2 THE rest : Str} (hblne : bl ≠ []) (hbl : ∀ c ∈ bl, isHsp c = true)
    (hof : CaseVariant ['o', 'f'] OF) (hbl2ne : bl2 ≠ []) (hbl2 : ∀ c ∈ bl2, isHsp c = true)
    (hthe : CaseVariant ['t', 'h', 'e'] THE) (hrest : ∀ c, rest.head? = some c → isReWord c = false) :
    PrepAt (bl ++ OF ++ bl2 ++ THE) rest := by
  intro t i z ht
  have h0 : t.toList.drop i = bl ++ (OF ++ bl2 ++ THE ++ rest) := by simpa [List.append_assoc] using ht
  have h1 := hsp_run z h0 hblne hbl (by
    have := follow_caseVariant hof (by simp) lower_of (bl2 ++ THE ++ rest)
    simpa [List.append_assoc] using this)
  have h2 := preposition_of_the hof hbl2ne hbl2 hthe hrest z (drop_add_of_drop h0)
  have h3 : (do hsp; preposition) t ⟨i, z⟩ = some ((), ⟨i + (bl ++ OF ++ bl2 ++ THE).length, z⟩) := by
    simp only [bind_apply, h1, h2, List.length_append]; congr 3; omega
  simp only [hspPreposition, orElse_apply, textOf_of z ht h3]

/-- the text taken by `(hsp preposition)?` starts with a blank (or is empty), so whatever precedes
    it ends at a word boundary if it ends with a word character -/
theorem PrepAt.head_not_word {txt rest : Str} (h : PrepAt txt rest)
    (hrest : ∀ c, rest.head? = some c → isReWord c = false) :
    ∀ c, (txt ++ rest).head? = some c → isReWord c = false := by
  cases txt with
  | nil => simpa using hrest
  | cons x xs =>
    intro c hc
    simp only [List.cons_append, List.head?_cons, Option.some.injEq] at hc
    subst hc
    -- the rule starts with `hsp`
    have h1 := h ((x :: xs) ++ rest).toArray 0 false (by simp)
    cases hx : isHsp x with
    | true => exact isReWord_of_isHsp hx
    | false =>
      have : (do hsp; preposition) ((x :: xs) ++ rest).toArray ⟨0, false⟩ = none := by
        rw [bind_apply, hsp_spec false (s := (x :: xs) ++ rest) (by simp)]
        simp [hx]
      simp only [hspPreposition, orElse_apply, textOf_fail this, pure_apply] at h1
      simp at h1

/-! ## where no unit name stands -/

theorem drop_add_drop {t : Array Char} {i : Nat} {s : Str} (h : t.toList.drop i = s) (n : Nat) :
    t.toList.drop (i + n) = s.drop n := by
  rw [← h, List.drop_drop]

/-- one alternative of the unit pattern, read on the text -/
def patMatch : List Str → Str → Bool
  | [], _ => false
  | [w], s => ciWordAt w s
  | w :: w2 :: ws, s => ciPrefix w s &&
      ((s.drop w.length).head?.any isReSpace &&
        patMatch (w2 :: ws) ((s.drop w.length).dropWhile isReSpace))

/-- some alternative of `known_unit` matches at the start of `s` -/
def unitAt (s : Str) : Bool := unitPatterns.any (patMatch · s)

theorem unitPattern_fail : ∀ {ws : List Str}, IsUnitWords ws → ws ≠ [] →
    ∀ {t : Array Char} {i : Nat} {s : Str} (z : Bool), t.toList.drop i = s → patMatch ws s = false →
      unitPattern ws t ⟨i, z⟩ = none := by
  intro ws
  induction ws with
  | nil => intro _ h; exact absurd rfl h
  | cons w ws ih =>
    intro hws _ t i s z h hm
    have hw := hws w (by simp)
    cases ws with
    | nil =>
      have := ciWordB_spec hw.1 hw.2 z h
      simp only [patMatch] at hm
      simp only [hm, Bool.false_eq_true, if_false] at this
      exact this
    | cons w2 ws2 =>
      simp only [unitPattern_cons2, bind_apply, ciWord_spec w z h]
      by_cases hp : ciPrefix w s = true
      case neg => simp [hp]
      case pos =>
        simp only [hp, if_true]
        have h1 := drop_add_drop h w.length
        rw [show sp = skipMany1 isReSpace from rfl, skipMany1_spec isReSpace z h1]
        simp only [patMatch, hp, Bool.true_and, Bool.and_eq_false_iff] at hm
        by_cases hsps : (s.drop w.length).head?.any isReSpace = true
        case neg => rw [if_neg hsps]
        case pos =>
          rw [if_pos hsps]
          rcases hm with hm | hm
          · rw [hsps] at hm; cases hm
          · exact ih (fun x hx => hws x (by simp only [List.mem_cons] at hx ⊢; exact Or.inr hx)) (by simp) z
              (drop_takeWhile isReSpace h1) hm

theorem firstOf_none {ps : List (P Unit)} {t : Array Char} {s : PState}
    (h : ∀ p ∈ ps, p t s = none) : firstOf ps t s = none := by
  induction ps with
  | nil => rfl
  | cons p ps ih =>
    simp only [firstOf, orElse_apply, h p (by simp)]
    exact ih (fun q hq => h q (by simp [hq]))

/-- `known_unit` fails where no alternative matches -/
theorem knownUnit_fail {t : Array Char} {i : Nat} {s : Str} (z : Bool) (h : t.toList.drop i = s)
    (hu : unitAt s = false) : knownUnit t ⟨i, z⟩ = none := by
  apply firstOf_none
  intro p hp
  obtain ⟨ws, hws, rfl⟩ := List.mem_map.mp hp
  have hok := unitPatterns_words_table
  rw [List.all_eq_true] at hok
  have := unitWordsOk_iff (hok ws hws)
  simp only [unitAt, List.any_eq_false] at hu
  exact unitPattern_fail this.2 this.1 z h (by simpa using hu ws hws)

/-! ## `implicit_quantity` -/

theorem implicitQuantity_unit {num sp U prep rest : Str} {v : Num} {ws : List Str}
    (hnum : NumberAt num (sp ++ U ++ prep ++ rest) v) (hsp : ∀ c ∈ sp, isHsp c = true)
    (hmem : ws ∈ unitPatterns) (hU : UnitText ws U) (hprep : PrepAt prep rest)
    (hrest : ∀ c, rest.head? = some c → isReWord c = false)
    {t : Array Char} {i : Nat} (z : Bool) (h : t.toList.drop i = num ++ sp ++ U ++ prep ++ rest) :
    implicitQuantity t ⟨i, z⟩ =
      some (.qty i v (some [.sub (i + num.length + sp.length) U]) sp prep,
            ⟨i + (num ++ sp ++ U ++ prep).length, z⟩) := by
  have h0 : t.toList.drop i = num ++ (sp ++ U ++ prep ++ rest) := by simpa [List.append_assoc] using h
  have h1 := hnum t i z h0
  have h2 : t.toList.drop (i + num.length) = sp ++ (U ++ (prep ++ rest)) := by
    have := drop_add_of_drop h0; simpa [List.append_assoc] using this
  have hok := unitPatterns_words_table
  rw [List.all_eq_true] at hok
  have hws := (unitWordsOk_iff (hok ws hmem)).2
  obtain ⟨c, U', hUc, hcw, _⟩ := hU.head_letter hws
  have h3 := textOf_of z h2 (ohsp_run z h2 hsp (by
    rw [hUc]; intro d hd; simp at hd; subst hd; exact isHsp_of_isReWord hcw))
  have h4 := drop_add_of_drop h2
  have h5 := textOf_of z h4 (knownUnit_text hmem hU z h4 (hprep.head_not_word hrest))
  have h6 := hprep t _ z (drop_add_of_drop h4)
  have ho : opt (do
      let spacing ← textOf ohsp
      let unitOff ← getPos
      let name ← textOf knownUnit
      let prep ← hspPreposition
      pure (spacing, [SubStr.sub unitOff name], prep)) t ⟨i + num.length, z⟩
      = some (some (sp, [SubStr.sub (i + num.length + sp.length) U], prep),
              ⟨i + num.length + sp.length + U.length + prep.length, z⟩) := by
    apply opt_of_some
    simp only [bind_apply, getPos_apply, h3, h5, h6]
    rfl
  simp only [implicitQuantity, bind_apply, h1, ho]
  have e : i + num.length + sp.length + U.length + prep.length = i + (num ++ sp ++ U ++ prep).length := by
    simp only [List.length_append]; omega
  rw [e]; rfl

theorem implicitQuantity_bare {num rest : Str} {v : Num}
    (hnum : NumberAt num rest v) (hunit : unitAt (rest.dropWhile isHsp) = false)
    {t : Array Char} {i : Nat} (z : Bool) (h : t.toList.drop i = num ++ rest) :
    implicitQuantity t ⟨i, z⟩ = some (.qty i v none [] [], ⟨i + num.length, z⟩) := by
  have h1 := hnum t i z h
  have h2 := drop_add_of_drop h
  have h2' : t.toList.drop (i + num.length) = rest.takeWhile isHsp ++ rest.dropWhile isHsp := by
    rw [List.takeWhile_append_dropWhile]; exact h2
  have h3 := textOf_of z h2' (ohsp_run z h2' (fun x hx => mem_takeWhile_imp hx) (by
    intro c hc
    have := List.head?_dropWhile_not isHsp rest
    rw [hc] at this
    simpa using this))
  have h4 := knownUnit_fail z (drop_add_of_drop h2') hunit
  have ho : opt (do
      let spacing ← textOf ohsp
      let unitOff ← getPos
      let name ← textOf knownUnit
      let prep ← hspPreposition
      pure (spacing, [SubStr.sub unitOff name], prep)) t ⟨i + num.length, z⟩
      = some (none, ⟨i + num.length, z⟩) := by
    apply opt_of_none
    simp only [bind_apply, getPos_apply, h3, textOf_fail h4]
  simp only [implicitQuantity, bind_apply, h1, ho]
  rfl

/-! ## `remainder` -/

def wRemaining : Str := ['r', 'e', 'm', 'a', 'i', 'n', 'i', 'n', 'g']
def wRemainder : Str := ['r', 'e', 'm', 'a', 'i', 'n', 'd', 'e', 'r']
def wRest : Str := ['r', 'e', 's', 't']
def wLeft : Str := ['l', 'e', 'f', 't']
def wOver : Str := ['o', 'v', 'e', 'r']

theorem lower_remaining : IsLowerWord wRemaining := by unfold IsLowerWord wRemaining; decide
theorem lower_remainder : IsLowerWord wRemainder := by unfold IsLowerWord wRemainder; decide
theorem lower_rest : IsLowerWord wRest := by unfold IsLowerWord wRest; decide
theorem lower_left : IsLowerWord wLeft := by unfold IsLowerWord wLeft; decide
theorem lower_over : IsLowerWord wOver := by unfold IsLowerWord wOver; decide

theorem remainder_eq : remainder =
    ((do ciWord wRemaining; wordBoundary) <|> (do ciWord wRemainder; wordBoundary)
      <|> (do ciWord wRest; wordBoundary)
      <|> (do ciWord wLeft; ohsp; ciWord wOver; wordBoundary)) := rfl

/-- regex `left[ \\t]*over\\b` at the start of `s` -/
def leftOverAt (s : Str) : Bool :=
  ciPrefix wLeft s && ciWordAt wOver ((s.drop 4).dropWhile isHsp)

/-- the length of the match of the `remainder` regex at the start of `s`, if any -/
def remainderLen (s : Str) : Option Nat :=
  if ciWordAt wRemaining s then some 9
  else if ciWordAt wRemainder s then some 9
  else if ciWordAt wRest s then some 4
  else if leftOverAt s then some (4 + ((s.drop 4).takeWhile isHsp).length + 4)
  else none

theorem ohsp_spec {t : Array Char} {i : Nat} {s : Str} (z : Bool) (h : t.toList.drop i = s) :
    ohsp t ⟨i, z⟩ = some ((), ⟨i + (s.takeWhile isHsp).length, z⟩) := by
  have h' : t.toList.drop i = s.takeWhile isHsp ++ s.dropWhile isHsp := by
    rw [List.takeWhile_append_dropWhile]; exact h
  exact ohsp_run z h' (fun x hx => mem_takeWhile_imp hx) (by
    intro c hc
    have := List.head?_dropWhile_not isHsp s
    rw [hc] at this
    simpa using this)

theorem leftOver_spec {t : Array Char} {i : Nat} {s : Str} (z : Bool) (h : t.toList.drop i = s) :
    (do ciWord wLeft; ohsp; ciWord wOver; wordBoundary) t ⟨i, z⟩ =
      if leftOverAt s then some ((), ⟨i + 4 + ((s.drop 4).takeWhile isHsp).length + 4, z⟩) else none := by
  have e : (do ciWord wLeft; ohsp; ciWord wOver; wordBoundary : P Unit)
      = (ciWord wLeft >>= fun _ => ohsp >>= fun _ => (do ciWord wOver; wordBoundary)) := rfl
  rw [e, bind_apply, ciWord_spec wLeft z h, leftOverAt]
  by_cases hp : ciPrefix wLeft s = true
  case neg => simp [hp]
  case pos =>
    have h1 : t.toList.drop (i + 4) = s.drop 4 := drop_add_drop h 4
    have h2 := ohsp_spec z h1
    have h3 := ciWordB_spec (w := wOver) (by simp [wOver]) lower_over z (drop_takeWhile isHsp h1)
    have hl : wLeft.length = 4 := rfl
    have hl' : wOver.length = 4 := rfl
    simp only [bind_apply, hl'] at h3
    simp only [hp, if_true, Bool.true_and, hl, bind_apply, h2, h3]

theorem remainder_spec {t : Array Char} {i : Nat} {s : Str} (z : Bool) (h : t.toList.drop i = s) :
    remainder t ⟨i, z⟩ = (remainderLen s).map fun n => ((), ⟨i + n, z⟩) := by
  have h1 := ciWordB_spec (w := wRemaining) (by simp [wRemaining]) lower_remaining z h
  have h2 := ciWordB_spec (w := wRemainder) (by simp [wRemainder]) lower_remainder z h
  have h3 := ciWordB_spec (w := wRest) (by simp [wRest]) lower_rest z h
  have h4 := leftOver_spec z h
  have l1 : wRemaining.length = 9 := rfl
  have l2 : wRemainder.length = 9 := rfl
  have l3 : wRest.length = 4 := rfl
  rw [remainder_eq]
  simp only [orElse_apply, h1, h2, h3, h4, remainderLen, l1, l2, l3]
  by_cases c1 : ciWordAt wRemaining s = true
  · simp [c1]
  · by_cases c2 : ciWordAt wRemainder s = true
    · simp [c1, c2]
    · by_cases c3 : ciWordAt wRest s = true
      · simp [c1, c2, c3]
      · by_cases c4 : leftOverAt s = true
        · simp [c1, c2, c3, c4, Nat.add_assoc]
        · simp [c1, c2, c3, c4]

/-! ### the spellings of the remainder words -/

theorem ciPrefix_inv_variant {v w W rest : Str} (hvl : IsLowerWord v) (hv : CaseVariant w W)
    (hw : IsLowerWord w) (hrest : ∀ c, rest.head? = some c → isReWord c = false)
    (h : ciPrefix v (W ++ rest) = true) : v.isPrefixOf w = true := by
  have h1 := ciWord_spec v (t := (W ++ rest).toArray) (i := 0) (s := W ++ rest) false (by simp)
  rw [h, if_pos rfl] at h1
  obtain ⟨_, w', hw'⟩ := ciWord_inv_variant hvl hv hw (t := (W ++ rest).toArray) (i := 0) (by simp) hrest h1
  rw [List.isPrefixOf_iff_prefix]
  exact ⟨w', hw'.symm⟩

theorem ciWordAt_variant {w W rest : Str} (hv : CaseVariant w W) (hw : IsLowerWord w)
    (hrest : ∀ c, rest.head? = some c → isReWord c = false) : ciWordAt w (W ++ rest) = true := by
  have hd : (W ++ rest).drop w.length = rest := by rw [← hv.length_eq]; simp
  simp only [ciWordAt, ciPrefix_variant hv hw rest, hd, Bool.true_and, Bool.not_eq_true']
  cases hh : rest.head? with
  | none => rfl
  | some c => simp [hrest c hh]

theorem ciWordAt_false_of_not_prefix {v w W rest : Str} (hvl : IsLowerWord v) (hv : CaseVariant w W)
    (hw : IsLowerWord w) (hrest : ∀ c, rest.head? = some c → isReWord c = false)
    (hnp : v.isPrefixOf w = false) : ciWordAt v (W ++ rest) = false := by
  cases hp : ciPrefix v (W ++ rest) with
  | false => simp [ciWordAt, hp]
  | true => rw [ciPrefix_inv_variant hvl hv hw hrest hp] at hnp; cases hnp

theorem dropWhile_run {p : Char → Bool} {bl r : Str} (hbl : ∀ x ∈ bl, p x = true)
    (hr : ∀ c, r.head? = some c → p c = false) :
    (bl ++ r).dropWhile p = r ∧ (bl ++ r).takeWhile p = bl := by
  induction bl with
  | nil =>
    cases r with
    | nil => simp
    | cons c r => simp [hr c rfl]
  | cons x bl ih =>
    have := ih (fun y hy => hbl y (by simp [hy]))
    simp [hbl x (by simp), this]

/-- "`txt` is a spelling of the remainder word when followed by `rest`" -/
def RemainderAt (txt rest : Str) : Prop := remainderLen (txt ++ rest) = some txt.length

theorem RemainderAt.run {txt rest : Str} (h : RemainderAt txt rest) {t : Array Char} {i : Nat} (z : Bool)
    (ht : t.toList.drop i = txt ++ rest) : remainder t ⟨i, z⟩ = some ((), ⟨i + txt.length, z⟩) := by
  rw [remainder_spec z ht, h]; rfl

theorem remainderAt_remaining {W rest : Str} (hv : CaseVariant wRemaining W)
    (hrest : ∀ c, rest.head? = some c → isReWord c = false) : RemainderAt W rest := by
  have := ciWordAt_variant hv lower_remaining hrest
  have hl := hv.length_eq
  simp only [RemainderAt, remainderLen, this, if_true, hl]; rfl

theorem remainderAt_remainder {W rest : Str} (hv : CaseVariant wRemainder W)
    (hrest : ∀ c, rest.head? = some c → isReWord c = false) : RemainderAt W rest := by
  have h1 := ciWordAt_false_of_not_prefix lower_remaining hv lower_remainder hrest (by decide)
  have := ciWordAt_variant hv lower_remainder hrest
  have hl := hv.length_eq
  simp only [RemainderAt, remainderLen, h1, this, if_true, hl]; rfl

theorem remainderAt_rest {W rest : Str} (hv : CaseVariant wRest W)
    (hrest : ∀ c, rest.head? = some c → isReWord c = false) : RemainderAt W rest := by
  have h1 := ciWordAt_false_of_not_prefix lower_remaining hv lower_rest hrest (by decide)
  have h2 := ciWordAt_false_of_not_prefix lower_remainder hv lower_rest hrest (by decide)
  have := ciWordAt_variant hv lower_rest hrest
  have hl := hv.length_eq
  simp only [RemainderAt, remainderLen, h1, h2, this, if_true, hl]; rfl

theorem ciPrefix_false_of_head {v : Str} {l l' c : Char} {s : Str} (hl : isLowerAscii l = true)
    (hl' : isLowerAscii l' = true) (hc : CaseVar l' c) (hne : l ≠ l') :
    ciPrefix (l :: v) (c :: s) = false := by
  cases hm : ciMatches c l with
  | false => simp [ciPrefix, hm]
  | true => exact absurd (eq_of_ciMatches_caseVar hl hl' hc hm) hne

theorem remainderAt_leftOver {LEFT bl OVER rest : Str} (hleft : CaseVariant wLeft LEFT)
    (hbl : ∀ c ∈ bl, isHsp c = true) (hover : CaseVariant wOver OVER)
    (hrest : ∀ c, rest.head? = some c → isReWord c = false) : RemainderAt (LEFT ++ bl ++ OVER) rest := by
  have hl := hleft.length_eq
  have hlo := hover.length_eq
  have hl4 : LEFT.length = 4 := hl
  have hlo4 : OVER.length = 4 := hlo
  have e : LEFT ++ bl ++ OVER ++ rest = LEFT ++ (bl ++ (OVER ++ rest)) := by simp [List.append_assoc]
  -- the three single words start with "r"
  have hnot : ∀ v, IsLowerWord ('r' :: v) → ciWordAt ('r' :: v) (LEFT ++ (bl ++ (OVER ++ rest))) = false := by
    intro v _
    cases hleft with
    | @cons _ c _ W hc _ =>
      have := ciPrefix_false_of_head (v := v) (l := 'r') (l' := 'l') (s := W ++ (bl ++ (OVER ++ rest)))
        (by decide) (by decide) hc (by decide)
      simp only [ciWordAt, List.cons_append, this, Bool.false_and]
  have h1 := hnot _ lower_remaining
  have h2 := hnot _ lower_remainder
  have h3 := hnot _ lower_rest
  have hd : (LEFT ++ (bl ++ (OVER ++ rest))).drop 4 = bl ++ (OVER ++ rest) := by rw [← hl4]; simp
  have hrun := dropWhile_run (p := isHsp) (bl := bl) (r := OVER ++ rest) hbl
    (follow_caseVariant hover (by simp [wOver]) lower_over rest)
  have h4 : leftOverAt (LEFT ++ (bl ++ (OVER ++ rest))) = true := by
    simp only [leftOverAt, ciPrefix_variant hleft lower_left, hd, hrun.1,
      ciWordAt_variant hover lower_over hrest, Bool.and_self]
  simp only [RemainderAt, e, remainderLen, wRemaining, wRemainder, wRest] at h1 h2 h3 ⊢
  simp only [h1, h2, h3, h4, hd, hrun.2, Bool.false_eq_true, if_false, if_true, List.length_append, hl4, hlo4]

/-! ### where no remainder word stands -/

theorem ciPartners_not_digit_table : Gen.ciPartners.all (fun p => !(48 ≤ p.1 && p.1 ≤ 57)) = true := by
  decide +kernel

theorem ciMatches_false_of_digit {c l : Char} (hc : isDigit c = true) (hl : isLowerAscii l = true) :
    ciMatches c l = false := by
  cases hm : ciMatches c l with
  | false => rfl
  | true =>
    exfalso
    have hb := lower_bounds hl
    simp only [isDigit, Bool.and_eq_true, decide_eq_true_eq] at hc
    rcases ciMatches_cases hm with rfl | hmem
    · omega
    · have := ciPartners_not_digit_table
      rw [List.all_eq_true] at this
      have := this _ hmem
      simp only [Bool.not_eq_true', Bool.and_eq_false_iff, decide_eq_false_iff_not] at this
      omega

/-- a character that matches neither `r` nor `l` starts no remainder word -/
theorem remainderLen_none_of_head {s : Str}
    (h : ∀ c, s.head? = some c → ciMatches c 'r' = false ∧ ciMatches c 'l' = false) :
    remainderLen s = none := by
  cases s with
  | nil => simp [remainderLen, ciWordAt, leftOverAt, ciPrefix, wRemaining, wRemainder, wRest, wLeft]
  | cons c s =>
    obtain ⟨hr, hl⟩ := h c rfl
    simp [remainderLen, ciWordAt, leftOverAt, ciPrefix, wRemaining, wRemainder, wRest, wLeft, hr, hl]

theorem remainder_fail {t : Array Char} {i : Nat} {s : Str} (z : Bool) (h : t.toList.drop i = s)
    (hs : remainderLen s = none) : remainder t ⟨i, z⟩ = none := by
  rw [remainder_spec z h, hs]; rfl

/-! ## `proportion` -/

theorem proportion_remainder {W prep rest : Str} (hW : RemainderAt W (prep ++ rest)) (hprep : PrepAt prep rest)
    {t : Array Char} {i : Nat} (z : Bool) (h : t.toList.drop i = W ++ prep ++ rest) :
    proportion t ⟨i, z⟩ = some (.prop i none false (some W) prep, ⟨i + (W ++ prep).length, z⟩) := by
  have h0 : t.toList.drop i = W ++ (prep ++ rest) := by simpa [List.append_assoc] using h
  have h1 := textOf_of z h0 (hW.run z h0)
  have h2 := hprep t _ z (drop_add_of_drop h0)
  have e : i + W.length + prep.length = i + (W ++ prep).length := by
    simp only [List.length_append]; omega
  simp only [proportion, orElse_apply, bind_apply, getPos_apply, h1, h2, e]
  rfl

/-- the three continuations of `proportion` after a number -/
def proportionTail (off : Nat) (v : Num) : P AAmount :=
  (do let prep ← textOf (do hsp; preposition)
      pure (.prop off (some v) false none prep))
  <|> (do let prep ← textOf (do ohsp; lit '%'; let _ ← hspPreposition)
          pure (.prop off (v.div (Num.ofNat 100)) true none prep))
  <|> (do let prep ← textOf (do ohsp; lit '*')
          pure (.prop off (some v) false none prep))

theorem remainderLen_none_of_digit {s : Str} (h : ∃ c, s.head? = some c ∧ isDigit c = true) :
    remainderLen s = none := by
  obtain ⟨c, hc, hd⟩ := h
  apply remainderLen_none_of_head
  intro d hd'
  rw [hc] at hd'; cases hd'
  exact ⟨ciMatches_false_of_digit hd (by decide), ciMatches_false_of_digit hd (by decide)⟩

theorem proportion_number {num after : Str} {v : Num} (hnum : NumberAt num after v)
    {t : Array Char} {i : Nat} (z : Bool) (h : t.toList.drop i = num ++ after) :
    proportion t ⟨i, z⟩ = proportionTail i v t ⟨i + num.length, z⟩ := by
  have h1 := textOf_fail (remainder_fail z h (remainderLen_none_of_digit hnum.head_isDigit))
  have h2 := hnum t i z h
  simp only [proportion, orElse_apply, bind_apply, getPos_apply, h1, h2]
  rfl

theorem hsp_preposition_of_prepAt {prep rest : Str} (hprep : PrepAt prep rest) (hne : prep ≠ [])
    {t : Array Char} {j : Nat} (z : Bool) (h : t.toList.drop j = prep ++ rest) :
    textOf (do hsp; preposition) t ⟨j, z⟩ = some (prep, ⟨j + prep.length, z⟩) := by
  have h1 := hprep t j z h
  simp only [hspPreposition, orElse_apply] at h1
  cases hr : textOf (do hsp; preposition) t ⟨j, z⟩ with
  | some r => rw [hr] at h1; simpa using h1
  | none =>
    rw [hr] at h1
    simp only [pure_apply, Option.some.injEq, Prod.mk.injEq] at h1
    exact absurd h1.1.symm hne

/-- `v of …` -/
theorem proportionTail_of {prep rest : Str} (hprep : PrepAt prep rest) (hne : prep ≠ []) (off : Nat) (v : Num)
    {t : Array Char} {j : Nat} (z : Bool) (h : t.toList.drop j = prep ++ rest) :
    proportionTail off v t ⟨j, z⟩ = some (.prop off (some v) false none prep, ⟨j + prep.length, z⟩) := by
  simp only [proportionTail, orElse_apply, bind_apply, hsp_preposition_of_prepAt hprep hne z h]
  rfl

theorem hspWordAt_of_false {bl : Str} {c : Char} {x : Str} (hbl : ∀ y ∈ bl, isHsp y = true)
    (hc : isHsp c = false) (hco : ciMatches c 'o' = false) : hspWordAt ['o', 'f'] (bl ++ c :: x) = false := by
  have := dropWhile_run (p := isHsp) (bl := bl) (r := c :: x) hbl (by simpa using hc)
  simp [hspWordAt, this.1, ciWordAt, ciPrefix, hco]

/-- `v %` and `v % of …` -/
theorem proportionTail_percent {bl prep rest : Str} (hbl : ∀ y ∈ bl, isHsp y = true) (hprep : PrepAt prep rest)
    (off : Nat) (v : Num) {t : Array Char} {j : Nat} (z : Bool)
    (h : t.toList.drop j = bl ++ '%' :: prep ++ rest) :
    proportionTail off v t ⟨j, z⟩ =
      some (.prop off (v.div (Num.ofNat 100)) true none (bl ++ '%' :: prep), ⟨j + (bl ++ '%' :: prep).length, z⟩) := by
  have h0 : t.toList.drop j = bl ++ '%' :: (prep ++ rest) := by simpa [List.append_assoc] using h
  have hf := textOf_fail (hsp_preposition_fail (hspWordAt_of_false (x := prep ++ rest) hbl (by decide) (by decide)) z h0)
  have h1 := ohsp_run z h0 hbl (by simp [isHsp])
  have h2 := drop_add_of_drop h0
  have h3 := lit_of_head z h2
  have h4 := hprep t _ z (drop_succ_of_drop_cons h2)
  have h5 : (do ohsp; lit '%'; let _ ← hspPreposition) t ⟨j, z⟩
      = some ((), ⟨j + (bl ++ '%' :: prep).length, z⟩) := by
    simp only [bind_apply, h1, h3, h4, pure_apply, List.length_append, List.length_cons]
    congr 3; omega
  have h6 := textOf_of (xs := bl ++ '%' :: prep) z (by simpa [List.append_assoc] using h) h5
  simp only [proportionTail, orElse_apply, bind_apply, hf, h6]
  rfl

/-- `v *` -/
theorem proportionTail_star {bl rest : Str} (hbl : ∀ y ∈ bl, isHsp y = true)
    (off : Nat) (v : Num) {t : Array Char} {j : Nat} (z : Bool)
    (h : t.toList.drop j = bl ++ '*' :: rest) :
    proportionTail off v t ⟨j, z⟩ =
      some (.prop off (some v) false none (bl ++ ['*']), ⟨j + (bl ++ ['*']).length, z⟩) := by
  have hf := textOf_fail (hsp_preposition_fail (hspWordAt_of_false (x := rest) hbl (by decide) (by decide)) z h)
  have h1 := ohsp_run z h hbl (by simp [isHsp])
  have h2 := drop_add_of_drop h
  have h3 := lit_of_head z h2
  have h3' := lit_fail_of_head (c := '%') z h2 (by simp)
  have hf2 : textOf (do ohsp; lit '%'; let _ ← hspPreposition) t ⟨j, z⟩ = none := by
    apply textOf_fail; simp only [bind_apply, h1, h3']
  have h5 : (do ohsp; lit '*') t ⟨j, z⟩ = some ((), ⟨j + (bl ++ ['*']).length, z⟩) := by
    simp only [bind_apply, h1, h3, List.length_append, List.length_cons, List.length_nil]
    rfl
  have h6 := textOf_of (xs := bl ++ ['*']) (rest := rest) z (by simpa [List.append_assoc] using h) h5
  simp only [proportionTail, orElse_apply, bind_apply, hf, hf2, h6]
  rfl

/-- after a number, `proportion` needs `of`, `%` or `*` -/
theorem proportionTail_fail {after : Str} (hof : hspWordAt ['o', 'f'] after = false)
    (hc : ∀ c, (after.dropWhile isHsp).head? = some c → c ≠ '%' ∧ c ≠ '*')
    (off : Nat) (v : Num) {t : Array Char} {j : Nat} (z : Bool) (h : t.toList.drop j = after) :
    proportionTail off v t ⟨j, z⟩ = none := by
  have hf := textOf_fail (hsp_preposition_fail hof z h)
  have h1 := ohsp_spec z h
  have h2 := drop_takeWhile isHsp h
  have h3 := lit_fail_of_head (c := '%') z h2 (fun hh => (hc _ hh).1 rfl)
  have h4 := lit_fail_of_head (c := '*') z h2 (fun hh => (hc _ hh).2 rfl)
  have hf2 : textOf (do ohsp; lit '%'; let _ ← hspPreposition) t ⟨j, z⟩ = none := by
    apply textOf_fail; simp only [bind_apply, h1, h3]
  have hf3 : textOf (do ohsp; lit '*') t ⟨j, z⟩ = none := by
    apply textOf_fail; simp only [bind_apply, h1, h4]
  simp only [proportionTail, orElse_apply, bind_apply, hf, hf2, hf3]

/-! ## `explicit_quantity` -/

/-- "`txt` is a spelling of a `string` with value `val off` (at offset `off`) when followed by `rest`" -/
def StringAt (static : Bool) (txt rest : Str) (val : Nat → AString) : Prop :=
  ∀ (t : Array Char) (i : Nat) (z : Bool), t.toList.drop i = txt ++ rest →
    string static t ⟨i, z⟩ = some (val i, ⟨i + txt.length, z⟩)

theorem string_fail_of_head {static : Bool} {t : Array Char} {i : Nat} {s : Str} (z : Bool)
    (h : t.toList.drop i = s) (hc : ∀ c, s.head? = some c → NoAtomStart static c) :
    string static t ⟨i, z⟩ = none := by
  simp only [string, bind_apply, remaining_apply, stringF_fail_of_head z h hc]

theorem noAtomStart_rbrace (static : Bool) : NoAtomStart static '}' :=
  ⟨by decide, by decide, by decide, fun _ => by decide⟩

theorem NumberAt.follow_hsp {num rest : Str} {v : Num} (h : NumberAt num rest v) :
    ∀ c, (num ++ rest).head? = some c → isHsp c = false := by
  obtain ⟨d, hd, hdd⟩ := h.head_isDigit
  intro c hc
  rw [hd] at hc; cases hc
  exact isHsp_of_isDigit hdd

theorem explicitQuantity_unit {b1 num b2 utxt b3 prep rest : Str} {v : Num} {uval : Nat → AString}
    (hb1 : ∀ c ∈ b1, isHsp c = true)
    (hnum : NumberAt num (b2 ++ utxt ++ b3 ++ '}' :: prep ++ rest) v)
    (hb2 : ∀ c ∈ b2, isHsp c = true)
    (hu : StringAt true utxt (b3 ++ '}' :: prep ++ rest) uval)
    (huh : ∀ c, (utxt ++ (b3 ++ '}' :: prep ++ rest)).head? = some c → isHsp c = false)
    (hb3 : ∀ c ∈ b3, isHsp c = true) (hprep : PrepAt prep rest)
    {t : Array Char} {i : Nat} (z : Bool)
    (h : t.toList.drop i = '{' :: b1 ++ num ++ b2 ++ utxt ++ b3 ++ '}' :: prep ++ rest) :
    explicitQuantity t ⟨i, z⟩ =
      some (.qty i v (some (uval (i + 1 + b1.length + num.length + b2.length))) b2 prep,
            ⟨i + ('{' :: b1 ++ num ++ b2 ++ utxt ++ b3 ++ '}' :: prep).length, z⟩) := by
  have h0 : t.toList.drop i = '{' :: (b1 ++ (num ++ (b2 ++ utxt ++ b3 ++ '}' :: prep ++ rest))) := by
    simpa [List.append_assoc] using h
  have h1 := lit_of_head z h0
  have h2 := drop_succ_of_drop_cons h0
  have h3 := ohsp_run z h2 hb1 hnum.follow_hsp
  have h4 := drop_add_of_drop h2
  have h5 := hnum t _ z h4
  have h6 : t.toList.drop (i + 1 + b1.length + num.length) = b2 ++ (utxt ++ (b3 ++ '}' :: prep ++ rest)) := by
    have := drop_add_of_drop h4; simpa [List.append_assoc] using this
  have h7 := textOf_of z h6 (ohsp_run z h6 hb2 huh)
  have h8 := drop_add_of_drop h6
  have h9 := hu t _ z h8
  have ho : opt (do let spacing ← textOf ohsp; let u ← string (static := true); pure (spacing, u)) t
      ⟨i + 1 + b1.length + num.length, z⟩
      = some (some (b2, uval (i + 1 + b1.length + num.length + b2.length)),
              ⟨i + 1 + b1.length + num.length + b2.length + utxt.length, z⟩) := by
    apply opt_of_some
    simp only [bind_apply, h7, h9]; rfl
  have h10 : t.toList.drop (i + 1 + b1.length + num.length + b2.length + utxt.length)
      = b3 ++ '}' :: (prep ++ rest) := by
    have := drop_add_of_drop h8; simpa [List.append_assoc] using this
  have h11 := ohsp_run z h10 hb3 (by simp [isHsp])
  have h12 := drop_add_of_drop h10
  have h13 := lit_of_head z h12
  have h14 := hprep t _ z (drop_succ_of_drop_cons h12)
  have e : i + 1 + b1.length + num.length + b2.length + utxt.length + b3.length + 1 + prep.length
      = i + ('{' :: b1 ++ num ++ b2 ++ utxt ++ b3 ++ '}' :: prep).length := by
    simp only [List.length_append, List.length_cons]; omega
  simp only [explicitQuantity, bind_apply, getPos_apply, h1, h3, h5, ho, h11, h13, h14, e]
  rfl

theorem explicitQuantity_bare {b1 num b3 prep rest : Str} {v : Num}
    (hb1 : ∀ c ∈ b1, isHsp c = true)
    (hnum : NumberAt num (b3 ++ '}' :: prep ++ rest) v)
    (hb3 : ∀ c ∈ b3, isHsp c = true) (hprep : PrepAt prep rest)
    {t : Array Char} {i : Nat} (z : Bool)
    (h : t.toList.drop i = '{' :: b1 ++ num ++ b3 ++ '}' :: prep ++ rest) :
    explicitQuantity t ⟨i, z⟩ =
      some (.qty i v none [] prep, ⟨i + ('{' :: b1 ++ num ++ b3 ++ '}' :: prep).length, z⟩) := by
  have h0 : t.toList.drop i = '{' :: (b1 ++ (num ++ (b3 ++ '}' :: prep ++ rest))) := by
    simpa [List.append_assoc] using h
  have h1 := lit_of_head z h0
  have h2 := drop_succ_of_drop_cons h0
  have h3 := ohsp_run z h2 hb1 hnum.follow_hsp
  have h4 := drop_add_of_drop h2
  have h5 := hnum t _ z h4
  have h6 : t.toList.drop (i + 1 + b1.length + num.length) = b3 ++ '}' :: (prep ++ rest) := by
    have := drop_add_of_drop h4; simpa [List.append_assoc] using this
  have h7 := ohsp_run z h6 hb3 (by simp [isHsp])
  have h7' := textOf_of z h6 h7
  have h8 := drop_add_of_drop h6
  have h9 := string_fail_of_head (static := true) z h8 (by
    intro c hc; simp at hc; subst hc; exact noAtomStart_rbrace true)
  have ho : opt (do let spacing ← textOf ohsp; let u ← string (static := true); pure (spacing, u)) t
      ⟨i + 1 + b1.length + num.length, z⟩ = some (none, ⟨i + 1 + b1.length + num.length, z⟩) := by
    apply opt_of_none
    simp only [bind_apply, h7', h9]
  have h13 := lit_of_head z h8
  have h14 := hprep t _ z (drop_succ_of_drop_cons h8)
  have e : i + 1 + b1.length + num.length + b3.length + 1 + prep.length
      = i + ('{' :: b1 ++ num ++ b3 ++ '}' :: prep).length := by
    simp only [List.length_append, List.length_cons]; omega
  simp only [explicitQuantity, bind_apply, getPos_apply, h1, h3, h5, ho, h7, h13, h14, e]
  rfl

/-! ## the ordered choice of amounts in `reference` -/

/-- `proportion / explicit_quantity / implicit_quantity` -/
def amount : P AAmount := proportion <|> explicitQuantity <|> implicitQuantity

/-- "`txt` is a spelling of an amount with value `val off` (at offset `off`) when followed by `rest`" -/
def AmountAt (txt rest : Str) (val : Nat → AAmount) : Prop :=
  ∀ (t : Array Char) (i : Nat) (z : Bool), t.toList.drop i = txt ++ rest →
    amount t ⟨i, z⟩ = some (val i, ⟨i + txt.length, z⟩)

theorem amount_of_proportion {t : Array Char} {s : PState} {r} (h : proportion t s = some r) :
    amount t s = some r := by simp [amount, h]

theorem explicitQuantity_fail_of_head {t : Array Char} {i : Nat} {s : Str} (z : Bool)
    (h : t.toList.drop i = s) (hc : s.head? ≠ some '{') : explicitQuantity t ⟨i, z⟩ = none := by
  simp only [explicitQuantity, bind_apply, getPos_apply, lit_fail_of_head z h hc]

/-- `proportion` fails on an opening brace -/
theorem proportion_fail_lbrace {t : Array Char} {i : Nat} {s : Str} (z : Bool)
    (h : t.toList.drop i = '{' :: s) : proportion t ⟨i, z⟩ = none := by
  have h1 := textOf_fail (remainder_fail z h (remainderLen_none_of_head (by
    intro c hc; simp at hc; subst hc; exact ⟨by decide, by decide⟩)))
  have h2 := number_fail_of_head z h (by simp [isDigit])
  simp only [proportion, orElse_apply, bind_apply, getPos_apply, h1, h2]

theorem amount_of_explicit {t : Array Char} {i : Nat} {s : Str} {z : Bool} {r}
    (h : t.toList.drop i = '{' :: s) (he : explicitQuantity t ⟨i, z⟩ = some r) :
    amount t ⟨i, z⟩ = some r := by
  simp only [amount, orElse_apply, proportion_fail_lbrace z h, he]

/-- an implicit quantity is reached when the number is followed neither by `of`, nor by `%` or `*` -/
theorem amount_of_implicit {num after : Str} {v : Num} (hnum : NumberAt num after v)
    (hof : hspWordAt ['o', 'f'] after = false)
    (hc : ∀ c, (after.dropWhile isHsp).head? = some c → c ≠ '%' ∧ c ≠ '*')
    {t : Array Char} {i : Nat} (z : Bool) (h : t.toList.drop i = num ++ after) :
    amount t ⟨i, z⟩ = implicitQuantity t ⟨i, z⟩ := by
  have h1 := proportion_number hnum z h
  rw [proportionTail_fail hof hc i v z (drop_add_of_drop h)] at h1
  obtain ⟨d, hd, hdd⟩ := hnum.head_isDigit
  have h2 := explicitQuantity_fail_of_head z h (by
    rw [hd]; intro heq; cases heq; simp [isDigit] at hdd)
  simp only [amount, orElse_apply, h1, h2]

/-- no amount where the text starts with no remainder word, no digit, and no `{ number` -/
theorem amount_fail {s : Str} (hrem : remainderLen s = none)
    (hdig : ∀ c, s.head? = some c → isDigit c = false)
    (hbr : ∀ s', s = '{' :: s' → ∀ c, (s'.dropWhile isHsp).head? = some c → isDigit c = false)
    {t : Array Char} {i : Nat} (z : Bool) (h : t.toList.drop i = s) :
    amount t ⟨i, z⟩ = none := by
  have h1 := textOf_fail (remainder_fail z h hrem)
  have h2 := number_fail_of_head z h hdig
  have hp : proportion t ⟨i, z⟩ = none := by
    simp only [proportion, orElse_apply, bind_apply, getPos_apply, h1, h2]
  have he : explicitQuantity t ⟨i, z⟩ = none := by
    by_cases hb : s.head? = some '{'
    · cases s with
      | nil => simp at hb
      | cons c s' =>
        simp only [List.head?_cons, Option.some.injEq] at hb
        subst hb
        have h3 := lit_of_head z h
        have h4 := drop_succ_of_drop_cons h
        have h5 := ohsp_spec z h4
        have h6 := number_fail_of_head z (drop_takeWhile isHsp h4) (hbr s' rfl)
        simp only [explicitQuantity, bind_apply, getPos_apply, h3, h5, h6]
    · exact explicitQuantity_fail_of_head z h hb
  have hi : implicitQuantity t ⟨i, z⟩ = none := by
    simp only [implicitQuantity, bind_apply, h2]
  simp only [amount, orElse_apply, hp, he, hi]

/-- no unit name starts with the letters "of" (so `2 oz flour` is not read as `2 of …`) -/
theorem unitPatterns_not_of_table : unitPatterns.all (fun ws =>
    match ws.head? with
    | some w => !(['o', 'f'].isPrefixOf w)
    | none => true) = true := by decide +kernel

theorem UnitText.first_word {ws : List Str} {T : Str} (h : UnitText ws T) :
    ∃ w W tail, ws.head? = some w ∧ T = W ++ tail ∧ CaseVariant w W ∧
      (tail = [] ∨ ∃ c tl, tail = c :: tl ∧ isReWord c = false) := by
  cases h with
  | one hv => exact ⟨_, _, [], rfl, by simp, hv, Or.inl rfl⟩
  | @cons w W S ws T hv hSne hS _ _ =>
    refine ⟨w, W, S ++ T, rfl, by simp [List.append_assoc], hv, Or.inr ?_⟩
    cases S with
    | nil => exact absurd rfl hSne
    | cons c S' => exact ⟨c, S' ++ T, rfl, isReWord_false_of_isReSpace (hS c (by simp))⟩

/-- a number followed by blanks and a unit name is not followed by `[ \\t]+of\\b`, `%` or `*` -/
theorem implicit_reached {ws : List Str} (hmem : ws ∈ unitPatterns) {sp U X : Str} (hU : UnitText ws U)
    (hsp : ∀ c ∈ sp, isHsp c = true) (hX : ∀ c, X.head? = some c → isReWord c = false) :
    hspWordAt ['o', 'f'] (sp ++ U ++ X) = false ∧
      ∀ c, ((sp ++ U ++ X).dropWhile isHsp).head? = some c → c ≠ '%' ∧ c ≠ '*' := by
  have hok := unitPatterns_words_table
  rw [List.all_eq_true] at hok
  have hws := (unitWordsOk_iff (hok ws hmem)).2
  obtain ⟨c, U', hUc, hcw, _⟩ := hU.head_letter hws
  have hrun := dropWhile_run (p := isHsp) (bl := sp) (r := U ++ X) hsp (by
    rw [hUc]; intro d hd; simp at hd; subst hd; exact isHsp_of_isReWord hcw)
  have e : sp ++ U ++ X = sp ++ (U ++ X) := by simp [List.append_assoc]
  rw [e]
  refine ⟨?_, ?_⟩
  · obtain ⟨w, W, tail, hw, hT, hv, htail⟩ := hU.first_word
    have hwmem : w ∈ ws := by
      cases ws with
      | nil => simp at hw
      | cons a as => simp at hw; subst hw; simp
    have hp : ciPrefix ['o', 'f'] (U ++ X) = false := by
      cases hcp : ciPrefix ['o', 'f'] (U ++ X) with
      | false => rfl
      | true =>
        exfalso
        have hcp' : ciPrefix ['o', 'f'] (W ++ (tail ++ X)) = true := by
          rw [← List.append_assoc, ← hT]; exact hcp
        have hpre := ciPrefix_inv_variant lower_of hv (hws w hwmem).2 (by
          rcases htail with rfl | ⟨d, tl, rfl, hd⟩
          · simpa using hX
          · intro x hx; simp at hx; subst hx; exact hd) hcp'
        have htab := unitPatterns_not_of_table
        rw [List.all_eq_true] at htab
        have hnot := htab ws hmem
        rw [hw] at hnot
        simp only [Bool.not_eq_true'] at hnot
        rw [hpre] at hnot
        cases hnot
    simp [hspWordAt, hrun.1, ciWordAt, hp]
  · rw [hrun.1, hUc]
    intro d hd
    simp at hd; subst hd
    constructor <;> (rintro rfl; revert hcw; decide +kernel)

theorem reference_eq : reference = (do
    let amount ← opt (do let a ← amount; ohsp; pure a)
    let name ← string
    pure (.ref name amount)) := rfl

/-- `amount blanks name` -/
theorem reference_amount {atxt bl ntxt rest : Str} {aval : Nat → AAmount} {nval : Nat → AString}
    (ha : AmountAt atxt (bl ++ ntxt ++ rest) aval) (hbl : ∀ c ∈ bl, isHsp c = true)
    (hn : StringAt false ntxt rest nval)
    (hnh : ∀ c, (ntxt ++ rest).head? = some c → isHsp c = false)
    {t : Array Char} {i : Nat} (z : Bool) (h : t.toList.drop i = atxt ++ bl ++ ntxt ++ rest) :
    reference t ⟨i, z⟩ =
      some (.ref (nval (i + atxt.length + bl.length)) (some (aval i)),
            ⟨i + (atxt ++ bl ++ ntxt).length, z⟩) := by
  have h0 : t.toList.drop i = atxt ++ (bl ++ ntxt ++ rest) := by simpa [List.append_assoc] using h
  have h1 := ha t i z h0
  have h2 : t.toList.drop (i + atxt.length) = bl ++ (ntxt ++ rest) := by
    have := drop_add_of_drop h0; simpa [List.append_assoc] using this
  have h3 := ohsp_run z h2 hbl hnh
  have h4 := hn t _ z (drop_add_of_drop h2)
  have ho : opt (do let a ← amount; ohsp; pure a) t ⟨i, z⟩
      = some (some (aval i), ⟨i + atxt.length + bl.length, z⟩) := by
    apply opt_of_some; simp only [bind_apply, h1, h3]; rfl
  have e : i + atxt.length + bl.length + ntxt.length = i + (atxt ++ bl ++ ntxt).length := by
    simp only [List.length_append]; omega
  simp only [reference_eq, bind_apply, ho, h4, e]
  rfl

/-- a name without amount -/
theorem reference_plain {ntxt rest : Str} {nval : Nat → AString}
    (hn : StringAt false ntxt rest nval)
    (hrem : remainderLen (ntxt ++ rest) = none)
    (hdig : ∀ c, (ntxt ++ rest).head? = some c → isDigit c = false)
    (hbr : ∀ s', ntxt ++ rest = '{' :: s' → ∀ c, (s'.dropWhile isHsp).head? = some c → isDigit c = false)
    {t : Array Char} {i : Nat} (z : Bool) (h : t.toList.drop i = ntxt ++ rest) :
    reference t ⟨i, z⟩ = some (.ref (nval i) none, ⟨i + ntxt.length, z⟩) := by
  have h1 := amount_fail hrem hdig hbr z h
  have h4 := hn t _ z h
  have ho : opt (do let a ← amount; ohsp; pure a) t ⟨i, z⟩ = some (none, ⟨i, z⟩) := by
    apply opt_of_none; simp only [bind_apply, h1]
  simp only [reference_eq, bind_apply, ho, h4]
  rfl

/-! # Print/parse lemmas for the expression and statement rules of `Model/Parser.lean`:
    `eol`, `assign`, `eof`, `expr` (`step` / `reference` / parenthesised shorthand),
    `ltrShorthand`, `outputList`, `stmt`, `recipe`, `parse`.

    Conventions as in `Lemmas/Parser.lean`; the abstractions `ExprAt`, `LtrAt`, `EolAt`, `StmtAt`
    follow `NumberAt`/`StringAt`. -/

/-! ## small facts -/

/-- `many_of_chain` without the bound when nothing is consumed -/
theorem many_of_chain' {α} {p : P α} {t : Array Char} {z : Bool} {i j : Nat} {as : List α}
    (h : Chain p t z i as j) (hj : i = j ∨ j ≤ t.size) (hend : p t ⟨j, z⟩ = none) :
    many p t ⟨i, z⟩ = some (as, ⟨j, z⟩) := by
  simp only [many, bind_apply, remaining_apply]
  exact manyF_of_chain h hend _ (by have := h.le; omega)

theorem isHsp_of_isNewline {c : Char} (h : isNewline c = true) : isHsp c = false := by
  cases hh : isHsp c with
  | false => rfl
  | true => rw [isNewline_of_isHsp hh] at h; cases h

theorem sat_some {p : Char → Bool} {t : Array Char} {s : PState} {r}
    (h : sat p t s = some r) : ∃ c, t[s.pos]? = some c ∧ p c = true ∧ r = (c, { s with pos := s.pos + 1 }) := by
  simp only [sat] at h
  split at h
  · next c hc =>
    split at h
    · next hp => exact ⟨c, hc, hp, by cases h; rfl⟩
    · cases h
  · cases h

theorem lit_some {c : Char} {t : Array Char} {s : PState} {r}
    (h : lit c t s = some r) : t[s.pos]? = some c ∧ r = ((), { s with pos := s.pos + 1 }) := by
  simp only [lit, bind_apply] at h
  cases hs : sat (· == c) t s with
  | none => rw [hs] at h; cases h
  | some r' =>
    obtain ⟨d, hd, hp, rfl⟩ := sat_some hs
    rw [hs] at h
    simp only [beq_iff_eq] at hp
    subst hp
    exact ⟨hd, by cases h; rfl⟩

theorem drop_of_getElem? {t : Array Char} {k : Nat} {c : Char} (h : t[k]? = some c) :
    t.toList.drop k = c :: t.toList.drop (k + 1) := by
  have : t.toList[k]? = some c := by rw [Array.getElem?_toList]; exact h
  obtain ⟨hk, e⟩ := List.getElem?_eq_some_iff.mp this
  rw [List.drop_eq_getElem_cons hk, e]

/-- a character of the text from offset `i` on, as a member of the list -/
theorem mem_of_getElem?_ge {t : Array Char} {i j : Nat} {s : Str} {c : Char}
    (h : t.toList.drop i = s) (hij : i ≤ j) (hc : t[j]? = some c) : c ∈ s := by
  have := getElem?_of_drop h (j - i)
  rw [show i + (j - i) = j by omega, hc] at this
  exact List.mem_of_getElem? this.symm

/-! ## 1. `eol`, `eof`, `assign` -/

theorem eof_of_nil {t : Array Char} {i : Nat} (z : Bool) (h : t.toList.drop i = []) :
    eof t ⟨i, z⟩ = some ((), ⟨i, z⟩) := by
  have := size_of_drop h
  simp only [List.length_nil] at this
  simp only [eof]
  rw [if_pos (by omega)]

theorem eof_fail_of_cons {t : Array Char} {i : Nat} {c : Char} {s : Str} (z : Bool)
    (h : t.toList.drop i = c :: s) : eof t ⟨i, z⟩ = none := by
  have := lt_size_of_drop_cons h
  simp only [eof]
  rw [if_neg (by omega)]

/-- blanks, a newline character, any white space; then something that is no white space -/
theorem eol_newline {t : Array Char} {i : Nat} {bl ws rest : Str} {nl : Char} (z : Bool)
    (h : t.toList.drop i = bl ++ nl :: ws ++ rest) (hbl : ∀ c ∈ bl, isHsp c = true)
    (hnl : isNewline nl = true) (hws : ∀ c ∈ ws, isReSpace c = true)
    (hrest : ∀ c, rest.head? = some c → isReSpace c = false) :
    eol t ⟨i, z⟩ = some ((), ⟨i + (bl ++ nl :: ws).length, z⟩) := by
  have h0 : t.toList.drop i = bl ++ (nl :: (ws ++ rest)) := by simpa using h
  have h1 := ohsp_run z h0 hbl (by simp [isHsp_of_isNewline hnl])
  have h2 := drop_add_of_drop h0
  have h3 := sat_of_head (p := isNewline) z h2 hnl
  have h4 := osp_run z (drop_succ_of_drop_cons h2) hws hrest
  simp only [eol, orElse_apply, bind_apply, h1, h3, h4]
  have e : i + bl.length + 1 + ws.length = i + (bl ++ nl :: ws).length := by
    simp only [List.length_append, List.length_cons]; omega
  rw [e]

/-- blanks, then the end of the text -/
theorem eol_eof {t : Array Char} {i : Nat} {bl : Str} (z : Bool)
    (h : t.toList.drop i = bl) (hbl : ∀ c ∈ bl, isHsp c = true) :
    eol t ⟨i, z⟩ = some ((), ⟨i + bl.length, z⟩) := by
  have h0 : t.toList.drop i = bl ++ [] := by simpa using h
  have h1 := ohsp_run z h0 hbl (by simp)
  have h2 := drop_add_of_drop h0
  have h3 := sat_fail_of_head (p := isNewline) z h2 (by simp)
  have h4 := eof_of_nil z h2
  simp only [eol, orElse_apply, bind_apply, h1, h3, h4]

/-- "`txt` is an end of line when followed by `rest`" -/
def EolAt (txt rest : Str) : Prop :=
  ∀ (t : Array Char) (i : Nat) (z : Bool), t.toList.drop i = txt ++ rest →
    eol t ⟨i, z⟩ = some ((), ⟨i + txt.length, z⟩)

theorem eolAt_newline {bl ws rest : Str} {nl : Char} (hbl : ∀ c ∈ bl, isHsp c = true)
    (hnl : isNewline nl = true) (hws : ∀ c ∈ ws, isReSpace c = true)
    (hrest : ∀ c, rest.head? = some c → isReSpace c = false) : EolAt (bl ++ nl :: ws) rest :=
  fun _ _ z h => eol_newline z h hbl hnl hws hrest

theorem eolAt_eof {bl : Str} (hbl : ∀ c ∈ bl, isHsp c = true) : EolAt bl [] :=
  fun _ _ z h => eol_eof z (by simpa using h) hbl

theorem assign_named {t : Array Char} {i : Nat} {rest : Str} (z : Bool)
    (h : t.toList.drop i = ':' :: '=' :: rest) : assign t ⟨i, z⟩ = some (true, ⟨i + 2, z⟩) := by
  have h1 := lit_of_head z h
  have h2 := lit_of_head z (drop_succ_of_drop_cons h)
  simp only [assign, orElse_apply, bind_apply, h1, h2]
  rfl

theorem assign_plain {t : Array Char} {i : Nat} {rest : Str} (z : Bool)
    (h : t.toList.drop i = '=' :: rest) : assign t ⟨i, z⟩ = some (false, ⟨i + 1, z⟩) := by
  have h1 := lit_fail_of_head (c := ':') z h (by simp)
  have h2 := lit_of_head z h
  simp only [assign, orElse_apply, bind_apply, h1, h2]
  rfl

/-- `assign` needs `=` or `:=` -/
theorem assign_fail {t : Array Char} {i : Nat} {s : Str} (z : Bool) (h : t.toList.drop i = s)
    (h1 : s.head? ≠ some '=') (h2 : ∀ s', s = ':' :: s' → s'.head? ≠ some '=') :
    assign t ⟨i, z⟩ = none := by
  have hl := lit_fail_of_head (c := '=') z h h1
  by_cases hc : s.head? = some ':'
  · cases s with
    | nil => simp at hc
    | cons c s' =>
      simp only [List.head?_cons, Option.some.injEq] at hc
      subst hc
      have h3 := lit_of_head z h
      have h4 := lit_fail_of_head (c := '=') z (drop_succ_of_drop_cons h) (h2 s' rfl)
      simp only [assign, orElse_apply, bind_apply, h3, h4, hl]
  · have h3 := lit_fail_of_head (c := ':') z h hc
    simp only [assign, orElse_apply, bind_apply, h3, hl]

/-- wherever `assign` succeeds there is a `=` at or after its start -/
theorem assign_some {t : Array Char} {s : PState} {r} (h : assign t s = some r) :
    ∃ j, s.pos ≤ j ∧ t[j]? = some '=' := by
  simp only [assign, orElse_apply, bind_apply] at h
  cases h1 : lit ':' t s with
  | some r1 =>
    obtain ⟨_, rfl⟩ := lit_some h1
    rw [h1] at h
    simp only at h
    cases h2 : lit '=' t { s with pos := s.pos + 1 } with
    | some r2 => exact ⟨s.pos + 1, by omega, (lit_some h2).1⟩
    | none =>
      rw [h2] at h
      simp only at h
      cases h3 : lit '=' t s with
      | some r3 => exact ⟨s.pos, Nat.le_refl _, (lit_some h3).1⟩
      | none => rw [h3] at h; cases h
  | none =>
    rw [h1] at h
    simp only at h
    cases h3 : lit '=' t s with
    | some r3 => exact ⟨s.pos, Nat.le_refl _, (lit_some h3).1⟩
    | none => rw [h3] at h; cases h

/-! ## 2. `expr` on a reference -/

theorem mono_stringF (static : Bool) : ∀ fuel, Mono (stringF static fuel) := by
  intro fuel
  induction fuel with
  | zero => exact adv_fail.mono
  | succ f ih =>
    rw [stringF_succ]
    refine mono_bind (adv_atom static).mono fun first => mono_bind (mono_opt ?_) fun _ => mono_pure _
    exact mono_bind mono_getPos fun _ => mono_bind (mono_textOf (mono_skipMany _)) fun _ =>
      mono_bind ih fun _ => mono_pure _

theorem mono_string (static : Bool) : Mono (string static) :=
  mono_bind mono_remaining fun _ => mono_stringF static _

theorem needs_string (static : Bool) : NeedsChar (string static) := by
  intro t s r h
  simp only [string, bind_apply, remaining_apply] at h
  rw [stringF_succ] at h
  exact needs_bind (needs_atom static) _ _ _ h

theorem step_eq (e : P AExpr) : step e = (string false >>= fun name => ohsp >>= fun _ => lit '(' >>= fun _ =>
    osp >>= fun _ => e >>= fun first =>
    many (osp >>= fun _ => lit ',' >>= fun _ => osp >>= fun _ => e) >>= fun rest =>
    opt (osp >>= fun _ => lit ',') >>= fun _ => osp >>= fun _ => lit ')' >>= fun _ =>
    pure (.step name (first :: rest))) := rfl

/-- wherever `step` succeeds there is a `(` at or after its start -/
theorem step_some_lparen {e : P AExpr} {t : Array Char} {s : PState} {r} (h : step e t s = some r) :
    ∃ j, s.pos ≤ j ∧ t[j]? = some '(' := by
  obtain ⟨v, s'⟩ := r
  rw [step_eq] at h
  obtain ⟨name, s1, h1, h⟩ := bind_some h
  obtain ⟨_, s2, h2, h⟩ := bind_some h
  obtain ⟨_, s3, h3, _⟩ := bind_some h
  have := mono_string false _ _ _ _ h1
  have := mono_skipMany isHsp _ _ _ _ h2
  exact ⟨s2.pos, by omega, (lit_some h3).1⟩

/-- `step` fails where `string` does -/
theorem step_fail_of_string_none {e : P AExpr} {t : Array Char} {s : PState}
    (h : string false t s = none) : step e t s = none := by
  simp only [step_eq, bind_apply, h]

/-- `step` fails where the `string` it starts with is not followed by blanks and `(` -/
theorem step_fail_of_string_some {e : P AExpr} {t : Array Char} {i j : Nat} {z : Bool} {name : AString}
    {bl r : Str} (h : string false t ⟨i, z⟩ = some (name, ⟨j, z⟩))
    (hd : t.toList.drop j = bl ++ r) (hbl : ∀ c ∈ bl, isHsp c = true)
    (hr : ∀ c, r.head? = some c → isHsp c = false ∧ c ≠ '(') : step e t ⟨i, z⟩ = none := by
  have h1 := ohsp_run z hd hbl (fun c hc => (hr c hc).1)
  have h2 := lit_fail_of_head (c := '(') z (drop_add_of_drop hd) (fun hc => (hr _ hc).2 rfl)
  simp only [step_eq, bind_apply, h, h1, h2]

theorem expr_succ (fuel : Nat) : expr (fuel + 1) = (step (expr fuel) <|> reference <|>
    (lit '(' >>= fun _ => osp >>= fun _ => ltrShorthand (expr fuel) >>= fun e =>
      osp >>= fun _ => lit ')' >>= fun _ => pure e)) := rfl

/-- where `step` fails and no `(` stands, `expr` is `reference` -/
theorem expr_eq_reference_of_step_none {fuel : Nat} {t : Array Char} {i : Nat} {z : Bool}
    (hstep : step (expr fuel) t ⟨i, z⟩ = none) (hp : t[i]? ≠ some '(') :
    expr (fuel + 1) t ⟨i, z⟩ = reference t ⟨i, z⟩ := by
  have h3 : lit '(' t ⟨i, z⟩ = none := by
    cases h : lit '(' t ⟨i, z⟩ with
    | none => rfl
    | some r => exact absurd (lit_some h).1 hp
  simp only [expr_succ, orElse_apply, bind_apply, hstep, h3]
  cases reference t ⟨i, z⟩ <;> rfl

/-- **where the text has no `(` from offset `i` on, `expr` is `reference`** -/
theorem expr_eq_reference {fuel : Nat} {t : Array Char} {i : Nat} {z : Bool}
    (h : ∀ j, i ≤ j → t[j]? ≠ some '(') : expr (fuel + 1) t ⟨i, z⟩ = reference t ⟨i, z⟩ := by
  apply expr_eq_reference_of_step_none _ (h i (Nat.le_refl _))
  cases hs : step (expr fuel) t ⟨i, z⟩ with
  | none => rfl
  | some r =>
    obtain ⟨j, hj, hc⟩ := step_some_lparen hs
    exact absurd hc (h j hj)

/-- the same, for a text given as a list -/
theorem expr_eq_reference_of_text {fuel : Nat} {t : Array Char} {i : Nat} {z : Bool} {s : Str}
    (hd : t.toList.drop i = s) (h : ∀ c ∈ s, c ≠ '(') :
    expr (fuel + 1) t ⟨i, z⟩ = reference t ⟨i, z⟩ :=
  expr_eq_reference fun _ hj hc => h _ (mem_of_getElem?_ge hd hj hc) rfl

/-! ## 3. `ltrShorthand` (and the comma separated lists of strings) -/

/-- `hsp? "," hsp? string`: one action of the shorthand, one further output of an output list -/
def commaString : P AString := ohsp >>= fun _ => lit ',' >>= fun _ => ohsp >>= fun _ => string false

theorem ltrShorthand_eq (e : P AExpr) : ltrShorthand e = (e >>= fun first =>
    many commaString >>= fun actions =>
    pure (actions.foldl (fun e action => .step action [e]) first)) := rfl

theorem outputList_eq : outputList = (string false >>= fun first =>
    many commaString >>= fun rest => pure (first :: rest)) := rfl

/-- the first character of a `string` starts an atom -/
theorem StringAt.head {static : Bool} {txt rest : Str} {val : Nat → AString} (h : StringAt static txt rest val) :
    ∃ c, (txt ++ rest).head? = some c ∧ ¬ NoAtomStart static c := by
  have h1 := h (txt ++ rest).toArray 0 false (by simp)
  cases hh : (txt ++ rest).head? with
  | none =>
    rw [string_fail_of_head false (t := (txt ++ rest).toArray) (i := 0) (s := txt ++ rest) (by simp)
      (by simp [hh])] at h1
    cases h1
  | some c =>
    refine ⟨c, rfl, fun hn => ?_⟩
    rw [string_fail_of_head false (t := (txt ++ rest).toArray) (i := 0) (s := txt ++ rest) (by simp)
      (by intro d hd; rw [hh] at hd; cases hd; exact hn)] at h1
    cases h1

theorem StringAt.head_not_space {static : Bool} {txt rest : Str} {val : Nat → AString}
    (h : StringAt static txt rest val) : ∀ c, (txt ++ rest).head? = some c → isReSpace c = false := by
  obtain ⟨d, hd, hn⟩ := h.head
  intro c hc
  have e : d = c := by rw [hd] at hc; exact Option.some.inj hc
  subst e
  cases hs : isReSpace d with
  | false => rfl
  | true => exact absurd (noAtomStart_of_isReSpace hs) hn

theorem StringAt.head_not_hsp {static : Bool} {txt rest : Str} {val : Nat → AString}
    (h : StringAt static txt rest val) : ∀ c, (txt ++ rest).head? = some c → isHsp c = false := by
  intro c hc
  cases hh : isHsp c with
  | false => rfl
  | true => exact absurd (h.head_not_space c hc) (by rw [isReSpace_of_isHsp hh]; simp)

theorem adv_stringF (static : Bool) : ∀ fuel, Adv (stringF static fuel)
  | 0 => adv_fail
  | f + 1 => by
    rw [stringF_succ]
    refine adv_bind_left (adv_atom static) fun first => mono_bind (mono_opt ?_) fun _ => mono_pure _
    exact mono_bind mono_getPos fun _ => mono_bind (mono_textOf (mono_skipMany _)) fun _ =>
      mono_bind (mono_stringF static f) fun _ => mono_pure _

theorem adv_string (static : Bool) : Adv (string static) :=
  adv_bind_right mono_remaining fun _ => adv_stringF static _

theorem StringAt.ne_nil {static : Bool} {txt rest : Str} {val : Nat → AString}
    (h : StringAt static txt rest val) : txt ≠ [] := by
  rintro rfl
  have h1 := h rest.toArray 0 false (by simp)
  have := adv_string static _ _ _ _ h1
  simp at this

/-- one `, string` item as written: blanks, comma, blanks, the text of the string, and its value -/
structure CommaItem where
  b1 : Str
  b2 : Str
  txt : Str
  val : Nat → AString

def CommaItem.print (a : CommaItem) : Str := a.b1 ++ ',' :: a.b2 ++ a.txt

def printCommaItems : List CommaItem → Str
  | [] => []
  | a :: as => a.print ++ printCommaItems as

/-- admissible items in front of `rest`: blanks are blanks, every text is a `string` in its place -/
def CommaItemsOk (rest : Str) : List CommaItem → Prop
  | [] => True
  | a :: as => (∀ c ∈ a.b1, isHsp c = true) ∧ (∀ c ∈ a.b2, isHsp c = true)
      ∧ StringAt false a.txt (printCommaItems as ++ rest) a.val ∧ CommaItemsOk rest as

/-- the values of the items written from offset `off` on -/
def commaItemVals (off : Nat) : List CommaItem → List AString
  | [] => []
  | a :: as => a.val (off + a.b1.length + 1 + a.b2.length) :: commaItemVals (off + a.print.length) as

theorem commaString_run {a : CommaItem} {after : Str} (hb1 : ∀ c ∈ a.b1, isHsp c = true)
    (hb2 : ∀ c ∈ a.b2, isHsp c = true) (hs : StringAt false a.txt after a.val)
    {t : Array Char} {i : Nat} (z : Bool) (h : t.toList.drop i = a.print ++ after) :
    commaString t ⟨i, z⟩ = some (a.val (i + a.b1.length + 1 + a.b2.length), ⟨i + a.print.length, z⟩) := by
  have h0 : t.toList.drop i = a.b1 ++ (',' :: (a.b2 ++ (a.txt ++ after))) := by
    simpa [CommaItem.print, List.append_assoc] using h
  have h1 := ohsp_run z h0 hb1 (by simp [isHsp])
  have h2 := drop_add_of_drop h0
  have h3 := lit_of_head z h2
  have h4 := drop_succ_of_drop_cons h2
  have h5 := ohsp_run z h4 hb2 hs.head_not_hsp
  have h6 := hs t _ z (drop_add_of_drop h4)
  simp only [commaString, bind_apply, h1, h3, h5, h6]
  have e : i + a.b1.length + 1 + a.b2.length + a.txt.length = i + a.print.length := by
    simp only [CommaItem.print, List.length_append, List.length_cons]; omega
  rw [e]

theorem CommaItem.print_length_pos (a : CommaItem) : 0 < a.print.length := by
  simp only [CommaItem.print, List.length_append, List.length_cons]; omega

/-- blanks and then no comma: no further item -/
theorem commaString_fail {t : Array Char} {i : Nat} {bl r : Str} (z : Bool)
    (h : t.toList.drop i = bl ++ r) (hbl : ∀ c ∈ bl, isHsp c = true)
    (hr : ∀ c, r.head? = some c → isHsp c = false ∧ c ≠ ',') : commaString t ⟨i, z⟩ = none := by
  have h1 := ohsp_run z h hbl (fun c hc => (hr c hc).1)
  have h2 := lit_fail_of_head (c := ',') z (drop_add_of_drop h) (fun hc => (hr _ hc).2 rfl)
  simp only [commaString, bind_apply, h1, h2]

theorem commaString_chain {t : Array Char} (z : Bool) {rest : Str} :
    ∀ (as : List CommaItem) (i : Nat), CommaItemsOk rest as →
      t.toList.drop i = printCommaItems as ++ rest →
      Chain commaString t z i (commaItemVals i as) (i + (printCommaItems as).length) := by
  intro as
  induction as with
  | nil => intro i _ _; exact Chain.nil i
  | cons a as ih =>
    intro i hok h
    obtain ⟨hb1, hb2, hs, hrest⟩ := hok
    have h' : t.toList.drop i = a.print ++ (printCommaItems as ++ rest) := by
      simpa [printCommaItems, List.append_assoc] using h
    have h1 := commaString_run hb1 hb2 hs z h'
    have hp := a.print_length_pos
    have e : i + (printCommaItems (a :: as)).length = i + a.print.length + (printCommaItems as).length := by
      simp only [printCommaItems, List.length_append]; omega
    rw [e]
    exact Chain.cons h1 (by omega) (ih _ hrest (drop_add_of_drop h'))

/-- what must follow a comma separated list for it to end: after optional blanks, no comma -/
def NoComma (rest : Str) : Prop :=
  ∃ bl r, rest = bl ++ r ∧ (∀ c ∈ bl, isHsp c = true) ∧ ∀ c, r.head? = some c → isHsp c = false ∧ c ≠ ','

/-- `(hsp? "," hsp? string)*` recovers the items -/
theorem many_commaString {t : Array Char} {i : Nat} {as : List CommaItem} {rest : Str} (z : Bool)
    (h : t.toList.drop i = printCommaItems as ++ rest) (hok : CommaItemsOk rest as) (hf : NoComma rest) :
    many commaString t ⟨i, z⟩ = some (commaItemVals i as, ⟨i + (printCommaItems as).length, z⟩) := by
  obtain ⟨bl, r, rfl, hbl, hr⟩ := hf
  apply many_of_chain' (commaString_chain z as i hok h)
  · cases as with
    | nil => left; simp [printCommaItems]
    | cons a as =>
      right
      exact le_size_of_drop_append h (by
        have := a.print_length_pos
        intro e
        have := congrArg List.length e
        simp only [printCommaItems, List.length_append, List.length_nil] at this
        omega)
  · exact commaString_fail z (drop_add_of_drop h) hbl hr

/-- **the left-to-right shorthand**: a first expression (any parser `e` that recovers it), then
    `, action` items; the value nests the actions from the left -/
theorem ltrShorthand_run {e : P AExpr} {t : Array Char} {i j : Nat} {z : Bool} {first : AExpr}
    {as : List CommaItem} {rest : Str} (he : e t ⟨i, z⟩ = some (first, ⟨j, z⟩))
    (h : t.toList.drop j = printCommaItems as ++ rest) (hok : CommaItemsOk rest as) (hf : NoComma rest) :
    ltrShorthand e t ⟨i, z⟩ =
      some ((commaItemVals j as).foldl (fun e action => .step action [e]) first,
            ⟨j + (printCommaItems as).length, z⟩) := by
  simp only [ltrShorthand_eq, bind_apply, he, many_commaString z h hok hf]
  rfl

/-- `output (hsp? "," hsp? output)*` -/
theorem outputList_run {otxt : Str} {oval : Nat → AString} {as : List CommaItem} {rest : Str}
    (ho : StringAt false otxt (printCommaItems as ++ rest) oval) (hok : CommaItemsOk rest as)
    (hf : NoComma rest) {t : Array Char} {i : Nat} (z : Bool)
    (h : t.toList.drop i = otxt ++ printCommaItems as ++ rest) :
    outputList t ⟨i, z⟩ =
      some (oval i :: commaItemVals (i + otxt.length) as, ⟨i + (otxt ++ printCommaItems as).length, z⟩) := by
  have h0 : t.toList.drop i = otxt ++ (printCommaItems as ++ rest) := by simpa [List.append_assoc] using h
  have h1 := ho t i z h0
  have h2 := many_commaString z (drop_add_of_drop h0) hok hf
  simp only [outputList_eq, bind_apply, h1, h2]
  have e : i + otxt.length + (printCommaItems as).length = i + (otxt ++ printCommaItems as).length := by
    simp only [List.length_append]; omega
  rw [e]
  rfl

/-! ## 4. `expr`: where it fails, the abstraction `ExprAt`, steps and parentheses -/

theorem ciPartners_rl : ∀ p ∈ Gen.ciPartners, p.2 = 114 ∨ p.2 = 108 →
    p.1 = 82 ∨ p.1 = 114 ∨ p.1 = 76 ∨ p.1 = 108 := by decide

theorem char_eq_of_toNat {c : Char} {n : Nat} (h : c.toNat = n) : c = Char.ofNat n := by
  rw [← h, Char.ofNat_toNat]

/-- only `r`, `R`, `l`, `L` match the pattern letters `r` and `l` under `(?i)` -/
theorem ciMatches_rl {c : Char} (h : ciMatches c 'r' = true ∨ ciMatches c 'l' = true) :
    c = 'R' ∨ c = 'r' ∨ c = 'L' ∨ c = 'l' := by
  have key : ∀ l : Char, (l.toNat = 114 ∨ l.toNat = 108) → ciMatches c l = true →
      c = l ∨ c = 'R' ∨ c = 'r' ∨ c = 'L' ∨ c = 'l' := by
    intro l hl hm
    simp only [ciMatches, Bool.or_eq_true, beq_iff_eq, List.contains_iff_mem] at hm
    rcases hm with rfl | hm
    · exact Or.inl rfl
    · right
      rcases ciPartners_rl _ hm hl with e | e | e | e
      · exact Or.inl (char_eq_of_toNat e)
      · exact Or.inr (Or.inl (char_eq_of_toNat e))
      · exact Or.inr (Or.inr (Or.inl (char_eq_of_toNat e)))
      · exact Or.inr (Or.inr (Or.inr (char_eq_of_toNat e)))
  rcases h with h | h
  · rcases key 'r' (Or.inl rfl) h with rfl | h' <;> simp_all
  · rcases key 'l' (Or.inr rfl) h with rfl | h' <;> simp_all

theorem isNakedEdge_of_isDigit {c : Char} (h : isDigit c = true) : isNakedEdge c = true := by
  simp only [isDigit, Bool.and_eq_true, decide_eq_true_eq] at h
  have : c.toNat = 48 ∨ c.toNat = 49 ∨ c.toNat = 50 ∨ c.toNat = 51 ∨ c.toNat = 52 ∨ c.toNat = 53
      ∨ c.toNat = 54 ∨ c.toNat = 55 ∨ c.toNat = 56 ∨ c.toNat = 57 := by omega
  rcases this with e | e | e | e | e | e | e | e | e | e <;>
    (rw [char_eq_of_toNat e]; decide)

/-- no `reference` where no atom of a `string` can start -/
theorem reference_fail_of_head {t : Array Char} {i : Nat} {s : Str} (z : Bool)
    (h : t.toList.drop i = s) (hc : ∀ c, s.head? = some c → NoAtomStart false c) :
    reference t ⟨i, z⟩ = none := by
  have hrem : remainderLen s = none := by
    apply remainderLen_none_of_head
    intro c hs
    have hn := (hc c hs).1
    constructor
    · cases hm : ciMatches c 'r' with
      | false => rfl
      | true =>
        rcases ciMatches_rl (Or.inl hm) with rfl | rfl | rfl | rfl <;> exact absurd hn (by decide)
    · cases hm : ciMatches c 'l' with
      | false => rfl
      | true =>
        rcases ciMatches_rl (Or.inr hm) with rfl | rfl | rfl | rfl <;> exact absurd hn (by decide)
  have hdig : ∀ c, s.head? = some c → isDigit c = false := by
    intro c hs
    cases hd : isDigit c with
    | false => rfl
    | true => have := (hc c hs).1; rw [isNakedEdge_of_isDigit hd] at this; cases this
  have ha := amount_fail hrem hdig (by
    intro s' e c _
    subst e
    exact absurd rfl ((hc '{' rfl).2.2.2 rfl)) z h
  have ho : opt (do let a ← amount; ohsp; pure a) t ⟨i, z⟩ = some (none, ⟨i, z⟩) := by
    apply opt_of_none; simp only [bind_apply, ha]
  simp only [reference_eq, bind_apply, ho, string_fail_of_head z h hc]

/-- no `expr` where no atom can start and no `(` stands: at the end of the text, at white space,
    at `,:=/)}` -/
theorem expr_fail_of_head {t : Array Char} {i : Nat} {s : Str} (z : Bool)
    (h : t.toList.drop i = s) (hc : ∀ c, s.head? = some c → NoAtomStart false c ∧ c ≠ '(') :
    ∀ fuel, expr fuel t ⟨i, z⟩ = none
  | 0 => rfl
  | f + 1 => by
    have h1 : step (expr f) t ⟨i, z⟩ = none :=
      step_fail_of_string_none (string_fail_of_head z h (fun c hs => (hc c hs).1))
    have h2 := reference_fail_of_head z h (fun c hs => (hc c hs).1)
    have h3 := lit_fail_of_head (c := '(') z h (fun hs => (hc _ hs).2 rfl)
    simp only [expr_succ, orElse_apply, bind_apply, h1, h2, h3]

theorem noAtomStart_rparen : NoAtomStart false ')' := ⟨by decide, by decide, by decide, fun _ => by decide⟩
theorem noAtomStart_lparen : NoAtomStart false '(' := ⟨by decide, by decide, by decide, fun _ => by decide⟩

/-- "`txt` is a spelling of an expression with value `val off` (at offset `off`) when followed by
    `rest`", for every fuel from `d` on (`d` bounds the nesting depth) -/
def ExprAt (d : Nat) (txt rest : Str) (val : Nat → AExpr) : Prop :=
  ∀ (t : Array Char) (i : Nat) (z : Bool) (fuel : Nat), t.toList.drop i = txt ++ rest → d ≤ fuel →
    expr fuel t ⟨i, z⟩ = some (val i, ⟨i + txt.length, z⟩)

theorem ExprAt.mono {d d' : Nat} {txt rest : Str} {val : Nat → AExpr} (h : ExprAt d txt rest val)
    (hd : d ≤ d') : ExprAt d' txt rest val :=
  fun t i z fuel ht hf => h t i z fuel ht (Nat.le_trans hd hf)

theorem ExprAt.head {d : Nat} {txt rest : Str} {val : Nat → AExpr} (h : ExprAt d txt rest val) :
    ∃ c, (txt ++ rest).head? = some c ∧ ¬ (NoAtomStart false c ∧ c ≠ '(') := by
  have h1 := h (txt ++ rest).toArray 0 false d (by simp) (Nat.le_refl _)
  cases hh : (txt ++ rest).head? with
  | none =>
    rw [expr_fail_of_head false (t := (txt ++ rest).toArray) (i := 0) (s := txt ++ rest) (by simp)
      (by simp [hh])] at h1
    cases h1
  | some c =>
    refine ⟨c, rfl, fun hn => ?_⟩
    rw [expr_fail_of_head false (t := (txt ++ rest).toArray) (i := 0) (s := txt ++ rest) (by simp)
      (by intro x hx; rw [hh] at hx; cases hx; exact hn)] at h1
    cases h1

theorem ExprAt.head_not_space {d : Nat} {txt rest : Str} {val : Nat → AExpr} (h : ExprAt d txt rest val) :
    ∀ c, (txt ++ rest).head? = some c → isReSpace c = false := by
  obtain ⟨x, hx, hn⟩ := h.head
  intro c hc
  have e : x = c := by rw [hx] at hc; exact Option.some.inj hc
  subst e
  cases hs : isReSpace x with
  | false => rfl
  | true =>
    refine absurd ⟨noAtomStart_of_isReSpace hs, ?_⟩ hn
    rintro rfl; exact absurd hs (by decide)

/-- "`txt` is a spelling of a reference" -/
def ReferenceAt (txt rest : Str) (val : Nat → AExpr) : Prop :=
  ∀ (t : Array Char) (i : Nat) (z : Bool), t.toList.drop i = txt ++ rest →
    reference t ⟨i, z⟩ = some (val i, ⟨i + txt.length, z⟩)

/-- a reference in a text without any `(` is an expression -/
theorem exprAt_reference {txt rest : Str} {val : Nat → AExpr} (hr : ReferenceAt txt rest val)
    (hno : ∀ c ∈ txt ++ rest, c ≠ '(') : ExprAt 1 txt rest val := by
  intro t i z fuel ht hf
  cases fuel with
  | zero => omega
  | succ f => rw [expr_eq_reference_of_text ht hno]; exact hr t i z ht

/-- a reference is an expression when the `string` at its start is not followed by blanks and `(`
    (the `string` is the one `step` tries first; for a reference without amount it is the name) -/
theorem exprAt_reference_of_string {txt rest stxt srest : Str} {val : Nat → AExpr} {sval : Nat → AString}
    (hr : ReferenceAt txt rest val) (hs : StringAt false stxt srest sval) (e : stxt ++ srest = txt ++ rest)
    {bl r : Str} (hsr : srest = bl ++ r) (hbl : ∀ c ∈ bl, isHsp c = true)
    (hrr : ∀ c, r.head? = some c → isHsp c = false ∧ c ≠ '(') : ExprAt 1 txt rest val := by
  intro t i z fuel ht hf
  cases fuel with
  | zero => omega
  | succ f =>
    have hs' : t.toList.drop i = stxt ++ srest := by rw [e]; exact ht
    have h1 := hs t i z hs'
    have hstep := step_fail_of_string_some (e := expr f) h1 (by rw [← hsr]; exact drop_add_of_drop hs') hbl hrr
    obtain ⟨c, hc, hn⟩ := hs.head
    have hp : t[i]? ≠ some '(' := by
      rw [getElem?_of_drop0 hs', hc]
      intro e'; cases e'; exact hn noAtomStart_lparen
    rw [expr_eq_reference_of_step_none hstep hp]
    exact hr t i z ht

/-! ### `step` -/

/-- `sp? "," sp? expr`: one further argument of a step -/
def commaExpr (e : P AExpr) : P AExpr := osp >>= fun _ => lit ',' >>= fun _ => osp >>= fun _ => e

theorem step_eq' (e : P AExpr) : step e = (string false >>= fun name => ohsp >>= fun _ => lit '(' >>= fun _ =>
    osp >>= fun _ => e >>= fun first => many (commaExpr e) >>= fun rest =>
    opt (osp >>= fun _ => lit ',') >>= fun _ => osp >>= fun _ => lit ')' >>= fun _ =>
    pure (.step name (first :: rest))) := rfl

/-- one `, expr` item as written -/
structure ArgItem where
  ws1 : Str
  ws2 : Str
  txt : Str
  val : Nat → AExpr

def ArgItem.print (a : ArgItem) : Str := a.ws1 ++ ',' :: (a.ws2 ++ a.txt)

def printArgItems : List ArgItem → Str
  | [] => []
  | a :: as => a.print ++ printArgItems as

def ArgItemsOk (d : Nat) (rest : Str) : List ArgItem → Prop
  | [] => True
  | a :: as => (∀ c ∈ a.ws1, isReSpace c = true) ∧ (∀ c ∈ a.ws2, isReSpace c = true)
      ∧ ExprAt d a.txt (printArgItems as ++ rest) a.val ∧ ArgItemsOk d rest as

def argItemVals (off : Nat) : List ArgItem → List AExpr
  | [] => []
  | a :: as => a.val (off + a.ws1.length + 1 + a.ws2.length) :: argItemVals (off + a.print.length) as

theorem ArgItem.print_length_pos (a : ArgItem) : 0 < a.print.length := by
  simp only [ArgItem.print, List.length_append, List.length_cons]; omega

theorem commaExpr_run {d f : Nat} (hdf : d ≤ f) {a : ArgItem} {after : Str}
    (h1 : ∀ c ∈ a.ws1, isReSpace c = true) (h2 : ∀ c ∈ a.ws2, isReSpace c = true)
    (he : ExprAt d a.txt after a.val) {t : Array Char} {i : Nat} (z : Bool)
    (h : t.toList.drop i = a.print ++ after) :
    commaExpr (expr f) t ⟨i, z⟩
      = some (a.val (i + a.ws1.length + 1 + a.ws2.length), ⟨i + a.print.length, z⟩) := by
  have h0 : t.toList.drop i = a.ws1 ++ (',' :: (a.ws2 ++ (a.txt ++ after))) := by
    simpa [ArgItem.print, List.append_assoc] using h
  have e1 := osp_run z h0 h1 (by simp; decide)
  have h3 := drop_add_of_drop h0
  have e2 := lit_of_head z h3
  have h4 := drop_succ_of_drop_cons h3
  have e3 := osp_run z h4 h2 he.head_not_space
  have e4 := he t _ z f (drop_add_of_drop h4) hdf
  simp only [commaExpr, bind_apply, e1, e2, e3, e4]
  have e : i + a.ws1.length + 1 + a.ws2.length + a.txt.length = i + a.print.length := by
    simp only [ArgItem.print, List.length_append, List.length_cons]; omega
  rw [e]

theorem commaExpr_chain {d f : Nat} (hdf : d ≤ f) {t : Array Char} (z : Bool) {rest : Str} :
    ∀ (as : List ArgItem) (i : Nat), ArgItemsOk d rest as →
      t.toList.drop i = printArgItems as ++ rest →
      Chain (commaExpr (expr f)) t z i (argItemVals i as) (i + (printArgItems as).length) := by
  intro as
  induction as with
  | nil => intro i _ _; exact Chain.nil i
  | cons a as ih =>
    intro i hok h
    obtain ⟨h1, h2, he, hrest⟩ := hok
    have h' : t.toList.drop i = a.print ++ (printArgItems as ++ rest) := by
      simpa [printArgItems, List.append_assoc] using h
    have hr := commaExpr_run hdf h1 h2 he z h'
    have hp := a.print_length_pos
    have e : i + (printArgItems (a :: as)).length = i + a.print.length + (printArgItems as).length := by
      simp only [printArgItems, List.length_append]; omega
    rw [e]
    exact Chain.cons hr (by omega) (ih _ hrest (drop_add_of_drop h'))

/-- the end of a step: an optional trailing comma (after white space `ws1`), white space, `)` -/
def closeTxt : Option Str → Str → Str
  | none, ws => ws ++ [')']
  | some ws1, ws => ws1 ++ ',' :: (ws ++ [')'])

theorem closeTxt_ne_nil (trail : Option Str) (ws : Str) : closeTxt trail ws ≠ [] := by
  cases trail <;> simp [closeTxt]

theorem step_close {trail : Option Str} {ws rest : Str} (htrail : ∀ ws1, trail = some ws1 → ∀ c ∈ ws1, isReSpace c = true)
    (hws : ∀ c ∈ ws, isReSpace c = true) {t : Array Char} {k : Nat} (z : Bool)
    (h : t.toList.drop k = closeTxt trail ws ++ rest) (f : Nat) :
    commaExpr (expr f) t ⟨k, z⟩ = none ∧
    ∃ o k1 k2, opt (osp >>= fun _ => lit ',') t ⟨k, z⟩ = some (o, ⟨k1, z⟩)
      ∧ osp t ⟨k1, z⟩ = some ((), ⟨k2, z⟩)
      ∧ lit ')' t ⟨k2, z⟩ = some ((), ⟨k + (closeTxt trail ws).length, z⟩) := by
  cases trail with
  | none =>
    have h0 : t.toList.drop k = ws ++ (')' :: rest) := by simpa [closeTxt, List.append_assoc] using h
    have e1 := osp_run z h0 hws (by simp; decide)
    have h1 := drop_add_of_drop h0
    have e2 := lit_fail_of_head (c := ',') z h1 (by simp)
    have e3 := lit_of_head z h1
    have ho : opt (osp >>= fun _ => lit ',') t ⟨k, z⟩ = some (none, ⟨k, z⟩) := by
      apply opt_of_none; simp only [bind_apply, e1, e2]
    refine ⟨by simp only [commaExpr, bind_apply, e1, e2], none, k, k + ws.length, ho, e1, ?_⟩
    have e : k + (closeTxt none ws).length = k + ws.length + 1 := by
      simp only [closeTxt, List.length_append, List.length_cons, List.length_nil]; omega
    rw [e]; exact e3
  | some ws1 =>
    have h0 : t.toList.drop k = ws1 ++ (',' :: (ws ++ (')' :: rest))) := by
      simpa [closeTxt, List.append_assoc] using h
    have e1 := osp_run z h0 (htrail ws1 rfl) (by simp; decide)
    have h1 := drop_add_of_drop h0
    have e2 := lit_of_head z h1
    have h2 := drop_succ_of_drop_cons h1
    have e3 := osp_run z h2 hws (by simp; decide)
    have h3 := drop_add_of_drop h2
    have e4 := expr_fail_of_head z h3 (by
      intro c hc; simp only [List.head?_cons, Option.some.injEq] at hc; subst hc
      exact ⟨noAtomStart_rparen, by decide⟩) f
    have e5 := lit_of_head z h3
    have ho : opt (osp >>= fun _ => lit ',') t ⟨k, z⟩ = some (some (), ⟨k + ws1.length + 1, z⟩) := by
      apply opt_of_some; simp only [bind_apply, e1, e2]
    refine ⟨by simp only [commaExpr, bind_apply, e1, e2, e3, e4], some (), _, _, ho, e3, ?_⟩
    have e : k + (closeTxt (some ws1) ws).length = k + ws1.length + 1 + ws.length + 1 := by
      simp only [closeTxt, List.length_append, List.length_cons, List.length_nil]; omega
    rw [e]; exact e5

/-- the text of a step: name, blanks, `(`, white space, first argument, further arguments, end -/
def stepTxt (ntxt bl ws0 a1txt : Str) (args : List ArgItem) (trail : Option Str) (ws2 : Str) : Str :=
  ntxt ++ (bl ++ '(' :: (ws0 ++ (a1txt ++ (printArgItems args ++ closeTxt trail ws2))))

/-- **steps**: `name blanks "(" sp? e1 (sp? "," sp? ei)* (sp? ",")? sp? ")"` -/
theorem exprAt_step {d : Nat} {ntxt bl ws0 a1txt : Str} {nval : Nat → AString} {a1val : Nat → AExpr}
    {args : List ArgItem} {trail : Option Str} {ws2 rest : Str}
    (hn : StringAt false ntxt (bl ++ '(' :: (ws0 ++ (a1txt ++ (printArgItems args ++ (closeTxt trail ws2 ++ rest))))) nval)
    (hbl : ∀ c ∈ bl, isHsp c = true) (hws0 : ∀ c ∈ ws0, isReSpace c = true)
    (ha1 : ExprAt d a1txt (printArgItems args ++ (closeTxt trail ws2 ++ rest)) a1val)
    (hargs : ArgItemsOk d (closeTxt trail ws2 ++ rest) args)
    (htrail : ∀ ws1, trail = some ws1 → ∀ c ∈ ws1, isReSpace c = true)
    (hws2 : ∀ c ∈ ws2, isReSpace c = true) :
    ExprAt (d + 1) (stepTxt ntxt bl ws0 a1txt args trail ws2) rest
      (fun i => .step (nval i)
        (a1val (i + ntxt.length + bl.length + 1 + ws0.length)
          :: argItemVals (i + ntxt.length + bl.length + 1 + ws0.length + a1txt.length) args)) := by
  intro t i z fuel ht hf
  cases fuel with
  | zero => omega
  | succ f =>
    have hdf : d ≤ f := by omega
    have h0 : t.toList.drop i
        = ntxt ++ (bl ++ '(' :: (ws0 ++ (a1txt ++ (printArgItems args ++ (closeTxt trail ws2 ++ rest))))) := by
      simpa [stepTxt, List.append_assoc] using ht
    have e1 := hn t i z h0
    have h1 := drop_add_of_drop h0
    have e2 := ohsp_run z h1 hbl (by simp [isHsp])
    have h2 := drop_add_of_drop h1
    have e3 := lit_of_head z h2
    have h3 := drop_succ_of_drop_cons h2
    have e4 := osp_run z h3 hws0 ha1.head_not_space
    have h4 := drop_add_of_drop h3
    have e5 := ha1 t _ z f h4 hdf
    have h5 := drop_add_of_drop h4
    have hc := commaExpr_chain hdf z args _ hargs h5
    have h6 := drop_add_of_drop h5
    obtain ⟨e6, o, k1, k2, e7, e8, e9⟩ := step_close htrail hws2 z h6 f
    have hm := many_of_chain hc (Nat.le_trans (Nat.le_add_right _ _) (le_size_of_drop_append h6 (closeTxt_ne_nil _ _))) e6
    have e : i + ntxt.length + bl.length + 1 + ws0.length + a1txt.length + (printArgItems args).length
        + (closeTxt trail ws2).length = i + (stepTxt ntxt bl ws0 a1txt args trail ws2).length := by
      simp only [stepTxt, List.length_append, List.length_cons]; omega
    rw [e] at e9
    have hs : step (expr f) t ⟨i, z⟩ = some (.step (nval i)
        (a1val (i + ntxt.length + bl.length + 1 + ws0.length)
          :: argItemVals (i + ntxt.length + bl.length + 1 + ws0.length + a1txt.length) args),
        ⟨i + (stepTxt ntxt bl ws0 a1txt args trail ws2).length, z⟩) := by
      simp only [step_eq', bind_apply, e1, e2, e3, e4, e5, hm, e7, e8, e9]
      rfl
    simp only [expr_succ, orElse_apply, hs]

/-! ### the shorthand over `expr`, and parentheses -/

/-- "`txt` is a spelling of a left-to-right shorthand (over `expr`, from fuel `d` on)" -/
def LtrAt (d : Nat) (txt rest : Str) (val : Nat → AExpr) : Prop :=
  ∀ (t : Array Char) (i : Nat) (z : Bool) (fuel : Nat), t.toList.drop i = txt ++ rest → d ≤ fuel →
    ltrShorthand (expr fuel) t ⟨i, z⟩ = some (val i, ⟨i + txt.length, z⟩)

theorem ltrAt_of {d : Nat} {etxt : Str} {eval : Nat → AExpr} {as : List CommaItem} {rest : Str}
    (he : ExprAt d etxt (printCommaItems as ++ rest) eval) (hok : CommaItemsOk rest as) (hf : NoComma rest) :
    LtrAt d (etxt ++ printCommaItems as) rest
      (fun i => (commaItemVals (i + etxt.length) as).foldl (fun e action => .step action [e]) (eval i)) := by
  intro t i z fuel ht hfuel
  have h0 : t.toList.drop i = etxt ++ (printCommaItems as ++ rest) := by simpa [List.append_assoc] using ht
  have h1 := he t i z fuel h0 hfuel
  have := ltrShorthand_run h1 (drop_add_of_drop h0) hok hf
  rw [this]
  have e : i + etxt.length + (printCommaItems as).length = i + (etxt ++ printCommaItems as).length := by
    simp only [List.length_append]; omega
  rw [e]

/-- an expression alone is a shorthand -/
theorem ltrAt_of_expr {d : Nat} {etxt rest : Str} {eval : Nat → AExpr} (he : ExprAt d etxt rest eval)
    (hf : NoComma rest) : LtrAt d etxt rest eval := by
  have := ltrAt_of (as := []) (by simpa [printCommaItems] using he) trivial hf
  simpa [printCommaItems, commaItemVals] using this

theorem LtrAt.head {d : Nat} {txt rest : Str} {val : Nat → AExpr} (h : LtrAt d txt rest val) :
    ∃ c, (txt ++ rest).head? = some c ∧ ¬ (NoAtomStart false c ∧ c ≠ '(') := by
  have h1 := h (txt ++ rest).toArray 0 false d (by simp) (Nat.le_refl _)
  cases hh : (txt ++ rest).head? with
  | none =>
    simp only [ltrShorthand_eq, bind_apply, expr_fail_of_head false (t := (txt ++ rest).toArray) (i := 0)
      (s := txt ++ rest) (by simp) (by simp [hh]) d] at h1
    cases h1
  | some c =>
    refine ⟨c, rfl, fun hn => ?_⟩
    simp only [ltrShorthand_eq, bind_apply, expr_fail_of_head false (t := (txt ++ rest).toArray) (i := 0)
      (s := txt ++ rest) (by simp) (by intro x hx; rw [hh] at hx; cases hx; exact hn) d] at h1
    cases h1

theorem not_exprStart_of_isReSpace {c : Char} (hs : isReSpace c = true) : NoAtomStart false c ∧ c ≠ '(' :=
  ⟨noAtomStart_of_isReSpace hs, by rintro rfl; exact absurd hs (by decide)⟩

theorem LtrAt.head_not_space {d : Nat} {txt rest : Str} {val : Nat → AExpr} (h : LtrAt d txt rest val) :
    ∀ c, (txt ++ rest).head? = some c → isReSpace c = false := by
  obtain ⟨x, hx, hn⟩ := h.head
  intro c hc
  have e : x = c := by rw [hx] at hc; exact Option.some.inj hc
  subst e
  cases hs : isReSpace x with
  | false => rfl
  | true => exact absurd (not_exprStart_of_isReSpace hs) hn

/-- **parentheses**: `"(" sp? ltr_shorthand sp? ")"` -/
theorem exprAt_paren {d : Nat} {ws0 ltxt ws1 rest : Str} {lval : Nat → AExpr}
    (hl : LtrAt d ltxt (ws1 ++ ')' :: rest) lval) (hws0 : ∀ c ∈ ws0, isReSpace c = true)
    (hws1 : ∀ c ∈ ws1, isReSpace c = true) :
    ExprAt (d + 1) ('(' :: (ws0 ++ (ltxt ++ (ws1 ++ [')'])))) rest (fun i => lval (i + 1 + ws0.length)) := by
  intro t i z fuel ht hf
  cases fuel with
  | zero => omega
  | succ f =>
    have h0 : t.toList.drop i = '(' :: (ws0 ++ (ltxt ++ (ws1 ++ ')' :: rest))) := by
      simpa [List.append_assoc] using ht
    have hhead : ∀ c, ('(' :: (ws0 ++ (ltxt ++ (ws1 ++ ')' :: rest)))).head? = some c → NoAtomStart false c := by
      intro c hc; simp only [List.head?_cons, Option.some.injEq] at hc; subst hc; exact noAtomStart_lparen
    have e1 : step (expr f) t ⟨i, z⟩ = none := step_fail_of_string_none (string_fail_of_head z h0 hhead)
    have e2 := reference_fail_of_head z h0 hhead
    have e3 := lit_of_head z h0
    have h1 := drop_succ_of_drop_cons h0
    have e4 := osp_run z h1 hws0 hl.head_not_space
    have h2 := drop_add_of_drop h1
    have e5 := hl t _ z f h2 (by omega)
    have h3 := drop_add_of_drop h2
    have e6 := osp_run z h3 hws1 (by simp; decide)
    have e7 := lit_of_head z (drop_add_of_drop h3)
    simp only [expr_succ, orElse_apply, bind_apply, e1, e2, e3, e4, e5, e6, e7]
    have e : i + 1 + ws0.length + ltxt.length + ws1.length + 1
        = i + ('(' :: (ws0 ++ (ltxt ++ (ws1 ++ [')'])))).length := by
      simp only [List.length_append, List.length_cons, List.length_nil]; omega
    rw [e]
    rfl

/-! ## 5. `stmt`, `recipe`, `parse` -/

/-- the optional target of a statement: `output_list hsp? r":?=" hsp?` -/
def targetP : P (List AString × Bool) := outputList >>= fun outputs => ohsp >>= fun _ =>
  assign >>= fun named => ohsp >>= fun _ => pure (outputs, named)

theorem stmt_eq : stmt = (opt targetP >>= fun target => remaining >>= fun n =>
    ltrShorthand (expr (n + 1)) >>= fun e => eol >>= fun _ =>
    pure { expr := e, outputs := target.map (·.1), named := (target.map (·.2)).getD false }) := rfl

/-- the statement after its (present or absent) target -/
theorem stmt_core {t : Array Char} {i j : Nat} {z : Bool} {target : Option (List AString × Bool)}
    (ht : opt targetP t ⟨i, z⟩ = some (target, ⟨j, z⟩)) {d : Nat} {ltxt eoltxt rest : Str}
    {lval : Nat → AExpr} (hl : LtrAt d ltxt (eoltxt ++ rest) lval) (he : EolAt eoltxt rest)
    (hd : d ≤ ltxt.length + 1) (h : t.toList.drop j = ltxt ++ (eoltxt ++ rest)) :
    stmt t ⟨i, z⟩ = some ({ expr := lval j, outputs := target.map (·.1), named := (target.map (·.2)).getD false },
      ⟨j + (ltxt ++ eoltxt).length, z⟩) := by
  have hsz := size_of_drop h
  simp only [List.length_append] at hsz
  have e1 := hl t j z (t.size - j + 1) h (by omega)
  have e2 := he t _ z (drop_add_of_drop h)
  simp only [stmt_eq, bind_apply, ht, remaining_apply, e1, e2]
  have e : j + ltxt.length + eoltxt.length = j + (ltxt ++ eoltxt).length := by
    simp only [List.length_append]; omega
  rw [e]
  rfl

theorem mono_commaString : Mono commaString :=
  mono_bind (mono_skipMany _) fun _ => mono_bind (adv_lit _).mono fun _ =>
    mono_bind (mono_skipMany _) fun _ => mono_string false

theorem mono_outputList : Mono outputList := by
  rw [outputList_eq]
  exact mono_bind (mono_string false) fun _ => mono_bind (mono_many mono_commaString) fun _ => mono_pure _

/-- wherever a target is recognised there is a `=` at or after its start -/
theorem targetP_some_eq {t : Array Char} {s : PState} {r} (h : targetP t s = some r) :
    ∃ j, s.pos ≤ j ∧ t[j]? = some '=' := by
  obtain ⟨v, s'⟩ := r
  obtain ⟨outs, s1, h1, h⟩ := bind_some h
  obtain ⟨_, s2, h2, h⟩ := bind_some h
  obtain ⟨_, s3, h3, _⟩ := bind_some h
  have := mono_outputList _ _ _ _ h1
  have := mono_skipMany isHsp _ _ _ _ h2
  obtain ⟨j, hj, hc⟩ := assign_some h3
  exact ⟨j, by omega, hc⟩

/-- "no target is recognised at the start of `s`" -/
def NoTargetAt (s : Str) : Prop :=
  ∀ (t : Array Char) (i : Nat) (z : Bool), t.toList.drop i = s → targetP t ⟨i, z⟩ = none

/-- … because the text has no `=` at all -/
theorem noTargetAt_of_no_eq {s : Str} (h : ∀ c ∈ s, c ≠ '=') : NoTargetAt s := by
  intro t i z hd
  cases ht : targetP t ⟨i, z⟩ with
  | none => rfl
  | some r =>
    obtain ⟨j, hj, hc⟩ := targetP_some_eq ht
    exact absurd rfl (h _ (mem_of_getElem?_ge hd hj hc))

/-- … because no `string` starts there (for instance at a `(`) -/
theorem noTargetAt_of_head {s : Str} (h : ∀ c, s.head? = some c → NoAtomStart false c) : NoTargetAt s := by
  intro t i z hd
  simp only [targetP, outputList_eq, bind_apply, string_fail_of_head z hd h]

/-- what must follow an output list for it not to be a target: after optional blanks neither `=`
    nor `:=` (nor a comma, which would continue the list) -/
def NoAssign (rest : Str) : Prop :=
  ∃ bl r, rest = bl ++ r ∧ (∀ c ∈ bl, isHsp c = true)
    ∧ (∀ c, r.head? = some c → isHsp c = false ∧ c ≠ ',' ∧ c ≠ '=') ∧ ∀ r', r = ':' :: r' → r'.head? ≠ some '='

theorem NoAssign.noComma {rest : Str} (h : NoAssign rest) : NoComma rest := by
  obtain ⟨bl, r, e, hbl, hr, _⟩ := h
  exact ⟨bl, r, e, hbl, fun c hc => ⟨(hr c hc).1, (hr c hc).2.1⟩⟩

/-- … because the text starts with a list of strings that is not followed by an assignment sign
    (for a statement `name, action, …` this is the statement itself) -/
theorem noTargetAt_of_outputs {otxt : Str} {oval : Nat → AString} {as : List CommaItem} {rest : Str}
    (ho : StringAt false otxt (printCommaItems as ++ rest) oval) (hok : CommaItemsOk rest as)
    (hf : NoAssign rest) : NoTargetAt (otxt ++ printCommaItems as ++ rest) := by
  intro t i z hd
  have e1 := outputList_run ho hok hf.noComma z hd
  obtain ⟨bl, r, rfl, hbl, hr, hr2⟩ := hf
  have h1 : t.toList.drop (i + (otxt ++ printCommaItems as).length) = bl ++ r := drop_add_of_drop hd
  have e2 := ohsp_run z h1 hbl (fun c hc => (hr c hc).1)
  have e3 := assign_fail z (drop_add_of_drop h1) (fun hc => (hr _ hc).2.2 rfl) hr2
  simp only [targetP, bind_apply, e1, e2, e3]

/-- "`txt` is a spelling of a statement" -/
def StmtAt (txt rest : Str) (val : Nat → AStmt) : Prop :=
  ∀ (t : Array Char) (i : Nat) (z : Bool), t.toList.drop i = txt ++ rest →
    stmt t ⟨i, z⟩ = some (val i, ⟨i + txt.length, z⟩)

/-- **a statement without outputs** -/
theorem stmtAt_plain {d : Nat} {ltxt eoltxt rest : Str} {lval : Nat → AExpr}
    (hl : LtrAt d ltxt (eoltxt ++ rest) lval) (he : EolAt eoltxt rest) (hd : d ≤ ltxt.length + 1)
    (hno : NoTargetAt (ltxt ++ (eoltxt ++ rest))) :
    StmtAt (ltxt ++ eoltxt) rest (fun i => { expr := lval i, outputs := none, named := false }) := by
  intro t i z ht
  have h0 : t.toList.drop i = ltxt ++ (eoltxt ++ rest) := by simpa [List.append_assoc] using ht
  have ho := opt_of_none (hno t i z h0)
  exact stmt_core ho hl he hd h0

/-- the assignment sign -/
def assignTxt : Bool → Str
  | true => [':', '=']
  | false => ['=']

theorem assign_run {named : Bool} {t : Array Char} {i : Nat} {rest : Str} (z : Bool)
    (h : t.toList.drop i = assignTxt named ++ rest) :
    assign t ⟨i, z⟩ = some (named, ⟨i + (assignTxt named).length, z⟩) := by
  cases named
  · exact assign_plain z (by simpa [assignTxt] using h)
  · exact assign_named z (by simpa [assignTxt] using h)

/-- the text of a target -/
def targetTxt (otxt : Str) (outs : List CommaItem) (b1 : Str) (named : Bool) (b2 : Str) : Str :=
  otxt ++ (printCommaItems outs ++ (b1 ++ (assignTxt named ++ b2)))

theorem targetP_run {otxt : Str} {oval : Nat → AString} {outs : List CommaItem} {b1 b2 after : Str}
    {named : Bool}
    (ho : StringAt false otxt (printCommaItems outs ++ (b1 ++ (assignTxt named ++ (b2 ++ after)))) oval)
    (hok : CommaItemsOk (b1 ++ (assignTxt named ++ (b2 ++ after))) outs)
    (hb1 : ∀ c ∈ b1, isHsp c = true) (hb2 : ∀ c ∈ b2, isHsp c = true)
    (hafter : ∀ c, after.head? = some c → isHsp c = false)
    {t : Array Char} {i : Nat} (z : Bool) (h : t.toList.drop i = targetTxt otxt outs b1 named b2 ++ after) :
    targetP t ⟨i, z⟩ = some ((oval i :: commaItemVals (i + otxt.length) outs, named),
      ⟨i + (targetTxt otxt outs b1 named b2).length, z⟩) := by
  have h0 : t.toList.drop i = otxt ++ printCommaItems outs ++ (b1 ++ (assignTxt named ++ (b2 ++ after))) := by
    simpa [targetTxt, List.append_assoc] using h
  have hsign : ∀ c, (assignTxt named ++ (b2 ++ after)).head? = some c → isHsp c = false ∧ c ≠ ',' := by
    intro c hc; cases named <;> (simp [assignTxt] at hc; subst hc; exact ⟨by decide, by decide⟩)
  have e1 := outputList_run ho hok ⟨b1, _, rfl, hb1, hsign⟩ z h0
  have h1 := drop_add_of_drop h0
  have e2 := ohsp_run z h1 hb1 (fun c hc => (hsign c hc).1)
  have h2 := drop_add_of_drop h1
  have e3 := assign_run z h2
  have h3 := drop_add_of_drop h2
  have e4 := ohsp_run z h3 hb2 hafter
  simp only [targetP, bind_apply, e1, e2, e3, e4]
  have e : i + (otxt ++ printCommaItems outs).length + b1.length + (assignTxt named).length + b2.length
      = i + (targetTxt otxt outs b1 named b2).length := by
    simp only [targetTxt, List.length_append]; omega
  rw [e]
  rfl

/-- **a statement with outputs**: `out (, out)* blanks (:= | =) blanks shorthand eol` -/
theorem stmtAt_target {d : Nat} {otxt : Str} {oval : Nat → AString} {outs : List CommaItem} {b1 b2 : Str}
    {named : Bool} {ltxt eoltxt rest : Str} {lval : Nat → AExpr}
    (ho : StringAt false otxt
      (printCommaItems outs ++ (b1 ++ (assignTxt named ++ (b2 ++ (ltxt ++ (eoltxt ++ rest)))))) oval)
    (hok : CommaItemsOk (b1 ++ (assignTxt named ++ (b2 ++ (ltxt ++ (eoltxt ++ rest))))) outs)
    (hb1 : ∀ c ∈ b1, isHsp c = true) (hb2 : ∀ c ∈ b2, isHsp c = true)
    (hl : LtrAt d ltxt (eoltxt ++ rest) lval) (he : EolAt eoltxt rest) (hd : d ≤ ltxt.length + 1) :
    StmtAt (targetTxt otxt outs b1 named b2 ++ (ltxt ++ eoltxt)) rest
      (fun i => { expr := lval (i + (targetTxt otxt outs b1 named b2).length),
                  outputs := some (oval i :: commaItemVals (i + otxt.length) outs), named := named }) := by
  intro t i z ht
  have h0 : t.toList.drop i = targetTxt otxt outs b1 named b2 ++ (ltxt ++ (eoltxt ++ rest)) := by
    simpa [List.append_assoc] using ht
  have hnh : ∀ c, (ltxt ++ (eoltxt ++ rest)).head? = some c → isHsp c = false := by
    intro c hc
    cases hh : isHsp c with
    | false => rfl
    | true => exact absurd (hl.head_not_space c hc) (by rw [isReSpace_of_isHsp hh]; simp)
  have e1 := opt_of_some (targetP_run ho hok hb1 hb2 hnh z h0)
  have := stmt_core e1 hl he hd (drop_add_of_drop h0)
  rw [this]
  have e : i + (targetTxt otxt outs b1 named b2).length + (ltxt ++ eoltxt).length
      = i + (targetTxt otxt outs b1 named b2 ++ (ltxt ++ eoltxt)).length := by
    simp only [List.length_append]; omega
  rw [e]
  rfl

/-- no statement where no expression can start (at the end of the text, at white space, …) -/
theorem stmt_fail_of_head {t : Array Char} {i : Nat} {s : Str} (z : Bool) (h : t.toList.drop i = s)
    (hc : ∀ c, s.head? = some c → NoAtomStart false c ∧ c ≠ '(') : stmt t ⟨i, z⟩ = none := by
  have e1 := opt_of_none (noTargetAt_of_head (fun c hs => (hc c hs).1) t i z h)
  have e2 := expr_fail_of_head z h hc (t.size - i + 1)
  simp only [stmt_eq, bind_apply, e1, remaining_apply, ltrShorthand_eq, e2]

theorem StmtAt.head_not_space {txt rest : Str} {val : Nat → AStmt} (h : StmtAt txt rest val) :
    ∀ c, (txt ++ rest).head? = some c → isReSpace c = false := by
  have h1 := h (txt ++ rest).toArray 0 false (by simp)
  intro c hc
  cases hs : isReSpace c with
  | false => rfl
  | true =>
    rw [stmt_fail_of_head false (t := (txt ++ rest).toArray) (i := 0) (s := txt ++ rest) (by simp)
      (by intro x hx; rw [hc] at hx; cases hx; exact not_exprStart_of_isReSpace hs)] at h1
    cases h1

/-- one statement as written, with its value -/
structure StmtItem where
  txt : Str
  val : Nat → AStmt

def printStmts : List StmtItem → Str
  | [] => []
  | a :: as => a.txt ++ printStmts as

/-- every text is a non-empty statement in front of the statements that follow (and the last one
    in front of the end of the text) -/
def StmtsOk : List StmtItem → Prop
  | [] => True
  | a :: as => a.txt ≠ [] ∧ StmtAt a.txt (printStmts as) a.val ∧ StmtsOk as

def stmtVals (off : Nat) : List StmtItem → List AStmt
  | [] => []
  | a :: as => a.val off :: stmtVals (off + a.txt.length) as

theorem stmt_chain {t : Array Char} (z : Bool) : ∀ (as : List StmtItem) (i : Nat), StmtsOk as →
    t.toList.drop i = printStmts as →
    Chain stmt t z i (stmtVals i as) (i + (printStmts as).length) := by
  intro as
  induction as with
  | nil => intro i _ _; exact Chain.nil i
  | cons a as ih =>
    intro i hok h
    obtain ⟨hne, hs, hrest⟩ := hok
    have h' : t.toList.drop i = a.txt ++ printStmts as := h
    have h1 := hs t i z h'
    have hp : 0 < a.txt.length := List.length_pos_iff.mpr hne
    have e : i + (printStmts (a :: as)).length = i + a.txt.length + (printStmts as).length := by
      simp only [printStmts, List.length_append]; omega
    rw [e]
    exact Chain.cons h1 (by omega) (ih _ hrest (drop_add_of_drop h'))

theorem recipe_eq : recipe = (osp >>= fun _ => stmt >>= fun first => many stmt >>= fun rest =>
    eof >>= fun _ => pure (first :: rest)) := rfl

/-- **recipes**: white space, then one or more statements up to the end of the text -/
theorem recipe_run {ws0 : Str} {a : StmtItem} {as : List StmtItem} (hws0 : ∀ c ∈ ws0, isReSpace c = true)
    (hok : StmtsOk (a :: as)) {t : Array Char} {i : Nat} (z : Bool)
    (h : t.toList.drop i = ws0 ++ printStmts (a :: as)) :
    recipe t ⟨i, z⟩ = some (stmtVals (i + ws0.length) (a :: as), ⟨i + (ws0 ++ printStmts (a :: as)).length, z⟩) := by
  obtain ⟨hne, hs, hrest⟩ := hok
  have h0 : t.toList.drop i = ws0 ++ (a.txt ++ printStmts as) := h
  have e1 := osp_run z h0 hws0 hs.head_not_space
  have h1 := drop_add_of_drop h0
  have e2 := hs t _ z h1
  have h2 := drop_add_of_drop h1
  have hc := stmt_chain z as _ hrest h2
  have h3 : t.toList.drop (i + ws0.length + a.txt.length + (printStmts as).length) = [] := by
    have := drop_add_of_drop (xs := printStmts as) (rest := []) (by simpa using h2)
    exact this
  have hsz := size_of_drop h3
  simp only [List.length_nil] at hsz
  have e3 := many_of_chain' hc (by
    rcases Nat.lt_or_ge (i + ws0.length + a.txt.length + (printStmts as).length) t.size with hlt | hge
    · right; omega
    · cases as with
      | nil => left; simp [printStmts]
      | cons b bs =>
        right
        have := le_size_of_drop_append (xs := printStmts (b :: bs)) (rest := []) (by simpa using h2) (by
          have hb := hrest.1
          intro e
          have := congrArg List.length e
          simp only [printStmts, List.length_append, List.length_nil] at this
          have : 0 < b.txt.length := List.length_pos_iff.mpr hb
          omega)
        exact this)
    (stmt_fail_of_head z h3 (by simp))
  have e4 := eof_of_nil z h3
  simp only [recipe_eq, bind_apply, e1, e2, e3, e4]
  have e : i + ws0.length + a.txt.length + (printStmts as).length
      = i + (ws0 ++ printStmts (a :: as)).length := by
    simp only [printStmts, List.length_append]; omega
  rw [e]
  rfl

/-- **`parse` recovers every recipe**: leading white space and a non-empty list of statements -/
theorem parse_ok {ws0 : Str} {a : StmtItem} {as : List StmtItem} (hws0 : ∀ c ∈ ws0, isReSpace c = true)
    (hok : StmtsOk (a :: as)) :
    parse (ws0 ++ printStmts (a :: as)) = .ok (stmtVals ws0.length (a :: as)) := by
  have h : (ws0 ++ printStmts (a :: as)).toArray.toList.drop 0 = ws0 ++ printStmts (a :: as) := by
    rw [List.drop_zero]
  have := recipe_run hws0 hok false h
  rw [Nat.zero_add] at this
  unfold parse
  rw [this]

/-! ## line-local bounds

    Without backslashes no rule below `string` / `outputList` / `number` reads across the end of
    the line: the only way an atom can swallow a newline character is the escape `\` + any character. -/

/-- `B` is a barrier for the parsers started at offsets in `[lo, B]`: at `B` stands a newline
    character or the text has ended, and no backslash stands at the offsets in `[lo, B)` -/
structure Barrier (t : Array Char) (lo B : Nat) : Prop where
  stop : ∀ c, t[B]? = some c → isNewline c = true
  noEsc : ∀ j, lo ≤ j → j < B → t[j]? ≠ some '\\'

/-- started at an offset in `[lo, B]`, `p` ends at an offset in `[start, B]` -/
def Local {α} (t : Array Char) (lo B : Nat) (p : P α) : Prop :=
  ∀ s a s', lo ≤ s.pos → s.pos ≤ B → p t s = some (a, s') → s.pos ≤ s'.pos ∧ s'.pos ≤ B

section LocalLemmas
variable {t : Array Char} {lo B : Nat}

theorem local_pure {α} (a : α) : Local t lo B (pure a : P α) := by
  intro s b s' _ h2 e
  simp only [pure_apply, Option.some.injEq, Prod.mk.injEq] at e
  rw [← e.2]; exact ⟨Nat.le_refl _, h2⟩

theorem local_fail {α} : Local t lo B (fail : P α) := by intro s a s' _ _ e; cases e

theorem local_getPos : Local t lo B getPos := by
  intro s b s' _ h2 e
  simp only [getPos_apply, Option.some.injEq, Prod.mk.injEq] at e
  rw [← e.2]; exact ⟨Nat.le_refl _, h2⟩

theorem local_remaining : Local t lo B remaining := by
  intro s b s' _ h2 e
  simp only [remaining_apply, Option.some.injEq, Prod.mk.injEq] at e
  rw [← e.2]; exact ⟨Nat.le_refl _, h2⟩

theorem local_bind {α β} {m : P α} {f : α → P β} (hm : Local t lo B m) (hf : ∀ a, Local t lo B (f a)) :
    Local t lo B (m >>= f) := by
  intro s b s' h1 h2 e
  obtain ⟨a, s1, e1, e2⟩ := bind_some e
  have ⟨g1, g2⟩ := hm _ _ _ h1 h2 e1
  have ⟨g3, g4⟩ := hf a _ _ _ (by omega) g2 e2
  exact ⟨by omega, g4⟩

theorem local_orElse {α} {p q : P α} (hp : Local t lo B p) (hq : Local t lo B q) : Local t lo B (p <|> q) := by
  intro s a s' h1 h2 e
  rw [orElse_apply] at e
  cases h : p t s with
  | none => rw [h] at e; exact hq _ _ _ h1 h2 e
  | some r => rw [h] at e; simp only [Option.some.injEq] at e; subst e; exact hp _ _ _ h1 h2 h

theorem local_map {α β} {f : α → β} {p : P α} (hp : Local t lo B p) : Local t lo B (f <$> p) := by
  intro s b s' h1 h2 e
  rw [map_apply] at e
  cases h : p t s with
  | none => rw [h] at e; cases e
  | some r =>
    obtain ⟨a, s1⟩ := r
    rw [h] at e; simp only [Option.some.injEq, Prod.mk.injEq] at e
    rw [← e.2]; exact hp _ _ _ h1 h2 h

theorem local_opt {α} {p : P α} (hp : Local t lo B p) : Local t lo B (opt p) :=
  local_orElse (local_map hp) (local_pure none)

theorem local_sat (hb : Barrier t lo B) {p : Char → Bool} (hp : ∀ c, isNewline c = true → p c = false) :
    Local t lo B (sat p) := by
  intro s a s' _ h2 e
  obtain ⟨c, hc, hpc, e'⟩ := sat_some e
  simp only [Prod.mk.injEq] at e'
  rw [e'.2]
  refine ⟨Nat.le_succ _, ?_⟩
  rcases Nat.lt_or_ge s.pos B with h | h
  · exact h
  · have : s.pos = B := by omega
    rw [this] at hc
    rw [hp c (hb.stop c hc)] at hpc; cases hpc

theorem local_lit (hb : Barrier t lo B) {c : Char} (hc : isNewline c = false) : Local t lo B (lit c) :=
  local_bind (local_sat hb (by
    intro d hd
    cases h : d == c with
    | false => rfl
    | true => simp only [beq_iff_eq] at h; subst h; rw [hc] at hd; cases hd)) fun _ => local_pure _

theorem spanEnd_go_le (hb : Barrier t lo B) {p : Char → Bool} (hp : ∀ c, isNewline c = true → p c = false) :
    ∀ fuel j, j ≤ B → spanEnd.go p t fuel j ≤ B := by
  intro fuel
  induction fuel with
  | zero => intro j hj; exact hj
  | succ f ih =>
    intro j hj
    simp only [spanEnd.go]
    split
    · next c hc =>
      split
      · next hpc =>
        apply ih
        rcases Nat.lt_or_ge j B with h | h
        · exact h
        · have : j = B := by omega
          rw [this] at hc
          rw [hp c (hb.stop c hc)] at hpc; cases hpc
      · exact hj
    · exact hj

theorem local_skipMany (hb : Barrier t lo B) {p : Char → Bool} (hp : ∀ c, isNewline c = true → p c = false) :
    Local t lo B (skipMany p) := by
  intro s a s' _ h2 e
  simp only [skipMany, Option.some.injEq, Prod.mk.injEq] at e
  rw [← e.2]
  exact ⟨spanEnd_go_ge p t _ _, spanEnd_go_le hb hp _ _ h2⟩

theorem local_skipMany1 (hb : Barrier t lo B) {p : Char → Bool} (hp : ∀ c, isNewline c = true → p c = false) :
    Local t lo B (skipMany1 p) :=
  local_bind (local_sat hb hp) fun _ => local_skipMany hb hp

theorem local_withText {α} {p : P α} (hp : Local t lo B p) : Local t lo B (withText p) := by
  intro s r s' h1 h2 e; obtain ⟨a, h⟩ := withText_some e; exact hp _ _ _ h1 h2 h

theorem local_textOf {p : P Unit} (hp : Local t lo B p) : Local t lo B (textOf p) :=
  local_bind (local_withText hp) fun _ => local_pure _

theorem local_manyF {α} {p : P α} (hp : Local t lo B p) : ∀ fuel, Local t lo B (manyF p fuel)
  | 0 => local_pure _
  | f + 1 => local_orElse (local_bind hp fun _ => local_bind (local_manyF hp f) fun _ => local_pure _) (local_pure _)

theorem local_many {α} {p : P α} (hp : Local t lo B p) : Local t lo B (many p) :=
  local_bind local_remaining fun n => local_manyF hp n

theorem newline_not_hsp : ∀ c, isNewline c = true → isHsp c = false := fun _ h => isHsp_of_isNewline h

theorem newline_not_digit : ∀ c, isNewline c = true → isDigit c = false := by
  intro c h
  simp only [isNewline, Bool.or_eq_true, beq_iff_eq] at h
  rcases h with rfl | rfl <;> decide

theorem local_digits (hb : Barrier t lo B) : Local t lo B digits :=
  local_textOf (local_skipMany1 hb newline_not_digit)

theorem local_decimal (hb : Barrier t lo B) : Local t lo B decimal := by
  unfold decimal
  refine local_bind local_getPos fun off => local_bind (local_digits hb) fun whole => ?_
  refine local_bind (local_opt ?_) fun frac => ?_
  · exact local_bind (local_lit hb (by decide)) fun _ => local_textOf (local_skipMany hb newline_not_digit)
  · cases frac <;> exact local_pure _

theorem local_fraction (hb : Barrier t lo B) : Local t lo B fraction := by
  unfold fraction
  refine local_bind local_getPos fun start => ?_
  refine local_bind (local_opt ?_) fun integer => ?_
  · exact local_bind (local_digits hb) fun _ => local_bind (local_skipMany1 hb newline_not_hsp) fun _ => local_pure _
  refine local_bind local_getPos fun numerStart => local_bind (local_digits hb) fun numer => ?_
  refine local_bind (local_skipMany hb newline_not_hsp) fun _ => local_bind (local_lit hb (by decide)) fun _ => ?_
  refine local_bind (local_skipMany hb newline_not_hsp) fun _ => local_bind (local_digits hb) fun denom => ?_
  simp only
  split
  · exact local_fail
  · exact local_pure _

theorem local_number (hb : Barrier t lo B) : Local t lo B number :=
  local_orElse (local_fraction hb) (local_decimal hb)

/-- no escape inside the barrier -/
theorem local_escaped (hb : Barrier t lo B) : Local t lo B escaped := by
  intro s a s' h1 h2 e
  obtain ⟨_, s1, e1, _⟩ := bind_some e
  have hc := (lit_some e1).1
  rcases Nat.lt_or_ge s.pos B with h | h
  · exact absurd hc (hb.noEsc _ h1 h)
  · have : s.pos = B := by omega
    rw [this] at hc
    exact absurd (hb.stop _ hc) (by decide)

theorem trimBack_le (p : Char → Bool) (t : Array Char) (lo : Nat) : ∀ k, lo ≤ k → trimBack p t lo k ≤ k := by
  intro k
  induction k with
  | zero => intro h; simp only [trimBack]; omega
  | succ k ih =>
    intro h
    unfold trimBack
    split
    · omega
    · have := ih (by omega)
      split
      · split
        · omega
        · omega
      · omega

theorem newline_not_inner : ∀ c, isNewline c = true → isNakedInner c = false := by
  intro c h; simp [isNakedInner, h]

theorem newline_not_edge : ∀ c, isNewline c = true → isNakedEdge c = false :=
  fun _ h => isNakedEdge_of_isReSpace (isReSpace_of_isNewline h)

theorem local_nakedTail (hb : Barrier t lo B) : Local t lo B nakedTail := by
  intro s a s' _ h2 e
  simp only [nakedTail, Option.some.injEq, Prod.mk.injEq] at e
  rw [← e.2]
  have g1 : s.pos ≤ spanEnd isNakedInner t s.pos := spanEnd_go_ge _ _ _ _
  have g2 : spanEnd isNakedInner t s.pos ≤ B := spanEnd_go_le hb newline_not_inner _ _ h2
  have g3 := trimBack_le isNakedEdge t s.pos _ g1
  exact ⟨trimBack_ge _ _ _ _, by simp only; omega⟩

theorem local_nakedString (hb : Barrier t lo B) : Local t lo B nakedString := by
  rw [nakedString_eq]
  refine local_bind local_getPos fun off => local_bind (local_withText ?_) fun r => ?_
  · exact local_bind (local_sat hb newline_not_edge) fun _ => local_nakedTail hb
  · obtain ⟨_, text⟩ := r; exact local_pure _

theorem local_quotedString (hb : Barrier t lo B) {q : Char} (hq : isNewline q = false) :
    Local t lo B (quotedString q) := by
  unfold quotedString
  refine local_bind local_getPos fun off => local_bind (local_lit hb hq) fun _ => ?_
  refine local_bind (local_many (local_orElse (local_escaped hb) (local_sat hb ?_))) fun body => ?_
  · intro c hc; simp [hc]
  · exact local_bind (local_lit hb hq) fun _ => local_pure _

theorem local_bracketedItem (hb : Barrier t lo B) : Local t lo B bracketedItem := by
  unfold bracketedItem
  refine local_orElse ?_ (local_orElse ?_ ?_)
  · exact local_bind (local_number hb) fun r => by obtain ⟨off, n⟩ := r; exact local_pure _
  · exact local_bind local_getPos fun off => local_bind (local_escaped hb) fun _ => local_pure _
  · exact local_bind local_getPos fun off => local_bind (local_sat hb (by intro c hc; simp [hc])) fun _ => local_pure _

theorem local_bracketedString (hb : Barrier t lo B) : Local t lo B bracketedString := by
  unfold bracketedString
  refine local_bind local_getPos fun off => local_bind (local_lit hb (by decide)) fun _ => ?_
  refine local_bind (local_many (local_bracketedItem hb)) fun body => ?_
  exact local_bind (local_lit hb (by decide)) fun _ => local_pure _

theorem local_atom (hb : Barrier t lo B) (static : Bool) : Local t lo B (atom static) := by
  unfold atom
  refine local_orElse (local_nakedString hb) (local_orElse (local_quotedString hb (by decide))
    (local_orElse (local_quotedString hb (by decide)) ?_))
  cases static
  · exact local_bracketedString hb
  · exact local_fail

theorem local_stringF (hb : Barrier t lo B) (static : Bool) : ∀ fuel, Local t lo B (stringF static fuel)
  | 0 => local_fail
  | f + 1 => by
    rw [stringF_succ]
    refine local_bind (local_atom hb static) fun first => local_bind (local_opt ?_) fun _ => local_pure _
    exact local_bind local_getPos fun _ => local_bind (local_textOf (local_skipMany hb newline_not_hsp)) fun _ =>
      local_bind (local_stringF hb static f) fun _ => local_pure _

theorem local_string (hb : Barrier t lo B) (static : Bool) : Local t lo B (string static) :=
  local_bind local_remaining fun _ => local_stringF hb static _

theorem local_commaString (hb : Barrier t lo B) : Local t lo B commaString :=
  local_bind (local_skipMany hb newline_not_hsp) fun _ => local_bind (local_lit hb (by decide)) fun _ =>
    local_bind (local_skipMany hb newline_not_hsp) fun _ => local_string hb false

theorem local_outputList (hb : Barrier t lo B) : Local t lo B outputList := by
  rw [outputList_eq]
  exact local_bind (local_string hb false) fun _ => local_bind (local_many (local_commaString hb)) fun _ =>
    local_pure _

/-- inside a barrier, wherever `step` succeeds there is a `(` between its start and the barrier -/
theorem step_some_lparen_local (hb : Barrier t lo B) {e : P AExpr} {s : PState} {r}
    (h1 : lo ≤ s.pos) (h2 : s.pos ≤ B) (h : step e t s = some r) :
    ∃ j, s.pos ≤ j ∧ j ≤ B ∧ t[j]? = some '(' := by
  obtain ⟨v, s'⟩ := r
  rw [step_eq] at h
  obtain ⟨name, s1, e1, h⟩ := bind_some h
  obtain ⟨_, s2, e2, h⟩ := bind_some h
  obtain ⟨_, s3, e3, _⟩ := bind_some h
  have ⟨g1, g2⟩ := local_string hb false _ _ _ h1 h2 e1
  have ⟨g3, g4⟩ := local_skipMany hb newline_not_hsp _ _ _ (by omega) g2 e2
  exact ⟨s2.pos, by omega, g4, (lit_some e3).1⟩

/-- the position of the `=` that `assign` reads -/
theorem assign_some' {s : PState} {r} (h : assign t s = some r) :
    t[s.pos]? = some '=' ∨ (t[s.pos]? = some ':' ∧ t[s.pos + 1]? = some '=') := by
  simp only [assign, orElse_apply, bind_apply] at h
  cases h1 : lit ':' t s with
  | some r1 =>
    obtain ⟨hc, rfl⟩ := lit_some h1
    rw [h1] at h
    simp only at h
    cases h2 : lit '=' t { s with pos := s.pos + 1 } with
    | some r2 => exact Or.inr ⟨hc, (lit_some h2).1⟩
    | none =>
      rw [h2] at h
      simp only at h
      cases h3 : lit '=' t s with
      | some r3 => exact Or.inl (lit_some h3).1
      | none => rw [h3] at h; cases h
  | none =>
    rw [h1] at h
    simp only at h
    cases h3 : lit '=' t s with
    | some r3 => exact Or.inl (lit_some h3).1
    | none => rw [h3] at h; cases h

/-- inside a barrier, wherever a target is recognised there is a `=` between its start and the barrier -/
theorem targetP_some_eq_local (hb : Barrier t lo B) {s : PState} {r}
    (h1 : lo ≤ s.pos) (h2 : s.pos ≤ B) (h : targetP t s = some r) :
    ∃ j, s.pos ≤ j ∧ j ≤ B ∧ t[j]? = some '=' := by
  obtain ⟨v, s'⟩ := r
  obtain ⟨outs, s1, e1, h⟩ := bind_some h
  obtain ⟨_, s2, e2, h⟩ := bind_some h
  obtain ⟨_, s3, e3, _⟩ := bind_some h
  have ⟨g1, g2⟩ := local_outputList hb _ _ _ h1 h2 e1
  have ⟨g3, g4⟩ := local_skipMany hb newline_not_hsp _ _ _ (by omega) g2 e2
  rcases assign_some' e3 with hc | ⟨hc, hc'⟩
  · exact ⟨s2.pos, by omega, g4, hc⟩
  · refine ⟨s2.pos + 1, by omega, ?_, hc'⟩
    rcases Nat.lt_or_ge s2.pos B with hlt | hge
    · exact hlt
    · have : s2.pos = B := by omega
      rw [this] at hc
      exact absurd (hb.stop _ hc) (by decide)

end LocalLemmas

/-- the barrier at the end of the line `line`, when the text goes on with `tail` -/
theorem barrier_of_line {t : Array Char} {i : Nat} {line tail : Str} (h : t.toList.drop i = line ++ tail)
    (hline : ∀ c ∈ line, c ≠ '\\') (htail : ∀ c, tail.head? = some c → isNewline c = true) :
    Barrier t i (i + line.length) := by
  constructor
  · intro c hc
    rw [getElem?_of_drop0 (drop_add_of_drop h)] at hc
    exact htail c hc
  · intro j h1 h2 hc
    have := getElem?_of_drop h (j - i)
    rw [show i + (j - i) = j by omega, hc, List.getElem?_append_left (by omega)] at this
    exact hline _ (List.mem_of_getElem? this.symm) rfl

/-- a character of the text at an offset in `[i, i + line.length]` is in the line or is the newline after it -/
theorem line_char {t : Array Char} {i j : Nat} {line tail : Str} {c : Char} (h : t.toList.drop i = line ++ tail)
    (htail : ∀ c, tail.head? = some c → isNewline c = true) (h1 : i ≤ j) (h2 : j ≤ i + line.length)
    (hc : t[j]? = some c) : c ∈ line ∨ isNewline c = true := by
  rcases Nat.lt_or_ge j (i + line.length) with hlt | hge
  · left
    have := getElem?_of_drop h (j - i)
    rw [show i + (j - i) = j by omega, hc, List.getElem?_append_left (by omega)] at this
    exact List.mem_of_getElem? this.symm
  · right
    have e : j = i + line.length := by omega
    rw [e, getElem?_of_drop0 (drop_add_of_drop h)] at hc
    exact htail c hc

/-- **on a line without `(` and without backslash, `expr` is `reference`** (whatever comes on the
    later lines) -/
theorem expr_eq_reference_of_line {fuel : Nat} {t : Array Char} {i : Nat} {z : Bool} {line tail : Str}
    (h : t.toList.drop i = line ++ tail) (hline : ∀ c ∈ line, c ≠ '(' ∧ c ≠ '\\')
    (htail : ∀ c, tail.head? = some c → isNewline c = true) :
    expr (fuel + 1) t ⟨i, z⟩ = reference t ⟨i, z⟩ := by
  have hb := barrier_of_line h (fun c hc => (hline c hc).2) htail
  have key : ∀ j, i ≤ j → j ≤ i + line.length → t[j]? ≠ some '(' := by
    intro j h1 h2 hc
    rcases line_char h htail h1 h2 hc with hm | hn
    · exact (hline _ hm).1 rfl
    · exact absurd hn (by decide)
  apply expr_eq_reference_of_step_none _ (key i (Nat.le_refl _) (Nat.le_add_right _ _))
  cases hs : step (expr fuel) t ⟨i, z⟩ with
  | none => rfl
  | some r =>
    obtain ⟨j, h1, h2, hc⟩ := step_some_lparen_local hb (Nat.le_refl _) (Nat.le_add_right _ _) hs
    exact absurd hc (key j h1 h2)

/-- a reference on a line without `(` and without backslash is an expression -/
theorem exprAt_reference_of_line {txt rest line tail : Str} {val : Nat → AExpr} (hr : ReferenceAt txt rest val)
    (e : txt ++ rest = line ++ tail) (hline : ∀ c ∈ line, c ≠ '(' ∧ c ≠ '\\')
    (htail : ∀ c, tail.head? = some c → isNewline c = true) : ExprAt 1 txt rest val := by
  intro t i z fuel ht hf
  cases fuel with
  | zero => omega
  | succ f =>
    rw [expr_eq_reference_of_line (by rw [← e]; exact ht) hline htail]
    exact hr t i z ht

/-- **on a line without `=` and without backslash no target is recognised** -/
theorem noTargetAt_of_line {line tail : Str} (hline : ∀ c ∈ line, c ≠ '=' ∧ c ≠ '\\')
    (htail : ∀ c, tail.head? = some c → isNewline c = true) : NoTargetAt (line ++ tail) := by
  intro t i z h
  have hb := barrier_of_line h (fun c hc => (hline c hc).2) htail
  cases ht : targetP t ⟨i, z⟩ with
  | none => rfl
  | some r =>
    obtain ⟨j, h1, h2, hc⟩ := targetP_some_eq_local hb (Nat.le_refl _) (Nat.le_add_right _ _) ht
    rcases line_char h htail h1 h2 hc with hm | hn
    · exact absurd rfl (hline _ hm).1
    · exact absurd hn (by decide)

/-! ## constructors for the abstractions -/

theorem stringAt_of_atoms {static : Bool} {txt rest : Str} {val : Nat → AString}
    (h : ∀ (t : Array Char) (i : Nat) (z : Bool), t.toList.drop i = txt ++ rest →
      Atoms static t z i (val i) (i + txt.length)) : StringAt static txt rest val :=
  fun t i z ht => string_of_atoms (h t i z ht)

/-- a naked string, blanks (given back), then a stop character or the end -/
theorem stringAt_naked {static : Bool} {txt ws rest : Str} (hne : txt ≠ [])
    (hinner : ∀ c ∈ txt, isNakedInner c = true)
    (hfirst : ∀ c, txt.head? = some c → isNakedEdge c = true)
    (hlast : ∀ c, txt.getLast? = some c → isNakedEdge c = true)
    (hws : ∀ c ∈ ws, isReSpace c = true ∧ isNewline c = false)
    (hrest : ∀ c, rest.head? = some c → StopChar static c) :
    StringAt static txt (ws ++ rest) (fun i => [.sub i txt]) :=
  fun _ _ z ht => string_naked z (by simpa [List.append_assoc] using ht) hne hinner hfirst hlast hws hrest

/-- any text in its canonical quoted spelling -/
theorem stringAt_quote {static : Bool} {q : Char} (hq : q = '\'' ∨ q = '"') (s : Str) {rest : Str}
    (hend : StringEnd static rest) :
    StringAt static (q :: quoteBody s ++ [q]) rest (fun i => [.sub i s]) :=
  fun _ _ z ht => string_quote hq z (by simpa [List.append_assoc] using ht) hend

/-- any text in its canonical bracketed spelling -/
theorem stringAt_bracket_quote (s : Str) {rest : Str} (hend : StringEnd false rest) :
    StringAt false ('{' :: bracketBody s ++ ['}']) rest (fun i => [.sub i s]) :=
  fun _ _ z ht => string_bracket_quote z (by simpa [List.append_assoc] using ht) hend

theorem referenceAt_plain {ntxt rest : Str} {nval : Nat → AString} (hn : StringAt false ntxt rest nval)
    (hrem : remainderLen (ntxt ++ rest) = none)
    (hdig : ∀ c, (ntxt ++ rest).head? = some c → isDigit c = false)
    (hbr : ∀ s', ntxt ++ rest = '{' :: s' → ∀ c, (s'.dropWhile isHsp).head? = some c → isDigit c = false) :
    ReferenceAt ntxt rest (fun i => .ref (nval i) none) :=
  fun _ _ z ht => reference_plain hn hrem hdig hbr z ht

theorem referenceAt_amount {atxt bl ntxt rest : Str} {aval : Nat → AAmount} {nval : Nat → AString}
    (ha : AmountAt atxt (bl ++ ntxt ++ rest) aval) (hbl : ∀ c ∈ bl, isHsp c = true)
    (hn : StringAt false ntxt rest nval) :
    ReferenceAt (atxt ++ bl ++ ntxt) rest
      (fun i => .ref (nval (i + atxt.length + bl.length)) (some (aval i))) :=
  fun _ _ z ht => reference_amount ha hbl hn hn.head_not_hsp z (by simpa [List.append_assoc] using ht)

/-! ## non-vacuity -/

section Examples

private theorem nk (txt : Str) (h : txt ≠ [] ∧ (∀ c ∈ txt, isNakedInner c = true)
    ∧ (∀ c, txt.head? = some c → isNakedEdge c = true) ∧ (∀ c, txt.getLast? = some c → isNakedEdge c = true))
    {rest : Str} (hrest : ∀ c, rest.head? = some c → StopChar false c) :
    StringAt false txt rest (fun i => [.sub i txt]) := by
  have := stringAt_naked (static := false) (ws := []) h.1 h.2.1 h.2.2.1 h.2.2.2 (by simp) hrest
  simpa using this

/-- `flour, sift` and a newline: a reference with one action, no outputs -/
example : parse "flour, sift\n".toList
    = .ok [{ expr := .step [.sub 7 "sift".toList] [.ref [.sub 0 "flour".toList] none],
             outputs := none, named := false }] := by
  have hflour : StringAt false "flour".toList ", sift\n".toList (fun i => [.sub i "flour".toList]) :=
    nk _ (by decide) (by intro c hc; cases hc; exact stopChar_of_mem (by decide))
  have hsift : StringAt false "sift".toList "\n".toList (fun i => [.sub i "sift".toList]) :=
    nk _ (by decide) (by intro c hc; cases hc; exact stopChar_of_isNewline (by decide))
  have href := referenceAt_plain hflour (by decide +kernel) (by decide) (by intro s' e; cases e)
  have hexpr := exprAt_reference href (by decide)
  have hltr := ltrAt_of (as := [⟨[], [' '], "sift".toList, fun i => [.sub i "sift".toList]⟩]) (rest := "\n".toList)
    hexpr ⟨by decide, by decide, hsift, trivial⟩ ⟨[], "\n".toList, rfl, by decide, by decide⟩
  have heol : EolAt "\n".toList [] := eolAt_newline (bl := []) (ws := []) (by decide) (by decide) (by decide) (by simp)
  have hstmt := stmtAt_plain hltr heol (by decide) (noTargetAt_of_no_eq (by decide))
  have key := parse_ok (ws0 := []) (a := ⟨_, _⟩) (as := []) (by decide) ⟨by decide, hstmt, trivial⟩
  simpa [printStmts, stmtVals, printCommaItems, commaItemVals, CommaItem.print] using key

/-- `b := mix(a, c)` at the end of the text: a named output and a step with two arguments -/
example : parse "b := mix(a, c)".toList
    = .ok [{ expr := .step [.sub 5 "mix".toList] [.ref [.sub 9 ['a']] none, .ref [.sub 12 ['c']] none],
             outputs := some [[.sub 0 ['b']]], named := true }] := by
  have hb : StringAt false ['b'] " := mix(a, c)".toList (fun i => [.sub i ['b']]) :=
    stringAt_naked (ws := [' ']) (rest := ":= mix(a, c)".toList) (by decide) (by decide) (by decide) (by decide)
      (by decide) (by intro c hc; cases hc; exact stopChar_of_mem (by decide))
  have hmix : StringAt false "mix".toList "(a, c)".toList (fun i => [.sub i "mix".toList]) :=
    nk _ (by decide) (by intro c hc; cases hc; exact stopChar_of_mem (by decide))
  have ha : StringAt false ['a'] ", c)".toList (fun i => [.sub i ['a']]) :=
    nk _ (by decide) (by intro c hc; cases hc; exact stopChar_of_mem (by decide))
  have hc : StringAt false ['c'] ")".toList (fun i => [.sub i ['c']]) :=
    nk _ (by decide) (by intro c hc; cases hc; exact stopChar_of_mem (by decide))
  have hea := exprAt_reference (referenceAt_plain ha (by decide +kernel) (by decide) (by intro s' e; cases e))
    (by decide)
  have hec := exprAt_reference (referenceAt_plain hc (by decide +kernel) (by decide) (by intro s' e; cases e))
    (by decide)
  have hstep := exprAt_step (d := 1) (ntxt := "mix".toList) (bl := []) (ws0 := []) (a1txt := ['a'])
    (args := [⟨[], [' '], ['c'], fun i => .ref [.sub i ['c']] none⟩]) (trail := none) (ws2 := []) (rest := [])
    hmix (by decide) (by decide) hea ⟨by decide, by decide, hec, trivial⟩ (by intro _ e; cases e) (by decide)
  have hltr := ltrAt_of_expr hstep ⟨[], [], rfl, by decide, by simp⟩
  have heol : EolAt [] [] := eolAt_eof (bl := []) (by decide)
  have hstmt := stmtAt_target (otxt := ['b']) (outs := []) (b1 := [' ']) (b2 := [' ']) (named := true)
    (eoltxt := []) (rest := []) hb trivial (by decide) (by decide) hltr heol (by decide)
  have key := parse_ok (ws0 := []) (a := ⟨_, _⟩) (as := []) (by decide) ⟨by decide, hstmt, trivial⟩
  simpa [printStmts, stmtVals, printCommaItems, commaItemVals, targetTxt, assignTxt, stepTxt,
    printArgItems, argItemVals, ArgItem.print, closeTxt] using key

end Examples

end Parser
end RG
