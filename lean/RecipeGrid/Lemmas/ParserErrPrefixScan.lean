import RecipeGrid.Lemmas.ParserErrShift
/-! Prefix stability of the scanners of `Model/Parser.lean` (the terminals of the grammar): how a scanner started inside
    `a` behaves on `a ++ b`, when `a` ends in a line break (`Cut a`).  Either it does exactly what it does on `a`
    (`Ex`: most scanners cannot pass a line break), or it matches up to or beyond the end of `a` (`Lp`).
    Used by `Lemmas/ParserErrPrefix.lean`. -/
namespace RG
namespace ParserE
open Parser (P PState Mono isNakedEdge isNakedInner)

/-- `a` ends in a line break -/
def Cut (a : Str) : Prop := ∃ c, a.getLast? = some c ∧ isNewline c = true

theorem Cut.ne_nil {a : Str} (h : Cut a) : a ≠ [] := by
  obtain ⟨c, hc, _⟩ := h
  intro e; subst e; cases hc

theorem Cut.length_pos {a : Str} (h : Cut a) : 0 < a.length := List.length_pos_iff.2 h.ne_nil

/-- the last character of `a`, a line break, is in every non-empty suffix of `a` -/
theorem Cut.mem_drop {a : Str} (h : Cut a) {i : Nat} (hi : i < a.length) :
    ∃ c ∈ a.drop i, isNewline c = true := by
  obtain ⟨c, hc, hn⟩ := h
  refine ⟨c, ?_, hn⟩
  have : (a.drop i).getLast? = some c := by
    rw [List.getLast?_drop, if_neg (by omega), hc]
  exact List.mem_of_getLast? this

section
variable (a b : Str)

theorem getElem?_cut {i : Nat} (hi : i < a.length) : (a ++ b).toArray[i]? = a.toArray[i]? := by
  simp [List.getElem?_append_left hi]

theorem size_cut : (a ++ b).toArray.size = a.length + b.length := by simp

theorem size_a : a.toArray.size = a.length := by simp

/-! ## runs of a character class -/

theorem takeWhile_append_of_neg (q : Char → Bool) : ∀ (x y : Str), (∃ c ∈ x, q c = false) →
    (x ++ y).takeWhile q = x.takeWhile q
  | [], _, h => by obtain ⟨c, hc, _⟩ := h; cases hc
  | d :: x, y, h => by
    simp only [List.cons_append, List.takeWhile_cons]
    by_cases hd : q d = true
    · simp only [hd, if_true]
      congr 1
      apply takeWhile_append_of_neg q x y
      obtain ⟨c, hc, hq⟩ := h
      rcases List.mem_cons.mp hc with rfl | hc
      · rw [hd] at hq; cases hq
      · exact ⟨c, hc, hq⟩
    · simp [hd]

theorem takeWhile_length_lt (q : Char → Bool) : ∀ (x : Str), (∃ c ∈ x, q c = false) →
    (x.takeWhile q).length < x.length
  | [], h => by obtain ⟨c, hc, _⟩ := h; cases hc
  | d :: x, h => by
    simp only [List.takeWhile_cons]
    by_cases hd : q d = true
    · simp only [hd, if_true, List.length_cons]
      have := takeWhile_length_lt q x (by
        obtain ⟨c, hc, hq⟩ := h
        rcases List.mem_cons.mp hc with rfl | hc
        · rw [hd] at hq; cases hq
        · exact ⟨c, hc, hq⟩)
      omega
    · simp [hd]

theorem takeWhile_all (q : Char → Bool) : ∀ (x : Str), (∀ c ∈ x, q c = true) → x.takeWhile q = x
  | [], _ => rfl
  | d :: x, h => by
    simp only [List.takeWhile_cons, h d (List.mem_cons_self ..), if_true]
    congr 1
    exact takeWhile_all q x fun c hc => h c (List.mem_cons_of_mem _ hc)

/-- a class that rejects line breaks: its runs started inside `a` end before the end of `a`, and are the same on
    `a ++ b` -/
theorem spanEnd_cut_eq (hcut : Cut a) (q : Char → Bool) (hq : ∀ c, isNewline c = true → q c = false) {i : Nat}
    (hi : i < a.length) :
    Parser.spanEnd q (a ++ b).toArray i = Parser.spanEnd q a.toArray i ∧ Parser.spanEnd q a.toArray i < a.length := by
  rw [Parser.spanEnd_eq_takeWhile, Parser.spanEnd_eq_takeWhile]
  dsimp only
  rw [List.drop_append_of_le_length (by omega)]
  obtain ⟨c, hc, hn⟩ := hcut.mem_drop hi
  have hex : ∃ c ∈ a.drop i, q c = false := ⟨c, hc, hq c hn⟩
  rw [takeWhile_append_of_neg q _ _ hex]
  refine ⟨rfl, ?_⟩
  have := takeWhile_length_lt q _ hex
  simp only [List.length_drop] at this
  omega

/-- any class: a run started in `a` is the same on `a ++ b`, unless it reaches the end of `a` (in both texts) -/
theorem spanEnd_cut (q : Char → Bool) {i : Nat} (hi : i ≤ a.length) :
    Parser.spanEnd q (a ++ b).toArray i = Parser.spanEnd q a.toArray i ∨
    (a.length ≤ Parser.spanEnd q (a ++ b).toArray i ∧ Parser.spanEnd q a.toArray i = a.length) := by
  rw [Parser.spanEnd_eq_takeWhile, Parser.spanEnd_eq_takeWhile]
  dsimp only
  rw [List.drop_append_of_le_length hi]
  by_cases hall : ∀ c ∈ a.drop i, q c = true
  · right
    rw [List.takeWhile_append_of_pos hall, takeWhile_all q _ hall]
    simp only [List.length_append, List.length_drop]
    omega
  · left
    have hex : ∃ c ∈ a.drop i, q c = false := by
      apply Classical.byContradiction
      intro hne
      apply hall
      intro c hc
      cases hqc : q c with
      | true => rfl
      | false => exact absurd ⟨c, hc, hqc⟩ hne
    rw [takeWhile_append_of_neg q _ _ hex]

theorem trimBack_cut (q : Char → Bool) (lo : Nat) : ∀ hi, hi ≤ a.length →
    Parser.trimBack q (a ++ b).toArray lo hi = Parser.trimBack q a.toArray lo hi
  | 0, _ => rfl
  | k + 1, h => by
    unfold Parser.trimBack
    rw [getElem?_cut a b (by omega), trimBack_cut q lo k (by omega)]

/-! ## scanners that cannot pass a line break do the same on `a ++ b` -/

/-- started before the end of `a`, `p` does on `a ++ b` what it does on `a`, and ends before the end of `a` -/
def Ex {α : Type} (p : P α) : Prop := ∀ s : PState, s.pos < a.length →
  p (a ++ b).toArray s = p a.toArray s ∧ ∀ x s1, p a.toArray s = some (x, s1) → s1.pos < a.length

variable {a b}

theorem Ex.pure {α : Type} (x : α) : Ex a b (pure x : P α) := by
  intro s hs
  refine ⟨rfl, ?_⟩
  intro y s1 e; cases e; exact hs

theorem Ex.fail {α : Type} : Ex a b (Parser.fail : P α) := by
  intro s _
  refine ⟨rfl, ?_⟩
  intro y s1 e; cases e

theorem Ex.getPos : Ex a b Parser.getPos := by
  intro s hs
  refine ⟨rfl, ?_⟩
  intro y s1 e; cases e; exact hs

theorem Ex.bind {α β : Type} {m : P α} {f : α → P β} (hm : Ex a b m) (hf : ∀ x, Ex a b (f x)) : Ex a b (m >>= f) := by
  intro s hs
  obtain ⟨h1, h2⟩ := hm s hs
  rw [Parser.bind_apply, Parser.bind_apply, h1]
  cases hr : m a.toArray s with
  | none =>
    refine ⟨rfl, ?_⟩
    intro y s1 e; cases e
  | some r =>
    obtain ⟨x, s1⟩ := r
    exact hf x s1 (h2 x s1 hr)

theorem Ex.orElse {α : Type} {p q : P α} (hp : Ex a b p) (hq : Ex a b q) : Ex a b (p <|> q) := by
  intro s hs
  obtain ⟨h1, h2⟩ := hp s hs
  rw [Parser.orElse_apply, Parser.orElse_apply, h1]
  cases hr : p a.toArray s with
  | none => exact hq s hs
  | some r =>
    refine ⟨rfl, ?_⟩
    intro y s1 e; cases e; exact h2 _ _ hr

theorem Ex.map {α β : Type} (f : α → β) {p : P α} (hp : Ex a b p) : Ex a b (f <$> p) :=
  Ex.bind hp fun _ => Ex.pure _

theorem Ex.opt {α : Type} {p : P α} (hp : Ex a b p) : Ex a b (Parser.opt p) :=
  Ex.orElse (Ex.map _ hp) (Ex.pure _)

/-- one character of a class that rejects line breaks -/
theorem Ex.sat (hcut : Cut a) (q : Char → Bool) (hq : ∀ c, isNewline c = true → q c = false) : Ex a b (Parser.sat q) := by
  intro s hs
  unfold Parser.sat
  rw [getElem?_cut a b hs]
  refine ⟨rfl, ?_⟩
  intro y s1 e
  cases hc : a.toArray[s.pos]? with
  | none => rw [hc] at e; cases e
  | some c =>
    rw [hc] at e
    simp only at e
    split at e
    · rename_i hqc
      cases e
      simp only
      -- `s.pos` is not the last index of `a`, which holds a line break
      apply Classical.byContradiction
      intro hge
      have hlast : s.pos = a.length - 1 := by omega
      obtain ⟨d, hd, hn⟩ := hcut
      have : a.toArray[s.pos]? = some d := by
        rw [hlast, List.getElem?_toArray, ← List.getLast?_eq_getElem?, hd]
      rw [this] at hc
      cases hc
      rw [hq _ hn] at hqc
      cases hqc
    · cases e

theorem Ex.skipMany (hcut : Cut a) (q : Char → Bool) (hq : ∀ c, isNewline c = true → q c = false) :
    Ex a b (Parser.skipMany q) := by
  intro s hs
  unfold Parser.skipMany
  obtain ⟨h1, h2⟩ := spanEnd_cut_eq a b hcut q hq hs
  rw [h1]
  refine ⟨rfl, ?_⟩
  intro y s1 e; cases e; exact h2

theorem Ex.skipMany1 (hcut : Cut a) (q : Char → Bool) (hq : ∀ c, isNewline c = true → q c = false) :
    Ex a b (Parser.skipMany1 q) :=
  Ex.bind (Ex.sat hcut q hq) fun _ => Ex.skipMany hcut q hq

theorem wordBoundaryAt_cut (a b : Str) {i : Nat} (hi : i < a.length) :
    wordBoundaryAt (a ++ b).toArray i = wordBoundaryAt a.toArray i := by
  unfold wordBoundaryAt
  rw [getElem?_cut a b hi]
  by_cases h0 : i = 0
  · simp only [h0, if_true]
  · simp only [h0, if_false]
    rw [getElem?_cut a b (by omega)]

theorem Ex.wordBoundary : Ex a b Parser.wordBoundary := by
  intro s hs
  unfold Parser.wordBoundary
  rw [wordBoundaryAt_cut a b hs]
  refine ⟨rfl, ?_⟩
  intro y s1 e
  split at e
  · cases e; exact hs
  · cases e

theorem Ex.withText {α : Type} {p : P α} (hp : Ex a b p) : Ex a b (Parser.withText p) := by
  intro s hs
  obtain ⟨h1, h2⟩ := hp s hs
  unfold Parser.withText
  rw [h1]
  cases hr : p a.toArray s with
  | none =>
    refine ⟨rfl, ?_⟩
    intro y s1 e; cases e
  | some r =>
    obtain ⟨x, s1⟩ := r
    have hlt := h2 x s1 hr
    simp only
    refine ⟨?_, ?_⟩
    · congr 3
      apply List.ext_getElem?
      intro k
      simp only [Array.toList_extract, List.extract_eq_take_drop, List.toList_toArray]
      rw [List.drop_append_of_le_length (by omega)]
      rw [List.take_append_of_le_length (by simp; omega)]
    · intro y s2 e; cases e; exact hlt

theorem Ex.textOf {p : P Unit} (hp : Ex a b p) : Ex a b (Parser.textOf p) :=
  Ex.bind (Ex.withText hp) fun _ => Ex.pure _

/-! ### the classes -/

theorem isHsp_newline {c : Char} (h : isNewline c = true) : isHsp c = false := by
  cases hh : isHsp c with
  | false => rfl
  | true => rw [Parser.isNewline_of_isHsp hh] at h; cases h

theorem isDigit_newline {c : Char} (h : isNewline c = true) : isDigit c = false := by
  simp only [isNewline, Bool.or_eq_true, beq_iff_eq] at h
  rcases h with rfl | rfl <;> decide

theorem isNakedEdge_newline {c : Char} (h : isNewline c = true) : isNakedEdge c = false :=
  Parser.isNakedEdge_of_isReSpace (Parser.isReSpace_of_isNewline h)

theorem isNakedInner_newline {c : Char} (h : isNewline c = true) : isNakedInner c = false := by
  simp [isNakedInner, h]

theorem eq_newline {d : Char} (hd : isNewline d = false) {c : Char} (h : isNewline c = true) : (c == d) = false := by
  cases hcd : c == d with
  | false => rfl
  | true => rw [beq_iff_eq.mp hcd, hd] at h; cases h

theorem ciMatches_newline {l : Char} (hl : Parser.isLowerAscii l = true) {c : Char} (h : isNewline c = true) :
    ciMatches c l = false := by
  cases hm : ciMatches c l with
  | false => rfl
  | true =>
    have h1 := Parser.isReWord_of_ciMatches hl hm
    rw [Parser.isReWord_false_of_isReSpace (Parser.isReSpace_of_isNewline h)] at h1
    cases h1

/-! ### the terminals that cannot pass a line break -/

theorem Ex.hsp (hcut : Cut a) : Ex a b Parser.hsp := Ex.skipMany1 hcut _ fun _ => isHsp_newline
theorem Ex.ohsp (hcut : Cut a) : Ex a b Parser.ohsp := Ex.skipMany hcut _ fun _ => isHsp_newline
theorem Ex.digits (hcut : Cut a) : Ex a b Parser.digits := Ex.textOf (Ex.skipMany1 hcut _ fun _ => isDigit_newline)

theorem Ex.litNN (hcut : Cut a) (d : Char) (hd : isNewline d = false) : Ex a b (Parser.lit d) :=
  Ex.bind (Ex.sat hcut _ fun _ h => eq_newline hd h) fun _ => Ex.pure _

theorem Ex.decimal (hcut : Cut a) : Ex a b Parser.decimal := by
  unfold Parser.decimal
  refine Ex.bind Ex.getPos fun off => ?_
  refine Ex.bind (Ex.digits hcut) fun whole => ?_
  refine Ex.bind (Ex.opt (Ex.bind (Ex.litNN hcut '.' (by decide)) fun _ =>
    Ex.textOf (Ex.skipMany hcut _ fun _ => isDigit_newline))) fun frac => ?_
  cases frac <;> exact Ex.pure _

theorem Ex.denominator (hcut : Cut a) : Ex a b denominator := by
  unfold ParserE.denominator
  refine Ex.bind (Ex.digits hcut) fun ds => ?_
  split
  · exact Ex.fail
  · exact Ex.pure _

theorem Ex.nakedTail (hcut : Cut a) : Ex a b Parser.nakedTail := by
  intro s hs
  unfold Parser.nakedTail
  obtain ⟨h1, h2⟩ := spanEnd_cut_eq a b hcut isNakedInner (fun _ => isNakedInner_newline) hs
  rw [h1, trimBack_cut a b _ _ _ (by omega)]
  refine ⟨rfl, ?_⟩
  intro y s1 e
  cases e
  simp only
  have := Parser.PosBound.trimBack_le (t := a.toArray) isNakedEdge s.pos (Parser.spanEnd isNakedInner a.toArray s.pos)
  omega

theorem Ex.nakedString (hcut : Cut a) : Ex a b Parser.nakedString := by
  rw [Parser.nakedString_eq]
  refine Ex.bind Ex.getPos fun off => ?_
  refine Ex.bind (Ex.withText (Ex.bind (Ex.sat hcut _ fun _ => isNakedEdge_newline) fun _ => Ex.nakedTail hcut)) fun x => ?_
  obtain ⟨u, text⟩ := x
  exact Ex.pure _

theorem Ex.ciWord (hcut : Cut a) : ∀ w : Str, Parser.IsLowerWord w → Ex a b (Parser.ciWord w)
  | [], _ => Ex.pure _
  | l :: ls, h => by
    unfold Parser.ciWord
    refine Ex.bind (Ex.sat hcut _ fun _ hn => ciMatches_newline (h l (List.mem_cons_self ..)) hn) fun _ => ?_
    exact Ex.ciWord hcut ls fun c hc => h c (List.mem_cons_of_mem _ hc)

theorem lower_of : Parser.IsLowerWord "of".toList := by unfold Parser.IsLowerWord; decide
theorem lower_the : Parser.IsLowerWord "the".toList := by unfold Parser.IsLowerWord; decide
theorem lower_remaining : Parser.IsLowerWord "remaining".toList := by unfold Parser.IsLowerWord; decide
theorem lower_remainder : Parser.IsLowerWord "remainder".toList := by unfold Parser.IsLowerWord; decide
theorem lower_rest : Parser.IsLowerWord "rest".toList := by unfold Parser.IsLowerWord; decide
theorem lower_left : Parser.IsLowerWord "left".toList := by unfold Parser.IsLowerWord; decide
theorem lower_over : Parser.IsLowerWord "over".toList := by unfold Parser.IsLowerWord; decide

theorem Ex.preposition (hcut : Cut a) : Ex a b Parser.preposition := by
  unfold Parser.preposition
  refine Ex.bind (Ex.ciWord hcut _ lower_of) fun _ => ?_
  exact Ex.orElse (Ex.bind (Ex.hsp hcut) fun _ => Ex.bind (Ex.ciWord hcut _ lower_the) fun _ => Ex.wordBoundary)
    Ex.wordBoundary

theorem Ex.remainder (hcut : Cut a) : Ex a b Parser.remainder := by
  unfold Parser.remainder
  refine Ex.orElse ?_ (Ex.orElse ?_ (Ex.orElse ?_ ?_))
  · exact Ex.bind (Ex.ciWord hcut _ lower_remaining) fun _ => Ex.wordBoundary
  · exact Ex.bind (Ex.ciWord hcut _ lower_remainder) fun _ => Ex.wordBoundary
  · exact Ex.bind (Ex.ciWord hcut _ lower_rest) fun _ => Ex.wordBoundary
  · exact Ex.bind (Ex.ciWord hcut _ lower_left) fun _ => Ex.bind (Ex.ohsp hcut) fun _ =>
      Ex.bind (Ex.ciWord hcut _ lower_over) fun _ => Ex.wordBoundary

theorem Ex.assign (hcut : Cut a) : Ex a b Parser.assign := by
  unfold Parser.assign
  exact Ex.orElse
    (Ex.bind (Ex.litNN hcut ':' (by decide)) fun _ => Ex.bind (Ex.litNN hcut '=' (by decide)) fun _ => Ex.pure _)
    (Ex.bind (Ex.litNN hcut '=' (by decide)) fun _ => Ex.pure _)

/-! ## scanners that can reach the end of `a` -/

variable (a b)

/-- started at `s`, `p` does on `a ++ b` what it does on `a`, or it matches up to or beyond the end of `a` -/
def Lp {α : Type} (p : P α) (s : PState) : Prop :=
  p (a ++ b).toArray s = p a.toArray s ∨ ∃ x s1, p (a ++ b).toArray s = some (x, s1) ∧ a.length ≤ s1.pos

variable {a b}

theorem Lp.of_ex {α : Type} {p : P α} (h : Ex a b p) {s : PState} (hs : s.pos < a.length) : Lp a b p s :=
  Or.inl (h s hs).1

/-- one character, of any class -/
theorem Lp.sat (q : Char → Bool) {s : PState} (hs : s.pos < a.length) : Lp a b (Parser.sat q) s := by
  left
  unfold Parser.sat
  rw [getElem?_cut a b hs]

theorem Lp.lit (c : Char) {s : PState} (hs : s.pos < a.length) : Lp a b (Parser.lit c) s := by
  left
  have : Parser.sat (fun x => x == c) (a ++ b).toArray s = Parser.sat (fun x => x == c) a.toArray s := by
    unfold Parser.sat
    rw [getElem?_cut a b hs]
  show (Parser.sat (fun x => x == c) >>= fun _ => pure ()) (a ++ b).toArray s =
    (Parser.sat (fun x => x == c) >>= fun _ => pure ()) a.toArray s
  rw [Parser.bind_apply, Parser.bind_apply, this]
  cases Parser.sat (fun x => x == c) a.toArray s <;> rfl

theorem Lp.fail {α : Type} {s : PState} : Lp a b (Parser.fail : P α) s := Or.inl rfl

theorem Lp.eof {s : PState} (hs : s.pos < a.length) : Lp a b Parser.eof s := by
  left
  unfold Parser.eof
  rw [if_neg (by rw [size_cut]; omega), if_neg (by rw [size_a]; omega)]

theorem Lp.orElse {α : Type} {p q : P α} {s : PState} (hp : Lp a b p s) (hq : Lp a b q s) : Lp a b (p <|> q) s := by
  rcases hp with hp | ⟨x, s1, hp, hle⟩
  · cases hr : p a.toArray s with
    | none =>
      have hr' : p (a ++ b).toArray s = none := by rw [hp, hr]
      rcases hq with hq | ⟨x, s1, hq, hle⟩
      · left
        rw [Parser.orElse_apply, Parser.orElse_apply, hr, hr']
        exact hq
      · right
        exact ⟨x, s1, by rw [Parser.orElse_apply, hr']; exact hq, hle⟩
    | some r =>
      left
      rw [Parser.orElse_apply, Parser.orElse_apply, hp, hr]
  · right
    exact ⟨x, s1, by rw [Parser.orElse_apply, hp], hle⟩

/-- `r"[ \t]*[\r\n]\s*"` -/
theorem Lp.eolBreak (hcut : Cut a) {s : PState} (hs : s.pos < a.length) : Lp a b eolBreak s := by
  unfold ParserE.eolBreak
  obtain ⟨h1, h2⟩ := Ex.ohsp (b := b) hcut s hs
  unfold Lp
  rw [Parser.bind_apply, Parser.bind_apply, h1]
  cases hr : Parser.ohsp a.toArray s with
  | none => exact Or.inl rfl
  | some r =>
    obtain ⟨u, s1⟩ := r
    have hs1 := h2 u s1 hr
    simp only
    rw [Parser.bind_apply, Parser.bind_apply]
    have hsat : Parser.sat isNewline (a ++ b).toArray s1 = Parser.sat isNewline a.toArray s1 := by
      unfold Parser.sat
      rw [getElem?_cut a b hs1]
    rw [hsat]
    cases hr2 : Parser.sat isNewline a.toArray s1 with
    | none => exact Or.inl rfl
    | some r2 =>
      obtain ⟨c, s2⟩ := r2
      have hs2 : s2.pos ≤ a.length := by
        have := (Parser.PosBound.sat_bd (t := a.toArray) isNewline s1 c s2 (by rw [size_a]; omega) hr2).1
        rwa [size_a] at this
      simp only
      unfold Parser.osp Parser.skipMany
      rcases spanEnd_cut a b isReSpace hs2 with h | ⟨h, _⟩
      · left; rw [h]
      · right; exact ⟨(), _, rfl, h⟩

theorem sat_end (q : Char → Bool) {t : Array Char} {s : PState} (h : t.size ≤ s.pos) : Parser.sat q t s = none := by
  unfold Parser.sat
  rw [Array.getElem?_eq_none h]

/-- a word needs a character -/
theorem ciWord_end {w : Str} (hw : w ≠ []) {t : Array Char} {s : PState} (h : t.size ≤ s.pos) :
    Parser.ciWord w t s = none := by
  cases w with
  | nil => exact absurd rfl hw
  | cons l ls =>
    unfold Parser.ciWord
    rw [Parser.bind_apply, sat_end _ h]

theorem unitPattern_end {w : Str} {ws : List Str} (hw : w ≠ []) {t : Array Char} {s : PState} (h : t.size ≤ s.pos) :
    Parser.unitPattern (w :: ws) t s = none := by
  cases ws with
  | nil =>
    unfold Parser.unitPattern
    rw [Parser.bind_apply, ciWord_end hw h]
  | cons w2 ws =>
    rw [Parser.unitPattern_cons2, Parser.bind_apply, ciWord_end hw h]

/-- one alternative of the unit regex: the `\s+` between two words is the only place where a scanner with something
    still to match can reach the end of `a`; the next word then needs a character -/
theorem Lp.unitPattern (hcut : Cut a) : ∀ (ws : List Str), Parser.IsUnitWords ws → ∀ {s : PState}, s.pos < a.length →
    Lp a b (Parser.unitPattern ws) s
  | [], _, s, hs => Lp.of_ex Ex.wordBoundary hs
  | [w], hws, s, hs => by
    unfold Parser.unitPattern
    exact Lp.of_ex (Ex.bind (Ex.ciWord hcut w (hws w (List.mem_cons_self ..)).2) fun _ => Ex.wordBoundary) hs
  | w :: w2 :: ws, hws, s, hs => by
    rw [Parser.unitPattern_cons2]
    obtain ⟨h1, h2⟩ := Ex.ciWord (b := b) hcut w (hws w (List.mem_cons_self ..)).2 s hs
    unfold Lp
    rw [Parser.bind_apply, Parser.bind_apply, h1]
    cases hr : Parser.ciWord w a.toArray s with
    | none => exact Or.inl rfl
    | some r =>
      obtain ⟨u, s1⟩ := r
      have hs1 := h2 u s1 hr
      simp only
      rw [Parser.bind_apply, Parser.bind_apply]
      -- `sp`: one white-space character, then the run
      unfold Parser.sp Parser.skipMany1
      rw [Parser.bind_apply, Parser.bind_apply]
      have hsat : Parser.sat isReSpace (a ++ b).toArray s1 = Parser.sat isReSpace a.toArray s1 := by
        unfold Parser.sat
        rw [getElem?_cut a b hs1]
      rw [hsat]
      cases hr2 : Parser.sat isReSpace a.toArray s1 with
      | none => exact Or.inl rfl
      | some r2 =>
        obtain ⟨c, s2⟩ := r2
        have hs2 : s2.pos ≤ a.length := by
          have := (Parser.PosBound.sat_bd (t := a.toArray) isReSpace s1 c s2 (by rw [size_a]; omega) hr2).1
          rwa [size_a] at this
        simp only
        unfold Parser.skipMany
        simp only
        have hws' : Parser.IsUnitWords (w2 :: ws) := fun x hx => hws x (List.mem_cons_of_mem _ hx)
        rcases spanEnd_cut a b isReSpace hs2 with h | ⟨h, hA⟩
        · rw [h]
          by_cases hlt : Parser.spanEnd isReSpace a.toArray s2.pos < a.length
          · exact Lp.unitPattern hcut (w2 :: ws) hws' (s := ⟨_, s2.zero⟩) hlt
          · -- the run ends at the end of `a` in both texts: the next word fails there on `a`
            cases hr3 : Parser.unitPattern (w2 :: ws) (a ++ b).toArray ⟨Parser.spanEnd isReSpace a.toArray s2.pos, s2.zero⟩ with
            | some r3 =>
              right
              obtain ⟨y, s3⟩ := r3
              refine ⟨y, s3, rfl, ?_⟩
              have := mono_unitPattern (w2 :: ws) _ _ _ _ hr3
              simp only at this
              omega
            | none =>
              left
              exact (unitPattern_end (hws' w2 (List.mem_cons_self ..)).1 (by rw [size_a]; simp only; omega)).symm
        · cases hr3 : Parser.unitPattern (w2 :: ws) (a ++ b).toArray ⟨Parser.spanEnd isReSpace (a ++ b).toArray s2.pos, s2.zero⟩ with
          | some r3 =>
            right
            obtain ⟨y, s3⟩ := r3
            refine ⟨y, s3, rfl, ?_⟩
            have := mono_unitPattern (w2 :: ws) _ _ _ _ hr3
            simp only at this
            omega
          | none =>
            left
            -- on `a` the run of white space reaches the end of `a`, where the next word fails
            exact (unitPattern_end (hws' w2 (List.mem_cons_self ..)).1 (by rw [size_a]; simp only; omega)).symm

theorem Lp.firstOf : ∀ (ps : List (P Unit)) {s : PState}, (∀ p ∈ ps, Lp a b p s) → Lp a b (Parser.firstOf ps) s
  | [], _, _ => Lp.fail
  | p :: ps, s, h => by
    unfold Parser.firstOf
    exact Lp.orElse (h p (List.mem_cons_self ..)) (Lp.firstOf ps fun q hq => h q (List.mem_cons_of_mem _ hq))

theorem Lp.knownUnit (hcut : Cut a) {s : PState} (hs : s.pos < a.length) : Lp a b Parser.knownUnit s := by
  unfold Parser.knownUnit
  refine Lp.firstOf _ fun p hp => ?_
  obtain ⟨ws, hmem, rfl⟩ := List.mem_map.mp hp
  have hok := List.all_eq_true.mp Parser.unitPatterns_words_table ws hmem
  exact Lp.unitPattern hcut ws (Parser.unitWordsOk_iff hok).2 hs

end
end ParserE
end RG
