import RecipeGrid.Lemmas.MdMain
/-! "The same line less a prefix of a given class": the generalisation of `KRel` / `Dropped` / `lines_drop_rel`
    (`Lemmas/MdRel.lean`, prefixes of spaces) to any class of prefixes without line-break characters — container
    prefixes followed by fence indentation. -/
namespace RG

/-- `Q`-related lines at equal indices -/
def GSubRel (Q : Str → Str → Prop) (S D : List Str) : Prop :=
  ∀ (j : Nat) (s : Str), S[j]? = some s → ∃ d, D[j]? = some d ∧ Q s d

theorem GSubRel.of_forall2 {Q : Str → Str → Prop} {S D : List Str} (h : Forall2 Q S D) : GSubRel Q S D :=
  fun j s hs => h.get j s hs

theorem GSubRel.nil (Q : Str → Str → Prop) (D : List Str) : GSubRel Q [] D := by intro j s h; simp at h

theorem GSubRel.append {Q : Str → Str → Prop} {A B S D : List Str} (h : Forall2 Q A B) (h' : GSubRel Q S D) :
    GSubRel Q (A ++ S) (B ++ D) := by
  intro j s hs
  by_cases hj : j < A.length
  · rw [List.getElem?_append_left hj] at hs
    obtain ⟨d, hd, hr⟩ := h.get j s hs
    exact ⟨d, by rw [List.getElem?_append_left (by rw [← h.length_eq]; exact hj)]; exact hd, hr⟩
  · rw [List.getElem?_append_right (by omega)] at hs
    obtain ⟨d, hd, hr⟩ := h' _ s hs
    exact ⟨d, by rw [List.getElem?_append_right (by rw [← h.length_eq]; omega), ← h.length_eq]; exact hd, hr⟩

/-- a class of prefixes that may be removed from a line: it contains the empty prefix and no prefix with a line-break
    character (so that a removed prefix lies inside one `str.splitlines` line) -/
structure PrefixClass (R : Str → Prop) : Prop where
  nil : R []
  noBreak : ∀ pre, R pre → ∀ c ∈ pre, isLineBreak c = false

/-- `s` is `d` without a prefix of the class -/
def PRel (R : Str → Prop) (s d : Str) : Prop := ∃ pre, d = pre ++ s ∧ R pre

theorem PRel.refl {R : Str → Prop} (hR : PrefixClass R) (s : Str) : PRel R s s := ⟨[], rfl, hR.nil⟩

theorem forall2_PRel_refl {R : Str → Prop} (hR : PrefixClass R) (l : List Str) : Forall2 (PRel R) l l := by
  induction l with
  | nil => exact .nil
  | cons x l ih => exact .cons (PRel.refl hR x) ih

theorem plines_nobreak_prefix (pre m : Str) (h : ∀ c ∈ pre, isLineBreak c = false) :
    plines (pre ++ m) = attachPre pre (plines m) := by
  induction pre with
  | nil => simp [attachPre_nil]
  | cons c pre ih =>
    have hc := h c (by simp)
    simp only [List.cons_append, plines, hc, Bool.false_eq_true, if_false,
      ih (fun x hx => h x (List.mem_cons_of_mem _ hx)), attachPre_attachPre]
    simp

theorem nl_not_mem_of_noBreak (pre : Str) (h : ∀ c ∈ pre, isLineBreak c = false) : '\n' ∉ pre := by
  intro hm
  have := h _ hm
  rw [isLineBreak_lf] at this
  cases this

theorem nlEnded_of_append (pre s : Str) (h : NlEnded (pre ++ s)) (hp : '\n' ∉ pre) : NlEnded s := by
  obtain ⟨b, hb⟩ := h
  rcases List.eq_nil_or_concat s with rfl | ⟨s', x, rfl⟩
  · rw [List.append_nil] at hb
    exact absurd (by rw [hb]; simp) hp
  · rw [List.concat_eq_append, ← List.append_assoc] at hb
    have := List.append_inj_right' hb rfl
    simp only [List.cons.injEq, and_true] at this
    subst this
    exact ⟨s', by rw [List.concat_eq_append]⟩

theorem pline_drop_rel {R : Str → Prop} (hR : PrefixClass R) (pre s : Str) (h : R pre) :
    GSubRel (PRel R) (plines (crToLf s)) (plines (crToLf (pre ++ s))) ∧
      (s ≠ [] → Forall2 (PRel R) (plines (crToLf s)) (plines (crToLf (pre ++ s)))) := by
  have hb := hR.noBreak pre h
  rw [crToLf_append, crToLf_of_no_break pre hb, plines_nobreak_prefix pre _ hb]
  generalize hm : plines (crToLf s) = m
  cases m with
  | nil =>
    refine ⟨GSubRel.nil _ _, ?_⟩
    intro hne
    rw [plines_eq_nil, crToLf_eq_nil] at hm
    exact absurd hm hne
  | cons x xs =>
    have : Forall2 (PRel R) (x :: xs) (attachPre pre (x :: xs)) := by
      simp only [attachPre]
      exact .cons ⟨pre, rfl, h⟩ (forall2_PRel_refl hR xs)
    exact ⟨GSubRel.of_forall2 this, fun _ => this⟩

/-- `s` is the marko line `l` without a prefix of the class -/
def PDropped (R : Str → Prop) (s l : Str) : Prop := ∃ pre, l = pre ++ s ∧ R pre

theorem plines_drop_rel {R : Str → Prop} (hR : PrefixClass R) (ss ls : List Str) (h : Forall2 (PDropped R) ss ls)
    (hok : LinesOk ls) :
    GSubRel (PRel R) (plines (crToLf ss.flatten)) (plines (crToLf ls.flatten)) := by
  induction h with
  | nil => exact GSubRel.nil _ _
  | @cons s l ss ls hsl hrest ih =>
    obtain ⟨pre, rfl, hpre⟩ := hsl
    by_cases hls : ls = []
    · subst hls
      cases hrest
      simp only [List.flatten_cons, List.flatten_nil, List.append_nil]
      exact (pline_drop_rel hR pre s hpre).1
    · have hnl : NlEnded (pre ++ s) := hok.2.1 hls
      have hnl' : NlEnded s := nlEnded_of_append pre s hnl (nl_not_mem_of_noBreak pre (hR.noBreak pre hpre))
      simp only [List.flatten_cons]
      rw [plines_crToLf_nlEnded_append _ _ hnl, plines_crToLf_nlEnded_append _ _ hnl']
      exact GSubRel.append ((pline_drop_rel hR pre s hpre).2 hnl'.ne_nil) (ih hok.2.2)

/-- `block_lines_core` for any relation between lines -/
theorem block_lines_coreG (Q : Str → Str → Prop) (N' Ap Cp Rp S : Str) (k : Nat) (exc : Nat → Str → Prop)
    (hN : N' = Ap ++ (Cp ++ Rp))
    (hA : plines (Ap ++ (Cp ++ Rp)) = plines Ap ++ plines (Cp ++ Rp))
    (hk : k = (plines Ap).length)
    (hC : plines (Cp ++ Rp) = plines Cp ++ plines Rp)
    (hS : ∀ (j : Nat) (s : Str), (plines S)[j]? = some s → (∃ d, (plines Cp)[j]? = some d ∧ Q s d) ∨ exc j s) :
    ∀ (j : Nat) (s : Str), (plines (List.replicate k '\n' ++ S))[k + j]? = some s →
      (∃ d, (plines N')[k + j]? = some d ∧ Q s d) ∨ exc j s := by
  intro j s hs
  rw [plines_replicate_nl, List.getElem?_append_right (by simp)] at hs
  simp only [List.length_replicate, Nat.add_sub_cancel_left] at hs
  rcases hS j s hs with ⟨d, hd, hr⟩ | he
  · left
    refine ⟨d, ?_, hr⟩
    rw [hN, hA, hC, List.getElem?_append_right (by omega), ← hk, Nat.add_sub_cancel_left]
    rw [List.getElem?_append_left (List.getElem?_eq_some_iff.mp hd).1]
    exact hd
  · exact Or.inr he

/-! ## marko's lines, generically -/

theorem sum_pyLineCount_eq (A : List Str) (h : ∀ l ∈ A, NlEnded l) :
    (A.map pyLineCount).sum = (plines (crToLf A.flatten)).length := by
  induction A with
  | nil => simp [crToLf, plines]
  | cons l A ih =>
    have hl := h l (by simp)
    have ih' := ih (fun x hx => h x (List.mem_cons_of_mem _ hx))
    simp only [List.map_cons, List.sum_cons, List.flatten_cons]
    rw [plines_crToLf_nlEnded_append _ _ hl, List.length_append, ← ih', pyLineCount_eq]

/-- the line of the offset at which a marko line starts -/
theorem line_of_start (N : Str) (A : List Str) (l : Str) (B : List Str) (h : mdLines N = A ++ l :: B) :
    (offsetToLineCol (crToLf N) A.flatten.length).1 = (A.map pyLineCount).sum + 1 := by
  have hok : LinesOk (A ++ l :: B) := by rw [← h]; exact mdLines_ok N
  have hnl : ∀ x ∈ A, NlEnded x := hok.nlEnded_left (by simp)
  have hN : N = A.flatten ++ (l ++ B.flatten) := by
    conv => lhs; rw [← mdLines_flatten N, h]
    simp
  have ht : l ≠ [] := (hok.append_right).1.1
  rw [hN, crToLf_append, ← crToLf_length A.flatten]
  rw [offsetToLineCol_line_start]
  · rw [klines_length, ← sum_pyLineCount_eq A hnl]
  · rw [← crToLf_append]; exact not_cr_mem_crToLf _
  · rw [← crToLf_append]; exact klines_flatten_nl _ hnl _
  · rw [Ne, crToLf_eq_nil]; simp [ht]

end RG
