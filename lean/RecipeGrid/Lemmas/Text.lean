import RecipeGrid.Model.Text
/-! Helper lemmas about `splitLinesKeep`, `offsetToLineCol`, `extractLine`. -/
namespace RG

/-! ## facts about the generated line-break table (re-checked when the table is regenerated) -/
theorem isLineBreak_lf : isLineBreak '\n' = true := by decide
theorem isLineBreak_cr : isLineBreak '\r' = true := by decide
theorem isLineBreak_space : isLineBreak ' ' = false := by decide
theorem isLineBreak_a : isLineBreak 'a' = false := by decide

/-! ## `splitLinesKeepAux` -/

theorem splitLinesKeepAux_lf (cur rest : Str) :
    splitLinesKeepAux cur ('\n' :: rest) = ('\n' :: cur).reverse :: splitLinesKeepAux [] rest := by
  rw [splitLinesKeepAux.eq_3 _ _ _ (by intro r h; exact absurd h (by decide))]
  simp [isLineBreak_lf]

theorem splitLinesKeepAux_flatten (cur s : Str) :
    (splitLinesKeepAux cur s).flatten = cur.reverse ++ s := by
  fun_induction splitLinesKeepAux cur s <;> simp_all

theorem splitLinesKeepAux_ne_nil (cur s : Str) : ∀ l ∈ splitLinesKeepAux cur s, l ≠ [] := by
  fun_induction splitLinesKeepAux cur s <;> simp_all

theorem splitLinesKeepAux_eq_nil (cur s : Str) : splitLinesKeepAux cur s = [] ↔ cur = [] ∧ s = [] := by
  fun_induction splitLinesKeepAux cur s <;> simp_all

theorem splitLinesKeep_eq_nil (s : Str) : splitLinesKeep s = [] ↔ s = [] := by
  simp [splitLinesKeep, splitLinesKeepAux_eq_nil]

theorem splitLinesKeep_flatten (s : Str) : (splitLinesKeep s).flatten = s := by
  simp [splitLinesKeep, splitLinesKeepAux_flatten]

/-! ## shape of a line: a body without line breaks, then at most one terminator -/

/-- `l` is `body` followed by nothing, by `"\r\n"`, or by a single line-break character,
    and `body` contains no line-break character -/
def LineShape (l body : Str) : Prop :=
  (∀ c ∈ body, isLineBreak c = false) ∧
  (l = body ∨ l = body ++ ['\r', '\n'] ∨ ∃ c, isLineBreak c = true ∧ l = body ++ [c])

theorem dropTerminator_of_shape (l body : Str) (h : LineShape l body) : dropTerminator l = body := by
  obtain ⟨hb, h | h | ⟨c, hc, h⟩⟩ := h
  · subst h
    unfold dropTerminator
    split
    · rename_i r e
      have : '\n' ∈ l := by rw [← List.mem_reverse, e]; simp
      have := hb _ this
      simp [isLineBreak_lf] at this
    · rename_i c r _ e
      have : c ∈ l := by rw [← List.mem_reverse, e]; simp
      simp [hb _ this]
    · rfl
  · subst h
    simp [dropTerminator]
  · subst h
    unfold dropTerminator
    split
    · rename_i r e
      simp only [List.reverse_append, List.reverse_cons, List.reverse_nil, List.nil_append,
        List.cons_append, List.cons.injEq] at e
      have : '\r' ∈ body := by rw [← List.mem_reverse, e.2]; simp
      have := hb _ this
      simp [isLineBreak_cr] at this
    · rename_i c' r _ e
      simp only [List.reverse_append, List.reverse_cons, List.reverse_nil, List.nil_append,
        List.cons_append, List.cons.injEq] at e
      obtain ⟨rfl, rfl⟩ := e
      simp [hc]
    · rename_i e
      simp at e

theorem splitLinesKeepAux_shape (cur s : Str) (hcur : ∀ c ∈ cur, isLineBreak c = false) :
    ∀ l ∈ splitLinesKeepAux cur s, ∃ body, LineShape l body := by
  fun_induction splitLinesKeepAux cur s with
  | case1 => simp
  | case2 cur h =>
    intro l hl
    simp only [List.mem_singleton] at hl
    exact ⟨cur.reverse, by simpa using hcur, Or.inl hl⟩
  | case3 cur rest ih =>
    intro l hl
    rcases List.mem_cons.1 hl with rfl | hl
    · exact ⟨cur.reverse, by simpa using hcur, Or.inr (Or.inl (by simp))⟩
    · exact ih (by simp) l hl
  | case4 cur c rest _ hc ih =>
    intro l hl
    rcases List.mem_cons.1 hl with rfl | hl
    · exact ⟨cur.reverse, by simpa using hcur, Or.inr (Or.inr ⟨c, hc, by simp⟩)⟩
    · exact ih (by simp) l hl
  | case5 cur c rest _ hc ih =>
    exact ih (by intro c' h'; rcases List.mem_cons.1 h' with rfl | h'; · simpa using hc
                 · exact hcur _ h')

theorem splitLinesKeep_shape (s : Str) : ∀ l ∈ splitLinesKeep s, ∃ body, LineShape l body :=
  splitLinesKeepAux_shape [] s (by simp)

/-! ## `offsetToLineColAux` against prefix sums of line lengths -/

/-- offset inside the remaining lines -/
theorem offsetToLineColAux_found (ls : List Str) (rem n last : Nat) (h : rem < ls.flatten.length) :
    let r := offsetToLineColAux ls rem n last
    n + 1 ≤ r.1 ∧ r.1 ≤ n + ls.length ∧
    ((ls.take (r.1 - n - 1)).flatten).length + (r.2 - 1) = rem ∧
    1 ≤ r.2 ∧ r.2 ≤ (ls[r.1 - n - 1]?.getD []).length := by
  induction ls generalizing rem n last with
  | nil => simp at h
  | cons l ls ih =>
    simp only [offsetToLineColAux]
    split
    · simp; omega
    · rename_i hlt
      simp only [List.flatten_cons, List.length_append] at h
      have := ih (rem - l.length) (n + 1) l.length (by omega)
      simp only at this
      obtain ⟨h1, h2, h3, h4, h5⟩ := this
      generalize offsetToLineColAux ls (rem - l.length) (n + 1) l.length = r at *
      have e : r.1 - n - 1 = (r.1 - (n + 1) - 1) + 1 := by omega
      refine ⟨by omega, by simp; omega, ?_, h4, ?_⟩
      · rw [e]; simp only [List.take_succ_cons, List.flatten_cons, List.length_append]; omega
      · rw [e]; simpa using h5

/-- offset at or beyond the end of the remaining lines -/
theorem offsetToLineColAux_past (ls : List Str) (rem n last : Nat) (h : ls.flatten.length ≤ rem) :
    offsetToLineColAux ls rem n last = (n + ls.length, ((ls.getLast?.map List.length).getD last) + 1) := by
  induction ls generalizing rem n last with
  | nil => simp [offsetToLineColAux]
  | cons l ls ih =>
    simp only [List.flatten_cons, List.length_append] at h
    simp only [offsetToLineColAux]
    rw [if_neg (by omega), ih _ _ _ (by omega)]
    cases ls with
    | nil => simp
    | cons l' ls' =>
      rw [List.getLast?_cons_cons, List.getLast?_eq_some_getLast (by simp)]
      simp; omega

/-- with lines to come, the line counter only shifts the result and `lastLen` is irrelevant -/
theorem offsetToLineColAux_shift (ls : List Str) (hls : ls ≠ []) (rem n k last last' : Nat) :
    offsetToLineColAux ls rem (n + k) last =
      ((offsetToLineColAux ls rem n last').1 + k, (offsetToLineColAux ls rem n last').2) := by
  induction ls generalizing rem n last last' with
  | nil => contradiction
  | cons l ls ih =>
    simp only [offsetToLineColAux]
    split
    · simp; omega
    · cases ls with
      | nil => simp [offsetToLineColAux]; omega
      | cons l' ls' =>
        have := ih (by simp) (rem - l.length) (n + 1) l.length l.length
        rw [show n + k + 1 = n + 1 + k by omega]
        exact this

/-- skipping `k` one-character lines -/
theorem offsetToLineColAux_replicate (k : Nat) (x : Str) (hx : x.length = 1) (ls : List Str)
    (rem n last : Nat) :
    offsetToLineColAux (List.replicate k x ++ ls) (k + rem) n last =
      offsetToLineColAux ls rem (n + k) (if k = 0 then last else 1) := by
  induction k generalizing n last with
  | zero => simp
  | succ k ih =>
    simp only [List.replicate_succ, List.cons_append, offsetToLineColAux, hx]
    rw [if_neg (by omega), show k + 1 + rem - 1 = k + rem by omega, ih]
    simp only [Nat.add_eq_zero_iff, Nat.succ_ne_self, and_false, if_false]
    rw [show n + 1 + k = n + (k + 1) by omega]
    cases ls with
    | nil => cases k <;> simp [offsetToLineColAux]
    | cons l ls => simp [offsetToLineColAux]

theorem offsetToLineCol_of_ne_nil (s : Str) (o : Nat) (h : s ≠ []) :
    offsetToLineCol s o = offsetToLineColAux (splitLinesKeep s) o 0 0 := by
  have hne : splitLinesKeep s ≠ [] := by rwa [Ne, splitLinesKeep_eq_nil]
  unfold offsetToLineCol
  split
  · contradiction
  · rfl

end RG
