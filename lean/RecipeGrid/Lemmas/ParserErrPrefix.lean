import RecipeGrid.Lemmas.ParserErrPrefixScan
/-! Prefix stability of the instrumented parser: if `a` ends in a line break, a rule started inside `a` either does on
    `a ++ b` exactly what it does on `a` (same outcome, same furthest failure), or records a failure at or after the end
    of `a`, or succeeds up to or beyond the end of `a` (`LE`).  The rules of `Model/ParserErr.lean` one by one; the loops
    (`many`, `string`, `expr`) run with more fuel on the longer text, which makes no difference (`LE` relates two
    parsers).  Hence `prefix_syntaxError_offset`: if `a` is accepted on its own and `a ++ b` is rejected, the reported
    offset is not inside `a`. -/
namespace RG
namespace ParserE
open Parser (P PState Mono Adv)

/-! ## rules that consume something -/

/-- a successful run of `pe` consumes at least one character -/
def AdvE {α : Type} (pe : PE α) : Prop :=
  ∀ (t : Array Char) (s : PState) x s1, s.pos ≤ t.size → (pe t s).1 = some (x, s1) → s.pos < s1.pos

theorem AdvE.of_sim {α : Type} {pe : PE α} {p : P α} (h : Sim pe p) (ha : Adv p) : AdvE pe := by
  intro t s x s1 _ e
  rw [h t s] at e
  exact ha t s x s1 e

theorem AdvE.bind_left {α β : Type} {m : PE α} {f : α → PE β} (ha : AdvE m) (hgm : Good m) (hf : ∀ x, Good (f x)) :
    AdvE (m >>= f) := by
  intro t s y s2 hs e
  rw [bind_apply] at e
  cases hr : (m t s).1 with
  | none => rw [hr] at e; cases e
  | some r =>
    obtain ⟨x, s1⟩ := r
    rw [hr] at e
    have h1 := ha t s x s1 hs hr
    have h2 := ((hf x t s1 ((hgm t s hs).1 x s1 hr).2).1 y s2 e).1
    omega

theorem AdvE.bind_right {α β : Type} {m : PE α} {f : α → PE β} (hgm : Good m) (hf : ∀ x, AdvE (f x)) :
    AdvE (m >>= f) := by
  intro t s y s2 hs e
  rw [bind_apply] at e
  cases hr : (m t s).1 with
  | none => rw [hr] at e; cases e
  | some r =>
    obtain ⟨x, s1⟩ := r
    rw [hr] at e
    obtain ⟨h1, h1'⟩ := (hgm t s hs).1 x s1 hr
    have h2 := hf x t s1 y s2 h1' e
    omega

theorem AdvE.orElse {α : Type} {p q : PE α} (hp : AdvE p) (hq : AdvE q) : AdvE (p <|> q) := by
  intro t s y s2 hs e
  rw [orElse_apply] at e
  cases hr : (p t s).1 with
  | none => rw [hr] at e; exact hq t s y s2 hs e
  | some r => rw [hr] at e; cases e; exact hp t s _ _ hs hr

theorem AdvE.fail {α : Type} : AdvE (fail : PE α) := AdvE.of_sim Sim.fail Parser.adv_fail

/-! ## the tactic that shows `Good` for a continuation -/

theorem Good.anyChar : Good (ParserE.term Parser.anyChar) := Good.sat _
theorem Good.denominator : Good (ParserE.term ParserE.denominator) := Good.term mono_denominator fun _ => denominator_bd
theorem Good.eolBreak : Good (ParserE.term ParserE.eolBreak) := Good.term mono_eolBreak fun _ => eolBreak_bd

/-- the first part of `string` -/
def atom (static : Bool) : PE AString :=
  nakedString <|> quotedString '\'' <|> quotedString '"' <|> (if static then fail else bracketedString)

/-- `hsp? "," hsp? string` -/
def commaString : PE AString := do ohsp; lit ','; ohsp; string

theorem Good.atom (static : Bool) : Good (ParserE.atom static) := by
  unfold ParserE.atom
  refine Good.orElse Good.nakedString (Good.orElse (Good.quotedString _) (Good.orElse (Good.quotedString _) ?_))
  cases static
  · exact Good.bracketedString
  · exact Good.fail

theorem Good.commaString : Good ParserE.commaString :=
  Good.bind Good.ohsp fun _ => Good.bind (Good.lit _) fun _ => Good.bind Good.ohsp fun _ => Good.string false

/-- closes `Good pe` for the continuations of the rules, syntactically (nothing is unfolded) -/
syntax "good" : tactic
macro_rules
  | `(tactic| good) => `(tactic| with_reducible
    repeat (first
      | assumption
      | exact Good.pure _ | exact Good.fail | exact Good.getPos | exact Good.remaining | exact Good.lit _
      | exact Good.hsp | exact Good.ohsp | exact Good.osp | exact Good.eof | exact Good.digits | exact Good.decimal
      | exact Good.fraction | exact Good.number | exact Good.nakedString | exact Good.sat _ | exact Good.anyChar
      | exact Good.escaped
      | exact Good.quotedString _ | exact Good.bracketedItem | exact Good.bracketedString | exact Good.stringF _ _
      | exact Good.string _ | exact Good.preposition | exact Good.hspPreposition | exact Good.remainder
      | exact Good.knownUnit | exact Good.proportion | exact Good.explicitQuantity | exact Good.implicitQuantity
      | exact Good.reference | exact Good.expr _ | exact Good.eol | exact Good.outputList | exact Good.assign
      | exact Good.stmt | exact Good.liftOhsp | exact Good.denominator | exact Good.eolBreak
      | exact Good.atom _ | exact Good.commaString
      | apply Good.bind | apply Good.orElse | apply Good.opt | apply Good.many | apply Good.manyF | apply Good.textOf
      | apply Good.withText | apply Good.step | apply Good.ltrShorthand | apply Good.map
      | split
      | intro _))

/-! ## the relation -/

section
variable (a b : Str)

/-- started at `s`, `pe'` on `a ++ b` does exactly what `pe` does on `a` — or it records a failure at or after the end
    of `a`, or it succeeds up to or beyond the end of `a` -/
def LE {α : Type} (pe' pe : PE α) (s : PState) : Prop :=
  s.pos ≤ (a ++ b).toArray.size →
    pe' (a ++ b).toArray s = pe a.toArray s ∨
    (∃ f, (pe' (a ++ b).toArray s).2 = some f ∧ a.length ≤ f) ∨
    (∃ x s1, (pe' (a ++ b).toArray s).1 = some (x, s1) ∧ a.length ≤ s1.pos)

variable {a b}

/-- at or after the end of `a` there is nothing to show: whatever the rule does is at or after the end of `a` -/
theorem LE.of_ge {α : Type} {pe' pe : PE α} {s : PState} (hg : Good pe') (h : a.length ≤ s.pos) : LE a b pe' pe s := by
  intro hs
  obtain ⟨g1, _, _⟩ := hg (a ++ b).toArray s hs
  cases hr : (pe' (a ++ b).toArray s).1 with
  | none =>
    obtain ⟨f, hf, hge, _⟩ := hg.fail_far hs hr
    exact Or.inr (Or.inl ⟨f, hf, by omega⟩)
  | some r =>
    obtain ⟨x, s1⟩ := r
    exact Or.inr (Or.inr ⟨x, s1, rfl, by have := (g1 x s1 hr).1; omega⟩)

theorem LE.pure {α : Type} (x : α) {s : PState} : LE a b (pure x : PE α) (pure x) s := fun _ => Or.inl rfl

/-- a terminal, from the prefix stability of its scanner -/
theorem LE.term {α : Type} {p : P α} (hg : Good (term p)) {s : PState} (h : s.pos < a.length → Lp a b p s) :
    LE a b (term p) (term p) s := by
  intro hs
  by_cases hlt : s.pos < a.length
  · rcases h hlt with e | ⟨x, s1, e, hle⟩
    · left; rw [term_apply, term_apply, e]
    · right; right; exact ⟨x, s1, by rw [term_apply, e], hle⟩
  · exact LE.of_ge hg (by omega) hs

theorem LE.bind {α β : Type} {m' m : PE α} {f' f : α → PE β} {s : PState} (hgm : Good m') (hgf : ∀ x, Good (f' x))
    (hm : LE a b m' m s)
    (hf : ∀ x s1, s.pos < a.length → (m a.toArray s).1 = some (x, s1) → LE a b (f' x) (f x) s1) :
    LE a b (m' >>= f') (m >>= f) s := by
  intro hs
  by_cases hge : a.length ≤ s.pos
  · exact LE.of_ge (Good.bind hgm hgf) (by omega) hs
  have hlt : s.pos < a.length := by omega
  obtain ⟨g1, _, _⟩ := hgm (a ++ b).toArray s hs
  rcases hm hs with e | ⟨f0, e, hle⟩ | ⟨x, s1, e, hle⟩
  · cases hr : (m a.toArray s).1 with
    | none => left; rw [bind_apply, bind_apply, e, hr]
    | some r =>
      obtain ⟨x, s1⟩ := r
      have hr' : (m' (a ++ b).toArray s).1 = some (x, s1) := by rw [e, hr]
      have hs1 := (g1 x s1 hr').2
      rcases hf x s1 hlt hr hs1 with e2 | ⟨f0, e2, hle⟩ | ⟨y, s2, e2, hle⟩
      · left; rw [bind_apply, bind_apply, e, hr]; simp only; rw [e2]
      · right; left
        obtain ⟨f1, h1, h2⟩ := le_fmax_right (a := (m' (a ++ b).toArray s).2) e2
        exact ⟨f1, by rw [bind_apply, hr']; exact h1, by omega⟩
      · right; right
        exact ⟨y, s2, by rw [bind_apply, hr']; exact e2, hle⟩
  · right; left
    cases hr' : (m' (a ++ b).toArray s).1 with
    | none => exact ⟨f0, by rw [bind_apply, hr']; exact e, hle⟩
    | some r =>
      obtain ⟨f1, h1, h2⟩ := le_fmax_left (b := (f' r.1 (a ++ b).toArray r.2).2) e
      exact ⟨f1, by rw [bind_apply, hr']; exact h1, by omega⟩
  · have hs1 := (g1 x s1 e).2
    obtain ⟨k1, _, _⟩ := hgf x (a ++ b).toArray s1 hs1
    cases hr2 : (f' x (a ++ b).toArray s1).1 with
    | none =>
      obtain ⟨f1, h1, h2, _⟩ := (hgf x).fail_far hs1 hr2
      obtain ⟨f2, h3, h4⟩ := le_fmax_right (a := (m' (a ++ b).toArray s).2) h1
      right; left
      exact ⟨f2, by rw [bind_apply, e]; exact h3, by omega⟩
    | some r =>
      obtain ⟨y, s2⟩ := r
      right; right
      exact ⟨y, s2, by rw [bind_apply, e]; exact hr2, by have := (k1 y s2 hr2).1; omega⟩

theorem LE.orElse {α : Type} {p' p q' q : PE α} {s : PState} (hp : LE a b p' p s) (hq : LE a b q' q s) :
    LE a b (p' <|> q') (p <|> q) s := by
  intro hs
  rcases hp hs with e | ⟨f0, e, hle⟩ | ⟨x, s1, e, hle⟩
  · cases hr : (p a.toArray s).1 with
    | some r => left; rw [orElse_apply, orElse_apply, e, hr]
    | none =>
      have hr' : (p' (a ++ b).toArray s).1 = none := by rw [e, hr]
      rcases hq hs with e2 | ⟨f0, e2, hle⟩ | ⟨y, s2, e2, hle⟩
      · left; rw [orElse_apply, orElse_apply, e, hr]; simp only; rw [e2]
      · right; left
        obtain ⟨f1, h1, h2⟩ := le_fmax_right (a := (p' (a ++ b).toArray s).2) e2
        exact ⟨f1, by rw [orElse_apply, hr']; exact h1, by omega⟩
      · right; right
        exact ⟨y, s2, by rw [orElse_apply, hr']; exact e2, hle⟩
  · right; left
    cases hr' : (p' (a ++ b).toArray s).1 with
    | some r => exact ⟨f0, by rw [orElse_apply, hr']; exact e, hle⟩
    | none =>
      obtain ⟨f1, h1, h2⟩ := le_fmax_left (b := (q' (a ++ b).toArray s).2) e
      exact ⟨f1, by rw [orElse_apply, hr']; exact h1, by omega⟩
  · right; right
    exact ⟨x, s1, by rw [orElse_apply, e], hle⟩

theorem LE.map {α β : Type} (f : α → β) {p' p : PE α} {s : PState} (hg : Good p') (hp : LE a b p' p s) :
    LE a b (f <$> p') (f <$> p) s :=
  LE.bind hg (fun _ => Good.pure _) hp fun _ _ _ _ => LE.pure _

theorem LE.opt {α : Type} {p' p : PE α} {s : PState} (hg : Good p') (hp : LE a b p' p s) :
    LE a b (opt p') (opt p) s :=
  LE.orElse (LE.map _ hg hp) (LE.pure _)

theorem LE.getPos {s : PState} : LE a b getPos getPos s := fun _ => Or.inl rfl

theorem extract_cut (a b : Str) {i j : Nat} (hi : i ≤ a.length) (hj : j ≤ a.length) :
    ((a ++ b).toArray.extract i j).toList = (a.toArray.extract i j).toList := by
  simp only [Array.toList_extract, List.extract_eq_take_drop]
  rw [List.drop_append_of_le_length hi, List.take_append_of_le_length (by simp; omega)]

theorem withText_snd {α : Type} (p : PE α) (t : Array Char) (s : PState) : (withText p t s).2 = (p t s).2 := by
  unfold ParserE.withText
  cases (p t s).1 <;> rfl

theorem LE.withText {α : Type} {p' p : PE α} {s : PState} (hg' : Good p') (hg : Good p) (hp : LE a b p' p s) :
    LE a b (withText p') (withText p) s := by
  intro hs
  by_cases hge : a.length ≤ s.pos
  · exact LE.of_ge (Good.withText hg') (by omega) hs
  have hlt : s.pos < a.length := by omega
  rcases hp hs with e | ⟨f0, e, hle⟩ | ⟨x, s1, e, hle⟩
  · left
    unfold ParserE.withText
    rw [e]
    cases hr : (p a.toArray s).1 with
    | none => rfl
    | some r =>
      obtain ⟨x, s1⟩ := r
      have hle : s1.pos ≤ a.length := by
        have := ((hg a.toArray s (by rw [size_a]; omega)).1 x s1 hr).2
        rwa [size_a] at this
      simp only
      rw [extract_cut a b (Nat.le_of_lt hlt) hle]
  · right; left
    exact ⟨f0, by rw [withText_snd]; exact e, hle⟩
  · right; right
    refine ⟨(x, ((a ++ b).toArray.extract s.pos s1.pos).toList), s1, ?_, hle⟩
    unfold ParserE.withText
    rw [e]

theorem LE.textOf {p' p : PE Unit} {s : PState} (hg' : Good p') (hg : Good p) (hp : LE a b p' p s) :
    LE a b (textOf p') (textOf p) s :=
  LE.bind (Good.withText hg') (fun _ => Good.pure _) (LE.withText hg' hg hp) fun _ _ _ _ => LE.pure _

theorem LE.skipManyOpt (q : Char → Bool) {s : PState} : LE a b (skipManyOpt q) (skipManyOpt q) s := by
  intro hs
  by_cases hge : a.length ≤ s.pos
  · exact LE.of_ge (Good.skipManyOpt q) (by omega) hs
  have hlt : s.pos < a.length := by omega
  rcases spanEnd_cut a b q (Nat.le_of_lt hlt) with h | ⟨h, _⟩
  · left; unfold ParserE.skipManyOpt; rw [h]
  · right; right; exact ⟨(), _, rfl, h⟩

theorem LE.liftOhsp {s : PState} : LE a b (lift Parser.ohsp) (lift Parser.ohsp) s := by
  intro hs
  by_cases hge : a.length ≤ s.pos
  · exact LE.of_ge Good.liftOhsp (by omega) hs
  have hlt : s.pos < a.length := by omega
  rcases spanEnd_cut a b isHsp (Nat.le_of_lt hlt) with h | ⟨h, _⟩
  · left; unfold ParserE.lift Parser.ohsp Parser.skipMany; rw [h]
  · right; right; exact ⟨(), _, rfl, h⟩

/-! ## loops: the fuel differs, the outcome does not -/

theorem remaining_bind {β : Type} (f : Nat → PE β) (t : Array Char) (s : PState) :
    (remaining >>= f) t s = f (t.size - s.pos) t s := by
  rw [bind_apply]
  show ((f (t.size - s.pos) t s).1, fmax none (f (t.size - s.pos) t s).2) = _
  rw [fmax_none_left]

theorem LE.bind_remaining {β : Type} {f' f : Nat → PE β} {s : PState}
    (h : LE a b (f' ((a ++ b).toArray.size - s.pos)) (f (a.toArray.size - s.pos)) s) :
    LE a b (remaining >>= f') (remaining >>= f) s := by
  unfold LE
  rw [remaining_bind, remaining_bind]
  exact h

theorem LE.manyF {α : Type} {p' p : PE α} (hg' : Good p') (hg : Good p) (hadv : AdvE p) (k0 : Nat)
    (hp : ∀ s, k0 ≤ s.pos → LE a b p' p s) : ∀ (fuel fuel' : Nat) (s : PState), k0 ≤ s.pos →
    (s.pos < a.length → a.length - s.pos ≤ fuel ∧ a.length - s.pos ≤ fuel') →
    LE a b (manyF p' fuel') (manyF p fuel) s
  | 0, fuel', s, _, hfu => LE.of_ge (Good.manyF hg' fuel') (by
      apply Classical.byContradiction
      intro h
      have := (hfu (by omega)).1
      omega)
  | fuel + 1, fuel', s, hk, hfu => by
    by_cases hge : a.length ≤ s.pos
    · exact LE.of_ge (Good.manyF hg' fuel') (by omega)
    have hlt : s.pos < a.length := by omega
    cases fuel' with
    | zero => have := (hfu hlt).2; omega
    | succ fuel' =>
      unfold ParserE.manyF
      refine LE.orElse ?_ (LE.pure _)
      refine LE.bind hg' (fun _ => by good) (hp s hk) fun x s1 _ hr => ?_
      have hs : s.pos ≤ a.toArray.size := by rw [size_a]; omega
      have h1 := hadv a.toArray s x s1 hs hr
      refine LE.bind (Good.manyF hg' fuel') (fun _ => Good.pure _) ?_ fun _ _ _ _ => LE.pure _
      exact LE.manyF hg' hg hadv k0 hp fuel fuel' s1 (by omega) (fun _ => by have := hfu hlt; omega)

theorem many_eq {α : Type} (p : PE α) (t : Array Char) (s : PState) : many p t s = manyF p (t.size - s.pos) t s :=
  remaining_bind _ t s

theorem LE.many {α : Type} {p' p : PE α} {s : PState} (hg' : Good p') (hg : Good p) (hadv : AdvE p)
    (hp : ∀ s1, s.pos ≤ s1.pos → LE a b p' p s1) : LE a b (many p') (many p) s := by
  unfold LE
  rw [many_eq, many_eq]
  exact LE.manyF hg' hg hadv s.pos hp _ _ s (Nat.le_refl _) (fun _ => by rw [size_cut, size_a]; omega)

end
end ParserE
end RG
