import RecipeGrid.Lemmas.MdContainers3
/-! Indented blocks — at top level, in block quotes and in list items: `code_block_lines` of `Props/C19d.lean` for any
    decomposition of the document into marko lines whose code lines carry a container prefix, and its instance for the
    container-aware tagger. -/
namespace RG

/-! ## more about prefix classes -/

theorem plines_drop_forall2 {R : Str → Prop} (hR : PrefixClass R) (ss ls : List Str) (h : Forall2 (PDropped R) ss ls)
    (hok : LinesOk ls) (hne : ∀ s ∈ ss, s ≠ []) :
    Forall2 (PRel R) (plines (crToLf ss.flatten)) (plines (crToLf ls.flatten)) := by
  induction h with
  | nil => exact .nil
  | @cons s l ss ls hsl hrest ih =>
    obtain ⟨pre, rfl, hpre⟩ := hsl
    have hs : s ≠ [] := hne _ (by simp)
    by_cases hls : ls = []
    · subst hls
      cases hrest
      simp only [List.flatten_cons, List.flatten_nil, List.append_nil]
      exact (pline_drop_rel hR pre s hpre).2 hs
    · have hnl : NlEnded (pre ++ s) := hok.2.1 hls
      have hnl' : NlEnded s := nlEnded_of_append pre s hnl (nl_not_mem_of_noBreak pre (hR.noBreak pre hpre))
      simp only [List.flatten_cons]
      rw [plines_crToLf_nlEnded_append _ _ hnl, plines_crToLf_nlEnded_append _ _ hnl']
      exact ((pline_drop_rel hR pre s hpre).2 hs).append (ih hok.2.2 (fun x hx => hne x (List.mem_cons_of_mem _ hx)))

theorem mdLine_of_append (pre s : Str) (h : MdLine (pre ++ s)) (hs : s ≠ []) : MdLine s := by
  refine ⟨hs, ?_⟩
  intro a b hab
  apply h.2 (pre ++ a) b
  rw [List.append_assoc, ← hab]

theorem linesOk_of_pdropped {R : Str → Prop} (hR : PrefixClass R) (ss ls : List Str) (h : Forall2 (PDropped R) ss ls)
    (hok : LinesOk ls) (hne : ∀ s ∈ ss, s ≠ []) : LinesOk ss := by
  induction h with
  | nil => trivial
  | @cons s l ss ls hsl hrest ih =>
    obtain ⟨pre, rfl, hpre⟩ := hsl
    refine ⟨mdLine_of_append pre s hok.1 (hne _ (by simp)), ?_, ih hok.2.2 (fun x hx => hne x (List.mem_cons_of_mem _ hx))⟩
    intro hss
    have hls : ls ≠ [] := by
      intro e; subst e; cases hrest; exact hss rfl
    exact nlEnded_of_append pre s (hok.2.1 hls) (nl_not_mem_of_noBreak pre (hR.noBreak pre hpre))

theorem pdropped_nlEnded {R : Str → Prop} (hR : PrefixClass R) (ss ls : List Str) (h : Forall2 (PDropped R) ss ls)
    (hnl : ∀ l ∈ ls, NlEnded l) : ∀ s ∈ ss, NlEnded s := by
  induction h with
  | nil => simp
  | @cons s l ss ls hsl hrest ih =>
    obtain ⟨pre, rfl, hpre⟩ := hsl
    intro x hx
    rcases List.mem_cons.1 hx with rfl | hx
    · exact nlEnded_of_append pre x (hnl _ (by simp)) (nl_not_mem_of_noBreak pre (hR.noBreak pre hpre))
    · exact ih (fun y hy => hnl y (List.mem_cons_of_mem _ hy)) x hx

/-- the container prefixes, as a class -/
def CP (pre : Str) : Prop := isCPrefix pre = true

theorem CP.prefixClass : PrefixClass CP where
  nil := isCPrefix_nil
  noBreak := by
    intro pre h c hc
    rcases isCPrefix_chars pre h c hc with rfl | rfl
    · exact isLineBreak_space
    · exact isLineBreak_gt

theorem krel_split (n : Nat) (s i : Str) (h : KRel n s i) : ∃ p, p ≤ n ∧ i = List.replicate p ' ' ++ s := by
  obtain ⟨p, hpn, hsp, rfl⟩ := h
  refine ⟨min p i.length, by omega, ?_⟩
  have h1 : i.take (min p i.length) = i.take p := by
    by_cases hp : p ≤ i.length
    · rw [Nat.min_eq_left hp]
    · rw [Nat.min_eq_right (by omega), List.take_length, List.take_of_length_le (by omega)]
  have h2 : i.drop (min p i.length) = i.drop p := by
    by_cases hp : p ≤ i.length
    · rw [Nat.min_eq_left hp]
    · rw [Nat.min_eq_right (by omega), List.drop_length, List.drop_eq_nil_of_le (by omega)]
  have h3 : i.take (min p i.length) = List.replicate (min p i.length) ' ' := by
    rw [List.eq_replicate_iff]
    refine ⟨by simp, ?_⟩
    intro c hc
    rw [h1] at hc
    exact hsp c hc
  conv => lhs; rw [← List.take_append_drop (min p i.length) i, h3, h2]

theorem prel_compose (n : Nat) (s i d : Str) (h1 : KRel n s i) (h2 : PRel CP i d) : PRel (BPrefix n) s d := by
  obtain ⟨p, hp, rfl⟩ := krel_split n s i h1
  obtain ⟨a, rfl, ha⟩ := h2
  exact ⟨a ++ List.replicate p ' ', by simp, a, p, rfl, ha, hp⟩

/-! ## indented blocks -/

theorem code_block_lines_genP (N : Str) (A : List Str) (t0 : TLine) (more : List TLine) (O B : List Str)
    (hO : Forall2 (PDropped CP) ((t0 :: more).map (·.text)) O)
    (hN : N = A.flatten ++ (O.flatten ++ B.flatten))
    (hok : LinesOk (A ++ (O ++ B)))
    (ht : t0.tag = .codeStart)
    (hne : ∀ x ∈ t0 :: more, x.text ≠ [])
    (hlines : ∀ x ∈ t0 :: more, CodeLine x ∧ TagSound x ∧ x.ok = true) :
    let k := (A.map pyLineCount).sum
    let S := crToLf (codeSource (t0 :: more))
    ∀ (j : Nat) (s : Str), (plines (List.replicate k '\n' ++ S))[k + j]? = some s →
      (∃ d, (plines (crToLf N))[k + j]? = some d ∧ PRel (BPrefix 4) s d) ∨
        (s = [] ∧ j + 1 = (plines S).length ∧ (plines (crToLf N))[k + j]? = none) := by
  intro k S
  have hOne : O ≠ [] := by
    intro e; rw [e] at hO; cases hO
  have hpre : ∀ x ∈ A, NlEnded x := hok.nlEnded_left (by simp [hOne])
  have hOok : LinesOk O := (hok.append_right).append_left
  have hne' : ∀ s ∈ (t0 :: more).map (·.text), s ≠ [] := by
    intro s hs
    obtain ⟨x, hx, rfl⟩ := List.mem_map.1 hs
    exact hne x hx
  have hlok : LinesOk ((t0 :: more).map (·.text)) := linesOk_of_pdropped CP.prefixClass _ _ hO hOok hne'
  obtain ⟨e, he, hflat⟩ := codeSource_flatten (t0 :: more) hlok hlines
  have hsrc : codeSource (t0 :: more) = rstripNl ((t0 :: more).map dropCode).flatten ++ ['\n'] := by
    rw [codeSource, hflat]
    rcases he with rfl | rfl
    · simp
    · rw [rstripNl_snoc_nl]
  have hdrop := forall2_dropCode (t0 :: more)
  have hrel1 := lines_drop_rel 4 _ _ hdrop hlok
  have hrel2 := plines_drop_rel CP.prefixClass _ _ hO hOok
  have hrel : GSubRel (PRel (BPrefix 4)) (plines (crToLf ((t0 :: more).map dropCode).flatten)) (plines (crToLf O.flatten)) := by
    intro j s hs
    obtain ⟨i, hi, h1⟩ := hrel1 j s hs
    obtain ⟨d, hd, h2⟩ := hrel2 j i hi
    exact ⟨d, hd, prel_compose 4 s i d h1 h2⟩
  have hN' : crToLf N = crToLf A.flatten ++ (crToLf O.flatten ++ crToLf B.flatten) := by
    rw [hN]; simp [crToLf_append]
  have hk : k = (plines (crToLf A.flatten)).length := sum_pyLineCount_eq A hpre
  have hA : plines (crToLf A.flatten ++ (crToLf O.flatten ++ crToLf B.flatten)) =
      plines (crToLf A.flatten) ++ plines (crToLf O.flatten ++ crToLf B.flatten) := by
    rw [← crToLf_append, ← crToLf_append]
    exact plines_flatten_nl _ hpre _
  have hC : plines (crToLf O.flatten ++ crToLf B.flatten) =
      plines (crToLf O.flatten) ++ plines (crToLf B.flatten) := by
    rw [← crToLf_append]
    by_cases hB : B = []
    · subst hB; simp [crToLf, plines]
    · apply plines_flatten_nl
      exact (hok.append_right).nlEnded_left hB
  intro j s hs
  have hcore := block_lines_coreG (PRel (BPrefix 4)) (crToLf N) (crToLf A.flatten)
    (crToLf O.flatten) (crToLf B.flatten)
    (crToLf (codeSource (t0 :: more))) k
    (fun j s => s = [] ∧ j + 1 = (plines (crToLf (codeSource (t0 :: more)))).length ∧
      j = (plines (crToLf ((t0 :: more).map dropCode).flatten)).length ∧
      ((t0 :: more).map dropCode).flatten = rstripNl ((t0 :: more).map dropCode).flatten)
    hN' hA hk hC
    (by
      intro j s h
      rw [hsrc] at h ⊢
      rcases plines_code_tail _ j s h with h' | h'
      · exact Or.inl (hrel j s h')
      · exact Or.inr h') j s hs
  rcases hcore with h | ⟨hse, hlast, hj, hT⟩
  · exact Or.inl h
  · right
    refine ⟨hse, hlast, ?_⟩
    have hnn : ¬ NlEnded ((t0 :: more).map dropCode).flatten := by rw [hT]; exact rstripNl_not_nlEnded _
    have hts' := (hlines t0 (by simp)).2.1
    simp only [TagSound, ht] at hts'
    have hTne : ((t0 :: more).map dropCode).flatten ≠ [] := by
      have : dropCode t0 ≠ [] := by
        simp only [dropCode, hts'.1, if_true]
        exact drop4_ne_nil _ hts'.1 hts'.2
      simp [this]
    have hallne := dropped_all_ne_nil 4 _ _ hdrop hlok hTne hnn
    have hlen1 := (lines_drop_forall2 4 _ _ hdrop hlok hallne).length_eq
    have hlen2 := (plines_drop_forall2 CP.prefixClass _ _ hO hOok hne').length_eq
    have hB : B = [] := by
      apply Classical.byContradiction
      intro hB
      have hnlO : ∀ l ∈ O, NlEnded l := (hok.append_right).nlEnded_left hB
      have hnl : ∀ l ∈ (t0 :: more).map (·.text), NlEnded l := pdropped_nlEnded CP.prefixClass _ _ hO hnlO
      exact hnn (flatten_nlEnded 4 _ _ hdrop hnl (by simp))
    subst hB
    rw [hN', hA, hC]
    apply List.getElem?_eq_none
    simp only [List.length_append, List.flatten_nil]
    rw [show crToLf [] = [] from rfl]
    simp only [plines, List.length_nil]
    omega

/-- the lines of an indented block of **D2**: behind a container prefix, they are code lines for the container-free model -/
theorem code_line_inner (x : TLine2) (hx : TagSound2 x) (hl : MdLine x.text) (hok : x.ok = true) (hc : x.tag.isCode = true) :
    PDropped CP x.inner.text x.text ∧ x.inner.text ≠ [] ∧ CodeLine x.inner ∧ TagSound x.inner ∧ x.inner.ok = true := by
  simp only [TLine2.ok, Bool.and_eq_true] at hok
  obtain ⟨⟨hreg, hin⟩, _⟩ := hok
  have hcp := hx.2.2.1 hreg (by rw [hc]; simp)
  refine ⟨⟨x.text.take x.pfx, by simp [TLine2.inner], hcp⟩, ?_, ?_, hx.1, hin⟩
  · by_cases hn : x.ctx = .none
    · have hp := hx.2.1 hn
      simp only [TLine2.inner, hp, List.drop_zero]
      exact hl.1
    · exact hx.2.2.2 hreg hn
  · simp only [CodeLine, TLine2.inner]
    cases htag : x.tag <;> simp [htag, LineTag.isCode] at hc ⊢

theorem isCodeMore_isCode (tag : LineTag) (h : tag.isCodeMore = true) : tag.isCode = true := by
  cases tag <;> simp [LineTag.isCodeMore, LineTag.isCode] at h ⊢

theorem forall2_map_of_forall {α : Type} (f g : α → Str) (Q : Str → Str → Prop) (l : List α) (h : ∀ x ∈ l, Q (f x) (g x)) :
    Forall2 Q (l.map f) (l.map g) := by
  induction l with
  | nil => exact .nil
  | cons x l ih => exact .cons (h x (by simp)) (ih fun y hy => h y (List.mem_cons_of_mem _ hy))

theorem code2_block_lines (doc : Str) (hD : inDoc2 doc = true) (pre : List TLine2) (t : TLine2) (rest : List TLine2)
    (hts : tagDoc2 doc = pre ++ t :: rest) (ht : t.tag = .codeStart) :
    let k := lineSum2 pre
    let S := crToLf (codeSource ((t :: rest.takeWhile (·.tag.isCodeMore)).map TLine2.inner))
    ∀ (j : Nat) (s : Str), (plines (List.replicate k '\n' ++ S))[k + j]? = some s →
      (∃ d, (plines (crToLf (normaliseCrLf doc)))[k + j]? = some d ∧ PRel (BPrefix 4) s d) ∨
        (s = [] ∧ j + 1 = (plines S).length ∧ (plines (crToLf (normaliseCrLf doc)))[k + j]? = none) := by
  intro k S
  have hok := tagDoc2_linesOk doc pre t rest hts
  have hall := inDoc2_ok doc hD
  have hsnd : ∀ x ∈ tagDoc2 doc, TagSound2 x := tagLines2_sound _ _
  have hmd : ∀ x ∈ tagDoc2 doc, MdLine x.text := by
    intro x hx
    exact (mdLines_ok (normaliseCrLf doc)).mdLine x.text (by rw [← tagDoc2_text]; exact List.mem_map_of_mem hx)
  obtain ⟨more, rest', hbr, hmore⟩ : ∃ more rest', rest = more ++ rest' ∧ more = rest.takeWhile (·.tag.isCodeMore) :=
    ⟨_, _, (List.takeWhile_append_dropWhile (p := fun x : TLine2 => x.tag.isCodeMore) (l := rest)).symm, rfl⟩
  have hmem : ∀ x ∈ t :: more, x ∈ tagDoc2 doc ∧ x.tag.isCode = true := by
    intro x hx
    rcases List.mem_cons.1 hx with rfl | hx
    · exact ⟨by rw [hts]; simp, by rw [ht]; rfl⟩
    · refine ⟨by rw [hts, hbr]; simp [hx], ?_⟩
      rw [hmore] at hx
      exact isCodeMore_isCode _ (mem_takeWhile_imp (fun x : TLine2 => x.tag.isCodeMore) _ _ hx)
  have hinner := fun x hx =>
    code_line_inner x (hsnd x (hmem x hx).1) (hmd x (hmem x hx).1) (hall x (hmem x hx).1) (hmem x hx).2
  have hS : S = crToLf (codeSource (t.inner :: more.map TLine2.inner)) := by
    simp only [S, ← hmore, List.map_cons]
  have hk : k = ((pre.map (·.text)).map pyLineCount).sum := lineSum2_eq pre
  rw [hS, hk]
  apply code_block_lines_genP (normaliseCrLf doc) (pre.map (·.text)) t.inner (more.map TLine2.inner)
    ((t :: more).map (·.text)) (rest'.map (·.text))
  · rw [← List.map_cons, List.map_map]
    exact forall2_map_of_forall _ _ _ _ (fun x hx => (hinner x hx).1)
  · rw [tagDoc2_norm doc pre t rest hts, hbr]; simp
  · have := hok
    rw [hbr] at this
    simpa using this
  · exact ht
  · intro y hy
    rw [← List.map_cons] at hy
    obtain ⟨x, hx, rfl⟩ := List.mem_map.1 hy
    exact (hinner x hx).2.1
  · intro y hy
    rw [← List.map_cons] at hy
    obtain ⟨x, hx, rfl⟩ := List.mem_map.1 hy
    exact (hinner x hx).2.2

end RG
