import RecipeGrid.Lemmas.MdContainers4
/-! Order and disjointness of the blocks `assemble2` produces. -/
namespace RG

theorem assemble2_pos_ge {b : MdBlock} {pos line : Nat} {ts : List TLine2} (h : b ∈ assemble2 pos line ts) :
    pos ≤ b.pos ∧ line ≤ b.startLine := by
  obtain ⟨pre, t, rest, _, h⟩ := mem_assemble2 h
  rcases h with ⟨f, _, rfl⟩ | ⟨_, rfl⟩ <;> simp only <;> omega

theorem assemble2_ordered (pos line : Nat) (ts : List TLine2) (hne : ∀ t ∈ ts, t.text ≠ []) :
    (assemble2 pos line ts).Pairwise fun b1 b2 => b1.pos < b2.pos ∧ b1.startLine ≤ b2.startLine := by
  induction ts generalizing pos line with
  | nil => simp [assemble2]
  | cons t rest ih =>
    simp only [assemble2]
    rw [List.pairwise_append]
    refine ⟨?_, ih _ _ (fun x hx => hne x (List.mem_cons_of_mem _ hx)), ?_⟩
    · split <;> simp
    · intro a ha b hb
      have hpos := assemble2_pos_ge hb
      have htl : 0 < t.text.length := List.length_pos_iff.2 (hne t (by simp))
      split at ha
      · simp only [List.mem_singleton] at ha; subst ha; simp only; omega
      · simp only [List.mem_singleton] at ha; subst ha; simp only; omega
      · simp at ha

theorem lenSum2_append (a b : List TLine2) : lenSum2 (a ++ b) = lenSum2 a + lenSum2 b := by
  simp [lenSum2]

theorem stripFence_inner_length_le (n : Nat) (x : TLine2) : (stripFence n x.inner.text).length ≤ x.text.length := by
  have h1 := stripFence_length_le n x.inner.text
  have h2 : x.inner.text.length ≤ x.text.length := by simp [TLine2.inner]
  omega

theorem fencedSource_inner_length_le (n : Nat) (body : List TLine2) :
    (fencedSource n (body.map TLine2.inner)).length ≤ lenSum2 body := by
  induction body with
  | nil => simp [fencedSource, lenSum2]
  | cons t ts ih =>
    simp only [fencedSource, lenSum2, List.map_cons, List.flatten_cons, List.length_append, List.sum_cons] at ih ⊢
    have := stripFence_inner_length_le n t
    omega

theorem stripCode_inner_length_le (x : TLine2) (hx : x.text ≠ []) : (stripCode x.inner).length ≤ x.text.length := by
  have hpos : 0 < x.text.length := List.length_pos_iff.2 hx
  by_cases hi : x.inner.text = []
  · unfold stripCode
    rw [hi]
    split
    · simp only [stripCodeBlank, leadSpaces, List.takeWhile_nil, List.length_nil]
      simp; omega
    · simp
  · have h1 := stripCode_length_le x.inner hi
    have h2 : x.inner.text.length ≤ x.text.length := by simp [TLine2.inner]
    omega

theorem stripCode_inner_flatten_length_le (ts : List TLine2) (h : ∀ t ∈ ts, t.text ≠ []) :
    (((ts.map TLine2.inner).map stripCode).flatten).length ≤ lenSum2 ts := by
  induction ts with
  | nil => simp [lenSum2]
  | cons t ts ih =>
    have := stripCode_inner_length_le t (h t (by simp))
    have := ih (fun x hx => h x (List.mem_cons_of_mem _ hx))
    simp only [lenSum2, List.map_cons, List.flatten_cons, List.length_append, List.sum_cons] at *
    omega

theorem codeSource_inner_length_le (t : TLine2) (more : List TLine2) (ht : t.tag = .codeStart) (hs : TagSound t.inner)
    (h : ∀ x ∈ more, x.text ≠ []) :
    (codeSource ((t :: more).map TLine2.inner)).length ≤ t.text.length + lenSum2 more := by
  have h4 : 4 ≤ leadSpaces t.inner.text := by
    have : t.inner.tag = .codeStart := ht
    simp only [TagSound, this] at hs; exact hs.1
  have hlen : 4 ≤ t.inner.text.length := by
    have : leadSpaces t.inner.text ≤ t.inner.text.length := length_takeWhile_le _ _
    omega
  have hle : t.inner.text.length ≤ t.text.length := by simp [TLine2.inner]
  have h1 : (stripCode t.inner).length = t.inner.text.length - 4 := by
    have : t.inner.tag = .codeStart := ht
    simp [stripCode, this]
  have h2 := stripCode_inner_flatten_length_le more h
  have h3 := rstripNl_length_le (((t :: more).map TLine2.inner).map stripCode).flatten
  simp only [codeSource, List.length_append, List.length_cons, List.length_nil]
  simp only [List.map_cons, List.flatten_cons, List.length_append] at h3 ⊢
  omega

theorem assemble2_disjoint (pos line : Nat) (ts : List TLine2) (hne : ∀ t ∈ ts, t.text ≠ [])
    (hs : ∀ t ∈ ts, TagSound2 t) :
    (assemble2 pos line ts).Pairwise fun b1 b2 => b1.pos + b1.source.length ≤ b2.pos := by
  induction ts generalizing pos line with
  | nil => simp [assemble2]
  | cons t rest ih =>
    simp only [assemble2]
    rw [List.pairwise_append]
    refine ⟨?_, ih _ _ (fun x hx => hne x (List.mem_cons_of_mem _ hx)) (fun x hx => hs x (List.mem_cons_of_mem _ hx)), ?_⟩
    · split <;> simp
    · intro a ha b hb
      obtain ⟨pre', t', rest', hr, hb'⟩ := mem_assemble2 hb
      have hbpos : b.pos = pos + t.text.length + lenSum2 pre' := by
        rcases hb' with ⟨f, _, rfl⟩ | ⟨_, rfl⟩ <;> rfl
      split at ha
      · rename_i f hf
        simp only [List.mem_singleton] at ha
        subst ha
        simp only
        have hstop : (fun x : TLine2 => x.tag.isFenceBody) t' = false := by
          rcases hb' with ⟨f', hf', _⟩ | ⟨hc', _⟩
          · simp [hf', LineTag.isFenceBody]
          · simp [hc', LineTag.isFenceBody]
        obtain ⟨sfx, hsfx⟩ := takeWhile_prefix_of_stop (fun x : TLine2 => x.tag.isFenceBody) pre' t' rest' hstop
        have h1 := fencedSource_inner_length_le f.indent (rest.takeWhile (·.tag.isFenceBody))
        have h2 : lenSum2 pre' = lenSum2 (rest.takeWhile (·.tag.isFenceBody)) + lenSum2 sfx := by
          conv => lhs; rw [hsfx]
          rw [lenSum2_append, hr]
        omega
      · rename_i hc
        simp only [List.mem_singleton] at ha
        subst ha
        simp only
        have hstop : (fun x : TLine2 => x.tag.isCodeMore) t' = false := by
          rcases hb' with ⟨f', hf', _⟩ | ⟨hc', _⟩
          · simp [hf', LineTag.isCodeMore]
          · simp [hc', LineTag.isCodeMore]
        obtain ⟨sfx, hsfx⟩ := takeWhile_prefix_of_stop (fun x : TLine2 => x.tag.isCodeMore) pre' t' rest' hstop
        have h1 := codeSource_inner_length_le t (rest.takeWhile (·.tag.isCodeMore)) hc (hs t (by simp)).1
          (fun x hx => hne x (List.mem_cons_of_mem _ (mem_of_mem_takeWhile _ _ _ hx)))
        have h2 : lenSum2 pre' = lenSum2 (rest.takeWhile (·.tag.isCodeMore)) + lenSum2 sfx := by
          conv => lhs; rw [hsfx]
          rw [lenSum2_append, hr]
        omega
      · simp at ha

theorem assemble2_length (pos line : Nat) (ts : List TLine2) :
    (assemble2 pos line ts).length = (ts.filter fun t => t.tag.startsBlock).length := by
  induction ts generalizing pos line with
  | nil => rfl
  | cons t rest ih =>
    simp only [assemble2, List.length_append, ih, List.filter_cons]
    cases ht : t.tag <;> simp [LineTag.startsBlock] <;> omega

end RG
