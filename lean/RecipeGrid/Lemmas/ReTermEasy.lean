import RecipeGrid.Lemmas.ReTermScan
/-! The terminals of `grammar.peg` whose scanner is a literal, a class, a run of a class, or a short sequence of those:
    each scanner of `Peg.terminalScanner` is the `match` of the regular expression. -/
namespace RG
namespace Rx
open Parser Peg

/-- the scanner `scan` is `pattern.match` for the regular expression `r`: from every position and with either flag it fails
    iff the regex does not match there, and otherwise ends where the match ends (and hands the flag on) -/
def ScanIs (scan : P Unit) (r : Rx) : Prop :=
  ∀ (t : Array Char) (i : Nat) (z : Bool), scan t ⟨i, z⟩ = (r.matchEnd t i).map fun j => ((), (⟨j, z⟩ : PState))

theorem ScanIs.of_ends {scan : P Unit} {r : Rx} {f : Array Char → Nat → Option Nat} (h : ∀ t, Ends scan t (f t))
    (hf : ∀ t i, f t i = r.matchEnd t i) : ScanIs scan r := by
  intro t i z
  rw [(h t).unit i z, hf]

/-! ## the classes of the grammar -/

theorem cls_hsp : clsTest false [.chr ' ', .chr '\t'] = isHsp := by
  funext c; simp [clsTest, ClsItem.test, isHsp]

theorem cls_digit : clsTest false [.range '0' '9'] = isDigit := by
  funext c; simp [clsTest, ClsItem.test, isDigit]

theorem cls_space : clsTest false [.space] = isReSpace := by
  funext c; simp [clsTest, ClsItem.test]

theorem cls_newline : clsTest false [.chr '\r', .chr '\n'] = isNewline := by
  funext c; simp [clsTest, ClsItem.test, isNewline, Bool.or_comm]

theorem cls_dq : clsTest true [.chr '"', .chr '\n', .chr '\r'] = fun c => c != '"' && !isNewline c := by
  funext c; simp [clsTest, ClsItem.test, isNewline, bne]

theorem cls_sq : clsTest true [.chr '\'', .chr '\n', .chr '\r'] = fun c => c != '\'' && !isNewline c := by
  funext c; simp [clsTest, ClsItem.test, isNewline, bne]

theorem cls_br : clsTest true [.range '0' '9', .chr '{', .chr '}', .chr '\n', .chr '\r']
    = fun c => !isDigit c && c != '{' && c != '}' && !isNewline c := by
  funext c; simp [clsTest, ClsItem.test, isNewline, isDigit, bne, Bool.and_assoc]

theorem cls_edge :
    clsTest true [.chr '"', .chr '\'', .chr ',', .chr ':', .chr '=', .chr '/', .chr '(', .chr ')', .chr '{', .chr '}', .space]
    = isNakedEdge := by
  funext c; simp [clsTest, ClsItem.test, isNakedEdge, isSpecial, Bool.and_assoc, ← Bool.beq_eq_decide_eq]

theorem cls_inner :
    clsTest true [.chr '"', .chr '\'', .chr ',', .chr ':', .chr '=', .chr '/', .chr '(', .chr ')', .chr '{', .chr '}',
      .chr '\n', .chr '\r'] = isNakedInner := by
  funext c; simp [clsTest, ClsItem.test, isNakedInner, isSpecial, isNewline, Bool.and_assoc, ← Bool.beq_eq_decide_eq]

/-! ## closed forms of the engine -/

theorem step_bind {α β} (t : Array Char) (p : Char → Bool) (i : Nat) (k : K α) (g : α → Option β) :
    (step t p i k).bind g = step t p i (fun j => (k j).bind g) := by
  simp only [step]
  cases t[i]? with
  | none => rfl
  | some c => cases hp : p c <;> simp [hp]

theorem step_congr {α} {t : Array Char} {p : Char → Bool} {i : Nat} {k k' : K α} (h : k (i + 1) = k' (i + 1)) :
    step t p i k = step t p i k' := by
  simp only [step]
  cases t[i]? with
  | none => rfl
  | some c => cases hp : p c <;> simp [hp, h]

theorem run_star_cls_some (t : Array Char) (base : Nat) (neg : Bool) (items : List ClsItem) (i : Nat) :
    run t base (star (cls neg items)) i some = some (spanEnd (clsTest neg items) t i) := by
  rw [run_star_cls, tryDown_some]
  have := spanEnd_ge (clsTest neg items) t i
  congr 1; omega

theorem run_plus_cls_some (t : Array Char) (base : Nat) (neg : Bool) (items : List ClsItem) (i : Nat) :
    run t base (plus (cls neg items)) i some
      = step t (clsTest neg items) i (fun j => some (spanEnd (clsTest neg items) t j)) := by
  rw [run_plus_cls]
  congr 1; funext j
  rw [tryDown_some]
  have := spanEnd_ge (clsTest neg items) t j
  congr 1; omega

/-! ## literals, `.`, classes -/

theorem scanIs_lit (c : Char) : ScanIs (lit c) (chr c) :=
  ScanIs.of_ends (fun _ => ends_lit c) fun t i => by rw [matchEnd, run_chr]

theorem scanIs_any : ScanIs (void anyChar) any :=
  ScanIs.of_ends (fun _ => (ends_sat _).void) fun t i => by rw [matchEnd, run_any]

theorem scanIs_cls {neg : Bool} {items : List ClsItem} {p : Char → Bool} (h : clsTest neg items = p) :
    ScanIs (void (sat p)) (cls neg items) :=
  ScanIs.of_ends (fun _ => (ends_sat _).void) fun t i => by rw [matchEnd, run_cls, h]

/-! ## runs of a class: `[ \t]+`, `\s+`, `[ \t]*`, `[0-9]+` -/

theorem scanIs_plus_cls {neg : Bool} {items : List ClsItem} {p : Char → Bool} (h : clsTest neg items = p) :
    ScanIs (skipMany1 p) (plus (cls neg items)) :=
  ScanIs.of_ends (fun _ => ends_skipMany1 p) fun t i => by rw [matchEnd, run_plus_cls_some, h]

theorem scanIs_star_cls {neg : Bool} {items : List ClsItem} {p : Char → Bool} (h : clsTest neg items = p) :
    ScanIs (skipMany p) (star (cls neg items)) :=
  ScanIs.of_ends (fun _ => ends_skipMany p) fun t i => by rw [matchEnd, run_star_cls_some, h]

theorem ends_digits {t : Array Char} : Ends digits t (fun i => step t isDigit i (fun j => some (spanEnd isDigit t j))) :=
  (ends_skipMany1 isDigit).textOf

theorem scanIs_digits : ScanIs (void digits) (plus (cls false [.range '0' '9'])) :=
  ScanIs.of_ends (fun _ => ends_digits.void) fun t i => by rw [matchEnd, run_plus_cls_some, cls_digit]

/-! ## `:?=` -/

theorem scanIs_assign : ScanIs (void assign) (seqs [opt (chr ':'), chr '=']) := by
  refine ScanIs.of_ends (fun t => Ends.void (Ends.orElse
    (Ends.bind (ends_lit ':') fun _ => Ends.bind (ends_lit '=') fun _ => ends_pure true)
    (Ends.bind (ends_lit '=') fun _ => ends_pure false))) fun t i => ?_
  rw [matchEnd, show seqs [opt (chr ':'), chr '='] = seq (opt (chr ':')) (chr '=') from rfl, run_seq, run_opt, run_chr]
  simp only [run_chr, step_bind, Option.bind_some]

/-! ## `[0-9]+(\.[0-9]*)?` -/

theorem ends_decimal {t : Array Char} : Ends decimal t (fun i => (some i).bind fun i =>
    (step t isDigit i (fun j => some (spanEnd isDigit t j))).bind fun j =>
      (orE ((step t (· == '.') j some).bind fun j' => some (spanEnd isDigit t j')) (some j)).bind some) := by
  unfold decimal
  exact Ends.bind ends_getPos fun _ => Ends.bind ends_digits fun _ => Ends.bind
    (Ends.opt (Ends.bind (ends_lit '.') fun _ => (ends_skipMany isDigit).textOf))
    (g := some) fun frac => by cases frac <;> exact ends_pure _

theorem scanIs_decimal :
    ScanIs (void decimal) (seqs [plus (cls false [.range '0' '9']), opt (grp 1 (seqs [chr '.', star (cls false [.range '0' '9'])]))]) := by
  refine ScanIs.of_ends (fun t => Ends.void ends_decimal) fun t i => ?_
  · rw [matchEnd, show seqs [plus (cls false [.range '0' '9']), opt (grp 1 (seqs [chr '.', star (cls false [.range '0' '9'])]))]
      = seq (plus (cls false [.range '0' '9'])) (opt (grp 1 (seq (chr '.') (star (cls false [.range '0' '9']))))) from rfl,
      run_seq, run_plus_cls, cls_digit]
    simp only [Option.bind_some, step_bind]
    congr 1; funext j
    have hge := spanEnd_ge isDigit t j
    have hk : ∀ m, run t i (opt (grp 1 (seq (chr '.') (star (cls false [.range '0' '9']))))) m some
        = orE (step t (· == '.') m (fun m' => some (spanEnd isDigit t m'))) (some m) := by
      intro m
      rw [run_opt, run_grp, run_seq, run_chr]
      simp only [run_star_cls_some, cls_digit]
    obtain ⟨a, ha⟩ : ∃ a, run t i (opt (grp 1 (seq (chr '.') (star (cls false [.range '0' '9']))))) (spanEnd isDigit t j) some = some a := by
      rw [hk]; cases step t (· == '.') (spanEnd isDigit t j) (fun m' => some (spanEnd isDigit t m')) with
      | none => exact ⟨_, rfl⟩
      | some a => exact ⟨a, rfl⟩
    rw [tryDown_first _ _ _ (by rw [show j + (spanEnd isDigit t j - j) = spanEnd isDigit t j by omega]; exact ha), ← ha, hk]
    exact Option.bind_fun_some _

/-! ## `[ \t]*[\r\n]\s*` -/

theorem isNewline_not_hsp {c : Char} (h : isHsp c = true) : isNewline c = false := by
  simp only [isHsp, Bool.or_eq_true, beq_iff_eq] at h
  rcases h with rfl | rfl <;> decide

theorem scanIs_eolBreak :
    ScanIs eolBreak (seqs [star (cls false [.chr ' ', .chr '\t']), cls false [.chr '\r', .chr '\n'], star (cls false [.space])]) := by
  refine ScanIs.of_ends (fun t => Ends.bind (ends_skipMany isHsp) fun _ => Ends.bind (ends_sat isNewline) fun _ => ends_skipMany isReSpace)
    fun t i => ?_
  rw [matchEnd, show seqs [star (cls false [.chr ' ', .chr '\t']), cls false [.chr '\r', .chr '\n'], star (cls false [.space])]
    = seq (star (cls false [.chr ' ', .chr '\t'])) (seq (cls false [.chr '\r', .chr '\n']) (star (cls false [.space]))) from rfl,
    run_seq, run_star_cls, cls_hsp]
  have hge := spanEnd_ge isHsp t i
  rw [tryDown_last]
  · rw [show i + (spanEnd isHsp t i - i) = spanEnd isHsp t i by omega, run_seq, run_cls, cls_newline]
    simp only [run_star_cls_some, cls_space, Option.bind_some, step_bind]
  · intro m h1 h2
    obtain ⟨c, hc, hp⟩ := spanEnd_all h1 (by omega : m < spanEnd isHsp t i)
    rw [run_seq, run_cls, cls_newline]
    exact step_of_not _ fun d hd => by rw [hc] at hd; cases hd; exact isNewline_not_hsp hp

/-! ## `0*[1-9][0-9]*` -/

theorem digits_eq (t : Array Char) (i : Nat) (z : Bool) :
    digits t ⟨i, z⟩ = step t isDigit i (fun j => some ((t.extract i (spanEnd isDigit t j)).toList, (⟨spanEnd isDigit t j, z⟩ : PState))) := by
  simp only [digits, textOf, withText, skipMany1, skipMany, sat, bind_apply, step]
  cases t[i]? with
  | none => rfl
  | some c => cases hp : isDigit c <;> simp [hp]

theorem foldl_digits_zero (ds : Str) : ∀ n, ds.foldl (fun n d => 10 * n + (d.toNat - 48)) n = 0 ↔ n = 0 ∧ ∀ d ∈ ds, d.toNat - 48 = 0 := by
  induction ds with
  | nil => intro n; simp
  | cons d ds ih =>
    intro n
    simp only [List.foldl_cons, ih, List.mem_cons, forall_eq_or_imp]
    constructor
    · rintro ⟨h1, h2⟩; exact ⟨by omega, by omega, h2⟩
    · rintro ⟨h1, h2, h3⟩; exact ⟨by omega, h3⟩

theorem natOfDigits_zero (ds : Str) : natOfDigits ds = 0 ↔ ∀ d ∈ ds, d.toNat - 48 = 0 := by
  unfold natOfDigits; rw [foldl_digits_zero]; simp

theorem mem_extract {t : Array Char} {i e : Nat} {c : Char} :
    c ∈ (t.extract i e).toList ↔ ∃ m, i ≤ m ∧ m < e ∧ t[m]? = some c := by
  rw [Array.mem_toList_iff, Array.mem_iff_getElem?]
  constructor
  · rintro ⟨k, hk⟩
    rw [Array.getElem?_extract] at hk
    split at hk
    · exact ⟨i + k, by omega, by omega, hk⟩
    · cases hk
  · rintro ⟨m, h1, h2, h3⟩
    refine ⟨m - i, ?_⟩
    rw [Array.getElem?_extract]
    have : m < t.size := by
      rcases Nat.lt_or_ge m t.size with h | h
      · exact h
      · simp [Array.getElem?_eq_none h] at h3
    rw [if_pos (by omega), show i + (m - i) = m by omega, h3]

/-- `[1-9]` -/
def isNz (c : Char) : Bool := 49 ≤ c.toNat && c.toNat ≤ 57

theorem cls_nz : clsTest false [.range '1' '9'] = isNz := by
  funext c; simp [clsTest, ClsItem.test, isNz]

theorem isDigit_cases {c : Char} (h : isDigit c = true) : c = '0' ∨ isNz c = true := by
  simp only [isDigit, Bool.and_eq_true, decide_eq_true_eq] at h
  rcases Nat.eq_or_lt_of_le h.1 with h0 | h0
  · left; exact toNat_injective (by rw [← h0]; rfl)
  · right; simp only [isNz, Bool.and_eq_true, decide_eq_true_eq]; omega

theorem isDigit_of_isNz {c : Char} (h : isNz c = true) : isDigit c = true := by
  simp only [isNz, Bool.and_eq_true, decide_eq_true_eq] at h
  simp only [isDigit, Bool.and_eq_true, decide_eq_true_eq]; omega

theorem scanIs_denominator :
    ScanIs denominator (seqs [star (chr '0'), cls false [.range '1' '9'], star (cls false [.range '0' '9'])]) := by
  intro t i z
  have hz0 := spanEnd_ge (· == '0') t i
  -- the zeros are digits
  have hzeros : ∀ m, i ≤ m → m < spanEnd (· == '0') t i → t[m]? = some '0' := by
    intro m h1 h2
    obtain ⟨c, hc, hp⟩ := spanEnd_all h1 h2
    simp only [beq_iff_eq] at hp; rw [hc, hp]
  have hdig : spanEnd isDigit t i = spanEnd isDigit t (spanEnd (· == '0') t i) :=
    spanEnd_from_inside hz0 fun m h1 h2 => ⟨'0', hzeros m h1 h2, by decide⟩
  -- the engine
  have hE : (seqs [star (chr '0'), cls false [.range '1' '9'], star (cls false [.range '0' '9'])]).matchEnd t i
      = step t isNz (spanEnd (· == '0') t i) (fun m => some (spanEnd isDigit t m)) := by
    rw [matchEnd, show seqs [star (chr '0'), cls false [.range '1' '9'], star (cls false [.range '0' '9'])]
      = seq (star (chr '0')) (seq (cls false [.range '1' '9']) (star (cls false [.range '0' '9']))) from rfl,
      run_seq, run_star_chr, tryDown_last]
    · rw [show i + (spanEnd (· == '0') t i - i) = spanEnd (· == '0') t i by omega, run_seq, run_cls, cls_nz]
      simp only [run_star_cls_some, cls_digit]
    · intro m h1 h2
      rw [run_seq, run_cls, cls_nz]
      exact step_of_not _ fun d hd => by
        rw [hzeros m h1 (by omega)] at hd; cases hd; decide
  rw [hE]
  simp only [denominator, bind_apply, digits_eq]
  by_cases hnz : ∃ c, t[spanEnd (· == '0') t i]? = some c ∧ isNz c = true
  · -- a non-zero digit ends the zeros: the whole run of digits, which is not zero
    obtain ⟨c, hc, hn⟩ := hnz
    rw [step_of_some _ hc hn]
    have hi : ∃ d, t[i]? = some d ∧ isDigit d = true := by
      rcases Nat.eq_or_lt_of_le hz0 with h | h
      · exact ⟨c, by rw [h]; exact hc, isDigit_of_isNz hn⟩
      · exact ⟨'0', hzeros i (Nat.le_refl _) h, by decide⟩
    obtain ⟨d, hd, hdd⟩ := hi
    rw [step_of_some _ hd hdd]
    have he : spanEnd isDigit t (i + 1) = spanEnd isDigit t (spanEnd (· == '0') t i + 1) := by
      rw [← spanEnd_of_head hd hdd, hdig, spanEnd_of_head hc (isDigit_of_isNz hn)]
    have hne : natOfDigits (t.extract i (spanEnd isDigit t (i + 1))).toList ≠ 0 := by
      intro h0
      rw [natOfDigits_zero] at h0
      have := h0 c (mem_extract.2 ⟨_, hz0, by rw [he]; exact spanEnd_ge isDigit t _, hc⟩)
      simp only [isNz, Bool.and_eq_true, decide_eq_true_eq] at hn
      omega
    rw [he] at hne
    simp only [he, Option.map_some]
    rw [if_neg hne]; rfl
  · -- otherwise the run of digits is the run of zeros
    have hnot : ∀ c, t[spanEnd (· == '0') t i]? = some c → isDigit c = false := by
      intro c hc
      cases hd : isDigit c with
      | false => rfl
      | true =>
        rcases isDigit_cases hd with rfl | h
        · have := spanEnd_stop hc; simp at this
        · exact absurd ⟨c, hc, h⟩ hnz
    rw [step_of_not (p := isNz) _ fun c hc => by
      cases h : isNz c with
      | false => rfl
      | true => exact absurd ⟨c, hc, h⟩ hnz]
    have he : spanEnd isDigit t i = spanEnd (· == '0') t i := by rw [hdig]; exact spanEnd_of_not hnot
    cases hi : t[i]? with
    | none => rw [step_of_not _ fun c hc => by rw [hi] at hc; cases hc]; rfl
    | some d =>
      cases hdd : isDigit d with
      | false => rw [step_of_not _ fun c hc => by rw [hi] at hc; cases hc; exact hdd]; rfl
      | true =>
        rw [step_of_some _ hi hdd]
        have h0 : natOfDigits (t.extract i (spanEnd isDigit t (i + 1))).toList = 0 := by
          rw [natOfDigits_zero]
          intro x hx
          obtain ⟨m, h1, h2, h3⟩ := mem_extract.1 hx
          rw [← spanEnd_of_head hi hdd, he] at h2
          rw [hzeros m h1 h2] at h3
          cases h3; rfl
        simp only [h0, if_true, fail_apply, Option.map_none]

end Rx
end RG
