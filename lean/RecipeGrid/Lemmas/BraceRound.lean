import RecipeGrid.Lemmas.BraceLex
/-! The deterministic lexer on the spellings of numbers and of text: what is written is what is read. -/
namespace RG.Brace
open Re Parser

/-! ## the whole source -/

/-- the deterministic version of `finditer`: characters at which no token starts are skipped -/
def lexTokensF : Nat → Str → List Part
  | 0, _ => []
  | _ + 1, [] => []
  | fuel + 1, ch :: rest =>
    match lexTok (ch :: rest) with
    | some (p, s') => p :: lexTokensF fuel s'
    | none => lexTokensF fuel rest

def lexTokens (src : Str) : List Part := lexTokensF src.length src

theorem matchesF_eq_lexTokensF : ∀ (fuel : Nat) (s : Str), (matchesF fuel s).map partValue = lexTokensF fuel s
  | 0, _ => rfl
  | _ + 1, [] => rfl
  | fuel + 1, ch :: rest => by
    have h := partAt_eq_lexTok (ch :: rest)
    simp only [matchesF, lexTokensF]
    cases hp : partAt (ch :: rest) with
    | none =>
      rw [hp] at h
      simp only [Option.map_none] at h
      rw [← h]
      exact matchesF_eq_lexTokensF fuel rest
    | some r =>
      obtain ⟨s', c⟩ := r
      rw [hp] at h
      simp only [Option.map_some] at h
      rw [← h]
      simp only [List.map_cons]
      rw [matchesF_eq_lexTokensF fuel s']

/-- **`finditer` with the values of `__init__` is the deterministic lexer** -/
theorem braceTokens_eq_lexTokens (src : Str) : braceTokens src = lexTokens src :=
  matchesF_eq_lexTokensF _ _

/-! ## spellings of numbers -/

theorem lexFracTail_spelling (n h2 h3 d r : Str)
    (hne : n ≠ []) (hn : ∀ ch ∈ n, isDigit ch = true) (hh2 : ∀ ch ∈ h2, isHsp ch = true)
    (hh3 : ∀ ch ∈ h3, isHsp ch = true) (hdne : d ≠ []) (hd : ∀ ch ∈ d, isDigit ch = true) (hnz : hasNonZero d = true)
    (hr : ∀ ch, r.head? = some ch → isDigit ch = false) :
    lexFracTail (n ++ (h2 ++ '/' :: (h3 ++ (d ++ r)))) = some (n, d, r) := by
  have t1 := takeWhile_append_stop isDigit n (h2 ++ '/' :: (h3 ++ (d ++ r))) hn (head_blanks_slash h2 _ hh2)
  have t2 := takeWhile_append_stop isHsp h2 ('/' :: (h3 ++ (d ++ r))) hh2
    (by intro ch hch; simp at hch; subst hch; decide)
  have t3 := takeWhile_append_stop isHsp h3 (d ++ r) hh3
    (by intro ch hch
        exact isHsp_of_isDigit (head_append_of_ne (p := fun x => isDigit x = true) hdne hd ch hch))
  have t4 := takeWhile_append_stop isDigit d r hd hr
  unfold lexFracTail
  rw [t1.1, t1.2, t2.2]
  simp only [hne, if_false, if_true, t3.2, t4.1, t4.2, hnz]

theorem lexFracTail_none_of_head (s : Str) (h : ∀ ch, s.head? = some ch → isDigit ch = false) :
    lexFracTail s = none := by
  unfold lexFracTail
  have : s.takeWhile isDigit = [] := by
    cases s with
    | nil => rfl
    | cons ch s => simp [h ch rfl]
  simp [this]

/-- `integer blanks numerator blanks / blanks denominator` -/
theorem lexNumber_mixed (i h1 n h2 h3 d r : Str)
    (hine : i ≠ []) (hi : ∀ ch ∈ i, isDigit ch = true) (h1ne : h1 ≠ []) (hh1 : ∀ ch ∈ h1, isHsp ch = true)
    (hne : n ≠ []) (hn : ∀ ch ∈ n, isDigit ch = true) (hh2 : ∀ ch ∈ h2, isHsp ch = true)
    (hh3 : ∀ ch ∈ h3, isHsp ch = true) (hdne : d ≠ []) (hd : ∀ ch ∈ d, isDigit ch = true) (hnz : hasNonZero d = true)
    (hr : ∀ ch, r.head? = some ch → isDigit ch = false) :
    lexNumber (i ++ (h1 ++ (n ++ (h2 ++ '/' :: (h3 ++ (d ++ r)))))) = (fracValue (some i) n d, r) := by
  have t1 := takeWhile_append_stop isDigit i (h1 ++ (n ++ (h2 ++ '/' :: (h3 ++ (d ++ r))))) hi
    (fun ch hch => isDigit_not_hsp (head_append_of_ne (p := fun x => isHsp x = true) h1ne hh1 ch hch))
  have t2 := takeWhile_append_stop isHsp h1 (n ++ (h2 ++ '/' :: (h3 ++ (d ++ r)))) hh1
    (fun ch hch => isHsp_of_isDigit (head_append_of_ne (p := fun x => isDigit x = true) hne hn ch hch))
  have hfi : lexFracInt (i ++ (h1 ++ (n ++ (h2 ++ '/' :: (h3 ++ (d ++ r))))))
      = some (i, n ++ (h2 ++ '/' :: (h3 ++ (d ++ r)))) := by
    unfold lexFracInt
    rw [t1.1, t1.2, t2.1, t2.2]
    simp [hine, h1ne]
  unfold lexNumber lexMixed
  rw [hfi]
  simp only [lexFracTail_spelling n h2 h3 d r hne hn hh2 hh3 hdne hd hnz hr]

/-- `numerator blanks / blanks denominator` -/
theorem lexNumber_frac (n h2 h3 d r : Str)
    (hne : n ≠ []) (hn : ∀ ch ∈ n, isDigit ch = true) (hh2 : ∀ ch ∈ h2, isHsp ch = true)
    (hh3 : ∀ ch ∈ h3, isHsp ch = true) (hdne : d ≠ []) (hd : ∀ ch ∈ d, isDigit ch = true) (hnz : hasNonZero d = true)
    (hr : ∀ ch, r.head? = some ch → isDigit ch = false) :
    lexNumber (n ++ (h2 ++ '/' :: (h3 ++ (d ++ r)))) = (fracValue none n d, r) := by
  have t1 := takeWhile_append_stop isDigit n (h2 ++ '/' :: (h3 ++ (d ++ r))) hn (head_blanks_slash h2 _ hh2)
  have t2 := takeWhile_append_stop isHsp h2 ('/' :: (h3 ++ (d ++ r))) hh2
    (by intro ch hch; simp at hch; subst hch; decide)
  have hm : lexMixed (n ++ (h2 ++ '/' :: (h3 ++ (d ++ r)))) = none := by
    unfold lexMixed lexFracInt
    rw [t1.1, t1.2, t2.1, t2.2]
    by_cases h : n = [] ∨ h2 = []
    · simp [h]
    · simp only [h, if_false]
      rw [lexFracTail_none_of_head _ (by intro ch hch; simp at hch; subst hch; decide)]
  unfold lexNumber
  rw [hm]
  simp only [lexFracTail_spelling n h2 h3 d r hne hn hh2 hh3 hdne hd hnz hr]

/-- `whole . digits` -/
theorem lexNumber_float (w f r : Str)
    (hne : w ≠ []) (hw : ∀ ch ∈ w, isDigit ch = true) (hf : ∀ ch ∈ f, isDigit ch = true)
    (hr : ∀ ch, r.head? = some ch → isDigit ch = false) :
    lexNumber (w ++ '.' :: (f ++ r)) = (floatValue w f, r) := by
  have t1 := takeWhile_append_stop isDigit w ('.' :: (f ++ r)) hw (by intro ch hch; simp at hch; subst hch; decide)
  have t2 := takeWhile_append_stop isDigit f r hf hr
  have hm : lexMixed (w ++ '.' :: (f ++ r)) = none := by
    unfold lexMixed lexFracInt
    rw [t1.2]
    simp [show isHsp '.' = false by decide]
  have ht : lexFracTail (w ++ '.' :: (f ++ r)) = none := by
    unfold lexFracTail
    rw [t1.1, t1.2]
    simp [hne, show isHsp '.' = false by decide]
  unfold lexNumber
  rw [hm]
  simp only [ht]
  unfold lexDecimal
  rw [t1.1, t1.2]
  simp only [if_true, t2.1, t2.2]

/-- what may follow the digits of an integer: no ".", and - after optional blanks - neither a digit nor a "/" -/
def IntFollow (r : Str) : Prop :=
  r.head? ≠ some '.' ∧ ∀ ch, (r.dropWhile isHsp).head? = some ch → isDigit ch = false ∧ ch ≠ '/'

theorem IntFollow.head_not_digit {r : Str} (h : IntFollow r) : ∀ ch, r.head? = some ch → isDigit ch = false := by
  intro ch hch
  cases r with
  | nil => cases hch
  | cons x r =>
    simp only [List.head?_cons, Option.some.injEq] at hch
    subst hch
    cases hd : isDigit x with
    | false => rfl
    | true =>
      have := (h.2 x (by simp [isHsp_of_isDigit hd])).1
      rw [hd] at this
      cases this

/-- digits alone -/
theorem lexNumber_int (w r : Str) (hne : w ≠ []) (hw : ∀ ch ∈ w, isDigit ch = true) (hr : IntFollow r) :
    lexNumber (w ++ r) = (intValue w, r) := by
  have hnd := hr.head_not_digit
  have t1 := takeWhile_append_stop isDigit w r hw hnd
  have htail : lexFracTail (r.dropWhile isHsp) = none :=
    lexFracTail_none_of_head _ (fun ch hch => (hr.2 ch hch).1)
  have hm : lexMixed (w ++ r) = none := by
    unfold lexMixed lexFracInt
    rw [t1.1, t1.2]
    by_cases h : w = [] ∨ r.takeWhile isHsp = []
    · simp [h]
    · simp only [h, if_false, htail]
  have ht : lexFracTail (w ++ r) = none := by
    unfold lexFracTail
    rw [t1.1, t1.2]
    simp only [hne, if_false]
    cases hrr : r.dropWhile isHsp with
    | nil => rfl
    | cons x rr =>
      have := (hr.2 x (by rw [hrr]; rfl)).2
      simp [this]
  unfold lexNumber
  rw [hm]
  simp only [ht]
  unfold lexDecimal
  rw [t1.1, t1.2]
  cases r with
  | nil => rfl
  | cons x r =>
    have : x ≠ '.' := by
      intro hx; subst hx
      exact hr.1 rfl
    simp [this]


/-- at a digit the lexer reads a number -/
theorem lexTok_of_digit_head (w r : Str) (hne : w ≠ []) (hw : ∀ ch ∈ w, isDigit ch = true) :
    lexTok (w ++ r) = some (.num (lexNumber (w ++ r)).1, (lexNumber (w ++ r)).2) := by
  cases w with
  | nil => exact absurd rfl hne
  | cons ch w => simp [lexTok, hw ch (List.mem_cons_self ..)]

end RG.Brace
