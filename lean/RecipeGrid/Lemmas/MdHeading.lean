import RecipeGrid.Model.MdHeading
import RecipeGrid.Lemmas.Heading
/-! Lemmas about the first-heading model (`Model/MdHeading.lean`): `html.unescape` / `html.escape` on concatenations,
    the inline scanner in front of an inert suffix, the block scanner on a document that starts with an ATX heading. -/
namespace RG

-- ---------------------------------------------------------------- html.unescape
theorem splitAmp_of_no_amp (s : Str) (h : '&' ∉ s) : splitAmp s = (s, []) := by
  induction s with
  | nil => rfl
  | cons c r ih =>
    have hc : c ≠ '&' := fun e => h (by simp [e])
    have hr : '&' ∉ r := fun e => h (by simp [e])
    simp [splitAmp, ih hr, hc]

/-- a text without `&` has no character reference -/
theorem htmlUnescape_of_no_amp (s : Str) (h : '&' ∉ s) : htmlUnescape s = s := by
  simp [htmlUnescape, splitAmp_of_no_amp s h]

theorem takeWhile_dropWhile_append_stop {α} (p : α → Bool) (a b : List α) (x : α) (xs : List α)
    (h : a.dropWhile p = x :: xs) :
    (a ++ b).takeWhile p = a.takeWhile p ∧ (a ++ b).dropWhile p = x :: xs ++ b := by
  induction a with
  | nil => simp at h
  | cons c r ih =>
    by_cases hc : p c = true
    · simp only [List.dropWhile_cons, hc, if_true] at h
      simp [List.takeWhile_cons, List.dropWhile_cons, hc, ih h]
    · simp only [List.dropWhile_cons, hc] at h
      simp only [Bool.false_eq_true, if_false] at h
      simp [List.takeWhile_cons, List.dropWhile_cons, hc, ← h]

theorem takeWhile_of_all {α} (p : α → Bool) (b : List α) (hb : ∀ x ∈ b, p x = true) : b.takeWhile p = b := by
  induction b with
  | nil => rfl
  | cons c r ih => simp [List.takeWhile_cons, hb c (by simp), ih (fun x hx => hb x (by simp [hx]))]

theorem dropWhile_of_all {α} (p : α → Bool) (b : List α) (hb : ∀ x ∈ b, p x = true) : b.dropWhile p = [] := by
  induction b with
  | nil => rfl
  | cons c r ih => simp [List.dropWhile_cons, hb c (by simp), ih (fun x hx => hb x (by simp [hx]))]

theorem takeWhile_dropWhile_append_all {α} (p : α → Bool) (a b : List α) (h : a.dropWhile p = [])
    (hb : ∀ x ∈ b, p x = true) :
    (a ++ b).takeWhile p = a ++ b ∧ (a ++ b).dropWhile p = [] ∧ a.takeWhile p = a := by
  induction a with
  | nil =>
    refine ⟨?_, ?_, rfl⟩
    · simpa using takeWhile_of_all p b hb
    · simpa using dropWhile_of_all p b hb
  | cons c r ih =>
    by_cases hc : p c = true
    · simp only [List.dropWhile_cons, hc, if_true] at h
      obtain ⟨h1, h2, h3⟩ := ih h
      simp [List.takeWhile_cons, List.dropWhile_cons, hc, h1, h2, h3]
    · simp [List.dropWhile_cons, hc] at h

theorem dropWhile_head_not {α} (p : α → Bool) (a : List α) (x : α) (xs : List α) (h : a.dropWhile p = x :: xs) :
    p x = false := by
  induction a with
  | nil => simp at h
  | cons c r ih =>
    by_cases hc : p c = true
    · simp only [List.dropWhile_cons, hc, if_true] at h; exact ih h
    · simp only [List.dropWhile_cons, hc, Bool.false_eq_true, if_false, List.cons.injEq] at h
      rw [← h.1]; simpa using hc

/-- text without `;` behind a segment stays behind it -/
theorem decodeSeg_append (seg b : Str) (hb : ';' ∉ b) : decodeSeg (seg ++ b) = decodeSeg seg ++ b := by
  have hb' : ∀ x ∈ b, (x != ';') = true := by
    intro x hx
    simp only [bne_iff_ne, ne_eq]
    intro e; exact hb (e ▸ hx)
  cases hd : seg.dropWhile (· != ';') with
  | nil =>
    obtain ⟨h1, h2, h3⟩ := takeWhile_dropWhile_append_all _ seg b hd hb'
    simp [decodeSeg, hd, h2]
  | cons x xs =>
    obtain ⟨h1, h2⟩ := takeWhile_dropWhile_append_stop _ seg b x xs hd
    have hx : x = ';' := by simpa using dropWhile_head_not _ seg x xs hd
    subst hx
    simp only [decodeSeg, hd, h1, h2]
    cases decodeRef (List.takeWhile (fun x => x != ';') seg) <;> simp

def segsOut (segs : List Str) : Str := (segs.map decodeSeg).flatten

theorem splitAmp_append (a b : Str) (hamp : '&' ∉ b) (hsemi : ';' ∉ b) :
    ((splitAmp a).2 = [] ∧ splitAmp (a ++ b) = ((splitAmp a).1 ++ b, [])) ∨
    ((splitAmp a).2 ≠ [] ∧ (splitAmp (a ++ b)).1 = (splitAmp a).1 ∧
      segsOut (splitAmp (a ++ b)).2 = segsOut (splitAmp a).2 ++ b) := by
  induction a with
  | nil => left; simp [splitAmp, splitAmp_of_no_amp b hamp]
  | cons c r ih =>
    by_cases hc : c = '&'
    · right
      subst hc
      simp only [List.cons_append, splitAmp, if_true]
      refine ⟨by simp, trivial, ?_⟩
      rcases ih with ⟨h1, h2⟩ | ⟨h1, h2, h3⟩
      · simp [segsOut, h1, h2, decodeSeg_append _ b hsemi]
      · simp only [segsOut, List.map_cons, List.flatten_cons] at h3 ⊢
        rw [h2, h3]; simp
    · rcases ih with ⟨h1, h2⟩ | ⟨h1, h2, h3⟩
      · left
        simp [splitAmp, hc, h1, h2]
      · right
        simp only [List.cons_append, splitAmp, hc, if_false]
        exact ⟨h1, by rw [h2], h3⟩

/-- text without `&` and `;` behind a text is not touched by, and does not change, the decoding of the text -/
theorem htmlUnescape_append (a b : Str) (hamp : '&' ∉ b) (hsemi : ';' ∉ b) :
    htmlUnescape (a ++ b) = htmlUnescape a ++ b := by
  rcases splitAmp_append a b hamp hsemi with ⟨h1, h2⟩ | ⟨h1, h2, h3⟩
  · simp [htmlUnescape, h1, h2]
  · have h3' : ((splitAmp (a ++ b)).2.map decodeSeg).flatten = ((splitAmp a).2.map decodeSeg).flatten ++ b := h3
    simp only [htmlUnescape, h2, h3', List.append_assoc]

-- ---------------------------------------------------------------- html.escape
theorem mkEscape_append (a b : Str) : mkEscape (a ++ b) = mkEscape a ++ mkEscape b := by
  simp [mkEscape]

theorem mkEscape_nil : mkEscape [] = [] := rfl
theorem mkEscape_cons (c : Char) (s : Str) : mkEscape (c :: s) = mkEscChar c ++ mkEscape s := by
  simp [mkEscape]

def isEscaped (c : Char) : Bool := c == '&' || c == '<' || c == '>' || c == '"'

theorem mkEscChar_of_not {c : Char} (h : isEscaped c = false) : mkEscChar c = [c] := by
  simp only [isEscaped, Bool.or_eq_false_iff, beq_eq_false_iff_ne, ne_eq] at h
  simp [mkEscChar, h.1.1.1, h.1.1.2, h.1.2, h.2]

theorem mkEscape_of_none (s : Str) (h : ∀ c ∈ s, isEscaped c = false) : mkEscape s = s := by
  induction s with
  | nil => rfl
  | cons c r ih =>
    rw [mkEscape_cons, mkEscChar_of_not (h c (by simp)), ih (fun x hx => h x (by simp [hx]))]
    rfl

/-- `html.unescape` (as the project applies it to the rendered heading) undoes marko's `html.escape` -/
theorem unescapeEntities_mkEscape (s : Str) : unescapeEntities (mkEscape s) = s := by
  induction s with
  | nil => rfl
  | cons c r ih =>
    rw [mkEscape_cons]
    by_cases h1 : c = '&'
    · subst h1; simp [mkEscChar, unescapeEntities, ih]
    by_cases h2 : c = '<'
    · subst h2; simp [mkEscChar, unescapeEntities, ih]
    by_cases h3 : c = '>'
    · subst h3; simp [mkEscChar, unescapeEntities, ih]
    by_cases h4 : c = '"'
    · subst h4; simp [mkEscChar, unescapeEntities, ih]
    simp only [mkEscChar, h1, h2, h3, h4, if_false, List.singleton_append]
    rw [unescapeEntities.eq_def]
    split <;> simp_all

theorem lt_not_mem_mkEscape (s : Str) : '<' ∉ mkEscape s := by
  induction s with
  | nil => simp [mkEscape]
  | cons c r ih =>
    rw [mkEscape_cons]
    simp only [List.mem_append, not_or]
    refine ⟨?_, ih⟩
    simp only [mkEscChar]
    by_cases h2 : c = '<'
    · subst h2; decide
    · split
      · decide
      split
      · decide
      split
      · decide
      · simpa using fun e => h2 e.symm

-- ---------------------------------------------------------------- the inline scanner
/-- a character that is no ASCII punctuation and no line feed: it cannot take part in any inline construct -/
def Inert (c : Char) : Prop := isAsciiPunct c = false ∧ c ≠ '\n'

theorem Inert.ne_backslash {c : Char} (h : Inert c) : c ≠ '\\' := by
  intro e; subst e; exact absurd h.1 (by decide)
theorem Inert.ne_amp {c : Char} (h : Inert c) : c ≠ '&' := by
  intro e; subst e; exact absurd h.1 (by decide)
theorem Inert.ne_semi {c : Char} (h : Inert c) : c ≠ ';' := by
  intro e; subst e; exact absurd h.1 (by decide)
theorem Inert.not_special {c : Char} (h : Inert c) : isInlineSpecial c = false := by
  cases hs : isInlineSpecial c with
  | false => rfl
  | true =>
    simp only [isInlineSpecial, Bool.or_eq_true, beq_iff_eq] at hs
    rcases hs with ((((rfl | rfl) | rfl) | rfl) | rfl) | rfl <;> exact absurd h.1 (by decide)
theorem Inert.not_escaped {c : Char} (h : Inert c) : isEscaped c = false := by
  cases hs : isEscaped c with
  | false => rfl
  | true =>
    simp only [isEscaped, Bool.or_eq_true, beq_iff_eq] at hs
    rcases hs with ((rfl | rfl) | rfl) | rfl <;> exact absurd h.1 (by decide)

theorem inert_no_amp {s : Str} (h : ∀ c ∈ s, Inert c) : '&' ∉ s := fun hm => (h _ hm).ne_amp rfl
theorem inert_no_semi {s : Str} (h : ∀ c ∈ s, Inert c) : ';' ∉ s := fun hm => (h _ hm).ne_semi rfl

def InlScan.append : InlScan → Str → InlScan
  | .ok d h, s => .ok (d ++ s) h
  | .special, _ => .special

theorem InlScan.append_prepend (x : InlScan) (a s : Str) : (x.prepend a).append s = (x.append s).prepend a := by
  cases x <;> simp [InlScan.append, InlScan.prepend]
theorem InlScan.append_setHard (x : InlScan) (s : Str) : (x.setHard).append s = (x.append s).setHard := by
  cases x <;> simp [InlScan.append, InlScan.setHard]

/-- a character that is literal text wherever it stands: no backslash, no line feed, none of `* _ ` [ < {` -/
def RawChar (c : Char) : Prop := c ≠ '\\' ∧ c ≠ '\n' ∧ isInlineSpecial c = false

instance (c : Char) : Decidable (RawChar c) := inferInstanceAs (Decidable (_ ∧ _))

theorem Inert.rawChar {c : Char} (h : Inert c) : RawChar c := ⟨h.ne_backslash, h.2, h.not_special⟩

/-- text of raw characters is one raw run -/
theorem scanInline_raw (run suf : Str) (h : ∀ c ∈ suf, RawChar c) :
    scanInline run suf = .ok (htmlUnescape (run.reverse ++ suf)) false := by
  induction suf generalizing run with
  | nil => simp [scanInline]
  | cons c r ih =>
    have hc := h c (by simp)
    cases r with
    | nil => simp [scanInline, hc.2.2]
    | cons d r' =>
      rw [scanInline]
      simp only [hc.1, hc.2.1, hc.2.2, if_false, Bool.false_eq_true]
      rw [ih _ (fun x hx => h x (by simp [hx]))]
      simp

theorem scanInline_inert (run suf : Str) (h : ∀ c ∈ suf, Inert c) :
    scanInline run suf = .ok (htmlUnescape (run.reverse ++ suf)) false :=
  scanInline_raw run suf (fun c hc => (h c hc).rawChar)

/-- inert text behind a heading text that does not end in a line feed: one more piece of the last raw run -/
theorem scanInline_append_inert (run T suf : Str) (hlast : T.getLast? ≠ some '\n') (h : ∀ c ∈ suf, Inert c) :
    scanInline run (T ++ suf) = (scanInline run T).append suf := by
  fun_induction scanInline run T with
  | case1 run =>
    simp only [List.nil_append, InlScan.append]
    rw [scanInline_inert run suf h, htmlUnescape_append _ _ (inert_no_amp h) (inert_no_semi h)]
  | case2 run c hsp =>
    have h1 : c ≠ '\\' := by intro e; subst e; exact absurd hsp (by decide)
    have h2 : c ≠ '\n' := by intro e; subst e; exact absurd hsp (by decide)
    cases suf with
    | nil => simp [scanInline, hsp, InlScan.append]
    | cons d r => simp [scanInline, hsp, h1, h2, InlScan.append]
  | case3 run c hns =>
    have h2 : c ≠ '\n' := by intro e; subst e; simp at hlast
    cases suf with
    | nil => simp [scanInline, hns, InlScan.append]
    | cons d r =>
      have hd := h d (by simp)
      have hsuf := htmlUnescape_append ((c :: run).reverse) (d :: r) (inert_no_amp h) (inert_no_semi h)
      by_cases h1 : c = '\\'
      · subst h1
        rw [show ['\\'] ++ d :: r = '\\' :: d :: r from rfl, scanInline.eq_3]
        simp only [if_true, hd.1, hd.2, Bool.false_eq_true, if_false, decide_false, Bool.false_and, hns]
        rw [scanInline_inert _ _ h, hsuf]
        simp [InlScan.append]
      · rw [show [c] ++ d :: r = c :: d :: r from rfl, scanInline.eq_3]
        simp only [h1, h2, if_false, hns, Bool.false_eq_true]
        rw [scanInline_inert _ _ h, hsuf]
        simp [InlScan.append]
  | case4 run d r hp ih =>
    have hl : r.getLast? ≠ some '\n' := by
      cases r with
      | nil => simp
      | cons x xs => simpa [List.getLast?_cons_cons] using hlast
    rw [show ('\\' :: d :: r) ++ suf = '\\' :: d :: (r ++ suf) from rfl, scanInline.eq_3]
    simp only [if_true, hp]
    rw [ih hl, InlScan.append_prepend]
  | case5 run d r hnp hnl ih =>
    have hl : r.getLast? ≠ some '\n' := by
      cases r with
      | nil => simp
      | cons x xs => simpa [List.getLast?_cons_cons] using hlast
    have hne : (decide (d = '\n') && !(r ++ suf).isEmpty) = true := by
      simp only [Bool.and_eq_true, decide_eq_true_eq, Bool.not_eq_true', List.isEmpty_eq_false_iff] at hnl ⊢
      exact ⟨hnl.1, by simp [hnl.2]⟩
    rw [show ('\\' :: d :: r) ++ suf = '\\' :: d :: (r ++ suf) from rfl, scanInline.eq_3]
    simp only [if_true, hnp, hnl, hne, Bool.false_eq_true, if_false]
    rw [ih hl, InlScan.append_setHard, InlScan.append_prepend]
  | case6 run d r hnp hnl ih =>
    have hl : (d :: r).getLast? ≠ some '\n' := by simpa [List.getLast?_cons_cons] using hlast
    have hd : d ≠ '\n' := by
      intro e; subst e
      cases r with
      | nil => simp at hlast
      | cons x xs => simp at hnl
    rw [show ('\\' :: d :: r) ++ suf = '\\' :: d :: (r ++ suf) from rfl, scanInline.eq_3]
    simp only [if_true, hnp, hd, decide_false, Bool.false_and, Bool.false_eq_true, if_false]
    exact ih hl
  | case7 run d r k hk hne ih =>
    have hl : (d :: r).getLast? ≠ some '\n' := by simpa [List.getLast?_cons_cons] using hlast
    rw [show ('\n' :: d :: r) ++ suf = '\n' :: d :: (r ++ suf) from rfl, scanInline.eq_3]
    simp only [hne, if_false, if_true]
    have hk' : 2 ≤ (List.takeWhile (fun x => x == ' ') run).length := hk
    simp only [hk', if_true]
    rw [show d :: (r ++ suf) = (d :: r) ++ suf from rfl, ih hl, InlScan.append_setHard, InlScan.append_prepend]
  | case8 run d r k hk hne ih =>
    have hl : (d :: r).getLast? ≠ some '\n' := by simpa [List.getLast?_cons_cons] using hlast
    rw [show ('\n' :: d :: r) ++ suf = '\n' :: d :: (r ++ suf) from rfl, scanInline.eq_3]
    simp only [hne, if_false, if_true]
    have hk' : ¬ 2 ≤ (List.takeWhile (fun x => x == ' ') run).length := hk
    simp only [hk', if_false]
    rw [show d :: (r ++ suf) = (d :: r) ++ suf from rfl, ih hl, InlScan.append_prepend]
  | case9 run c d r h1 h2 hsp =>
    rw [show (c :: d :: r) ++ suf = c :: d :: (r ++ suf) from rfl, scanInline.eq_3]
    simp [h1, h2, hsp, InlScan.append]
  | case10 run c d r h1 h2 hsp ih =>
    have hl : (d :: r).getLast? ≠ some '\n' := by simpa [List.getLast?_cons_cons] using hlast
    rw [show (c :: d :: r) ++ suf = c :: d :: (r ++ suf) from rfl, scanInline.eq_3]
    simp only [h1, h2, hsp, if_false, Bool.false_eq_true]
    exact ih hl

-- ---------------------------------------------------------------- strip
theorem rstripStr_of_getLast {s : Str} (h : ∀ c, s.getLast? = some c → isReSpace c = false) : rstripStr s = s := by
  unfold rstripStr
  cases hr : s.reverse with
  | nil => simpa using hr
  | cons c t =>
    have hl : s.getLast? = some c := by rw [List.getLast?_eq_head?_reverse, hr]; rfl
    have hc : isStripSpace c = false := by rw [isStripSpace_eq_isReSpace]; exact h c hl
    simp only [List.dropWhile_cons, hc, Bool.false_eq_true, if_false]
    rw [← hr, List.reverse_reverse]

theorem lstripStr_of_head {s : Str} (h : ∀ c, s.head? = some c → isReSpace c = false) : lstripStr s = s := by
  unfold lstripStr
  cases s with
  | nil => rfl
  | cons c t =>
    have hc : isStripSpace c = false := by rw [isStripSpace_eq_isReSpace]; exact h c rfl
    simp [List.dropWhile_cons, hc]

theorem stripStr_of_ends {s : Str} (h1 : ∀ c, s.head? = some c → isReSpace c = false)
    (h2 : ∀ c, s.getLast? = some c → isReSpace c = false) : stripStr s = s := by
  rw [stripStr, lstripStr_of_head h1, rstripStr_of_getLast h2]

-- ---------------------------------------------------------------- lines
theorem normaliseCrLf_cons_ne (c : Char) (rest : Str) (hc : c ≠ '\r') : normaliseCrLf (c :: rest) = c :: normaliseCrLf rest := by
  rw [normaliseCrLf.eq_def]
  split
  · rename_i h; simp only [List.cons.injEq] at h; exact absurd h.1 hc
  · rename_i h; simp only [List.cons.injEq] at h; rw [h.1, h.2]
  · rename_i h; simp at h

/-- a first line without carriage return is not touched by the CRLF normalisation -/
theorem normaliseCrLf_line (a rest : Str) (ha : '\r' ∉ a) :
    normaliseCrLf (a ++ '\n' :: rest) = a ++ '\n' :: normaliseCrLf rest := by
  induction a with
  | nil => exact normaliseCrLf_cons_ne _ _ (by decide)
  | cons c r ih =>
    have hc : c ≠ '\r' := fun e => ha (by simp [e])
    rw [List.cons_append, normaliseCrLf_cons_ne _ _ hc, ih (fun e => ha (by simp [e]))]
    rfl

theorem mdLines_line (a rest : Str) (ha : '\n' ∉ a) : mdLines (a ++ '\n' :: rest) = (a ++ ['\n']) :: mdLines rest := by
  induction a with
  | nil => simp [mdLines]
  | cons c r ih =>
    have hc : c ≠ '\n' := fun e => ha (by simp [e])
    rw [List.cons_append, mdLines]
    simp only [hc, if_false]
    rw [ih (fun e => ha (by simp [e]))]
    rfl

-- ---------------------------------------------------------------- an ATX heading line
def hashes (k : Nat) : Str := List.replicate k '#'

theorem hashes_takeWhile (k : Nat) (tail : Str) (h : tail.head? ≠ some '#') :
    (hashes k ++ tail).takeWhile (· == '#') = hashes k := by
  induction k with
  | zero =>
    cases tail with
    | nil => rfl
    | cons c t =>
      have : c ≠ '#' := by simpa using h
      simp [hashes, List.takeWhile_cons, this]
  | succ k ih =>
    have : hashes (k + 1) ++ tail = '#' :: (hashes k ++ tail) := by simp [hashes, List.replicate_succ]
    rw [this, List.takeWhile_cons]
    simp only [beq_self_eq_true, if_true, ih]
    simp [hashes, List.replicate_succ]

theorem hashes_drop (k : Nat) (tail : Str) : (hashes k ++ tail).drop k = tail := by
  simp [hashes]

theorem takeWhile_ne_nl (body : Str) (hb : '\n' ∉ body) (rest : Str) :
    (body ++ '\n' :: rest).takeWhile (· != '\n') = body := by
  induction body with
  | nil => simp
  | cons c r ih =>
    have hc : c ≠ '\n' := fun e => hb (by simp [e])
    simp [List.takeWhile_cons, hc, ih (fun e => hb (by simp [e]))]

/-- the line `#…# body` (1–6 `#`, a space) at the top of a document is the first heading -/
theorem findHeading_atx_first (k : Nat) (body : Str) (ls : List Str) (hk1 : 1 ≤ k) (hk6 : k ≤ 6) (hb : '\n' ∉ body) :
    findHeading .top [] ((hashes k ++ ' ' :: (body ++ ['\n'])) :: ls) = .heading k (atxContent (' ' :: body)) := by
  obtain ⟨j, rfl⟩ : ∃ j, k = j + 1 := ⟨k - 1, by omega⟩
  have hl : hashes (j + 1) ++ ' ' :: (body ++ ['\n']) = '#' :: (hashes j ++ ' ' :: (body ++ ['\n'])) := by
    simp [hashes, List.replicate_succ]
  have htw : (hashes (j + 1) ++ ' ' :: (body ++ ['\n'])).takeWhile (· == '#') = hashes (j + 1) :=
    hashes_takeWhile _ _ (by simp)
  have hlen : (hashes (j + 1)).length = j + 1 := by simp [hashes]
  have hlead : leadSpaces (hashes (j + 1) ++ ' ' :: (body ++ ['\n'])) = 0 := by
    rw [hl]; simp [leadSpaces, List.takeWhile_cons]
  have hblank : isBlankLine (hashes (j + 1) ++ ' ' :: (body ++ ['\n'])) = false := by
    rw [hl]; simp only [isBlankLine, List.all_cons]
    have : isReSpace '#' = false := by decide
    simp [this]
  have hfence : fenceOpen? (hashes (j + 1) ++ ' ' :: (body ++ ['\n'])) = none := by
    simp only [fenceOpen?, hlead]
    rw [hl]; simp
  have hhead : isHeadingLine (hashes (j + 1) ++ ' ' :: (body ++ ['\n'])) = true := by
    simp only [isHeadingLine, hlead, List.drop_zero]
    rw [htw, hlen, hashes_drop]
    have : isReSpace ' ' = true := by decide
    simp [this]; omega
  have hstep : (step .top (hashes (j + 1) ++ ' ' :: (body ++ ['\n']))).1 = .heading := by
    simp [step, stepOutside, hblank, hlead, hfence, hhead]
  have hparts : atxParts (hashes (j + 1) ++ ' ' :: (body ++ ['\n'])) = (j + 1, atxContent (' ' :: body)) := by
    simp only [atxParts, hlead, List.drop_zero]
    rw [htw, hlen, hashes_drop]
    have : (' ' :: (body ++ ['\n'])).takeWhile (· != '\n') = ' ' :: body := by
      have := takeWhile_ne_nl (' ' :: body) (by simpa using hb) []
      simpa using this
    rw [this]
  rw [findHeading]
  simp only [ScanSt.isPara, Bool.false_and, Bool.false_eq_true, if_false, hstep, hparts]

/-- a document that starts with the line `#…# body`: its first heading, whatever follows -/
theorem rawHeading_atx_first (k : Nat) (body rest : Str) (hk1 : 1 ≤ k) (hk6 : k ≤ 6) (hb : '\n' ∉ body) (hr : '\r' ∉ body) :
    rawHeading (hashes k ++ ' ' :: (body ++ '\n' :: rest)) = .heading k (atxContent (' ' :: body)) := by
  have e : hashes k ++ ' ' :: (body ++ '\n' :: rest) = (hashes k ++ ' ' :: body) ++ '\n' :: rest := by simp
  have h1 : '\r' ∉ hashes k ++ ' ' :: body := by
    simp only [hashes, List.mem_append, List.mem_replicate, List.mem_cons, not_or]
    exact ⟨fun h => absurd h.2 (by decide), by decide, hr⟩
  have h2 : '\n' ∉ hashes k ++ ' ' :: body := by
    simp only [hashes, List.mem_append, List.mem_replicate, List.mem_cons, not_or]
    exact ⟨fun h => absurd h.2 (by decide), by decide, hb⟩
  rw [rawHeading, e, normaliseCrLf_line _ _ h1, mdLines_line _ _ h2]
  have e2 : hashes k ++ ' ' :: body ++ ['\n'] = hashes k ++ ' ' :: (body ++ ['\n']) := by simp
  rw [e2]
  exact findHeading_atx_first k body _ hk1 hk6 hb

/-- the text of `# body`: `body` itself when it has no white space at either end and does not end in `#` -/
theorem atxContent_simple (body : Str) (hh : ∀ c, body.head? = some c → isReSpace c = false)
    (hl : ∀ c, body.getLast? = some c → isReSpace c = false ∧ c ≠ '#') (hne : body ≠ []) :
    atxContent (' ' :: body) = body := by
  have hlast : (' ' :: body).getLast? = body.getLast? := by
    cases body with
    | nil => exact absurd rfl hne
    | cons c t => simp [List.getLast?_cons_cons]
  have h1 : rstripStr (' ' :: body) = ' ' :: body :=
    rstripStr_of_getLast (fun c hc => (hl c (hlast ▸ hc)).1)
  have h2 : ((' ' :: body).reverse.dropWhile (· == '#')).reverse = ' ' :: body := by
    cases hr : (' ' :: body).reverse with
    | nil => simp at hr
    | cons c t =>
      have hc : (' ' :: body).getLast? = some c := by rw [List.getLast?_eq_head?_reverse, hr]; rfl
      have : c ≠ '#' := (hl c (hlast ▸ hc)).2
      simp only [List.dropWhile_cons, beq_iff_eq, this, if_false]
      rw [← hr, List.reverse_reverse]
  have h3 : stripStr (' ' :: body) = body := by
    have : stripStr ([' '] ++ body) = stripStr body := stripStr_ws_append [' '] body (by intro c hc; simp at hc; subst hc; decide)
    rw [show ' ' :: body = [' '] ++ body from rfl, this]
    exact stripStr_of_ends hh (fun c hc => (hl c hc).1)
  simp only [atxContent, h1, h2, Nat.lt_irrefl, decide_false, Bool.false_and, Bool.false_eq_true, if_false, h3]

-- ---------------------------------------------------------------- inert characters
theorem isReSpace_inert {c : Char} (h : isReSpace c = true) (hn : c ≠ '\n') : Inert c := by
  refine ⟨?_, hn⟩
  simp only [isReSpace, inTable, Gen.reSpaceRanges, Gen.reSpaceRanges_0, List.any_cons, List.any_nil,
    Bool.or_false, Bool.or_eq_true, Bool.and_eq_true, decide_eq_true_eq] at h
  simp only [isAsciiPunct, Bool.or_eq_false_iff, Bool.and_eq_false_iff, decide_eq_false_iff_not]
  omega

theorem letterLike_inert {c : Char} (h : letterLike c.toNat = true) : Inert c := by
  simp only [letterLike, Bool.or_eq_true, Bool.and_eq_true, decide_eq_true_eq, beq_iff_eq] at h
  refine ⟨?_, ?_⟩
  · simp only [isAsciiPunct, Bool.or_eq_false_iff, Bool.and_eq_false_iff, decide_eq_false_iff_not]
    omega
  · intro e; subst e; simp at h

theorem isDigit_inert {c : Char} (h : isDigit c = true) : Inert c := by
  simp only [isDigit, Bool.and_eq_true, decide_eq_true_eq] at h
  refine ⟨?_, ?_⟩
  · simp only [isAsciiPunct, Bool.or_eq_false_iff, Bool.and_eq_false_iff, decide_eq_false_iff_not]
    omega
  · intro e; subst e; simp at h

-- ---------------------------------------------------------------- the ends of an escaped text
theorem mkEscChar_ne_nil (c : Char) : mkEscChar c ≠ [] := by
  simp only [mkEscChar]; split
  · decide
  split
  · decide
  split
  · decide
  split
  · decide
  · simp

theorem mkEscChar_getLast (c : Char) : (mkEscChar c).getLast? = some (if isEscaped c then ';' else c) := by
  by_cases h : isEscaped c = true
  · simp only [isEscaped, Bool.or_eq_true, beq_iff_eq] at h
    rcases h with ((rfl | rfl) | rfl) | rfl <;> decide
  · have h' : isEscaped c = false := by simpa using h
    simp [mkEscChar_of_not h', h']

theorem mkEscChar_head (c : Char) : (mkEscChar c).head? = some (if isEscaped c then '&' else c) := by
  by_cases h : isEscaped c = true
  · simp only [isEscaped, Bool.or_eq_true, beq_iff_eq] at h
    rcases h with ((rfl | rfl) | rfl) | rfl <;> decide
  · have h' : isEscaped c = false := by simpa using h
    simp [mkEscChar_of_not h', h']

theorem mkEscape_snoc (s : Str) (c : Char) : mkEscape (s ++ [c]) = mkEscape s ++ mkEscChar c := by
  simp [mkEscape]

/-- the escaped text ends in an unescaped character only if the text does -/
theorem mkEscape_snoc_inv (D X : Str) (c : Char) (h : mkEscape D = X ++ [c]) (hc : c ≠ ';') :
    ∃ D', D = D' ++ [c] ∧ mkEscape D' = X := by
  rcases List.eq_nil_or_concat D with rfl | ⟨D', d, rfl⟩
  · simp [mkEscape] at h
  · rw [List.concat_eq_append] at h ⊢
    rw [mkEscape_snoc] at h
    have hl := congrArg List.getLast? h
    rw [getLast?_append_ne _ (mkEscChar_ne_nil d), mkEscChar_getLast] at hl
    simp only [getLast?_append_ne _ (List.cons_ne_nil c []), List.getLast?_singleton, Option.some.injEq] at hl
    by_cases he : isEscaped d = true
    · simp only [he, if_true] at hl; exact absurd hl.symm hc
    · have he' : isEscaped d = false := by simpa using he
      simp only [he', Bool.false_eq_true, if_false] at hl
      subst hl
      rw [mkEscChar_of_not he'] at h
      exact ⟨D', rfl, List.append_cancel_right h⟩

theorem mkEscape_getLast_not_space (D : Str) (h : ∀ c, D.getLast? = some c → isReSpace c = false) :
    ∀ c, (mkEscape D).getLast? = some c → isReSpace c = false := by
  rcases List.eq_nil_or_concat D with rfl | ⟨D', d, rfl⟩
  · simp [mkEscape]
  · intro c hc
    rw [List.concat_eq_append] at hc h
    rw [mkEscape_snoc, getLast?_append_ne _ (mkEscChar_ne_nil d), mkEscChar_getLast] at hc
    simp only [Option.some.injEq] at hc
    subst hc
    split
    · decide
    · exact h d (by simp)

theorem mkEscape_head_not_space (D : Str) (h : ∀ c, D.head? = some c → isReSpace c = false) :
    ∀ c, (mkEscape D).head? = some c → isReSpace c = false := by
  cases D with
  | nil => simp [mkEscape]
  | cons d D' =>
    intro c hc
    rw [mkEscape_cons, head?_append_ne _ (mkEscChar_ne_nil d), mkEscChar_head] at hc
    simp only [Option.some.injEq] at hc
    subst hc
    split
    · decide
    · exact h d rfl

-- ---------------------------------------------------------------- documents without a heading
/-- a line of paragraph text that cannot start (or interrupt a paragraph with) any other block -/
def ProseLine (l : Str) : Prop :=
  isBlankLine l = false ∧ leadSpaces l < 4 ∧ fenceOpen? l = none ∧ isHeadingLine l = false ∧
    plainLine true l = true ∧ plainLine false l = true ∧ leadTab l = false
/-- a non-blank line indented by four or more spaces (indented code, or a lazy continuation of a paragraph) -/
def IndentedLine (l : Str) : Prop := isBlankLine l = false ∧ 4 ≤ leadSpaces l ∧ leadTab l = false
def QuietLine (l : Str) : Prop := isBlankLine l = true ∨ ProseLine l ∨ IndentedLine l

instance (l : Str) : Decidable (ProseLine l) := inferInstanceAs (Decidable (_ ∧ _))
instance (l : Str) : Decidable (IndentedLine l) := inferInstanceAs (Decidable (_ ∧ _))
instance (l : Str) : Decidable (QuietLine l) := inferInstanceAs (Decidable (_ ∨ _))

def ScanSt.notFence : ScanSt → Bool
  | .fence _ => false
  | _ => true

theorem isSetextUnderline_of_blank {l : Str} (h : isBlankLine l = true) : isSetextUnderline l = false := by
  simp only [isSetextUnderline, Bool.and_eq_false_iff]
  right
  simp only [isBlankLine, List.all_eq_true] at h
  cases hr : l.drop (leadSpaces l) with
  | nil => rfl
  | cons c t =>
    have hc : c ∈ l := List.mem_of_mem_drop (by rw [hr]; simp)
    have hs := h c hc
    simp only [looksSetext, Bool.and_eq_false_iff]
    left
    simp only [Bool.or_eq_false_iff, beq_eq_false_iff_ne, ne_eq]
    constructor <;> (intro e; subst e; revert hs; decide)

theorem isSetextUnderline_of_plainLine {first : Bool} {l : Str} (h : plainLine first l = true) : isSetextUnderline l = false := by
  simp only [isSetextUnderline, Bool.and_eq_false_iff]
  right
  simp only [plainLine] at h
  split at h
  · cases h
  · rename_i c t hr
    simp only [Bool.and_eq_true, Bool.not_eq_true'] at h
    exact h.1.2

theorem leadTab_of_blank {l : Str} (h : isBlankLine l = true) : leadTab l = false := by simp [leadTab, h]

/-- blank lines, plain paragraph lines and indented lines never make a heading -/
theorem findHeading_quiet (ls : List Str) (h : ∀ l ∈ ls, QuietLine l) (st : ScanSt) (para : List Str) (hst : st.notFence = true) :
    findHeading st para ls = .noHeading := by
  induction ls generalizing st para with
  | nil => rfl
  | cons l ls ih =>
    have ih' := ih (fun x hx => h x (by simp [hx]))
    rw [findHeading]
    rcases h l (by simp) with hb | ⟨hnb, hlead, hfence, hhead, hp1, hp0, htab⟩ | ⟨hnb, hlead, htab⟩
    · rw [isSetextUnderline_of_blank hb]
      simp only [Bool.and_false, Bool.false_eq_true, if_false]
      cases st with
      | fence f => cases hst
      | top => simp [step, stepOutside, hb, leadTab_of_blank hb, ih' .top [] rfl]
      | para => simp [step, stepOutside, hb, leadTab_of_blank hb, ih' .top [] rfl]
      | code => simp [step, hb, leadTab_of_blank hb, ih' .code [] rfl]
    · rw [isSetextUnderline_of_plainLine hp1]
      simp only [Bool.and_false, Bool.false_eq_true, if_false]
      have hl4 : ¬ 4 ≤ leadSpaces l := by omega
      cases st with
      | fence f => cases hst
      | top => simp [step, stepOutside, hnb, hl4, hfence, hhead, htab, hp1, ih' .para _ rfl]
      | para => simp [step, stepOutside, hnb, hl4, hfence, hhead, htab, hp0, ih' .para _ rfl]
      | code => simp [step, stepOutside, hnb, hl4, hfence, hhead, htab, hp1, ih' .para _ rfl]
    · have hs : isSetextUnderline l = false := by
        simp only [isSetextUnderline, Bool.and_eq_false_iff, decide_eq_false_iff_not]
        left; omega
      rw [hs]
      simp only [Bool.and_false, Bool.false_eq_true, if_false]
      cases st with
      | fence f => cases hst
      | top => simp [step, stepOutside, hnb, hlead, htab, ih' .code [] rfl]
      | para => simp [step, stepOutside, hnb, hlead, htab, ih' .para _ rfl]
      | code => simp [step, hnb, hlead, htab, ih' .code [] rfl]

-- ---------------------------------------------------------------- what follows the first heading does not matter
/-- once the scanner has an answer on a list of lines, further lines do not change it -/
theorem findHeading_append (ls₁ ls₂ : List Str) (st : ScanSt) (para : List Str)
    (h : findHeading st para ls₁ ≠ .noHeading) : findHeading st para (ls₁ ++ ls₂) = findHeading st para ls₁ := by
  induction ls₁ generalizing st para with
  | nil => exact absurd rfl h
  | cons l ls ih =>
    rw [List.cons_append, findHeading, findHeading]
    rw [findHeading] at h
    by_cases hc : (st.isPara && isSetextUnderline l) = true
    · simp only [hc, if_true]
    · simp only [hc, if_false, Bool.false_eq_true] at h ⊢
      cases htag : (step st l).1 <;> simp only [htag] at h ⊢
      all_goals first
        | rfl
        | (split at h
           · (rename_i hc2; simp only [hc2, if_true])
           · (rename_i hc2; simp only [hc2, if_false]; exact ih _ _ h))

theorem normaliseCrLf_crlf (X : Str) : normaliseCrLf ('\r' :: '\n' :: X) = '\n' :: normaliseCrLf X := by
  rw [normaliseCrLf]

theorem normaliseCrLf_cr_cons_ne (d : Char) (X : Str) (hd : d ≠ '\n') :
    normaliseCrLf ('\r' :: d :: X) = '\r' :: normaliseCrLf (d :: X) := by
  rw [normaliseCrLf.eq_def]
  split
  · rename_i h; simp only [List.cons.injEq] at h; exact absurd h.2.1 hd
  · rename_i h; simp only [List.cons.injEq] at h; rw [h.1, h.2]
  · rename_i h; simp at h

theorem normaliseCrLf_ne_nil (c : Char) (X : Str) : normaliseCrLf (c :: X) ≠ [] := by
  rw [normaliseCrLf.eq_def]
  split <;> simp_all

theorem mdLines_ne_nil (c : Char) (X : Str) : mdLines (c :: X) ≠ [] := by
  rw [mdLines]
  split
  · simp
  · split <;> simp

/-- marko's lines -/
def docLines (s : Str) : List Str := mdLines (normaliseCrLf s)

theorem docLines_cons_ne_nil (c : Char) (X : Str) : docLines (c :: X) ≠ [] := by
  unfold docLines
  cases h : normaliseCrLf (c :: X) with
  | nil => exact absurd h (normaliseCrLf_ne_nil c X)
  | cons d Y => exact mdLines_ne_nil d Y

/-- the lines of a document are the lines up to any line end, followed by the lines of the rest -/
theorem docLines_append_nl (A rest : Str) : docLines (A ++ '\n' :: rest) = docLines (A ++ ['\n']) ++ docLines rest := by
  induction A with
  | nil =>
    simp only [docLines, List.nil_append]
    rw [normaliseCrLf_cons_ne _ _ (by decide), normaliseCrLf_cons_ne _ _ (by decide)]
    simp [mdLines, normaliseCrLf]
  | cons c r ih =>
    -- the case of an ordinary first character (also a "\r" not followed by "\n")
    have ordinary : ∀ (hN1 : normaliseCrLf (c :: (r ++ '\n' :: rest)) = c :: normaliseCrLf (r ++ '\n' :: rest))
        (hN2 : normaliseCrLf (c :: (r ++ ['\n'])) = c :: normaliseCrLf (r ++ ['\n'])),
        docLines (c :: r ++ '\n' :: rest) = docLines (c :: r ++ ['\n']) ++ docLines rest := by
      intro hN1 hN2
      simp only [docLines, List.cons_append, hN1, hN2]
      have ih' : mdLines (normaliseCrLf (r ++ '\n' :: rest)) = mdLines (normaliseCrLf (r ++ ['\n'])) ++ mdLines (normaliseCrLf rest) := ih
      rw [mdLines, mdLines]
      by_cases hc : c = '\n'
      · simp [hc, ih']
      · simp only [hc, if_false]
        rw [ih']
        have hne : mdLines (normaliseCrLf (r ++ ['\n'])) ≠ [] := by
          cases r with
          | nil => exact docLines_cons_ne_nil _ _
          | cons x xs => exact docLines_cons_ne_nil _ _
        cases hm : mdLines (normaliseCrLf (r ++ ['\n'])) with
        | nil => exact absurd hm hne
        | cons l ls => simp
    by_cases hc : c = '\r'
    · subst hc
      cases r with
      | nil =>
        simp only [docLines, List.cons_append, List.nil_append]
        rw [normaliseCrLf_crlf, normaliseCrLf_crlf]
        simp [mdLines, normaliseCrLf]
      | cons d r' =>
        by_cases hd : d = '\n'
        · subst hd
          simp only [docLines, List.cons_append] at ih ⊢
          rw [normaliseCrLf_crlf, normaliseCrLf_crlf]
          rw [normaliseCrLf_cons_ne _ _ (by decide), normaliseCrLf_cons_ne _ _ (by decide)] at ih
          exact ih
        · exact ordinary (normaliseCrLf_cr_cons_ne d _ hd) (normaliseCrLf_cr_cons_ne d _ hd)
    · exact ordinary (normaliseCrLf_cons_ne c _ hc) (normaliseCrLf_cons_ne c _ hc)

/-- **only the first heading counts** (block level): when the lines up to some line end already contain the first heading
    (or put the document outside **H**), the text behind that line end does not change the answer -/
theorem rawHeading_append_nl (A rest : Str) (h : rawHeading (A ++ ['\n']) ≠ .noHeading) :
    rawHeading (A ++ '\n' :: rest) = rawHeading (A ++ ['\n']) := by
  have e := docLines_append_nl A rest
  simp only [docLines] at e
  rw [rawHeading, e]
  exact findHeading_append _ _ _ _ h

-- ---------------------------------------------------------------- setext headings
/-- a first character after which a line is certainly paragraph text: no white space, none of `` ` ~ # > < - + * = [ _ ``
    and no (Unicode) decimal digit -/
def safeHead (c : Char) : Bool :=
  !isReSpace c && !(c == '`' || c == '~' || c == '#' || c == '>' || c == '<' || c == '-' || c == '+' || c == '*' ||
    c == '=' || c == '[' || c == '_') && !inTable Gen.reDigitRanges c.toNat

def StartsSafe (l : Str) : Prop := ∃ c t, l = c :: t ∧ safeHead c = true

instance (l : Str) : Decidable (StartsSafe l) :=
  match l with
  | [] => isFalse (by rintro ⟨c, t, h, _⟩; cases h)
  | c :: t => if h : safeHead c = true then isTrue ⟨c, t, rfl, h⟩ else isFalse (by rintro ⟨c', t', e, h'⟩; cases e; exact h h')

theorem proseLine_of_safeHead (c : Char) (t : Str) (hc : safeHead c = true) : ProseLine (c :: t) := by
  simp only [safeHead, Bool.and_eq_true, Bool.not_eq_true', Bool.or_eq_false_iff, beq_eq_false_iff_ne, ne_eq] at hc
  obtain ⟨⟨hsp, ⟨⟨⟨⟨⟨⟨⟨⟨⟨⟨h1, h2⟩, h3⟩, h4⟩, h5⟩, h6⟩, h7⟩, h8⟩, h9⟩, h10⟩, h11⟩⟩, hdig⟩ := hc
  have hspace : c ≠ ' ' := by intro e; subst e; exact absurd hsp (by decide)
  have htab : c ≠ '\t' := by intro e; subst e; exact absurd hsp (by decide)
  have hlead : leadSpaces (c :: t) = 0 := by simp [leadSpaces, List.takeWhile_cons, hspace]
  have hblank : isBlankLine (c :: t) = false := by simp [isBlankLine, hsp]
  have hfence : fenceOpen? (c :: t) = none := by simp [fenceOpen?, hlead, h1, h2]
  have hhead : isHeadingLine (c :: t) = false := by
    simp [isHeadingLine, hlead, List.takeWhile_cons, h3]
  have hlist : startsListMarker (c :: t) = false := by
    simp [startsListMarker, h6, h7, h8, List.takeWhile_cons, hdig]
  have hthem : looksThematic (c :: t) = false := by
    simp only [looksThematic, List.filter_cons, hsp, Bool.not_false, if_true, List.all_cons, Bool.and_eq_false_iff,
      Bool.or_eq_false_iff, beq_eq_false_iff_ne, ne_eq]
    right
    exact ⟨⟨Or.inl h6, Or.inl h11⟩, Or.inl h8⟩
  have hset : looksSetext (c :: t) = false := by simp [looksSetext, h9, h6]
  have hbr : bracketStartOk (c :: t) = true := by
    simp only [bracketStartOk]
    split
    · rename_i inner he; simp only [List.cons.injEq] at he; exact absurd he.1 h10
    · rfl
  have hplain : ∀ first, plainLine first (c :: t) = true := by
    intro first
    simp [plainLine, hlead, h4, h5, hlist, hthem, hset, hbr]
  have hlt : leadTab (c :: t) = false := by
    simp [leadTab, List.takeWhile_cons, hspace, htab]
  exact ⟨hblank, by omega, hfence, hhead, hplain true, hplain false, hlt⟩

theorem StartsSafe.proseLine {l : Str} (h : StartsSafe l) (tail : Str) : ProseLine (l ++ tail) := by
  obtain ⟨c, t, rfl, hc⟩ := h
  exact proseLine_of_safeHead c (t ++ tail) hc

theorem StartsSafe.lstrip {l : Str} (h : StartsSafe l) (tail : Str) : lstripStr (l ++ tail) = l ++ tail := by
  obtain ⟨c, t, rfl, hc⟩ := h
  simp only [safeHead, Bool.and_eq_true, Bool.not_eq_true'] at hc
  exact lstripStr_of_head (by intro x hx; simp at hx; subst hx; exact hc.1.1)

/-- a paragraph being read, continued by plain lines and ended by a setext underline -/
theorem findHeading_para_setext (ls : List Str) (under : Str) (rest para : List Str) (h : ∀ l ∈ ls, ProseLine l)
    (hu : isSetextUnderline under = true) :
    findHeading .para para (ls ++ under :: rest) = .heading (setextLevel under) (setextContent (para.reverse ++ ls)) := by
  induction ls generalizing para with
  | nil => simp [findHeading, ScanSt.isPara, hu]
  | cons l ls ih =>
    obtain ⟨hnb, hlead, hfence, hhead, hp1, hp0, htab⟩ := h l (by simp)
    have hl4 : ¬ 4 ≤ leadSpaces l := by omega
    rw [List.cons_append, findHeading, isSetextUnderline_of_plainLine hp1]
    simp only [Bool.and_false, Bool.false_eq_true, if_false]
    simp only [step, stepOutside, hnb, hl4, hfence, hhead, htab, hp0, Bool.false_eq_true, if_false, Bool.not_true,
      Bool.not_false, Bool.or_self]
    rw [ih _ (fun x hx => h x (by simp [hx]))]
    simp

/-- a paragraph of plain lines at the top of the document followed by a setext underline is the first heading -/
theorem findHeading_top_setext (m : Str) (ls : List Str) (under : Str) (rest : List Str) (h : ∀ l ∈ m :: ls, ProseLine l)
    (hu : isSetextUnderline under = true) :
    findHeading .top [] (m :: ls ++ under :: rest) = .heading (setextLevel under) (setextContent (m :: ls)) := by
  obtain ⟨hnb, hlead, hfence, hhead, hp1, hp0, htab⟩ := h m (by simp)
  have hl4 : ¬ 4 ≤ leadSpaces m := by omega
  rw [List.cons_append, findHeading]
  simp only [ScanSt.isPara, Bool.false_and, Bool.false_eq_true, if_false]
  simp only [step, stepOutside, hnb, hl4, hfence, hhead, htab, hp1, Bool.false_eq_true, if_false, Bool.not_true,
    Bool.not_false, Bool.or_self, if_true]
  rw [findHeading_para_setext ls under rest [m] (fun x hx => h x (by simp [hx])) hu]
  simp

/-- the text of lines, each with its line feed -/
def joinLines (E : List Str) : Str := (E.map (· ++ ['\n'])).flatten

theorem joinLines_cons (l : Str) (E : List Str) : joinLines (l :: E) = l ++ '\n' :: joinLines E := by
  simp [joinLines]

theorem joinLines_append (E F : List Str) : joinLines (E ++ F) = joinLines E ++ joinLines F := by
  simp [joinLines]

theorem docLines_joinLines (E : List Str) (rest : Str) (h : ∀ l ∈ E, '\n' ∉ l ∧ '\r' ∉ l) :
    docLines (joinLines E ++ rest) = E.map (· ++ ['\n']) ++ docLines rest := by
  induction E with
  | nil => simp [joinLines]
  | cons l E ih =>
    have hl := h l (by simp)
    rw [joinLines_cons]
    have e : l ++ '\n' :: joinLines E ++ rest = l ++ '\n' :: (joinLines E ++ rest) := by simp
    rw [e]
    simp only [docLines] at ih ⊢
    rw [normaliseCrLf_line _ _ hl.2, mdLines_line _ _ hl.1, ih (fun x hx => h x (by simp [hx]))]
    simp

-- ---------------------------------------------------------------- a heading behind blank lines, paragraphs, indented code
/-- quiet lines are passed over: the scanner goes on behind them, not inside a fence -/
theorem findHeading_quiet_prefix (Q ls : List Str) (h : ∀ l ∈ Q, QuietLine l) (st : ScanSt) (para : List Str)
    (hst : st.notFence = true) :
    ∃ st' para', st'.notFence = true ∧ findHeading st para (Q ++ ls) = findHeading st' para' ls := by
  induction Q generalizing st para with
  | nil => exact ⟨st, para, hst, rfl⟩
  | cons l Q ih =>
    have ih' := ih (fun x hx => h x (by simp [hx]))
    rw [List.cons_append, findHeading]
    rcases h l (by simp) with hb | ⟨hnb, hlead, hfence, hhead, hp1, hp0, htab⟩ | ⟨hnb, hlead, htab⟩
    · rw [isSetextUnderline_of_blank hb]
      simp only [Bool.and_false, Bool.false_eq_true, if_false]
      cases st with
      | fence f => cases hst
      | top => simpa [step, stepOutside, hb, leadTab_of_blank hb] using ih' .top [] rfl
      | para => simpa [step, stepOutside, hb, leadTab_of_blank hb] using ih' .top [] rfl
      | code => simpa [step, hb, leadTab_of_blank hb] using ih' .code [] rfl
    · rw [isSetextUnderline_of_plainLine hp1]
      simp only [Bool.and_false, Bool.false_eq_true, if_false]
      have hl4 : ¬ 4 ≤ leadSpaces l := by omega
      cases st with
      | fence f => cases hst
      | top => simpa [step, stepOutside, hnb, hl4, hfence, hhead, htab, hp1] using ih' .para _ rfl
      | para => simpa [step, stepOutside, hnb, hl4, hfence, hhead, htab, hp0] using ih' .para _ rfl
      | code => simpa [step, stepOutside, hnb, hl4, hfence, hhead, htab, hp1] using ih' .para _ rfl
    · have hs : isSetextUnderline l = false := by
        simp only [isSetextUnderline, Bool.and_eq_false_iff, decide_eq_false_iff_not]
        left; omega
      rw [hs]
      simp only [Bool.and_false, Bool.false_eq_true, if_false]
      cases st with
      | fence f => cases hst
      | top => simpa [step, stepOutside, hnb, hlead, htab] using ih' .code [] rfl
      | para => simpa [step, stepOutside, hnb, hlead, htab] using ih' .para _ rfl
      | code => simpa [step, hnb, hlead, htab] using ih' .code [] rfl

/-- the line `#…# body` is a heading wherever the scanner stands outside a fence (top level, after paragraph lines,
    after indented code) -/
theorem findHeading_atx_any (k : Nat) (body : Str) (ls : List Str) (hk1 : 1 ≤ k) (hk6 : k ≤ 6) (hb : '\n' ∉ body)
    (st : ScanSt) (para : List Str) (hst : st.notFence = true) :
    findHeading st para ((hashes k ++ ' ' :: (body ++ ['\n'])) :: ls) = .heading k (atxContent (' ' :: body)) := by
  obtain ⟨j, rfl⟩ : ∃ j, k = j + 1 := ⟨k - 1, by omega⟩
  have hl : hashes (j + 1) ++ ' ' :: (body ++ ['\n']) = '#' :: (hashes j ++ ' ' :: (body ++ ['\n'])) := by
    simp [hashes, List.replicate_succ]
  have htw : (hashes (j + 1) ++ ' ' :: (body ++ ['\n'])).takeWhile (· == '#') = hashes (j + 1) :=
    hashes_takeWhile _ _ (by simp)
  have hlen : (hashes (j + 1)).length = j + 1 := by simp [hashes]
  have hlead : leadSpaces (hashes (j + 1) ++ ' ' :: (body ++ ['\n'])) = 0 := by
    rw [hl]; simp [leadSpaces, List.takeWhile_cons]
  have hblank : isBlankLine (hashes (j + 1) ++ ' ' :: (body ++ ['\n'])) = false := by
    rw [hl]; simp only [isBlankLine, List.all_cons]
    have : isReSpace '#' = false := by decide
    simp [this]
  have hfence : fenceOpen? (hashes (j + 1) ++ ' ' :: (body ++ ['\n'])) = none := by
    simp only [fenceOpen?, hlead]
    rw [hl]; simp
  have hhead : isHeadingLine (hashes (j + 1) ++ ' ' :: (body ++ ['\n'])) = true := by
    simp only [isHeadingLine, hlead, List.drop_zero]
    rw [htw, hlen, hashes_drop]
    have : isReSpace ' ' = true := by decide
    simp [this]; omega
  have hset : isSetextUnderline (hashes (j + 1) ++ ' ' :: (body ++ ['\n'])) = false := by
    simp only [isSetextUnderline, hlead, List.drop_zero]
    rw [hl]; simp [looksSetext]
  have hstep : (step st (hashes (j + 1) ++ ' ' :: (body ++ ['\n']))).1 = .heading := by
    cases st with
    | fence f => cases hst
    | top => simp [step, stepOutside, hblank, hlead, hfence, hhead]
    | para => simp [step, stepOutside, hblank, hlead, hfence, hhead]
    | code => simp [step, stepOutside, hblank, hlead, hfence, hhead]
  have hparts : atxParts (hashes (j + 1) ++ ' ' :: (body ++ ['\n'])) = (j + 1, atxContent (' ' :: body)) := by
    simp only [atxParts, hlead, List.drop_zero]
    rw [htw, hlen, hashes_drop]
    have : (' ' :: (body ++ ['\n'])).takeWhile (· != '\n') = ' ' :: body := by
      have := takeWhile_ne_nl (' ' :: body) (by simpa using hb) []
      simpa using this
    rw [this]
  rw [findHeading]
  simp only [hset, Bool.and_false, Bool.false_eq_true, if_false, hstep, hparts]

/-- a document whose first lines `Q` are quiet (blank, plain paragraph text, indented) and whose next line is `#…# body`:
    that line is its first heading, whatever follows -/
theorem rawHeading_atx_after (Q : List Str) (k : Nat) (body rest : Str) (hQ : ∀ l ∈ Q, ('\n' ∉ l ∧ '\r' ∉ l) ∧ QuietLine (l ++ ['\n']))
    (hk1 : 1 ≤ k) (hk6 : k ≤ 6) (hb : '\n' ∉ body) (hr : '\r' ∉ body) :
    rawHeading (joinLines Q ++ (hashes k ++ ' ' :: (body ++ '\n' :: rest))) = .heading k (atxContent (' ' :: body)) := by
  have e : joinLines Q ++ (hashes k ++ ' ' :: (body ++ '\n' :: rest)) = joinLines (Q ++ [hashes k ++ ' ' :: body]) ++ rest := by
    simp [joinLines]
  have hall : ∀ l ∈ Q ++ [hashes k ++ ' ' :: body], '\n' ∉ l ∧ '\r' ∉ l := by
    intro l hl
    rcases List.mem_append.mp hl with h | h
    · exact (hQ l h).1
    · simp only [List.mem_singleton] at h; subst h
      simp only [hashes, List.mem_append, List.mem_replicate, List.mem_cons, not_or]
      exact ⟨⟨fun h => absurd h.2 (by decide), by decide, hb⟩, ⟨fun h => absurd h.2 (by decide), by decide, hr⟩⟩
  have hlines := docLines_joinLines (Q ++ [hashes k ++ ' ' :: body]) rest hall
  simp only [docLines] at hlines
  rw [rawHeading, e, hlines]
  have e2 : List.map (fun x => x ++ ['\n']) (Q ++ [hashes k ++ ' ' :: body]) ++ mdLines (normaliseCrLf rest) =
      Q.map (· ++ ['\n']) ++ ((hashes k ++ ' ' :: (body ++ ['\n'])) :: mdLines (normaliseCrLf rest)) := by simp
  rw [e2]
  obtain ⟨st', para', hst', hq⟩ := findHeading_quiet_prefix (Q.map (· ++ ['\n']))
    ((hashes k ++ ' ' :: (body ++ ['\n'])) :: mdLines (normaliseCrLf rest))
    (by intro l hl; simp only [List.mem_map] at hl; obtain ⟨x, hx, rfl⟩ := hl; exact (hQ x hx).2) .top [] rfl
  rw [hq]
  exact findHeading_atx_any k body _ hk1 hk6 hb st' para' hst'

-- ---------------------------------------------------------------- the closing sequence of an ATX heading
theorem reverse_dropWhile_hashes (x : Str) (j : Nat) (hx : ∀ c, x.getLast? = some c → c ≠ '#') :
    ((x ++ hashes j).reverse.dropWhile (· == '#')).reverse = x := by
  induction j with
  | zero =>
    simp only [hashes, List.replicate_zero, List.append_nil]
    cases hr : x.reverse with
    | nil => simpa using hr.symm
    | cons c t =>
      have hc : x.getLast? = some c := by rw [List.getLast?_eq_head?_reverse, hr]; rfl
      simp only [List.dropWhile_cons, beq_iff_eq, hx c hc, if_false]
      rw [← hr, List.reverse_reverse]
  | succ j ih =>
    have : x ++ hashes (j + 1) = (x ++ hashes j) ++ ['#'] := by
      simp [hashes, List.replicate_succ']
    rw [this, List.reverse_append]
    simpa [List.dropWhile_cons] using ih

/-- `# body <blanks> ##… <blanks>`: the closing sequence and the white space around it go -/
theorem atxContent_closing (body w trail : Str) (j : Nat) (hne : body ≠ [])
    (hh : ∀ c, body.head? = some c → isReSpace c = false) (hl : ∀ c, body.getLast? = some c → isReSpace c = false)
    (hw : SpaceRun w) (hj : 1 ≤ j) (ht : WsRun trail) :
    atxContent (' ' :: (body ++ w ++ hashes j ++ trail)) = body := by
  obtain ⟨i, rfl⟩ : ∃ i, j = i + 1 := ⟨j - 1, by omega⟩
  have hhash : hashes (i + 1) = hashes i ++ ['#'] := by simp [hashes, List.replicate_succ']
  have e1 : ' ' :: (body ++ w ++ hashes (i + 1) ++ trail) = (' ' :: (body ++ w ++ hashes (i + 1))) ++ trail := by simp
  have hr1 : rstripStr (' ' :: (body ++ w ++ hashes (i + 1) ++ trail)) = ' ' :: (body ++ w ++ hashes (i + 1)) := by
    rw [e1, rstripStr_append_ws _ _ ht]
    apply rstripStr_of_getLast
    intro c hc
    have : ' ' :: (body ++ w ++ hashes (i + 1)) = (' ' :: (body ++ w ++ hashes i)) ++ ['#'] := by rw [hhash]; simp
    rw [this, getLast?_append_ne _ (by simp)] at hc
    simp only [List.getLast?_singleton, Option.some.injEq] at hc
    subst hc; decide
  have hwlast : ∀ c, (' ' :: (body ++ w)).getLast? = some c → isReSpace c = true := by
    intro c hc
    have : ' ' :: (body ++ w) = (' ' :: body) ++ w := by simp
    rw [this, getLast?_append_ne _ hw.1] at hc
    exact hw.2 c (List.mem_of_getLast? hc)
  have hq : ((' ' :: (body ++ w ++ hashes (i + 1))).reverse.dropWhile (· == '#')).reverse = ' ' :: (body ++ w) := by
    have : ' ' :: (body ++ w ++ hashes (i + 1)) = (' ' :: (body ++ w)) ++ hashes (i + 1) := by simp
    rw [this]
    apply reverse_dropWhile_hashes
    intro c hc e
    subst e
    exact absurd (hwlast _ hc) (by decide)
  have hstrip : stripStr (' ' :: (body ++ w)) = body := by
    have e : ' ' :: (body ++ w) = [' '] ++ (body ++ w) := rfl
    rw [e, stripStr_ws_append [' '] _ (by intro c hc; simp at hc; subst hc; decide), stripStr_append_ws _ _ hw.wsRun]
    exact stripStr_of_ends hh hl
  simp only [atxContent, hr1, hq]
  have hlen : (' ' :: (body ++ w)).length < (' ' :: (body ++ w ++ hashes (i + 1))).length := by
    simp [hashes]
  cases hg : (' ' :: (body ++ w)).getLast? with
  | none => simp at hg
  | some c =>
    simp only [hlen, decide_true, hwlast c hg, Bool.and_self, if_true, hstrip]

end RG
