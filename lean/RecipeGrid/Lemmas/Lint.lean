import RecipeGrid.Model.Lint
import RecipeGrid.Lemmas.Recipe
import RecipeGrid.Props.C03
/-! Helper lemmas about `Model/Lint.lean`. Nothing here is a specification; the property statements
    live in `Props/C20.lean`. -/
namespace RG

-- ================================================================ totality
theorem totalQuantity_nonzero {s : Tree} {q : Quantity} (h : totalQuantity s = some q) : q.value.val ≠ 0 := by
  cases s with
  | sub body names sh =>
    simp only [totalQuantity] at h
    split at h
    · split at h
      · split at h
        · simp at h
        · simp_all
      · simp at h
    · simp at h
  | _ => simp [totalQuantity] at h

theorem Num.div_isSome (a b : Num) (h : b.val ≠ 0) : (a.div b).isSome = true := by
  unfold Num.div
  have : (b.val == 0) = false := by simpa using h
  simp only [this]
  split
  · simp at *
  · split
    · rfl
    · split <;> rfl

theorem Num.div_eq_none {a b : Num} (h : a.div b = none) : b.val = 0 := by
  apply Classical.byContradiction
  intro hb
  have := Num.div_isSome a b hb
  rw [h] at this
  simp at this

theorem numDiv_isSome (spec : Bool) (a b : Num) (h : b.val ≠ 0) : (numDiv spec a b).isSome = true := by
  unfold numDiv
  cases spec
  · simpa using Num.div_isSome a b h
  · simp [h]

/-- the conversion factor the loop looks up for a quantity use `q` of a total `tq` -/
def convFactor (spec : Bool) (q tq : Quantity) : Option Num :=
  match q.unit, tq.unit with
  | some u, some tu => convertBetween spec (lowerStr u) (lowerStr tu)
  | none, none => some ⟨1, .flt⟩
  | _, _ => none

theorem sumStep_quantity_none (spec : Bool) (st : SumState) (q : Quantity) :
    sumStep spec none st (.quantity q) =
      some { st with problem := true, lints := st.lints ++ [.quantityUnknown] } := rfl

theorem sumStep_quantity_some (spec : Bool) (tq : Quantity) (st : SumState) (q : Quantity) :
    sumStep spec (some tq) st (.quantity q) =
      match convFactor spec q tq with
      | none => some { st with problem := true, lints := st.lints ++ [.incompatibleUnits] }
      | some c =>
        match numDiv spec (numMul spec q.value c) tq.value with
        | none => none
        | some x => some { st with used := numAdd spec st.used x } := by
  rfl

theorem sumStep_isSome (spec : Bool) (total : Option Quantity) (h : ∀ tq, total = some tq → tq.value.val ≠ 0)
    (st : SumState) (a : Amount) : (sumStep spec total st a).isSome = true := by
  cases a with
  | quantity q =>
    cases total with
    | none => rfl
    | some tq =>
      rw [sumStep_quantity_some]
      cases convFactor spec q tq with
      | none => rfl
      | some c =>
        have := numDiv_isSome spec (numMul spec q.value c) tq.value (h tq rfl)
        obtain ⟨x, hx⟩ := Option.isSome_iff_exists.1 this
        simp only [hx]
        rfl
  | proportion v p w s => cases v <;> rfl

theorem sumRefs_isSome (spec : Bool) (total : Option Quantity) (h : ∀ tq, total = some tq → tq.value.val ≠ 0) :
    ∀ (amounts : List Amount) (st : SumState), (sumRefs spec total st amounts).isSome = true
  | [], _ => rfl
  | a :: as, st => by
    have h1 := sumStep_isSome spec total h st a
    obtain ⟨st', hst'⟩ := Option.isSome_iff_exists.1 h1
    simp only [sumRefs, hst', Option.bind_some]
    exact sumRefs_isSome spec total h as st'

theorem sumChecks_go_isSome (spec : Bool) : ∀ l : List (Option Quantity × List Amount),
    (∀ p ∈ l, ∀ tq, p.1 = some tq → tq.value.val ≠ 0) → (sumChecks.go spec l).isSome = true
  | [], _ => rfl
  | (total, amounts) :: rest, h => by
    have h1 := sumRefs_isSome spec total (h (total, amounts) List.mem_cons_self) amounts {}
    obtain ⟨st, hst⟩ := Option.isSome_iff_exists.1 h1
    have ih := sumChecks_go_isSome spec rest (fun p hp => h p (List.mem_cons_of_mem _ hp))
    simp only [sumChecks.go, hst, Option.isSome_map]
    exact ih

/-- the per-output list handed to the accumulation loop -/
def lintGroups (blocks : List Block) : List (Option Quantity × List Amount) :=
  (groupRefs ((Tree.topRefsList blocks.flatten).filterMap refSub)).flatMap
    fun (s, byIdx) => byIdx.map fun (_, amounts) => (totalQuantity s, amounts)

theorem sumChecks_eq (spec : Bool) (blocks : List Block) :
    sumChecks spec blocks = sumChecks.go spec (lintGroups blocks) := rfl

theorem lintGroups_total {blocks : List Block} {p : Option Quantity × List Amount} (hp : p ∈ lintGroups blocks) :
    ∃ s, p.1 = totalQuantity s := by
  unfold lintGroups at hp
  simp only [List.mem_flatMap, List.mem_map] at hp
  obtain ⟨⟨s, byIdx⟩, _, ⟨i, as⟩, _, rfl⟩ := hp
  exact ⟨s, rfl⟩

theorem lintWith_isSome (spec : Bool) (blocks : List Block) : (lintWith spec blocks).isSome = true := by
  unfold lintWith
  rw [Option.isSome_map, sumChecks_eq]
  apply sumChecks_go_isSome
  intro p hp tq htq
  obtain ⟨s, hs⟩ := lintGroups_total hp
  exact totalQuantity_nonzero (hs ▸ htq)

-- ================================================================ structure under scaling
mutual
theorem Tree.topRefs_scale (k : Num) : ∀ t : Tree,
    Tree.topRefs (Tree.scale k t) = (Tree.topRefs t).map (Tree.scale k)
  | .ingredient d q => by simp [Tree.scale, Tree.topRefs]
  | .step d i => by simp [Tree.scale, Tree.topRefs, Tree.topRefsList_scale k i]
  | .reference s n a => by simp [Tree.scale, Tree.topRefs]
  | .sub b ns sh => by simp [Tree.scale, Tree.topRefs, Tree.topRefs_scale k b]
theorem Tree.topRefsList_scale (k : Num) : ∀ ts : List Tree,
    Tree.topRefsList (Tree.scaleList k ts) = (Tree.topRefsList ts).map (Tree.scale k)
  | [] => by simp [Tree.scaleList, Tree.topRefsList]
  | t :: ts => by
    simp [Tree.scaleList, Tree.topRefsList, Tree.topRefs_scale k t, Tree.topRefsList_scale k ts]
end

mutual
theorem Tree.implicitSubs_scale (k : Num) : ∀ t : Tree,
    Tree.implicitSubs (Tree.scale k t) = (Tree.implicitSubs t).map (Tree.scale k)
  | .ingredient d q => by simp [Tree.scale, Tree.implicitSubs]
  | .step d i => by simp [Tree.scale, Tree.implicitSubs, Tree.implicitSubsList_scale k i]
  | .reference s n a => by simp [Tree.scale, Tree.implicitSubs]
  | .sub b ns sh => by
    simp only [Tree.scale, Tree.implicitSubs, Tree.implicitSubs_scale k b, List.length_map, List.map_append]
    split <;> simp [Tree.scale]
theorem Tree.implicitSubsList_scale (k : Num) : ∀ ts : List Tree,
    Tree.implicitSubsList (Tree.scaleList k ts) = (Tree.implicitSubsList ts).map (Tree.scale k)
  | [] => by simp [Tree.scaleList, Tree.implicitSubsList]
  | t :: ts => by
    simp [Tree.scaleList, Tree.implicitSubsList, Tree.implicitSubs_scale k t, Tree.implicitSubsList_scale k ts]
end

theorem scaleBlocks_flatten (k : Num) (bs : List Block) :
    (scaleBlocks k bs).flatten = Tree.scaleList k bs.flatten := by
  unfold scaleBlocks
  rw [Tree.scaleList_eq_map, List.map_flatten]
  congr 1
  apply List.map_congr_left
  intro b _
  exact Tree.scaleList_eq_map k b

-- ================================================================ exact, normal trees
def Part.Exact : Part → Prop
  | .text _ => True
  | .num n => n.kind ≠ .flt
/-- normal (as the constructor leaves it) and without floats -/
def SvsGood (s : SVS) : Prop := Svs.Normal s ∧ ∀ p ∈ s, Part.Exact p
def OptQExact (q : Option Quantity) : Prop := ∀ x, q = some x → x.value.kind ≠ .flt
def Amount.Exact : Amount → Prop
  | .quantity q => q.value.kind ≠ .flt
  | _ => True

mutual
/-- every string normal, every scalable number exact, including inside embedded copies -/
def Tree.Good : Tree → Prop
  | .ingredient d q => SvsGood d ∧ OptQExact q
  | .step d i => SvsGood d ∧ Tree.GoodList i
  | .reference s _ a => Tree.Good s ∧ a.Exact
  | .sub b ns _ => Tree.Good b ∧ ∀ n ∈ ns, SvsGood n
def Tree.GoodList : List Tree → Prop
  | [] => True
  | t :: ts => Tree.Good t ∧ Tree.GoodList ts
end

theorem svsGood_of (s : SVS) (hn : C03.SvsNormal s) (he : ∀ n ∈ C03.svsNums s, n.kind ≠ .flt) : SvsGood s := by
  refine ⟨(Svs.normal_iff s).2 hn, ?_⟩
  intro p hp
  cases p with
  | text t => trivial
  | num n =>
    apply he n
    unfold C03.svsNums
    exact List.mem_filterMap.2 ⟨_, hp, rfl⟩

mutual
theorem Tree.good_of : ∀ t : Tree, C03.TreeNormal t → (∀ n ∈ C03.nums t, n.kind ≠ .flt) → Tree.Good t
  | .ingredient d q, hn, he => by
    simp only [C03.TreeNormal] at hn
    simp only [C03.nums, List.mem_append] at he
    refine ⟨svsGood_of d hn (fun n h => he n (Or.inl h)), ?_⟩
    intro x hx
    subst hx
    exact he _ (Or.inr (by simp))
  | .step d i, hn, he => by
    simp only [C03.TreeNormal] at hn
    simp only [C03.nums, List.mem_append] at he
    exact ⟨svsGood_of d hn.1 (fun n h => he n (Or.inl h)), Tree.goodList_of i hn.2 (fun n h => he n (Or.inr h))⟩
  | .reference s n a, hn, he => by
    simp only [C03.TreeNormal] at hn
    simp only [C03.nums, List.mem_append] at he
    refine ⟨Tree.good_of s hn (fun n h => he n (Or.inl h)), ?_⟩
    cases a with
    | quantity q => exact he _ (Or.inr (by simp))
    | proportion v p w pr => trivial
  | .sub b ns sh, hn, he => by
    simp only [C03.TreeNormal] at hn
    simp only [C03.nums, List.mem_append, List.mem_flatMap] at he
    refine ⟨Tree.good_of b hn.1 (fun n h => he n (Or.inl h)), ?_⟩
    intro m hm
    exact svsGood_of m (hn.2 m hm) (fun n h => he n (Or.inr ⟨m, hm, h⟩))
theorem Tree.goodList_of : ∀ ts : List Tree, C03.TreeNormalList ts → (∀ n ∈ C03.numsList ts, n.kind ≠ .flt) →
    Tree.GoodList ts
  | [], _, _ => trivial
  | t :: ts, hn, he => by
    simp only [C03.TreeNormalList] at hn
    simp only [C03.numsList, List.mem_append] at he
    exact ⟨Tree.good_of t hn.1 (fun n h => he n (Or.inl h)), Tree.goodList_of ts hn.2 (fun n h => he n (Or.inr h))⟩
end

theorem Tree.goodList_iff : ∀ ts : List Tree, Tree.GoodList ts ↔ ∀ t ∈ ts, Tree.Good t
  | [] => by simp [Tree.GoodList]
  | t :: ts => by simp [Tree.GoodList, Tree.goodList_iff ts]

mutual
theorem Tree.good_topRefs : ∀ t : Tree, Tree.Good t → ∀ r ∈ Tree.topRefs t, Tree.Good r
  | .ingredient d q, _ => by simp [Tree.topRefs]
  | .step d i, h => by
    simp only [Tree.Good] at h
    simpa [Tree.topRefs] using Tree.good_topRefsList i h.2
  | .reference s n a, h => by simpa [Tree.topRefs] using h
  | .sub b ns sh, h => by
    simp only [Tree.Good] at h
    simpa [Tree.topRefs] using Tree.good_topRefs b h.1
theorem Tree.good_topRefsList : ∀ ts : List Tree, Tree.GoodList ts → ∀ r ∈ Tree.topRefsList ts, Tree.Good r
  | [], _ => by simp [Tree.topRefsList]
  | t :: ts, h => by
    simp only [Tree.GoodList] at h
    intro r hr
    simp only [Tree.topRefsList, List.mem_append] at hr
    rcases hr with hr | hr
    · exact Tree.good_topRefs t h.1 r hr
    · exact Tree.good_topRefsList ts h.2 r hr
end

mutual
theorem Tree.good_implicitSubs : ∀ t : Tree, Tree.Good t → ∀ r ∈ Tree.implicitSubs t, Tree.Good r
  | .ingredient d q, _ => by simp [Tree.implicitSubs]
  | .step d i, h => by
    simp only [Tree.Good] at h
    simpa [Tree.implicitSubs] using Tree.good_implicitSubsList i h.2
  | .reference s n a, h => by simp [Tree.implicitSubs]
  | .sub b ns sh, h => by
    intro r hr
    simp only [Tree.implicitSubs, List.mem_append] at hr
    rcases hr with hr | hr
    · split at hr
      · simp only [List.mem_singleton] at hr
        subst hr
        exact h
      · simp at hr
    · simp only [Tree.Good] at h
      exact Tree.good_implicitSubs b h.1 r hr
theorem Tree.good_implicitSubsList : ∀ ts : List Tree, Tree.GoodList ts →
    ∀ r ∈ Tree.implicitSubsList ts, Tree.Good r
  | [], _ => by simp [Tree.implicitSubsList]
  | t :: ts, h => by
    simp only [Tree.GoodList] at h
    intro r hr
    simp only [Tree.implicitSubsList, List.mem_append] at hr
    rcases hr with hr | hr
    · exact Tree.good_implicitSubs t h.1 r hr
    · exact Tree.good_implicitSubsList ts h.2 r hr
end

-- ================================================================ `==` is preserved by exact scaling
theorem Num.mul_val_exact {n k : Num} (hn : n.kind ≠ .flt) (hk : k.kind ≠ .flt) :
    (n.mul k).val = n.val * k.val := by
  cases n with | mk nv nk => cases k with | mk kv kk =>
  cases nk <;> cases kk <;> simp_all [Num.mul, Num.isFlt]

theorem Num.beq_def (a b : Num) : (a == b) = (a.val == b.val) := rfl

theorem Rat.mul_right_cancel' {a b c : Rat} (hc : c ≠ 0) (h : a * c = b * c) : a = b := by grind

theorem Num.beq_mul {n m k : Num} (hn : n.kind ≠ .flt) (hm : m.kind ≠ .flt) (hk : k.kind ≠ .flt)
    (hk0 : k.val ≠ 0) : (n.mul k == m.mul k) = (n == m) := by
  rw [Num.beq_def, Num.beq_def, Num.mul_val_exact hn hk, Num.mul_val_exact hm hk, Bool.eq_iff_iff]
  simp only [beq_iff_eq]
  exact ⟨Rat.mul_right_cancel' hk0, fun h => by rw [h]⟩

theorem Part.beq_def (a b : Part) : (a == b) = Part.beq a b := rfl

theorem Part.beq_scalePart {k : Num} (hk : k.kind ≠ .flt) (hk0 : k.val ≠ 0) {p q : Part}
    (hp : p.Exact) (hq : q.Exact) : (Svs.scalePart k p == Svs.scalePart k q) = (p == q) := by
  cases p <;> cases q <;> simp only [Part.beq_def, Part.beq, Svs.scalePart]
  exact Num.beq_mul hp hq hk hk0

theorem List.map_beq_map {α} [BEq α] (f : α → α) : ∀ (l l' : List α),
    (∀ a ∈ l, ∀ b ∈ l', (f a == f b) = (a == b)) → (l.map f == l'.map f) = (l == l')
  | [], [], _ => rfl
  | [], _ :: _, _ => rfl
  | _ :: _, [], _ => rfl
  | a :: l, b :: l', h => by
    have ih := List.map_beq_map f l l' (fun x hx y hy => h x (List.mem_cons_of_mem _ hx) y (List.mem_cons_of_mem _ hy))
    have h0 := h a List.mem_cons_self b List.mem_cons_self
    show List.beq _ _ = List.beq _ _
    simp only [List.map_cons, List.beq]
    rw [h0]
    congr 1

theorem Svs.beq_scale {k : Num} (hk : k.kind ≠ .flt) (hk0 : k.val ≠ 0) {d d' : SVS}
    (h : SvsGood d) (h' : SvsGood d') : (Svs.scale k d == Svs.scale k d') = (d == d') := by
  rw [Svs.scale_of_normal k d h.1, Svs.scale_of_normal k d' h'.1]
  apply List.map_beq_map
  intro a ha b hb
  exact Part.beq_scalePart hk hk0 (h.2 a ha) (h'.2 b hb)

theorem Quantity.beq_def (a b : Quantity) :
    (a == b) = (a.value == b.value && a.unit == b.unit && a.spacing == b.spacing && a.prep == b.prep) := rfl

theorem Quantity.beq_scale {k : Num} (hk : k.kind ≠ .flt) (hk0 : k.val ≠ 0) {a b : Quantity}
    (ha : a.value.kind ≠ .flt) (hb : b.value.kind ≠ .flt) : (a.scale k == b.scale k) = (a == b) := by
  simp only [Quantity.beq_def, Quantity.scale, Num.beq_mul ha hb hk hk0]

theorem optQuantity_beq_scale {k : Num} (hk : k.kind ≠ .flt) (hk0 : k.val ≠ 0) {a b : Option Quantity}
    (ha : OptQExact a) (hb : OptQExact b) :
    (a.map (Quantity.scale k) == b.map (Quantity.scale k)) = (a == b) := by
  cases a <;> cases b <;> simp
  exact Quantity.beq_scale hk hk0 (ha _ rfl) (hb _ rfl)

theorem Amount.beq_def (a b : Amount) : (a == b) = Amount.beq a b := rfl

theorem Amount.beq_scale {k : Num} (hk : k.kind ≠ .flt) (hk0 : k.val ≠ 0) {a b : Amount}
    (ha : a.Exact) (hb : b.Exact) : (a.scale k == b.scale k) = (a == b) := by
  cases a <;> cases b <;> simp only [Amount.beq_def, Amount.beq, Amount.scale]
  exact Quantity.beq_scale hk hk0 ha hb

mutual
theorem Tree.beq_scale {k : Num} (hk : k.kind ≠ .flt) (hk0 : k.val ≠ 0) : ∀ a b : Tree, a.Good → b.Good →
    Tree.beq (Tree.scale k a) (Tree.scale k b) = Tree.beq a b
  | .ingredient d q, b, ha, hb => by
    cases b with
    | ingredient d' q' =>
      simp only [Tree.Good] at ha hb
      simp only [Tree.scale, Tree.beq, Svs.beq_scale hk hk0 ha.1 hb.1, optQuantity_beq_scale hk hk0 ha.2 hb.2]
    | _ => simp [Tree.scale, Tree.beq]
  | .step d i, b, ha, hb => by
    cases b with
    | step d' i' =>
      simp only [Tree.Good] at ha hb
      simp only [Tree.scale, Tree.beq, Svs.beq_scale hk hk0 ha.1 hb.1, Tree.beqList_scale hk hk0 i i' ha.2 hb.2]
    | _ => simp [Tree.scale, Tree.beq]
  | .reference s n am, b, ha, hb => by
    cases b with
    | reference s' n' am' =>
      simp only [Tree.Good] at ha hb
      simp only [Tree.scale, Tree.beq, Tree.beq_scale hk hk0 s s' ha.1 hb.1, Amount.beq_scale hk hk0 ha.2 hb.2]
    | _ => simp [Tree.scale, Tree.beq]
  | .sub body ns sh, b, ha, hb => by
    cases b with
    | sub body' ns' sh' =>
      simp only [Tree.Good] at ha hb
      have h2 : (ns.map (Svs.scale k) == ns'.map (Svs.scale k)) = (ns == ns') :=
        List.map_beq_map _ ns ns' (fun x hx y hy => Svs.beq_scale hk hk0 (ha.2 x hx) (hb.2 y hy))
      simp only [Tree.scale, Tree.beq, Tree.beq_scale hk hk0 body body' ha.1 hb.1, h2]
    | _ => simp [Tree.scale, Tree.beq]
theorem Tree.beqList_scale {k : Num} (hk : k.kind ≠ .flt) (hk0 : k.val ≠ 0) : ∀ as bs : List Tree,
    Tree.GoodList as → Tree.GoodList bs →
    Tree.beqList (Tree.scaleList k as) (Tree.scaleList k bs) = Tree.beqList as bs
  | [], [], _, _ => rfl
  | [], _ :: _, _, _ => rfl
  | _ :: _, [], _, _ => rfl
  | a :: as, b :: bs, ha, hb => by
    simp only [Tree.GoodList] at ha hb
    simp only [Tree.scaleList, Tree.beqList, Tree.beq_scale hk hk0 a b ha.1 hb.1,
      Tree.beqList_scale hk hk0 as bs ha.2 hb.2]
end

-- ================================================================ grouping commutes with a `==`-preserving map
theorem dedupTrees_subset : ∀ (l : List Tree) (t : Tree), t ∈ dedupTrees l → t ∈ l
  | [], _, h => by simp [dedupTrees] at h
  | a :: l, t, h => by
    simp only [dedupTrees, List.mem_cons, List.mem_filter] at h
    rcases h with rfl | ⟨h, _⟩
    · exact List.mem_cons_self
    · exact List.mem_cons_of_mem _ (dedupTrees_subset l t h)

theorem dedupTrees_map (f : Tree → Tree) : ∀ l : List Tree,
    (∀ a ∈ l, ∀ b ∈ l, Tree.beq (f a) (f b) = Tree.beq a b) →
    dedupTrees (l.map f) = (dedupTrees l).map f
  | [], _ => rfl
  | t :: ts, h => by
    have ih := dedupTrees_map f ts (fun a ha b hb => h a (List.mem_cons_of_mem _ ha) b (List.mem_cons_of_mem _ hb))
    simp only [List.map_cons, dedupTrees, ih, List.filter_map, List.cons.injEq, true_and]
    congr 1
    apply List.filter_congr
    intro u hu
    simp only [Function.comp]
    rw [h t List.mem_cons_self u (List.mem_cons_of_mem _ (dedupTrees_subset ts u hu))]

/-- the action of a map on the reference triples -/
def mapRef (f : Tree → Tree) (g : Amount → Amount) (r : Tree × Nat × Amount) : Tree × Nat × Amount :=
  (f r.1, r.2.1, g r.2.2)

theorem groupRefs_map (f : Tree → Tree) (g : Amount → Amount) (refs : List (Tree × Nat × Amount))
    (h : ∀ a ∈ refs, ∀ b ∈ refs, Tree.beq (f a.1) (f b.1) = Tree.beq a.1 b.1) :
    groupRefs (refs.map (mapRef f g)) =
      (groupRefs refs).map fun p => (f p.1, p.2.map fun ia => (ia.1, ia.2.map g)) := by
  unfold groupRefs
  have h1 : (refs.map (mapRef f g)).map (·.1) = (refs.map (·.1)).map f := by
    simp [List.map_map, Function.comp, mapRef]
  have h2 : ∀ a ∈ refs.map (·.1), ∀ b ∈ refs.map (·.1), Tree.beq (f a) (f b) = Tree.beq a b := by
    intro a ha b hb
    obtain ⟨a', ha', rfl⟩ := List.mem_map.1 ha
    obtain ⟨b', hb', rfl⟩ := List.mem_map.1 hb
    exact h a' ha' b' hb'
  rw [h1, dedupTrees_map f _ h2, List.map_map, List.map_map]
  apply List.map_congr_left
  intro s hs
  have hs' := dedupTrees_subset _ s hs
  have hm : (refs.map (mapRef f g)).filter (fun r => Tree.beq (f s) r.1) =
      (refs.filter fun r => Tree.beq s r.1).map (mapRef f g) := by
    rw [List.filter_map]
    congr 1
    apply List.filter_congr
    intro r hr
    simp only [Function.comp, mapRef]
    exact h2 s hs' r.1 (List.mem_map.2 ⟨r, hr, rfl⟩)
  simp only [Function.comp, hm, List.map_map]
  have hi : (fun r : Tree × Nat × Amount => (mapRef f g r).2.1) = fun r => r.2.1 := rfl
  simp only [Function.comp_def, hi, Prod.mk.injEq, true_and]
  apply List.map_congr_left
  intro i _
  simp only [Prod.mk.injEq, true_and, List.filter_map, List.map_map]
  rfl

-- ================================================================ the accumulation under exact scaling
theorem totalQuantity_chase_scale (k : Num) : ∀ t : Tree,
    totalQuantity.chase (Tree.scale k t) = (totalQuantity.chase t).map (Quantity.scale k)
  | .ingredient d q => by simp [Tree.scale, totalQuantity.chase]
  | .step d [] => by simp [Tree.scale, Tree.scaleList, totalQuantity.chase]
  | .step d [i] => by
    simp only [Tree.scale, Tree.scaleList, totalQuantity.chase]
    exact totalQuantity_chase_scale k i
  | .step d (_ :: _ :: _) => by simp [Tree.scale, Tree.scaleList, totalQuantity.chase]
  | .reference s n a => by simp [Tree.scale, totalQuantity.chase]
  | .sub b ns sh => by simp [Tree.scale, totalQuantity.chase]

theorem chase_exact : ∀ t : Tree, t.Good → OptQExact (totalQuantity.chase t)
  | .ingredient d q, h => by
    simp only [Tree.Good] at h
    simpa [totalQuantity.chase] using h.2
  | .step d [], _ => by simp [totalQuantity.chase, OptQExact]
  | .step d [i], h => by
    simp only [Tree.Good, Tree.GoodList] at h
    simpa [totalQuantity.chase] using chase_exact i h.2.1
  | .step d (_ :: _ :: _), _ => by simp [totalQuantity.chase, OptQExact]
  | .reference s n a, _ => by simp [totalQuantity.chase, OptQExact]
  | .sub b ns sh, _ => by simp [totalQuantity.chase, OptQExact]

theorem Rat.mul_eq_zero_right' {a c : Rat} (hc : c ≠ 0) : (a * c == 0) = (a == 0) := by
  rw [Bool.eq_iff_iff]
  simp only [beq_iff_eq]
  constructor
  · intro h; grind
  · intro h; rw [h]; grind

theorem totalQuantity_exact {s : Tree} (h : s.Good) : OptQExact (totalQuantity s) := by
  cases s with
  | sub body names sh =>
    simp only [Tree.Good] at h
    have hc := chase_exact body h.1
    intro x hx
    simp only [totalQuantity] at hx
    split at hx
    · split at hx
      · rename_i q hq
        split at hx
        · simp at hx
        · simp only [Option.some.injEq] at hx
          subst hx
          exact hc _ hq
      · simp at hx
    · simp at hx
  | _ => simp [totalQuantity, OptQExact]

/-- the total of the scaled sub recipe is the scaled total (exact numbers, nonzero exact factor) -/
theorem totalQuantity_scale' {k : Num} (hk : k.kind ≠ .flt) (hk0 : k.val ≠ 0) {s : Tree} (h : s.Good) :
    totalQuantity (Tree.scale k s) = (totalQuantity s).map (Quantity.scale k) := by
  cases s with
  | sub body names sh =>
    simp only [Tree.Good] at h
    have hc := chase_exact body h.1
    simp only [Tree.scale, totalQuantity, List.length_map, totalQuantity_chase_scale]
    split
    · cases hq : totalQuantity.chase body with
      | none => simp
      | some q =>
        have hv : (q.scale k).value.val = q.value.val * k.val := Num.mul_val_exact (hc q hq) hk
        simp only [Option.map_some, hv, Rat.mul_eq_zero_right' hk0]
        split <;> simp
    · simp
  | _ => simp [Tree.scale, totalQuantity]

theorem convFactor_scale (spec : Bool) (k : Num) (q tq : Quantity) :
    convFactor spec (q.scale k) (tq.scale k) = convFactor spec q tq := rfl

theorem Rat.mul_div_mul_right' (a c t k : Rat) (hk : k ≠ 0) : a * k * c / (t * k) = a * c / t := by
  by_cases ht : t = 0
  · subst ht; simp [Rat.div_def]
  · grind

theorem sumStep_scale {k : Num} (hk : k.kind ≠ .flt) (hk0 : k.val ≠ 0) (total : Option Quantity)
    (ht : OptQExact total) (st : SumState) (a : Amount) (ha : a.Exact) :
    sumStep true (total.map (Quantity.scale k)) st (a.scale k) = sumStep true total st a := by
  cases a with
  | quantity q =>
    cases total with
    | none => rfl
    | some tq =>
      simp only [Option.map_some, Amount.scale, sumStep_quantity_some, convFactor_scale]
      cases convFactor true q tq with
      | none => rfl
      | some c =>
        have hq : (q.scale k).value.val = q.value.val * k.val := Num.mul_val_exact ha hk
        have htq : (tq.scale k).value.val = tq.value.val * k.val := Num.mul_val_exact (ht tq rfl) hk
        simp only [numDiv, numMul, if_true, hq, htq, Rat.mul_eq_zero_right' hk0,
          Rat.mul_div_mul_right' _ _ _ _ hk0]
  | proportion v p w s => cases v <;> rfl

theorem sumRefs_scale' {k : Num} (hk : k.kind ≠ .flt) (hk0 : k.val ≠ 0) (total : Option Quantity)
    (ht : OptQExact total) : ∀ (amounts : List Amount), (∀ a ∈ amounts, a.Exact) → ∀ st : SumState,
    sumRefs true (total.map (Quantity.scale k)) st (amounts.map (Amount.scale k)) = sumRefs true total st amounts
  | [], _, _ => rfl
  | a :: as, h, st => by
    simp only [List.map_cons, sumRefs, sumStep_scale hk hk0 total ht st a (h a List.mem_cons_self)]
    cases sumStep true total st a with
    | none => rfl
    | some st' =>
      simp only [Option.bind_some]
      exact sumRefs_scale' hk hk0 total ht as (fun x hx => h x (List.mem_cons_of_mem _ hx)) st'

theorem sumChecks_go_map (spec : Bool) (φ : Option Quantity × List Amount → Option Quantity × List Amount) :
    ∀ l : List (Option Quantity × List Amount),
    (∀ p ∈ l, ∀ st, sumRefs spec (φ p).1 st (φ p).2 = sumRefs spec p.1 st p.2) →
    sumChecks.go spec (l.map φ) = sumChecks.go spec l
  | [], _ => rfl
  | (total, amounts) :: rest, h => by
    have ih := sumChecks_go_map spec φ rest (fun p hp => h p (List.mem_cons_of_mem _ hp))
    have h0 := h (total, amounts) List.mem_cons_self {}
    simp only [List.map_cons, sumChecks.go]
    rw [h0, ih]

-- ================================================================ the whole check under exact scaling
theorem List.flatMap_congr' {α β} {f g : α → List β} : ∀ {l : List α}, (∀ a ∈ l, f a = g a) →
    l.flatMap f = l.flatMap g
  | [], _ => rfl
  | a :: l, h => by
    simp only [List.flatMap_cons, h a List.mem_cons_self,
      List.flatMap_congr' (l := l) (fun x hx => h x (List.mem_cons_of_mem _ hx))]

theorem List.any_congr' {α} {p q : α → Bool} : ∀ {l : List α}, (∀ a ∈ l, p a = q a) → l.any p = l.any q
  | [], _ => rfl
  | a :: l, h => by
    simp only [List.any_cons, h a List.mem_cons_self,
      List.any_congr' (l := l) (fun x hx => h x (List.mem_cons_of_mem _ hx))]

/-- the reference triples the sum check collects -/
def blockRefs (blocks : List Block) : List (Tree × Nat × Amount) :=
  (Tree.topRefsList blocks.flatten).filterMap refSub

theorem lintGroups_eq (blocks : List Block) :
    lintGroups blocks = (groupRefs (blockRefs blocks)).flatMap
      fun p => p.2.map fun ia => (totalQuantity p.1, ia.2) := rfl

theorem refSub_scale (k : Num) (r : Tree) :
    refSub (Tree.scale k r) = (refSub r).map (mapRef (Tree.scale k) (Amount.scale k)) := by
  cases r <;> rfl

theorem blockRefs_scale (k : Num) (blocks : List Block) :
    blockRefs (scaleBlocks k blocks) = (blockRefs blocks).map (mapRef (Tree.scale k) (Amount.scale k)) := by
  unfold blockRefs
  rw [scaleBlocks_flatten, Tree.topRefsList_scale, List.filterMap_map, List.map_filterMap]
  congr 1
  funext r
  simp [refSub_scale]

theorem blockRefs_good {blocks : List Block} (h : Tree.GoodList blocks.flatten) {r : Tree × Nat × Amount}
    (hr : r ∈ blockRefs blocks) : r.1.Good ∧ r.2.2.Exact := by
  obtain ⟨t, ht, hrt⟩ := List.mem_filterMap.1 hr
  have hg := Tree.good_topRefsList _ h t ht
  cases t with
  | reference s i a =>
    simp only [refSub, Option.some.injEq] at hrt
    subst hrt
    simpa [Tree.Good] using hg
  | _ => simp [refSub] at hrt

theorem mem_groupRefs {refs : List (Tree × Nat × Amount)} {p : Tree × List (Nat × List Amount)}
    (hp : p ∈ groupRefs refs) :
    (∃ r ∈ refs, p.1 = r.1) ∧ ∀ ia ∈ p.2, ∀ a ∈ ia.2, ∃ r ∈ refs, a = r.2.2 := by
  unfold groupRefs at hp
  simp only [List.mem_map] at hp
  obtain ⟨s, hs, rfl⟩ := hp
  refine ⟨?_, ?_⟩
  · obtain ⟨r, hr, hrs⟩ := List.mem_map.1 (dedupTrees_subset _ s hs)
    exact ⟨r, hr, hrs.symm⟩
  · intro ia hia a ha
    simp only [List.mem_map] at hia
    obtain ⟨i, _, rfl⟩ := hia
    simp only [List.mem_map, List.mem_filter] at ha
    obtain ⟨r, ⟨⟨hr, _⟩, _⟩, rfl⟩ := ha
    exact ⟨r, hr, rfl⟩

theorem mem_lintGroups {blocks : List Block} {p : Option Quantity × List Amount} (hp : p ∈ lintGroups blocks) :
    (∃ r ∈ blockRefs blocks, p.1 = totalQuantity r.1) ∧ ∀ a ∈ p.2, ∃ r ∈ blockRefs blocks, a = r.2.2 := by
  rw [lintGroups_eq] at hp
  simp only [List.mem_flatMap, List.mem_map] at hp
  obtain ⟨g, hg, ia, hia, rfl⟩ := hp
  obtain ⟨⟨r, hr, h1⟩, h2⟩ := mem_groupRefs hg
  exact ⟨⟨r, hr, by rw [h1]⟩, fun a ha => h2 ia hia a ha⟩

/-- scaling acts on the per-output list by scaling every total and every quantity use -/
def scaleGroup (k : Num) (p : Option Quantity × List Amount) : Option Quantity × List Amount :=
  (p.1.map (Quantity.scale k), p.2.map (Amount.scale k))

theorem lintGroups_scale {k : Num} (hk : k.kind ≠ .flt) (hk0 : k.val ≠ 0) (blocks : List Block)
    (h : Tree.GoodList blocks.flatten) :
    lintGroups (scaleBlocks k blocks) = (lintGroups blocks).map (scaleGroup k) := by
  rw [lintGroups_eq, lintGroups_eq, blockRefs_scale, groupRefs_map, List.flatMap_map, List.map_flatMap]
  · apply List.flatMap_congr'
    intro g hg
    obtain ⟨⟨r, hr, h1⟩, _⟩ := mem_groupRefs hg
    have hgood : g.1.Good := h1 ▸ (blockRefs_good h hr).1
    simp only [List.map_map, Function.comp_def, scaleGroup, totalQuantity_scale' hk hk0 hgood]
  · intro a ha b hb
    exact Tree.beq_scale hk hk0 a.1 b.1 (blockRefs_good h ha).1 (blockRefs_good h hb).1

theorem sumChecks_scale {k : Num} (hk : k.kind ≠ .flt) (hk0 : k.val ≠ 0) (blocks : List Block)
    (h : Tree.GoodList blocks.flatten) :
    sumChecks true (scaleBlocks k blocks) = sumChecks true blocks := by
  rw [sumChecks_eq, sumChecks_eq, lintGroups_scale hk hk0 blocks h]
  apply sumChecks_go_map
  intro p hp st
  obtain ⟨⟨r, hr, h1⟩, h2⟩ := mem_lintGroups hp
  apply sumRefs_scale' hk hk0
  · rw [h1]
    exact totalQuantity_exact (blockRefs_good h hr).1
  · intro a ha
    obtain ⟨r', hr', rfl⟩ := h2 a ha
    exact (blockRefs_good h hr').2

theorem unusedIngredients_scale {k : Num} (hk : k.kind ≠ .flt) (hk0 : k.val ≠ 0) (blocks : List Block)
    (h : Tree.GoodList blocks.flatten) :
    unusedIngredients (scaleBlocks k blocks) = unusedIngredients blocks := by
  have hi := Tree.good_implicitSubsList _ h
  have hr : ∀ s ∈ (Tree.topRefsList blocks.flatten).filterMap (fun r => (refSub r).map (·.1)), s.Good := by
    intro s hs
    obtain ⟨t, ht, hst⟩ := List.mem_filterMap.1 hs
    have hg := Tree.good_topRefsList _ h t ht
    cases t with
    | reference s' i a =>
      simp only [refSub, Option.map_some, Option.some.injEq] at hst
      subst hst
      simp only [Tree.Good] at hg
      exact hg.1
    | _ => simp [refSub] at hst
  have h1 : (Tree.topRefsList (Tree.scaleList k blocks.flatten)).filterMap (fun r => (refSub r).map (·.1)) =
      ((Tree.topRefsList blocks.flatten).filterMap (fun r => (refSub r).map (·.1))).map (Tree.scale k) := by
    rw [Tree.topRefsList_scale, List.filterMap_map, List.map_filterMap]
    congr 1
    funext r
    cases r <;> rfl
  unfold unusedIngredients
  simp only [scaleBlocks_flatten, Tree.implicitSubsList_scale, h1]
  rw [dedupTrees_map _ _ (fun a ha b hb => Tree.beq_scale hk hk0 a b (hi a ha) (hi b hb)),
    List.filter_map, List.map_map]
  have h2 : List.filter ((fun s => !(List.map (Tree.scale k)
        ((Tree.topRefsList blocks.flatten).filterMap (fun r => (refSub r).map (·.1)))).any (Tree.beq s ·)) ∘
        Tree.scale k) (dedupTrees (Tree.implicitSubsList blocks.flatten)) =
      List.filter (fun s => !((Tree.topRefsList blocks.flatten).filterMap
        (fun r => (refSub r).map (·.1))).any (Tree.beq s ·)) (dedupTrees (Tree.implicitSubsList blocks.flatten)) := by
    apply List.filter_congr
    intro s hs
    have hsg := hi s (dedupTrees_subset _ s hs)
    simp only [Function.comp, List.any_map]
    congr 1
    apply List.any_congr'
    intro t ht
    exact Tree.beq_scale hk hk0 s t hsg (hr t ht)
  rw [h2]
  rfl

-- ================================================================ `==` on trees is an equivalence
/-- forget the kind of a number: Python `==` compares values only -/
def Num.key (n : Num) : Num := ⟨n.val, .int⟩
def Part.key : Part → Part
  | .text t => .text t
  | .num n => .num n.key
def Quantity.key (q : Quantity) : Quantity := { q with value := q.value.key }
def Amount.key : Amount → Amount
  | .quantity q => .quantity q.key
  | .proportion v p w s => .proportion (v.map Num.key) p w s
mutual
def Tree.key : Tree → Tree
  | .ingredient d q => .ingredient (d.map Part.key) (q.map Quantity.key)
  | .step d i => .step (d.map Part.key) (Tree.keyList i)
  | .reference s n a => .reference (Tree.key s) n a.key
  | .sub b ns sh => .sub (Tree.key b) (ns.map (·.map Part.key)) sh
def Tree.keyList : List Tree → List Tree
  | [] => []
  | t :: ts => Tree.key t :: Tree.keyList ts
end

theorem Num.beq_iff_key (a b : Num) : (a == b) = true ↔ a.key = b.key := by
  simp [Num.beq_def, Num.key]

theorem Part.beq_iff_key (a b : Part) : (a == b) = true ↔ a.key = b.key := by
  cases a <;> cases b <;> simp [Part.beq_def, Part.beq, Part.key, Num.beq_iff_key]

theorem List.beq_iff_map_eq {α β} [BEq α] (key : α → β) (h : ∀ a b : α, (a == b) = true ↔ key a = key b) :
    ∀ l l' : List α, (l == l') = true ↔ l.map key = l'.map key
  | [], [] => by simp
  | [], _ :: _ => by simp
  | _ :: _, [] => by simp
  | a :: l, b :: l' => by
    have ih := List.beq_iff_map_eq key h l l'
    show List.beq _ _ = true ↔ _
    simp only [List.beq, Bool.and_eq_true, List.map_cons, List.cons.injEq, h a b]
    exact and_congr Iff.rfl ih

theorem Option.beq_iff_map_eq {α β} [BEq α] (key : α → β) (h : ∀ a b : α, (a == b) = true ↔ key a = key b) :
    ∀ x y : Option α, (x == y) = true ↔ x.map key = y.map key
  | none, none => by simp
  | none, some _ => by simp
  | some _, none => by simp
  | some a, some b => by simp [h a b]

theorem Svs.beq_iff_key (a b : SVS) : (a == b) = true ↔ a.map Part.key = b.map Part.key :=
  List.beq_iff_map_eq Part.key Part.beq_iff_key a b

theorem Quantity.beq_iff_key (a b : Quantity) : (a == b) = true ↔ a.key = b.key := by
  cases a; cases b
  simp [Quantity.beq_def, Quantity.key, Num.beq_iff_key, and_assoc]

theorem Amount.beq_iff_key (a b : Amount) : (a == b) = true ↔ a.key = b.key := by
  cases a <;> cases b <;>
    simp [Amount.beq_def, Amount.beq, Amount.key, Quantity.beq_iff_key,
      Option.beq_iff_map_eq Num.key Num.beq_iff_key, and_assoc]

mutual
theorem Tree.beq_iff_key : ∀ a b : Tree, Tree.beq a b = true ↔ a.key = b.key
  | .ingredient d q, b => by
    cases b <;> simp [Tree.beq, Tree.key, Svs.beq_iff_key,
      Option.beq_iff_map_eq Quantity.key Quantity.beq_iff_key]
  | .step d i, b => by
    cases b with
    | step d' i' => simp [Tree.beq, Tree.key, Svs.beq_iff_key, Tree.beqList_iff_key i i']
    | _ => simp [Tree.beq, Tree.key]
  | .reference s n am, b => by
    cases b with
    | reference s' n' am' => simp [Tree.beq, Tree.key, Tree.beq_iff_key s s', Amount.beq_iff_key, and_assoc]
    | _ => simp [Tree.beq, Tree.key]
  | .sub body ns sh, b => by
    cases b with
    | sub body' ns' sh' =>
      have h2 := List.beq_iff_map_eq (fun s : SVS => s.map Part.key) Svs.beq_iff_key ns ns'
      simp [Tree.beq, Tree.key, Tree.beq_iff_key body body', h2, and_assoc]
    | _ => simp [Tree.beq, Tree.key]
theorem Tree.beqList_iff_key : ∀ as bs : List Tree, Tree.beqList as bs = true ↔ Tree.keyList as = Tree.keyList bs
  | [], [] => by simp [Tree.beqList, Tree.keyList]
  | [], _ :: _ => by simp [Tree.beqList, Tree.keyList]
  | _ :: _, [] => by simp [Tree.beqList, Tree.keyList]
  | a :: as, b :: bs => by
    simp [Tree.beqList, Tree.keyList, Tree.beq_iff_key a b, Tree.beqList_iff_key as bs]
end

theorem Tree.beq_symm {a b : Tree} (h : Tree.beq a b = true) : Tree.beq b a = true :=
  (Tree.beq_iff_key b a).2 ((Tree.beq_iff_key a b).1 h).symm

theorem Tree.beq_trans {a b c : Tree} (h : Tree.beq a b = true) (h' : Tree.beq b c = true) :
    Tree.beq a c = true :=
  (Tree.beq_iff_key a c).2 (((Tree.beq_iff_key a b).1 h).trans ((Tree.beq_iff_key b c).1 h'))

-- ================================================================ counting classes
theorem length_le_of_cover {α} (R : α → α → Bool) (symm : ∀ {a b}, R a b = true → R b a = true)
    (trans : ∀ {a b c}, R a b = true → R b c = true → R a c = true) :
    ∀ l1 l2 : List α, l1.Pairwise (fun a b => R a b = false) → (∀ a ∈ l1, ∃ b ∈ l2, R a b = true) →
      l1.length ≤ l2.length
  | [], _, _, _ => Nat.zero_le _
  | a :: l1, l2, hp, hc => by
    obtain ⟨ha, hp'⟩ := List.pairwise_cons.1 hp
    obtain ⟨b, hb, hab⟩ := hc a List.mem_cons_self
    have ih := length_le_of_cover R symm trans l1 (l2.filter fun y => !R a y) hp' (by
      intro x hx
      obtain ⟨y, hy, hxy⟩ := hc x (List.mem_cons_of_mem _ hx)
      refine ⟨y, List.mem_filter.2 ⟨hy, ?_⟩, hxy⟩
      cases hay : R a y with
      | false => rfl
      | true =>
        have := trans hay (symm hxy)
        rw [ha x hx] at this
        cases this)
    have hlt : (l2.filter fun y => !R a y).length < l2.length :=
      List.length_filter_lt_length_iff_exists.2 ⟨b, hb, by simp [hab]⟩
    simp only [List.length_cons]
    omega

theorem dedupTrees_pairwise : ∀ l : List Tree, (dedupTrees l).Pairwise (fun a b => Tree.beq a b = false)
  | [] => by simp [dedupTrees]
  | t :: ts => by
    simp only [dedupTrees, List.pairwise_cons]
    refine ⟨?_, (dedupTrees_pairwise ts).filter _⟩
    intro u hu
    simpa using (List.mem_filter.1 hu).2

theorem dedupTrees_cover : ∀ (l : List Tree) (x : Tree), x ∈ l → ∃ r ∈ dedupTrees l, Tree.beq r x = true
  | t :: ts, x, hx => by
    simp only [dedupTrees]
    rcases List.mem_cons.1 hx with rfl | hx
    · exact ⟨x, List.mem_cons_self, Tree.beq_refl x⟩
    · obtain ⟨r, hr, hrx⟩ := dedupTrees_cover ts x hx
      cases htr : Tree.beq t r with
      | true => exact ⟨t, List.mem_cons_self, Tree.beq_trans htr hrx⟩
      | false => exact ⟨r, List.mem_cons_of_mem _ (List.mem_filter.2 ⟨hr, by simp [htr]⟩), hrx⟩

/-- the list the model counts has as many elements as any system of representatives of the
    unreferenced members of `I` -/
theorem unused_length_eq (I Rf reps : List Tree)
    (h1 : ∀ s ∈ reps, s ∈ I ∧ ∀ t ∈ Rf, Tree.beq s t = false)
    (h2 : reps.Pairwise (fun a b => Tree.beq a b = false))
    (h3 : ∀ s ∈ I, (∀ t ∈ Rf, Tree.beq s t = false) → ∃ r ∈ reps, Tree.beq r s = true) :
    ((dedupTrees I).filter fun s => !(Rf.any (Tree.beq s ·))).length = reps.length := by
  have hU : ∀ s, s ∈ (dedupTrees I).filter (fun s => !(Rf.any (Tree.beq s ·))) ↔
      s ∈ dedupTrees I ∧ ∀ t ∈ Rf, Tree.beq s t = false := by
    intro s
    simp [List.mem_filter]
  apply Nat.le_antisymm
  · apply length_le_of_cover Tree.beq Tree.beq_symm Tree.beq_trans
    · exact (dedupTrees_pairwise I).filter _
    · intro s hs
      obtain ⟨hs1, hs2⟩ := (hU s).1 hs
      obtain ⟨r, hr, hrs⟩ := h3 s (dedupTrees_subset _ s hs1) hs2
      exact ⟨r, hr, Tree.beq_symm hrs⟩
  · apply length_le_of_cover Tree.beq Tree.beq_symm Tree.beq_trans _ _ h2
    intro s hs
    obtain ⟨hs1, hs2⟩ := h1 s hs
    obtain ⟨r, hr, hrs⟩ := dedupTrees_cover I s hs1
    refine ⟨r, (hU r).2 ⟨hr, ?_⟩, Tree.beq_symm hrs⟩
    intro t ht
    cases hrt : Tree.beq r t with
    | false => rfl
    | true =>
      have := Tree.beq_trans (Tree.beq_symm hrs) hrt
      rw [hs2 t ht] at this
      cases this

/-- the model's own list of unused ingredients is a system of representatives -/
theorem unused_model_reps (I Rf : List Tree) :
    let U := (dedupTrees I).filter fun s => !(Rf.any (Tree.beq s ·))
    (∀ s ∈ U, s ∈ I ∧ ∀ t ∈ Rf, Tree.beq s t = false) ∧ U.Pairwise (fun a b => Tree.beq a b = false) ∧
    (∀ s ∈ I, (∀ t ∈ Rf, Tree.beq s t = false) → ∃ r ∈ U, Tree.beq r s = true) := by
  intro U
  have hU : ∀ s, s ∈ U ↔ s ∈ dedupTrees I ∧ ∀ t ∈ Rf, Tree.beq s t = false := by
    intro s
    simp [U, List.mem_filter]
  refine ⟨?_, (dedupTrees_pairwise I).filter _, ?_⟩
  · intro s hs
    exact ⟨dedupTrees_subset _ s ((hU s).1 hs).1, ((hU s).1 hs).2⟩
  · intro s hs hs2
    obtain ⟨r, hr, hrs⟩ := dedupTrees_cover I s hs
    refine ⟨r, (hU r).2 ⟨hr, ?_⟩, hrs⟩
    intro t ht
    cases hrt : Tree.beq r t with
    | false => rfl
    | true =>
      have := Tree.beq_trans (Tree.beq_symm hrs) hrt
      rw [hs2 t ht] at this
      cases this

theorem unusedIngredients_eq (blocks : List Block) :
    unusedIngredients blocks = List.replicate
      ((dedupTrees (Tree.implicitSubsList blocks.flatten)).filter fun s =>
        !(((Tree.topRefsList blocks.flatten).filterMap fun r => (refSub r).map (·.1)).any (Tree.beq s ·))).length
      .unusedIngredient := by
  unfold unusedIngredients
  simp only [List.map_const']

-- ================================================================ the sum check never reports an unused ingredient
theorem sumStep_lints {spec : Bool} {total : Option Quantity} {st st' : SumState} {a : Amount}
    (h : sumStep spec total st a = some st') (hst : LintKind.unusedIngredient ∉ st.lints) :
    LintKind.unusedIngredient ∉ st'.lints := by
  cases a with
  | quantity q =>
    cases total with
    | none =>
      simp only [sumStep_quantity_none, Option.some.injEq] at h
      subst h
      simpa using hst
    | some tq =>
      rw [sumStep_quantity_some] at h
      cases hc : convFactor spec q tq with
      | none =>
        simp only [hc, Option.some.injEq] at h
        subst h
        simpa using hst
      | some c =>
        simp only [hc] at h
        cases hd : numDiv spec (numMul spec q.value c) tq.value with
        | none => simp [hd] at h
        | some x =>
          simp only [hd, Option.some.injEq] at h
          subst h
          exact hst
  | proportion v p w s =>
    cases v with
    | none =>
      simp only [sumStep, Option.some.injEq] at h
      subst h
      split <;> simpa using hst
    | some v =>
      simp only [sumStep, Option.some.injEq] at h
      subst h
      exact hst

theorem sumRefs_lints {spec : Bool} {total : Option Quantity} : ∀ {amounts : List Amount} {st st' : SumState},
    sumRefs spec total st amounts = some st' → LintKind.unusedIngredient ∉ st.lints →
    LintKind.unusedIngredient ∉ st'.lints
  | [], st, st', h, hst => by
    simp only [sumRefs, Option.some.injEq] at h
    subst h
    exact hst
  | a :: as, st, st', h, hst => by
    simp only [sumRefs] at h
    cases h1 : sumStep spec total st a with
    | none => simp [h1] at h
    | some st1 =>
      simp only [h1, Option.bind_some] at h
      exact sumRefs_lints h (sumStep_lints h1 hst)

theorem sumVerdict_no_unused (spec : Bool) (u : Rat) : LintKind.unusedIngredient ∉ sumVerdict spec u := by
  unfold sumVerdict
  cases spec <;> simp only [] <;> repeat' split
  all_goals simp

theorem sumChecks_go_no_unused (spec : Bool) : ∀ (l : List (Option Quantity × List Amount)) (out : List LintKind),
    sumChecks.go spec l = some out → LintKind.unusedIngredient ∉ out
  | [], out, h => by
    simp only [sumChecks.go, Option.some.injEq] at h
    subst h
    simp
  | (total, amounts) :: rest, out, h => by
    simp only [sumChecks.go] at h
    cases h1 : sumRefs spec total {} amounts with
    | none => simp [h1] at h
    | some st =>
      simp only [h1, Option.map_eq_some_iff] at h
      obtain ⟨out', hout', rfl⟩ := h
      have ih := sumChecks_go_no_unused spec rest out' hout'
      have h2 := sumRefs_lints h1 (by simp)
      have h3 := sumVerdict_no_unused spec st.used.val
      simp only [List.mem_append, not_or]
      refine ⟨⟨h2, ?_⟩, ih⟩
      split
      · simp
      · exact h3

end RG
