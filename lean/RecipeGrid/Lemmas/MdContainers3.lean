import RecipeGrid.Lemmas.MdContainers2
/-! The lines of a block's padded text against the lines of the document, for the blocks `assemble2` produces from the
    tagged lines of a document of **D2**. -/
namespace RG

/-! ## the class of prefixes removed from the lines of a fenced block -/

/-- a container prefix followed by at most `n` spaces (of fence indentation) -/
def BPrefix (n : Nat) (pre : Str) : Prop :=
  ∃ a p, pre = a ++ List.replicate p ' ' ∧ isCPrefix a = true ∧ p ≤ n

theorem isCPrefix_chars (a : Str) (h : isCPrefix a = true) : ∀ c ∈ a, c = ' ' ∨ c = '>' := by
  intro c hc
  simp only [isCPrefix, Bool.or_eq_true, Bool.and_eq_true, List.all_eq_true, beq_iff_eq, decide_eq_true_eq] at h
  rcases h with h | ⟨_, h⟩
  · exact Or.inl (h c hc)
  · rw [← List.takeWhile_append_dropWhile (p := (· == ' ')) (l := a)] at hc
    rcases List.mem_append.1 hc with hc | hc
    · have := mem_takeWhile_imp _ _ _ hc
      exact Or.inl (by simpa using this)
    · rcases h with h | h
      · rw [h] at hc; simp at hc; exact Or.inr hc
      · rw [h] at hc; simp at hc; rcases hc with hc | hc
        · exact Or.inr hc
        · exact Or.inl hc

theorem isLineBreak_gt : isLineBreak '>' = false := by decide

theorem BPrefix.prefixClass (n : Nat) : PrefixClass (BPrefix n) where
  nil := ⟨[], 0, rfl, isCPrefix_nil, Nat.zero_le _⟩
  noBreak := by
    rintro pre ⟨a, p, rfl, ha, _⟩ c hc
    rcases List.mem_append.1 hc with hc | hc
    · rcases isCPrefix_chars a ha c hc with rfl | rfl
      · exact isLineBreak_space
      · exact isLineBreak_gt
    · rw [(List.mem_replicate.mp hc).2]; exact isLineBreak_space

theorem stripFence_nil (n : Nat) : stripFence n [] = [] := by
  unfold stripFence
  simp only [leadSpaces, List.takeWhile_nil, List.length_nil, List.drop_nil, List.dropWhile_nil]
  split <;> rfl

theorem mdLine_drop (l : Str) (p : Nat) (h : MdLine l) (hne : l.drop p ≠ []) : MdLine (l.drop p) := by
  refine ⟨hne, ?_⟩
  intro a b hab
  apply h.2 (l.take p ++ a) b
  rw [List.append_assoc, ← hab, List.take_append_drop]

/-- what `FencedCode.parse` keeps of a body line inside a container: the line less its container prefix and at most `n`
    spaces -/
theorem stripFence_pdropped (n : Nat) (x : TLine2) (hx : TagSound2 x) (hl : MdLine x.text) (htag : x.tag = .fenceBody n)
    (hok : x.ok = true) : PDropped (BPrefix n) (stripFence n x.inner.text) x.text := by
  simp only [TLine2.ok, Bool.and_eq_true] at hok
  obtain ⟨⟨hreg, hin⟩, _⟩ := hok
  have hcp := hx.2.2.1 hreg (by rw [htag]; rfl)
  simp only [TLine2.inner] at hin ⊢
  simp only [TLine.ok, htag] at hin
  by_cases hi : x.text.drop x.pfx = []
  · rw [hi, stripFence_nil]
    refine ⟨x.text.take x.pfx, ?_, x.text.take x.pfx, 0, by simp, hcp, Nat.zero_le _⟩
    conv => lhs; rw [← List.take_append_drop x.pfx x.text, hi]
  · obtain ⟨p, hpn, hpl, hs⟩ := stripFence_dropped n _ (mdLine_drop _ _ hl hi) hin
    refine ⟨x.text.take x.pfx ++ List.replicate p ' ', ?_, x.text.take x.pfx, p, rfl, hcp, hpn⟩
    rw [hs, List.append_assoc, ← leadSpaces_split _ p hpl, List.take_append_drop]

/-! ## the tagged lines of a document -/

theorem tagDoc2_linesOk (doc : Str) (pre : List TLine2) (t : TLine2) (rest : List TLine2)
    (hts : tagDoc2 doc = pre ++ t :: rest) :
    LinesOk (pre.map (·.text) ++ t.text :: rest.map (·.text)) := by
  have := mdLines_ok (normaliseCrLf doc)
  rw [← tagDoc2_text, hts] at this
  simpa using this

theorem tagDoc2_mdLines (doc : Str) (pre : List TLine2) (t : TLine2) (rest : List TLine2)
    (hts : tagDoc2 doc = pre ++ t :: rest) :
    mdLines (normaliseCrLf doc) = pre.map (·.text) ++ t.text :: rest.map (·.text) := by
  rw [← tagDoc2_text, hts]; simp

theorem tagDoc2_norm (doc : Str) (pre : List TLine2) (t : TLine2) (rest : List TLine2)
    (hts : tagDoc2 doc = pre ++ t :: rest) :
    normaliseCrLf doc = (pre.map (·.text)).flatten ++ (t.text ++ (rest.map (·.text)).flatten) := by
  conv => lhs; rw [← mdLines_flatten (normaliseCrLf doc), tagDoc2_mdLines doc pre t rest hts]
  simp

theorem inDoc2_ok (doc : Str) (hD : inDoc2 doc = true) : ∀ t ∈ tagDoc2 doc, t.ok = true := by
  simp only [inDoc2, Bool.and_eq_true, List.all_eq_true] at hD
  exact hD.2

theorem lineSum2_flatten (ts : List TLine2) (h : ∀ t ∈ ts, NlEnded t.text) :
    lineSum2 ts = (plines (crToLf (ts.map (·.text)).flatten)).length := by
  rw [lineSum2_eq]
  apply sum_pyLineCount_eq
  intro l hl
  obtain ⟨x, hx, rfl⟩ := List.mem_map.1 hl
  exact h x hx

/-- the line of `pos` for a block that starts at tagged line `t` -/
theorem line_of_block_start2 (doc : Str) (pre : List TLine2) (t : TLine2) (rest : List TLine2)
    (hts : tagDoc2 doc = pre ++ t :: rest) :
    (offsetToLineCol (crToLf (normaliseCrLf doc)) (lenSum2 pre)).1 = lineSum2 pre + 1 := by
  rw [lenSum2_eq, lineSum2_eq]
  exact line_of_start _ _ _ _ (tagDoc2_mdLines doc pre t rest hts)

/-! ## fenced blocks -/

theorem fenced2_block_lines (doc : Str) (hD : inDoc2 doc = true) (pre : List TLine2) (t : TLine2) (rest : List TLine2)
    (f : FenceInfo) (hts : tagDoc2 doc = pre ++ t :: rest) (ht : t.tag = .fenceOpen f) :
    let k := lineSum2 pre + pyLineCount t.text
    pyLineCount t.text = 1 ∧
    ∀ (j : Nat) (s : Str),
      (plines (List.replicate k '\n' ++
          crToLf (fencedSource f.indent ((rest.takeWhile (·.tag.isFenceBody)).map TLine2.inner))))[k + j]? = some s →
      ∃ d, (plines (crToLf (normaliseCrLf doc)))[k + j]? = some d ∧ PRel (BPrefix f.indent) s d := by
  intro k
  have hR := BPrefix.prefixClass f.indent
  have hok := tagDoc2_linesOk doc pre t rest hts
  have hall := inDoc2_ok doc hD
  have hsnd : ∀ x ∈ tagDoc2 doc, TagSound2 x := tagLines2_sound _ _
  have htm : t ∈ tagDoc2 doc := by rw [hts]; simp
  have hpre : ∀ x ∈ pre, NlEnded x.text := fun x hx =>
    hok.nlEnded_left (by simp) _ (List.mem_map_of_mem hx)
  have htl : MdLine t.text := (hok.append_right).1
  have htok : hasInnerBreak t.text = false := by
    have := hall t htm
    simp only [TLine2.ok, ht, Bool.and_eq_true, Bool.not_eq_true'] at this
    exact this.2
  have h1 : pyLineCount t.text = 1 := pyLineCount_fence_line' _ htl htok
  refine ⟨h1, ?_⟩
  by_cases hrest : rest = []
  · subst hrest
    intro j s hs
    simp only [List.takeWhile_nil, List.map_nil, fencedSource, List.flatten_nil] at hs
    rw [show crToLf [] = [] from rfl, List.append_nil] at hs
    have := plines_replicate_nl k []
    rw [List.append_nil] at this
    rw [this] at hs
    simp [plines] at hs
  have htnl : NlEnded t.text := (hok.append_right).2.1 (by simpa using hrest)
  obtain ⟨body, rest', hbr, hbody⟩ : ∃ body rest', rest = body ++ rest' ∧ body = rest.takeWhile (·.tag.isFenceBody) :=
    ⟨_, _, (List.takeWhile_append_dropWhile (p := fun x : TLine2 => x.tag.isFenceBody) (l := rest)).symm, rfl⟩
  rw [← hbody]
  have hbtag : ∀ x ∈ body, x.tag = .fenceBody f.indent := by
    rw [hbody]; exact tagLines2_body_indent _ _ pre t rest f hts ht
  have hbok : LinesOk (body.map (·.text)) := by
    have := (hok.append_right).2.2
    rw [hbr, List.map_append] at this
    exact this.append_left
  have hbmd : ∀ x ∈ body, MdLine x.text := fun x hx => hbok.mdLine _ (List.mem_map_of_mem hx)
  have hsrc : fencedSource f.indent (body.map TLine2.inner) =
      (body.map fun x => stripFence f.indent x.inner.text).flatten := by
    simp only [fencedSource, List.map_map, Function.comp_def]
  have hdrop : Forall2 (PDropped (BPrefix f.indent)) (body.map fun x => stripFence f.indent x.inner.text)
      (body.map (·.text)) := by
    have : ∀ (l : List TLine2), (∀ x ∈ l, x ∈ body) →
        Forall2 (PDropped (BPrefix f.indent)) (l.map fun x => stripFence f.indent x.inner.text) (l.map (·.text)) := by
      intro l
      induction l with
      | nil => intro _; exact .nil
      | cons x l ih =>
        intro hl
        have hx : x ∈ body := hl x (by simp)
        have hxm : x ∈ tagDoc2 doc := by rw [hts, hbr]; simp [hx]
        exact .cons (stripFence_pdropped f.indent x (hsnd x hxm) (hbmd x hx) (hbtag x hx) (hall x hxm))
          (ih fun y hy => hl y (List.mem_cons_of_mem _ hy))
    exact this body (fun _ h => h)
  have hrel := plines_drop_rel hR _ _ hdrop hbok
  have hN := tagDoc2_norm doc pre t rest hts
  have hA : ∀ l ∈ pre.map (·.text) ++ [t.text], NlEnded l := by
    intro l hl
    rcases List.mem_append.1 hl with hl | hl
    · obtain ⟨x, hx, rfl⟩ := List.mem_map.1 hl; exact hpre x hx
    · simp at hl; subst hl; exact htnl
  have hk : k = (plines (crToLf (pre.map (·.text) ++ [t.text]).flatten)).length := by
    have := lineSum2_flatten (pre ++ [t]) (by
      intro x hx
      rcases List.mem_append.1 hx with hx | hx
      · exact hpre x hx
      · simp at hx; subst hx; exact htnl)
    simp only [List.map_append, List.map_cons, List.map_nil] at this
    rw [← this]
    simp [lineSum2, k]
  have hC : plines (crToLf ((body.map (·.text)).flatten ++ (rest'.map (·.text)).flatten)) =
      plines (crToLf (body.map (·.text)).flatten) ++ plines (crToLf (rest'.map (·.text)).flatten) := by
    by_cases hr' : rest' = []
    · subst hr'; simp [crToLf, plines]
    · apply plines_flatten_nl
      have := (hok.append_right).2.2
      rw [hbr, List.map_append] at this
      exact this.nlEnded_left (by simpa using hr')
  intro j s hs
  rw [hsrc] at hs
  have hcore := block_lines_coreG (PRel (BPrefix f.indent)) (crToLf (normaliseCrLf doc))
    (crToLf (pre.map (·.text) ++ [t.text]).flatten)
    (crToLf (body.map (·.text)).flatten) (crToLf (rest'.map (·.text)).flatten)
    (crToLf (body.map fun x => stripFence f.indent x.inner.text).flatten) k (fun _ _ => False)
    (by rw [hN, hbr]; simp [crToLf_append])
    (by rw [← crToLf_append, ← crToLf_append]; exact plines_flatten_nl _ hA _)
    hk
    (by rw [← crToLf_append]; exact hC)
    (fun j s h => Or.inl (hrel j s h)) j s hs
  rcases hcore with h | h
  · exact h
  · exact absurd h id

end RG
