import RecipeGrid.Props.C06b
import RecipeGrid.Lemmas.PegRules
import RecipeGrid.Lemmas.PegFuel
/-! C06, continued: **the hand-written parser recognises exactly the grammar that `grammar.peg` IS NOW**.

    `tools/gen_model.py` (`gen_x_grammar`) writes the compiled grammar object of the installed parser as Lean data into
    `Gen/Grammar.lean` on every run (`Gen.grammarRules : List (String × PExpr)`, `Gen.startRule`).  `Model/Peg.lean` is a
    generic recogniser for such data with the semantics of `peggie.parser.Parser` (ordered choice, greedy `*` that insists
    on progress, `?` = choice with the empty expression, negative look-ahead, one unit of fuel per nested rule call);
    `Model/PegGrammar.lean` runs it on the generated data (`pegAccepts`), the regexes being looked up BY THEIR SOURCE TEXT in
    a table of the scanners the hand-written parser uses (`Peg.terminalScanner`).

    * `terminals_known`, `rules_closed`, `grammar_supported` (by evaluation): every regex of the generated grammar has
      a scanner, every rule referred to is defined, nothing in the grammar is outside the recogniser's semantics;
    * **`parser_recognises_grammar`**: for every text, `pegAccepts src = some (decide (parse src ≠ .syntaxError))`; in
      particular the generic run is always defined (never out of fuel, never `RepeatedEmptyTermError`);
    * `pegRecipe_eq`, `grammar_rules_flat`, `grammar_rules_string`, `grammar_rules_expr`: the same for each of the 31
      rules, from every position, with the end positions and the fuel each rule needs;
    * `grammar_fuel_irrelevant`, `peg_fuel_monotone`: more fuel never changes a result;
    * `roundtrip_in_grammar`, `flat_roundtrip_in_grammar`: every printed description of the round-trip theorems of
      `Props/C06.lean` / `Props/C06b.lean` is in the language of the source grammar.

    An edit of `grammar.peg` changes `Gen/Grammar.lean`; then the `decide`s of `Lemmas/PegRules.lean` (`body_<rule>`)
    and of this file fail, i.e. the check is pointed at the edited rule instead of waiting for the random stream to hit it.

    What is assumed (validated by the exact differential test `corr_L11.py` only): that `Model/Peg.lean` has peggie's
    semantics, and that each scanner of `Peg.terminalScanner` matches what `re` matches for its regex. -/
namespace RG.C06
open Parser Peg

/-! ## the generated grammar is within the model (evaluated on the generated data) -/

/-- every regex / literal occurring in the generated grammar has a scanner -/
theorem terminals_known :
    (Gen.grammarRules.flatMap fun r => r.2.terminals).all (fun re => (terminalScanner re).isSome) = true := by decide

/-- every rule referred to is defined, and so is the start rule -/
theorem rules_closed :
    (Gen.grammarRules.flatMap fun r => r.2.ruleRefs).all (fun n => (Gen.grammarRules.lookup n).isSome) = true
    ∧ (Gen.grammarRules.lookup Gen.startRule).isSome = true := by decide

/-- the translator found nothing it could not express (indentation requirements, unknown node classes, odd flags) -/
theorem grammar_supported : Gen.grammarRules.all (fun r => !r.2.hasUnsupported) = true := by decide

/-- rule names are unique (`lookup` sees every rule) -/
theorem rules_unique : (Gen.grammarRules.map (·.1)).Nodup := by decide

example : Gen.grammarRules.length = 31 ∧ (Gen.grammarRules.flatMap fun r => r.2.terminals).eraseDups.length = 27 := by
  decide

/-! ## the main theorem -/

instance (r : ParseResult) : Decidable (r ≠ .syntaxError) :=
  match r with
  | .syntaxError => isFalse (fun h => h rfl)
  | .ok _ => isTrue (fun h => by cases h)
  | .zeroDivision => isTrue (fun h => by cases h)

/-- the generic recogniser on the generated start rule ends where the hand-written `recipe` ends -/
theorem pegRecipe_eq (src : Str) :
    pegRecipe src = match recipe src.toArray ⟨0, false⟩ with
      | none => .fail
      | some (_, s) => .ok s.pos := by
  have h := run_recipe src.toArray (f := pegFuel src.length) ⟨0, false⟩ (by simp [pegFuel])
  show pegRun Gen.grammarRules terminalScanner src.toArray (pegFuel src.length) Gen.startRule 0 = _
  rw [show Gen.startRule = "recipe" from rfl]
  rw [show pegRun Gen.grammarRules terminalScanner src.toArray (pegFuel src.length) "recipe" 0
    = run src.toArray (pegFuel src.length) "recipe" (PState.mk 0 false).pos from rfl, h]
  cases recipe src.toArray ⟨0, false⟩ with
  | none => rfl
  | some r => rfl

/-- **the hand-written parser accepts exactly the texts the generated grammar accepts under PEG semantics**
    (and the generic run is defined on every text) -/
theorem parser_recognises_grammar (src : Str) : pegAccepts src = some (decide (parse src ≠ .syntaxError)) := by
  unfold pegAccepts parse
  rw [pegRecipe_eq]
  cases recipe src.toArray ⟨0, false⟩ with
  | none => rfl
  | some r => rfl

theorem pegAccepts_defined (src : Str) : (pegAccepts src).isSome = true := by
  rw [parser_recognises_grammar]; rfl

theorem grammar_accepts_iff (src : Str) : pegAccepts src = some true ↔ ∃ stmts, parse src = .ok stmts := by
  rw [parser_recognises_grammar]
  rcases parse_total src with ⟨stmts, h⟩ | h
  · rw [h]; exact ⟨fun _ => ⟨stmts, rfl⟩, fun _ => rfl⟩
  · rw [h]; exact ⟨fun e => (by cases e), fun ⟨_, e⟩ => (by cases e)⟩

theorem grammar_rejects_iff (src : Str) : pegAccepts src = some false ↔ parse src = .syntaxError := by
  rw [parser_recognises_grammar]
  rcases parse_total src with ⟨stmts, h⟩ | h
  · rw [h]; exact ⟨fun e => (by cases e), fun e => (by cases e)⟩
  · rw [h]; exact ⟨fun _ => rfl, fun _ => rfl⟩

/-- more fuel than `pegFuel` changes nothing: with any fuel from `2 * length + 19` on the start rule ends where
    `recipe` ends -/
theorem grammar_fuel_irrelevant (src : Str) (f : Nat) (hf : 2 * src.length + 19 ≤ f) :
    pegRun Gen.grammarRules terminalScanner src.toArray f Gen.startRule 0 = pegRecipe src := by
  rw [pegRecipe_eq]
  have h := run_recipe src.toArray (f := f) ⟨0, false⟩ (by simp; omega)
  rw [show Gen.startRule = "recipe" from rfl]
  rw [show pegRun Gen.grammarRules terminalScanner src.toArray f "recipe" 0
    = run src.toArray f "recipe" (PState.mk 0 false).pos from rfl, h]
  cases recipe src.toArray ⟨0, false⟩ with
  | none => rfl
  | some r => rfl

/-- the generic recogniser, for EVERY grammar, table of scanners and text: a run that did not run out of fuel gives the
    same result with any larger fuel -/
theorem peg_fuel_monotone (rules : List (String × PExpr)) (terms : String → Option (P Unit)) (t : Array Char)
    {f f' : Nat} (hle : f ≤ f') (name : String) (i : Nat) (hne : pegRun rules terms t f name i ≠ .err .fuel) :
    pegRun rules terms t f' name i = pegRun rules terms t f name i :=
  Peg.pegRun_fuel_mono hle name i hne

example : pegRun Gen.grammarRules terminalScanner "1 1/2 x".toList.toArray 5 "number" 0 = .ok 5 := by decide +kernel
example : pegRun Gen.grammarRules terminalScanner "1 1/2 x".toList.toArray 2 "number" 0 = .err .fuel := by decide +kernel

/-! ## rule by rule (`i`: start position, `z`: the flag of the parser state, `f`: levels of rule calls)

    `GrammarRule t f name p i z`: the rule `name` of the generated grammar, run from `i`, fails iff the hand-written `p`
    fails from `i`, and otherwise ends where `p` ends. -/

def GrammarRule {α} (t : Array Char) (f : Nat) (name : String) (p : P α) (i : Nat) (z : Bool) : Prop :=
  pegRun Gen.grammarRules terminalScanner t f name i = match p t ⟨i, z⟩ with
    | none => .fail
    | some (_, s) => .ok s.pos

theorem grammarRule_of {α} {t : Array Char} {f : Nat} {name : String} {p : P α} {i : Nat} {z : Bool}
    (h : run t f name (PState.mk i z).pos = proj (p t ⟨i, z⟩)) : GrammarRule t f name p i z := by
  unfold GrammarRule
  rw [show pegRun Gen.grammarRules terminalScanner t f name i = run t f name (PState.mk i z).pos from rfl, h]
  cases p t ⟨i, z⟩ with
  | none => rfl
  | some r => rfl

/-- the rules without recursion: a fixed number of levels suffices -/
theorem grammar_rules_flat (t : Array Char) (f : Nat) (hf : 5 ≤ f) (i : Nat) (z : Bool) :
    GrammarRule t f "sp" sp i z ∧ GrammarRule t f "hsp" hsp i z ∧ GrammarRule t f "eof" eof i z
    ∧ GrammarRule t f "eol" eol i z ∧ GrammarRule t f "decimal" decimal i z ∧ GrammarRule t f "fraction" fraction i z
    ∧ GrammarRule t f "number" number i z ∧ GrammarRule t f "interpolated_number" number i z
    ∧ GrammarRule t f "naked_string" nakedString i z ∧ GrammarRule t f "s_quoted_string" (quotedString '\'') i z
    ∧ GrammarRule t f "d_quoted_string" (quotedString '"') i z ∧ GrammarRule t f "bracketed_string" bracketedString i z
    ∧ GrammarRule t f "remainder" remainder i z ∧ GrammarRule t f "preposition" preposition i z
    ∧ GrammarRule t f "known_unit" knownUnit i z ∧ GrammarRule t f "proportion" proportion i z
    ∧ GrammarRule t f "implicit_quantity" implicitQuantity i z :=
  ⟨grammarRule_of (rule_sp t (by omega) _), grammarRule_of (rule_hsp t (by omega) _),
   grammarRule_of (rule_eof t (by omega) _), grammarRule_of (rule_eol t (by omega) _),
   grammarRule_of (rule_decimal t (by omega) _), grammarRule_of (rule_fraction t (by omega) _),
   grammarRule_of (rule_number t (by omega) _), grammarRule_of (rule_interpolated_number t (by omega) _),
   grammarRule_of (rule_naked_string t (by omega) _), grammarRule_of (rule_s_quoted_string t (by omega) _),
   grammarRule_of (rule_d_quoted_string t (by omega) _), grammarRule_of (rule_bracketed_string t (by omega) _),
   grammarRule_of (rule_remainder t (by omega) _), grammarRule_of (rule_preposition t (by omega) _),
   grammarRule_of (rule_known_unit t (by omega) _), grammarRule_of (rule_proportion t (by omega) _),
   grammarRule_of (rule_implicit_quantity t (by omega) _)⟩

/-- the string rules: one level per atom, i.e. at most one per character left -/
theorem grammar_rules_string (t : Array Char) (f i : Nat) (z : Bool) (hf : t.size - i + 9 ≤ f) :
    GrammarRule t f "string" (string false) i z ∧ GrammarRule t f "static_string" (string true) i z
    ∧ GrammarRule t f "output" (string false) i z ∧ GrammarRule t f "action" (string false) i z
    ∧ GrammarRule t f "ingredient" (string false) i z ∧ GrammarRule t f "freeform_unit" (string true) i z
    ∧ GrammarRule t f "output_list" outputList i z ∧ GrammarRule t f "explicit_quantity" explicitQuantity i z
    ∧ GrammarRule t f "reference" reference i z :=
  ⟨grammarRule_of (run_string t ⟨i, z⟩ (by simp; omega)), grammarRule_of (run_static_string t ⟨i, z⟩ (by simp; omega)),
   grammarRule_of (run_output t ⟨i, z⟩ (by simp; omega)), grammarRule_of (run_action t ⟨i, z⟩ (by simp; omega)),
   grammarRule_of (run_ingredient t ⟨i, z⟩ (by simp; omega)), grammarRule_of (run_freeform_unit t ⟨i, z⟩ (by simp; omega)),
   grammarRule_of (run_output_list t ⟨i, z⟩ (by simp; omega)),
   grammarRule_of (run_explicit_quantity t ⟨i, z⟩ (by simp; omega)),
   grammarRule_of (run_reference t ⟨i, z⟩ (by simp; omega))⟩

/-- the expression rules: two levels per level of nesting, i.e. at most two per character left; the hand-written
    `expr` with any fuel `k` beyond the number of characters left -/
theorem grammar_rules_expr (t : Array Char) (f i k : Nat) (z : Bool) (hf : 2 * (t.size - i) + 19 ≤ f) (hk : t.size - i < k) :
    GrammarRule t f "expr" (expr k) i z ∧ GrammarRule t f "step" (step (expr k)) i z
    ∧ GrammarRule t f "ltr_shorthand" (ltrShorthand (expr k)) i z ∧ GrammarRule t f "stmt" stmt i z
    ∧ GrammarRule t f "recipe" recipe i z := by
  obtain ⟨g, rfl, hg⟩ := exists_succ (n := 2 * (t.size - i) + 18) hf
  refine ⟨grammarRule_of (expr_ok t k _ ⟨i, z⟩ hk (by simp; omega)), grammarRule_of ?_, grammarRule_of ?_,
    grammarRule_of (run_stmt t ⟨i, z⟩ (by simp; omega)), grammarRule_of (run_recipe t ⟨i, z⟩ (by simp; omega))⟩
  · exact step_ok t (adv_expr k).mono ⟨i, z⟩ (by simp; omega) fun s' h1 h2 =>
      expr_ok t k g s' (by simp at h1 h2; omega) (by simp at h1 h2; omega)
  · exact ltr_ok t (adv_expr k).mono ⟨i, z⟩ (by simp; omega) (expr_ok t k g ⟨i, z⟩ hk (by simp; omega))

/-! ## the existing round-trip theorems, wired to the source grammar -/

/-- every printed block of `recipe_roundtrip` (any abstract block, any admissible spelling) is in the language of the
    generated grammar -/
theorem roundtrip_in_grammar (sp : Spelling) (hsp : sp.WF) (s : XStmt) (ss : List XStmt)
    (hok : BlockOk sp 0 (s :: ss)) : pegAccepts (sp.lead ++ printBlock sp 0 (s :: ss)) = some true := by
  rw [parser_recognises_grammar, recipe_roundtrip sp hsp s ss hok]; rfl

/-- every printed flat recipe of `flat_parse_roundtrip` is in the language of the generated grammar -/
theorem flat_roundtrip_in_grammar (ws0 : Str) (s : FlatStmt) (ss : List FlatStmt) (hws : IsSpaces ws0)
    (hok : FlatOk (s :: ss)) : pegAccepts (ws0 ++ printFlat (s :: ss)) = some true := by
  rw [parser_recognises_grammar, flat_parse_roundtrip ws0 s ss hws hok]; rfl

/-! ## non-vacuity: the generic recogniser evaluated on the generated data -/

example : pegAccepts "sauce = boil(1 kg tomatoes, rest of the stock), sieve".toList = some true := by decide +kernel
example : pegAccepts "sauce = boil(1 kg tomatoes, rest of the stock, sieve".toList = some false := by decide +kernel
example : pegAccepts "a, b := f(c, {1 1/2 'x'} of d,)\n\n(e, g) , h".toList = some true := by decide +kernel
example : pegAccepts "1/0 x".toList = some false := by decide +kernel
example : pegAccepts [] = some false := by decide +kernel
/-- the end position of the generic run -/
example : pegRecipe "x = y\nz".toList = .ok 7 := by decide +kernel
/-- an edited regex has no scanner: the run is undefined, not wrong -/
example : pegRunExpr Gen.grammarRules terminalScanner 5 (.cat (.rule "hsp") (.term "[0-9]*")) " 1".toList.toArray 0
    = .err (.unknownTerminal "[0-9]*") := by decide +kernel
/-- a body of `*` that can succeed without consuming: peggie raises `RepeatedEmptyTermError` -/
example : pegRunExpr Gen.grammarRules terminalScanner 5 (.star (.maybe (.rule "hsp"))) "x".toList.toArray 0
    = .err .repeatedEmpty := by decide +kernel
/-- left recursion exhausts the fuel (peggie: `LeftRecursionError`) -/
example : pegRun [("a", .cat (.rule "a") (.term ","))] terminalScanner ",".toList.toArray 50 "a" 0 = .err .fuel := by
  decide +kernel

end RG.C06
