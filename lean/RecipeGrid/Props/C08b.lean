import RecipeGrid.Lemmas.Fold
/-! C08.1 (with C07 for the inlining pass): whatever description is accepted by elaboration, the inlining pass of
    `compile` never fails (`list.remove` finds the definition, the definition block exists, the sub recipe and its
    reference have the expected shape) and its result passes the `Recipe` validity check.  Hence no undocumented
    exception escapes from the rewriting.  Helper lemmas and the loop invariant `FoldInv` are in `Lemmas/Fold.lean`. -/
namespace RG.C08

/-- **the pass never fails**: neither `"ValueError"` (`list.remove`), nor `"IndexError"`, nor `"AttributeError"` -/
theorem foldAll_ok (asts : List (List AStmt)) (bs : List Block) (st : CState)
    (h : compileBlocks 0 {} asts = .ok (bs, st)) :
    ∃ bs' outs', foldAll st.outputs.length 0 bs st.outputs = .ok (bs', outs') := by
  obtain ⟨bs', outs', hf, _⟩ := foldAll_inv st.outputs.length 0 bs st.outputs (foldInv_init asts bs st h)
  exact ⟨bs', outs', hf⟩

/-- every embedded copy of the result IS a sub recipe root at an earlier position (an earlier block, or earlier in
    the same block) -/
theorem foldAll_scoped (asts : List (List AStmt)) (bs : List Block) (st : CState)
    (h : compileBlocks 0 {} asts = .ok (bs, st)) (bs' : List Block) (outs' : List NamedOutput)
    (hf : foldAll st.outputs.length 0 bs st.outputs = .ok (bs', outs')) : Scoped bs'.flatten := by
  obtain ⟨bs2, outs2, hf2, hinv, _⟩ := foldAll_inv st.outputs.length 0 bs st.outputs (foldInv_init asts bs st h)
  rw [hf] at hf2
  cases hf2
  exact hinv.wf

/-- **the result is a valid recipe** -/
theorem foldAll_valid (asts : List (List AStmt)) (bs : List Block) (st : CState)
    (h : compileBlocks 0 {} asts = .ok (bs, st)) (bs' : List Block) (outs' : List NamedOutput)
    (hf : foldAll st.outputs.length 0 bs st.outputs = .ok (bs', outs')) : checkBlocks [] bs' = true :=
  checkBlocks_of_scoped bs' (foldAll_scoped asts bs st h bs' outs' hf)

/-- the number of blocks is unchanged -/
theorem foldAll_blocks_length (asts : List (List AStmt)) (bs : List Block) (st : CState)
    (h : compileBlocks 0 {} asts = .ok (bs, st)) (bs' : List Block) (outs' : List NamedOutput)
    (hf : foldAll st.outputs.length 0 bs st.outputs = .ok (bs', outs')) : bs'.length = bs.length := by
  obtain ⟨bs2, outs2, hf2, _, _, hl⟩ := foldAll_inv st.outputs.length 0 bs st.outputs (foldInv_init asts bs st h)
  rw [hf] at hf2
  cases hf2
  exact hl

/-- **no undocumented exception escapes from `compile`'s rewriting** (nor from elaboration) -/
theorem compile_no_internal (srcs : List Str) : ∀ why, compile srcs ≠ .internal why := by
  intro why
  unfold compile elabBlocks
  cases hp : parseAll 0 srcs with
  | error e =>
    intro h
    have : e = .internal why := h
    rcases parseAll_error srcs 0 e hp with ⟨b, hb⟩ | ⟨b, hb⟩ <;> rw [hb] at this <;> cases this
  | ok asts =>
    show (match compileBlocks 0 {} asts with
      | .error e => e
      | .ok (blocks, st) => _) ≠ _
    cases hc : compileBlocks 0 {} asts with
    | error e =>
      intro h
      have : e = .internal why := h
      exact (C01.elab_no_other_error asts).2.2.1 why (by rw [hc, this])
    | ok p =>
      obtain ⟨bs, st⟩ := p
      obtain ⟨bs', outs', hf⟩ := foldAll_ok asts bs st hc
      simp only [hf, foldAll_valid asts bs st hc bs' outs' hf, if_true]
      intro h; cases h

/-- what `compile` returns passes the `Recipe` validity check; it is the inlined elaboration -/
theorem compile_ok_valid (srcs : List Str) (bs : List Block) (h : compile srcs = .ok bs) : checkBlocks [] bs = true := by
  unfold compile elabBlocks at h
  cases hp : parseAll 0 srcs with
  | error e =>
    rw [hp] at h
    have : e = .ok bs := h
    rcases parseAll_error srcs 0 e hp with ⟨b, hb⟩ | ⟨b, hb⟩ <;> rw [hb] at this <;> cases this
  | ok asts =>
    rw [hp] at h
    change (match compileBlocks 0 {} asts with
      | .error e => e
      | .ok (blocks, st) => _) = _ at h
    cases hc : compileBlocks 0 {} asts with
    | error e =>
      rw [hc] at h
      have : e = .ok bs := h
      exact absurd (by rw [hc, this]) ((C01.elab_no_other_error asts).2.2.2 bs)
    | ok p =>
      obtain ⟨bs0, st⟩ := p
      rw [hc] at h
      obtain ⟨bs', outs', hf⟩ := foldAll_ok asts bs0 st hc
      have hv := foldAll_valid asts bs0 st hc bs' outs' hf
      simp only [hf, hv, if_true] at h
      cases h
      exact hv

end RG.C08
