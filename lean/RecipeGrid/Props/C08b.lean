import RecipeGrid.Lemmas.Fold
import RecipeGrid.Props.C08
/-! C08.1 (with C07 for the inlining pass): whatever description is accepted by elaboration, the inlining pass of
    `compile` never fails (`list.remove` finds the definition, the definition block exists, the sub recipe and its
    reference have the expected shape) and its result passes the `Recipe` validity check.  Hence no undocumented
    exception escapes from the rewriting.  Helper lemmas and the loop invariant `FoldInv` are in `Lemmas/Fold.lean`. -/
namespace RG.C08

/-- **the pass never fails**: neither `"ValueError"` (`list.remove`), nor `"IndexError"`, nor `"AttributeError"` -/
theorem foldAll_ok (asts : List (List AStmt)) (bs : List Block) (st : CState)
    (h : compileBlocks 0 {} asts = .ok (bs, st)) :
    ∃ bs' outs', foldAll st.outputs.length 0 bs st.outputs = .ok (bs', outs') := by
  obtain ⟨bs', outs', hf, _⟩ := foldAll_inv st.outputs.length 0 bs st.outputs (foldInv_init asts bs st h)
  exact ⟨bs', outs', hf⟩

/-- every embedded copy of the result IS a sub recipe root at an earlier position (an earlier block, or earlier in
    the same block) -/
theorem foldAll_scoped (asts : List (List AStmt)) (bs : List Block) (st : CState)
    (h : compileBlocks 0 {} asts = .ok (bs, st)) (bs' : List Block) (outs' : List NamedOutput)
    (hf : foldAll st.outputs.length 0 bs st.outputs = .ok (bs', outs')) : Scoped bs'.flatten := by
  obtain ⟨bs2, outs2, hf2, hinv, _⟩ := foldAll_inv st.outputs.length 0 bs st.outputs (foldInv_init asts bs st h)
  rw [hf] at hf2
  cases hf2
  exact hinv.wf

/-- **the result is a valid recipe** -/
theorem foldAll_valid (asts : List (List AStmt)) (bs : List Block) (st : CState)
    (h : compileBlocks 0 {} asts = .ok (bs, st)) (bs' : List Block) (outs' : List NamedOutput)
    (hf : foldAll st.outputs.length 0 bs st.outputs = .ok (bs', outs')) : checkBlocks [] bs' = true :=
  checkBlocks_of_scoped bs' (foldAll_scoped asts bs st h bs' outs' hf)

/-- the number of blocks is unchanged -/
theorem foldAll_blocks_length (asts : List (List AStmt)) (bs : List Block) (st : CState)
    (h : compileBlocks 0 {} asts = .ok (bs, st)) (bs' : List Block) (outs' : List NamedOutput)
    (hf : foldAll st.outputs.length 0 bs st.outputs = .ok (bs', outs')) : bs'.length = bs.length := by
  obtain ⟨bs2, outs2, hf2, _, _, hl⟩ := foldAll_inv st.outputs.length 0 bs st.outputs (foldInv_init asts bs st h)
  rw [hf] at hf2
  cases hf2
  exact hl

/-- **no undocumented exception escapes from `compile`'s rewriting** (nor from elaboration) -/
theorem compile_no_internal (srcs : List Str) : ∀ why, compile srcs ≠ .internal why := by
  intro why
  unfold compile elabBlocks
  cases hp : parseAll 0 srcs with
  | error e =>
    intro h
    have : e = .internal why := h
    rcases parseAll_error srcs 0 e hp with ⟨b, hb⟩ | ⟨b, hb⟩ <;> rw [hb] at this <;> cases this
  | ok asts =>
    show (match compileBlocks 0 {} asts with
      | .error e => e
      | .ok (blocks, st) => _) ≠ _
    cases hc : compileBlocks 0 {} asts with
    | error e =>
      intro h
      have : e = .internal why := h
      exact (C01.elab_no_other_error asts).2.2.1 why (by rw [hc, this])
    | ok p =>
      obtain ⟨bs, st⟩ := p
      obtain ⟨bs', outs', hf⟩ := foldAll_ok asts bs st hc
      simp only [hf, foldAll_valid asts bs st hc bs' outs' hf, if_true]
      intro h; cases h

/-- what `compile` returns passes the `Recipe` validity check -/
theorem compile_ok_valid (srcs : List Str) (bs : List Block) (h : compile srcs = .ok bs) : checkBlocks [] bs = true := by
  obtain ⟨asts, bs0, st, outs', _, hc, _, hf⟩ := compile_ok_phases h
  exact foldAll_valid asts bs0 st hc bs outs' hf

/-- the result is structurally valid (`C03.ValidS`: every embedded copy IS an earlier sub recipe root), which is
    the hypothesis under which scaling keeps validity (`C03.scale_valid`, C08.2) -/
theorem compile_validS (srcs : List Str) (bs : List Block) (h : compile srcs = .ok bs) : C03.ValidS [] bs := by
  obtain ⟨asts, bs0, st, outs', _, hc, _, hf⟩ := compile_ok_phases h
  exact validS_of_scoped _ (foldAll_scoped asts bs0 st hc _ outs' hf)

/-- hence a compiled recipe can be scaled and re-constructed: `Recipe.scale` never raises on it -/
theorem compile_scale_ok (srcs : List Str) (bs : List Block) (h : compile srcs = .ok bs) (k : Num) :
    mkRecipes (scaleBlocks k bs) = .ok (scaleBlocks k bs) :=
  C03.scale_mkRecipes_ok k bs (compile_validS srcs bs h)

/-- in the words of C08.4: every reference target met while walking the compiled recipe is `==` to a sub recipe root
    at an earlier position -/
theorem compile_refsResolve (srcs : List Str) (bs : List Block) (h : compile srcs = .ok bs) : RefsResolve bs := by
  rw [← mkRecipes_ok_iff]
  simp [mkRecipes, compile_ok_valid srcs bs h]

-- ================================================================ every node is accepted by its constructor
/-- a tree the Python constructors build without raising: every step accepts its inputs (`mkStep`: no multi-output
    sub recipe below a step), every sub recipe accepts its body and has a name (`mkSub`), every reference selects an
    existing output of the sub recipe it holds (`mkReference`), recursively — also inside embedded copies -/
inductive Constructible : Tree → Prop
  | ingredient (d : SVS) (q : Option Quantity) : Constructible (.ingredient d q)
  | step (d : SVS) (inputs : List Tree) : (∀ t ∈ inputs, Constructible t) → mkStep d inputs = .ok (.step d inputs) →
      Constructible (.step d inputs)
  | reference (s : Tree) (idx : Nat) (a : Amount) : Constructible s →
      mkReference s idx a = .ok (.reference s idx a) → Constructible (.reference s idx a)
  | sub (b : Tree) (ns : List SVS) (sh : Bool) : Constructible b → mkSub b ns sh = .ok (.sub b ns sh) →
      Constructible (.sub b ns sh)

mutual
theorem constructible_of_wfB : ∀ t : Tree, t.wfB = true → Constructible t
  | .ingredient d q, _ => .ingredient d q
  | .step d i, h => by
    simp only [Tree.wfB] at h
    obtain ⟨h1, h2⟩ := constructible_of_wfBList i h
    refine .step d i h1 ?_
    rw [mkStep_ok_iff]
    intro t ht
    exact (Tree.canBeChild_iff t).mp (h2 t ht)
  | .reference s j a, h => by
    simp only [Tree.wfB, Bool.and_eq_true, decide_eq_true_eq] at h
    exact .reference s j a (constructible_of_wfB s h.2) ((mkReference_ok_iff s j a).mpr h.1)
  | .sub b ns sh, h => by
    simp only [Tree.wfB, Bool.and_eq_true] at h
    refine .sub b ns sh (constructible_of_wfB b h.2) ?_
    rw [(mkSub_refuses_iff b ns sh).2.2]
    refine ⟨(Tree.canBeChild_iff b).mp h.1.1, ?_⟩
    intro hn; rw [hn] at h; simp at h
theorem constructible_of_wfBList : ∀ ts : List Tree, Tree.wfBList ts = true →
    (∀ t ∈ ts, Constructible t) ∧ (∀ t ∈ ts, t.canBeChild = true)
  | [], _ => ⟨by simp, by simp⟩
  | t :: ts, h => by
    simp only [Tree.wfBList, Bool.and_eq_true] at h
    obtain ⟨h1, h2⟩ := constructible_of_wfBList ts h.2
    constructor
    · intro x hx
      simp only [List.mem_cons] at hx
      rcases hx with rfl | hx
      · exact constructible_of_wfB _ h.1.2
      · exact h1 x hx
    · intro x hx
      simp only [List.mem_cons] at hx
      rcases hx with rfl | hx
      · exact h.1.1
      · exact h2 x hx
end

/-- **C08.1** every tree of the compiled recipe is accepted by the constructors: in particular multi-output sub
    recipes occur only as roots (never below a step or inside another sub recipe) and every sub recipe has at least
    one name -/
theorem compile_constructible (srcs : List Str) (bs : List Block) (h : compile srcs = .ok bs) :
    ∀ b ∈ bs, ∀ t ∈ b, Constructible t := by
  obtain ⟨asts, bs0, st, outs', _, hc, _, hf⟩ := compile_ok_phases h
  intro b hb t ht
  exact constructible_of_wfB t (foldAll_wfAll asts bs0 st hc _ bs outs' hf t (List.mem_flatten.mpr ⟨b, hb, ht⟩))

-- ================================================================ non-vacuity: a concrete two-block program
section Examples
private def str (s : Str) : AString := [.sub 0 s]
/-- block 0: `A := mix(FIG)`, `B := heat(A)`, `C = serve(B, RYE)`; block 1: `eat(C)`: two nested definitions are
    folded, the cross-block reference is not -/
private def prog : List (List AStmt) :=
  [[ ⟨.step (str ['m','i','x']) [.ref (str ['F','I','G']) none], some [str ['A']], true⟩,
     ⟨.step (str ['h','e','a','t']) [.ref (str ['A']) none], some [str ['B']], true⟩,
     ⟨.step (str ['s','e','r','v','e']) [.ref (str ['B']) none, .ref (str ['R','Y','E']) none], some [str ['C']], false⟩ ],
   [ ⟨.step (str ['e','a','t']) [.ref (str ['C']) none], none, false⟩ ]]

/-- evaluated: the loop succeeds, [3, 1] roots become [1, 1], the result passes the check, and the remaining
    reference of block 1 holds a copy of the (rewritten) root of block 0 -/
example : (match compileBlocks 0 {} prog with
    | .ok (bs, st) =>
      match foldAll st.outputs.length 0 bs st.outputs with
      | .ok ([[c], [.step _ [.reference c' 0 _]]], _) =>
        decide (bs.map List.length = [3, 1] ∧ st.outputs.map NamedOutput.canBeInlined = [true, true, false] ∧ c' = c) &&
          checkBlocks [] [[c], [.step [] [.reference c' 0 Amount.whole]]]
      | _ => false
    | .error _ => false) = true := by decide +kernel

private theorem prog_elab : ∃ bs st, compileBlocks 0 {} prog = .ok (bs, st) := by
  cases h : compileBlocks 0 {} prog with
  | ok p => exact ⟨p.1, p.2, rfl⟩
  | error e =>
    have : (compileBlocks 0 {} prog).toBool = true := by decide +kernel
    rw [h] at this; cases this

/-- the hypotheses of the theorems are satisfiable -/
example : ∃ bs st bs' outs', compileBlocks 0 {} prog = .ok (bs, st) ∧
    foldAll st.outputs.length 0 bs st.outputs = .ok (bs', outs') ∧ checkBlocks [] bs' = true ∧ Scoped bs'.flatten := by
  obtain ⟨bs, st, h⟩ := prog_elab
  obtain ⟨bs', outs', hf⟩ := foldAll_ok prog bs st h
  exact ⟨bs, st, bs', outs', h, hf, foldAll_valid prog bs st h bs' outs' hf, foldAll_scoped prog bs st h bs' outs' hf⟩

/-- the same program from source text, through `compile`: accepted, [1, 1] roots, valid, no internal error -/
example : (match compile ["A := MIX(FIG)\nB := HEAT(A)\nC = SERVE(B, RYE)".toList, "EAT(C)".toList] with
    | .ok bs => bs.map List.length == [1, 1] && checkBlocks [] bs
    | _ => false) = true := by decide +kernel
end Examples

end RG.C08
