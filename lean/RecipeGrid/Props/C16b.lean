import RecipeGrid.Model.Fs
/-! C16b — the resolution of local links on an abstract file system (`Model/Fs.lean`): what `Path.resolve()` returns,
    and that the decision taken on it (`decideLinkP`: one `resolve()` and the refusal of a result that still has a
    symbolic link on it, commit f55deed) never serves bytes from outside the source root: `asset_is_inside_root`,
    `no_outside_bytes`, without any hypothesis about loops. With a loop CPython 3.12's `realpath` + `abspath` fall
    back to a lexically normalised, unresolved path; the decisions without the check -- a single `resolve()`
    (`decideLinkP1`) and `resolve().resolve()` (`decideLinkP2`, commit 5662881) -- serve a file from outside the root:
    `single_resolve_leaks`, `double_resolve_leaks`, `single_resolve_not_contained`, `double_resolve_not_contained`. -/
namespace RG.C16
open RG

/-! ## paths that are resolved -/

/-- a component that names something -/
def Plain (c : Str) : Prop := isDot c = false ∧ isDotDot c = false

/-- no component is empty, `.` or `..`, and no prefix of the path is a symbolic link -/
def Clean (fs : Fs) (q : Path) : Prop :=
  ∀ pre c, pre ++ [c] <+: q → Plain c ∧ fs.linkAt (pre ++ [c]) = none

theorem clean_nil (fs : Fs) : Clean fs [] := by
  intro pre c h
  have := List.prefix_nil.mp h
  simp at this

theorem clean_prefix {fs : Fs} {p q : Path} (h : Clean fs q) (hp : p <+: q) : Clean fs p :=
  fun pre c hc => h pre c (hc.trans hp)

theorem clean_dropLast {fs : Fs} {q : Path} (h : Clean fs q) : Clean fs q.dropLast :=
  clean_prefix h (List.dropLast_prefix q)

theorem clean_snoc {fs : Fs} {q : Path} {c : Str} (h : Clean fs q) (hc : Plain c) (hl : fs.linkAt (q ++ [c]) = none) :
    Clean fs (q ++ [c]) := by
  intro pre c' hp
  rcases List.prefix_concat_iff.mp hp with heq | hpre
  · have := List.append_inj' heq rfl
    obtain ⟨h1, h2⟩ := this
    simp at h2
    subst h1 h2
    exact ⟨hc, hl⟩
  · exact h pre c' hpre

theorem clean_snoc_inv {fs : Fs} {q : Path} {c : Str} (h : Clean fs (q ++ [c])) :
    Clean fs q ∧ Plain c ∧ fs.linkAt (q ++ [c]) = none :=
  ⟨clean_prefix h (List.prefix_append q [c]), h q c (List.prefix_refl _)⟩

theorem clean_append_left {fs : Fs} {p s : Path} (h : Clean fs (p ++ s)) : Clean fs p :=
  clean_prefix h (List.prefix_append p s)

/-! ## the walk -/

theorem walkPlain_clean (fs : Fs) : ∀ (todo : List Item) (acc : Path), Clean fs acc →
    (∀ q, walkPlain fs acc todo = .done q → Clean fs q) ∧
    (∀ acc' todo', walkPlain fs acc todo = .link acc' todo' → Clean fs acc') := by
  intro todo
  induction todo with
  | nil =>
    intro acc h
    simp only [walkPlain]
    refine ⟨?_, ?_⟩
    · intro q hq; cases hq; exact h
    · intro _ _ hq; cases hq
  | cons it rest ih =>
    intro acc h
    cases it with
    | endLink p => simp only [walkPlain]; exact ih acc h
    | comp c =>
      simp only [walkPlain]
      cases hd : isDot c with
      | true => simp only [if_true]; exact ih acc h
      | false =>
        cases hdd : isDotDot c with
        | true => simp only [if_true, if_false, Bool.false_eq_true]; exact ih _ (clean_dropLast h)
        | false =>
          simp only [if_false, Bool.false_eq_true]
          cases hl : fs.linkAt (acc ++ [c]) with
          | none =>
            simp only []
            exact ih _ (clean_snoc h ⟨hd, hdd⟩ hl)
          | some ta =>
            obtain ⟨tgt, abs⟩ := ta
            simp only []
            by_cases hc : rest.contains (.endLink (acc ++ [c])) = true
            · simp only [hc, if_true]
              exact ⟨fun _ hq => (by cases hq), fun _ _ hq => (by cases hq)⟩
            · simp only [hc]
              refine ⟨fun _ hq => (by cases hq), ?_⟩
              intro acc' todo' hq
              cases hq
              cases abs
              · simpa using h
              · simpa using clean_nil fs

theorem walk_clean (fs : Fs) : ∀ (fuel : Nat) (acc : Path) (todo : List Item) (q : Path), Clean fs acc →
    walk fs fuel acc todo = .ok q → Clean fs q := by
  intro fuel
  induction fuel with
  | zero =>
    intro acc todo q h hw
    unfold walk at hw
    cases hs : walkPlain fs acc todo with
    | done q' => rw [hs] at hw; cases hw; exact (walkPlain_clean fs todo acc h).1 _ hs
    | looped u => rw [hs] at hw; cases hw
    | link a t => rw [hs] at hw; cases hw
  | succ n ih =>
    intro acc todo q h hw
    unfold walk at hw
    cases hs : walkPlain fs acc todo with
    | done q' => rw [hs] at hw; cases hw; exact (walkPlain_clean fs todo acc h).1 _ hs
    | looped u => rw [hs] at hw; cases hw
    | link a t =>
      rw [hs] at hw
      exact ih a t q ((walkPlain_clean fs todo acc h).2 _ _ hs) hw

/-- C16b.1 a resolved path has no empty, `.` or `..` component and no prefix of it is a symbolic link -/
theorem resolve_no_symlink (fs : Fs) (p q : Path) (h : resolve fs p = some q) : Clean fs q := by
  unfold resolve at h
  cases hw : walk fs maxExpansions [] (p.map .comp) with
  | ok q' => rw [hw] at h; cases h; exact walk_clean fs _ _ _ _ (clean_nil fs) hw
  | looped u => rw [hw] at h; cases h
  | outOfFuel => rw [hw] at h; cases h

theorem walkPlain_of_clean (fs : Fs) (rest : List Item) : ∀ (s acc : Path), Clean fs (acc ++ s) →
    walkPlain fs acc (s.map .comp ++ rest) = walkPlain fs (acc ++ s) rest := by
  intro s
  induction s with
  | nil => intro acc _; simp
  | cons c s ih =>
    intro acc h
    have h' : Clean fs ((acc ++ [c]) ++ s) := by simpa using h
    obtain ⟨_, hp, hl⟩ := clean_snoc_inv (clean_append_left h')
    simp only [List.map_cons, List.cons_append, walkPlain, hp.1, hp.2, hl, if_false, Bool.false_eq_true]
    rw [ih _ h']
    simp

theorem walk_of_clean (fs : Fs) (fuel : Nat) (q : Path) (h : Clean fs q) : walk fs fuel [] (q.map .comp) = .ok q := by
  have := walkPlain_of_clean fs [] q [] (by simpa using h)
  simp only [List.append_nil, List.nil_append] at this
  unfold walk
  rw [this]
  simp [walkPlain]

/-- a path without dots and links resolves to itself -/
theorem resolve_of_clean (fs : Fs) (q : Path) (h : Clean fs q) : resolve fs q = some q := by
  unfold resolve
  rw [walk_of_clean fs _ q h]

/-- C16b.1 resolution is idempotent (no well-formedness of the file system is needed) -/
theorem resolve_idempotent (fs : Fs) (p q : Path) (h : resolve fs p = some q) : resolve fs q = some q :=
  resolve_of_clean fs q (resolve_no_symlink fs p q h)

/-- more fuel never changes an answer -/
theorem walk_fuel_mono (fs : Fs) : ∀ (fuel : Nat) (acc : Path) (todo : List Item) (r : WalkResult),
    walk fs fuel acc todo = r → r ≠ .outOfFuel → walk fs (fuel + 1) acc todo = r := by
  intro fuel
  induction fuel with
  | zero =>
    intro acc todo r hw hr
    unfold walk at hw ⊢
    cases hs : walkPlain fs acc todo with
    | done q' => rw [hs] at hw; simpa using hw
    | looped u => rw [hs] at hw; simpa using hw
    | link a t => rw [hs] at hw; simp at hw; exact absurd hw.symm hr
  | succ n ih =>
    intro acc todo r hw hr
    unfold walk at hw ⊢
    cases hs : walkPlain fs acc todo with
    | done q' => rw [hs] at hw; simpa using hw
    | looped u => rw [hs] at hw; simpa using hw
    | link a t => rw [hs] at hw; simp only at hw ⊢; exact ih a t r hw hr

/-- on a file system without symbolic links resolution is lexical normalisation -/
theorem walkPlain_nolinks (fs : Fs) (hn : ∀ p, fs.linkAt p = none) : ∀ (s acc : Path),
    walkPlain fs acc (s.map .comp) = .done (lexNorm acc s) := by
  intro s
  induction s with
  | nil => intro acc; simp [walkPlain, lexNorm]
  | cons c s ih =>
    intro acc
    simp only [List.map_cons, walkPlain, lexNorm, hn]
    split
    · exact ih _
    · split
      · exact ih _
      · exact ih _

theorem resolve_nolinks (fs : Fs) (hn : ∀ p, fs.linkAt p = none) (p : Path) : resolve fs p = some (lexNorm [] p) := by
  unfold resolve walk
  rw [walkPlain_nolinks fs hn]

/-- when no loop is met, `Path.resolve()` is the resolved path -/
theorem resolvePy_of_resolve (fs : Fs) (p q : Path) (h : resolve fs p = some q) : resolvePy fs p = .ok q := by
  unfold resolve at h
  unfold resolvePy
  cases hw : walk fs maxExpansions [] (p.map .comp) with
  | ok q' => rw [hw] at h; cases h; rfl
  | looped u => rw [hw] at h; cases h
  | outOfFuel => rw [hw] at h; cases h

/-! ## the kernel's lookup on a resolved path -/

/-- what a real file system guarantees: whatever exists stands in a directory -/
def WF (fs : Fs) : Prop := ∀ (p : Path) (c : Str), fs.nodeAt (p ++ [c]) ≠ none → fs.nodeAt p = some .dir

theorem linkAt_none_iff (fs : Fs) (p : Path) : fs.linkAt p = none ↔ ∀ t a, fs.nodeAt p ≠ some (.symlink t a) := by
  unfold Fs.linkAt
  cases h : fs.nodeAt p with
  | none => simp
  | some n => cases n <;> simp

theorem wf_ancestor {fs : Fs} (hw : WF fs) : ∀ (s p : Path), s ≠ [] → fs.nodeAt (p ++ s) ≠ none →
    fs.nodeAt p = some .dir := by
  intro s
  induction s with
  | nil => intro _ h; exact absurd rfl h
  | cons c s ih =>
    intro p _ hn
    by_cases hs : s = []
    · subst hs; exact hw p c hn
    · have := ih (p ++ [c]) hs (by simpa using hn)
      exact hw p c (by rw [this]; simp)

/-- on a resolved path the kernel's lookup either arrives at the path itself or stops at something missing -/
theorem kwalkPlain_clean (fs : Fs) : ∀ (s acc : Path), Clean fs (acc ++ s) →
    kwalkPlain fs acc s = .done (acc ++ s) ∨ kwalkPlain fs acc s = .noent := by
  intro s
  induction s with
  | nil => intro acc _; simp [kwalkPlain]
  | cons c s ih =>
    intro acc h
    have h' : Clean fs ((acc ++ [c]) ++ s) := by simpa using h
    obtain ⟨_, hp, hl⟩ := clean_snoc_inv (clean_append_left h')
    unfold kwalkPlain
    cases hn : fs.nodeAt acc with
    | none => simp
    | some n =>
      cases n with
      | file _ => simp
      | symlink _ _ => simp
      | dir =>
        simp only [hp.1, hp.2, if_false, Bool.false_eq_true]
        cases hc : fs.nodeAt (acc ++ [c]) with
        | none => simp
        | some n' =>
          cases n' with
          | symlink t a => exact absurd hc ((linkAt_none_iff fs _).mp hl t a)
          | dir => simpa using ih _ h'
          | file _ => simpa using ih _ h'

theorem kwalkPlain_clean_wf (fs : Fs) (hw : WF fs) : ∀ (s acc : Path), Clean fs (acc ++ s) →
    fs.nodeAt (acc ++ s) ≠ none → kwalkPlain fs acc s = .done (acc ++ s) := by
  intro s
  induction s with
  | nil => intro acc _ _; simp [kwalkPlain]
  | cons c s ih =>
    intro acc h hne
    have h' : Clean fs ((acc ++ [c]) ++ s) := by simpa using h
    have hne' : fs.nodeAt ((acc ++ [c]) ++ s) ≠ none := by simpa using hne
    obtain ⟨_, hp, hl⟩ := clean_snoc_inv (clean_append_left h')
    have hdir : fs.nodeAt acc = some .dir := wf_ancestor hw (c :: s) acc (by simp) hne
    have hex : fs.nodeAt (acc ++ [c]) ≠ none := by
      by_cases hs : s = []
      · subst hs; simpa using hne'
      · rw [wf_ancestor hw s (acc ++ [c]) hs hne']; simp
    unfold kwalkPlain
    simp only [hdir, hp.1, hp.2, if_false, Bool.false_eq_true]
    cases hc : fs.nodeAt (acc ++ [c]) with
    | none => exact absurd hc hex
    | some n' =>
      cases n' with
      | symlink t a => exact absurd hc ((linkAt_none_iff fs _).mp hl t a)
      | dir => simpa using ih _ h' hne'
      | file _ => simpa using ih _ h' hne'

theorem kwalk_of_plain_done (fs : Fs) (fuel : Nat) (acc s q : Path) (h : kwalkPlain fs acc s = .done q) :
    kwalk fs fuel acc s = .ok q := by
  cases fuel <;> (unfold kwalk; rw [h])

theorem kwalk_of_plain_noent (fs : Fs) (fuel : Nat) (acc s : Path) (h : kwalkPlain fs acc s = .noent) :
    kwalk fs fuel acc s = .noent := by
  cases fuel <;> (unfold kwalk; rw [h])

/-- whatever `stat` finds at a resolved path is the node at that very path -/
theorem statNode_clean_sub (fs : Fs) (q : Path) (h : Clean fs q) (n : Node) (hs : fs.statNode q = some n) :
    fs.nodeAt q = some n := by
  unfold Fs.statNode Fs.stat at hs
  rcases kwalkPlain_clean fs q [] (by simpa using h) with hd | hd
  · rw [kwalk_of_plain_done fs _ _ _ _ hd] at hs; simpa using hs
  · rw [kwalk_of_plain_noent fs _ _ _ hd] at hs; simp at hs

/-- on a well-formed file system `stat` of a resolved path is the node at that path -/
theorem statNode_clean (fs : Fs) (hw : WF fs) (q : Path) (h : Clean fs q) : fs.statNode q = fs.nodeAt q := by
  cases hn : fs.nodeAt q with
  | some n =>
    have := kwalkPlain_clean_wf fs hw q [] (by simpa using h) (by simp [hn])
    unfold Fs.statNode Fs.stat
    rw [kwalk_of_plain_done fs _ _ _ _ this]
    simpa using hn
  | none =>
    cases hs : fs.statNode q with
    | none => rfl
    | some n => rw [statNode_clean_sub fs q h n hs] at hn; cases hn

/-- on a well-formed file system the kernel's lookup of an existing resolved path ends at that very path -/
theorem stat_clean (fs : Fs) (hw : WF fs) (q : Path) (h : Clean fs q) (hex : fs.nodeAt q ≠ none) : fs.stat q = .ok q := by
  have := kwalkPlain_clean_wf fs hw q [] (by simpa using h) (by simpa using hex)
  unfold Fs.stat
  rw [kwalk_of_plain_done fs _ _ _ _ this]
  simp

/-! ## containment is a comparison of components -/

theorem isUnder_iff (r p : Path) : isUnder r p = true ↔ r <+: p := by
  unfold isUnder
  induction r generalizing p with
  | nil => simp [isPrefixParts]
  | cons a r ih =>
    cases p with
    | nil => simp [isPrefixParts]
    | cons b p => simp [isPrefixParts, ih, List.cons_prefix_cons]

theorem isUnder_append (r t : Path) : isUnder r (r ++ t) = true := (isUnder_iff _ _).mpr (List.prefix_append r t)

theorem isUnder_split {r p : Path} (h : isUnder r p = true) : r ++ p.drop r.length = p :=
  List.prefix_iff_eq_append.mp ((isUnder_iff r p).mp h)

/-- C16b.5 a sibling whose name merely starts with the root's name (`/site` and `/site-private`) is not inside the
    root, nor is anything below it -/
theorem sibling_prefix_not_inside (parent : Path) (name suffix : Str) (rest : Path) (h : suffix ≠ []) :
    isUnder (parent ++ [name]) (parent ++ [name ++ suffix] ++ rest) = false := by
  cases hu : isUnder (parent ++ [name]) (parent ++ [name ++ suffix] ++ rest) with
  | false => rfl
  | true =>
    obtain ⟨t, ht⟩ := (isUnder_iff _ _).mp hu
    simp only [List.append_assoc, List.append_cancel_left_eq, List.cons_append, List.nil_append, List.cons.injEq] at ht
    have : suffix = [] := by
      have h2 := congrArg List.length ht.1
      rw [List.length_append] at h2
      exact List.eq_nil_of_length_eq_zero (by omega)
    exact absurd this h

/-! ## the check that a path is physical -/

theorem clean_plain {fs : Fs} {q : Path} (h : Clean fs q) : ∀ c ∈ q, Plain c := by
  intro c hc
  obtain ⟨pre, post, rfl⟩ := List.append_of_mem hc
  exact (h pre c ⟨post, by simp⟩).1

theorem noLinkPrefix_sound (fs : Fs) : ∀ (s acc : Path), noLinkPrefix fs acc s = true →
    ∀ pre c, pre ++ [c] <+: s → fs.linkAt (acc ++ pre ++ [c]) = none := by
  intro s
  induction s with
  | nil => intro acc _ pre c h; have := List.prefix_nil.mp h; simp at this
  | cons d s ih =>
    intro acc h pre c hp
    simp only [noLinkPrefix, Bool.and_eq_true, Option.isNone_iff_eq_none] at h
    cases pre with
    | nil =>
      have : c = d := by simpa using hp
      subst this
      simpa using h.1
    | cons e pre =>
      obtain ⟨he, hp'⟩ := List.cons_prefix_cons.mp (by simpa using hp)
      subst he
      have := ih (acc ++ [e]) h.2 pre c hp'
      simpa using this

theorem noLinkPrefix_complete (fs : Fs) : ∀ (s acc : Path),
    (∀ pre c, pre ++ [c] <+: s → fs.linkAt (acc ++ pre ++ [c]) = none) → noLinkPrefix fs acc s = true := by
  intro s
  induction s with
  | nil => intro acc _; rfl
  | cons d s ih =>
    intro acc h
    simp only [noLinkPrefix, Bool.and_eq_true, Option.isNone_iff_eq_none]
    refine ⟨by simpa using h [] d (by simp), ih (acc ++ [d]) ?_⟩
    intro pre c hp
    have hp' : (d :: pre) ++ [c] <+: d :: s := (List.cons_prefix_cons (a := d) (b := d)).mpr ⟨rfl, hp⟩
    have := h (d :: pre) c hp'
    simpa using this

/-- a path made of proper names is physical iff it is `Clean` -/
theorem clean_of_physical (fs : Fs) (q : Path) (hp : ∀ c ∈ q, Plain c) (h : fs.isPhysical q = true) : Clean fs q := by
  intro pre c hpre
  refine ⟨hp c (hpre.subset (by simp)), ?_⟩
  simpa using noLinkPrefix_sound fs q [] h pre c hpre

theorem isPhysical_of_clean (fs : Fs) (q : Path) (h : Clean fs q) : fs.isPhysical q = true :=
  noLinkPrefix_complete fs q [] (fun pre c hp => by simpa using (h pre c hp).2)

theorem lexNorm_out_plain : ∀ (s acc : Path), (∀ c ∈ acc, Plain c) → ∀ c ∈ lexNorm acc s, Plain c := by
  intro s
  induction s with
  | nil => intro acc h; simpa [lexNorm] using h
  | cons d s ih =>
    intro acc h
    simp only [lexNorm]
    cases hd : isDot d with
    | true => simpa using ih acc h
    | false =>
      cases hdd : isDotDot d with
      | true => simpa using ih _ (fun c hc => h c ((List.dropLast_prefix acc).subset hc))
      | false =>
        simp only [if_false, Bool.false_eq_true]
        apply ih
        intro c hc
        rcases List.mem_append.mp hc with hc | hc
        · exact h c hc
        · simp at hc; subst hc; exact ⟨hd, hdd⟩

/-- whatever `Path.resolve()` returns is made of proper names (no empty component, no `.`, no `..`) -/
theorem resolvePy_plain (fs : Fs) (p n : Path) (h : resolvePy fs p = .ok n) : ∀ c ∈ n, Plain c := by
  unfold resolvePy at h
  cases hw : walk fs maxExpansions [] (p.map .comp) with
  | ok q => rw [hw] at h; cases h; exact clean_plain (walk_clean fs _ _ _ _ (clean_nil fs) hw)
  | outOfFuel => rw [hw] at h; cases h
  | looped u =>
    rw [hw] at h
    simp only at h
    split at h
    · cases h
    · cases h; exact lexNorm_out_plain u [] (by simp)

/-- C16b.1' what passes the check is fully resolved: no dots, no symbolic link on it -/
theorem resolveChecked_clean (fs : Fs) (p n : Path) (h : resolveChecked fs p = .ok n) : Clean fs n := by
  unfold resolveChecked at h
  cases hr : resolvePy fs p with
  | ok n' =>
    rw [hr] at h
    simp only at h
    split at h
    · rename_i hph; cases h; exact clean_of_physical fs _ (resolvePy_plain fs p _ hr) hph
    · cases h
  | eloop => rw [hr] at h; cases h
  | outOfFuel => rw [hr] at h; cases h

theorem resolveChecked_of_resolve (fs : Fs) (p q : Path) (h : resolve fs p = some q) : resolveChecked fs p = .ok q := by
  unfold resolveChecked
  rw [resolvePy_of_resolve fs p q h]
  simp [isPhysical_of_clean fs q (resolve_no_symlink fs p q h)]

theorem stat_clean_ne_eloop (fs : Fs) (n : Path) (h : Clean fs n) : fs.stat n ≠ .eloop := by
  unfold Fs.stat
  rcases kwalkPlain_clean fs n [] (by simpa using h) with hd | hd
  · rw [kwalk_of_plain_done fs _ _ _ _ hd]; simp
  · rw [kwalk_of_plain_noent fs _ _ _ hd]; simp

/-- the checked resolution does not depend on what `stat()` reports -/
theorem resolveChecked_eq (fs : Fs) (p : Path) :
    resolveChecked fs p =
      match walk fs maxExpansions [] (p.map .comp) with
      | .ok q => .ok q
      | .outOfFuel => .outOfFuel
      | .looped u => if fs.isPhysical (lexNorm [] u) then .ok (lexNorm [] u) else .eloop := by
  unfold resolveChecked resolvePy
  cases hw : walk fs maxExpansions [] (p.map .comp) with
  | ok q => simp [isPhysical_of_clean fs q (walk_clean fs _ _ _ _ (clean_nil fs) hw)]
  | outOfFuel => rfl
  | looped u =>
    simp only
    cases hs : fs.stat (lexNorm [] u) with
    | ok t => rfl
    | noent => rfl
    | eloop =>
      simp only
      cases hph : fs.isPhysical (lexNorm [] u) with
      | false => rfl
      | true =>
        exact absurd hs (stat_clean_ne_eloop fs _
          (clean_of_physical fs _ (lexNorm_out_plain u [] (by simp)) hph))

/-! ## the decision -/

/-- the decision once both resolutions have succeeded without meeting a loop -/
theorem decideLinkP_resolved (isPage : Path → Bool) (fs : Fs) (root sd : Path) (url : Str) (raw q rr : Path)
    (ht : localTarget root sd url = .path raw) (hq : resolve fs raw = some q) (hr : resolve fs root = some rr) :
    decideLinkP isPage fs root sd url =
      if isPage q then .page q
      else if !isUnder rr q then .external
      else match fs.statNode q with
        | some (.file content) => .asset (q.drop rr.length) content
        | _ => .missing := by
  unfold decideLinkP decideLinkWith
  rw [ht]
  simp only [resolveChecked_of_resolve fs raw q hq, resolvePy_of_resolve fs root rr hr]
  rfl

/-- a URL that is no local link is decided without looking at the file system -/
theorem decideLinkP_nonlocal (isPage : Path → Bool) (fs fs' : Fs) (root sd : Path) (url : Str)
    (ht : ∀ raw, localTarget root sd url ≠ .path raw) :
    decideLinkP isPage fs root sd url = decideLinkP isPage fs' root sd url := by
  unfold decideLinkP decideLinkWith
  cases h : localTarget root sd url with
  | untouched => rfl
  | invalid => rfl
  | path raw => exact absurd h (ht raw)

/-- the site's own page sources lie below the resolved root -/
theorem isPageSource_inside (fs : Fs) (root q rr : Path) (hr : resolve fs root = some rr) (h : isPageSource fs root q = true) :
    isUnder rr q = true := by
  unfold isPageSource at h
  rw [hr] at h
  simp only [Bool.and_eq_true] at h
  exact h.1

/-- C16b.2 (full strength: every file system, root, source directory and URL; no hypothesis about loops) whenever the
    decision is `asset rel content`, the root resolved to some `rr`, and the file read is `rr ++ rel`: a path without
    dots and without a symbolic link on it (so is `rr`), component-wise below `rr`, a regular file whose bytes are
    `content`; `rel` names the copy under the assets directory. On a well-formed file system `stat` of that path ends at
    that very path: the bytes are physically inside the root. -/
theorem asset_is_inside_root (isPage : Path → Bool) (fs : Fs) (root sd : Path) (url : Str) (rel : Path)
    (content : List Nat) (h : decideLinkP isPage fs root sd url = .asset rel content) :
    ∃ rr, resolvePy fs root = .ok rr ∧ Clean fs rr ∧ Clean fs (rr ++ rel) ∧ isUnder rr (rr ++ rel) = true ∧
      fs.nodeAt (rr ++ rel) = some (.file content) ∧ fs.readFile (rr ++ rel) = some content ∧
      (WF fs → fs.stat (rr ++ rel) = .ok (rr ++ rel)) := by
  unfold decideLinkP decideLinkWith at h
  cases ht : localTarget root sd url with
  | untouched => rw [ht] at h; cases h
  | invalid => rw [ht] at h; cases h
  | path raw =>
    rw [ht] at h
    simp only at h
    cases hq : resolveChecked fs raw with
    | eloop => rw [hq] at h; cases h
    | outOfFuel => rw [hq] at h; cases h
    | ok q =>
      rw [hq] at h
      simp only at h
      have hclean := resolveChecked_clean fs raw q hq
      split at h
      · cases h
      · cases hr : resolvePy fs root with
        | eloop => rw [hr] at h; cases h
        | outOfFuel => rw [hr] at h; cases h
        | ok rr =>
          rw [hr] at h
          simp only at h
          split at h
          · cases h
          · rename_i hu
            have hu' : isUnder rr q = true := by simpa using hu
            split at h
            · rename_i c hs
              cases h
              have hsplit := isUnder_split hu'
              have hnode := statNode_clean_sub fs q hclean _ hs
              refine ⟨rr, rfl, clean_prefix hclean ((isUnder_iff _ _).mp hu'), ?_⟩
              rw [hsplit]
              refine ⟨hclean, hu', hnode, ?_, fun hw => stat_clean fs hw q hclean (by rw [hnode]; simp)⟩
              unfold Fs.readFile
              rw [hs]
            · cases h

/-- the same for the site's page rule and for the embedding of the standalone page -/
theorem asset_is_inside_root_site (fs : Fs) (root sd : Path) (url : Str) (rel : Path) (content : List Nat)
    (h : decideLink fs root sd url = .asset rel content ∨ decideEmbed fs root sd url = .asset rel content) :
    ∃ rr, resolvePy fs root = .ok rr ∧ Clean fs rr ∧ Clean fs (rr ++ rel) ∧ isUnder rr (rr ++ rel) = true ∧
      fs.nodeAt (rr ++ rel) = some (.file content) ∧ fs.readFile (rr ++ rel) = some content ∧
      (WF fs → fs.stat (rr ++ rel) = .ok (rr ++ rel)) := by
  rcases h with h | h
  · exact asset_is_inside_root _ fs root sd url rel content h
  · exact asset_is_inside_root _ fs root sd url rel content h

/-- containment in its weakest form, as a property of a decision procedure: the bytes served are those of a file whose
    physical place (where the kernel's lookup of the served path ends) is below the resolved root -/
def AssetsInsideRoot (decide : (Path → Bool) → Fs → Path → Path → Str → Outcome) : Prop :=
  ∀ (isPage : Path → Bool) (fs : Fs) (root sd : Path) (url : Str) (rel : Path) (content : List Nat),
    WF fs → decide isPage fs root sd url = .asset rel content →
    ∃ rr t, resolvePy fs root = .ok rr ∧ fs.stat (rr ++ rel) = .ok t ∧ isUnder rr t = true ∧
      fs.nodeAt t = some (.file content)

theorem assetsInsideRoot_checked : AssetsInsideRoot decideLinkP := by
  intro isPage fs root sd url rel content hw h
  obtain ⟨rr, h1, _, _, h4, h5, _, h7⟩ := asset_is_inside_root isPage fs root sd url rel content h
  exact ⟨rr, rr ++ rel, h1, h7 hw, h4, h5⟩

/-- C16b.3 a link whose resolved target is not below the resolved root -- by whatever means -- is refused, unless the
    resolved target is a key of the page lookup -/
theorem escape_refused_resolved (isPage : Path → Bool) (fs : Fs) (root sd : Path) (url : Str) (raw q rr : Path)
    (ht : localTarget root sd url = .path raw) (hq : resolve fs raw = some q) (hr : resolve fs root = some rr)
    (hout : isUnder rr q = false) (hpage : isPage q = false) :
    decideLinkP isPage fs root sd url = .external := by
  rw [decideLinkP_resolved isPage fs root sd url raw q rr ht hq hr]
  simp [hout, hpage]

/-- for the site's own pages no side condition is needed: never `asset`, never `page` -/
theorem escape_refused_site (fs : Fs) (root sd : Path) (url : Str) (raw q rr : Path)
    (ht : localTarget root sd url = .path raw) (hq : resolve fs raw = some q) (hr : resolve fs root = some rr)
    (hout : isUnder rr q = false) : decideLink fs root sd url = .external := by
  apply escape_refused_resolved _ fs root sd url raw q rr ht hq hr hout
  cases hp : isPageSource fs root q with
  | false => rfl
  | true => rw [isPageSource_inside fs root q rr hr hp] at hout; cases hout

theorem escape_refused_embed (fs : Fs) (root sd : Path) (url : Str) (raw q rr : Path)
    (ht : localTarget root sd url = .path raw) (hq : resolve fs raw = some q) (hr : resolve fs root = some rr)
    (hout : isUnder rr q = false) : decideEmbed fs root sd url = .external :=
  escape_refused_resolved _ fs root sd url raw q rr ht hq hr hout rfl

/-- C16b.3 escaping through `..`: on a file system without symbolic links the decision is lexical -- a URL whose
    normal form (`..` cancelling the component before it) is not below the root's is refused -/
theorem escape_refused_dotdot (fs : Fs) (hn : ∀ p, fs.linkAt p = none) (root sd : Path) (url : Str) (raw : Path)
    (ht : localTarget root sd url = .path raw) (hout : isUnder (lexNorm [] root) (lexNorm [] raw) = false) :
    decideLink fs root sd url = .external :=
  escape_refused_site fs root sd url raw _ _ ht (resolve_nolinks fs hn raw) (resolve_nolinks fs hn root) hout

/-! ## `..` climbing out, concretely -/

theorem lexNorm_plain : ∀ (s acc : Path), (∀ c ∈ s, Plain c) → lexNorm acc s = acc ++ s := by
  intro s
  induction s with
  | nil => intro acc _; simp [lexNorm]
  | cons c s ih =>
    intro acc h
    have hc := h c (List.mem_cons_self ..)
    simp only [lexNorm, hc.1, hc.2, if_false, Bool.false_eq_true]
    rw [ih _ (fun x hx => h x (List.mem_cons_of_mem _ hx))]
    simp

theorem lexNorm_append : ∀ (a b acc : Path), lexNorm acc (a ++ b) = lexNorm (lexNorm acc a) b := by
  intro a
  induction a with
  | nil => intro b acc; simp [lexNorm]
  | cons c a ih =>
    intro b acc
    simp only [List.cons_append, lexNorm]
    split
    · exact ih _ _
    · split <;> exact ih _ _

theorem lexNorm_ups : ∀ (n : Nat) (acc : Path), lexNorm acc (List.replicate n ['.', '.']) = acc.take (acc.length - n) := by
  intro n
  induction n with
  | zero => intro acc; simp [lexNorm]
  | succ n ih =>
    intro acc
    have hd : isDot ['.', '.'] = false := by decide
    have hdd : isDotDot ['.', '.'] = true := by decide
    simp only [List.replicate_succ, lexNorm, hd, hdd, if_true, if_false, Bool.false_eq_true]
    rw [ih, List.dropLast_eq_take, List.take_take, List.length_take]
    congr 1
    omega

/-- C16b.3, a family of instances: from a directory `sub` levels below the root, `sub + 1` times `..` followed by a
    name other than the root's own leaves the root -- the sibling file or directory is refused (no links around) -/
theorem escape_refused_dotdot_climb (fs : Fs) (hn : ∀ p, fs.linkAt p = none) (parent : Path) (rootName name : Str)
    (sub more : Path) (sd : Path) (url : Str)
    (hparent : ∀ c ∈ parent, Plain c) (hroot : Plain rootName) (hsub : ∀ c ∈ sub, Plain c) (hname : Plain name)
    (hmore : ∀ c ∈ more, Plain c) (hne : name ≠ rootName)
    (ht : localTarget (parent ++ [rootName]) sd url =
      .path (parent ++ [rootName] ++ sub ++ List.replicate (sub.length + 1) ['.', '.'] ++ name :: more)) :
    decideLink fs (parent ++ [rootName]) sd url = .external := by
  apply escape_refused_dotdot fs hn _ sd url _ ht
  have hr : ∀ c ∈ parent ++ [rootName], Plain c := by
    intro c hc
    rcases List.mem_append.mp hc with h | h
    · exact hparent c h
    · simp at h; subst h; exact hroot
  have h1 : lexNorm [] (parent ++ [rootName]) = parent ++ [rootName] := by simpa using lexNorm_plain _ [] hr
  have h2 : lexNorm [] (parent ++ [rootName] ++ sub ++ List.replicate (sub.length + 1) ['.', '.'] ++ name :: more) =
      parent ++ name :: more := by
    have hrs : ∀ c ∈ parent ++ [rootName] ++ sub, Plain c := by
      intro c hc
      rcases List.mem_append.mp hc with h | h
      · exact hr c h
      · exact hsub c h
    rw [lexNorm_append, lexNorm_append, lexNorm_plain _ [] hrs, lexNorm_ups,
      lexNorm_plain _ _ (by intro c hc; rcases List.mem_cons.mp hc with h | h; exact h ▸ hname; exact hmore c h)]
    congr 1
    simp only [List.nil_append, List.length_append, List.length_cons, List.length_nil]
    have : parent.length + (0 + 1) + sub.length - (sub.length + 1) = parent.length := by omega
    rw [this, List.append_assoc, List.take_left']
    rfl
  rw [h1, h2]
  cases hu : isUnder (parent ++ [rootName]) (parent ++ name :: more) with
  | false => rfl
  | true =>
    obtain ⟨t, ht'⟩ := (isUnder_iff _ _).mp hu
    simp only [List.append_assoc, List.append_cancel_left_eq, List.cons_append, List.nil_append, List.cons.injEq] at ht'
    exact absurd ht'.1.symm hne
/-! ## through one symbolic link -/

theorem contains_endLink_map_comp (rest : List Str) (P : Path) : (rest.map Item.comp).contains (.endLink P) = false := by
  induction rest with
  | nil => rfl
  | cons c rest ih => simp

/-- the end-of-expansion marks matter only when a link is met -/
theorem walkPlain_insert_marker (fs : Fs) (P t : Path) (b : List Item) : ∀ (a : List Item) (acc : Path),
    walkPlain fs acc (a ++ b) = .done t → walkPlain fs acc (a ++ .endLink P :: b) = .done t := by
  intro a
  induction a with
  | nil => intro acc h; simpa [walkPlain] using h
  | cons it a ih =>
    intro acc h
    cases it with
    | endLink p => simp only [List.cons_append, walkPlain] at h ⊢; exact ih acc h
    | comp c =>
      simp only [List.cons_append, walkPlain] at h ⊢
      cases hd : isDot c with
      | true => simp only [hd, if_true] at h ⊢; exact ih acc h
      | false =>
        cases hdd : isDotDot c with
        | true => simp only [hd, hdd, if_true, if_false, Bool.false_eq_true] at h ⊢; exact ih _ h
        | false =>
          simp only [hd, hdd, if_false, Bool.false_eq_true] at h ⊢
          cases hl : fs.linkAt (acc ++ [c]) with
          | none => simp only [hl] at h ⊢; exact ih _ h
          | some ta =>
            obtain ⟨tgt, abs⟩ := ta
            simp only [hl] at h
            split at h <;> cases h

theorem walk_through_link (fs : Fs) (n : Nat) (dir : Path) (l : Str) (tgt : List Str) (abs : Bool) (rest t : Path)
    (hdir : Clean fs dir) (hl : Plain l) (hlink : fs.linkAt (dir ++ [l]) = some (tgt, abs))
    (hgo : walkPlain fs (if abs then [] else dir) ((tgt ++ rest).map .comp) = .done t) :
    walk fs (n + 1) [] ((dir ++ [l] ++ rest).map .comp) = .ok t := by
  have e1 : (dir ++ [l] ++ rest).map Item.comp = dir.map .comp ++ (.comp l :: rest.map .comp) := by simp
  have e2 := walkPlain_of_clean fs (.comp l :: rest.map .comp) dir [] (by simpa using hdir)
  have e3 : walkPlain fs dir (.comp l :: rest.map .comp) =
      .link (if abs then [] else dir) (tgt.map .comp ++ .endLink (dir ++ [l]) :: rest.map .comp) := by
    simp [walkPlain, hl.1, hl.2, hlink]
  have e4 : walkPlain fs (if abs then [] else dir) (tgt.map .comp ++ .endLink (dir ++ [l]) :: rest.map .comp) = .done t :=
    walkPlain_insert_marker fs _ t _ _ _ (by simpa using hgo)
  unfold walk
  rw [e1, e2, List.nil_append, e3]
  simp only
  cases n <;> (unfold walk; rw [e4])

/-- a link whose target text, continued by the rest of the path, leads to `t` without meeting another link: the path
    through the link resolves to `t` -/
theorem resolve_through_link (fs : Fs) (dir : Path) (l : Str) (tgt : List Str) (abs : Bool) (rest t : Path)
    (hdir : Clean fs dir) (hl : Plain l) (hlink : fs.nodeAt (dir ++ [l]) = some (.symlink tgt abs))
    (hgo : walkPlain fs (if abs then [] else dir) ((tgt ++ rest).map .comp) = .done t) :
    resolve fs (dir ++ [l] ++ rest) = some t := by
  have hlink' : fs.linkAt (dir ++ [l]) = some (tgt, abs) := by unfold Fs.linkAt; rw [hlink]
  unfold resolve
  have := walk_through_link fs 4095 dir l tgt abs rest t hdir hl hlink' hgo
  have e : maxExpansions = 4095 + 1 := rfl
  rw [e, this]

/-- C16b.3 escaping through a symbolic link: the URL names, in a directory `dir` (a real path: no dots, no links),
    a symbolic link `l` -- to a file or to a directory, written relatively (`..` allowed) or absolutely -- whose target,
    continued by the rest of the URL, is the path `t` outside the resolved root: refused. (A chain of several links is
    covered by `escape_refused_resolved`.) -/
theorem escape_refused_symlink (fs : Fs) (root sd : Path) (url : Str) (dir : Path) (l : Str) (tgt : List Str) (abs : Bool)
    (rest t rr : Path)
    (ht : localTarget root sd url = .path (dir ++ [l] ++ rest))
    (hdir : Clean fs dir) (hl : Plain l) (hlink : fs.nodeAt (dir ++ [l]) = some (.symlink tgt abs))
    (hgo : walkPlain fs (if abs then [] else dir) ((tgt ++ rest).map .comp) = .done t)
    (hr : resolve fs root = some rr) (hout : isUnder rr t = false) :
    decideLink fs root sd url = .external ∧ decideEmbed fs root sd url = .external :=
  have hq := resolve_through_link fs dir l tgt abs rest t hdir hl hlink hgo
  ⟨escape_refused_site fs root sd url _ t rr ht hq hr hout, escape_refused_embed fs root sd url _ t rr ht hq hr hout⟩

/-- C16b.4 a link whose resolved target is a regular file below the resolved root is served: the bytes are the
    target's, and the copy is named by the *resolved* path relative to the *resolved* root
    (`"/".join(fspath.parts[len(root_parts):])` with `fspath = fspath.resolve()`) -- not by the path the URL spelled -/
theorem inside_served (isPage : Path → Bool) (fs : Fs) (hw : WF fs) (root sd : Path) (url : Str) (raw q rr : Path)
    (content : List Nat)
    (ht : localTarget root sd url = .path raw) (hq : resolve fs raw = some q) (hr : resolve fs root = some rr)
    (hin : isUnder rr q = true) (hfile : fs.nodeAt q = some (.file content)) (hpage : isPage q = false) :
    decideLinkP isPage fs root sd url = .asset (q.drop rr.length) content := by
  rw [decideLinkP_resolved isPage fs root sd url raw q rr ht hq hr,
    statNode_clean fs hw q (resolve_no_symlink fs raw q hq), hfile]
  simp [hin, hpage]

theorem isPageSource_file (fs : Fs) (root q : Path) (content : List Nat) (hfile : fs.nodeAt q = some (.file content))
    (hmd : endsWithMd (q.getLast?.getD []) = false) : isPageSource fs root q = false := by
  unfold isPageSource
  cases resolve fs root with
  | none => rfl
  | some rr => simp [hfile, hmd]

/-- C16b.4 a symbolic link (to a file, or to a directory with the rest of the URL below it) whose target is a regular
    file `t` inside the root: served, with the target's bytes, copied to `assets/<t relative to the resolved root>`
    -- the link's own name does not appear -/
theorem inside_symlink_served (fs : Fs) (hw : WF fs) (root sd : Path) (url : Str) (dir : Path) (l : Str) (tgt : List Str)
    (abs : Bool) (rest t rr : Path) (content : List Nat)
    (ht : localTarget root sd url = .path (dir ++ [l] ++ rest))
    (hdir : Clean fs dir) (hl : Plain l) (hlink : fs.nodeAt (dir ++ [l]) = some (.symlink tgt abs))
    (hgo : walkPlain fs (if abs then [] else dir) ((tgt ++ rest).map .comp) = .done t)
    (hr : resolve fs root = some rr) (hin : isUnder rr t = true)
    (hfile : fs.nodeAt t = some (.file content)) (hmd : endsWithMd (t.getLast?.getD []) = false) :
    decideLink fs root sd url = .asset (t.drop rr.length) content ∧
      decideEmbed fs root sd url = .asset (t.drop rr.length) content :=
  have hq := resolve_through_link fs dir l tgt abs rest t hdir hl hlink hgo
  ⟨inside_served _ fs hw root sd url _ t rr content ht hq hr hin hfile (isPageSource_file fs root t content hfile hmd),
   inside_served _ fs hw root sd url _ t rr content ht hq hr hin hfile rfl⟩

/-! ## non-interference -/

theorem walkPlain_agree (fs1 fs2 : Fs) : ∀ (todo : List Item) (acc : Path),
    (∀ p ∈ lookupsPlain fs1 acc todo, fs1.linkAt p = fs2.linkAt p) → walkPlain fs2 acc todo = walkPlain fs1 acc todo := by
  intro todo
  induction todo with
  | nil => intro acc _; simp [walkPlain]
  | cons it rest ih =>
    intro acc h
    cases it with
    | endLink p => simp only [walkPlain, lookupsPlain] at h ⊢; exact ih acc h
    | comp c =>
      simp only [walkPlain, lookupsPlain] at h ⊢
      cases hd : isDot c with
      | true => simp only [hd, if_true] at h ⊢; exact ih acc h
      | false =>
        cases hdd : isDotDot c with
        | true => simp only [hd, hdd, if_true, if_false, Bool.false_eq_true] at h ⊢; exact ih _ h
        | false =>
          simp only [hd, hdd, if_false, Bool.false_eq_true] at h ⊢
          have h0 := h (acc ++ [c]) (List.mem_cons_self ..)
          rw [← h0]
          cases hl : fs1.linkAt (acc ++ [c]) with
          | some ta => rfl
          | none =>
            simp only [hl] at h ⊢
            exact ih _ (fun p hp => h p (List.mem_cons_of_mem _ hp))

theorem walk_agree (fs1 fs2 : Fs) : ∀ (fuel : Nat) (acc : Path) (todo : List Item),
    (∀ p ∈ lookups fs1 fuel acc todo, fs1.linkAt p = fs2.linkAt p) → walk fs2 fuel acc todo = walk fs1 fuel acc todo := by
  intro fuel
  induction fuel with
  | zero =>
    intro acc todo h
    unfold lookups at h
    have hp := walkPlain_agree fs1 fs2 todo acc (fun p hp => h p (List.mem_append_left _ hp))
    unfold walk
    rw [hp]
  | succ n ih =>
    intro acc todo h
    unfold lookups at h
    have hp := walkPlain_agree fs1 fs2 todo acc (fun p hp => h p (List.mem_append_left _ hp))
    unfold walk
    rw [hp]
    cases hs : walkPlain fs1 acc todo with
    | done q => rfl
    | looped u => rfl
    | link a t =>
      simp only
      rw [hs] at h
      exact ih a t (fun p hp => h p (List.mem_append_right _ hp))

/-- two file systems that show the resolver the same links at the places it looks at resolve alike -/
theorem resolve_agree (fs1 fs2 : Fs) (p : Path) (h : ∀ x ∈ resolveLookups fs1 p, fs1.linkAt x = fs2.linkAt x) :
    resolve fs2 p = resolve fs1 p := by
  unfold resolve
  rw [walk_agree fs1 fs2 _ _ _ h]

theorem noLinkPrefix_agree (fs1 fs2 : Fs) : ∀ (s acc : Path),
    (∀ p ∈ prefixesOf acc s, fs1.linkAt p = fs2.linkAt p) → noLinkPrefix fs2 acc s = noLinkPrefix fs1 acc s := by
  intro s
  induction s with
  | nil => intro acc _; rfl
  | cons c s ih =>
    intro acc h
    simp only [noLinkPrefix, prefixesOf] at h ⊢
    rw [← h _ (List.mem_cons_self ..), ih _ (fun p hp => h p (List.mem_cons_of_mem _ hp))]

/-- the places the kernel's lookup looks at -/
def klookupsPlain (fs : Fs) : Path → List Str → List Path
  | _, [] => []
  | acc, c :: rest =>
    acc ::
      match fs.nodeAt acc with
      | some .dir =>
        if isDot c then klookupsPlain fs acc rest
        else if isDotDot c then klookupsPlain fs acc.dropLast rest
        else
          (acc ++ [c]) ::
            match fs.nodeAt (acc ++ [c]) with
            | none => []
            | some (.symlink _ _) => []
            | some _ => klookupsPlain fs (acc ++ [c]) rest
      | _ => []
def klookups (fs : Fs) : Nat → Path → List Str → List Path
  | fuel, acc, todo =>
    klookupsPlain fs acc todo ++
      match kwalkPlain fs acc todo with
      | .link acc' todo' =>
        match fuel with
        | 0 => []
        | fuel + 1 => klookups fs fuel acc' todo'
      | _ => []

theorem kwalkPlain_agree (fs1 fs2 : Fs) : ∀ (todo : List Str) (acc : Path),
    (∀ p ∈ klookupsPlain fs1 acc todo, fs1.nodeAt p = fs2.nodeAt p) → kwalkPlain fs2 acc todo = kwalkPlain fs1 acc todo := by
  intro todo
  induction todo with
  | nil => intro acc _; simp [kwalkPlain]
  | cons c rest ih =>
    intro acc h
    simp only [klookupsPlain] at h
    have h0 := h acc (List.mem_cons_self ..)
    have h' : ∀ p ∈ (match fs1.nodeAt acc with
      | some .dir =>
        if isDot c then klookupsPlain fs1 acc rest
        else if isDotDot c then klookupsPlain fs1 acc.dropLast rest
        else
          (acc ++ [c]) ::
            match fs1.nodeAt (acc ++ [c]) with
            | none => []
            | some (.symlink _ _) => []
            | some _ => klookupsPlain fs1 (acc ++ [c]) rest
      | _ => []), fs1.nodeAt p = fs2.nodeAt p := fun p hp => h p (List.mem_cons_of_mem _ hp)
    unfold kwalkPlain
    rw [← h0]
    cases hn : fs1.nodeAt acc with
    | none => rfl
    | some n =>
      cases n with
      | file _ => rfl
      | symlink _ _ => rfl
      | dir =>
        simp only [hn] at h' ⊢
        cases hd : isDot c with
        | true => simp only [hd, if_true] at h' ⊢; exact ih acc h'
        | false =>
          cases hdd : isDotDot c with
          | true => simp only [hd, hdd, if_true, if_false, Bool.false_eq_true] at h' ⊢; exact ih _ h'
          | false =>
            simp only [hd, hdd, if_false, Bool.false_eq_true] at h' ⊢
            have h1 := h' (acc ++ [c]) (List.mem_cons_self ..)
            rw [← h1]
            cases hc : fs1.nodeAt (acc ++ [c]) with
            | none => rfl
            | some n' =>
              cases n' with
              | symlink t a => rfl
              | dir => simp only [hc] at h' ⊢; exact ih _ (fun p hp => h' p (List.mem_cons_of_mem _ hp))
              | file _ => simp only [hc] at h' ⊢; exact ih _ (fun p hp => h' p (List.mem_cons_of_mem _ hp))

theorem kwalk_agree (fs1 fs2 : Fs) : ∀ (fuel : Nat) (acc : Path) (todo : List Str),
    (∀ p ∈ klookups fs1 fuel acc todo, fs1.nodeAt p = fs2.nodeAt p) → kwalk fs2 fuel acc todo = kwalk fs1 fuel acc todo := by
  intro fuel
  induction fuel with
  | zero =>
    intro acc todo h
    unfold klookups at h
    have hp := kwalkPlain_agree fs1 fs2 todo acc (fun p hp => h p (List.mem_append_left _ hp))
    unfold kwalk
    rw [hp]
  | succ n ih =>
    intro acc todo h
    unfold klookups at h
    have hp := kwalkPlain_agree fs1 fs2 todo acc (fun p hp => h p (List.mem_append_left _ hp))
    unfold kwalk
    rw [hp]
    cases hs : kwalkPlain fs1 acc todo with
    | done q => rfl
    | noent => rfl
    | link a t =>
      simp only
      rw [hs] at h
      exact ih a t (fun p hp => h p (List.mem_append_right _ hp))

/-- where `Path.resolve()` falls back to after a loop: the lexically normalised, unresolved path -/
def fallbackOf (fs : Fs) (p : Path) : Option Path :=
  match walk fs maxExpansions [] (p.map .comp) with
  | .looped u => some (lexNorm [] u)
  | _ => none

/-- the places where the decision on `raw` (with root `root`) asks whether there is a symbolic link: the `lstat`s of the
    two resolutions, and the `is_symlink()` tests on the components of a fallback path -/
def linksLookedAt (fs : Fs) (raw root : Path) : List Path :=
  resolveLookups fs raw ++ (match fallbackOf fs raw with | some n => prefixesOf [] n | none => []) ++ resolveLookups fs root

/-- the places the `stat()` inside `root.resolve()` looks at -- none unless the root path itself runs into a loop -/
def nodesLookedAt (fs : Fs) (root : Path) : List Path :=
  match fallbackOf fs root with
  | some n => klookups fs maxSymlinks [] n
  | none => []

theorem resolveChecked_agree (fs1 fs2 : Fs) (p : Path)
    (h : ∀ x ∈ resolveLookups fs1 p ++ (match fallbackOf fs1 p with | some n => prefixesOf [] n | none => []),
      fs1.linkAt x = fs2.linkAt x) :
    resolveChecked fs2 p = resolveChecked fs1 p := by
  rw [resolveChecked_eq, resolveChecked_eq,
    walk_agree fs1 fs2 _ _ _ (fun x hx => h x (List.mem_append_left _ hx))]
  cases hw : walk fs1 maxExpansions [] (p.map .comp) with
  | ok q => rfl
  | outOfFuel => rfl
  | looped u =>
    simp only
    have : fs2.isPhysical (lexNorm [] u) = fs1.isPhysical (lexNorm [] u) := by
      unfold Fs.isPhysical
      apply noLinkPrefix_agree
      intro x hx
      apply h x
      apply List.mem_append_right
      unfold fallbackOf
      rw [hw]
      exact hx
    rw [this]

theorem resolvePy_agree (fs1 fs2 : Fs) (p : Path)
    (hl : ∀ x ∈ resolveLookups fs1 p, fs1.linkAt x = fs2.linkAt x)
    (hn : ∀ x ∈ nodesLookedAt fs1 p, fs1.nodeAt x = fs2.nodeAt x) :
    resolvePy fs2 p = resolvePy fs1 p := by
  unfold resolvePy
  rw [walk_agree fs1 fs2 _ _ _ hl]
  cases hw : walk fs1 maxExpansions [] (p.map .comp) with
  | ok q => rfl
  | outOfFuel => rfl
  | looped u =>
    simp only
    have : fs2.stat (lexNorm [] u) = fs1.stat (lexNorm [] u) := by
      unfold Fs.stat
      apply kwalk_agree
      intro x hx
      apply hn x
      unfold nodesLookedAt fallbackOf
      rw [hw]
      exact hx
    rw [this]

/-- C16b.6 (full strength; no hypothesis about loops) non-interference: two (well-formed) file systems that agree
    * on everything below the resolved root,
    * on the symbolic links at the places the decision looks for one (`linksLookedAt`), and
    * when the root path itself runs into a loop, on the nodes the `stat()` of `root.resolve()` looks at
      (`nodesLookedAt`: empty otherwise)
    give the same decision for every URL -- whatever else differs. No byte, and no file's existence, outside the root
    influences any outcome. -/
theorem no_outside_bytes (isPage : Path → Bool) (fs1 fs2 : Fs) (hw1 : WF fs1) (hw2 : WF fs2) (root sd : Path) (url : Str)
    (hlinks : ∀ raw, localTarget root sd url = .path raw → ∀ p ∈ linksLookedAt fs1 raw root, fs1.linkAt p = fs2.linkAt p)
    (hnodes : ∀ p ∈ nodesLookedAt fs1 root, fs1.nodeAt p = fs2.nodeAt p)
    (hin : ∀ rr, resolvePy fs1 root = .ok rr → ∀ p, isUnder rr p = true → fs1.nodeAt p = fs2.nodeAt p) :
    decideLinkP isPage fs2 root sd url = decideLinkP isPage fs1 root sd url := by
  cases ht : localTarget root sd url with
  | untouched => exact decideLinkP_nonlocal isPage fs2 fs1 root sd url (by rw [ht]; intro raw h; cases h)
  | invalid => exact decideLinkP_nonlocal isPage fs2 fs1 root sd url (by rw [ht]; intro raw h; cases h)
  | path raw =>
    have hl := hlinks raw ht
    unfold linksLookedAt at hl
    have h1 : resolveChecked fs2 raw = resolveChecked fs1 raw :=
      resolveChecked_agree fs1 fs2 raw (fun x hx => hl x (List.mem_append_left _ hx))
    have h2 : resolvePy fs2 root = resolvePy fs1 root :=
      resolvePy_agree fs1 fs2 root (fun x hx => hl x (List.mem_append_right _ hx)) hnodes
    unfold decideLinkP decideLinkWith
    rw [ht]
    simp only [h1, h2]
    cases hq : resolveChecked fs1 raw with
    | eloop => rfl
    | outOfFuel => rfl
    | ok q =>
      simp only
      cases isPage q with
      | true => rfl
      | false =>
        simp only [if_false, Bool.false_eq_true]
        cases hr : resolvePy fs1 root with
        | eloop => rfl
        | outOfFuel => rfl
        | ok rr =>
          simp only
          cases hu : isUnder rr q with
          | false => rfl
          | true =>
            have hc1 := resolveChecked_clean fs1 raw q hq
            have hc2 := resolveChecked_clean fs2 raw q (by rw [h1, hq])
            rw [statNode_clean fs1 hw1 q hc1, statNode_clean fs2 hw2 q hc2, hin rr hr q hu]

/-- the same for the site's own page rule, which looks below the root only -/
theorem no_outside_bytes_site (fs1 fs2 : Fs) (hw1 : WF fs1) (hw2 : WF fs2) (root sd : Path) (url : Str)
    (hlinks : ∀ raw, localTarget root sd url = .path raw → ∀ p ∈ linksLookedAt fs1 raw root, fs1.linkAt p = fs2.linkAt p)
    (hnodes : ∀ p ∈ nodesLookedAt fs1 root, fs1.nodeAt p = fs2.nodeAt p)
    (hin : ∀ rr, resolvePy fs1 root = .ok rr → ∀ p, isUnder rr p = true → fs1.nodeAt p = fs2.nodeAt p) :
    decideLink fs2 root sd url = decideLink fs1 root sd url ∧ decideEmbed fs2 root sd url = decideEmbed fs1 root sd url := by
  refine ⟨?_, no_outside_bytes _ fs1 fs2 hw1 hw2 root sd url hlinks hnodes hin⟩
  unfold decideLink
  cases ht : localTarget root sd url with
  | untouched =>
    unfold decideLinkP decideLinkWith; rw [ht]
  | invalid =>
    unfold decideLinkP decideLinkWith; rw [ht]
  | path raw =>
    have hl := hlinks raw ht
    unfold linksLookedAt at hl
    have hres : resolve fs2 root = resolve fs1 root :=
      resolve_agree fs1 fs2 root (fun x hx => hl x (List.mem_append_right _ hx))
    have hpage : isPageSource fs2 root = isPageSource fs1 root := by
      funext x
      unfold isPageSource
      rw [hres]
      cases hr : resolve fs1 root with
      | none => rfl
      | some rr =>
        simp only
        cases hu : isUnder rr x with
        | false => simp
        | true => simp only [hin rr (resolvePy_of_resolve fs1 root rr hr) x hu]
    rw [hpage]
    exact no_outside_bytes _ fs1 fs2 hw1 hw2 root sd url hlinks hnodes hin

/-- non-interference in a simple form, as a property of a decision procedure: the root is a loop-free path, the two file
    systems have the same symbolic links everywhere and the same nodes below the resolved root -/
def NoOutsideBytes (decide : (Path → Bool) → Fs → Path → Path → Str → Outcome) : Prop :=
  ∀ (isPage : Path → Bool) (fs1 fs2 : Fs) (root sd : Path) (url : Str) (rr : Path), WF fs1 → WF fs2 →
    resolve fs1 root = some rr →
    (∀ p, fs1.linkAt p = fs2.linkAt p) → (∀ p, isUnder rr p = true → fs1.nodeAt p = fs2.nodeAt p) →
    decide isPage fs2 root sd url = decide isPage fs1 root sd url

theorem noOutsideBytes_checked : NoOutsideBytes decideLinkP := by
  intro isPage fs1 fs2 root sd url rr hw1 hw2 hr hl hin
  apply no_outside_bytes isPage fs1 fs2 hw1 hw2 root sd url (fun _ _ p _ => hl p)
  · intro p hp
    unfold nodesLookedAt fallbackOf at hp
    unfold resolve at hr
    cases hw : walk fs1 maxExpansions [] (root.map .comp) with
    | ok q => rw [hw] at hp; cases hp
    | outOfFuel => rw [hw] at hr; cases hr
    | looped u => rw [hw] at hr; cases hr
  · intro rr' hr' p hu
    rw [resolvePy_of_resolve fs1 root rr hr] at hr'
    cases hr'
    exact hin p hu

/-! ## the executable well-formedness check implies `WF` -/

theorem lookup_mem {β} (k : Path) : ∀ (l : List (Path × β)) (v : β), l.lookup k = some v → (k, v) ∈ l := by
  intro l
  induction l with
  | nil => intro v h; simp [List.lookup] at h
  | cons kv l ih =>
    intro v h
    obtain ⟨k', v'⟩ := kv
    simp only [List.lookup] at h
    cases hk : k == k' with
    | true =>
      rw [hk] at h
      have : k = k' := by simpa using hk
      cases h
      subst this
      exact List.mem_cons_self ..
    | false =>
      rw [hk] at h
      exact List.mem_cons_of_mem _ (ih v h)

theorem wf_of_check (fs : Fs) (h : fs.wf = true) : WF fs := by
  intro p c hne
  cases hn : fs.nodeAt (p ++ [c]) with
  | none => exact absurd hn hne
  | some n =>
    have hlook : fs.nodes.lookup (p ++ [c]) = some n := by
      unfold Fs.nodeAt at hn
      split at hn
      · rename_i heq; simp at heq
      · exact hn
    have hmem := lookup_mem (p ++ [c]) fs.nodes n hlook
    unfold Fs.wf at h
    simp only [Bool.and_eq_true, List.all_eq_true] at h
    have := (h.1 _ hmem).2
    simp only [List.dropLast_concat] at this
    unfold Fs.isDirAt at this
    split at this
    · assumption
    · cases this

/-! ## examples (kernel-evaluated): a tree with a link out, a link back in, `..`, loops -/

/-- `/site` is the root; `/outside` and `/site-private` are not part of it. `secret`: the bytes of `/outside/secret.txt` -/
def exFs (secret : List Nat) : Fs := ⟨[
  (["outside".toList, "secret.txt".toList], .file secret),
  (["outside".toList], .dir),
  (["site-private".toList], .dir),
  (["site-private".toList, "secret.txt".toList], .file [1, 2, 3]),
  (["site".toList], .dir),
  (["site".toList, "top.txt".toList], .file [116, 111, 112]),
  (["site".toList, "a".toList], .dir),
  (["site".toList, "a".toList, "img 1.png".toList], .file [137, 80, 78, 71]),
  (["site".toList, "a".toList, "recipe.md".toList], .file [35]),
  (["site".toList, "a".toList, "link-inside.txt".toList], .symlink ["..".toList, "top.txt".toList] false),
  (["site".toList, "a".toList, "link-outside.txt".toList],
    .symlink ["..".toList, "..".toList, "outside".toList, "secret.txt".toList] false),
  (["site".toList, "a".toList, "dir-outside".toList], .symlink ["".toList, "outside".toList] true),
  (["site".toList, "a".toList, "dir-inside".toList], .symlink ["".toList, "site".toList] true),
  (["site".toList, "a".toList, "loop".toList], .symlink ["loop".toList] false),
  (["site".toList, "a".toList, "l1".toList], .symlink ["l2".toList] false),
  (["site".toList, "a".toList, "l2".toList], .symlink ["l1".toList] false),
  (["site".toList, "a".toList, "k".toList],
    .symlink ["nope".toList, "..".toList, "l1".toList, "..".toList, "link-outside.txt".toList] false),
  (["site".toList, "a".toList, "kk".toList], .symlink ["loop".toList, "..".toList, "k".toList] false),
  (["alias".toList], .symlink ["site".toList] false)]⟩

def canary : List Nat := [67, 65, 78, 65, 82, 89]
def exRoot : Path := ["site".toList]
def exDir : Path := ["site".toList, "a".toList]
def ex (url : String) : Outcome := decideLink (exFs canary) exRoot exDir url.toList

example : (exFs canary).wf = true := by decide +kernel
-- ordinary files, spelled in several ways
example : ex "img%201.png" = .asset ["a".toList, "img 1.png".toList] [137, 80, 78, 71] := by decide +kernel
example : ex "./img 1.png?x=1#f" = .asset ["a".toList, "img 1.png".toList] [137, 80, 78, 71] := by decide +kernel
example : ex "/top.txt" = .asset ["top.txt".toList] [116, 111, 112] := by decide +kernel
example : ex "../top.txt" = .asset ["top.txt".toList] [116, 111, 112] := by decide +kernel
example : ex "missing.png" = .missing := by decide +kernel
example : ex "a%00b" = .missing := by decide +kernel
example : ex "http://example.com/x.png" = .untouched := by decide +kernel
example : ex "//example.com/x.png" = .untouched := by decide +kernel
example : ex "#frag" = .untouched := by decide +kernel
example : ex "." = .page exDir := by decide +kernel
example : ex "recipe.md#top" = .page (exDir ++ ["recipe.md".toList]) := by decide +kernel
-- a symbolic link out of the root: refused, as a file link and as a directory link
example : ex "link-outside.txt" = .external := by decide +kernel
example : ex "dir-outside/secret.txt" = .external := by decide +kernel
-- a symbolic link back into the root: served, under the target's name
example : ex "link-inside.txt" = .asset ["top.txt".toList] [116, 111, 112] := by decide +kernel
example : ex "dir-inside/a/../top.txt" = .asset ["top.txt".toList] [116, 111, 112] := by decide +kernel
-- `..` out of the root: refused, however it is written; out and back in: served
example : ex "../../outside/secret.txt" = .external := by decide +kernel
example : ex "/../outside/secret.txt" = .external := by decide +kernel
example : ex "%2e%2e/%2E%2E/outside/secret.txt" = .external := by decide +kernel
example : ex "../../site-private/secret.txt" = .external := by decide +kernel
example : ex "../../site/top.txt" = .asset ["top.txt".toList] [116, 111, 112] := by decide +kernel
-- `..` after a directory link is taken where the link leads (`/outside/..` is `/`), not where it stands
example : ex "dir-outside/../site/top.txt" = .asset ["top.txt".toList] [116, 111, 112] := by decide +kernel
example : ex "dir-outside/../outside/secret.txt" = .external := by decide +kernel
-- the root itself reached through a link: the resolved root counts
example : decideLink (exFs canary) ["alias".toList] ["alias".toList, "a".toList] "../top.txt".toList =
    .asset ["top.txt".toList] [116, 111, 112] := by decide +kernel
-- loops: `RuntimeError` in the real code
example : ex "loop" = .loop := by decide +kernel
example : ex "loop/x" = .loop := by decide +kernel
example : ex "l1" = .loop := by decide +kernel
example : resolve (exFs canary) (exDir ++ ["l1".toList]) = none := by decide +kernel
-- a loop followed by `..`: CPython's `realpath` gives up, `abspath` cancels `loop/..` lexically, and the path that
-- comes back is NOT resolved ...
example : resolvePy (exFs canary) (exDir ++ ["loop".toList, "..".toList, "link-outside.txt".toList]) =
    .ok (exDir ++ ["link-outside.txt".toList]) := by decide +kernel
-- ... so the check refuses it (`RuntimeError("Symlink loop from ...")`), however the link out is reached
example : ex "loop/../link-outside.txt" = .loop := by decide +kernel
example : ex "loop/../dir-outside/secret.txt" = .loop := by decide +kernel
example : decideEmbed (exFs canary) exRoot exDir "l1/../link-outside.txt".toList = .loop := by decide +kernel
example : ex "k" = .loop := by decide +kernel
example : ex "loop/../k" = .loop := by decide +kernel
example : ex "kk" = .loop := by decide +kernel
-- a fallback path that is physical is accepted: `/site/a/loop/../../top.txt` is `/site/top.txt`
example : ex "dir-inside/a/loop/../../top.txt" = .asset ["top.txt".toList] [116, 111, 112] := by decide +kernel
example : ex "loop/../img%201.png" = .asset ["a".toList, "img 1.png".toList] [137, 80, 78, 71] := by decide +kernel

/-! ## why the check is needed: the decisions without it serve a file from outside the root
    (observed with CPython 3.12.1 and the real functions at the commits named) -/

/-- the code up to commit 5662881 (a single `resolve()`): `loop/../link-outside.txt` is served from
    `/site/a/link-outside.txt`, a symbolic link to `/outside/secret.txt`, with the outside bytes -/
theorem single_resolve_leaks :
    decideLinkP1 (fun _ => false) (exFs canary) exRoot exDir "loop/../link-outside.txt".toList =
      .asset ["a".toList, "link-outside.txt".toList] canary ∧
    (exFs canary).stat (exRoot ++ ["a".toList, "link-outside.txt".toList]) = .ok ["outside".toList, "secret.txt".toList] := by
  decide +kernel

/-- commit 5662881 (`resolve().resolve()`) refuses that one ... -/
theorem double_resolve_refuses_the_first :
    decideLinkP2 (fun _ => false) (exFs canary) exRoot exDir "loop/../link-outside.txt".toList = .external := by
  decide +kernel

/-- ... but not a link whose *target* contains `..` behind a loop: `k -> nope/../l1/../link-outside.txt`. The first
    `resolve()` of `loop/../k` gives `/site/a/k` (`stat` says `ENOENT`, not `ELOOP`), the second one falls back again,
    to `/site/a/link-outside.txt`. Even the plain URL `kk` (`kk -> loop/../k`) is served with the outside bytes. -/
theorem double_resolve_leaks :
    decideLinkP2 (fun _ => false) (exFs canary) exRoot exDir "loop/../k".toList =
      .asset ["a".toList, "link-outside.txt".toList] canary ∧
    decideLinkP2 (fun _ => false) (exFs canary) exRoot exDir "kk".toList =
      .asset ["a".toList, "link-outside.txt".toList] canary ∧
    resolvePy (exFs canary) (exDir ++ ["loop".toList, "..".toList, "k".toList]) = .ok (exDir ++ ["k".toList]) ∧
    resolvePy2 (exFs canary) (exDir ++ ["loop".toList, "..".toList, "k".toList]) =
      .ok (exDir ++ ["link-outside.txt".toList]) := by
  decide +kernel

theorem exFs_wf_canary : WF (exFs canary) := wf_of_check _ (by decide +kernel)
theorem exFs_wf_other : WF (exFs [0]) := wf_of_check _ (by decide +kernel)

theorem not_contained_of_leak (decide : (Path → Bool) → Fs → Path → Path → Str → Outcome) (url : Str)
    (h : decide (fun _ => false) (exFs canary) exRoot exDir url = .asset ["a".toList, "link-outside.txt".toList] canary) :
    ¬ AssetsInsideRoot decide := by
  intro hc
  obtain ⟨rr, t, h1, h2, h3, _⟩ := hc (fun _ => false) (exFs canary) exRoot exDir url
    ["a".toList, "link-outside.txt".toList] canary exFs_wf_canary h
  have e : resolvePy (exFs canary) exRoot = .ok exRoot := by decide +kernel
  rw [e] at h1
  cases h1
  have e2 : (exFs canary).stat (exRoot ++ ["a".toList, "link-outside.txt".toList]) =
      .ok ["outside".toList, "secret.txt".toList] := by decide +kernel
  rw [e2] at h2
  cases h2
  revert h3
  decide +kernel

/-- containment is FALSE for the single `resolve()` ... -/
theorem single_resolve_not_contained : ¬ AssetsInsideRoot decideLinkP1 :=
  not_contained_of_leak _ _ single_resolve_leaks.1
/-- ... and for `resolve().resolve()` -/
theorem double_resolve_not_contained : ¬ AssetsInsideRoot decideLinkP2 :=
  not_contained_of_leak _ _ double_resolve_leaks.1

theorem exFs_nodeAt_other (p : Path) (hp : p ≠ ["outside".toList, "secret.txt".toList]) :
    (exFs canary).nodeAt p = (exFs [0]).nodeAt p := by
  unfold Fs.nodeAt
  cases p with
  | nil => rfl
  | cons a p =>
    simp only [exFs, List.lookup]
    have : (a :: p == ["outside".toList, "secret.txt".toList]) = false := by simpa using hp
    rw [this]

theorem interference_of_leak (decide : (Path → Bool) → Fs → Path → Path → Str → Outcome) (url : Str)
    (h : decide (fun _ => false) (exFs [0]) exRoot exDir url ≠ decide (fun _ => false) (exFs canary) exRoot exDir url) :
    ¬ NoOutsideBytes decide := by
  intro hc
  refine h (hc (fun _ => false) (exFs canary) (exFs [0]) exRoot exDir url exRoot exFs_wf_canary exFs_wf_other
    (by decide +kernel) ?_ ?_)
  · intro p
    by_cases hp : p = ["outside".toList, "secret.txt".toList]
    · subst hp; decide +kernel
    · unfold Fs.linkAt; rw [exFs_nodeAt_other p hp]
  · intro p hu
    apply exFs_nodeAt_other
    intro hp
    subst hp
    revert hu
    decide +kernel

/-- non-interference is FALSE for the single `resolve()`: two file systems that differ only in the bytes of
    `/outside/secret.txt` give different pages ... -/
theorem single_resolve_interferes : ¬ NoOutsideBytes decideLinkP1 :=
  interference_of_leak _ "loop/../link-outside.txt".toList (by decide +kernel)
/-- ... and for `resolve().resolve()` -/
theorem double_resolve_interferes : ¬ NoOutsideBytes decideLinkP2 :=
  interference_of_leak _ "loop/../k".toList (by decide +kernel)

end RG.C16
