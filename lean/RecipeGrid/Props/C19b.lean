import RecipeGrid.Props.C13b
import RecipeGrid.Props.C07b
import RecipeGrid.Model.Markdown
/-! C19.2 — an error in an embedded recipe is reported at its Markdown line.

    The Markdown front end compiles each recipe block with `k` newlines in front of its text, `k` being the number of
    document lines before the block's first code line (`Model/Markdown.paddedSource`).  Here:

    * the parser is position independent (`rule_shift`, `parse_pad`; all rules in `Lemmas/Shift.lean`): the padding
      moves every recorded offset by `k` and changes nothing else;
    * hence (`C13.compile_pad`) the compiler reports the same error `k` characters further on, and with C19.1
      (`pad_line`, `pad_extract`) that is `k` lines further down, at the same column, quoting the same text
      (`padded_error_line`, `markdown_error_line`). -/
namespace RG.C19

/-! ## the parser is position independent -/

/-- the key lemma, for any rule `p` of the grammar (instances: `Parser.Sh.stmt`, `Parser.Sh.expr`, `Parser.Sh.string`,
    `Parser.Sh.number`, … in `Lemmas/Shift.lean`): on `pre ++ s` from position `i + pre.length` the rule does what it
    does on `s` from `i`, with its value's offsets and its final position moved by `pre.length`.  The padding must
    not contain word characters, because `\b` looks one character back. -/
theorem rule_shift {α α' : Type} {g : α → α'} {p' : Parser.P α'} {p : Parser.P α} {pre : Str}
    (h : Parser.Sh pre g p' p) (hpre : ∀ c ∈ pre, isReWord c = false) (s : Str) (i : Nat) (z : Bool) :
    p' (pre ++ s).toArray ⟨i + pre.length, z⟩ =
      (p s.toArray ⟨i, z⟩).map (fun r => (g r.1, ⟨r.2.pos + pre.length, r.2.zero⟩)) :=
  h hpre s ⟨i, z⟩

/-- e.g. a statement in the middle of a padded text -/
theorem stmt_shift (pre s : Str) (hpre : ∀ c ∈ pre, isReWord c = false) (i : Nat) (z : Bool) :
    Parser.stmt (pre ++ s).toArray ⟨i + pre.length, z⟩ =
      (Parser.stmt s.toArray ⟨i, z⟩).map (fun r => (shiftStmt pre.length r.1, ⟨r.2.pos + pre.length, r.2.zero⟩)) :=
  rule_shift Parser.Sh.stmt hpre s i z

/-- the hypothesis on the padding is needed: after the padding `"a"` the text `"of b"` no longer starts at a word
    boundary … (`\b` before "of" fails) -/
example : Parser.wordBoundary ("a".toList ++ "of".toList).toArray ⟨0 + 1, false⟩ = none ∧
    Parser.wordBoundary "of".toList.toArray ⟨0, false⟩ = some ((), ⟨0, false⟩) := by decide +kernel

/-- **shift invariance of `parse`**: `k` newlines in front move every offset by `k` and change nothing else
    (the leading `sp?` of `recipe` swallows the padding) -/
theorem parse_pad (k : Nat) (s : Str) :
    parse (pad k s) =
      (match parse s with
       | .ok stmts => .ok (stmts.map (shiftStmt k))
       | r => r) :=
  _root_.RG.parse_pad k s

/-! ### examples -/

mutual
/-- structural equality of expressions, for the examples (`AExpr` has no derived `DecidableEq`) -/
def sameExpr : AExpr → AExpr → Bool
  | .step n1 i1, .step n2 i2 => n1 == n2 && sameExprs i1 i2
  | .ref n1 a1, .ref n2 a2 => n1 == n2 && a1 == a2
  | _, _ => false
def sameExprs : List AExpr → List AExpr → Bool
  | [], [] => true
  | e1 :: es1, e2 :: es2 => sameExpr e1 e2 && sameExprs es1 es2
  | _, _ => false
end

mutual
theorem eq_of_sameExpr : ∀ e1 e2 : AExpr, sameExpr e1 e2 = true → e1 = e2
  | .step n1 i1, .step n2 i2, h => by
    simp only [sameExpr, Bool.and_eq_true, beq_iff_eq] at h
    rw [h.1, eq_of_sameExprs i1 i2 h.2]
  | .ref n1 a1, .ref n2 a2, h => by
    simp only [sameExpr, Bool.and_eq_true, beq_iff_eq] at h
    rw [h.1, h.2]
  | .step _ _, .ref _ _, h => by simp [sameExpr] at h
  | .ref _ _, .step _ _, h => by simp [sameExpr] at h
theorem eq_of_sameExprs : ∀ l1 l2 : List AExpr, sameExprs l1 l2 = true → l1 = l2
  | [], [], _ => rfl
  | e1 :: es1, e2 :: es2, h => by
    simp only [sameExprs, Bool.and_eq_true] at h
    rw [eq_of_sameExpr e1 e2 h.1, eq_of_sameExprs es1 es2 h.2]
  | [], _ :: _, h => by simp [sameExprs] at h
  | _ :: _, [], h => by simp [sameExprs] at h
end

def sameStmts : List AStmt → List AStmt → Bool
  | [], [] => true
  | s1 :: r1, s2 :: r2 => sameExpr s1.expr s2.expr && s1.outputs == s2.outputs && s1.named == s2.named && sameStmts r1 r2
  | _, _ => false

theorem eq_of_sameStmts : ∀ l1 l2 : List AStmt, sameStmts l1 l2 = true → l1 = l2
  | [], [], _ => rfl
  | ⟨e1, o1, n1⟩ :: r1, ⟨e2, o2, n2⟩ :: r2, h => by
    simp only [sameStmts, Bool.and_eq_true, beq_iff_eq] at h
    obtain ⟨⟨⟨he, ho⟩, hn⟩, hr⟩ := h
    rw [eq_of_sameExpr e1 e2 he, ho, hn, eq_of_sameStmts r1 r2 hr]
  | [], _ :: _, h => by simp [sameStmts] at h
  | _ :: _, [], h => by simp [sameStmts] at h

def sameParse : ParseResult → ParseResult → Bool
  | .ok l1, .ok l2 => sameStmts l1 l2
  | .syntaxError, .syntaxError => true
  | .zeroDivision, .zeroDivision => true
  | _, _ => false

theorem eq_of_sameParse (r1 r2 : ParseResult) (h : sameParse r1 r2 = true) : r1 = r2 := by
  cases r1 <;> cases r2 <;> simp only [sameParse] at h <;> first | rfl | cases h | skip
  rw [eq_of_sameStmts _ _ h]

/-- a recipe of two statements, padded by two lines: the AST of the padded text is that of the text with the offsets
    moved by 2 — checked by evaluation, independently of `parse_pad`; the name `x` of the second statement is
    recorded at offset 10, resp. 12 -/
example : parse ("\n\n" ++ "x = 1 egg\nx = 2 eggs").toList = shiftParse 2 (parse "x = 1 egg\nx = 2 eggs".toList) :=
  eq_of_sameParse _ _ (by decide +kernel)
example : (match parse "x = 1 egg\nx = 2 eggs".toList with
      | .ok [_, s2] => s2.outputs
      | _ => none) = some [[.sub 10 ['x']]] ∧
    (match parse ("\n\n" ++ "x = 1 egg\nx = 2 eggs").toList with
      | .ok [_, s2] => s2.outputs
      | _ => none) = some [[.sub 12 ['x']]] := by decide +kernel
/-- nested steps, quantities with units, proportions, interpolated numbers, quoted strings -/
example : parse (pad 3 "sauce := mix({2 tbsp} oil, 1 1/2 cups of 'plain flour', chop(3 eggs))\nfry(1/2 of the sauce, {a {4} b}), season\n".toList) =
    shiftParse 3 (parse "sauce := mix({2 tbsp} oil, 1 1/2 cups of 'plain flour', chop(3 eggs))\nfry(1/2 of the sauce, {a {4} b}), season\n".toList) :=
  eq_of_sameParse _ _ (by decide +kernel)
/-- a text that does not parse does not parse when padded (`x = 2`: a quantity needs an ingredient) -/
example : sameParse (parse ("\n\n" ++ "x = 1 egg\nx = 2").toList) .syntaxError = true ∧
    sameParse (parse "x = 1 egg\nx = 2".toList) .syntaxError = true := by decide +kernel

/-! ## the reported line is the document line -/

theorem parse_nil_not_ok (stmts : List AStmt) : parse [] ≠ .ok stmts := by
  have h : sameParse (parse []) .syntaxError = true := by decide +kernel
  rw [eq_of_sameParse _ _ h]
  intro e; cases e

/-- **C19.2** if compiling the block texts `srcs` reports a located error in block `b` at offset `off` — that is at
    line `l`, column `c` of `srcs[b]` — then compiling the sources padded by `ks` reports the same kind of error in
    the same block, `ks[b]` lines further down (`l + ks[b]`), at the same column `c`, quoting the same text. -/
theorem padded_error_line (ks : List Nat) (srcs : List Str) (h : ks.length = srcs.length) (b off : Nat)
    (hc : compile srcs = .redefined b off ∨ compile srcs = .proportion b off) :
    ∃ s k, srcs[b]? = some s ∧ ks[b]? = some k ∧ (List.zipWith pad ks srcs)[b]? = some (pad k s) ∧
      (compile srcs = .redefined b off → compile (List.zipWith pad ks srcs) = .redefined b (off + k)) ∧
      (compile srcs = .proportion b off → compile (List.zipWith pad ks srcs) = .proportion b (off + k)) ∧
      offsetToLineCol (pad k s) (off + k) = ((offsetToLineCol s off).1 + k, (offsetToLineCol s off).2) ∧
      extractLine (pad k s) ((offsetToLineCol s off).1 + k) = extractLine s (offsetToLineCol s off).1 := by
  obtain ⟨s, stmts, hs, hp, _⟩ := (C07.compile_error_provenance srcs).2 b off hc
  have hb : b < srcs.length := (List.getElem?_eq_some_iff.mp hs).1
  have hbk : b < ks.length := by omega
  have hne : s ≠ [] := by
    intro e; subst e; exact parse_nil_not_ok stmts hp
  have hk : ks.getD b 0 = ks[b] := by simp [List.getD, hbk]
  have hsb : s = srcs[b] := by
    rw [List.getElem?_eq_getElem hb] at hs; cases hs; rfl
  refine ⟨s, ks[b], hs, List.getElem?_eq_getElem hbk, ?_, ?_, ?_, ?_, ?_⟩
  · rw [List.getElem?_eq_getElem (by simp; omega), List.getElem_zipWith, hsb]
  · intro e; rw [C13.compile_pad ks srcs h, e]; simp only [shiftResult, hk]
  · intro e; rw [C13.compile_pad ks srcs h, e]; simp only [shiftResult, hk]
  · rw [Nat.add_comm off]; exact pad_line_of_ne_nil _ s off hne
  · exact pad_extract _ s _ (C07.offset_located s off).1 hne

/-- the same, for an offset inside the block's text, read off `CompileResult.toSexp`-style: line, column and quoted
    line of the error for the padded sources, from those for the block texts -/
theorem padded_error_report (ks : List Nat) (srcs : List Str) (h : ks.length = srcs.length) (b off : Nat)
    (hc : compile srcs = .redefined b off ∨ compile srcs = .proportion b off) :
    ∃ off', (compile (List.zipWith pad ks srcs) = .redefined b off' ∨
             compile (List.zipWith pad ks srcs) = .proportion b off') ∧
      let src := srcs[b]?.getD []
      let psrc := (List.zipWith pad ks srcs)[b]?.getD []
      let k := ks[b]?.getD 0
      (offsetToLineCol psrc off').1 = (offsetToLineCol src off).1 + k ∧
      (offsetToLineCol psrc off').2 = (offsetToLineCol src off).2 ∧
      extractLine psrc (offsetToLineCol psrc off').1 = extractLine src (offsetToLineCol src off).1 := by
  obtain ⟨s, k, hs, hk, hps, h1, h2, h3, h4⟩ := padded_error_line ks srcs h b off hc
  refine ⟨off + k, ?_, ?_⟩
  · rcases hc with e | e
    · exact Or.inl (h1 e)
    · exact Or.inr (h2 e)
  · simp only [hs, hk, hps, Option.getD_some, h3, h4, and_self]

/-! ## the padding chosen by the Markdown front end -/

/-- the number of newlines `get_line_number_corrected_source` puts in front of a block found at `pos`: the lines
    before the line of `pos`, and the fence line of a fenced block -/
def mdPadding (md : Str) (pos : Nat) (fenced : Bool) : Nat :=
  (offsetToLineCol (crToLf (normaliseCrLf md)) pos).1 - 1 + (if fenced then 1 else 0)

/-- the text of a block as it is compiled: a carriage return of its own is a line feed -/
theorem paddedSource_is_pad (md : Str) (pos : Nat) (fenced : Bool) (src : Str) :
    paddedSource md pos fenced src =
      pad ((offsetToLineCol (crToLf (normaliseCrLf md)) pos).1 - 1 + (if fenced then 1 else 0)) (crToLf src) := rfl

theorem zipWith_pad_map {α : Type} (f : α → Nat) (g : α → Str) (l : List α) :
    List.zipWith pad (l.map f) (l.map g) = l.map fun x => pad (f x) (g x) := by
  induction l with
  | nil => rfl
  | cons x xs ih => simp only [List.map_cons, List.zipWith_cons_cons, ih]

/-- the sources the Markdown front end compiles for the recipe blocks `(pos, fenced, text)` of a document -/
def mdSources (md : Str) (blocks : List (Nat × Bool × Str)) : List Str :=
  blocks.map fun x => paddedSource md x.1 x.2.1 x.2.2

/-- the result for a Markdown document is the result for its block texts (C13.2) … -/
theorem markdown_compile (md : Str) (blocks : List (Nat × Bool × Str)) :
    compile (mdSources md blocks) =
      shiftResult (blocks.map fun x => mdPadding md x.1 x.2.1) (compile (blocks.map fun x => crToLf x.2.2)) := by
  rw [← C13.compile_pad _ _ (by simp), zipWith_pad_map]
  rfl

/-- … and **C19.2**: a located error at line `l`, column `c` of the text of block `b` is reported at line
    `l + mdPadding …` — with `H_marko` (`pos` lies on the block's first code line, resp. on its opening fence line)
    that is the document line of the offending token — at the same column, quoting the same text. -/
theorem markdown_error_line (md : Str) (blocks : List (Nat × Bool × Str)) (b off : Nat)
    (hc : compile (blocks.map fun x => crToLf x.2.2) = .redefined b off ∨
          compile (blocks.map fun x => crToLf x.2.2) = .proportion b off) :
    ∃ pos fenced src, blocks[b]? = some (pos, fenced, src) ∧
      (mdSources md blocks)[b]? = some (paddedSource md pos fenced src) ∧
      (compile (blocks.map fun x => crToLf x.2.2) = .redefined b off →
        compile (mdSources md blocks) = .redefined b (off + mdPadding md pos fenced)) ∧
      (compile (blocks.map fun x => crToLf x.2.2) = .proportion b off →
        compile (mdSources md blocks) = .proportion b (off + mdPadding md pos fenced)) ∧
      offsetToLineCol (paddedSource md pos fenced src) (off + mdPadding md pos fenced) =
        ((offsetToLineCol (crToLf src) off).1 + mdPadding md pos fenced, (offsetToLineCol (crToLf src) off).2) ∧
      extractLine (paddedSource md pos fenced src) ((offsetToLineCol (crToLf src) off).1 + mdPadding md pos fenced) =
        extractLine (crToLf src) (offsetToLineCol (crToLf src) off).1 := by
  obtain ⟨s, k, hs, hk, hps, h1, h2, h3, h4⟩ :=
    padded_error_line (blocks.map fun x => mdPadding md x.1 x.2.1) (blocks.map fun x => crToLf x.2.2) (by simp) b off hc
  rw [List.getElem?_map] at hs hk
  cases hb : blocks[b]? with
  | none => rw [hb] at hs; cases hs
  | some x =>
    obtain ⟨pos, fenced, src⟩ := x
    rw [hb] at hs hk
    simp only [Option.map_some, Option.some.injEq] at hs hk
    subst hs hk
    rw [zipWith_pad_map] at hps h1 h2
    exact ⟨pos, fenced, src, rfl, hps, h1, h2, h3, h4⟩

/-- non-vacuity: the redefinition in line 2 of a block that starts on document line 6 (a fenced block whose fence is
    on line 5, so padded by 5) is reported on line 7, column 1, quoting `x = 2 eggs` -/
example :
    compile ["x = 1 egg\nx = 2 eggs".toList] = .redefined 0 10 ∧
    offsetToLineCol "x = 1 egg\nx = 2 eggs".toList 10 = (2, 1) ∧
    compile [pad 5 "x = 1 egg\nx = 2 eggs".toList] = .redefined 0 (10 + 5) ∧
    offsetToLineCol (pad 5 "x = 1 egg\nx = 2 eggs".toList) (10 + 5) = (2 + 5, 1) ∧
    extractLine (pad 5 "x = 1 egg\nx = 2 eggs".toList) (2 + 5) = some "x = 2 eggs".toList := by decide +kernel

/-- the same through `paddedSource`: a fenced block whose opening fence is on line 3 of the document -/
example :
    let md := "Title\n\n```recipe\nx = 1 egg\nx = 2 eggs\n```\n".toList
    mdPadding md 7 true = 3 ∧
    compile (mdSources md [(7, true, "x = 1 egg\nx = 2 eggs\n".toList)]) = .redefined 0 (10 + 3) ∧
    offsetToLineCol (paddedSource md 7 true "x = 1 egg\nx = 2 eggs\n".toList) (10 + 3) = (5, 1) ∧
    extractLine md 5 = some "x = 2 eggs".toList := by decide +kernel

end RG.C19
