import RecipeGrid.Lemmas.Markdown
/-! C13 — Markdown front end: (1) code blocks are grouped into independent recipes as documented;
    (3) the chained `str.replace` of placeholders in `MarkdownRecipe.render` is a token-level substitution
    whenever every placeholder occurs only at its own holes, so the result mentions no placeholder and does
    not depend on the placeholders chosen. -/
namespace RG.C13

/-! ## C13.1 grouping -/

/-- the recipe blocks of a document, by index, in document order -/
def recipeIndices (blocks : List CodeBlockKind) : List Nat :=
  (blocks.zipIdx.filter (·.1.isRecipe)).map (·.2)

theorem group_flatten (blocks : List CodeBlockKind) : (groupBlocks blocks).flatten = recipeIndices blocks := by
  simp [groupBlocks, recipeIndices, groupBlocksAux_flatten, finGroups]

theorem group_nonempty (blocks : List CodeBlockKind) : ∀ g ∈ groupBlocks blocks, g ≠ [] :=
  groupBlocksAux_nonempty _ _ (by simp)

theorem group_heads (blocks : List CodeBlockKind) :
    (groupBlocks blocks).map (·.head?) =
      ((recipeIndices blocks).zipIdx.filter
        (fun x => decide (x.2 = 0 ∨ blocks[x.1]?.map (·.startsNew) = some true))).map (fun x => some x.1) := by
  unfold groupBlocks recipeIndices
  rw [groupBlocksAux_heads_nil, heads_spec_eq, List.zipIdx_map, List.filter_map, List.map_map]
  congr 1
  apply List.filter_congr
  rintro ⟨⟨k, i⟩, n⟩ hx
  have h1 : (k, i) ∈ blocks.zipIdx.filter (·.1.isRecipe) := by
    have := List.mem_zipIdx_iff_getElem?.mp hx
    exact List.mem_of_getElem? this
  have h2 : blocks[i]? = some k := by
    have := (List.mem_filter.mp h1).1
    simpa using List.mem_zipIdx_iff_getElem?.mp this
  by_cases hn : n = 0 <;> simp [h2, hn]

/-- pointwise reading: block `i` heads a group iff it is the first recipe block or a `new-recipe` block -/
theorem group_head_iff (blocks : List CodeBlockKind) (i : Nat) :
    (∃ g ∈ groupBlocks blocks, g.head? = some i) ↔
      ∃ n, (recipeIndices blocks)[n]? = some i ∧ (n = 0 ∨ blocks[i]?.map (·.startsNew) = some true) := by
  have h := group_heads blocks
  have : (∃ g ∈ groupBlocks blocks, g.head? = some i) ↔ some i ∈ (groupBlocks blocks).map (·.head?) := by
    simp [List.mem_map]
  rw [this, h]
  simp only [List.mem_map, List.mem_filter, decide_eq_true_eq, Option.some.injEq]
  constructor
  · rintro ⟨⟨j, n⟩, ⟨hm, hc⟩, rfl⟩
    exact ⟨n, List.mem_zipIdx_iff_getElem?.mp hm, hc⟩
  · rintro ⟨n, hn, hc⟩
    exact ⟨(i, n), ⟨List.mem_zipIdx_iff_getElem?.mpr hn, hc⟩, rfl⟩

theorem isRecipe_iff (k : CodeBlockKind) :
    k.isRecipe = true ↔ k = .indented ∨ k = .fenced "recipe".toList ∨ k = .fenced "new-recipe".toList := by
  cases k <;> simp [CodeBlockKind.isRecipe]

theorem startsNew_iff (k : CodeBlockKind) : k.startsNew = true ↔ k = .fenced "new-recipe".toList := by
  cases k <;> simp [CodeBlockKind.startsNew]

example : groupBlocks [.indented, .fenced "python".toList, .fenced "recipe".toList, .fenced "new-recipe".toList, .indented]
    = [[0, 2], [3, 4]] := by decide
example : groupBlocks [.fenced "new-recipe".toList, .fenced "new-recipe".toList] = [[0], [1]] := by decide
example : groupBlocks [.fenced "sh".toList] = [] := by decide

/-! ## C13.3 placeholder substitution -/

/-- unconditional laws of `replaceAll` (Python `str.replace`); the fuel of the model is immaterial -/
theorem replaceAll_nil_pat (v s : Str) : replaceAll [] v s = s := _root_.RG.replaceAll_nil_pat v s
theorem replaceAll_nil (p v : Str) : replaceAll p v [] = [] := _root_.RG.replaceAll_nil p v
/-- leftmost, non-overlapping: at an occurrence write the value and skip the pattern, otherwise copy one character -/
theorem replaceAll_unfold (p v : Str) (hp : p ≠ []) (c : Char) (rest : Str) :
    replaceAll p v (c :: rest) =
      if isPrefixOfStr p (c :: rest) then v ++ replaceAll p v ((c :: rest).drop p.length) else c :: replaceAll p v rest := by
  split
  · rename_i h; exact replaceAll_of_prefix v hp h
  · rename_i h; exact replaceAll_of_not_prefix v hp (by simpa using h)
/-- `pat in s` means: `pat` is a prefix of some remainder of `s` -/
theorem isInfixOfStr_iff (p s : Str) : isInfixOfStr p s = true ↔ ∃ k, isPrefixOfStr p (s.drop k) = true :=
  _root_.RG.isInfixOfStr_iff p s
theorem isPrefixOfStr_iff (p s : Str) : isPrefixOfStr p s = true ↔ ∃ t, s = p ++ t := _root_.RG.isPrefixOfStr_iff p s
theorem replaceAll_no_occurrence (p v s : Str) (h : ¬ isInfixOfStr p s = true) : replaceAll p v s = s :=
  _root_.RG.replaceAll_no_occurrence p v s (by simpa using h)
/-- text before the first occurrence is copied -/
theorem replaceAll_append_lit (p v : Str) (hp : p ≠ []) (s rest : Str)
    (h : ∀ k, k < s.length → isPrefixOfStr p ((s ++ rest).drop k) = false) :
    replaceAll p v (s ++ rest) = s ++ replaceAll p v rest := replaceAll_append_of_no_occ p v hp s rest h
/-- an occurrence at the front is replaced and skipped -/
theorem replaceAll_append_pat (p v : Str) (hp : p ≠ []) (rest : Str) :
    replaceAll p v (p ++ rest) = v ++ replaceAll p v rest := replaceAll_prefix_append p v hp rest

inductive Tok where
  | lit (s : Str)
  | hole (i : Nat)
deriving Repr, DecidableEq

/-- the text of a template when hole `i` is written as `ph i` -/
def flattenT (ph : Nat → Str) : List Tok → Str
  | [] => []
  | .lit s :: t => s ++ flattenT ph t
  | .hole i :: t => ph i ++ flattenT ph t

/-- token-level substitution: hole `i` is written as its value -/
def fill (val : Nat → Str) (t : List Tok) : Str := flattenT val t

/-- all start offsets at which `p` occurs in `s` -/
def occurrences (p s : Str) : List Nat :=
  (List.range (s.length + 1)).filter (fun k => isPrefixOfStr p (s.drop k))

/-- start offsets (in the flattened text) of the `hole i` tokens -/
def holeOffsets (i : Nat) (ph : Nat → Str) : List Tok → List Nat
  | [] => []
  | .lit s :: t => (holeOffsets i ph t).map (· + s.length)
  | .hole j :: t => (if j = i then [0] else []) ++ (holeOffsets i ph t).map (· + (ph j).length)

/-- every occurrence of `p` in the flattened text is exactly a `hole i` token -/
def OnlyAtHoles (p : Str) (i : Nat) (ph : Nat → Str) (t : List Tok) : Prop :=
  occurrences p (flattenT ph t) = holeOffsets i ph t

instance (p : Str) (i : Nat) (ph : Nat → Str) (t : List Tok) : Decidable (OnlyAtHoles p i ph t) :=
  inferInstanceAs (Decidable (_ = _))

theorem occurrences_append (p s rest : Str) :
    occurrences p (s ++ rest) =
      (List.range s.length).filter (fun k => isPrefixOfStr p ((s ++ rest).drop k)) ++
        (occurrences p rest).map (· + s.length) :=
  range_filter_drop_append (isPrefixOfStr p) s rest

theorem replaceAll_hole (p v : Str) (hp : p ≠ []) (t : List Tok) (i : Nat) (ph : Nat → Str) (hpi : ph i = p)
    (hOnly : OnlyAtHoles p i ph t) :
    replaceAll p v (flattenT ph t) = flattenT (fun j => if j = i then v else ph j) t := by
  induction t with
  | nil => simp [flattenT, replaceAll_nil]
  | cons tok t ih =>
    have key : ∀ (s : Str) (X : List Nat), (∀ x ∈ X, x < s.length) →
        occurrences p (s ++ flattenT ph t) = X ++ (holeOffsets i ph t).map (· + s.length) →
        (List.range s.length).filter (fun k => isPrefixOfStr p ((s ++ flattenT ph t).drop k)) = X ∧
          OnlyAtHoles p i ph t := by
      intro s X hX h
      rw [occurrences_append] at h
      exact append_map_add_inj (by intro x hx; simpa using (List.mem_filter.mp hx).1) hX h
    cases tok with
    | lit s =>
      simp only [flattenT]
      obtain ⟨h1, h2⟩ := key s [] (by simp) (by simpa [OnlyAtHoles, flattenT, holeOffsets] using hOnly)
      rw [replaceAll_append_of_no_occ p v hp, ih h2]
      intro k hk
      have := List.filter_eq_nil_iff.mp h1 k (by simpa using hk)
      simpa using this
    | hole j =>
      simp only [flattenT]
      by_cases hj : j = i
      · subst hj
        obtain ⟨_, h2⟩ := key (ph j) [0] (by
            have hl : 0 < p.length := List.length_pos_iff.mpr hp
            simpa [hpi] using hl)
          (by simpa [OnlyAtHoles, flattenT, holeOffsets] using hOnly)
        rw [hpi, replaceAll_prefix_append p v hp, ih h2]
        simp
      · obtain ⟨h1, h2⟩ := key (ph j) [] (by simp) (by simpa [OnlyAtHoles, flattenT, holeOffsets, hj] using hOnly)
        rw [replaceAll_append_of_no_occ p v hp, ih h2]
        · simp [hj]
        · intro k hk
          have := List.filter_eq_nil_iff.mp h1 k (by simpa using hk)
          simpa using this


/-- `html.replace(ph 0, v₀).replace(ph 1, v₁)…`: the placeholders `ph n, ph (n+1), …` replaced one after the other -/
def chainFrom (ph : Nat → Str) : Nat → List Str → Str → Str
  | _, [], s => s
  | n, v :: vs, s => chainFrom ph (n + 1) vs (replaceAll (ph n) v s)
def chainReplace (ph : Nat → Str) (vals : List Str) (s : Str) : Str := chainFrom ph 0 vals s

/-- the holes after `n` replacements: the first `n` carry their values, the rest still their placeholders -/
def filledUpTo (ph : Nat → Str) (vals : List Str) (n : Nat) : Nat → Str :=
  fun j => if j < n then vals.getD j [] else ph j

/-- every replacement of the chain meets, in the *current* text, its placeholder only at its own holes -/
def ChainOK (ph : Nat → Str) (vals : List Str) (t : List Tok) : Prop :=
  ∀ n, n < vals.length → ph n ≠ [] ∧ OnlyAtHoles (ph n) n (filledUpTo ph vals n) t

instance (ph : Nat → Str) (vals : List Str) (t : List Tok) : Decidable (ChainOK ph vals t) :=
  inferInstanceAs (Decidable (∀ n, n < vals.length → _))

/-- every hole of the template has a value -/
def HolesBelow (n : Nat) (t : List Tok) : Prop := ∀ tok ∈ t, match tok with | .hole i => i < n | .lit _ => True

theorem chainFrom_filledUpTo (t : List Tok) (vals : List Str) (ph : Nat → Str) (h : ChainOK ph vals t) :
    ∀ d n, n + d = vals.length →
      chainFrom ph n (vals.drop n) (flattenT (filledUpTo ph vals n) t) = flattenT (filledUpTo ph vals vals.length) t := by
  intro d
  induction d with
  | zero =>
    intro n hn
    have : n = vals.length := by omega
    subst this
    simp [chainFrom]
  | succ d ih =>
    intro n hn
    have hlt : n < vals.length := by omega
    rw [List.drop_eq_getElem_cons hlt]
    simp only [chainFrom]
    obtain ⟨hne, hOnly⟩ := h n hlt
    rw [replaceAll_hole (ph n) vals[n] hne t n (filledUpTo ph vals n) (by simp [filledUpTo]) hOnly]
    have : (fun j => if j = n then vals[n] else filledUpTo ph vals n j) = filledUpTo ph vals (n + 1) := by
      funext j
      unfold filledUpTo
      by_cases hj : j = n
      · subst hj; simp [hlt]
      · by_cases hj2 : j < n
        · have : j < n + 1 := by omega
          simp [hj, hj2, this]
        · have : ¬ j < n + 1 := by omega
          simp [hj, hj2, this]
    rw [this]
    exact ih (n + 1) (by omega)

theorem flattenT_congr (f g : Nat → Str) (t : List Tok) (n : Nat) (hb : HolesBelow n t) (h : ∀ i, i < n → f i = g i) :
    flattenT f t = flattenT g t := by
  induction t with
  | nil => rfl
  | cons tok t ih =>
    have ht : HolesBelow n t := fun x hx => hb x (List.mem_cons_of_mem _ hx)
    cases tok with
    | lit s => simp [flattenT, ih ht]
    | hole i =>
      have := hb (.hole i) (by simp)
      simp [flattenT, ih ht, h i this]

/-- replacing the placeholders one after the other = token-level substitution -/
theorem chainReplace_eq_filledUpTo (t : List Tok) (vals : List Str) (ph : Nat → Str) (h : ChainOK ph vals t) :
    chainReplace ph vals (flattenT ph t) = flattenT (filledUpTo ph vals vals.length) t := by
  have := chainFrom_filledUpTo t vals ph h vals.length 0 (by simp)
  have h0 : filledUpTo ph vals 0 = ph := by funext j; simp [filledUpTo]
  simpa [h0, chainReplace] using this

/-- C13.3 the rendered text is the template with every hole filled by its value: it mentions no placeholder -/
theorem render_no_residue (t : List Tok) (vals : List Str) (ph : Nat → Str) (h : ChainOK ph vals t)
    (hb : HolesBelow vals.length t) :
    chainReplace ph vals (flattenT ph t) = fill (fun i => vals.getD i []) t := by
  rw [chainReplace_eq_filledUpTo t vals ph h]
  exact flattenT_congr _ _ t vals.length hb (fun i hi => by simp [filledUpTo, hi])

/-- C13.3 the result does not depend on the placeholders chosen -/
theorem render_placeholder_invariant (t : List Tok) (vals : List Str) (ph ph' : Nat → Str)
    (h : ChainOK ph vals t) (h' : ChainOK ph' vals t) (hb : HolesBelow vals.length t) :
    chainReplace ph vals (flattenT ph t) = chainReplace ph' vals (flattenT ph' t) := by
  rw [render_no_residue t vals ph h hb, render_no_residue t vals ph' h' hb]



/-- the model's replacement loops (`renderDoc`: a fold of `replaceAll` over (placeholder, value) pairs) are `chainReplace` -/
theorem foldl_replaceAll_eq_chainFrom (pairs : List (Str × Str)) (ph : Nat → Str) (n : Nat) (s : Str)
    (hph : ∀ k, (h : k < pairs.length) → ph (n + k) = pairs[k].1) :
    pairs.foldl (fun h pv => replaceAll pv.1 pv.2 h) s = chainFrom ph n (pairs.map (·.2)) s := by
  induction pairs generalizing n s with
  | nil => rfl
  | cons pv rest ih =>
    have h0 := hph 0 (by simp)
    simp only [Nat.add_zero, List.getElem_cons_zero] at h0
    simp only [List.foldl_cons, List.map_cons, chainFrom, h0]
    apply ih
    intro k hk
    have := hph (k + 1) (by simpa using hk)
    simpa [Nat.add_assoc, Nat.add_comm 1 k] using this

theorem foldl_replaceAll_eq_chainReplace (pairs : List (Str × Str)) (s : Str) :
    pairs.foldl (fun h pv => replaceAll pv.1 pv.2 h) s =
      chainReplace (fun i => (pairs.map (·.1)).getD i []) (pairs.map (·.2)) s :=
  foldl_replaceAll_eq_chainFrom pairs _ 0 s (by intro k hk; simp [hk])

/-- the scaled-value loop of `renderDoc` is a `chainReplace` -/
theorem renderDoc_svs_loop (d : MdDoc) (k : Num) :
    d.svs.foldl (fun h (phs : Str × SVS) => replaceAll phs.1 (renderSvs (Svs.scale k phs.2)) h) d.html =
      chainReplace (fun i => (d.svs.map (·.1)).getD i []) (d.svs.map fun phs => renderSvs (Svs.scale k phs.2)) d.html := by
  have := foldl_replaceAll_eq_chainReplace (d.svs.map fun phs => (phs.1, renderSvs (Svs.scale k phs.2))) d.html
  simpa [List.foldl_map, Function.comp_def] using this

-- non-vacuity: a two-hole template; the chain is fine with distinct placeholders …
example : ChainOK (fun i => if i = 0 then "@A@".toList else "@B@".toList) ["1".toList, "22".toList]
    [.lit "x ".toList, .hole 0, .lit " y ".toList, .hole 1, .hole 0] := by decide
example : chainReplace (fun i => if i = 0 then "@A@".toList else "@B@".toList) ["1".toList, "22".toList]
    (flattenT (fun i => if i = 0 then "@A@".toList else "@B@".toList) [.lit "x ".toList, .hole 0, .lit " y ".toList, .hole 1, .hole 0])
    = "x 1 y 221".toList := by decide
-- … and is rejected when a placeholder also occurs in a literal, straddles a token boundary, or is shared
example : ¬ OnlyAtHoles "@A@".toList 0 (fun _ => "@A@".toList) [.lit "see @A@ ".toList, .hole 0] := by decide
example : ¬ OnlyAtHoles "aa".toList 0 (fun _ => "aa".toList) [.lit "a".toList, .hole 0] := by decide
example : ¬ OnlyAtHoles "@A@".toList 0 (fun _ => "@A@".toList) [.hole 0, .hole 1] := by decide
-- without the side condition `str.replace` is NOT token-level substitution
example : replaceAll "aa".toList "v".toList (flattenT (fun _ => "aa".toList) [.lit "a".toList, .hole 0]) ≠
    flattenT (fun _ => "v".toList) [.lit "a".toList, .hole 0] := by decide

end RG.C13
