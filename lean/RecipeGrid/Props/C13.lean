import RecipeGrid.Model.Markdown
namespace RG.C13
theorem groupBlocks_nil : groupBlocks [] = [] := by decide
end RG.C13
